(* The state machine of a node is exactly the sequence of payloads it has been handed since its last restore.
   Cluster level, executions without membership changes and without snapshots.
   Node level: a sweep of the pair (n_fsm, n_applies) over every function of the node reachable from [step]
   with a label other than LSnapshot and a request other than InstallSnapshot (relation FA: the pair is
   untouched); the apply loop (the only writer besides crash) appends the payload to the first and the
   (index, term, payload) triple to the second; crash empties both; restore without a snapshot file keeps both.
   World level: FOW, preserved by every step from a world without snapshot (NSW).
   (The read-only loop only reads n_fsm: its length goes into the answer.) *)
From RaftV Require Import Cluster.World Cluster.Statements Proofs.Frame Proofs.AESpec Proofs.CommitSpec.
From RaftV Require Import Proofs.ConfStatic Proofs.LogDefs Proofs.LogSeg Proofs.LogInv Proofs.LogFrame Proofs.NoSnap
                          Proofs.LogMatching.
Open Scope N_scope.

(* ================= the statement ================= *)
Definition fsm_ok (n : node) : Prop := n_fsm n = map (fun x : N * N * N => snd x) (n_applies n).

(* ================= node level ================= *)
Definition fsa (n : node) := (n_fsm n, n_applies n).

(* FA: the state machine and the apply history are untouched *)
(* (an inductive wrapper: the kernel compares the two nodes of an FA statement, it never computes on them) *)
Inductive FA (n n' : node) : Prop := FA_intro : fsa n' = fsa n -> FA n n'.
Lemma FA_eq n n' : FA n n' -> fsa n' = fsa n. Proof. intros [H]. exact H. Qed.
Lemma FA_refl n : FA n n. Proof. constructor. reflexivity. Qed.
Lemma FA_trans a b c : FA a b -> FA b c -> FA a c.
Proof. intros [H1] [H2]. constructor. rewrite H2. exact H1. Qed.

Lemma fo_FA n n' : FA n n' -> fsm_ok n -> fsm_ok n'.
Proof.
  intros [H]. unfold fsa, fsm_ok in *. injection H as H1 H2. rewrite H1, H2. exact (fun x => x).
Qed.

(* the base node is abstracted first: conversion on large node terms is slow *)
Ltac faf :=
  apply FA_intro;
  match goal with
  | |- fsa _ = fsa ?x => first [ is_var x; reflexivity
                             | let y := fresh "base" in generalize x; intro y; reflexivity
                             | reflexivity ]
  end.

(* ---------------- Handlers.v ---------------- *)
Lemma FA_tick n : FA n (snd (tick_write n)).
Proof.
  unfold tick_write. destruct (n_frozen n); [apply FA_refl|].
  destruct (n_budget n) as [k|]; [|apply FA_refl]. destruct (k =? 0); cbn [snd]; faf.
Qed.

Lemma FA_write (f : node -> node) n :
  (forall m, FA m (f m)) -> FA n (let (ok, n1) := tick_write n in if ok then f n1 else n1).
Proof.
  intros Hf. pose proof (FA_tick n) as H. destruct (tick_write n) as [ok n1]. cbn [snd] in H.
  destruct ok; [|exact H]. eapply FA_trans; [exact H|apply Hf].
Qed.

Lemma FA_persist n : FA n (persist n).
Proof. unfold persist. apply FA_write. intros m. faf. Qed.

Lemma FA_upd_log m f : FA m (m <| n_log ::= f |>). Proof. faf. Qed.

Lemma FA_append es : forall n, FA n (append_entries n es).
Proof.
  induction es as [|e es IH]; intros n; cbn [append_entries]; [apply FA_refl|].
  pose proof (FA_tick n) as H. destruct (tick_write n) as [ok n1]. cbn [snd] in H.
  destruct ok; [|exact H]. eapply FA_trans; [exact H|]. eapply FA_trans; [|apply IH]. apply FA_upd_log.
Qed.

Lemma FA_truncate n i : FA n (truncate_log n i).
Proof. unfold truncate_log. apply FA_write. intros m. apply FA_upd_log. Qed.

Lemma FA_compact n i : FA n (compact_log n i).
Proof. unfold compact_log. apply FA_write. intros m. apply FA_upd_log. Qed.

Lemma FA_fail o n : FA n (fail o n).
Proof. unfold fail. destruct (n_out n); [faf|apply FA_refl|apply FA_refl]. Qed.

Lemma FA_respond n f r : FA n (respond n f r).
Proof. unfold respond. destruct (n_frozen n); [apply FA_refl|]. destruct (existsb _ _); [apply FA_refl|faf]. Qed.
Lemma FA_respond_all fids : forall n r, FA n (respond_all n fids r).
Proof.
  induction fids as [|f fids IH]; intros n r; [apply FA_refl|].
  cbn [respond_all fold_left]. fold (respond_all (respond n f r) fids r).
  eapply FA_trans; [apply FA_respond|apply IH].
Qed.
Lemma FA_new_opmanager now n : FA n (new_opmanager now n). Proof. faf. Qed.
Lemma FA_notify n : FA n (notify_lost_leadership n).
Proof. unfold notify_lost_leadership. eapply FA_trans; apply FA_respond_all. Qed.
Lemma FA_cancel n : FA n (cancel_conf_change n).
Proof.
  unfold cancel_conf_change. destruct (n_cfg_fid n); [|apply FA_refl].
  eapply FA_trans; [apply FA_respond|faf].
Qed.

Lemma FA_new_follower n id nx : FA n (new_follower n id nx).
Proof. unfold new_follower. faf. Qed.

Lemma FA_new_followers nx ids : forall n, FA n (fold_left (fun m id => new_follower m id nx) ids n).
Proof.
  induction ids as [|id ids IH]; intros n; cbn [fold_left]; [apply FA_refl|].
  eapply FA_trans; [apply FA_new_follower|apply IH].
Qed.

Lemma FA_reset n : FA n (reset_snapshot_files n).
Proof. unfold reset_snapshot_files. faf. Qed.

Lemma FA_become_follower now n l t : FA n (become_follower now n l t).
Proof.
  unfold become_follower.
  eapply FA_trans; [|apply FA_cancel]. eapply FA_trans; [|apply FA_new_opmanager].
  eapply FA_trans; [|apply FA_notify]. eapply FA_trans; [|apply FA_reset].
  eapply FA_trans; [|apply FA_persist]. faf.
Qed.

Lemma FA_stepdown now n : FA n (stepdown now n).
Proof.
  unfold stepdown. eapply FA_trans; [|apply FA_cancel]. eapply FA_trans; [|apply FA_new_opmanager].
  eapply FA_trans; [|apply FA_notify]. faf.
Qed.

Lemma FA_next_configuration now n next : FA n (next_configuration now n next).
Proof.
  unfold next_configuration. destruct next as [nx|]; [|apply FA_fail].
  set (n1 := if is_member nx (n_id n) then n else _).
  assert (H1 : FA n n1).
  { subst n1. destruct (is_member nx (n_id n)); [apply FA_refl|].
    eapply FA_trans; [|apply FA_reset]. destruct (role_eqb (n_role n) Leader); [apply FA_stepdown|apply FA_refl]. }
  clearbody n1. eapply FA_trans; [exact H1|].
  match goal with |- FA n1 (fold_left ?f ?l ?n2 <| n_conf := ?c |>) =>
    apply FA_trans with n2; [|apply FA_trans with (fold_left f l n2); [apply FA_new_followers|]] end.
  - faf.
  - faf.
Qed.

Lemma FA_apply_configuration now n c : FA n (apply_configuration now n c).
Proof.
  unfold apply_configuration.
  assert (H : FA n (next_configuration now n (Some c) <| n_cconf := Some c |>)).
  { eapply FA_trans; [apply FA_next_configuration|]. faf. }
  destruct (n_cconf n) as [cc|]; [|exact H]. destruct (c_index c <=? c_index cc); [apply FA_refl|exact H].
Qed.

(* ---- AppendEntries ---- *)
Lemma FA_ae_scan now es : forall n n4 l, ae_scan now n es = Some (n4, l) -> FA n n4.
Proof.
  induction es as [|e es IH]; intros n n4 l H; cbn [ae_scan] in H.
  - injection H as <- <-. apply FA_refl.
  - destruct (last_index (n_log n) <? e_index e); [injection H as <- <-; apply FA_refl|].
    destruct (log_get (n_log n) (e_index e)) as [ex|] eqn:G; [|discriminate].
    destruct ((e_index ex =? e_index e) && negb (e_term ex =? e_term e)).
    + injection H as <- <-.
      destruct (e_index e <=? c_index (conf_of (truncate_log n (e_index e)))); [|apply FA_truncate].
      eapply FA_trans; [apply FA_truncate|apply FA_next_configuration].
    + eapply IH; eassumption.
Qed.

Lemma FA_signal_apply n : FA n (signal_apply n). Proof. unfold signal_apply. faf. Qed.

Lemma FA_append_entries now n q : FA n (fst (h_append_entries now n q)).
Proof.
  unfold h_append_entries.
  destruct (role_eqb (n_role n) Shutdown); [apply FA_refl|].
  destruct (ae_term q <? n_term n); [apply FA_refl|].
  set (n1 := n <| n_contact := now |> <| n_leader := Some (ae_leader q) |>).
  assert (H1 : FA n n1) by faf.
  set (n2 := if n_term n1 <? ae_term q then become_follower now n1 (ae_leader q) (ae_term q) else n1).
  assert (H2 : FA n1 n2).
  { subst n2. destruct (n_term n1 <? ae_term q); [apply FA_become_follower|apply FA_refl]. }
  set (n3 := if (ae_term q =? n_term n2) && _ then become_follower now n2 (ae_leader q) (ae_term q) else n2).
  assert (H3 : FA n2 n3).
  { subst n3. destruct ((ae_term q =? n_term n2) && _); [apply FA_become_follower|apply FA_refl]. }
  assert (H03 : FA n n3) by (eapply FA_trans; [exact H1|eapply FA_trans; eassumption]).
  clearbody n3. clear H1 H2 H3 n2 n1.
  destruct (ae_prev_index q <? n_lii n3); [exact H03|].
  destruct (next_index (n_log n3) <=? ae_prev_index q); [exact H03|].
  destruct ((n_lii n3 =? ae_prev_index q) && negb (n_lit n3 =? ae_prev_term q)); [exact H03|].
  match goal with |- FA n (fst (match ?c with _ => _ end)) => destruct c as [[idx|]|] end.
  - exact H03.
  - cbn [fst]. eapply FA_trans; [exact H03|apply FA_fail].
  - destruct (ae_scan now n3 (ae_entries q)) as [[n4 to_append]|] eqn:Es.
    + cbn [fst]. eapply FA_trans; [exact H03|].
      pose proof (FA_ae_scan _ _ _ _ _ Es) as H4.
      eapply FA_trans; [exact H4|]. eapply FA_trans; [apply FA_append|].
      match goal with |- FA _ (if ?c then _ else _) => destruct c end; [|apply FA_refl].
      eapply FA_trans; [|apply FA_signal_apply]. faf.
    + cbn [fst]. eapply FA_trans; [exact H03|apply FA_fail].
Qed.

(* ---- RequestVote ---- *)
Lemma FA_request_vote now n q : FA n (fst (h_request_vote now n q)).
Proof.
  unfold h_request_vote.
  destruct (role_eqb (n_role n) Shutdown); [apply FA_refl|].
  destruct (lease_valid now n || recent_contact now n); [apply FA_refl|].
  destruct (rv_term q <? n_term n); [apply FA_refl|].
  set (n1 := if negb (rv_prevote q) && (n_term n <? rv_term q) then become_follower now n (rv_cand q) (rv_term q) else n).
  assert (H1 : FA n n1).
  { subst n1. destruct (negb (rv_prevote q) && (n_term n <? rv_term q)); [apply FA_become_follower|apply FA_refl]. }
  clearbody n1.
  destruct (negb (rv_prevote q) && match n_vote n1 with Some v => negb (v =? rv_cand q) | None => false end); [exact H1|].
  destruct ((rv_last_term q <? last_term (n_log n1)) || _); [exact H1|].
  cbn [fst]. destruct (rv_prevote q); [exact H1|].
  eapply FA_trans; [exact H1|]. eapply FA_trans; [|apply FA_persist]. faf.
Qed.

(* ---------------- Leader.v ---------------- *)
Lemma FA_set_follower n id f : FA n (set_follower n id f).
Proof. unfold set_follower. faf. Qed.

Lemma FA_set_fobj n id g f : FA n (set_fobj n id g f).
Proof. unfold set_fobj. destruct (_ =? g); [apply FA_set_follower|faf]. Qed.

Lemma FA_bump n r : FA n (bump_round n r). Proof. unfold bump_round. faf. Qed.
Lemma FA_try_apply_ro now n s : FA n (try_apply_ro now n s). Proof. unfold try_apply_ro, signal_ro. faf. Qed.
Lemma FA_signal_commit n : FA n (signal_commit n). Proof. unfold signal_commit. faf. Qed.
Lemma FA_signal_ro n : FA n (signal_ro n). Proof. unfold signal_ro. faf. Qed.
Lemma FA_signal_election n : FA n (signal_election n). Proof. unfold signal_election. faf. Qed.
Lemma FA_signal_snapshot n : FA n (signal_snapshot n). Proof. unfold signal_snapshot. faf. Qed.

Lemma FA_send_ae_to_peers now n : FA n (send_ae_to_peers now n).
Proof.
  unfold send_ae_to_peers.
  set (n0 := n <| n_hb_rounds ::= N.succ |>).
  assert (H0 : FA n n0) by faf.
  set (n1 := if is_single (conf_of n) (n_id n) then _ else n0).
  assert (H1 : FA n0 n1).
  { subst n1. destruct (is_single (conf_of n) (n_id n)); [|apply FA_refl].
    eapply FA_trans; [|apply FA_try_apply_ro].
    destruct (n_commit n0 <? last_index (n_log n0)); [apply FA_signal_commit|apply FA_refl]. }
  clearbody n1. clearbody n0.
  unfold new_round. cbn [fst snd].
  eapply FA_trans; [exact H0|]. eapply FA_trans; [exact H1|]. faf.
Qed.

Lemma FA_upd_followers m f : FA m (m <| n_followers ::= f |>). Proof. faf. Qed.
Lemma FA_upd_role m r : FA m (m <| n_role := r |>). Proof. faf. Qed.

Lemma FA_become_leader now n : FA n (become_leader now n).
Proof.
  unfold become_leader.
  eapply FA_trans; [|apply FA_send_ae_to_peers].
  eapply FA_trans; [|apply FA_append].
  eapply FA_trans; [|apply FA_reset].
  eapply FA_trans; [|apply FA_upd_followers].
  eapply FA_trans; [|apply FA_new_opmanager].
  apply FA_upd_role.
Qed.

Lemma FA_send_rv_to_peers now n : FA n (send_rv_to_peers now n).
Proof.
  unfold send_rv_to_peers. destruct (is_single (conf_of n) (n_id n)).
  - eapply FA_trans; [|apply FA_become_leader].
    destruct (role_eqb (n_role n) PreCandidate); [|apply FA_refl].
    eapply FA_trans; [|apply FA_persist]. faf.
  - unfold new_round. faf.
Qed.

Lemma FA_election now n : FA n (l_election now n).
Proof.
  unfold l_election.
  set (n0 := n <| n_cv ::= _ |>).
  assert (H0 : FA n n0) by faf. clearbody n0.
  match goal with |- FA n (if ?c then _ else _) => destruct c end; [exact H0|].
  set (n1 := if role_eqb (n_role n0) Follower then n0 <| n_role := PreCandidate |> else n0).
  assert (H1 : FA n0 n1) by (subst n1; destruct (role_eqb (n_role n0) Follower); [faf|apply FA_refl]).
  clearbody n1.
  eapply FA_trans; [exact H0|]. eapply FA_trans; [exact H1|]. eapply FA_trans; [|apply FA_send_rv_to_peers].
  destruct (role_eqb (n_role n1) Candidate); [|apply FA_refl].
  eapply FA_trans; [|apply FA_persist]. faf.
Qed.

Lemma FA_rv_reply now n rid peer pv q p : FA n (l_rv_reply now n rid peer pv q p).
Proof.
  unfold l_rv_reply.
  destruct (role_eqb (n_role n) Shutdown); [apply FA_refl|].
  destruct (rv_term q <? n_term n); [apply FA_refl|].
  set (n1 := if rvr_granted p then bump_round n rid else n).
  assert (H1 : FA n n1) by (subst n1; destruct (rvr_granted p); [apply FA_bump|apply FA_refl]).
  clearbody n1.
  destruct (rv_term q <? rvr_term p).
  - eapply FA_trans; [exact H1|apply FA_become_follower].
  - eapply FA_trans; [exact H1|].
    set (n2 := if _ && role_eqb (n_role n1) PreCandidate then _ else n1).
    assert (H2 : FA n1 n2).
    { subst n2. match goal with |- FA _ (if ?c then _ else _) => destruct c end; [|apply FA_refl].
      eapply FA_trans; [|apply FA_signal_election]. faf. }
    match goal with |- FA _ (if ?c then _ else _) => destruct c end; [|exact H2].
    eapply FA_trans; [exact H2|apply FA_become_leader].
Qed.

(* ---- replication, sender side ---- *)
Lemma FA_is_send n peer : FA n (fst (l_is_send n peer)).
Proof.
  unfold l_is_send. destruct (negb (role_eqb (n_role n) Leader)); [apply FA_refl|].
  destruct (n_lii n =? 0); [apply FA_refl|].
  match goal with |- FA n (fst (match ?c with _ => _ end)) => destruct c as [[s o]|] end; cbn [fst].
  - apply FA_set_follower.
  - apply FA_fail.
Qed.

Lemma FA_is_reply now n peer g q resp : FA n (l_is_reply now n peer g q resp).
Proof.
  unfold l_is_reply. set (f := fobj n peer g). clearbody f.
  destruct (f_snap f) as [[s o]|]; [|apply FA_refl].
  destruct resp as [p|]; [|apply FA_refl].
  destruct (n_term n <? isr_term p); [apply FA_become_follower|].
  destruct (negb (isr_written p =? is_offset q)); [apply FA_set_fobj|].
  destruct (negb (is_done q)); [apply FA_refl|apply FA_set_fobj].
Qed.

Lemma FA_ae_send n peer : FA n (fst (l_ae_send n peer)).
Proof.
  unfold l_ae_send. destruct (_ || _); [apply FA_refl|].
  destruct (f_next (get_follower n peer) <=? n_lii n).
  - pose proof (FA_is_send n peer) as H. destruct (l_is_send n peer) as [n1 [q|]]; exact H.
  - destruct (next_index (n_log n) <? f_next (get_follower n peer)); cbn [fst]; [apply FA_fail|apply FA_refl].
Qed.

Lemma FA_ae_reply now n rid peer g q p : FA n (fst (l_ae_reply now n rid peer g q p)).
Proof.
  unfold l_ae_reply.
  destruct (_ || _); [apply FA_refl|].
  destruct (n_term n <? aer_term p); [apply FA_become_follower|].
  destruct (negb (ae_term q =? n_term n)); [apply FA_refl|].
  set (n1 := if is_voter (conf_of n) peer then bump_round n rid else n).
  set (n2 := if is_voter (conf_of n) peer && has_quorum (conf_of n1) (round_count n1 rid)
             then try_apply_ro now n1 (round_stamp n1 rid) else n1).
  assert (H1 : FA n n1) by (subst n1; destruct (is_voter (conf_of n) peer); [apply FA_bump|apply FA_refl]).
  assert (H2 : FA n n2).
  { subst n2. destruct (is_voter (conf_of n) peer && has_quorum (conf_of n1) (round_count n1 rid));
      [eapply FA_trans; [exact H1|apply FA_try_apply_ro]|exact H1]. }
  clearbody n2. clear H1 n1.
  set (f := fobj n2 peer g). clearbody f.
  destruct (negb (aer_success p)).
  - pose proof (FA_set_fobj n2 peer g (f <| f_next := aer_index p |>)) as H3.
    set (n3 := set_fobj n2 peer g _) in *. clearbody n3.
    destruct (aer_index p <=? n_lii n3); [|cbn [fst]; eapply FA_trans; eassumption].
    eapply FA_trans; [exact H2|]. eapply FA_trans; [exact H3|apply FA_is_send].
  - match goal with |- FA n (fst (if ?c then _ else _)) => destruct c end; cbn [fst]; [|exact H2].
    eapply FA_trans; [exact H2|].
    match goal with |- FA n2 (if ?c then signal_commit ?x else _) =>
      pose proof (FA_set_fobj n2 peer g _ : FA n2 x) as H3; destruct c end;
      [eapply FA_trans; [exact H3|apply FA_signal_commit]|exact H3].
Qed.

(* ---- loops other than the apply loop ---- *)
Lemma FA_commit now n : FA n (lp_commit now n).
Proof.
  unfold lp_commit. set (n0 := n <| n_cv ::= _ |>). assert (H0 : FA n n0) by faf. clearbody n0.
  destruct (negb (role_eqb (n_role n0) Leader)); [exact H0|].
  match goal with |- FA n (if ?c then _ else _) => destruct c end; [|exact H0].
  eapply FA_trans; [exact H0|]. eapply FA_trans; [|apply FA_send_ae_to_peers].
  eapply FA_trans; [|apply FA_signal_apply]. faf.
Qed.

Lemma FA_fold_respond (f : node -> rop -> node) ops : (forall m o, FA m (f m o)) -> forall n, FA n (fold_left f ops n).
Proof.
  intros Hf. induction ops as [|o ops IH]; intros n; cbn [fold_left]; [apply FA_refl|].
  eapply FA_trans; [apply Hf|apply IH].
Qed.

Lemma FA_ro now n : FA n (lp_ro now n).
Proof.
  unfold lp_ro. set (n0 := n <| n_cv ::= _ |>). assert (H0 : FA n n0) by faf. clearbody n0.
  destruct (_ || _); [exact H0|].
  eapply FA_trans; [exact H0|]. eapply FA_trans; [|apply FA_fold_respond].
  - faf.
  - intros m o. destruct (ro_type o); [apply FA_respond|apply FA_respond|].
    destruct (lease_valid now m); apply FA_respond.
Qed.

(* ---- client API, AddServer / RemoveServer included ---- *)
Lemma FA_upd_pending m f : FA m (m <| n_pending ::= f |>). Proof. faf. Qed.
Lemma FA_upd_sv m v : FA m (m <| n_should_verify := v |>). Proof. faf. Qed.
Lemma FA_upd_ro m f : FA m (m <| n_ro ::= f |>). Proof. faf. Qed.

Lemma FA_submit now n fid ty p : FA n (api_submit now n fid ty p).
Proof.
  unfold api_submit. destruct (negb (role_eqb (n_role n) Leader)); [apply FA_respond|].
  destruct ty.
  - eapply FA_trans; [|apply FA_send_ae_to_peers]. eapply FA_trans; [|apply FA_upd_pending].
    apply FA_append.
  - match goal with |- FA n (if ?c then _ else _) => destruct c end; [|apply FA_upd_ro].
    eapply FA_trans; [|apply FA_upd_sv]. eapply FA_trans; [|apply FA_send_ae_to_peers]. apply FA_upd_ro.
  - match goal with |- FA n (if ?c then _ else _) => destruct c end; [|apply FA_upd_ro].
    eapply FA_trans; [|apply FA_signal_ro]. apply FA_upd_ro.
Qed.

Lemma FA_append_configuration n c : FA n (fst (append_configuration n c)).
Proof. unfold append_configuration. cbn [fst]. apply FA_append. Qed.

Lemma FA_add_server now n fid id v : FA n (api_add_server now n fid id v).
Proof.
  unfold api_add_server. destruct (negb (role_eqb (n_role n) Leader)); [apply FA_respond|].
  destruct (negb (committed_this_term n)); [apply FA_respond|].
  destruct (pending_conf_change n); [apply FA_respond|].
  destruct (_ && _); [apply FA_respond|].
  match goal with |- FA n (let (n1, c') := append_configuration n ?c in _) =>
    pose proof (FA_append_configuration n c) as H1; destruct (append_configuration n c) as [n1 c'] end.
  cbn [fst] in H1. eapply FA_trans; [exact H1|]. eapply FA_trans; [|apply FA_send_ae_to_peers].
  eapply FA_trans; [|apply FA_new_follower]. faf.
Qed.

Lemma FA_remove_server now n fid id : FA n (api_remove_server now n fid id).
Proof.
  unfold api_remove_server. destruct (negb (role_eqb (n_role n) Leader)); [apply FA_respond|].
  destruct (negb (committed_this_term n)); [apply FA_respond|].
  destruct (pending_conf_change n); [apply FA_respond|].
  destruct (negb (is_member (conf_of n) id)); [apply FA_respond|].
  match goal with |- FA n (let (n1, _) := append_configuration n ?c in _) =>
    pose proof (FA_append_configuration n c) as H1; destruct (append_configuration n c) as [n1 c'] end.
  cbn [fst] in H1. eapply FA_trans; [exact H1|]. eapply FA_trans; [|apply FA_send_ae_to_peers]. faf.
Qed.

Lemma FA_heartbeat now n : FA n (l_heartbeat now n).
Proof. unfold l_heartbeat. destruct (_ || _); [apply FA_refl|apply FA_send_ae_to_peers]. Qed.

(* ---- lifecycle ---- *)
Lemma FA_api_start now n : FA n (api_start now n).
Proof.
  unfold api_start. destruct (negb _); [apply FA_refl|].
  match goal with |- FA n (fold_left ?f ?l ?n2 <| n_contact := _ |> <| n_role := _ |>) =>
    apply FA_trans with n2; [|apply FA_trans with (fold_left f l n2); [apply FA_new_followers|faf]] end.
  faf.
Qed.

Lemma FA_bootstrap n members : FA n (api_bootstrap n members).
Proof.
  unfold api_bootstrap. destruct (n_conf n); [apply FA_refl|].
  destruct (0 <? last_index (n_log n)); [apply FA_refl|].
  eapply FA_trans; [|apply FA_append]. faf.
Qed.

(* crash: the state machine instance is gone, a new one starts from nothing *)
Lemma crash_fsa n : fsa (crash n) = ([], []).
Proof. reflexivity. Qed.

Lemma crash_snaps n : n_snaps (crash n) = n_snaps n.
Proof. reflexivity. Qed.

Lemma fo_empty n : fsa n = ([], []) -> fsm_ok n.
Proof.
  unfold fsa, fsm_ok. intros H. injection H as H1 H2. rewrite H1, H2. reflexivity.
Qed.

Lemma fo_crash n : fsm_ok (crash n).
Proof. apply fo_empty. apply crash_fsa. Qed.

(* restore() without a snapshot file: only the configuration scan *)
Lemma FA_restore n : n_snaps n = [] -> FA n (restore n).
Proof.
  intros Hs. unfold restore.
  set (n1 := n <| n_open := true |> <| n_term := n_pterm n |> <| n_vote := n_pvote n |>).
  assert (H1 : FA n n1) by faf.
  assert (S1 : n_snaps n1 = []) by exact Hs.
  clearbody n1.
  assert (E : last (map Some (n_snaps n1)) None = None) by (rewrite S1; reflexivity).
  rewrite E.
  destruct (conf_scan _ _ _) as [c cc].
  eapply FA_trans; [exact H1|]. faf.
Qed.

Lemma fo_restart now n : n_snaps n = [] -> fsm_ok (restart_after_crash now n).
Proof.
  intros Hs. unfold restart_after_crash.
  pose proof (crash_fsa n) as Ha. pose proof (crash_snaps n) as Hc. rewrite Hs in Hc.
  set (m := crash n) in *. clearbody m.
  apply (fo_FA (new_opmanager now (restore m))); [apply FA_api_start|].
  apply (fo_FA (restore m)); [apply FA_new_opmanager|].
  apply (fo_FA m); [apply FA_restore, Hc|]. apply fo_empty, Ha.
Qed.

(* ---------------- the apply loop ---------------- *)
Lemma fo_apply_one now n : fsm_ok n -> fsm_ok (lp_apply_one now n).
Proof.
  intros Ha. destruct (log_get (n_log n) (n_applied n + 1)) as [e|] eqn:G.
  - pose proof (lp_apply_one_spec now n e G) as HS. cbn zeta in HS. destruct HS as [_ HK].
    set (n' := lp_apply_one now n) in *. clearbody n'.
    unfold fsm_ok in *.
    destruct (e_kind e) as [|p|c].
    + destruct HK as [-> ->]. exact Ha.
    + destruct HK as [-> ->]. rewrite map_app, Ha. reflexivity.
    + destruct HK as [-> ->]. exact Ha.
  - assert (E : forall m, m = lp_apply_one now n -> FA n m).
    { intros m ->. unfold lp_apply_one. rewrite G. apply FA_fail. }
    exact (fo_FA _ _ (E _ eq_refl) Ha).
Qed.

Lemma fo_apply_run now fuel : forall n, fsm_ok n -> fsm_ok (lp_apply_run fuel now n).
Proof.
  induction fuel as [|f IH]; intros n Ha; cbn [lp_apply_run]; [exact Ha|].
  match goal with |- fsm_ok (if ?c then _ else _) => destruct c end; [|exact Ha].
  apply IH. apply fo_apply_one. exact Ha.
Qed.

Lemma fo_apply now n : fsm_ok n -> fsm_ok (lp_apply now n).
Proof.
  intros Ha. unfold lp_apply. set (n0 := n <| n_cv ::= _ |>).
  assert (H0 : FA n n0) by faf. clearbody n0.
  pose proof (fo_apply_run now (N.to_nat (n_commit n0 - n_applied n0)) n0 (fo_FA _ _ H0 Ha)) as H1.
  set (n1 := lp_apply_run _ now n0) in *. clearbody n1.
  destruct (role_eqb (n_role n1) Leader); [|exact H1].
  exact (fo_FA _ _ (FA_signal_ro n1) H1).
Qed.

(* ================= world level ================= *)
Definition FOW (w : world) : Prop := forall n, In n (w_nodes w) -> fsm_ok n.

Lemma FOW_same w w' : w_nodes w' = w_nodes w -> FOW w -> FOW w'.
Proof. intros E H n Hn. rewrite E in Hn. apply H, Hn. Qed.

Lemma FOW_set_node w m : FOW w -> fsm_ok m -> FOW (set_node w m).
Proof.
  intros H Hm x Hx. unfold set_node in Hx. cbn [w_nodes set] in Hx. apply in_map_iff in Hx.
  destruct Hx as (y & <- & Hy). destruct (n_id y =? n_id m); [exact Hm|apply H, Hy].
Qed.

Lemma FOW_set_call w c0 : FOW w -> FOW (set_call w c0).
Proof. apply FOW_same. reflexivity. Qed.

Lemma FOW_new_call w src dst rid g q : FOW w -> FOW (new_call w src dst rid g q).
Proof. apply FOW_same. reflexivity. Qed.

Lemma FOW_drop w id : FOW w -> FOW (drop_calls_of w id).
Proof. apply FOW_same. reflexivity. Qed.

(* the section run by one node: what it may assume is that node's membership in the pre-world *)
Lemma FOW_on_node w id f : (forall m, In m (w_nodes w) -> fsm_ok m -> fsm_ok (f m)) -> FOW w -> FOW (on_node w id f).
Proof.
  intros Hf HW. unfold on_node. destruct (get_node w id) as [m|] eqn:G; [|exact HW].
  apply NoSnap.get_node_in in G. apply FOW_set_node; [exact HW|]. apply Hf; [exact G|apply HW, G].
Qed.

Lemma FOW_on_node_FA w id f : (forall m, FA m (f m)) -> FOW w -> FOW (on_node w id f).
Proof. intros Hf. apply FOW_on_node. intros m _. apply fo_FA, Hf. Qed.

Lemma FOW_step_task w m : In m (w_nodes w) -> FOW w -> FOW (step_task w m).
Proof.
  intros Hin HW. pose proof (HW m Hin) as Hm.
  unfold step_task. destruct (n_tasks m) as [|t rest]; [exact HW|].
  set (n0 := m <| n_tasks := rest |>).
  assert (H0 : fsm_ok n0) by (revert Hm; apply fo_FA; faf).
  clearbody n0. destruct t as [rid peer pv|rid peer].
  - destruct (l_rv_send n0 rid peer pv); [apply FOW_new_call|]; apply FOW_set_node; assumption.
  - pose proof (fo_FA _ _ (FA_ae_send n0 peer) H0) as H1.
    destruct (l_ae_send n0 peer) as [n1 [|q|q]]; cbn [fst] in H1;
      [|apply FOW_new_call|apply FOW_new_call]; apply FOW_set_node; assumption.
Qed.

(* the handler of a request that is not InstallSnapshot *)
Lemma fo_run_handler now n q : fsm_ok n -> req_ns q -> fsm_ok (fst (fst (run_handler now n q))).
Proof.
  intros H Hq. unfold run_handler. destruct q as [r|r|r].
  - pose proof (fo_FA _ _ (FA_append_entries now n r) H) as H1. destruct (h_append_entries now n r). exact H1.
  - pose proof (fo_FA _ _ (FA_request_vote now n r) H) as H1. destruct (h_request_vote now n r). exact H1.
  - destruct Hq.
Qed.

Lemma FOW_step_deliver w c dup : NSW w -> FOW w -> In c (w_calls w) -> FOW (step_deliver w c dup).
Proof.
  intros HN HW Hin. pose proof (ns_calls _ HN c Hin) as Hq. change (req_ns (c_req c)) in Hq.
  unfold step_deliver. destruct (get_node w (c_dst c)) as [n|] eqn:G;
    [|destruct dup; [exact HW|apply FOW_set_call; exact HW]].
  destruct (n_frozen n); [destruct dup; [exact HW|apply FOW_set_call; exact HW]|].
  pose proof (fo_run_handler (w_now w) n (c_req c) (HW n (NoSnap.get_node_in _ _ _ G)) Hq) as H1.
  destruct (run_handler (w_now w) n (c_req c)) as [[n1 resp] parked]. cbn [fst] in H1.
  pose proof (FOW_set_node w n1 HW H1) as HW1.
  destruct dup; [exact HW1|].
  destruct (n_frozen n1); [apply FOW_set_call; exact HW1|].
  destruct resp; apply FOW_set_call; exact HW1.
Qed.

Lemma FOW_step_reply w c failed : FOW w -> FOW (step_reply w c failed).
Proof.
  intros HW. unfold step_reply.
  set (w0 := set_call w (c <| c_state := CDone |>)).
  assert (H0 : FOW w0) by (apply FOW_set_call; exact HW).
  destruct (get_node w (c_src c)) as [n|] eqn:G; [|exact H0].
  pose proof (HW n (NoSnap.get_node_in _ _ _ G)) as Hn.
  destruct (n_frozen n); [exact H0|].
  destruct (c_req c) as [q|q|q];
    destruct (if failed then None else c_resp c) as [[p|p|p]|];
    try exact H0;
    try (apply FOW_set_node; [exact H0|exact (fo_FA _ _ (FA_rv_reply _ _ _ _ _ _ _) Hn)]);
    try (apply FOW_set_node; [exact H0|exact (fo_FA _ _ (FA_is_reply _ _ _ _ _ _) Hn)]).
  pose proof (fo_FA _ _ (FA_ae_reply (w_now w) n (c_round c) (c_dst c) (c_fgen c) q p) Hn) as H1.
  destruct (l_ae_reply (w_now w) n (c_round c) (c_dst c) (c_fgen c) q p) as [n1 [isq|]]; cbn [fst] in H1;
    [apply FOW_new_call|]; apply FOW_set_node; assumption.
Qed.

Lemma FA_upd_budget m k : FA m (m <| n_budget := k |>). Proof. faf. Qed.
Lemma FA_upd_pad m k : FA m (m <| n_pad := k |>). Proof. faf. Qed.
Lemma FA_upd_tasks m k : FA m (m <| n_tasks := k |>). Proof. faf. Qed.
Lemma FA_upd_cv m f : FA m (m <| n_cv ::= f |>). Proof. faf. Qed.

(* one step: membership changes are allowed here *)
Theorem step_FOW w l : nosnap_label l = true -> NSW w -> FOW w -> FOW (step w l).
Proof.
  intros Hs HN HW. destruct l; try discriminate Hs; cbn [step].
  - (* LTick *) eapply FOW_same; [|exact HW]; reflexivity.
  - (* LElection *) apply FOW_on_node_FA; [|exact HW]. intros m. destruct (is_up m); [apply FA_signal_election|apply FA_refl].
  - (* LHeartbeat *) apply FOW_on_node_FA; [|exact HW]. intros m. destruct (is_up m); [apply FA_heartbeat|apply FA_refl].
  - (* LDeliver *) destruct (get_call w c) as [cl|] eqn:G; [|exact HW]. apply NoSnap.get_call_in in G.
    destruct (c_state cl); try exact HW. apply FOW_step_deliver; assumption.
  - (* LDup *) destruct (get_call w c) as [cl|] eqn:G; [|exact HW]. apply NoSnap.get_call_in in G. apply FOW_step_deliver; assumption.
  - (* LReply *) destruct (get_call w c) as [cl|] eqn:G; [|exact HW].
    destruct (c_state cl); try exact HW. apply FOW_step_reply; assumption.
  - (* LFail *) destruct (get_call w c) as [cl|] eqn:G; [|exact HW].
    destruct (c_state cl); try exact HW; apply FOW_step_reply; assumption.
  - (* LSubmit *) unfold fresh_fid. apply FOW_on_node_FA; [|eapply FOW_same; [|exact HW]; reflexivity].
    intros m. destruct (n_frozen m); [apply FA_refl|apply FA_submit].
  - (* LAddServer *) unfold fresh_fid. apply FOW_on_node_FA; [|eapply FOW_same; [|exact HW]; reflexivity].
    intros m. destruct (n_frozen m); [apply FA_refl|apply FA_add_server].
  - (* LRemoveServer *) unfold fresh_fid. apply FOW_on_node_FA; [|eapply FOW_same; [|exact HW]; reflexivity].
    intros m. destruct (n_frozen m); [apply FA_refl|apply FA_remove_server].
  - (* LCrash *) apply FOW_drop. apply FOW_on_node; [|exact HW]. intros m _ _. exact (fo_crash m).
  - (* LRestart *) apply FOW_on_node; [|exact HW]. intros m Hin Hm.
    destruct (role_eqb (n_role m) Shutdown); [|exact Hm].
    apply fo_restart. destruct (ns_nodes _ HN m Hin) as (_ & _ & H3 & _). exact H3.
  - (* LBudget *) apply FOW_on_node_FA; [|exact HW]. intros m. apply FA_upd_budget.
  - (* LPad *) apply FOW_on_node_FA; [|exact HW]. intros m. apply FA_upd_pad.
  - (* LDefer *) apply FOW_on_node_FA; [|exact HW]. intros m. apply FA_upd_tasks.
  - (* LRoMissed *) apply FOW_on_node_FA; [|exact HW]. intros m. apply FA_upd_cv.
  - (* LTask *) destruct (get_node w n) as [m|] eqn:G; [|exact HW]. destruct (is_up m); [|exact HW].
    apply FOW_step_task; [eapply NoSnap.get_node_in; exact G|exact HW].
  - (* LElectionRun *) apply FOW_on_node_FA; [|exact HW]. intros m. destruct (is_up m && cv_election (n_cv m)); [apply FA_election|apply FA_refl].
  - (* LCommit *) apply FOW_on_node_FA; [|exact HW]. intros m. destruct (is_up m && cv_commit (n_cv m)); [apply FA_commit|apply FA_refl].
  - (* LApply *) apply FOW_on_node; [|exact HW]. intros m Hin Hm.
    destruct (is_up m && cv_apply (n_cv m)); [|exact Hm]. apply fo_apply. exact Hm.
  - (* LRo *) apply FOW_on_node_FA; [|exact HW]. intros m. destruct (is_up m && cv_ro (n_cv m)); [apply FA_ro|apply FA_refl].
  - (* LInstallResume: no parked handler *)
    destruct (get_node w n) as [m|] eqn:G; [|exact HW]. apply NoSnap.get_node_in in G.
    rewrite (install_resume_ns m (ns_nodes _ HN m G)). exact HW.
Qed.

(* ---------------- the initial world ---------------- *)
Lemma mk_node_fsa id et ld : fsa (mk_node id et ld) = ([], []).
Proof. reflexivity. Qed.

Lemma FOW_init ids boot et ld : FOW (init_world ids boot et ld).
Proof.
  unfold init_world. intros n Hin. cbn [w_nodes] in Hin. apply in_map_iff in Hin. destruct Hin as (id & <- & _).
  pose proof (mk_node_fsa id et ld) as Hm. set (m := mk_node id et ld) in *. clearbody m.
  apply fo_empty.
  rewrite (FA_eq _ _ (FA_api_start 0 _)), (FA_eq _ _ (FA_new_opmanager 0 _)).
  destruct (existsb (N.eqb id) boot); [|exact Hm].
  rewrite (FA_eq _ _ (FA_bootstrap m boot)). exact Hm.
Qed.

(* ---------------- every reachable world ---------------- *)
Lemma FOW_run C : NoDup (member_ids C) -> forall ls w,
  static ls = true -> nosnap ls = true -> ALL C w -> FOW w -> FOW (run w ls).
Proof.
  intros HC. induction ls as [|l ls IH]; intros w Hs Hn HA HW; [exact HW|].
  destruct (static_cons _ _ Hs) as [S1 S2]. destruct (nosnap_cons _ _ Hn) as [N1 N2].
  cbn [run fold_left]. apply IH; [exact S2|exact N2| |].
  - assert (Hs' : static [l] = true) by (destruct l; cbn [static] in Hs |- *; try discriminate Hs; reflexivity).
    assert (Hn' : nosnap [l] = true) by (destruct l; cbn [nosnap] in Hn |- *; try discriminate Hn; reflexivity).
    exact (ALL_run C [l] HC w Hs' Hn' HA).
  - apply step_FOW; [exact N1|exact (a_ns _ _ HA)|exact HW].
Qed.

Theorem fsm_is_applied_payloads ids boot et ld ls : static ls = true -> nosnap ls = true ->
  forall n, In n (w_nodes (run (init_world ids boot et ld) ls)) -> fsm_ok n.
Proof.
  intros Hs Hn.
  exact (FOW_run (bootconf boot) (bootconf_nodup boot) ls _ Hs Hn (ALL_init ids boot et ld) (FOW_init ids boot et ld)).
Qed.

Print Assumptions fsm_is_applied_payloads.
