(* Leader completeness (C07/C01): the chain below a live entry, in one world: all holders of a live entry
   agree below it, the chains of two live entries agree, and a segment attached to the chain follows it. *)
From Coq Require Import Classical.
From RaftV Require Import Cluster.World Cluster.Statements Proofs.Frame Proofs.RVSpec Proofs.AESpec Proofs.AELog Proofs.AEFull.
From RaftV Require Import Proofs.ConfNode Proofs.ConfStatic Proofs.ConfSticky.
From RaftV Require Import Proofs.Votes Proofs.VoteRecords Proofs.Names Proofs.ElectSpec.
From RaftV Require Import Proofs.ElectDefs Proofs.RoleFrame Proofs.ElectBook Proofs.ElectWorld Proofs.ElectRun Proofs.ElectSafety.
From RaftV Require Import Proofs.Tails1 Proofs.LogDefs Proofs.LogSeg Proofs.LogUni Proofs.LogInv Proofs.LogAccept Proofs.LogFrame Proofs.NoSnap Proofs.TaePeer
                          Proofs.LogWorld Proofs.LogRun Proofs.LogMatching Proofs.StepCases Proofs.LeaderLog Proofs.SortedTerms Proofs.ReachInd Proofs.ReqTerm
                          Proofs.LCDefs Proofs.LCHist Proofs.LCCore Proofs.LCStep Proofs.LCStep2 Proofs.LCCtx Proofs.LCtt Proofs.LCClauses Proofs.LCPersist.
Open Scope N_scope.

Section Chain.
Variables (C : config) (w : world).
Hypothesis HF : FACTS C w.
Hypothesis HI : LCI C w.
Let HA := f_all C w HF.
Let HL := a_lm C w HA.
Let HS := f_srt C w HF.

Lemma seg_node n : In n (w_nodes w) -> is_seg w (seg_of_log (n_log n)).
Proof. intros H. left. exists n. auto. Qed.

(* a live entry has a holder: its creator *)
Lemma live_holder ej : is_entry w ej -> ~ dead C w ej -> exists a, In a (w_nodes w) /\ holds (seg_of_log (n_log a)) ej.
Proof.
  intros He Hnd. pose proof He as (s & Hs & Hh & Hi). destruct (lm_src C w HL s _ ej Hs Hh Hi) as (a0 & Ha0 & Hl0 & _).
  exists a0. split; [exact Ha0|]. apply (lc_a C w HI ej a0 He Hnd Ha0). right. exact Hl0.
Qed.

(* any two segments holding ej agree below it *)
Lemma holders_agree ej s1 s2 i : is_seg w s1 -> is_seg w s2 -> holds s1 ej -> holds s2 ej -> sg_base s1 < i -> sg_base s2 < i -> i <= e_index ej ->
  eget s1 i = eget s2 i.
Proof.
  intros H1 H2 A B B1 B2 Hi. apply (pm_agree s1 s2 (e_index ej) i (lm_pm C w HL s1 s2 H1 H2)); auto. exists ej. auto.
Qed.

Lemma chain_of_holder ej v i ec : In v (w_nodes w) -> holds (seg_of_log (n_log v)) ej -> eget (seg_of_log (n_log v)) i = Some ec -> i <= e_index ej ->
  chain_at w ej i ec.
Proof.
  intros Hv Hh E Hi v2 Hv2 Hh2. rewrite <- E. destruct (eget_range _ _ _ E) as [Hb _]. cbn [sg_base seg_of_log] in Hb.
  apply holders_agree with (ej := ej); auto using seg_node.
Qed.

Lemma chain_fun ej i a b : is_entry w ej -> ~ dead C w ej -> chain_at w ej i a -> chain_at w ej i b -> a = b.
Proof.
  intros He Hnd A B. destruct (live_holder ej He Hnd) as (v & Hv & Hh). specialize (A v Hv Hh). specialize (B v Hv Hh). congruence.
Qed.

(* a segment holding ej has the chain's entries *)
Lemma chain_seg ej s i ec : is_entry w ej -> ~ dead C w ej -> is_seg w s -> holds s ej -> sg_base s < i -> 1 <= i -> i <= e_index ej ->
  chain_at w ej i ec -> eget s i = Some ec.
Proof.
  intros He Hnd Hs Hh Hb H1 Hi Hch. destruct (live_holder ej He Hnd) as (v & Hv & Hhv). rewrite <- (Hch v Hv Hhv).
  apply holders_agree with (ej := ej); auto using seg_node. cbn. lia.
Qed.

(* every position below a held entry is defined *)
Lemma holder_defined ej v i : In v (w_nodes w) -> holds (seg_of_log (n_log v)) ej -> 1 <= i -> i <= e_index ej ->
  exists ec, eget (seg_of_log (n_log v)) i = Some ec /\ chain_at w ej i ec.
Proof.
  intros Hv Hh H1 Hi. destruct (eget_range _ _ _ Hh) as [_ Ht].
  destruct (eget_defined (seg_of_log (n_log v)) i) as (ec & E); [cbn; lia|lia|]. exists ec. split; [exact E|].
  apply (chain_of_holder ej v i ec Hv Hh E Hi).
Qed.

(* the holder of the later of two live entries holds the earlier one *)
Lemma later_holds ej1 ej2 s : is_entry w ej1 -> ~ dead C w ej1 -> is_seg w s -> holds s ej2 -> sg_base s < e_index ej1 ->
  e_term ej1 < e_term ej2 \/ (e_term ej1 = e_term ej2 /\ e_index ej1 <= e_index ej2) -> holds s ej1.
Proof.
  intros He Hnd Hs Hh Hb [Hlt|[Heq Hle]].
  - apply (lc_b C w HI ej1 s (e_index ej2) ej2 He Hnd Hs Hh Hlt Hb).
  - destruct (lc_tt C w HI ej1 s (e_index ej2) He Hs Hle) as [A _]; [rewrite (tget_entry _ _ _ Hh); congruence|]. apply A, Hb.
Qed.

Lemma chains_agree ej1 ej2 i a b : is_entry w ej1 -> ~ dead C w ej1 -> is_entry w ej2 -> ~ dead C w ej2 ->
  1 <= i -> i <= e_index ej1 -> i <= e_index ej2 -> chain_at w ej1 i a -> chain_at w ej2 i b -> a = b.
Proof.
  intros He1 Hn1 He2 Hn2 H1 Hi1 Hi2 A B.
  assert (Hcase : (e_term ej1 < e_term ej2 \/ (e_term ej1 = e_term ej2 /\ e_index ej1 <= e_index ej2)) \/
                  (e_term ej2 < e_term ej1 \/ (e_term ej2 = e_term ej1 /\ e_index ej2 <= e_index ej1))) by lia.
  destruct Hcase as [Hc|Hc].
  - destruct (live_holder ej2 He2 Hn2) as (v & Hv & Hh2).
    assert (Hh1 : holds (seg_of_log (n_log v)) ej1) by (apply (later_holds ej1 ej2); auto using seg_node; cbn; destruct He1 as (_ & _ & _ & ?); lia).
    specialize (A v Hv Hh1). specialize (B v Hv Hh2). congruence.
  - destruct (live_holder ej1 He1 Hn1) as (v & Hv & Hh1).
    assert (Hh2 : holds (seg_of_log (n_log v)) ej2) by (apply (later_holds ej2 ej1); auto using seg_node; cbn; destruct He2 as (_ & _ & _ & ?); lia).
    specialize (A v Hv Hh1). specialize (B v Hv Hh2). congruence.
Qed.

(* a segment attached to the chain of a live entry at position j follows the chain below j *)
Lemma attached ej s j t i : is_entry w ej -> ~ dead C w ej -> is_seg w s -> tget s j = Some t -> sg_base s < i -> 1 <= i -> i <= j -> i <= e_index ej ->
  ((e_index ej <= j /\ e_term ej <= t) \/ (j < e_index ej /\ exists eb, chain_at w ej j eb /\ e_term eb = t)) ->
  exists ec, eget s i = Some ec /\ chain_at w ej i ec.
Proof.
  intros He Hnd Hs Ht Hb H1 Hij Hi Hcase. destruct (live_holder ej He Hnd) as (v & Hv & Hhv).
  destruct (holder_defined ej v i Hv Hhv H1 Hi) as (ec & Ec & Hch). exists ec. split; [|exact Hch].
  destruct (tget_pos s j t Ht ltac:(lia)) as (ej' & Ej' & Etj).
  destruct Hcase as [[Hle Hte]|[Hlt (eb & Hcb & Eeb)]].
  - assert (Hh : holds s ej).
    { destruct (N.eq_dec (e_term ej) t) as [Heq|Hne].
      - destruct (lc_tt C w HI ej s j He Hs Hle) as [A _]; [rewrite Ht; congruence|]. apply A. lia.
      - apply (lc_b C w HI ej s j ej' He Hnd Hs Ej'); lia. }
    apply (chain_seg ej s i ec He Hnd Hs Hh Hb H1 Hi Hch).
  - rewrite <- Ec. pose proof (Hcb v Hv Hhv) as Ev.
    apply (pm_prefix s (seg_of_log (n_log v)) j i (lm_pm C w HL _ _ Hs (seg_node v Hv))); try (cbn; lia).
    + rewrite Ht, (tget_entry _ _ _ Ev). congruence.
    + rewrite Ht. discriminate.
Qed.

End Chain.
