(* Election safety (C02), part 4: the world invariant and its preservation by the sections that
   neither start an election nor consume an RPC response. *)
From RaftV Require Import Cluster.World Cluster.Statements Proofs.Frame Proofs.RVSpec.
From RaftV Require Import Proofs.ConfNode Proofs.ConfStatic Proofs.ConfSticky.
From RaftV Require Import Proofs.Votes Proofs.VoteRecords Proofs.Names Proofs.ElectSpec.
From RaftV Require Import Proofs.ElectDefs Proofs.EFrame Proofs.RoleFrame Proofs.ElectBook Proofs.ElectNode Proofs.ElectSteps.
Open Scope N_scope.

(* a real (not pre-vote) RequestVote request of term t *)
Definition real_rv (k : call) (t : N) : Prop := exists q, c_req k = ReqRV q /\ rv_prevote q = false /\ rv_term q = t.

(* more than one member: elections need RPCs *)
Definition many (C : config) : bool := negb (N.of_nat (length (c_members C)) =? 1).

(* "a has won term t": a majority of the voters of C, counting a itself, of which every other member
   is the destination of a recorded RPC that granted a real vote of term t to a *)
Definition won (C : config) (cs : list call) (a : nid) (t : N) : Prop :=
  exists ks, (forall k, In k ks -> In k cs /\ granted_real k t a /\ c_dst k <> a /\ is_voter C (c_dst k) = true) /\
             NoDup (map c_dst ks) /\ has_quorum C (1 + N.of_nat (length ks)) = true.

Section Elect.
Variable C : config.

Definition BW (w : world) : Prop := forall n, In n (w_nodes w) -> BN C (w_calls w) n.

Record XInv (w : world) : Prop := {
  x_v : VInv w;
  x_n : NInv w;
  x_b : BW w;
  x_s1 : forall k t n, In k (w_calls w) -> real_rv k t -> In n (w_nodes w) -> n_id n = c_src k -> voted n t (c_src k);
  x_s2 : forall k1 k2 t x, In k1 (w_calls w) -> In k2 (w_calls w) -> real_rv k1 t -> granted_real k2 t x ->
           c_dst k2 = c_src k1 -> x = c_src k1;
  x_l0 : forall n, In n (w_nodes w) -> active (n_role n) -> conf_of n = C /\ is_voter C (n_id n) = true;
  x_l : forall n, In n (w_nodes w) -> n_role n = Leader -> many C = true -> won C (w_calls w) (n_id n) (n_term n) }.

(* ---------------- nodes of a world after set_node ---------------- *)
Lemma in_set_node w m' n : In n (w_nodes (set_node w m')) -> n = m' \/ (In n (w_nodes w) /\ n_id n <> n_id m').
Proof.
  unfold set_node. cbn [w_nodes set]. intros H. apply in_map_iff in H. destruct H as (y & E & Hy).
  destruct (N.eqb_spec (n_id y) (n_id m')) as [Ey|Ey]; [left; symmetry; exact E|right]. subst n. auto.
Qed.

Lemma BW_set_node w m' : BW w -> BN C (w_calls w) m' -> BW (set_node w m').
Proof.
  intros HB Hm n Hn. change (w_calls (set_node w m')) with (w_calls w).
  destruct (in_set_node _ _ _ Hn) as [->|[H _]]; [exact Hm|apply HB, H].
Qed.

(* ---------------- a section of one node that touches no election bookkeeping ---------------- *)
Lemma XInv_node_gen w m m' :
  XInv w -> get_node w (n_id m) = Some m ->
  (coh m -> R m m') -> (BN C (w_calls w) m -> BN C (w_calls w) m') ->
  (n_role m' = Leader -> many C = true ->
     (n_role m = Leader /\ n_term m' = n_term m) \/ won C (w_calls w) (n_id m) (n_term m')) ->
  (active (n_role m') -> (active (n_role m) /\ (conf_of m = C -> conf_of m' = C)) \/
                         (conf_of m' = C /\ is_voter C (n_id m) = true)) ->
  XInv (set_node w m').
Proof.
  intros [HV HN HB S1 S2 L0 HL] G HR HBN K1 K2.
  destruct (Votes.get_node_in _ _ _ G) as [Hin _].
  pose proof (vi_coh w HV m Hin) as Hc. specialize (HR Hc). pose proof (Votes.r_id _ _ HR) as Eid.
  constructor.
  - apply VInv_set_node with (m := m); [exact HV|exact G|apply R_S, HR].
  - eapply NInv_calls; [|exact HN]. reflexivity.
  - apply BW_set_node; [exact HB|apply HBN, HB, Hin].
  - intros k t n Hk Hr Hn En. change (w_calls (set_node w m')) with (w_calls w) in Hk.
    destruct (in_set_node _ _ _ Hn) as [->|[H _]]; [|apply S1; assumption].
    eapply voted_stable; [apply (Votes.r_tv _ _ HR)|]. apply S1; [exact Hk|exact Hr|exact Hin|congruence].
  - intros k1 k2 t x H1 H2. exact (S2 k1 k2 t x H1 H2).
  - intros n Hn Ha. destruct (in_set_node _ _ _ Hn) as [->|[H _]]; [|apply L0; assumption].
    destruct (K2 Ha) as [[A0 Hst]|[A1 A2]]; [|split; [exact A1|rewrite Eid; exact A2]].
    destruct (L0 m Hin A0) as [A1 A2]. split; [apply Hst, A1|rewrite Eid; exact A2].
  - intros n Hn Hl Hm. change (w_calls (set_node w m')) with (w_calls w).
    destruct (in_set_node _ _ _ Hn) as [->|[H _]]; [|apply HL; assumption].
    rewrite Eid. destruct (K1 Hl Hm) as [[A1 A2]|A]; [|exact A]. rewrite A2. apply HL; assumption.
Qed.

Lemma XInv_node_section w m m' :
  XInv w -> WI C w -> get_node w (n_id m) = Some m ->
  (coh m -> R m m') -> (BN C (w_calls w) m -> BN C (w_calls w) m') -> K m m' -> (conf_of m = C -> conf_of m' = C) ->
  XInv (set_node w m').
Proof.
  intros HX HW G HR HBN [K1 K2] Hst. apply XInv_node_gen with (m := m); auto.
Qed.

Lemma XInv_on_node w id f :
  XInv w -> WI C w ->
  (forall m, coh m -> R m (f m)) -> (forall m, E m (f m)) -> (forall m, K m (f m)) ->
  (forall m, CI C m -> conf_of m = C -> conf_of (f m) = C) ->
  XInv (on_node w id f).
Proof.
  intros HX HW HR HE HK Hst. unfold on_node. destruct (get_node w id) as [m|] eqn:G; [|exact HX].
  destruct (Votes.get_node_in _ _ _ G) as [Hin _].
  assert (Hc : coh m) by apply (vi_coh w (x_v w HX) m Hin).
  apply XInv_node_section with (m := m); auto.
  - eapply get_node_id; exact G.
  - intros HBm. apply (BN_node_E C _ m (f m)); auto.
  - intros. apply Hst; [apply (WI_node C w m HW Hin)|assumption].
Qed.

Lemma XInv_same w w' :
  w_nodes w' = w_nodes w -> w_calls w' = w_calls w -> w_next_call w' = w_next_call w -> XInv w -> XInv w'.
Proof.
  intros En Ec Ex [HV HN HB S1 S2 L0 HL]. constructor; unfold BW, NInv in *; rewrite ?En, ?Ec; try assumption.
  eapply VInv_same; eassumption.
Qed.

(* ---------------- the RPC records change state, the nodes do not move ---------------- *)
Lemma key_real k k' t : call_key k' = call_key k -> real_rv k t -> real_rv k' t.
Proof. intros H (q & A & B). apply key_fields in H. destruct H as (_ & _ & _ & _ & H). exists q. rewrite H. auto. Qed.
Lemma key_granted k k' t x : call_key k' = call_key k -> c_resp k' = c_resp k -> granted_real k t x -> granted_real k' t x.
Proof.
  intros H Hr (q & p & A1 & A2 & A3 & A4 & A5 & A6). apply key_fields in H. destruct H as (_ & _ & _ & _ & H).
  exists q, p. rewrite H, Hr. auto 10.
Qed.

Lemma won_persist cs cs' a t :
  (forall k, In k cs -> exists k', In k' cs' /\ call_key k' = call_key k /\
                                   forall t0 a0, granted_real k t0 a0 -> granted_real k' t0 a0) ->
  won C cs a t -> won C cs' a t.
Proof.
  intros Hfw (ks & H1 & H2 & H3).
  assert (Hex : exists ks', map c_dst ks' = map c_dst ks /\
                 forall k', In k' ks' -> In k' cs' /\ granted_real k' t a /\ c_dst k' <> a /\ is_voter C (c_dst k') = true).
  { clear H2 H3. induction ks as [|k ks IH]; [exists []; split; [reflexivity|intros k' []]|].
    destruct IH as (ks' & E1 & E2); [intros k0 H0; apply H1; right; exact H0|].
    destruct (H1 k (or_introl eq_refl)) as (A1 & A2 & A3 & A4).
    destruct (Hfw k A1) as (k' & B1 & B2 & B3). pose proof (key_fields _ _ B2) as (_ & _ & Ed & _ & _).
    exists (k' :: ks'). split; [cbn [map]; rewrite E1, Ed; reflexivity|].
    intros k0 [<-|H0]; [|apply E2, H0]. rewrite Ed. repeat split; try assumption.
    apply B3, A2. }
  destruct Hex as (ks' & E1 & E2). exists ks'. split; [exact E2|]. split; [rewrite E1; exact H2|].
  assert (El : length ks' = length ks) by (rewrite <- (map_length c_dst ks'), E1, map_length; reflexivity).
  rewrite El. exact H3.
Qed.

Lemma XInv_calls w w' :
  XInv w -> VInv w' -> NInv w' -> w_nodes w' = w_nodes w ->
  (forall k', In k' (w_calls w') -> exists k, In k (w_calls w) /\ call_key k' = call_key k /\ c_resp k' = c_resp k) ->
  (forall k, In k (w_calls w) -> exists k', In k' (w_calls w') /\ call_key k' = call_key k /\
                                          forall t0 a0, granted_real k t0 a0 -> granted_real k' t0 a0) ->
  (forall id rid, cnt (w_calls w) id rid <= cnt (w_calls w') id rid) ->
  XInv w'.
Proof.
  intros [HV HN HB S1 S2 L0 HL] HV' HN' En Hbw Hfw Hcnt.
  constructor; try assumption.
  - intros n Hn. rewrite En in Hn. apply (BN_calls_sim C (w_calls w)); [|intros rid; apply Hcnt|apply HB, Hn].
    intros k' Hk' _. destruct (Hbw k' Hk') as (k & A & B & _). exists k. auto.
  - intros k' t n Hk' Hr Hn En'. rewrite En in Hn. destruct (Hbw k' Hk') as (k & A & B & _).
    pose proof (key_fields _ _ B) as (_ & Es & _ & _ & _). rewrite Es in *.
    apply S1; [exact A| |exact Hn|exact En']. destruct Hr as (q & Q1 & Q2). exists q.
    pose proof (key_fields _ _ B) as (_ & _ & _ & _ & Eq). rewrite <- Eq. auto.
  - intros k1' k2' t x H1 H2 Hr Hg Ed.
    destruct (Hbw k1' H1) as (k1 & A1 & B1 & _). destruct (Hbw k2' H2) as (k2 & A2 & B2 & R2).
    pose proof (key_fields _ _ B1) as (_ & Es1 & _ & _ & Eq1). pose proof (key_fields _ _ B2) as (_ & _ & Ed2 & _ & Eq2).
    rewrite Es1. apply (S2 k1 k2 t x A1 A2).
    + destruct Hr as (q & Q1 & Q2). exists q. rewrite <- Eq1. auto.
    + destruct Hg as (q & p & G1 & G2 & G3 & G4 & G5 & G6). exists q, p. rewrite <- Eq2, <- R2. auto 10.
    + congruence.
  - intros n Hn. rewrite En in Hn. apply L0, Hn.
  - intros n Hn Hl Hm. rewrite En in Hn. eapply won_persist; [exact Hfw|]. apply HL; assumption.
Qed.

Lemma cnt_map_mono_in (g : call -> call) cs id rid :
  (forall k, In k cs -> counted id rid k = true -> counted id rid (g k) = true) -> cnt cs id rid <= cnt (map g cs) id rid.
Proof.
  intros H. unfold cnt. induction cs as [|k cs IH]; [cbn; lia|]. cbn [map filter].
  assert (IH' : (N.of_nat (length (filter (counted id rid) cs)) <= N.of_nat (length (filter (counted id rid) (map g cs))))).
  { apply IH. intros k0 H0. apply H. right. exact H0. }
  destruct (counted id rid k) eqn:E.
  - rewrite (H k (or_introl eq_refl) E). cbn [length]. lia.
  - destruct (counted id rid (g k)); cbn [length]; lia.
Qed.

Lemma named_state c s : named c -> named (c <| c_state := s |>).
Proof. apply named_upd; reflexivity. Qed.

Lemma XInv_set_state w c s :
  XInv w -> In c (w_calls w) -> s <> CPending -> (c_state c <> CDone \/ s = CDone) ->
  XInv (set_call w (c <| c_state := s |>)).
Proof.
  intros HX Hin Hs Hd. pose proof (x_v w HX) as HV. set (c0 := c <| c_state := s |>).
  assert (Hcalls : w_calls (set_call w c0) = upd_call c0 (w_calls w)) by reflexivity.
  apply (XInv_calls w); [exact HX| | |reflexivity| | |].
  - apply VInv_set_call with (c := c); [exact HV|exact Hin|repeat split|reflexivity|]. cbn. intros E. contradiction.
  - apply NInv_set_call; [apply (x_n w HX)|]. apply named_state, (x_n w HX), Hin.
  - intros k' Hk'. rewrite Hcalls in Hk'. apply in_upd_call in Hk'. destruct Hk' as [H|[-> _]]; [exists k'; auto|exists c; auto].
  - intros k Hk. destruct (N.eq_dec (c_id k) (c_id c)) as [E|E].
    + assert (k = c) by (eapply nodup_id_eq; [apply (vi_nodup w HV)|exact Hk|exact Hin|exact E]). subst k.
      exists c0. split; [|split; [reflexivity|intros t0 a0; apply key_granted; reflexivity]]. rewrite Hcalls. unfold upd_call. apply in_map_iff. exists c.
      split; [|exact Hin]. cbn. rewrite N.eqb_refl. reflexivity.
    + exists k. split; [|split; [reflexivity|auto]]. rewrite Hcalls. unfold upd_call. apply in_map_iff. exists k.
      split; [|exact Hk]. destruct (N.eqb_spec (c_id k) (c_id c0)) as [E'|E']; [contradiction|reflexivity].
  - intros id rid. rewrite Hcalls. unfold upd_call. apply cnt_map_mono_in. intros k Hk Hc.
    destruct (N.eqb_spec (c_id k) (c_id c0)) as [E|E]; [|exact Hc].
    assert (k = c) by (eapply nodup_id_eq; [apply (vi_nodup w HV)|exact Hk|exact Hin|exact E]). subst k.
    unfold counted in *. destruct Hd as [Hd| ->].
    + exfalso. apply andb_prop in Hc. destruct Hc as [Hc _]. apply andb_prop in Hc. destruct Hc as [_ Hc].
      unfold cdone in Hc. destruct (c_state c); try discriminate. apply Hd. reflexivity.
    + apply andb_prop in Hc. destruct Hc as [Hc G]. apply andb_prop in Hc. destruct Hc as [Hc _].
      unfold c0. cbn. unfold is_rv, cgranted in *. cbn. rewrite Hc, G. reflexivity.
Qed.

Lemma XInv_drop w id : XInv w -> XInv (drop_calls_of w id).
Proof.
  intros HX. set (g := fun c : call => if c_src c =? id then c <| c_state := CDone |> else c).
  assert (Hcalls : w_calls (drop_calls_of w id) = map g (w_calls w)) by reflexivity.
  assert (Hg : forall c, call_key (g c) = call_key c /\ c_resp (g c) = c_resp c).
  { intros c. unfold g. destruct (c_src c =? id); split; reflexivity. }
  apply (XInv_calls w); [exact HX|apply VInv_drop, (x_v w HX)| |reflexivity| | |].
  - intros c Hc. rewrite Hcalls in Hc. apply in_map_iff in Hc. destruct Hc as (d & <- & Hd).
    unfold g. destruct (c_src d =? id); [apply named_state|]; apply (x_n w HX), Hd.
  - intros k' Hk'. rewrite Hcalls in Hk'. apply in_map_iff in Hk'. destruct Hk' as (d & <- & Hd). exists d. split; [exact Hd|apply Hg].
  - intros k Hk. exists (g k). split; [rewrite Hcalls; apply in_map, Hk|]. split; [apply Hg|].
    intros t0 a0. apply key_granted; apply Hg.
  - intros i rid. rewrite Hcalls. apply cnt_map_mono_in. intros k _ Hc. unfold g. destruct (c_src k =? id); [|exact Hc].
    unfold counted in *. apply andb_prop in Hc. destruct Hc as [Hc G]. apply andb_prop in Hc. destruct Hc as [Hc _].
    unfold is_rv, cgranted in *. cbn. rewrite Hc, G. reflexivity.
Qed.

End Elect.
