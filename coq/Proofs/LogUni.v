(* Nodes of a world are identified by their id: two list elements with the same id are the same node
   (the list of ids given to init_world may contain duplicates; the copies stay identical). *)
From RaftV Require Import Cluster.World Proofs.Frame Proofs.Votes.
Open Scope N_scope.

Definition UNI (w : world) : Prop := forall a b, In a (w_nodes w) -> In b (w_nodes w) -> n_id a = n_id b -> a = b.

Lemma UNI_nodes w w' : w_nodes w' = w_nodes w -> UNI w -> UNI w'.
Proof. unfold UNI. intros ->. auto. Qed.

Lemma UNI_set_node w m : UNI w -> UNI (set_node w m).
Proof.
  intros H a b Ha Hb E. unfold set_node in Ha, Hb. cbn [w_nodes set] in Ha, Hb.
  apply in_map_iff in Ha. destruct Ha as (x & <- & Hx). apply in_map_iff in Hb. destruct Hb as (y & <- & Hy).
  destruct (N.eqb_spec (n_id x) (n_id m)) as [Ex|Ex], (N.eqb_spec (n_id y) (n_id m)) as [Ey|Ey]; try reflexivity.
  - exfalso. apply Ey. rewrite <- E. reflexivity.
  - exfalso. apply Ex. rewrite E. reflexivity.
  - apply H; assumption.
Qed.

Lemma UNI_on_node w id f : UNI w -> UNI (on_node w id f).
Proof. intros H. unfold on_node. destruct (get_node w id); [apply UNI_set_node, H|exact H]. Qed.

Lemma UNI_step_task w m : UNI w -> UNI (step_task w m).
Proof.
  intros H. unfold step_task. destruct (n_tasks m) as [|t rest]; [exact H|]. destruct t as [rid peer pv|rid peer].
  - destruct (l_rv_send _ rid peer pv); [eapply UNI_nodes; [|apply UNI_set_node, H]; reflexivity|apply UNI_set_node, H].
  - destruct (l_ae_send _ peer) as [n1 [|q|q]]; [apply UNI_set_node, H| |]; (eapply UNI_nodes; [|apply UNI_set_node, H]; reflexivity).
Qed.

Lemma UNI_step_deliver w c dup : UNI w -> UNI (step_deliver w c dup).
Proof.
  intros H. unfold step_deliver. destruct (get_node w (c_dst c)) as [n|].
  2:{ destruct dup; [exact H|eapply UNI_nodes; [|exact H]; reflexivity]. }
  destruct (n_frozen n); [destruct dup; [exact H|eapply UNI_nodes; [|exact H]; reflexivity]|].
  destruct (run_handler (w_now w) n (c_req c)) as [[n1 resp] parked].
  destruct dup; [apply UNI_set_node, H|].
  destruct (n_frozen n1); [eapply UNI_nodes; [|apply UNI_set_node, H]; reflexivity|].
  destruct resp; (eapply UNI_nodes; [|apply UNI_set_node, H]; reflexivity).
Qed.

Lemma UNI_step_reply w c failed : UNI w -> UNI (step_reply w c failed).
Proof.
  intros H. unfold step_reply. set (w0 := set_call w _). assert (H0 : UNI w0) by (eapply UNI_nodes; [|exact H]; reflexivity).
  destruct (get_node w (c_src c)) as [n|]; [|exact H0]. destruct (n_frozen n); [exact H0|].
  destruct (c_req c) as [q|q|q]; destruct (if failed then None else c_resp c) as [[p|p|p]|]; try exact H0; try (apply UNI_set_node, H0).
  destruct (l_ae_reply _ _ _ _ _ _ _) as [n1 [isq|]]; [eapply UNI_nodes; [|apply UNI_set_node, H0]; reflexivity|apply UNI_set_node, H0].
Qed.

Theorem step_UNI w l : UNI w -> UNI (step w l).
Proof.
  intros H. destruct l; cbn [step]; try (apply UNI_on_node, H).
  - eapply UNI_nodes; [|exact H]; reflexivity.
  - destruct (get_call w c) as [cl|]; [|exact H]. destruct (c_state cl); try exact H. apply UNI_step_deliver, H.
  - destruct (get_call w c) as [cl|]; [|exact H]. apply UNI_step_deliver, H.
  - destruct (get_call w c) as [cl|]; [|exact H]. destruct (c_state cl); try exact H. apply UNI_step_reply, H.
  - destruct (get_call w c) as [cl|]; [|exact H]. destruct (c_state cl); try exact H; apply UNI_step_reply, H.
  - destruct (get_node w n) as [m|]; [|exact H]. destruct (is_up m); [apply UNI_step_task, H|exact H].
  - destruct (get_node w n) as [m|]; [|exact H]. destruct (lp_install_resume m) as [m1 [q|]]; [|exact H].
    match goal with |- UNI (match ?x with _ => _ end) => destruct x end; [eapply UNI_nodes; [|apply UNI_set_node, H]; reflexivity|apply UNI_set_node, H].
Qed.

Lemma UNI_run ls : forall w, UNI w -> UNI (run w ls).
Proof. induction ls as [|l ls IH]; intros w H; [exact H|]. cbn [run fold_left]. apply IH, step_UNI, H. Qed.

Lemma UNI_get w m : UNI w -> In m (w_nodes w) -> get_node w (n_id m) = Some m.
Proof.
  intros H Hm. unfold get_node. destruct (find (fun n => n_id n =? n_id m) (w_nodes w)) as [x|] eqn:E.
  - apply find_some in E. destruct E as [Hx Ex]. apply N.eqb_eq in Ex. f_equal. apply H; assumption.
  - exfalso. apply (find_none _ _ E m) in Hm. rewrite N.eqb_refl in Hm. discriminate.
Qed.
