(* The order of the three indices of a node:  lastIncludedIndex <= lastApplied <= commitIndex.

   RESULT.  The second inequality (lastApplied <= commitIndex, [ac]) is an invariant of the model: it is kept by
   every label from every world ([step_ac]) and holds in every reachable world, for every schedule
   ([index_order_ac]).

   The first inequality (lastIncludedIndex <= lastApplied) is FALSE of the model, and so is
   lastIncludedIndex <= commitIndex.  The InstallSnapshot handler writes  lastIncludedIndex := LastIncludedIndex
   (n5 in h_install_snapshot) as soon as the last chunk is closed, BEFORE the state machine has reached the
   snapshot: when the entry at the snapshot's index is in the log with the snapshot's term, the handler then parks
   in  "for lastApplied < LastIncludedIndex { applyCond.Wait() }"  (n_iswait) with the boundary above the applied
   index - and above the commit index if the follower has not been told of the commit yet.  The same intermediate
   node is what is left when the restore path stops (no snapshot file: Panic).
   [lii_above_applied_reachable] is a reachable world (3 nodes, no membership change, no crash, no frozen node):
   follower 2 has the entries up to index 2, commitIndex 0, lastApplied 0; the AppendEntries reply is lost, the
   leader takes a snapshot at 2 and sends it; after the delivery node 2 has lastIncludedIndex 2, lastApplied 0,
   commitIndex 0.  Hence [ord3_not_invariant]. *)
From RaftV Require Import Cluster.World Proofs.Frame Proofs.AESpec Proofs.IndexMono.
Open Scope N_scope.

Definition ord3 (n : node) : Prop := n_lii n <= n_applied n /\ n_applied n <= n_commit n.
(* the half that holds *)
Definition ac (n : node) : Prop := n_applied n <= n_commit n.

(* ================= node level ================= *)
Definition P (n n' : node) : Prop := ac n -> ac n'.
Lemma P_refl n : P n n. Proof. intros A; exact A. Qed.
Lemma P_trans a b c : P a b -> P b c -> P a c. Proof. unfold P. auto. Qed.
Lemma E_P n n' : E n n' -> P n n'.
Proof. intros H A. destruct (E_fields _ _ H) as (_ & H2 & H3 & _). unfold ac in *. rewrite H2, H3. exact A. Qed.
Lemma ac_E n n' : E n n' -> ac n -> ac n'. Proof. intros H. exact (E_P _ _ H). Qed.
Lemma lt_E n n' : E n n' -> n_applied n < n_commit n -> n_applied n' < n_commit n'.
Proof. intros H A. destruct (E_fields _ _ H) as (_ & H2 & H3 & _). rewrite H2, H3. exact A. Qed.

(* ---- commitLoop ---- *)
Lemma P_set_commit n c : n_commit n <= c -> P n (n <| n_commit := c |>).
Proof. intros H A. unfold ac in *. change (n_applied n <= c). lia. Qed.

Lemma P_lp_commit now n : P n (lp_commit now n).
Proof.
  unfold lp_commit. set (n0 := n <| n_cv ::= _ |>). assert (H0 : E n n0) by etv. clearbody n0.
  destruct (negb (role_eqb (n_role n0) Leader)); [apply E_P, H0|].
  set (c := commit_scan _ _ _). clearbody c.
  destruct (N.ltb_spec (n_commit n0) c) as [Hlt|Hge]; [|apply E_P, H0].
  eapply P_trans; [apply E_P, H0|].
  eapply P_trans; [|apply E_P, E_send_ae_to_peers].
  eapply P_trans; [|apply E_P, E_signal_apply].
  apply P_set_commit. lia.
Qed.

(* ---- applyLoop: the applied index moves only below the commit index ---- *)
Lemma ac_succ_applied n : n_applied n < n_commit n -> ac (n <| n_applied ::= N.succ |>).
Proof. intros H. unfold ac. change (N.succ (n_applied n) <= n_commit n). lia. Qed.

Lemma ac_lp_apply_one now n : n_applied n < n_commit n -> ac (lp_apply_one now n).
Proof.
  intros Hlt. unfold lp_apply_one.
  destruct (log_get (n_log n) (n_applied n + 1)) as [e|]; [|apply (ac_E n); [apply E_fail|unfold ac; lia]].
  set (n1 := match e_kind e with KNoop => n | _ => _ end).
  assert (H1 : E n n1).
  { subst n1. destruct (e_kind e) as [|p|c].
    - apply E_refl.
    - cbv zeta. match goal with |- E _ (match ?x with _ => _ end) => destruct x end.
      + eapply E_trans; [|apply E_respond]. etv.
      + etv.
    - cbv zeta. match goal with |- E _ (match ?x with _ => _ end) => destruct x end.
      + eapply E_trans; [|apply E_upd_cfg]. eapply E_trans; [|apply E_respond]. apply E_apply_configuration.
      + apply E_apply_configuration. }
  clearbody n1. pose proof (lt_E _ _ H1 Hlt) as Hlt1.
  destruct (need_snapshot _).
  - eapply ac_E; [apply E_signal_snapshot|]. apply ac_succ_applied, Hlt1.
  - apply ac_succ_applied, Hlt1.
Qed.

Lemma P_lp_apply_run now fuel : forall n, P n (lp_apply_run fuel now n).
Proof.
  induction fuel as [|f IH]; intros n; cbn [lp_apply_run]; [apply P_refl|].
  match goal with |- P n (if ?c then _ else _) => destruct c eqn:G end; [|apply P_refl].
  apply andb_prop in G. destruct G as [G _]. apply andb_prop in G. destruct G as [G _].
  apply N.ltb_lt in G. intros _. apply IH. apply ac_lp_apply_one, G.
Qed.

Lemma P_lp_apply now n : P n (lp_apply now n).
Proof.
  unfold lp_apply. set (n0 := n <| n_cv ::= _ |>). assert (H0 : E n n0) by etv. clearbody n0.
  eapply P_trans; [apply E_P, H0|].
  pose proof (P_lp_apply_run now (N.to_nat (n_commit n0 - n_applied n0)) n0) as H.
  set (n1 := lp_apply_run _ now n0) in *. clearbody n1.
  destruct (role_eqb (n_role n1) Leader); [|exact H].
  eapply P_trans; [exact H|apply E_P, E_signal_ro].
Qed.

(* ---- AppendEntries handler: the commit index only grows ---- *)
Lemma P_h_append_entries now n q : P n (fst (h_append_entries now n q)).
Proof.
  destruct (role_eqb (n_role n) Shutdown) eqn:E1; [unfold h_append_entries; rewrite E1; apply P_refl|].
  destruct (ae_term q <? n_term n) eqn:E2; [unfold h_append_entries; rewrite E1, E2; apply P_refl|].
  rewrite (ae_unfold now n q E1 E2). cbn zeta.
  pose proof (E_ae_pre now n q) as H3. set (n3 := ae_pre now n q) in *. clearbody n3.
  apply E_P in H3.
  destruct (ae_prev_index q <? n_lii n3); [exact H3|].
  destruct (next_index (n_log n3) <=? ae_prev_index q); [exact H3|].
  destruct ((n_lii n3 =? ae_prev_index q) && negb (n_lit n3 =? ae_prev_term q)); [exact H3|].
  match goal with |- context [fst (match ?c with _ => _ end)] => destruct c as [[idx|]|] end.
  - exact H3.
  - cbn [fst]. eapply P_trans; [exact H3|apply E_P, E_fail].
  - destruct (ae_scan now n3 (ae_entries q)) as [[n4 ta]|] eqn:Es; cbn [fst];
      [|eapply P_trans; [exact H3|apply E_P, E_fail]].
    pose proof (E_ae_scan _ _ _ _ _ Es) as H4. pose proof (E_append ta n4) as H5.
    set (n5 := append_entries n4 ta) in *. clearbody n5.
    eapply P_trans; [exact H3|]. eapply P_trans; [apply E_P, H4|]. eapply P_trans; [apply E_P, H5|].
    set (c := N.min _ _). clearbody c.
    destruct (N.ltb_spec (n_commit n5) c) as [Hlt|Hge]; [|apply P_refl].
    eapply P_trans; [|apply E_P, E_signal_apply]. apply P_set_commit. lia.
Qed.

(* ---- takeSnapshot: only the boundary is written ---- *)
Lemma P_set_lii n i t : P n (n <| n_lii := i |> <| n_lit := t |>).
Proof. intros A. exact A. Qed.

Lemma P_lp_snapshot n : P n (lp_snapshot n).
Proof.
  unfold lp_snapshot. set (n0 := n <| n_cv ::= _ |>). assert (H0 : E n n0) by etv. clearbody n0.
  apply E_P in H0.
  destruct (_ || _); [exact H0|]. destruct (n_applied n0 <=? n_lii n0); [exact H0|].
  destruct (n_cconf n0) as [cc|]; [|exact H0]. destruct (n_applied n0 <? c_index cc); [exact H0|].
  destruct (log_get (n_log n0) (n_applied n0)) as [e|]; [|eapply P_trans; [exact H0|apply E_P, E_fail]].
  eapply P_trans; [exact H0|]. cbv zeta.
  destruct (e_index e <=? n_lii n0); [apply P_refl|].
  set (s := {| s_index := e_index e; s_term := e_term e; s_conf := cc; s_data := _ |}). clearbody s.
  pose proof (E_close_snapshot n0 s) as H1. set (n1 := close_snapshot n0 s) in *. clearbody n1.
  eapply P_trans; [apply E_P, H1|].
  eapply P_trans; [|apply E_P, E_reset]. eapply P_trans; [|apply E_P, E_compact].
  apply P_set_lii.
Qed.

(* ---- InstallSnapshot handler: the restore path writes commitIndex := lastApplied := LastIncludedIndex ---- *)
Lemma P_h_install_snapshot now n q : P n (fst (h_install_snapshot now n q)).
Proof.
  unfold h_install_snapshot.
  destruct (role_eqb (n_role n) Shutdown); [apply P_refl|].
  destruct (is_term q <? n_term n); [apply P_refl|].
  cbv zeta.
  set (n1 := if n_term n <? is_term q then become_follower now n (is_leader q) (is_term q) else n).
  assert (H1 : E n n1) by (subst n1; destruct (n_term n <? is_term q); [apply E_become_follower|apply E_refl]).
  clearbody n1.
  set (n2 := if (is_term q =? n_term n1) && _ then become_follower now n1 (is_leader q) (is_term q) else n1).
  assert (H2 : E n1 n2) by (subst n2; destruct (_ && _); [apply E_become_follower|apply E_refl]).
  clearbody n2.
  set (n3 := n2 <| n_contact := now |>).
  assert (H3 : E n2 n3) by etv.
  clearbody n3.
  assert (HE : E n n3) by (eapply E_trans; [exact H1|eapply E_trans; [exact H2|exact H3]]).
  clear H1 H2 H3 n1 n2.
  destruct ((is_lii q <=? n_lii n3) || (is_lii q <=? n_applied n3)); [apply E_P, HE|].
  set (n4 := match n_partial n3 with Some p => if s_index p <? is_lii q then n3 <| n_partial := None |> else n3 | None => n3 end).
  assert (H4 : E n3 n4).
  { subst n4. destruct (n_partial n3) as [p|]; [|apply E_refl].
    destruct (s_index p <? is_lii q); [etv|apply E_refl]. }
  clearbody n4.
  assert (HE' : E n n4) by (eapply E_trans; eassumption).
  clear HE H4 n3.
  set (p := match n_partial n4 with Some p => p | None => _ end). clearbody p.
  destruct (negb (is_offset q =? N.of_nat (length (s_data p)))).
  { cbn [fst]. eapply P_trans; [apply E_P, HE'|]. apply E_P. etv. }
  destruct (negb (is_done q)).
  { cbn [fst]. eapply P_trans; [apply E_P, HE'|]. apply E_P. etv. }
  set (p' := {| s_index := s_index p; s_term := s_term p; s_conf := s_conf p; s_data := s_data p ++ is_bytes q |}). clearbody p'.
  set (n5 := close_snapshot n4 p' <| n_partial := None |> <| n_lii := is_lii q |> <| n_lit := is_lit q |>).
  pose proof (E_close_snapshot n4 p') as HC.
  assert (M5 : P n n5).
  { eapply P_trans; [apply E_P, HE'|]. eapply P_trans; [apply E_P, HC|]. intros A. exact A. }
  clearbody n5. clear HC HE'.
  match goal with |- P n (fst (if ?b then _ else _)) => destruct b end.
  - destruct (n_applied n5 <? is_lii q); cbn [fst].
    + eapply P_trans; [exact M5|]. apply E_P. etv.
    + eapply P_trans; [exact M5|]. apply E_P, E_install_compact.
  - cbn [fst]. unfold h_install_restore.
    destruct (last (map Some (n_snaps n5)) None) as [s|]; [|eapply P_trans; [exact M5|apply E_P, E_fail]].
    set (m1 := n5 <| n_fsm := fsm_unsnap (s_data s) |> <| n_applies := [] |>).
    assert (E1 : E n5 m1) by etv. clearbody m1.
    destruct (role_eqb (n_role m1) Shutdown); [eapply P_trans; [exact M5|apply E_P, E1]|].
    set (m2 := m1 <| n_applied := is_lii q |> <| n_commit := is_lii q |>).
    assert (C2 : n_commit m2 = is_lii q) by reflexivity.
    assert (A2 : n_applied m2 = is_lii q) by reflexivity.
    clearbody m2.
    pose proof (E_trans _ _ _ (E_discard m2 (is_lii q) (is_lit q))
                  (E_apply_configuration now (discard_log m2 (is_lii q) (is_lit q)) (is_conf q))) as HR.
    set (r := apply_configuration now _ (is_conf q)) in *. clearbody r.
    destruct (E_fields _ _ HR) as (_ & CR & AR & _).
    intros _. unfold ac. rewrite CR, AR, C2, A2. apply N.le_refl.
Qed.

(* ---- crash, restore, restart: commit index and applied index restart from the same value ---- *)
Lemma ac_crash m : ac (crash m).
Proof.
  assert (H1 : n_applied (crash m) = 0) by reflexivity.
  assert (H2 : n_commit (crash m) = 0) by reflexivity.
  unfold ac. rewrite H1, H2. apply N.le_refl.
Qed.

Lemma P_restore m : P m (restore m).
Proof.
  intros A. unfold restore.
  set (n1 := m <| n_open := true |> <| n_term := n_pterm m |> <| n_vote := n_pvote m |>).
  assert (H1 : ac n1) by exact A.
  clearbody n1.
  set (n2 := match last (map Some (n_snaps n1)) None with Some s => _ | None => n1 end).
  assert (H2 : ac n2).
  { subst n2. destruct (last (map Some (n_snaps n1)) None) as [s|]; [|exact H1].
    unfold ac. change (s_index s <= s_index s). apply N.le_refl. }
  clearbody n2.
  set (n3 := match last (map Some (n_snaps n1)) None with Some s => _ | None => n2 end).
  assert (H3 : ac n3).
  { subst n3. destruct (last (map Some (n_snaps n1)) None) as [s|]; [|exact H2].
    destruct (_ || _); exact H2. }
  clearbody n3. destruct (conf_scan _ _ _) as [c cc]. exact H3.
Qed.

Lemma ac_restart now m : ac (restart_after_crash now m).
Proof.
  unfold restart_after_crash.
  pose proof (ac_crash m) as HC. set (x := crash m) in *. clearbody x.
  pose proof (P_restore x HC) as HR. set (y := restore x) in *. clearbody y.
  eapply ac_E; [apply E_api_start|]. eapply ac_E; [apply E_new_opmanager|]. exact HR.
Qed.

(* ---- the initial nodes ---- *)
Lemma E_api_bootstrap n members : E n (api_bootstrap n members).
Proof.
  unfold api_bootstrap. destruct (n_conf n); [apply E_refl|].
  destruct (0 <? last_index (n_log n)); [apply E_refl|].
  eapply E_trans; [|apply E_append]. etv.
Qed.

Lemma ac_init ids boot et ld : forall n, In n (w_nodes (init_world ids boot et ld)) -> ac n.
Proof.
  intros n Hn. unfold init_world in Hn. cbn [w_nodes] in Hn. apply in_map_iff in Hn. destruct Hn as (id & <- & _).
  cbv zeta. set (m := mk_node id et ld).
  assert (H0 : ac m) by (unfold ac; change (0 <= 0); apply N.le_refl).
  clearbody m.
  set (m1 := if existsb (N.eqb id) boot then api_bootstrap m boot else m).
  assert (H1 : ac m1) by (subst m1; destruct (existsb (N.eqb id) boot); [eapply ac_E; [apply E_api_bootstrap|exact H0]|exact H0]).
  clearbody m1.
  eapply ac_E; [apply E_api_start|]. eapply ac_E; [apply E_new_opmanager|]. exact H1.
Qed.

(* ================= world level ================= *)
Definition Inv (ns : list node) : Prop := forall n, In n ns -> ac n.

Lemma Inv_set_node w w1 m' : w_nodes w1 = w_nodes w -> Inv (w_nodes w) -> ac m' -> Inv (w_nodes (set_node w1 m')).
Proof.
  intros Ew HI Hm n Hn. destruct (in_set _ _ _ Hn) as [->|H]; [exact Hm|]. rewrite Ew in H. apply HI, H.
Qed.

Lemma Inv_on_node w w1 id f : w_nodes w1 = w_nodes w -> Inv (w_nodes w) ->
  (forall m, P m (f m)) -> Inv (w_nodes (on_node w1 id f)).
Proof.
  intros Ew HI Hf. unfold on_node. destruct (get_node w1 id) as [m|] eqn:G; [|rewrite Ew; exact HI].
  destruct (IndexMono.node_in _ _ _ G) as [Hm _]. rewrite Ew in Hm.
  apply Inv_set_node with (w := w); [exact Ew|exact HI|]. apply Hf, HI, Hm.
Qed.

Lemma P_cond (b : bool) m m' : P m m' -> P m (if b then m' else m).
Proof. intros H. destruct b; [exact H|apply P_refl]. Qed.

Lemma Inv_step_deliver w c dup : Inv (w_nodes w) -> Inv (w_nodes (step_deliver w c dup)).
Proof.
  intros HI. unfold step_deliver. destruct (get_node w (c_dst c)) as [n|] eqn:G.
  2:{ destruct dup; exact HI. }
  destruct (IndexMono.node_in _ _ _ G) as [Hn Eid]. pose proof (HI n Hn) as An.
  destruct (n_frozen n) eqn:Fz; [destruct dup; exact HI|].
  assert (H1 : Inv (w_nodes (set_node w (fst (fst (run_handler (w_now w) n (c_req c))))))).
  { apply Inv_set_node with (w := w); [reflexivity|exact HI|].
    destruct (c_req c) as [q|q|q]; unfold run_handler.
    - destruct (h_append_entries (w_now w) n q) as [n1 p] eqn:EH. cbn [fst].
      replace n1 with (fst (h_append_entries (w_now w) n q)) by (rewrite EH; reflexivity).
      apply P_h_append_entries, An.
    - destruct (h_request_vote (w_now w) n q) as [n1 p] eqn:EH. cbn [fst].
      replace n1 with (fst (h_request_vote (w_now w) n q)) by (rewrite EH; reflexivity).
      eapply ac_E; [apply E_h_request_vote|exact An].
    - destruct (h_install_snapshot (w_now w) n q) as [n1 p] eqn:EH. cbn [fst].
      replace n1 with (fst (h_install_snapshot (w_now w) n q)) by (rewrite EH; reflexivity).
      apply P_h_install_snapshot, An. }
  destruct (run_handler (w_now w) n (c_req c)) as [[n1 resp] parked]. cbn [fst] in H1.
  destruct dup; [exact H1|].
  destruct (n_frozen n1); [exact H1|].
  destruct resp as [p|]; exact H1.
Qed.

Lemma Inv_step_reply w c failed : Inv (w_nodes w) -> Inv (w_nodes (step_reply w c failed)).
Proof.
  intros HI. unfold step_reply.
  set (w0 := set_call w (c <| c_state := CDone |>)).
  assert (E0 : w_nodes w0 = w_nodes w) by reflexivity.
  assert (H0 : Inv (w_nodes w0)) by (rewrite E0; exact HI).
  clearbody w0.
  destruct (get_node w (c_src c)) as [n|] eqn:G; [|exact H0].
  destruct (IndexMono.node_in _ _ _ G) as [Hn Eid]. pose proof (HI n Hn) as An.
  destruct (n_frozen n) eqn:Fz; [exact H0|].
  destruct (c_req c) as [q|q|q] eqn:Eq.
  - destruct (if failed then None else c_resp c) as [[p|p|p]|]; try exact H0.
    pose proof (E_l_ae_reply (w_now w) n (c_round c) (c_dst c) (c_fgen c) q p) as HF.
    destruct (l_ae_reply (w_now w) n (c_round c) (c_dst c) (c_fgen c) q p) as [n1 o]. cbn [fst snd] in *.
    assert (H1 : Inv (w_nodes (set_node w0 n1))).
    { apply Inv_set_node with (w := w); [exact E0|exact HI|exact (ac_E _ _ HF An)]. }
    destruct o; exact H1.
  - destruct (if failed then None else c_resp c) as [[p|p|p]|]; try exact H0.
    apply Inv_set_node with (w := w); [exact E0|exact HI|exact (ac_E _ _ (E_l_rv_reply _ _ _ _ _ _ _) An)].
  - destruct (if failed then None else c_resp c) as [[p|p|p]|];
      (apply Inv_set_node with (w := w); [exact E0|exact HI|exact (ac_E _ _ (E_l_is_reply _ _ _ _ _ _) An)]).
Qed.

Lemma Inv_step_task w m : In m (w_nodes w) -> Inv (w_nodes w) -> Inv (w_nodes (step_task w m)).
Proof.
  intros Hm HI. pose proof (HI m Hm) as Am. unfold step_task. destruct (n_tasks m) as [|t rest] eqn:Et; [exact HI|].
  set (n0 := m <| n_tasks := rest |>).
  assert (F0 : E m n0) by etv. clearbody n0.
  assert (Hsec : forall m', E m m' -> Inv (w_nodes (set_node w m'))).
  { intros m' HF. apply Inv_set_node with (w := w); [reflexivity|exact HI|exact (ac_E _ _ HF Am)]. }
  destruct t as [rid peer pv|rid peer].
  - destruct (l_rv_send n0 rid peer pv) as [q|]; apply (Hsec n0 F0).
  - pose proof (E_l_ae_send n0 peer) as HF.
    destruct (l_ae_send n0 peer) as [n1 sn]. cbn [fst] in *.
    assert (H1 : Inv (w_nodes (set_node w n1))).
    { apply Hsec. apply E_trans with n0; assumption. }
    destruct sn as [|q|q]; exact H1.
Qed.

(* one step, every label, every world *)
Theorem step_ac w l : (forall n, In n (w_nodes w) -> ac n) -> forall n', In n' (w_nodes (step w l)) -> ac n'.
Proof.
  intros HI. change (Inv (w_nodes w)) in HI. change (Inv (w_nodes (step w l))).
  destruct l; cbn [step].
  - (* LTick *) exact HI.
  - (* LElection *) apply Inv_on_node with (w := w); [reflexivity|exact HI|]. intros m. apply P_cond, E_P, E_signal_election.
  - (* LHeartbeat *) apply Inv_on_node with (w := w); [reflexivity|exact HI|]. intros m. apply P_cond, E_P, E_l_heartbeat.
  - (* LDeliver *) destruct (get_call w c) as [cl|] eqn:G; [|exact HI].
    destruct (c_state cl) eqn:Es; try exact HI. apply Inv_step_deliver, HI.
  - (* LDup *) destruct (get_call w c) as [cl|] eqn:G; [|exact HI]. apply Inv_step_deliver, HI.
  - (* LReply *) destruct (get_call w c) as [cl|] eqn:G; [|exact HI].
    destruct (c_state cl) eqn:Es; try exact HI. apply Inv_step_reply, HI.
  - (* LFail *) destruct (get_call w c) as [cl|] eqn:G; [|exact HI].
    destruct (c_state cl) eqn:Es; try exact HI; apply Inv_step_reply, HI.
  - (* LSubmit *) unfold fresh_fid. apply Inv_on_node with (w := w); [reflexivity|exact HI|]. intros m.
    destruct (n_frozen m); [apply P_refl|apply E_P, E_api_submit].
  - (* LAddServer *) unfold fresh_fid. apply Inv_on_node with (w := w); [reflexivity|exact HI|]. intros m.
    destruct (n_frozen m); [apply P_refl|apply E_P, E_api_add_server].
  - (* LRemoveServer *) unfold fresh_fid. apply Inv_on_node with (w := w); [reflexivity|exact HI|]. intros m.
    destruct (n_frozen m); [apply P_refl|apply E_P, E_api_remove_server].
  - (* LSnapshot *) apply Inv_on_node with (w := w); [reflexivity|exact HI|]. intros m. apply P_cond.
    eapply P_trans; [apply E_P, E_upd_snap_every|]. eapply P_trans; [apply P_lp_snapshot|]. apply E_P, E_upd_snap_every.
  - (* LCrash *) change (Inv (w_nodes (on_node w n crash))). apply Inv_on_node with (w := w); [reflexivity|exact HI|].
    intros m _. apply ac_crash.
  - (* LRestart *) apply Inv_on_node with (w := w); [reflexivity|exact HI|]. intros m.
    destruct (role_eqb (n_role m) Shutdown); [|apply P_refl]. intros _. apply ac_restart.
  - (* LBudget *) apply Inv_on_node with (w := w); [reflexivity|exact HI|]. intros m. apply E_P, E_upd_budget.
  - (* LPad *) apply Inv_on_node with (w := w); [reflexivity|exact HI|]. intros m. apply E_P, E_upd_pad.
  - (* LDefer *) apply Inv_on_node with (w := w); [reflexivity|exact HI|]. intros m. apply E_P, E_upd_tasks.
  - (* LRoMissed *) apply Inv_on_node with (w := w); [reflexivity|exact HI|]. intros m. apply E_P, E_upd_cv.
  - (* LTask *) destruct (get_node w n) as [m|] eqn:G; [|exact HI]. destruct (is_up m) eqn:Hup; [|exact HI].
    destruct (IndexMono.node_in _ _ _ G) as [Hm _]. apply Inv_step_task; auto.
  - (* LElectionRun *) apply Inv_on_node with (w := w); [reflexivity|exact HI|]. intros m. apply P_cond, E_P, E_l_election.
  - (* LCommit *) apply Inv_on_node with (w := w); [reflexivity|exact HI|]. intros m. apply P_cond, P_lp_commit.
  - (* LApply *) apply Inv_on_node with (w := w); [reflexivity|exact HI|]. intros m. apply P_cond, P_lp_apply.
  - (* LRo *) apply Inv_on_node with (w := w); [reflexivity|exact HI|]. intros m. apply P_cond, E_P, E_lp_ro.
  - (* LInstallResume *) destruct (get_node w n) as [m|] eqn:G; [|exact HI].
    destruct (IndexMono.node_in _ _ _ G) as [Hm _].
    pose proof (E_install_resume m) as HE. destruct (lp_install_resume m) as [m1 [q|]]; cbn [fst] in HE; [|exact HI].
    assert (H1 : Inv (w_nodes (set_node w m1))).
    { apply Inv_set_node with (w := w); [reflexivity|exact HI|exact (ac_E _ _ HE (HI m Hm))]. }
    cbv zeta. destruct (find _ _); exact H1.
Qed.

(* every reachable world, every schedule *)
Theorem index_order_ac ids boot et ld ls : forall n, In n (w_nodes (run (init_world ids boot et ld) ls)) -> ac n.
Proof.
  unfold run. pose proof (ac_init ids boot et ld) as H0. revert H0. generalize (init_world ids boot et ld).
  induction ls as [|l r IH]; intros w H0; cbn [fold_left]; [exact H0|].
  apply IH. apply step_ac, H0.
Qed.

(* ================= the first inequality is not an invariant ================= *)
(* node 0 is elected, commits and applies its no-op (index 2); node 2 receives the entry (call 5) with leader
   commit 0 but the reply is lost; node 0 takes a snapshot at 2, its next index for node 2 is still 2: the next
   heartbeat sends the snapshot (call 9) *)
Definition io_labels : list label :=
  [LTick 4; LElection 0; LElectionRun 0; LTask 0; LTask 0; LDeliver 0; LReply 0;
   LElectionRun 0; LTask 0; LTask 0; LDeliver 1; LReply 1; LDeliver 2; LReply 2;
   LTask 0; LTask 0; LDeliver 3; LReply 3; LDeliver 4; LReply 4; LCommit 0;
   LTask 0; LTask 0; LApply 0; LRo 0;
   LDeliver 5; LFail 5; LSnapshot 0; LHeartbeat 0; LTask 0; LTask 0; LDeliver 9].
Notation io_world := (run (init_world [0; 1; 2] [0; 1; 2] 4 2) io_labels) (only parsing).
(* identity, commit index, applied index, boundary, parked InstallSnapshot handlers, outcome, frozen *)
Definition io_view (n : node) := (n_id n, n_commit n, n_applied n, n_lii n, length (n_iswait n), n_out n, n_frozen n).

Lemma lii_above_applied_reachable :
  map io_view (w_nodes io_world) =
  [(0, 2, 2, 2, 0%nat, Ok, false); (1, 0, 0, 0, 0%nat, Ok, false); (2, 0, 0, 2, 1%nat, Ok, false)].
Proof. vm_compute. reflexivity. Qed.

Lemma io_refute w :
  map io_view (w_nodes w) = [(0, 2, 2, 2, 0%nat, Ok, false); (1, 0, 0, 0, 0%nat, Ok, false); (2, 0, 0, 2, 1%nat, Ok, false)] ->
  exists n, In n (w_nodes w) /\ n_commit n = 0 /\ n_applied n = 0 /\ n_lii n = 2 /\ n_frozen n = false /\ n_out n = Ok.
Proof.
  intros Hv.
  assert (Hin : In (2, 0, 0, 2, 1%nat, Ok, false) (map io_view (w_nodes w))).
  { rewrite Hv. right; right; left; reflexivity. }
  generalize dependent (w_nodes w). intros ns _ Hin.
  apply in_map_iff in Hin. destruct Hin as (n & Hf & Hn). exists n. split; [exact Hn|].
  unfold io_view in Hf. injection Hf as _ Hc Ha Hl _ Ho Hz. auto.
Qed.

Definition index_order_statement : Prop :=
  forall ids boot et ld ls n, In n (w_nodes (run (init_world ids boot et ld) ls)) -> ord3 n.

Theorem ord3_not_invariant : ~ index_order_statement.
Proof.
  intros H. destruct (io_refute io_world lii_above_applied_reachable) as (n & Hn & _ & Ha & Hl & _).
  destruct (H [0; 1; 2] [0; 1; 2] 4 2 io_labels n Hn) as [H1 _]. rewrite Ha, Hl in H1. lia.
Qed.

(* neither is  lastIncludedIndex <= commitIndex *)
Theorem lii_le_commit_not_invariant :
  ~ (forall ids boot et ld ls n, In n (w_nodes (run (init_world ids boot et ld) ls)) -> n_lii n <= n_commit n).
Proof.
  intros H. destruct (io_refute io_world lii_above_applied_reachable) as (n & Hn & Hc & _ & Hl & _).
  pose proof (H [0; 1; 2] [0; 1; 2] 4 2 io_labels n Hn) as H1. rewrite Hc, Hl in H1. lia.
Qed.

Print Assumptions step_ac.
Print Assumptions index_order_ac.
Print Assumptions ord3_not_invariant.
Print Assumptions lii_le_commit_not_invariant.
