(* The log effect of the AppendEntries handler for EVERY node (any write budget, frozen or not) and EVERY
   outcome (reject, stale, fatal, success, frozen half-way).  Extends Proofs/AESpec.v, which treats the
   unlimited-budget accepting case. *)
From RaftV Require Import Node.Leader Proofs.Frame Proofs.AESpec Proofs.Votes.
Open Scope N_scope.

(* ---------- storage writes under an arbitrary budget ---------- *)
Lemma tick_spec n :
  n_log (snd (tick_write n)) = n_log n /\
  (fst (tick_write n) = false -> n_frozen (snd (tick_write n)) = true).
Proof.
  unfold tick_write. destruct (n_frozen n) eqn:F; [cbn [fst snd]; auto|].
  destruct (n_budget n) as [k|]; [|cbn [fst snd]; split; [reflexivity|discriminate]].
  destruct (k =? 0); cbn [fst snd]; (split; [reflexivity|intros H; try discriminate H; reflexivity]).
Qed.

Lemma tick_frozen n : n_frozen n = true -> tick_write n = (false, n).
Proof. intros F. unfold tick_write. rewrite F. reflexivity. Qed.

Lemma truncate_frozen n i : n_frozen n = true -> truncate_log n i = n.
Proof. intros F. unfold truncate_log. rewrite (tick_frozen n F). reflexivity. Qed.

Lemma append_frozen es n : n_frozen n = true -> append_entries n es = n.
Proof. intros F. destruct es as [|e es]; cbn [append_entries]; [reflexivity|]. rewrite (tick_frozen n F). reflexivity. Qed.

(* a truncate either happens, or is refused and leaves the node frozen *)
Lemma truncate_general n i :
  n_log (truncate_log n i) = log_truncate (n_log n) i \/
  (n_log (truncate_log n i) = n_log n /\ n_frozen (truncate_log n i) = true).
Proof.
  unfold truncate_log. pose proof (tick_spec n) as [HL HF].
  destruct (tick_write n) as [ok n1]. cbn [fst snd] in HL, HF. destruct ok.
  - left. change (n_log (n1 <| n_log ::= fun l => log_truncate l i |>)) with (log_truncate (n_log n1) i).
    rewrite HL. reflexivity.
  - right. split; [exact HL|apply HF; reflexivity].
Qed.

(* a batch append writes a prefix of the batch *)
Lemma append_general es : forall n, exists m,
  (m <= length es)%nat /\ n_log (append_entries n es) = n_log n ++ firstn m es.
Proof.
  induction es as [|e es IH]; intros n; cbn [append_entries].
  - exists 0%nat. split; [cbn; lia|]. cbn [firstn]. rewrite app_nil_r. reflexivity.
  - pose proof (tick_spec n) as [HL _]. destruct (tick_write n) as [ok n1]. cbn [snd] in HL. destruct ok.
    + destruct (IH (n1 <| n_log ::= fun l => l ++ [e] |>)) as (m & Hm & H).
      exists (Datatypes.S m). split; [cbn [length]; lia|]. rewrite H.
      change (n_log (n1 <| n_log ::= fun l => l ++ [e] |>)) with (n_log n1 ++ [e]).
      rewrite HL, <- app_assoc. reflexivity.
    + exists 0%nat. split; [lia|]. cbn [firstn]. rewrite app_nil_r. exact HL.
Qed.

(* ---------- the loop over the request's entries, any budget ---------- *)
Lemma ae_scan_shape_gen now es : forall n n4 ta i0,
  wf_log (n_log n) -> consecutive i0 es ->
  first_index (n_log n) < i0 -> i0 <= next_index (n_log n) ->
  ae_scan now n es = Some (n4, ta) ->
  exists a, es = a ++ ta /\
    (forall e, In e a -> exists x, log_get (n_log n) (e_index e) = Some x /\ e_term x = e_term e) /\
    (forall t0 r0, ta = t0 :: r0 ->
       last_index (n_log n) < e_index t0 \/ exists x, log_get (n_log n) (e_index t0) = Some x /\ e_term x <> e_term t0) /\
    (n_log n4 = match ta with
                | [] => n_log n
                | _ => log_truncate (n_log n) (i0 + N.of_nat (length a))
                end
     \/ (n_log n4 = n_log n /\ n_frozen n4 = true)).
Proof.
  induction es as [|e es IH]; intros n n4 ta i0 Hwf Hc H1 H2 H; cbn [ae_scan] in H.
  - injection H as <- <-. exists []. split; [reflexivity|]. split; [intros e []|]. split; [intros ? ? ?; discriminate|left; reflexivity].
  - destruct Hc as [He Hc].
    pose proof (last_index_consecutive _ Hwf) as HL. unfold next_index in H2.
    assert (Hlen : (0 < length (n_log n))%nat) by (destruct Hwf as [Hne _]; destruct (n_log n); [congruence|cbn; lia]).
    destruct (N.ltb_spec (last_index (n_log n)) (e_index e)) as [Hb|Hb].
    + (* missing: append from here; the cut is at the end of the log *)
      injection H as <- <-. exists []. split; [reflexivity|]. split; [intros x []|].
      split; [intros t0 r0 Ht; injection Ht as <- _; left; exact Hb|]. left.
      unfold log_truncate. cbn [length].
      replace (N.to_nat (i0 + N.of_nat 0 - first_index (n_log n))) with (length (n_log n)) by lia.
      rewrite firstn_all. reflexivity.
    + destruct (log_get_wf (n_log n) (e_index e) Hwf) as (ex & Hg & Hi & Hn); [lia|lia|].
      rewrite Hg in H. rewrite Hi, N.eqb_refl in H. cbn [andb] in H.
      destruct (N.eqb_spec (e_term ex) (e_term e)) as [Et|Et]; cbn [negb] in H.
      * (* present with the same term: skip *)
        destruct (IH n n4 ta (i0 + 1) Hwf Hc) as (a & Ea & Ha & Hh & Hl); [lia|unfold next_index; lia|exact H|].
        exists (e :: a). split; [cbn [app]; congruence|]. split; [|split; [exact Hh|]].
        -- intros y [<-|Hy]; [exists ex; auto|apply Ha; exact Hy].
        -- destruct Hl as [Hl|Hl]; [left|right; exact Hl].
           rewrite Hl. destruct ta; [reflexivity|]. cbn [length].
           replace (i0 + N.of_nat (Datatypes.S (length a))) with (i0 + 1 + N.of_nat (length a)) by lia. reflexivity.
      * (* conflict: cut here *)
        assert (HN : lfb (if e_index e <=? c_index (conf_of (truncate_log n (e_index e)))
                          then next_configuration now (truncate_log n (e_index e)) (n_cconf (truncate_log n (e_index e)))
                          else truncate_log n (e_index e)) = lfb (truncate_log n (e_index e))).
        { destruct (_ <=? _); [apply lfb_next_configuration|reflexivity]. }
        injection H as <- <-. exists []. split; [reflexivity|]. split; [intros x []|].
        split; [intros t0 r0 Ht; injection Ht as <- _; right; exists ex; auto|].
        unfold lfb in HN. injection HN as HN1 HN2 _. rewrite HN1, HN2. cbn [length].
        replace (i0 + N.of_nat 0) with (e_index e) by lia.
        apply truncate_general.
Qed.

(* ---------- the handler ---------- *)
Theorem ae_log_general now n q :
  wf_log (n_log n) -> first_index (n_log n) = n_lii n ->
  consecutive (ae_prev_index q + 1) (ae_entries q) ->
  let n' := fst (h_append_entries now n q) in
  n_log n' = n_log n \/
  exists a ta m,
    ae_entries q = a ++ ta /\ ta <> [] /\ (m <= length ta)%nat /\
    n_term n <= ae_term q /\
    n_lii n <= ae_prev_index q /\ ae_prev_index q < next_index (n_log n) /\
    ((ae_prev_index q = n_lii n /\ ae_prev_term q = n_lit n) \/
     (n_lii n < ae_prev_index q /\ exists pe, log_get (n_log n) (ae_prev_index q) = Some pe /\ e_term pe = ae_prev_term q)) /\
    (forall e, In e a -> exists x, log_get (n_log n) (e_index e) = Some x /\ e_term x = e_term e) /\
    (forall t0 r0, ta = t0 :: r0 ->
       last_index (n_log n) < e_index t0 \/ exists x, log_get (n_log n) (e_index t0) = Some x /\ e_term x <> e_term t0) /\
    n_log n' = log_truncate (n_log n) (ae_prev_index q + 1 + N.of_nat (length a)) ++ firstn m ta.
Proof.
  intros Hwf Hfi Hc. cbn zeta.
  destruct (role_eqb (n_role n) Shutdown) eqn:E1; [left; unfold h_append_entries; rewrite E1; reflexivity|].
  destruct (ae_term q <? n_term n) eqn:E2; [left; unfold h_append_entries; rewrite E1, E2; reflexivity|].
  rewrite (ae_unfold now n q E1 E2). cbn zeta.
  pose proof (LC_ae_pre now n q) as (HL & _ & Hlii & Hlit). set (n3 := ae_pre now n q) in *.
  destruct (N.ltb_spec (ae_prev_index q) (n_lii n3)) as [Hp1|Hp1]; [left; exact HL|].
  destruct (N.leb_spec (next_index (n_log n3)) (ae_prev_index q)) as [Hp2|Hp2]; [left; exact HL|].
  destruct ((n_lii n3 =? ae_prev_index q) && negb (n_lit n3 =? ae_prev_term q)) eqn:E3; [left; exact HL|].
  match goal with |- context [fst (match ?c with _ => _ end)] => set (conflict := c) end.
  assert (Hcf : conflict = None ->
    (ae_prev_index q = n_lii n /\ ae_prev_term q = n_lit n) \/
    (n_lii n < ae_prev_index q /\ exists pe, log_get (n_log n) (ae_prev_index q) = Some pe /\ e_term pe = ae_prev_term q)).
  { subst conflict. destruct (N.ltb_spec (n_lii n3) (ae_prev_index q)) as [Hlt|Hge].
    - destruct (log_get (n_log n3) (ae_prev_index q)) as [pe|] eqn:Eg; [|discriminate].
      destruct (N.eqb_spec (e_term pe) (ae_prev_term q)) as [Et|Et]; [|discriminate].
      intros _. right. split; [lia|]. exists pe. rewrite <- HL. auto.
    - intros _. left. assert (Hq : n_lii n3 = ae_prev_index q) by lia.
      rewrite Hq, N.eqb_refl in E3. cbn [andb] in E3.
      destruct (N.eqb_spec (n_lit n3) (ae_prev_term q)) as [Et|Et]; [|discriminate].
      split; congruence. }
  clearbody conflict. destruct conflict as [[idx|]|].
  - left. exact HL.
  - left. cbn [fst]. destruct (LC_fail Fatal n3) as (HF & _). congruence.
  - specialize (Hcf eq_refl).
    destruct (ae_scan now n3 (ae_entries q)) as [[n4 ta]|] eqn:Es;
      [|left; cbn [fst]; destruct (LC_fail Fatal n3) as (HF & _); congruence].
    destruct (ae_scan_shape_gen now (ae_entries q) n3 n4 ta (ae_prev_index q + 1)) as (a & Ea & Ha & Hh & Hl4);
      [rewrite HL; exact Hwf|exact Hc|rewrite HL, Hfi, <- Hlii; lia|lia|exact Es|].
    cbn [fst].
    destruct (append_general ta n4) as (m & Hm & H5).
    pose proof (append_frozen ta n4) as H5f.
    set (n5 := append_entries n4 ta) in *. clearbody n5.
    match goal with |- context [n_log (if ?c then ?x else ?y)] =>
      assert (H6 : n_log (if c then x else y) = n_log y) by (destruct c; reflexivity); rewrite H6; clear H6 end.
    destruct Hl4 as [Hl4|[Hl4 F4]].
    + destruct ta as [|t ta'].
      * left. rewrite H5, firstn_nil, app_nil_r, Hl4. exact HL.
      * right. exists a, (t :: ta'), m.
        split; [exact Ea|]. split; [discriminate|]. split; [exact Hm|].
        split; [apply N.ltb_ge; exact E2|]. split; [lia|]. split; [rewrite <- HL; exact Hp2|].
        split; [exact Hcf|]. split; [rewrite <- HL; exact Ha|]. split; [rewrite <- HL; exact Hh|].
        rewrite H5, Hl4, HL. reflexivity.
    + left. rewrite (H5f F4). congruence.
Qed.

(* ---------- the persistent term of a request with a higher term ---------- *)
Lemma ae_scan_frozen now es : forall n n4 ta,
  n_frozen n = true -> ae_scan now n es = Some (n4, ta) -> n_log n4 = n_log n /\ n_frozen n4 = true.
Proof.
  induction es as [|e es IH]; intros n n4 ta F H; cbn [ae_scan] in H.
  - injection H as <- _. auto.
  - destruct (last_index (n_log n) <? e_index e); [injection H as <- _; auto|].
    destruct (log_get (n_log n) (e_index e)) as [ex|]; [|discriminate].
    destruct ((e_index ex =? e_index e) && negb (e_term ex =? e_term e)); [|eapply IH; eassumption].
    rewrite (truncate_frozen n (e_index e) F) in H. injection H as <- _.
    destruct (e_index e <=? c_index (conf_of n)); [|auto].
    pose proof (lfb_next_configuration now n (n_cconf n)) as HN. unfold lfb in HN. injection HN as HN1 HN2 _.
    rewrite HN1, HN2. auto.
Qed.

(* after the preamble nothing writes the persistent term; a node frozen by the preamble keeps its log *)
Lemma ae_after_pre now n q :
  role_eqb (n_role n) Shutdown = false -> (ae_term q <? n_term n) = false ->
  let n' := fst (h_append_entries now n q) in
  n_pterm n' = n_pterm (ae_pre now n q) /\ (n_frozen (ae_pre now n q) = true -> n_log n' = n_log n).
Proof.
  intros E1 E2. cbn zeta. rewrite (ae_unfold now n q E1 E2). cbn zeta.
  pose proof (LC_ae_pre now n q) as (HL & _). set (n3 := ae_pre now n q) in *.
  assert (Hfail : n_pterm (fail Fatal n3) = n_pterm n3 /\ (n_frozen n3 = true -> n_log (fail Fatal n3) = n_log n)).
  { split; [apply (q_pterm _ _ (Q_fail Fatal n3))|]. intros _. destruct (LC_fail Fatal n3) as (HF & _). congruence. }
  destruct (ae_prev_index q <? n_lii n3); [cbn [fst]; auto|].
  destruct (next_index (n_log n3) <=? ae_prev_index q); [cbn [fst]; auto|].
  destruct ((n_lii n3 =? ae_prev_index q) && negb (n_lit n3 =? ae_prev_term q)); [cbn [fst]; auto|].
  match goal with |- context [fst (match ?c with _ => _ end)] => destruct c as [[idx|]|] end.
  - cbn [fst]. auto.
  - cbn [fst]. exact Hfail.
  - destruct (ae_scan now n3 (ae_entries q)) as [[n4 ta]|] eqn:Es; [|cbn [fst]; exact Hfail].
    cbn [fst].
    pose proof (q_pterm _ _ (Q_ae_scan _ _ _ _ _ Es)) as P4.
    pose proof (q_pterm _ _ (Q_append ta n4)) as P5.
    pose proof (append_frozen ta n4) as H5f.
    set (n5 := append_entries n4 ta) in *. clearbody n5.
    match goal with |- context [n_log (if ?c then ?x else ?y)] =>
      assert (H6 : n_log (if c then x else y) = n_log y /\ n_pterm (if c then x else y) = n_pterm y)
        by (destruct c; split; reflexivity); destruct H6 as [H6 H7]; rewrite H6, H7; clear H6 H7 end.
    split; [congruence|]. intros F3.
    destruct (ae_scan_frozen _ _ _ _ _ F3 Es) as [L4 F4]. rewrite (H5f F4). congruence.
Qed.

(* a higher term is persisted by the preamble, unless that write is refused and the node freezes *)
Lemma ae_pre_higher now n q :
  n_term n < ae_term q -> n_pterm (ae_pre now n q) = ae_term q \/ n_frozen (ae_pre now n q) = true.
Proof.
  intros Hlt. unfold ae_pre.
  set (n1 := n <| n_contact := now |> <| n_leader := Some (ae_leader q) |>).
  assert (T1 : n_term n1 = n_term n) by reflexivity. clearbody n1.
  destruct (N.ltb_spec (n_term n1) (ae_term q)) as [_|Hge]; [|lia].
  pose proof (become_follower_fields now n1 (ae_leader q) (ae_term q)) as HF. cbn zeta in HF.
  destruct HF as (HT & _ & _ & HR & _).
  destruct (become_follower_core now n1 (ae_leader q) (ae_term q)) as [_ _ PT _ _ _ _ FZ _ _].
  set (n2 := become_follower now n1 (ae_leader q) (ae_term q)) in *. clearbody n2.
  rewrite HT, HR, N.eqb_refl. cbn [role_eqb orb andb].
  pose proof (persist_core (bf_pre n1 (ae_leader q) (ae_term q))) as HP. cbn zeta in HP.
  destruct HP as (_ & _ & _ & _ & _ & _ & P5 & _).
  pose proof (persist_frozen (bf_pre n1 (ae_leader q) (ae_term q))) as PF.
  pose proof (tick_false_frozen (bf_pre n1 (ae_leader q) (ae_term q))) as TF.
  assert (Mt : n_term (bf_pre n1 (ae_leader q) (ae_term q)) = ae_term q) by reflexivity.
  set (m := bf_pre n1 (ae_leader q) (ae_term q)) in *. clearbody m.
  rewrite PT, FZ, P5, PF. destruct (fst (tick_write m)); [left; exact Mt|right; apply TF; reflexivity].
Qed.

Lemma ae_higher_term_log now n q :
  n_term n < ae_term q ->
  n_log (fst (h_append_entries now n q)) <> n_log n ->
  n_pterm (fst (h_append_entries now n q)) = ae_term q.
Proof.
  intros Hlt Hne.
  destruct (role_eqb (n_role n) Shutdown) eqn:E1;
    [exfalso; apply Hne; unfold h_append_entries; rewrite E1; reflexivity|].
  destruct (ae_term q <? n_term n) eqn:E2;
    [exfalso; apply Hne; unfold h_append_entries; rewrite E1, E2; reflexivity|].
  pose proof (ae_after_pre now n q E1 E2) as HA. cbn zeta in HA. destruct HA as [Hp Hf].
  destruct (ae_pre_higher now n q Hlt) as [H|H]; [congruence|exfalso; apply Hne, Hf, H].
Qed.

Print Assumptions ae_log_general.
Print Assumptions ae_higher_term_log.
