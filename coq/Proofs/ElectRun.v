(* Election safety (C02), part 7: delivery, responses, process death, restart; every step preserves the
   invariant; the invariant holds initially; hence in every reachable world of a static execution. *)
From RaftV Require Import Cluster.World Cluster.Statements Proofs.Frame Proofs.RVSpec.
From RaftV Require Import Proofs.ConfNode Proofs.ConfStatic Proofs.ConfSticky.
From RaftV Require Import Proofs.Votes Proofs.VoteRecords Proofs.Names Proofs.ElectSpec.
From RaftV Require Import Proofs.ElectDefs Proofs.EFrame Proofs.RoleFrame Proofs.ElectBook Proofs.ElectNode Proofs.ElectSteps
                          Proofs.ElectWorld Proofs.ElectReply Proofs.ElectStep.
From Coq Require Import Permutation.
Open Scope N_scope.

Section Run.
Variable C : config.
Hypothesis HCnd : NoDup (member_ids C).

(* ---------------- a pending RPC receives its response ---------------- *)
Lemma XInv_set_resp w c p s :
  let c' := c <| c_resp := Some p |> <| c_state := s |> in
  XInv C w -> VInv (set_call w c') -> In c (w_calls w) -> c_state c = CPending -> s <> CPending -> s <> CDone ->
  (forall t x k1, granted_real c' t x -> In k1 (w_calls w) -> real_rv k1 t -> c_dst c = c_src k1 -> x = c_src k1) ->
  XInv C (set_call w c').
Proof.
  cbn zeta. set (c' := c <| c_resp := Some p |> <| c_state := s |>).
  intros [HV HN HB S1 S2 L0 HL] HV' Hin Hst Hs1 Hs2 Hnew.
  assert (Hcalls : w_calls (set_call w c') = upd_call c' (w_calls w)) by reflexivity.
  assert (Hsub : forall k', In k' (w_calls (set_call w c')) -> (In k' (w_calls w) /\ c_id k' <> c_id c) \/ k' = c').
  { intros k' H. rewrite Hcalls in H. unfold upd_call in H. apply in_map_iff in H. destruct H as (d & E & Hd).
    destruct (N.eqb_spec (c_id d) (c_id c')) as [E'|E']; subst; [right; reflexivity|left; split; [exact Hd|exact E']]. }
  assert (Hkeep : forall k, In k (w_calls w) -> c_id k <> c_id c -> In k (w_calls (set_call w c'))).
  { intros k Hk E. rewrite Hcalls. unfold upd_call. apply in_map_iff. exists k. split; [|exact Hk].
    destruct (N.eqb_spec (c_id k) (c_id c')) as [E'|E']; [contradiction|reflexivity]. }
  assert (Hreal : forall t, real_rv c' t -> real_rv c t) by (intros t (q & A); exists q; exact A).
  assert (Hnc : forall id rid, counted id rid c = false).
  { intros id rid. unfold counted, cdone. rewrite Hst. rewrite !andb_false_r. reflexivity. }
  constructor.
  - exact HV'.
  - apply NInv_set_call; [exact HN|]. apply (named_upd c); [reflexivity|reflexivity|apply HN, Hin].
  - intros n Hn. change (w_nodes (set_call w c')) with (w_nodes w) in Hn.
    apply (BN_calls_sim C (w_calls w)); [| |apply HB, Hn].
    + intros k' Hk' _. destruct (Hsub k' Hk') as [[H _]| ->]; [exists k'; auto|exists c; auto].
    + intros rid. rewrite Hcalls. unfold upd_call. apply cnt_map_mono_in. intros k Hk Hck.
      destruct (N.eqb_spec (c_id k) (c_id c')) as [E|E]; [|exact Hck].
      assert (k = c) by (eapply nodup_id_eq; [apply (vi_nodup w HV)|exact Hk|exact Hin|exact E]). subst k.
      rewrite Hnc in Hck. discriminate.
  - intros k' t n Hk' Hr Hn En. change (w_nodes (set_call w c')) with (w_nodes w) in Hn.
    destruct (Hsub k' Hk') as [[H _]| ->]; [apply S1; assumption|]. apply (S1 c t n Hin (Hreal t Hr) Hn En).
  - intros k1 k2 t x H1 H2 Hr Hg Ed.
    destruct (Hsub k2 H2) as [[B _]| ->].
    + destruct (Hsub k1 H1) as [[A _]| ->]; [apply (S2 k1 k2 t x); assumption|]. apply (S2 c k2 t x Hin B (Hreal t Hr) Hg Ed).
    + destruct (Hsub k1 H1) as [[A _]| ->]; [apply (Hnew t x k1 Hg A Hr Ed)|]. apply (Hnew t x c Hg Hin (Hreal t Hr) Ed).
  - exact L0.
  - intros n Hn Hl Hm. eapply won_persist; [|apply HL; assumption].
    intros k Hk. destruct (N.eq_dec (c_id k) (c_id c)) as [E|E].
    + assert (k = c) by (eapply nodup_id_eq; [apply (vi_nodup w HV)|exact Hk|exact Hin|exact E]). subst k.
      exists c'. split; [|split; [reflexivity|]].
      * rewrite Hcalls. unfold upd_call. apply in_map_iff. exists c. split; [|exact Hin]. cbn. rewrite N.eqb_refl. reflexivity.
      * intros t0 a0 (q0 & p0 & _ & _ & _ & _ & Hr & _). rewrite (vi_pend w HV c Hin Hst) in Hr. discriminate.
    + exists k. split; [apply Hkeep; assumption|]. split; [reflexivity|auto].
Qed.

Lemma XInv_step_deliver w c dup :
  XInv C w -> WI C w -> In c (w_calls w) -> (dup = false -> c_state c = CPending) -> XInv C (step_deliver w c dup).
Proof.
  intros HX HW Hin Hst.
  assert (HVd : dup = false -> VInv (step_deliver w c false)).
  { intros E. apply VInv_step_deliver; [apply (x_v C w HX)|exact Hin|apply Hst, E]. }
  unfold step_deliver in *. destruct (get_node w (c_dst c)) as [n|] eqn:G.
  2:{ destruct dup; [exact HX|]. apply XInv_set_state; [exact HX|exact Hin|discriminate|left; rewrite (Hst eq_refl); discriminate]. }
  destruct (Votes.get_node_in _ _ _ G) as [Hn Eid]. pose proof (vi_coh w (x_v C w HX) n Hn) as Hc.
  pose proof (get_node_id _ _ _ G) as Gid.
  destruct (n_frozen n) eqn:F.
  { destruct dup; [exact HX|]. apply XInv_set_state; [exact HX|exact Hin|discriminate|left; rewrite (Hst eq_refl); discriminate]. }
  pose proof (R_run_handler (w_now w) n (c_req c) Hc) as HR.
  pose proof (E_run_handler (w_now w) n (c_req c)) as HE.
  pose proof (K_run_handler (w_now w) n (c_req c)) as HK.
  pose proof (sticky_run_handler C (w_now w) n (c_req c) (WI_node C w n HW Hn)) as HS.
  destruct (run_handler (w_now w) n (c_req c)) as [[n1 resp] parked] eqn:ER. cbn [fst] in HR, HE, HK, HS.
  assert (HX1 : XInv C (set_node w n1)).
  { apply XInv_node_section with (m := n); try assumption; [intros _; exact HR| |].
    - apply BN_node_E; assumption.
    - intros EC. apply HS; [exact EC|apply (WI_call C w c HW Hin)]. }
  destruct dup; [exact HX1|]. specialize (Hst eq_refl). specialize (HVd eq_refl).
  assert (Hin1 : In c (w_calls (set_node w n1))) by exact Hin.
  destruct (n_frozen n1) eqn:F1.
  { apply XInv_set_state; [exact HX1|exact Hin1|discriminate|left; rewrite Hst; discriminate]. }
  destruct resp as [p|].
  2:{ apply XInv_set_state; [exact HX1|exact Hin1|discriminate|left; rewrite Hst; discriminate]. }
  apply XInv_set_resp; [exact HX1|exact HVd|exact Hin1|exact Hst|destruct parked; discriminate|destruct parked; discriminate|].
  (* a new grant: the voter had not voted for anybody else who asked in that term *)
  intros t x k1 (q & p' & A1 & A2 & A3 & A4 & A5 & A6) Hk1 Hr1 Ed.
  cbn [c_req c_resp set] in A1, A5.
  change (c_req (c <| c_resp := Some p |> <| c_state := _ |>)) with (c_req c) in A1. injection A5 as ->.
  unfold run_handler in ER. rewrite A1 in ER.
  destruct (h_request_vote (w_now w) n q) as [n1' pr] eqn:EH. injection ER as <- Ep _.
  destruct pr as [pr|]; [|discriminate]. injection Ep as <-.
  assert (Hg : rv_granted (snd (h_request_vote (w_now w) n q)) = true) by (rewrite EH; exact A6).
  change (w_calls (set_node w n1')) with (w_calls w) in Hk1.
  assert (Hv : voted n (rv_term q) (c_src k1)).
  { rewrite A3. apply (x_s1 C w HX k1 t n Hk1 Hr1 Hn). congruence. }
  rewrite <- A4. symmetry. apply (rv_no_second_grant (w_now w) n q (c_src k1) Hc F Hv A2 Hg).
Qed.

(* ---------------- process death, restart ---------------- *)
Lemma XInv_reset w m m' :
  XInv C w -> get_node w (n_id m) = Some m -> S m m' -> erf m' = ([], n_next_round m, []) -> ~ active (n_role m') ->
  XInv C (set_node w m').
Proof.
  intros [HV HN HB S1 S2 L0 HL] G HS He Hna.
  destruct (Votes.get_node_in _ _ _ G) as [Hin _]. pose proof HS as (Eid & T & _).
  constructor.
  - apply VInv_set_node with (m := m); assumption.
  - eapply NInv_calls; [|exact HN]. reflexivity.
  - apply BW_set_node; [exact HB|]. apply (BN_reset C _ m); [exact He|exact Eid|apply HB, Hin].
  - intros k t n Hk Hr Hn En. change (w_calls (set_node w m')) with (w_calls w) in Hk.
    destruct (in_set_node _ _ _ Hn) as [->|[H _]]; [|apply S1; assumption].
    eapply voted_stable; [exact T|]. apply S1; [exact Hk|exact Hr|exact Hin|congruence].
  - intros k1 k2 t x H1 H2. exact (S2 k1 k2 t x H1 H2).
  - intros n Hn Ha. destruct (in_set_node _ _ _ Hn) as [->|[H _]]; [contradiction|apply L0; assumption].
  - intros n Hn Hl Hm. change (w_calls (set_node w m')) with (w_calls w).
    destruct (in_set_node _ _ _ Hn) as [->|[H _]]; [|apply HL; assumption].
    exfalso. apply Hna. rewrite Hl. unfold active. auto.
Qed.

(* ---------------- the scheduler reorders the run queue ---------------- *)
Lemma perm_filter {A} (f : A -> bool) l l' : Permutation l l' -> Permutation (filter f l) (filter f l').
Proof.
  induction 1 as [|x l l' H IH|x y l|l l' l'' H1 IH1 H2 IH2]; cbn [filter].
  - constructor.
  - destruct (f x); [constructor|]; exact IH.
  - destruct (f x), (f y); try apply Permutation_refl. apply perm_swap.
  - eapply Permutation_trans; eassumption.
Qed.

Lemma BN_tasks_perm cs m m' :
  Permutation (n_tasks m) (n_tasks m') ->
  n_id m' = n_id m -> n_rounds m' = n_rounds m -> n_next_round m' = n_next_round m ->
  n_term m' = n_term m -> n_vote m' = n_vote m -> n_frozen m' = n_frozen m ->
  BN C cs m -> BN C cs m'.
Proof.
  intros HP Eid Er En ETm EV EF [WF TL CL TT TC CC ND TP CP CS CT RQ RT LV SV0].
  assert (Hsub : forall x, In x (n_tasks m') -> In x (n_tasks m)) by (intros x H; eapply Permutation_in; [apply Permutation_sym, HP|exact H]).
  assert (Hrv : forall rid, rv_round cs m' rid -> rv_round cs m rid) by (intros rid; apply rv_round_fewer_tasks; assumption).
  constructor; unfold wf_rounds in *; rewrite ?Eid, ?Er, ?En, ?ETm, ?EV, ?EF in *; auto.
  - eapply Permutation_NoDup; [apply perm_filter, HP|exact ND].
  - intros rid p pv H. apply (TP rid p pv), Hsub, H.
  - intros rid p pv H. apply (LV rid p pv), Hsub, H.
  - intros rid p r H. apply (SV0 rid p r), Hsub, H.
Qed.

Lemma perm_rotate {A} (l : list A) : Permutation l (tl l ++ firstn 1 l).
Proof. destruct l as [|x r]; [constructor|]. cbn [tl firstn]. apply Permutation_cons_append. Qed.

(* ---------------- the sender consumes a response (or a transport error) ---------------- *)
Lemma XInv_step_reply w c failed :
  XInv C w -> WI C w -> In c (w_calls w) -> c_state c <> CDone -> (failed = false -> c_state c = CAnswered) ->
  XInv C (step_reply w c failed).
Proof.
  intros HX HW Hin Hnd Hst. unfold step_reply.
  set (c0 := c <| c_state := CDone |>). set (w0 := set_call w c0).
  assert (HX0 : XInv C w0) by (apply XInv_set_state; [exact HX|exact Hin|discriminate|right; reflexivity]).
  assert (HW0 : WI C w0) by (apply WI_set_call; [exact HW|apply (WI_call C w c HW Hin)]).
  destruct (get_node w (c_src c)) as [n|] eqn:G; [|exact HX0].
  destruct (Votes.get_node_in _ _ _ G) as [Hn Eid]. pose proof (vi_coh w (x_v C w HX) n Hn) as Hc.
  assert (G0 : get_node w0 (n_id n) = Some n) by (rewrite Eid; exact G).
  assert (Hn0 : In n (w_nodes w0)) by exact Hn.
  destruct (n_frozen n) eqn:F; [exact HX0|].
  assert (Hc0in : In c0 (w_calls w0)).
  { change (w_calls w0) with (upd_call c0 (w_calls w)). unfold upd_call. apply in_map_iff. exists c. split; [|exact Hin]. cbn. rewrite N.eqb_refl. reflexivity. }
  destruct (c_req c) as [q|q|q] eqn:Eq.
  - (* sendAppendEntries *)
    destruct (if failed then None else c_resp c) as [[p|p|p]|]; try exact HX0.
    pose proof (R_ae_reply (w_now w) n (c_round c) (c_dst c) (c_fgen c) q p Hc) as HR.
    pose proof (ae_reply_EB (w_now w) n (c_round c) (c_dst c) (c_fgen c) q p) as HEB.
    pose proof (K_ae_reply (w_now w) n (c_round c) (c_dst c) (c_fgen c) q p) as HK.
    pose proof (sticky_l_ae_reply C (w_now w) n (c_round c) (c_dst c) (c_fgen c) q p (WI_node C w n HW Hn)) as HS.
    pose proof (ae_reply_named (w_now w) n (c_round c) (c_dst c) (c_fgen c) q p) as HNm.
    destruct (l_ae_reply (w_now w) n (c_round c) (c_dst c) (c_fgen c) q p) as [n1 o]. cbn [fst] in HR, HEB, HK, HS.
    pose proof (x_b C w0 HX0 n Hn0) as HB0.
    assert (Htag0 : call_tag c0 = 0) by (unfold call_tag; change (c_req c0) with (c_req c); rewrite Eq; reflexivity).
    assert (Hsrc0 : c_src c0 = n_id n) by (symmetry; exact Eid).
    assert (HX1 : XInv C (set_node w0 n1)).
    { apply XInv_node_section with (m := n); try assumption; [intros _; exact HR|].
      apply (BN_node_EB C _ (c_round c)); try assumption.
      (* the incremented counter is not a RequestVote counter *)
      intros r Hr Er [(k & Hk & Es & Erd & Ev)|(p0 & pv & Ht)]; exfalso.
      - assert (Et : call_tag k = call_tag c0) by (apply (b_cc _ _ _ HB0); auto).
        rewrite Htag0 in Et. unfold is_rv in Ev. unfold call_tag in Et. destruct (c_req k) as [|qk|]; try discriminate.
        destruct (rv_prevote qk); discriminate.
      - pose proof (b_tc _ _ _ HB0 _ c0 Ht Hc0in Hsrc0 eq_refl) as Et. rewrite Htag0 in Et. cbn in Et. destruct pv; discriminate. }
    destruct o as [isq|]; [|exact HX1].
    assert (Hnodes1 : forall x, In x (w_nodes (set_node w0 n1)) -> n_id x = n_id n -> x = n1).
    { intros x H E. destruct (in_set_node _ _ _ H) as [->|[_ H2]]; [reflexivity|]. exfalso. apply H2.
      rewrite (Votes.r_id _ _ HR). exact E. }
    apply XInv_new_call; [exact HX1|unfold named; cbn; apply (HNm n1 isq eq_refl)| | |].
    + intros x Hx Ex. rewrite (Hnodes1 x Hx Ex). change (w_calls (set_node w0 n1)) with (w_calls w0).
      apply BN_add_call_other.
      * cbn. rewrite (Votes.r_id _ _ HR). reflexivity.
      * cbn. pose proof (b_call_lt _ _ _ HB0 c0 Hc0in Hsrc0) as H1. pose proof (eb_next _ _ _ HEB). change (c_round c0) with (c_round c) in H1. lia.
      * reflexivity.
      * intros t Ht Ert. cbn in Ert. destruct (eb_tae _ _ _ HEB t Ht) as [A|(A & _)].
        -- pose proof (b_tc _ _ _ HB0 t c0 A Hc0in Hsrc0 (eq_sym Ert)) as H1. rewrite Htag0 in H1. symmetry. exact H1.
        -- destruct t; [discriminate|reflexivity].
      * intros k' Hk' Es' Er'. cbn in Er'. rewrite (Votes.r_id _ _ HR) in Es'.
        rewrite <- Htag0. apply (b_cc _ _ _ HB0); auto.
      * apply (x_b C _ HX1 n1). destruct (Votes.get_node_in _ _ _ (get_node_set_self w0 n n1 G0 (Votes.r_id _ _ HR))) as [H _]. exact H.
    + intros t x (q0 & Eq0 & _) _ _. cbn in Eq0. discriminate.
    + intros t k2 x (q0 & Eq0 & _) _ _ _. cbn in Eq0. discriminate.
  - (* sendRequestVote *)
    destruct failed; [exact HX0|]. specialize (Hst eq_refl).
    destruct (c_resp c) as [[p|p|p]|] eqn:Ep; try exact HX0.
    apply XInv_rv_reply; assumption.
  - (* sendInstallSnapshot *)
    assert (HIS : forall resp, XInv C (set_node w0 (l_is_reply (w_now w) n (c_dst c) (c_fgen c) q resp))).
    { intros resp. apply XInv_node_section with (m := n); try assumption.
      - intros _. apply R_is_reply, Hc.
      - apply BN_node_E; [apply R_is_reply, Hc|exact Hc|apply E_l_is_reply].
      - apply K_l_is_reply.
      - apply (sticky_l_is_reply C), (WI_node C w n HW Hn). }
    destruct (if failed then None else c_resp c) as [[p|p|p]|]; apply HIS.
Qed.

(* ---------------- every step ---------------- *)
Lemma XInv_cond_node w id (b : node -> bool) (g : node -> node) :
  XInv C w -> WI C w ->
  (forall m, coh m -> R m (g m)) -> (forall m, E m (g m)) -> (forall m, K m (g m)) ->
  (forall m, CI C m -> conf_of m = C -> conf_of (g m) = C) ->
  XInv C (on_node w id (fun m => if b m then g m else m)).
Proof.
  intros HX HW HR HE HK HS. apply XInv_on_node; try assumption; intros m; destruct (b m); auto using R_refl, E_refl, K_refl.
Qed.

Theorem step_XInv w l : static_label l = true -> WI C w -> XInv C w -> XInv C (step w l).
Proof.
  intros Hl HW HX. destruct l; cbn [step]; try discriminate Hl.
  - (* LTick *) eapply XInv_same; [| | |exact HX]; reflexivity.
  - (* LElection *) apply XInv_cond_node; try assumption.
    + intros m _. apply Q_R, Q_signal_election.
    + apply E_signal_election.
    + intros m. apply K_of_rt. reflexivity.
    + apply (sticky_signal_election C).
  - (* LHeartbeat *) apply XInv_cond_node; try assumption.
    + intros m _. apply Q_R, Q_heartbeat.
    + apply E_l_heartbeat.
    + apply K_l_heartbeat.
    + apply (sticky_l_heartbeat C).
  - (* LDeliver *) destruct (get_call w c) as [cl|] eqn:G; [|exact HX]. destruct (get_call_in _ _ _ G) as [Hin _].
    destruct (c_state cl) eqn:Es; try exact HX. apply XInv_step_deliver; auto.
  - (* LDup *) destruct (get_call w c) as [cl|] eqn:G; [|exact HX]. destruct (get_call_in _ _ _ G) as [Hin _].
    apply XInv_step_deliver; auto. discriminate.
  - (* LReply *) destruct (get_call w c) as [cl|] eqn:G; [|exact HX]. destruct (get_call_in _ _ _ G) as [Hin _].
    destruct (c_state cl) eqn:Es; try exact HX. apply XInv_step_reply; auto; rewrite Es; discriminate.
  - (* LFail *) destruct (get_call w c) as [cl|] eqn:G; [|exact HX]. destruct (get_call_in _ _ _ G) as [Hin _].
    destruct (c_state cl) eqn:Es; try exact HX; apply XInv_step_reply; auto; try (rewrite Es; discriminate); discriminate.
  - (* LSubmit *) unfold fresh_fid.
    assert (HX1 : XInv C (w <| w_next_fid ::= N.succ |>)) by (eapply XInv_same; [| | |exact HX]; reflexivity).
    assert (HW1 : WI C (w <| w_next_fid ::= N.succ |>)) by (eapply WI_same; [| |exact HW]; reflexivity).
    apply XInv_on_node; try assumption.
    + intros m _. destruct (n_frozen m); [apply R_refl|apply Q_R, Q_submit].
    + intros m. destruct (n_frozen m); [apply E_refl|apply E_api_submit].
    + intros m. destruct (n_frozen m); [apply K_refl|apply K_api_submit].
    + intros m. destruct (n_frozen m); [auto|apply (sticky_api_submit C)].
  - (* LSnapshot *) apply XInv_cond_node; try assumption.
    + intros m _. apply Q_R. apply Q_trans with (lp_snapshot (m <| n_snap_every := 1 |>)); [|qtv].
      eapply Q_trans; [|apply Q_snapshot]. qtv.
    + apply E_lp_snapshot_every.
    + apply K_lp_snapshot_every.
    + apply (sticky_lp_snapshot C).
  - (* LCrash *) apply XInv_drop. unfold on_node. destruct (get_node w n) as [m|] eqn:G; [|exact HX].
    apply XInv_reset with (m := m); [exact HX|eapply get_node_id; exact G|apply S_crash|apply erf_crash|].
    rewrite role_crash. intros [H|[H|H]]; discriminate.
  - (* LRestart *) unfold on_node. destruct (get_node w n) as [m|] eqn:G; [|exact HX].
    destruct (role_eqb (n_role m) Shutdown); [|apply XInv_set_same; [exact HX|exact HW|eapply get_node_id; exact G]].
    apply XInv_reset with (m := m); [exact HX|eapply get_node_id; exact G|apply S_restart|apply erf_restart|].
    rewrite role_restart. intros [H|[H|H]]; discriminate.
  - (* LBudget *) apply XInv_on_node; try assumption.
    + intros m _. apply Q_R, Q_upd_budget.
    + intros m. apply E_of_erf. reflexivity.
    + intros m. apply K_of_rt. reflexivity.
    + intros m _ H. exact H.
  - (* LPad *) apply XInv_on_node; try assumption.
    + intros m _. apply Q_R. qtv.
    + intros m. apply E_of_erf. reflexivity.
    + intros m. apply K_of_rt. reflexivity.
    + intros m _ H. exact H.
  - (* LDefer *) unfold on_node. destruct (get_node w n) as [m|] eqn:G; [|exact HX].
    apply XInv_node_section with (m := m); try assumption.
    + eapply get_node_id; exact G.
    + intros _. apply Q_R. qtv.
    + apply BN_tasks_perm; try reflexivity. apply perm_rotate.
    + apply K_of_rt. reflexivity.
    + intros H. exact H.
  - (* LRoMissed *) apply XInv_on_node; try assumption.
    + intros m _. apply Q_R. qtv.
    + intros m. apply E_of_erf. reflexivity.
    + intros m. apply K_of_rt. reflexivity.
    + intros m _ H. exact H.
  - (* LTask *) destruct (get_node w n) as [m|] eqn:G; [|exact HX]. destruct (is_up m) eqn:Hup; [|exact HX].
    apply XInv_step_task; try assumption. eapply get_node_id; exact G.
  - (* LElectionRun *) unfold on_node. destruct (get_node w n) as [m|] eqn:G; [|exact HX].
    destruct (is_up m && cv_election (n_cv m)).
    + apply XInv_election; try assumption. eapply get_node_id; exact G.
    + apply XInv_set_same; [exact HX|exact HW|eapply get_node_id; exact G].
  - (* LCommit *) apply XInv_cond_node; try assumption.
    + intros m _. apply Q_R, Q_commit.
    + apply E_lp_commit.
    + apply K_lp_commit.
    + apply (sticky_lp_commit C).
  - (* LApply *) apply XInv_cond_node; try assumption.
    + intros m _. apply Q_R, Q_apply.
    + apply E_lp_apply.
    + apply K_lp_apply.
    + apply (sticky_lp_apply C).
  - (* LRo *) apply XInv_cond_node; try assumption.
    + intros m _. apply Q_R, Q_ro.
    + apply E_lp_ro.
    + apply K_lp_ro.
    + apply (sticky_lp_ro C).
  - (* LInstallResume *) destruct (get_node w n) as [m|] eqn:G; [|exact HX].
    destruct (Votes.get_node_in _ _ _ G) as [Hn _]. apply get_node_id in G.
    pose proof (Q_install_resume m) as HQ. pose proof (E_lp_install_resume m) as HE. pose proof (K_lp_install_resume m) as HK.
    pose proof (sticky_lp_install_resume C m (WI_node C w m HW Hn)) as HS.
    destruct (lp_install_resume m) as [m1 [q|]]; cbn [fst] in HQ, HE, HK, HS; [|exact HX].
    assert (HX1 : XInv C (set_node w m1)).
    { apply XInv_node_section with (m := m); try assumption; [intros _; apply Q_R, HQ|].
      apply BN_node_E; [apply Q_R, HQ|apply (vi_coh w (x_v C w HX) m Hn)|exact HE]. }
    match goal with |- XInv C (match ?x with _ => _ end) => destruct x as [c|] eqn:Ef end; [|exact HX1].
    apply find_some in Ef. destruct Ef as [Hin Hcond].
    apply XInv_set_state; [exact HX1|exact Hin|discriminate|left].
    apply andb_prop in Hcond. destruct Hcond as [_ Hcond]. destruct (c_state c); try discriminate.
Qed.

End Run.
