(* What one step does to the commit index and to the stream of applications of every node
   (executions without membership changes and without snapshots).
   1. the commit index of a node is left alone, or reset to 0 (crash / restart), or advanced by the
      commit loop of a leader to an entry of its own term acknowledged by a quorum, or advanced by the
      AppendEntries handler on its success path to min(leaderCommit, prev + |entries|);
   2. the applications of a node are emptied (crash / restart), or extended by the apply loop with entries
      of its own log at indices up to its commit index (log and commit index untouched by that step). *)
From RaftV Require Import Cluster.World Cluster.Statements Proofs.Frame Proofs.RVSpec Proofs.AESpec Proofs.AELog.
From RaftV Require Import Proofs.CommitSpec.
From RaftV Require Import Proofs.ConfNode Proofs.ConfStatic Proofs.ConfSticky.
From RaftV Require Import Proofs.Votes Proofs.VoteRecords Proofs.Names Proofs.ElectSpec.
From RaftV Require Import Proofs.ElectDefs Proofs.EFrame Proofs.RoleFrame Proofs.ElectBook Proofs.ElectNode Proofs.ElectSteps
                          Proofs.ElectWorld Proofs.ElectReply Proofs.ElectStep Proofs.ElectRun Proofs.ElectSafety.
From RaftV Require Import Proofs.LogDefs Proofs.LogSeg Proofs.LogUni Proofs.LogInv Proofs.LogAccept Proofs.LogSend Proofs.LogFrame
                          Proofs.NoSnap Proofs.TaePeer Proofs.LogWorld Proofs.LogRun Proofs.LogMatching.
From RaftV Require Import Proofs.AEFull.
Open Scope N_scope.

(* ================= node level: the frame ================= *)
(* F: commit index and applications untouched *)
Definition cap (n : node) := (n_commit n, n_applies n).
Definition F (m m' : node) : Prop := cap m' = cap m.
Lemma F_refl m : F m m. Proof. reflexivity. Qed.
Lemma F_trans a b c : F a b -> F b c -> F a c.
Proof. unfold F. intros H1 H2. rewrite H2. exact H1. Qed.
Lemma F_commit m m' : F m m' -> n_commit m' = n_commit m.
Proof. unfold F, cap. intros H. injection H as H _. exact H. Qed.
Lemma F_applies m m' : F m m' -> n_applies m' = n_applies m.
Proof. unfold F, cap. intros H. injection H as _ H. exact H. Qed.
Lemma F_of m m' : n_commit m' = n_commit m -> n_applies m' = n_applies m -> F m m'.
Proof. unfold F, cap. intros -> ->. reflexivity. Qed.

(* the base node is abstracted first: conversion on large node terms is slow *)
Ltac ftv :=
  unfold F;
  match goal with
  | |- cap _ = cap ?x => first [ is_var x; reflexivity
                               | let y := fresh "base" in generalize x; intro y; reflexivity
                               | reflexivity ]
  end.

Lemma F_vol a b : vol b = vol a -> F a b.
Proof. unfold vol. intros H. injection H as H1 _ _ _ _ _ H7 _ _. apply F_of; assumption. Qed.

Lemma F_same_core n n' : same_core n' n -> F n n'.
Proof. intros H. apply F_vol. exact (sc_vol _ _ H). Qed.

Lemma F_tick n : F n (snd (tick_write n)).
Proof. pose proof (tick_write_core n) as H. cbn zeta in H. apply F_vol. tauto. Qed.

Lemma F_write (f : node -> node) n :
  (forall m, cap (f m) = cap m) ->
  F n (let (ok, n1) := tick_write n in if ok then f n1 else n1).
Proof.
  intros Hf. pose proof (F_tick n) as H. destruct (tick_write n) as [ok n1]. cbn [snd] in H.
  destruct ok; [|exact H]. eapply F_trans; [exact H|]. apply Hf.
Qed.

Lemma F_persist n : F n (persist n). Proof. apply F_write. reflexivity. Qed.
Lemma F_truncate n i : F n (truncate_log n i). Proof. apply F_write. reflexivity. Qed.
Lemma F_append es : forall n, F n (append_entries n es).
Proof.
  induction es as [|e es IH]; intros n; cbn [append_entries]; [apply F_refl|].
  pose proof (F_tick n) as H. destruct (tick_write n) as [ok n1]. cbn [snd] in H.
  destruct ok; [|exact H]. eapply F_trans; [exact H|]. eapply F_trans; [|apply IH]. ftv.
Qed.

Lemma F_respond n f r : F n (respond n f r). Proof. apply F_same_core, sc_respond. Qed.
Lemma F_new_opmanager now n : F n (new_opmanager now n). Proof. ftv. Qed.
Lemma F_reset n : F n (reset_snapshot_files n). Proof. ftv. Qed.
Lemma F_notify n : F n (notify_lost_leadership n). Proof. apply F_same_core, sc_notify. Qed.
Lemma F_cancel n : F n (cancel_conf_change n). Proof. apply F_same_core, sc_cancel. Qed.
Lemma F_fail o n : F n (fail o n).
Proof. unfold fail. destruct (n_out n); [ftv|apply F_refl|apply F_refl]. Qed.
Lemma F_become_follower now n l t : F n (become_follower now n l t).
Proof. apply F_vol, vol_become_follower. Qed.

Lemma F_stepdown now n : F n (stepdown now n).
Proof.
  unfold stepdown. eapply F_trans; [|apply F_cancel]. eapply F_trans; [|apply F_new_opmanager].
  eapply F_trans; [|apply F_notify]. ftv.
Qed.

Lemma F_new_follower n id nx : F n (new_follower n id nx). Proof. unfold new_follower. ftv. Qed.
Lemma F_new_followers nx ids n : F n (fold_left (fun m id => new_follower m id nx) ids n).
Proof. unfold F. apply (proj_new_followers cap nx ids). intros m id. apply F_new_follower. Qed.

Lemma F_next_configuration now n c : F n (next_configuration now n c).
Proof.
  unfold next_configuration. destruct c as [nx|]; [|apply F_fail].
  set (n1 := if is_member nx (n_id n) then n else _).
  assert (H1 : F n n1).
  { subst n1. destruct (is_member nx (n_id n)); [apply F_refl|].
    eapply F_trans; [|apply F_reset]. destruct (role_eqb (n_role n) Leader); [apply F_stepdown|apply F_refl]. }
  clearbody n1. eapply F_trans; [exact H1|].
  match goal with |- F n1 (fold_left ?f ?l ?n2 <| n_conf := ?c |>) =>
    apply F_trans with n2; [ftv|]; apply F_trans with (fold_left f l n2); [apply F_new_followers|ftv] end.
Qed.

Lemma F_apply_configuration now n c : F n (apply_configuration now n c).
Proof.
  unfold apply_configuration. destruct (n_cconf n) as [cc|].
  - destruct (c_index c <=? c_index cc); [apply F_refl|].
    eapply F_trans; [apply F_next_configuration|]. ftv.
  - eapply F_trans; [apply F_next_configuration|]. ftv.
Qed.

Lemma F_ae_scan now es : forall n n4 l, ae_scan now n es = Some (n4, l) -> F n n4.
Proof.
  induction es as [|e es IH]; intros n n4 l H; cbn [ae_scan] in H.
  - injection H as <- _. apply F_refl.
  - destruct (last_index (n_log n) <? e_index e); [injection H as <- _; apply F_refl|].
    destruct (log_get (n_log n) (e_index e)) as [ex|]; [|discriminate].
    destruct ((e_index ex =? e_index e) && negb (e_term ex =? e_term e)).
    + injection H as <- _.
      destruct (e_index e <=? c_index (conf_of (truncate_log n (e_index e)))).
      * eapply F_trans; [apply F_truncate|apply F_next_configuration].
      * apply F_truncate.
    + eapply IH; exact H.
Qed.

Lemma F_signal_apply n : F n (signal_apply n). Proof. ftv. Qed.
Lemma F_signal_commit n : F n (signal_commit n). Proof. ftv. Qed.
Lemma F_signal_ro n : F n (signal_ro n). Proof. ftv. Qed.
Lemma F_signal_election n : F n (signal_election n). Proof. ftv. Qed.
Lemma F_signal_snapshot n : F n (signal_snapshot n). Proof. ftv. Qed.

Lemma F_upd_tasks m ts : F m (m <| n_tasks := ts |>). Proof. ftv. Qed.
Lemma F_upd_budget m k : F m (m <| n_budget := k |>). Proof. ftv. Qed.
Lemma F_upd_pad m k : F m (m <| n_pad := k |>). Proof. ftv. Qed.
Lemma F_upd_cv m f : F m (m <| n_cv ::= f |>). Proof. ftv. Qed.
Lemma F_upd_cfg m v : F m (m <| n_cfg_fid := v |>). Proof. ftv. Qed.
Lemma F_upd_pending m f : F m (m <| n_pending ::= f |>). Proof. ftv. Qed.
Lemma F_upd_sv m v : F m (m <| n_should_verify := v |>). Proof. ftv. Qed.
Lemma F_upd_ro m f : F m (m <| n_ro ::= f |>). Proof. ftv. Qed.

Lemma F_set_follower n id f : F n (set_follower n id f). Proof. unfold set_follower. ftv. Qed.
Lemma F_set_fobj n id g f : F n (set_fobj n id g f).
Proof. unfold set_fobj. destruct (_ =? g); [apply F_set_follower|ftv]. Qed.
Lemma F_bump_round n r : F n (bump_round n r). Proof. unfold bump_round. ftv. Qed.
Lemma F_try_apply_ro now n s : F n (try_apply_ro now n s). Proof. unfold try_apply_ro, signal_ro. ftv. Qed.

Lemma F_send_ae_to_peers now n : F n (send_ae_to_peers now n).
Proof.
  unfold send_ae_to_peers.
  set (n0 := n <| n_hb_rounds ::= N.succ |>).
  assert (H0 : F n n0) by ftv.
  set (n1 := if is_single (conf_of n) (n_id n) then _ else n0).
  assert (H1 : F n0 n1).
  { subst n1. destruct (is_single (conf_of n) (n_id n)); [|apply F_refl].
    eapply F_trans; [|apply F_try_apply_ro].
    destruct (n_commit n0 <? last_index (n_log n0)); [apply F_signal_commit|apply F_refl]. }
  clearbody n1. clearbody n0.
  unfold new_round. cbn [fst snd].
  eapply F_trans; [exact H0|]. eapply F_trans; [exact H1|]. ftv.
Qed.

Lemma F_upd_followers m f : F m (m <| n_followers ::= f |>). Proof. ftv. Qed.
Lemma F_upd_role m r : F m (m <| n_role := r |>). Proof. ftv. Qed.

Lemma F_become_leader now n : F n (become_leader now n).
Proof.
  unfold become_leader.
  eapply F_trans; [|apply F_send_ae_to_peers]. eapply F_trans; [|apply F_append].
  eapply F_trans; [|apply F_reset].
  eapply F_trans; [|apply F_upd_followers].
  eapply F_trans; [|apply F_new_opmanager]. apply F_upd_role.
Qed.

Lemma F_send_rv_to_peers now n : F n (send_rv_to_peers now n).
Proof.
  unfold send_rv_to_peers. destruct (is_single (conf_of n) (n_id n)).
  - eapply F_trans; [|apply F_become_leader].
    destruct (role_eqb (n_role n) PreCandidate); [|apply F_refl].
    eapply F_trans; [|apply F_persist]. ftv.
  - unfold new_round. ftv.
Qed.

Lemma F_l_election now m : F m (l_election now m).
Proof.
  unfold l_election.
  set (n0 := m <| n_cv ::= _ |>).
  assert (H0 : F m n0) by ftv.
  match goal with |- F m (if ?c then _ else _) => destruct c end; [exact H0|].
  set (n1 := if role_eqb (n_role n0) Follower then n0 <| n_role := PreCandidate |> else n0).
  assert (H1 : F n0 n1) by (subst n1; destruct (role_eqb (n_role n0) Follower); [ftv|apply F_refl]).
  set (n2 := if role_eqb (n_role n1) Candidate then _ else n1).
  assert (H2 : F n1 n2).
  { subst n2. destruct (role_eqb (n_role n1) Candidate); [|apply F_refl].
    eapply F_trans; [|apply F_persist]. ftv. }
  eapply F_trans; [eapply F_trans; [exact H0|eapply F_trans; [exact H1|exact H2]]|].
  apply F_send_rv_to_peers.
Qed.

Lemma F_l_heartbeat now m : F m (l_heartbeat now m).
Proof. unfold l_heartbeat. destruct (_ || _); [apply F_refl|apply F_send_ae_to_peers]. Qed.

Lemma F_l_is_send n peer : F n (fst (l_is_send n peer)).
Proof.
  unfold l_is_send. destruct (negb (role_eqb (n_role n) Leader)); [apply F_refl|].
  destruct (n_lii n =? 0); [apply F_refl|].
  match goal with |- F n (fst (match ?c with _ => _ end)) => destruct c as [[s o]|] end; cbn [fst];
    [apply F_set_follower|apply F_fail].
Qed.

Lemma F_l_ae_send n peer : F n (fst (l_ae_send n peer)).
Proof.
  unfold l_ae_send. destruct (_ || _); [apply F_refl|].
  destruct (f_next (get_follower n peer) <=? n_lii n).
  - pose proof (F_l_is_send n peer) as H. destruct (l_is_send n peer) as [n1 [q|]]; exact H.
  - destruct (next_index (n_log n) <? f_next (get_follower n peer)); cbn [fst]; [apply F_fail|apply F_refl].
Qed.

Lemma F_h_request_vote now n q : F n (fst (h_request_vote now n q)).
Proof.
  unfold h_request_vote.
  destruct (role_eqb (n_role n) Shutdown); [apply F_refl|].
  destruct (lease_valid now n || recent_contact now n); [apply F_refl|].
  destruct (rv_term q <? n_term n); [apply F_refl|].
  set (n1 := if negb (rv_prevote q) && (n_term n <? rv_term q) then become_follower now n (rv_cand q) (rv_term q) else n).
  assert (H1 : F n n1).
  { subst n1. destruct (negb (rv_prevote q) && (n_term n <? rv_term q)); [apply F_become_follower|apply F_refl]. }
  destruct (negb (rv_prevote q) && match n_vote n1 with Some v => negb (v =? rv_cand q) | None => false end);
    [exact H1|].
  destruct ((rv_last_term q <? last_term (n_log n1)) || _); [exact H1|].
  cbn [fst]. destruct (rv_prevote q); [exact H1|].
  eapply F_trans; [exact H1|]. eapply F_trans; [|apply F_persist]. ftv.
Qed.

Lemma F_l_rv_reply now m rid peer pv q p : F m (l_rv_reply now m rid peer pv q p).
Proof.
  unfold l_rv_reply.
  destruct (role_eqb (n_role m) Shutdown); [apply F_refl|].
  destruct (rv_term q <? n_term m); [apply F_refl|].
  set (n1 := if rvr_granted p then bump_round m rid else m).
  assert (H1 : F m n1) by (subst n1; destruct (rvr_granted p); [apply F_bump_round|apply F_refl]).
  destruct (rv_term q <? rvr_term p).
  - eapply F_trans; [exact H1|apply F_become_follower].
  - set (n2 := if _ && role_eqb (n_role n1) PreCandidate then _ else n1).
    assert (H2 : F n1 n2).
    { subst n2. match goal with |- F _ (if ?c then _ else _) => destruct c end;
        [unfold signal_election; ftv|apply F_refl]. }
    eapply F_trans; [eapply F_trans; [exact H1|exact H2]|].
    match goal with |- F _ (if ?c then _ else _) => destruct c end; [apply F_become_leader|apply F_refl].
Qed.

Lemma F_l_ae_reply now n rid peer g q p : F n (fst (l_ae_reply now n rid peer g q p)).
Proof.
  unfold l_ae_reply.
  destruct (_ || _); [apply F_refl|].
  destruct (n_term n <? aer_term p); [cbn [fst]; apply F_become_follower|].
  destruct (negb (ae_term q =? n_term n)); [apply F_refl|].
  set (n1 := if is_voter (conf_of n) peer then bump_round n rid else n).
  set (n2 := if is_voter (conf_of n) peer && has_quorum (conf_of n1) (round_count n1 rid)
             then try_apply_ro now n1 (round_stamp n1 rid) else n1).
  assert (H1 : F n n1) by (subst n1; destruct (is_voter (conf_of n) peer); [apply F_bump_round|apply F_refl]).
  assert (H2 : F n n2).
  { eapply F_trans; [exact H1|]. subst n2.
    destruct (is_voter (conf_of n) peer && has_quorum (conf_of n1) (round_count n1 rid));
      [apply F_try_apply_ro|apply F_refl]. }
  destruct (negb (aer_success p)).
  - destruct (aer_index p <=? n_lii _).
    + eapply F_trans; [exact H2|]. eapply F_trans; [apply F_set_fobj|]. apply F_l_is_send.
    + cbn [fst]. eapply F_trans; [exact H2|apply F_set_fobj].
  - match goal with |- F n (fst (if ?c then _ else _)) => destruct c end; cbn [fst]; [|exact H2].
    eapply F_trans; [exact H2|]. eapply F_trans; [apply F_set_fobj|].
    match goal with |- F _ (if ?c then _ else _) => destruct c end; [apply F_signal_commit|apply F_refl].
Qed.

Lemma F_fold_respond (f : node -> rop -> node) ops : (forall m o, F m (f m o)) -> forall n, F n (fold_left f ops n).
Proof.
  intros Hf. induction ops as [|o ops IH]; intros n; cbn [fold_left]; [apply F_refl|].
  eapply F_trans; [apply Hf|apply IH].
Qed.

Lemma F_lp_ro now n : F n (lp_ro now n).
Proof.
  unfold lp_ro. set (n0 := n <| n_cv ::= _ |>). assert (H0 : F n n0) by ftv.
  destruct (_ || _); [exact H0|].
  eapply F_trans; [exact H0|]. eapply F_trans; [|apply F_fold_respond].
  - apply F_upd_ro.
  - intros m o. destruct (ro_type o); [apply F_respond|apply F_respond|].
    destruct (lease_valid now m); apply F_respond.
Qed.

Lemma F_api_submit now m fid ty p : F m (api_submit now m fid ty p).
Proof.
  unfold api_submit. destruct (negb (role_eqb (n_role m) Leader)); [apply F_respond|].
  destruct ty.
  - eapply F_trans; [|apply F_send_ae_to_peers]. eapply F_trans; [|apply F_upd_pending]. apply F_append.
  - match goal with |- F m (if ?c then _ else _) => destruct c end; [|apply F_upd_ro].
    eapply F_trans; [|apply F_upd_sv]. eapply F_trans; [|apply F_send_ae_to_peers]. apply F_upd_ro.
  - match goal with |- F m (if ?c then _ else _) => destruct c end; [|apply F_upd_ro].
    eapply F_trans; [|apply F_signal_ro]. apply F_upd_ro.
Qed.

Lemma F_api_start now n : F n (api_start now n).
Proof.
  unfold api_start. destruct (negb _); [apply F_refl|].
  match goal with |- F n (fold_left ?f ?l ?n2 <| n_contact := _ |> <| n_role := _ |>) =>
    apply F_trans with n2; [ftv|]; apply F_trans with (fold_left f l n2); [apply F_new_followers|ftv] end.
Qed.

(* restore() without a snapshot on disk *)
Lemma F_restore x : n_snaps x = [] -> F x (restore x).
Proof.
  intros Hs. unfold F, restore.
  set (n1 := x <| n_open := true |> <| n_term := n_pterm x |> <| n_vote := n_pvote x |>).
  assert (S1 : n_snaps n1 = []) by exact Hs.
  assert (L1 : cap n1 = cap x) by reflexivity.
  clearbody n1. rewrite S1. cbn [map last].
  destruct (conf_scan _ _ _) as [c cc].
  exact L1.
Qed.

Lemma cap_crash m : cap (crash m) = (0, []).
Proof. reflexivity. Qed.
Lemma snaps_crash m : n_snaps (crash m) = n_snaps m.
Proof. reflexivity. Qed.

Lemma cap_restart now m : n_snaps m = [] -> cap (restart_after_crash now m) = (0, []).
Proof.
  intros Hs. unfold restart_after_crash.
  pose proof (cap_crash m) as HC. pose proof (snaps_crash m) as HS. rewrite Hs in HS.
  set (x := crash m) in *. clearbody x.
  pose proof (F_restore x HS) as H1. set (y := restore x) in *. clearbody y.
  pose proof (F_new_opmanager now y) as H2. pose proof (F_api_start now (new_opmanager now y)) as H3.
  unfold F in *. rewrite H3, H2, H1. exact HC.
Qed.

(* ================= node level: the in-memory term never decreases (outside crash) ================= *)
Definition TL (m m' : node) : Prop := n_term m <= n_term m'.
Lemma TL_refl n : TL n n. Proof. unfold TL. lia. Qed.
Lemma TL_trans a b c : TL a b -> TL b c -> TL a c. Proof. unfold TL. lia. Qed.
Lemma Q_TL n n' : Q n n' -> TL n n'.
Proof. intros H. unfold TL. rewrite (q_term _ _ H). lia. Qed.

Lemma term_persist m : n_term (persist m) = n_term m.
Proof. pose proof (persist_core m) as HP. cbn zeta in HP. tauto. Qed.

Lemma TL_become_follower now n l t : n_term n <= t -> TL n (become_follower now n l t).
Proof.
  intros Ht. pose proof (become_follower_fields now n l t) as H. cbn zeta in H. destruct H as (T & _).
  unfold TL. rewrite T. exact Ht.
Qed.

Lemma TL_request_vote now n q : TL n (fst (h_request_vote now n q)).
Proof. pose proof (rv_term_monotone now n q) as H. cbn zeta in H. apply H. Qed.

Lemma TL_send_rv_to_peers now n : TL n (send_rv_to_peers now n).
Proof.
  unfold send_rv_to_peers. destruct (is_single (conf_of n) (n_id n)).
  - eapply TL_trans; [|apply Q_TL, Q_become_leader].
    destruct (role_eqb (n_role n) PreCandidate); [|apply TL_refl].
    set (n0 := n <| n_role := Candidate |>).
    assert (H0 : n_term n0 = n_term n) by reflexivity. clearbody n0.
    unfold TL. rewrite term_persist. cbn [n_term set]. lia.
  - apply Q_TL. unfold new_round. qtv.
Qed.

Lemma TL_election now n : TL n (l_election now n).
Proof.
  unfold l_election.
  set (n0 := n <| n_cv ::= _ |>).
  assert (H0 : Q n n0) by qtv.
  match goal with |- TL n (if ?c then _ else _) => destruct c end; [apply Q_TL; exact H0|].
  set (n1 := if role_eqb (n_role n0) Follower then n0 <| n_role := PreCandidate |> else n0).
  assert (H1 : Q n0 n1) by (subst n1; destruct (role_eqb (n_role n0) Follower); [qtv|apply Q_refl]).
  eapply TL_trans; [apply Q_TL; eapply Q_trans; [exact H0|exact H1]|]. clearbody n1.
  set (n2 := if role_eqb (n_role n1) Candidate then _ else n1).
  assert (H2 : TL n1 n2).
  { subst n2. destruct (role_eqb (n_role n1) Candidate); [|apply TL_refl].
    unfold TL. rewrite term_persist. cbn [n_term set]. lia. }
  eapply TL_trans; [exact H2|]. apply TL_send_rv_to_peers.
Qed.

Lemma TL_rv_reply now n rid peer pv q p : TL n (l_rv_reply now n rid peer pv q p).
Proof.
  unfold l_rv_reply.
  destruct (role_eqb (n_role n) Shutdown); [apply TL_refl|].
  destruct (N.ltb_spec (rv_term q) (n_term n)) as [Hlt|Hge]; [apply TL_refl|].
  set (n1 := if rvr_granted p then bump_round n rid else n).
  assert (H1 : Q n n1) by (subst n1; destruct (rvr_granted p); [apply Q_bump|apply Q_refl]).
  assert (T1 : n_term n1 = n_term n) by (destruct H1; assumption).
  destruct (N.ltb_spec (rv_term q) (rvr_term p)).
  - eapply TL_trans; [apply Q_TL; exact H1|]. apply TL_become_follower. lia.
  - eapply TL_trans; [apply Q_TL; exact H1|]. apply Q_TL.
    set (n2 := if _ && role_eqb (n_role n1) PreCandidate then _ else n1).
    assert (H2 : Q n1 n2).
    { subst n2. match goal with |- Q _ (if ?c then _ else _) => destruct c end; [unfold signal_election; qtv|apply Q_refl]. }
    match goal with |- Q _ (if ?c then _ else _) => destruct c end; [|exact H2].
    eapply Q_trans; [exact H2|apply Q_become_leader].
Qed.

Lemma TL_ae_reply now n rid peer g q p : TL n (fst (l_ae_reply now n rid peer g q p)).
Proof.
  unfold l_ae_reply.
  destruct (_ || _); [apply TL_refl|].
  destruct (N.ltb_spec (n_term n) (aer_term p)); [cbn [fst]; apply TL_become_follower; lia|].
  destruct (negb (ae_term q =? n_term n)); [apply TL_refl|].
  apply Q_TL.
  set (n1 := if is_voter (conf_of n) peer then bump_round n rid else n).
  set (n2 := if is_voter (conf_of n) peer && has_quorum (conf_of n1) (round_count n1 rid)
             then try_apply_ro now n1 (round_stamp n1 rid) else n1).
  assert (H1 : Q n n1) by (subst n1; destruct (is_voter (conf_of n) peer); [apply Q_bump|apply Q_refl]).
  assert (H2 : Q n n2).
  { eapply Q_trans; [exact H1|]. subst n2.
    destruct (is_voter (conf_of n) peer && has_quorum (conf_of n1) (round_count n1 rid)); [apply Q_try_apply_ro|apply Q_refl]. }
  destruct (negb (aer_success p)).
  - destruct (aer_index p <=? n_lii _).
    + eapply Q_trans; [exact H2|]. eapply Q_trans; [apply Q_set_fobj|]. apply Q_is_send.
    + cbn [fst]. eapply Q_trans; [exact H2|apply Q_set_fobj].
  - match goal with |- Q n (fst (if ?c then _ else _)) => destruct c end; cbn [fst]; [|exact H2].
    eapply Q_trans; [exact H2|]. eapply Q_trans; [apply Q_set_fobj|].
    match goal with |- Q _ (if ?c then _ else _) => destruct c end; [unfold signal_commit; qtv|apply Q_refl].
Qed.

(* ================= node level: the three functions that write the two fields ================= *)
(* ---- commitLoop ---- *)
Lemma applies_lp_commit now n : n_applies (lp_commit now n) = n_applies n.
Proof.
  unfold lp_commit. set (n0 := n <| n_cv ::= _ |>). assert (H0 : n_applies n0 = n_applies n) by reflexivity.
  clearbody n0. destruct (negb (role_eqb (n_role n0) Leader)); [exact H0|].
  match goal with |- n_applies (if ?c then _ else _) = _ => destruct c end; [|exact H0].
  rewrite (F_applies _ _ (F_send_ae_to_peers now _)). exact H0.
Qed.

(* the commit loop: nothing, or the advance of a leader *)
Lemma lp_commit_cases now n :
  let n' := lp_commit now n in
  n_log n' = n_log n /\ n_term n' = n_term n /\ n_applies n' = n_applies n /\
  (n_commit n' = n_commit n \/
   n_role n = Leader /\ n_commit n < n_commit n' /\
   exists e, In e (n_log n) /\ e_index e = n_commit n' /\ e_term e = n_term n /\
             has_quorum (conf_of n) (count_matches n (e_index e)) = true).
Proof.
  cbn zeta. split; [apply SL_lp_commit|]. split; [apply (q_term _ _ (Q_commit now n))|]. split; [apply applies_lp_commit|].
  pose proof (lp_commit_spec now n) as H. cbn zeta in H. destruct H as [Hle Hadv].
  destruct (N.eq_dec (n_commit (lp_commit now n)) (n_commit n)) as [E|E]; [left; exact E|right].
  assert (Hlt : n_commit n < n_commit (lp_commit now n)) by lia.
  destruct (Hadv Hlt) as (Hr & e & He). split; [exact Hr|]. split; [exact Hlt|]. exists e. exact He.
Qed.

(* ---- applyLoop ---- *)
Lemma commit_lp_apply_one now n : n_commit (lp_apply_one now n) = n_commit n.
Proof.
  unfold lp_apply_one. destruct (log_get (n_log n) (n_applied n + 1)) as [e|]; [|apply F_commit, F_fail].
  set (n1 := match e_kind e with KNoop => n | _ => _ end).
  assert (H1 : n_commit n1 = n_commit n).
  { subst n1. destruct (e_kind e) as [|p|c].
    - reflexivity.
    - match goal with |- n_commit (match ?x with _ => _ end) = _ => destruct x end.
      + rewrite (F_commit _ _ (F_respond _ _ _)). reflexivity.
      + reflexivity.
    - match goal with |- n_commit (match ?x with _ => _ end) = _ => destruct x eqn:E end.
      + match goal with |- n_commit (?y <| n_cfg_fid := None |>) = _ => change (n_commit y = n_commit n) end.
        rewrite (F_commit _ _ (F_respond _ _ _)). apply F_commit, F_apply_configuration.
      + apply F_commit, F_apply_configuration. }
  clearbody n1.
  set (n2 := n1 <| n_applied ::= N.succ |>). assert (H2 : n_commit n2 = n_commit n1) by reflexivity. clearbody n2.
  destruct (need_snapshot n2); [change (n_commit n2 = n_commit n)|]; congruence.
Qed.

Definition afl (n : node) := (n_applies n, n_applied n, n_log n, n_commit n).
Lemma afl_fail o n : afl (fail o n) = afl n.
Proof. unfold fail. destruct (n_out n); reflexivity. Qed.

(* the inner loop: entries of the node's log at the indices lastApplied+1 .. commitIndex, in the recorded form *)
Lemma lp_apply_run_spec now fuel : forall n,
  (forall i e, log_get (n_log n) i = Some e -> e_index e = i) ->
  let n' := lp_apply_run fuel now n in
  n_log n' = n_log n /\ n_commit n' = n_commit n /\
  exists news, n_applies n' = n_applies n ++ news /\
    forall i t p, In (i, t, p) news ->
      n_applied n < i /\ i <= n_commit n /\
      exists e, log_get (n_log n) i = Some e /\ e_term e = t /\ e_kind e = KOp p.
Proof.
  induction fuel as [|f IH]; intros n Hwf; cbn zeta; cbn [lp_apply_run].
  - split; [reflexivity|]. split; [reflexivity|]. exists []. split; [rewrite app_nil_r; reflexivity|intros i t p []].
  - destruct (N.ltb_spec (n_applied n) (n_commit n)) as [Hlt|Hge]; cbn [andb].
    2:{ split; [reflexivity|]. split; [reflexivity|]. exists []. split; [rewrite app_nil_r; reflexivity|intros i t p []]. }
    match goal with |- context [if ?c then _ else _] => destruct c end.
    2:{ split; [reflexivity|]. split; [reflexivity|]. exists []. split; [rewrite app_nil_r; reflexivity|intros i t p []]. }
    pose proof (SL_lp_apply_one now n) as HL1. unfold SL in HL1.
    pose proof (commit_lp_apply_one now n) as HC1.
    assert (Hwf1 : forall i e, log_get (n_log (lp_apply_one now n)) i = Some e -> e_index e = i)
      by (rewrite HL1; exact Hwf).
    assert (H1 : exists news1, n_applies (lp_apply_one now n) = n_applies n ++ news1 /\
                   n_applied n <= n_applied (lp_apply_one now n) /\
                   forall i t p, In (i, t, p) news1 ->
                     n_applied n < i /\ i <= n_commit n /\
                     exists e, log_get (n_log n) i = Some e /\ e_term e = t /\ e_kind e = KOp p).
    { destruct (log_get (n_log n) (n_applied n + 1)) as [e|] eqn:Eg.
      - pose proof (lp_apply_one_spec now n e Eg) as HS. cbn zeta in HS. destruct HS as [HA HK].
        pose proof (Hwf _ _ Eg) as Hi.
        destruct (e_kind e) as [|p|c] eqn:Ek.
        + exists []. destruct HK as [_ HK]. rewrite HK, app_nil_r. split; [reflexivity|]. split; [lia|intros i t p []].
        + exists [(e_index e, e_term e, p)]. destruct HK as [_ HK]. split; [exact HK|]. split; [lia|].
          intros i t p0 [E|[]]. injection E as <- <- <-. rewrite Hi. split; [lia|]. split; [lia|].
          exists e. auto.
        + exists []. destruct HK as [_ HK]. rewrite HK, app_nil_r. split; [reflexivity|]. split; [lia|intros i t p []].
      - exists []. unfold lp_apply_one. rewrite Eg. pose proof (afl_fail Fatal n) as HF. unfold afl in HF.
        injection HF as A1 A2 _ _. rewrite A1, A2, app_nil_r. split; [reflexivity|]. split; [lia|intros i t p []]. }
    destruct H1 as (news1 & EA1 & Hmono & HP1).
    specialize (IH (lp_apply_one now n) Hwf1). cbn zeta in IH.
    set (n1 := lp_apply_one now n) in *. clearbody n1.
    destruct IH as (IL & IC & news2 & EA2 & HP2).
    split; [congruence|]. split; [congruence|].
    exists (news1 ++ news2). split; [rewrite EA2, EA1, app_assoc; reflexivity|].
    intros i t p Hin. apply in_app_or in Hin. destruct Hin as [Hin|Hin]; [apply HP1, Hin|].
    destruct (HP2 i t p Hin) as (B1 & B2 & e & B3 & B4). rewrite HL1 in B3. rewrite HC1 in B2.
    split; [lia|]. split; [exact B2|]. exists e. split; [exact B3|exact B4].
Qed.

Lemma lp_apply_spec now n :
  (forall i e, log_get (n_log n) i = Some e -> e_index e = i) ->
  let n' := lp_apply now n in
  n_log n' = n_log n /\ n_commit n' = n_commit n /\ n_term n' = n_term n /\
  exists news, n_applies n' = n_applies n ++ news /\
    forall i t p, In (i, t, p) news ->
      n_applied n < i /\ i <= n_commit n /\
      exists e, log_get (n_log n) i = Some e /\ e_term e = t /\ e_kind e = KOp p.
Proof.
  intros Hwf. cbn zeta.
  split; [apply SL_lp_apply|]. split; [|split; [apply (q_term _ _ (Q_apply now n))|]].
  - unfold lp_apply. set (n0 := n <| n_cv ::= _ |>).
    assert (H0 : n_commit n0 = n_commit n) by reflexivity.
    assert (W0 : forall i e, log_get (n_log n0) i = Some e -> e_index e = i) by exact Hwf.
    clearbody n0. pose proof (lp_apply_run_spec now (N.to_nat (n_commit n0 - n_applied n0)) n0 W0) as H. cbn zeta in H.
    destruct H as (_ & HC & _).
    match goal with |- n_commit (if ?c then signal_ro ?x else _) = _ => destruct c; [change (n_commit x = n_commit n)|] end; congruence.
  - unfold lp_apply. set (n0 := n <| n_cv ::= _ |>).
    assert (H0 : afl n0 = afl n) by reflexivity.
    clearbody n0. unfold afl in H0. injection H0 as A1 A2 A3 A4.
    assert (W0 : forall i e, log_get (n_log n0) i = Some e -> e_index e = i) by (rewrite A3; exact Hwf).
    pose proof (lp_apply_run_spec now (N.to_nat (n_commit n0 - n_applied n0)) n0 W0) as H. cbn zeta in H.
    destruct H as (_ & _ & news & EA & HP). rewrite A1, A2, A3, A4 in *.
    exists news. split; [|exact HP].
    match goal with |- n_applies (if ?c then signal_ro ?x else _) = _ => destruct c; [change (n_applies x = n_applies n ++ news)|] end; exact EA.
Qed.

(* ---- AppendEntries handler ---- *)
Lemma F_ae_pre now n q : F n (ae_pre now n q).
Proof.
  unfold ae_pre.
  set (n1 := n <| n_contact := now |> <| n_leader := Some (ae_leader q) |>).
  assert (H1 : F n n1) by ftv.
  set (n2 := if n_term n1 <? ae_term q then _ else n1).
  assert (H2 : F n1 n2) by (subst n2; destruct (n_term n1 <? ae_term q); [apply F_become_follower|apply F_refl]).
  eapply F_trans; [exact H1|]. eapply F_trans; [exact H2|].
  destruct (_ && _); [apply F_become_follower|apply F_refl].
Qed.

(* The handler leaves the applications alone.  Commit index: left alone (the term not decreasing), or advanced, on the
   success path, to min(leaderCommit, prev + |entries|), the node ending in the request's term. *)
Lemma ae_cases now n q :
  let n' := fst (h_append_entries now n q) in
  n_applies n' = n_applies n /\
  ((n_commit n' = n_commit n /\ n_term n <= n_term n') \/
   (n_commit n < n_commit n' /\
    n_commit n' = N.min (ae_commit q) (ae_prev_index q + N.of_nat (length (ae_entries q))) /\
    n_term n <= ae_term q /\ n_term n' = ae_term q /\
    ae_success (snd (h_append_entries now n q)) = true)).
Proof.
  cbn zeta.
  destruct (role_eqb (n_role n) Shutdown) eqn:E1; [unfold h_append_entries; rewrite E1; cbn [fst]; split; [reflexivity|left; split; [reflexivity|lia]]|].
  destruct (ae_term q <? n_term n) eqn:E2; [unfold h_append_entries; rewrite E1, E2; cbn [fst]; split; [reflexivity|left; split; [reflexivity|lia]]|].
  pose proof (ae_pre_term now n q E2) as HT3. apply N.ltb_ge in E2.
  rewrite (ae_unfold now n q E1) by (apply N.ltb_ge; exact E2). cbn zeta.
  pose proof (F_ae_pre now n q) as HF3. set (n3 := ae_pre now n q) in *. clearbody n3.
  pose proof (F_commit _ _ HF3) as HC3. pose proof (F_applies _ _ HF3) as HA3.
  assert (Hrej : n_applies n3 = n_applies n /\ (n_commit n3 = n_commit n /\ n_term n <= n_term n3 \/
            (n_commit n < n_commit n3 /\
             n_commit n3 = N.min (ae_commit q) (ae_prev_index q + N.of_nat (length (ae_entries q))) /\
             n_term n <= ae_term q /\ n_term n3 = ae_term q /\ false = true)))
    by (split; [exact HA3|left; split; [exact HC3|lia]]).
  assert (Hfail : n_applies (fail Fatal n3) = n_applies n /\ (n_commit (fail Fatal n3) = n_commit n /\ n_term n <= n_term (fail Fatal n3) \/
            (n_commit n < n_commit (fail Fatal n3) /\
             n_commit (fail Fatal n3) = N.min (ae_commit q) (ae_prev_index q + N.of_nat (length (ae_entries q))) /\
             n_term n <= ae_term q /\ n_term (fail Fatal n3) = ae_term q /\ false = true))).
  { rewrite (F_applies _ _ (F_fail Fatal n3)), (F_commit _ _ (F_fail Fatal n3)), (q_term _ _ (Q_fail Fatal n3)).
    split; [exact HA3|left; split; [exact HC3|lia]]. }
  destruct (ae_prev_index q <? n_lii n3); [exact Hrej|].
  destruct (next_index (n_log n3) <=? ae_prev_index q); [exact Hrej|].
  destruct ((n_lii n3 =? ae_prev_index q) && negb (n_lit n3 =? ae_prev_term q)); [exact Hrej|].
  match goal with |- context [fst (match ?c with _ => _ end)] => destruct c as [[idx|]|] end.
  - exact Hrej.
  - exact Hfail.
  - destruct (ae_scan now n3 (ae_entries q)) as [[n4 ta]|] eqn:Es; [|exact Hfail].
    cbn [fst snd ae_success aer_success].
    pose proof (F_ae_scan _ _ _ _ _ Es) as HF4. pose proof (Q_ae_scan _ _ _ _ _ Es) as HQ4.
    pose proof (F_append ta n4) as HF5. pose proof (Q_append ta n4) as HQ5.
    set (n5 := append_entries n4 ta) in *. clearbody n5.
    assert (HA5 : n_applies n5 = n_applies n) by (rewrite (F_applies _ _ HF5), (F_applies _ _ HF4); exact HA3).
    assert (HC5 : n_commit n5 = n_commit n) by (rewrite (F_commit _ _ HF5), (F_commit _ _ HF4); exact HC3).
    assert (HT5 : n_term n5 = ae_term q) by (rewrite (q_term _ _ HQ5), (q_term _ _ HQ4); exact HT3).
    set (c := N.min (ae_commit q) (ae_prev_index q + N.of_nat (length (ae_entries q)))) in *.
    destruct (N.ltb_spec (n_commit n5) c) as [Hlt|Hge].
    + change (n_applies (signal_apply (n5 <| n_commit := c |>))) with (n_applies n5).
      change (n_commit (signal_apply (n5 <| n_commit := c |>))) with c.
      change (n_term (signal_apply (n5 <| n_commit := c |>))) with (n_term n5).
      split; [exact HA5|right]. split; [lia|]. split; [reflexivity|]. split; [exact E2|]. split; [exact HT5|reflexivity].
    + split; [exact HA5|left]. split; [exact HC5|lia].
Qed.

(* ================= world level: which function ran on the node ================= *)
Inductive ST (w : world) (n n' : node) : Prop :=
| st_frame : F n n' -> TL n n' -> (n_frozen n' = false -> n_frozen n = false) -> ST w n n'
| st_zero : cap n' = (0, []) -> ST w n n'
| st_commit : n_frozen n = false -> n' = lp_commit (w_now w) n -> ST w n n'
| st_apply : n_frozen n = false -> n' = lp_apply (w_now w) n -> ST w n n'
| st_ae k q : In k (w_calls w) -> c_req k = ReqAE q -> c_dst k = n_id n -> n_frozen n = false ->
              n' = fst (h_append_entries (w_now w) n q) -> ST w n n'.

Definition NS (w : world) (ns' : list node) : Prop :=
  forall n', In n' ns' -> exists n, In n (w_nodes w) /\ n_id n' = n_id n /\ ST w n n'.

Lemma ST_refl w n : ST w n n.
Proof. apply st_frame; [apply F_refl|apply TL_refl|auto]. Qed.

Lemma NS_same w : NS w (w_nodes w).
Proof. intros n' Hn'. exists n'. split; [exact Hn'|]. split; [reflexivity|apply ST_refl]. Qed.

Lemma NS_set_node w w1 m m' : w_nodes w1 = w_nodes w -> In m (w_nodes w) -> n_id m' = n_id m -> ST w m m' ->
  NS w (w_nodes (set_node w1 m')).
Proof.
  intros E Hm Eid HT n' Hn'. destruct (in_set_node _ _ _ Hn') as [->|[H _]]; [exists m; auto|].
  rewrite E in H. exists n'. split; [exact H|]. split; [reflexivity|apply ST_refl].
Qed.

Lemma NS_on_node w w1 id f : w_nodes w1 = w_nodes w ->
  (forall m, In m (w_nodes w) -> n_id (f m) = n_id m /\ ST w m (f m)) -> NS w (w_nodes (on_node w1 id f)).
Proof.
  intros E Hf. unfold on_node. destruct (get_node w1 id) as [m|] eqn:G; [|rewrite E; apply NS_same].
  destruct (Votes.get_node_in _ _ _ G) as [Hm _]. rewrite E in Hm. destruct (Hf m Hm) as [Eid HT].
  apply NS_set_node with (m := m); assumption.
Qed.

(* a section that keeps term and vote (Q) and the two fields (F) *)
Lemma fq w m m' : Q m m' -> F m m' -> n_id m' = n_id m /\ ST w m m'.
Proof. intros HQ HF. split; [apply (q_id _ _ HQ)|apply st_frame; [exact HF|apply Q_TL, HQ|apply (q_frozen _ _ HQ)]]. Qed.

Lemma fq_cond w (b : bool) m m' : Q m m' -> F m m' -> n_id (if b then m' else m) = n_id m /\ ST w m (if b then m' else m).
Proof. intros HQ HF. destruct b; [apply fq; assumption|split; [reflexivity|apply ST_refl]]. Qed.

Lemma is_up_unfrozen m : is_up m = true -> n_frozen m = false.
Proof. unfold is_up. intros H. apply andb_prop in H. destruct H as [_ H]. destruct (n_frozen m); [discriminate|reflexivity]. Qed.

Ltac nsame := match goal with |- NS ?w _ => exact (NS_same w) end.

Section Steps.
Variable C : config.

Lemma NS_step_deliver w c dup : VInv w -> NSW w -> In c (w_calls w) -> NS w (w_nodes (step_deliver w c dup)).
Proof.
  intros HV HNS Hc. unfold step_deliver. destruct (get_node w (c_dst c)) as [n|] eqn:G.
  2:{ destruct dup; nsame. }
  destruct (Votes.get_node_in _ _ _ G) as [Hn Eid]. pose proof (vi_coh w HV n Hn) as Hcoh.
  destruct (n_frozen n) eqn:Fz; [destruct dup; nsame|].
  assert (H1 : NS w (w_nodes (set_node w (fst (fst (run_handler (w_now w) n (c_req c))))))).
  { pose proof (ns_calls w HNS c Hc) as Hq. unfold ns_call in Hq.
    destruct (c_req c) as [q|q|q] eqn:Eq; [| |contradiction].
    - unfold run_handler. destruct (h_append_entries (w_now w) n q) as [n1 p] eqn:EH. cbn [fst].
      replace n1 with (fst (h_append_entries (w_now w) n q)) by (rewrite EH; reflexivity).
      apply NS_set_node with (m := n); [reflexivity|exact Hn|apply (Votes.r_id _ _ (R_append_entries (w_now w) n q Hcoh))|].
      apply st_ae with (k := c) (q := q); auto.
    - unfold run_handler. destruct (h_request_vote (w_now w) n q) as [n1 p] eqn:EH. cbn [fst].
      replace n1 with (fst (h_request_vote (w_now w) n q)) by (rewrite EH; reflexivity).
      apply NS_set_node with (m := n); [reflexivity|exact Hn|apply (Votes.r_id _ _ (R_request_vote (w_now w) n q Hcoh))|].
      apply st_frame; [apply F_h_request_vote|apply TL_request_vote|intros _; exact Fz]. }
  destruct (run_handler (w_now w) n (c_req c)) as [[n1 resp] parked]. cbn [fst] in H1.
  destruct dup; [exact H1|].
  destruct (n_frozen n1); [exact H1|].
  destruct resp as [p|]; exact H1.
Qed.

Lemma NS_step_reply w c failed : VInv w -> NSW w -> In c (w_calls w) -> NS w (w_nodes (step_reply w c failed)).
Proof.
  intros HV HNS Hc. unfold step_reply.
  set (w0 := set_call w (c <| c_state := CDone |>)).
  assert (E0 : w_nodes w0 = w_nodes w) by reflexivity.
  assert (H0 : NS w (w_nodes w0)) by (rewrite E0; nsame).
  destruct (get_node w (c_src c)) as [n|] eqn:G; [|exact H0].
  destruct (Votes.get_node_in _ _ _ G) as [Hn Eid]. pose proof (vi_coh w HV n Hn) as Hcoh.
  destruct (n_frozen n) eqn:Fz; [exact H0|].
  pose proof (ns_calls w HNS c Hc) as Hq. unfold ns_call in Hq.
  destruct (c_req c) as [q|q|q] eqn:Eq; [| |contradiction].
  - destruct (if failed then None else c_resp c) as [[p|p|p]|]; try exact H0.
    pose proof (F_l_ae_reply (w_now w) n (c_round c) (c_dst c) (c_fgen c) q p) as HF.
    pose proof (TL_ae_reply (w_now w) n (c_round c) (c_dst c) (c_fgen c) q p) as HT.
    pose proof (R_ae_reply (w_now w) n (c_round c) (c_dst c) (c_fgen c) q p Hcoh) as HR.
    destruct (l_ae_reply (w_now w) n (c_round c) (c_dst c) (c_fgen c) q p) as [n1 o]. cbn [fst snd] in *.
    assert (H1 : NS w (w_nodes (set_node w0 n1))).
    { apply NS_set_node with (m := n); [exact E0|exact Hn|apply (Votes.r_id _ _ HR)|apply st_frame; [assumption|assumption|intros _; exact Fz]]. }
    destruct o; exact H1.
  - destruct (if failed then None else c_resp c) as [[p|p|p]|]; try exact H0.
    apply NS_set_node with (m := n); [exact E0|exact Hn|apply (Votes.r_id _ _ (R_rv_reply _ _ _ _ _ _ _ Hcoh))|].
    apply st_frame; [apply F_l_rv_reply|apply TL_rv_reply|intros _; exact Fz].
Qed.

Lemma NS_step_task w m : In m (w_nodes w) -> NS w (w_nodes (step_task w m)).
Proof.
  intros Hm. unfold step_task. destruct (n_tasks m) as [|t rest] eqn:Et; [nsame|].
  set (n0 := m <| n_tasks := rest |>).
  assert (Q0 : Q m n0) by qtv. assert (F0 : F m n0) by ftv.
  assert (Hsec : forall m', Q m m' -> F m m' -> NS w (w_nodes (set_node w m'))).
  { intros m' HQ HF. destruct (fq w m m' HQ HF) as [Eid HT]. apply NS_set_node with (m := m); auto. }
  destruct t as [rid peer pv|rid peer].
  - destruct (l_rv_send n0 rid peer pv) as [q|]; apply (Hsec n0 Q0 F0).
  - pose proof (F_l_ae_send n0 peer) as HF. pose proof (Q_ae_send n0 peer) as HQ.
    destruct (l_ae_send n0 peer) as [n1 sn]. cbn [fst] in *.
    assert (H1 : NS w (w_nodes (set_node w n1))).
    { apply Hsec; [apply Q_trans with n0; assumption|apply F_trans with n0; assumption]. }
    destruct sn as [|q|q]; exact H1.
Qed.

Theorem step_ST w l : static_label l = true -> nosnap_label l = true -> ALL C w -> NS w (w_nodes (step w l)).
Proof.
  intros Hst Hns [HW HX HU HNS HTA HL]. pose proof (x_v C w HX) as HV.
  destruct l; cbn [step]; try discriminate Hst; try discriminate Hns.
  - (* LTick *) nsame.
  - (* LElection *) apply NS_on_node; [reflexivity|]. intros m _. apply fq_cond; [apply Q_signal_election|apply F_signal_election].
  - (* LHeartbeat *) apply NS_on_node; [reflexivity|]. intros m _. apply fq_cond; [apply Q_heartbeat|apply F_l_heartbeat].
  - (* LDeliver *) destruct (get_call w c) as [cl|] eqn:G; [|nsame]. destruct (VoteRecords.get_call_in _ _ _ G) as [Hin _].
    destruct (c_state cl) eqn:Es; try nsame. apply NS_step_deliver; auto.
  - (* LDup *) destruct (get_call w c) as [cl|] eqn:G; [|nsame]. destruct (VoteRecords.get_call_in _ _ _ G) as [Hin _].
    apply NS_step_deliver; auto.
  - (* LReply *) destruct (get_call w c) as [cl|] eqn:G; [|nsame]. destruct (VoteRecords.get_call_in _ _ _ G) as [Hin _].
    destruct (c_state cl) eqn:Es; try nsame. apply NS_step_reply; auto.
  - (* LFail *) destruct (get_call w c) as [cl|] eqn:G; [|nsame]. destruct (VoteRecords.get_call_in _ _ _ G) as [Hin _].
    destruct (c_state cl) eqn:Es; try nsame; apply NS_step_reply; auto.
  - (* LSubmit *) unfold fresh_fid. apply NS_on_node; [reflexivity|]. intros m _.
    destruct (n_frozen m); [split; [reflexivity|apply ST_refl]|apply fq; [apply Q_submit|apply F_api_submit]].
  - (* LCrash *) change (NS w (w_nodes (on_node w n crash))). apply NS_on_node; [reflexivity|]. intros m _.
    split; [reflexivity|apply st_zero, cap_crash].
  - (* LRestart *) apply NS_on_node; [reflexivity|]. intros m Hm.
    destruct (role_eqb (n_role m) Shutdown); [|split; [reflexivity|apply ST_refl]].
    destruct (ns_nodes w HNS m Hm) as (_ & _ & Hsn & _). destruct (S_restart (w_now w) m) as (Eid & _).
    split; [exact Eid|apply st_zero, cap_restart, Hsn].
  - (* LBudget *) apply NS_on_node; [reflexivity|]. intros m _. apply fq; [apply Q_upd_budget|apply F_upd_budget].
  - (* LPad *) apply NS_on_node; [reflexivity|]. intros m _. apply fq; [qtv|apply F_upd_pad].
  - (* LDefer *) apply NS_on_node; [reflexivity|]. intros m _. apply fq; [qtv|apply F_upd_tasks].
  - (* LRoMissed *) apply NS_on_node; [reflexivity|]. intros m _. apply fq; [qtv|apply F_upd_cv].
  - (* LTask *) destruct (get_node w n) as [m|] eqn:G; [|nsame]. destruct (is_up m) eqn:Hup; [|nsame].
    destruct (Votes.get_node_in _ _ _ G) as [Hm _]. apply NS_step_task; auto.
  - (* LElectionRun *) apply NS_on_node; [reflexivity|]. intros m Hm. pose proof (vi_coh w HV m Hm) as Hc.
    destruct (is_up m && cv_election (n_cv m)); [|split; [reflexivity|apply ST_refl]].
    split; [apply (Votes.r_id _ _ (R_election (w_now w) m Hc))|apply st_frame; [apply F_l_election|apply TL_election|apply (Votes.r_frozen _ _ (R_election (w_now w) m Hc))]].
  - (* LCommit *) apply NS_on_node; [reflexivity|]. intros m _.
    destruct (is_up m) eqn:Hup; cbn [andb]; [|split; [reflexivity|apply ST_refl]].
    destruct (cv_commit (n_cv m)); [|split; [reflexivity|apply ST_refl]].
    split; [apply (q_id _ _ (Q_commit (w_now w) m))|apply st_commit; [apply is_up_unfrozen, Hup|reflexivity]].
  - (* LApply *) apply NS_on_node; [reflexivity|]. intros m _.
    destruct (is_up m) eqn:Hup; cbn [andb]; [|split; [reflexivity|apply ST_refl]].
    destruct (cv_apply (n_cv m)); [|split; [reflexivity|apply ST_refl]].
    split; [apply (q_id _ _ (Q_apply (w_now w) m))|apply st_apply; [apply is_up_unfrozen, Hup|reflexivity]].
  - (* LRo *) apply NS_on_node; [reflexivity|]. intros m _. apply fq_cond; [apply Q_ro|apply F_lp_ro].
  - (* LInstallResume *) destruct (get_node w n) as [m|] eqn:G; [|nsame].
    destruct (Votes.get_node_in _ _ _ G) as [Hm _]. rewrite (install_resume_ns m (ns_nodes w HNS m Hm)). nsame.
Qed.

End Steps.

(* ================= 1. the commit index ================= *)
Inductive CK (w : world) (n n' : node) : Prop :=
| ck_same : n_commit n' = n_commit n -> n_term n <= n_term n' -> (n_frozen n' = false -> n_frozen n = false) -> CK w n n'
| ck_zero : n_commit n' = 0 -> CK w n n'
| ck_leader e : n_role n = Leader -> n_log n' = n_log n -> n_term n' = n_term n -> n_commit n < n_commit n' ->
                In e (n_log n) -> e_index e = n_commit n' -> e_term e = n_term n ->
                has_quorum (conf_of n) (count_matches n (e_index e)) = true -> n_frozen n = false -> CK w n n'
| ck_follower k q : In k (w_calls w) -> c_req k = ReqAE q -> c_dst k = n_id n -> n_frozen n = false ->
                n' = fst (h_append_entries (w_now w) n q) -> n_commit n < n_commit n' ->
                n_commit n' = N.min (ae_commit q) (ae_prev_index q + N.of_nat (length (ae_entries q))) ->
                n_term n <= ae_term q -> n_term n' = ae_term q ->
                ae_success (snd (h_append_entries (w_now w) n q)) = true -> CK w n n'.

(* the log of a node of a reachable world reads positionally *)
Lemma node_log_positional C w n : ALL C w -> In n (w_nodes w) ->
  (exists r, n_log n = entry0 :: r) /\ forall i e, log_get (n_log n) i = Some e -> e_index e = i.
Proof.
  intros [_ _ _ HNS _ HL] Hn. destruct (ns_nodes w HNS n Hn) as (_ & _ & _ & _ & _ & Hr).
  split; [exact Hr|]. intros i e Hg. rewrite <- (eget_log _ _ Hr) in Hg.
  apply (eget_index (seg_of_log (n_log n)) i e); [|exact Hg]. apply (lm_wf C w HL). left. exists n. auto.
Qed.

Lemma ST_CK C w n n' : ALL C w -> In n (w_nodes w) -> ST w n n' -> CK w n n'.
Proof.
  intros HA Hn [HF HT HZ|HZ|Hfz ->|Hfz ->|k q A1 A2 A3 A4 ->].
  - apply ck_same; [apply F_commit, HF|exact HT|exact HZ].
  - apply ck_zero. unfold cap in HZ. injection HZ as HZ _. exact HZ.
  - pose proof (lp_commit_cases (w_now w) n) as H. cbn zeta in H. destruct H as (HL & HT & _ & [E|(Hr & Hlt & e & He1 & He2 & He3 & He4)]).
    + apply ck_same; [exact E|rewrite HT; lia|intros _; exact Hfz].
    + apply ck_leader with (e := e); assumption.
  - destruct (node_log_positional C w n HA Hn) as [_ Hwf].
    pose proof (lp_apply_spec (w_now w) n Hwf) as H. cbn zeta in H. destruct H as (_ & HC & HT & _).
    apply ck_same; [exact HC|rewrite HT; lia|intros _; exact Hfz].
  - pose proof (ae_cases (w_now w) n q) as H. cbn zeta in H. destruct H as (_ & [[E HT]|(B1 & B2 & B3 & B4 & B5)]).
    + apply ck_same; [assumption|assumption|intros _; exact A4].
    + apply ck_follower with (k := k) (q := q); auto.
Qed.

Theorem step_commit C w l : NoDup (member_ids C) -> static_label l = true -> nosnap_label l = true -> ALL C w ->
  forall n', In n' (w_nodes (step w l)) -> exists n, In n (w_nodes w) /\ n_id n' = n_id n /\ CK w n n'.
Proof.
  intros _ Hst Hns HA n' Hn'. destruct (step_ST C w l Hst Hns HA n' Hn') as (n & Hn & Eid & HT).
  exists n. split; [exact Hn|]. split; [exact Eid|]. apply (ST_CK C); assumption.
Qed.

(* ================= 2. the stream of applications ================= *)
(* node-level form, with the lower bound on the applied indices *)
Definition AP (n n' : node) : Prop :=
  n_applies n' = [] \/
  exists news, n_applies n' = n_applies n ++ news /\
    forall i t p, In (i, t, p) news ->
      n_frozen n = false /\ n_log n' = n_log n /\ n_commit n' = n_commit n /\ n_applied n < i /\ i <= n_commit n /\
      exists e, eget (seg_of_log (n_log n)) i = Some e /\ e_term e = t /\ e_kind e = KOp p.

Lemma AP_same n n' : n_applies n' = n_applies n -> AP n n'.
Proof. intros E. right. exists []. split; [rewrite app_nil_r; exact E|intros i t p []]. Qed.

Lemma ST_AP C w n n' : ALL C w -> In n (w_nodes w) -> ST w n n' -> AP n n'.
Proof.
  intros HA Hn [HF HT _|HZ|Hfz ->|Hfz ->|k q A1 A2 A3 A4 ->].
  - apply AP_same, F_applies, HF.
  - left. unfold cap in HZ. injection HZ as _ HZ. exact HZ.
  - apply AP_same, applies_lp_commit.
  - destruct (node_log_positional C w n HA Hn) as [Hr Hwf].
    pose proof (lp_apply_spec (w_now w) n Hwf) as H. cbn zeta in H. destruct H as (HL & HC & _ & news & EA & HP).
    right. exists news. split; [exact EA|]. intros i t p Hin. destruct (HP i t p Hin) as (B1 & B2 & e & B3 & B4).
    split; [exact Hfz|]. split; [exact HL|]. split; [exact HC|]. split; [exact B1|]. split; [exact B2|].
    exists e. split; [rewrite (eget_log _ _ Hr); exact B3|exact B4].
  - pose proof (ae_cases (w_now w) n q) as H. cbn zeta in H. destruct H as (E & _). apply AP_same, E.
Qed.

(* the same with, in addition, lastApplied < i for every new application *)
Theorem step_applies_bound C w l : NoDup (member_ids C) -> static_label l = true -> nosnap_label l = true -> ALL C w ->
  forall n', In n' (w_nodes (step w l)) -> exists n, In n (w_nodes w) /\ n_id n' = n_id n /\ AP n n'.
Proof.
  intros _ Hst Hns HA n' Hn'. destruct (step_ST C w l Hst Hns HA n' Hn') as (n & Hn & Eid & HT).
  exists n. split; [exact Hn|]. split; [exact Eid|]. apply (ST_AP C w); assumption.
Qed.

Theorem step_applies C w l : NoDup (member_ids C) -> static_label l = true -> nosnap_label l = true -> ALL C w ->
  forall n', In n' (w_nodes (step w l)) -> exists n, In n (w_nodes w) /\ n_id n' = n_id n /\
    (n_applies n' = [] \/
     exists news, n_applies n' = n_applies n ++ news /\
       forall i t p, In (i, t, p) news ->
         n_frozen n = false /\ n_log n' = n_log n /\ n_commit n' = n_commit n /\ i <= n_commit n /\
         exists e, eget (seg_of_log (n_log n)) i = Some e /\ e_term e = t /\ e_kind e = KOp p).
Proof.
  intros HC Hst Hns HA n' Hn'. destruct (step_applies_bound C w l HC Hst Hns HA n' Hn') as (n & Hn & Eid & [E|(news & EA & HP)]).
  - exists n. auto.
  - exists n. split; [exact Hn|]. split; [exact Eid|]. right. exists news. split; [exact EA|].
    intros i t p Hin. destruct (HP i t p Hin) as (B0 & B1 & B2 & _ & B3 & B4). auto.
Qed.

(* ================= the initial world ================= *)
Lemma F_bootstrap n members : F n (api_bootstrap n members).
Proof.
  unfold api_bootstrap. destruct (n_conf n); [apply F_refl|].
  destruct (0 <? last_index (n_log n)); [apply F_refl|].
  eapply F_trans; [|apply F_append]. ftv.
Qed.

Lemma init_cap ids boot et ld n : In n (w_nodes (init_world ids boot et ld)) -> n_commit n = 0 /\ n_applies n = [].
Proof.
  unfold init_world. cbn [w_nodes]. intros Hin. apply in_map_iff in Hin. destruct Hin as (id & <- & _).
  set (m := mk_node id et ld).
  assert (Hm : cap m = (0, [])) by reflexivity.
  set (m1 := if existsb (N.eqb id) boot then api_bootstrap m boot else m).
  assert (H1 : F m m1) by (subst m1; destruct (existsb (N.eqb id) boot); [apply F_bootstrap|apply F_refl]).
  clearbody m1. clearbody m.
  pose proof (F_new_opmanager 0 m1) as H2. pose proof (F_api_start 0 (new_opmanager 0 m1)) as H3.
  unfold F in *. rewrite H2, H1, Hm in H3. unfold cap in H3. injection H3 as A B. auto.
Qed.

Print Assumptions step_commit.
Print Assumptions step_applies.
Print Assumptions step_applies_bound.
Print Assumptions init_cap.
