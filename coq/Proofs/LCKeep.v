(* C06 "never removes a committed entry" / C04 "never lost", cluster level without snapshots: an entry that a
   running node holds at or below its commit index stays in the log of that node at every later point of the
   execution - whatever requests it accepts, through crashes at any storage write and restarts. *)
From Coq Require Import Classical.
From RaftV Require Import Cluster.World Cluster.Statements Proofs.Frame Proofs.RVSpec Proofs.AESpec.
From RaftV Require Import Proofs.ConfNode Proofs.ConfStatic Proofs.Votes Proofs.VoteRecords Proofs.Names.
From RaftV Require Import Proofs.ElectDefs Proofs.ElectBook Proofs.ElectWorld Proofs.ElectRun Proofs.ElectSafety.
From RaftV Require Import Proofs.LogDefs Proofs.LogSeg Proofs.LogUni Proofs.LogInv Proofs.NoSnap Proofs.TaePeer Proofs.LogRun Proofs.LogMatching
                          Proofs.StepCases Proofs.SortedTerms Proofs.ReachInd Proofs.ReqTerm Proofs.TermLe Proofs.MatchAck Proofs.Tails
                          Proofs.LCDefs Proofs.LCHist Proofs.LCCore Proofs.LCStep Proofs.LCStep2 Proofs.LCCtx Proofs.LCtt Proofs.LCClauses Proofs.LCReach
                          Proofs.LCPersist Proofs.LCChain Proofs.LCReq Proofs.LCQuorum Proofs.FollowerKeys Proofs.CommitSteps Proofs.LCBack Proofs.LCFinal.
Open Scope N_scope.

(* the node `id` follows the chain of ej up to index i, and is past ej's term *)
Definition KP (C : config) (w : world) (id : nid) (ej : entry) (i : N) : Prop :=
  forall n, In n (w_nodes w) -> n_id n = id ->
    e_term ej <= n_pterm n /\ forall j ecj, 1 <= j -> j <= i -> chain_at w ej j ecj -> eget (seg_of_log (n_log n)) j = Some ecj.

Section Keep.
Variables (C : config) (w : world) (l : label).
Hypothesis HC : CTX C w l.
Hypothesis HQ : RQI C w.
Let w' := step w l.
Let HCnd := cx_nd C w l HC.
Let Hst := cx_st C w l HC.
Let Hns := cx_ns C w l HC.
Let HF := cx_f C w l HC.
Let HF' := cx_f' C w l HC.
Let HA := f_all C w HF.
Let HA' := f_all C w' HF'.
Let HI := cx_i C w l HC.
Let HI' : LCI C w' := step_LCI C w l HC.
Let HL := a_lm C w HA.
Let HU := a_uni C w HA.

Lemma step_KP id ej i : is_entry w ej -> committed C (w_calls w) ej -> i <= e_index ej -> KP C w id ej i -> KP C w' id ej i.
Proof.
  intros He Hc Hi HK n' Hn' Eid'.
  pose proof (committed_not_dead C w ej Hc) as Hnd.
  pose proof (committed_mono C w l HC ej Hc) as Hc'. pose proof (committed_not_dead C w' ej Hc') as Hnd'.
  pose proof (entry_persists C w l HC ej He Hnd') as He'.
  destruct (node_cases C HCnd w l Hst Hns HA n' Hn') as (n & Hn & Eid & Hpt & _ & HNK).
  destruct (HK n Hn ltac:(congruence)) as [Hterm Hz]. split; [lia|].
  intros j ecj Hj1 Hji Hch'.
  (* the chain value at j in the old world *)
  destruct (live_holder C w HF HI ej He Hnd) as (a & Ha & Hha).
  destruct (holder_defined C w HF ej a j Ha Hha Hj1 ltac:(lia)) as (ec0 & _ & Hch0).
  pose proof (chain_persists C w l HC ej j ec0 He Hnd' Hj1 ltac:(lia) Hch0) as Hch0'.
  pose proof (chain_fun C w' HF' HI' ej j ec0 ecj He' Hnd' Hch0' Hch') as <-.
  pose proof (Hz j ec0 Hj1 Hji Hch0) as Ej.
  assert (Hsl : is_seg w (seg_of_log (n_log n))) by (left; exists n; auto).
  destruct HNK as [El|r e0 Er Er' Ei Ete Erole Efr Ept Hlead Hi0|k q x F Hk Eq Ed Ev' Hterm' (Hx1 & Hbx & F0 & F1 & F2 & F3 & F4 & F6 & F7)].
  - rewrite El. exact Ej.
  - rewrite Er in Ej. destruct (eget_range _ _ _ Ej) as [_ Hr]. rewrite top_log in Hr. rewrite Er', eget_app_old by exact Hr. exact Ej.
  - subst n'. destruct (N.lt_ge_cases j x) as [Hlt|Hge]; [rewrite (F1 j Hlt); exact Ej|exfalso].
    destruct (eget_range _ _ _ Ej) as [_ Hr].
    destruct F6 as [Htop|(ex & eq & Ex & Eeq & Hne)]; [lia|].
    assert (Hsq : is_seg w (seg_of_req q)) by (right; exists k, q; auto).
    destruct (N.eq_dec x 1) as [->|Hx].
    + apply Hne. rewrite (lm_one C w HL _ ex Hsl Ex), (lm_one C w HL _ eq Hsq Eeq). reflexivity.
    + destruct (holder_defined C w HF ej a x Ha Hha ltac:(lia) ltac:(lia)) as (ecx & _ & Hchx).
      pose proof (Hz x ecx ltac:(lia) ltac:(lia) Hchx) as Ex2. rewrite Ex in Ex2. injection Ex2 as <-.
      pose proof (f_pt C w HF n Hn) as Hpt2.
      pose proof (HQ ej k q x eq He Hnd Hk Eq ltac:(lia) Eeq ltac:(lia)) as Hch2.
      apply Hne. f_equal. apply (chain_fun C w HF HI ej x ex eq He Hnd Hchx Hch2).
Qed.

End Keep.

Lemma KP_run ids boot et ld ls1 ls2 id ej i : static (ls1 ++ ls2) = true -> nosnap (ls1 ++ ls2) = true ->
  let w1 := run (init_world ids boot et ld) ls1 in
  let w2 := run w1 ls2 in
  is_entry w1 ej -> committed (bootconf boot) (w_calls w1) ej -> i <= e_index ej -> KP (bootconf boot) w1 id ej i ->
  is_entry w2 ej /\ committed (bootconf boot) (w_calls w2) ej /\ KP (bootconf boot) w2 id ej i.
Proof.
  cbn zeta. induction ls2 as [|l ls IH] using rev_ind; intros Hs Hn He Hc Hi HK; [cbn; auto|].
  rewrite app_assoc in Hs, Hn. destruct (static_snoc _ _ Hs) as [S1 _]. destruct (nosnap_snoc _ _ Hn) as [N1 _].
  destruct (IH S1 N1 He Hc Hi HK) as (He2 & Hc2 & HK2).
  destruct (ctx_reach ids boot et ld (ls1 ++ ls) l Hs Hn) as [HC E].
  rewrite run_app, app_assoc, E. rewrite run_app in He2, Hc2, HK2.
  pose proof (committed_mono _ _ _ HC ej Hc2) as Hc3. pose proof (committed_not_dead _ _ ej Hc3) as Hnd.
  split; [apply (entry_persists _ _ _ HC ej He2 Hnd)|]. split; [exact Hc3|].
  apply (step_KP _ _ _ HC (RQI_reach ids boot et ld _ S1 N1) id ej i He2 Hc2 Hi HK2).
Qed.

Theorem committed_entry_stays ids boot et ld ls1 ls2 : static (ls1 ++ ls2) = true -> nosnap (ls1 ++ ls2) = true ->
  let w1 := run (init_world ids boot et ld) ls1 in
  let w2 := run w1 ls2 in
  forall n1 e n2, In n1 (w_nodes w1) -> n_frozen n1 = false -> In e (n_log n1) -> 2 <= e_index e -> e_index e <= n_commit n1 ->
    In n2 (w_nodes w2) -> n_id n2 = n_id n1 -> In e (n_log n2).
Proof.
  intros Hs Hn. cbn zeta. intros n1 e n2 Hn1 Hfz1 Hin Hi2 Hidx Hn2 Eid.
  pose proof (static_app1 _ _ Hs) as S1. pose proof (nosnap_app1 _ _ Hn) as N1.
  set (C := bootconf boot) in *. set (w1 := run (init_world ids boot et ld) ls1) in *.
  pose proof (facts_reach ids boot et ld ls1 S1 N1) as HF1. fold C in HF1. fold w1 in HF1.
  pose proof (LCI_reach ids boot et ld ls1 S1 N1) as HI1. fold C in HI1. fold w1 in HI1.
  pose proof (f_all C w1 HF1) as HA1.
  destruct (ns_nodes _ (a_ns _ _ HA1) n1 Hn1) as (_ & _ & _ & _ & _ & (r1 & Er1)).
  assert (Hs1 : is_seg w1 (seg_of_log (n_log n1))) by (left; exists n1; auto).
  pose proof (lm_wf C w1 (a_lm _ _ HA1) _ Hs1) as Hwf1. rewrite Er1 in Hwf1.
  rewrite Er1 in Hin. destruct Hin as [<-|Hin]; [cbn in Hi2; lia|].
  pose proof (in_log_eget r1 e Hwf1 Hin) as Ee. rewrite <- Er1 in Ee.
  pose proof (CBI_reach ids boot et ld ls1 S1 N1) as HB1. fold C in HB1. fold w1 in HB1.
  destruct (cb_node C w1 HB1 n1 Hn1 Hfz1 ltac:(lia)) as (ej & (He & Hc & Hte & Hci) & Hz).
  pose proof (committed_not_dead C w1 ej Hc) as Hnd.
  assert (HK : KP C w1 (n_id n1) ej (e_index e)).
  { intros n Hn0 Eid0. assert (n = n1) by (apply (a_uni C w1 HA1); auto). subst n.
    split.
    - destruct (vi_coh w1 (x_v C w1 (a_x C w1 HA1)) n1 Hn1 Hfz1) as [Ept _]. lia.
    - intros j ecj Hj1 Hji Hch. destruct (eget_range _ _ _ Ee) as [_ Htop].
      destruct (eget_defined (seg_of_log (n_log n1)) j) as (e' & E'); [cbn; lia|lia|].
      destruct (N.eq_dec j 1) as [->|Hne].
      + (* index 1: the bootstrap entry everywhere *)
        destruct (live_holder C w1 HF1 HI1 ej He Hnd) as (a & Ha & Hha).
        pose proof (Hch a Ha Hha) as Ea. assert (Hsa : is_seg w1 (seg_of_log (n_log a))) by (left; exists a; auto).
        rewrite E'. f_equal. rewrite (lm_one C w1 (a_lm _ _ HA1) _ e' Hs1 E'), (lm_one C w1 (a_lm _ _ HA1) _ ecj Hsa Ea). reflexivity.
      + pose proof (Hz j e' ltac:(lia) ltac:(lia) E') as Hch2. rewrite E'. f_equal.
        apply (chain_fun C w1 HF1 HI1 ej j e' ecj He Hnd Hch2 Hch). }
  destruct (KP_run ids boot et ld ls1 ls2 (n_id n1) ej (e_index e) Hs Hn He Hc ltac:(lia) HK) as (He2 & Hc2 & HK2).
  pose proof (Hz (e_index e) e ltac:(lia) Hidx Ee) as Hche.
  destruct (chain_run ids boot et ld ls1 ls2 ej (e_index e) e Hs Hn He Hc ltac:(lia) ltac:(lia) Hche) as (_ & _ & Hch2).
  destruct (HK2 n2 Hn2 Eid) as [_ Hz2].
  pose proof (Hz2 (e_index e) e ltac:(lia) ltac:(lia) Hch2) as E2.
  unfold w1 in Hn2. rewrite run_app in Hn2. pose proof (facts_reach ids boot et ld _ Hs Hn) as HF2.
  destruct (ns_nodes _ (a_ns _ _ (f_all _ _ HF2)) n2 Hn2) as (_ & _ & _ & _ & _ & (r2 & Er2)).
  rewrite Er2 in *. right. apply (eget_in_log r2 _ e E2).
Qed.

Print Assumptions committed_entry_stays.
