(* C03, "a future that resolves successfully returns exactly the submitted bytes".
   Cluster level, executions without membership changes and without snapshots (crashes, restarts and
   storage-failure freezes included): a success answer FOp i t p r recorded under future id fid on any node
   carries the payload p that was submitted under fid (subs: the submission record of the execution), and
   the future ids of the submission record are pairwise distinct.
   Node level: the sweep relation P (the registrations n_pending only shrink, and while the node is leader
   its log is only extended); cluster level: the one place where P fails - a leader that accepts an
   AppendEntries request of its own term - is excluded by the election invariants (two leaders of a term). *)
From RaftV Require Import Cluster.World Cluster.Statements Proofs.Frame Proofs.RVSpec Proofs.AESpec Proofs.AELog.
From RaftV Require Import Proofs.CommitSpec Proofs.ReadSpec Proofs.ReplySpec.
From RaftV Require Import Proofs.ConfNode Proofs.ConfStatic Proofs.ConfSticky.
From RaftV Require Import Proofs.Votes Proofs.VoteRecords Proofs.Names Proofs.ElectSpec.
From RaftV Require Import Proofs.ElectDefs Proofs.EFrame Proofs.RoleFrame Proofs.ElectBook Proofs.ElectNode Proofs.ElectSteps
                          Proofs.ElectWorld Proofs.ElectReply Proofs.ElectStep Proofs.ElectRun Proofs.ElectSafety.
From RaftV Require Import Proofs.LogDefs Proofs.LogSeg Proofs.LogUni Proofs.LogInv Proofs.LogAccept Proofs.LogSend Proofs.LogFrame
                          Proofs.NoSnap Proofs.TaePeer Proofs.LogWorld Proofs.LogRun Proofs.LogMatching.
From RaftV Require Import Proofs.AEFull Proofs.CommitSteps Proofs.ResultSteps Proofs.ApplyOrder Proofs.MatchAck.
Open Scope N_scope.

(* ================= node level: the sweep ================= *)
Definition ext (l l' : list entry) : Prop := exists es, l' = l ++ es.
Lemma ext_refl l : ext l l. Proof. exists []. rewrite app_nil_r. reflexivity. Qed.
Lemma ext_trans a b c : ext a b -> ext b c -> ext a c.
Proof. intros (x & ->) (y & ->). exists (x ++ y). rewrite app_assoc. reflexivity. Qed.

(* every registration that survives the section was there before it; a node is not unfrozen; a leader with a
   surviving registration is still leader and its log was only extended *)
Definition P (n n' : node) : Prop :=
  forall idx fid, lookup idx (n_pending n') = Some fid ->
    lookup idx (n_pending n) = Some fid /\
    (n_frozen n' = false -> n_frozen n = false) /\
    (n_role n = Leader -> n_role n' = Leader /\ ext (n_log n) (n_log n')).

Lemma P_refl m : P m m.
Proof. intros idx fid H. split; [exact H|]. split; [auto|]. intros R. split; [exact R|apply ext_refl]. Qed.
Lemma P_trans a b c : P a b -> P b c -> P a c.
Proof.
  intros H1 H2 idx fid H. destruct (H2 idx fid H) as (L2 & F2 & R2). destruct (H1 idx fid L2) as (L1 & F1 & R1).
  split; [exact L1|]. split; [auto|]. intros R. destruct (R1 R) as [Rb E1]. destruct (R2 Rb) as [Rc E2].
  split; [exact Rc|eapply ext_trans; eassumption].
Qed.

Definition pe (n : node) := (n_pending n, n_role n, n_frozen n, n_log n).
Lemma PE_P m m' : pe m' = pe m -> P m m'.
Proof.
  unfold pe. intros E. injection E as E1 E2 E3 E4. intros idx fid H. rewrite E1 in H. split; [exact H|].
  split; [rewrite E3; auto|]. intros R. split; [congruence|rewrite E4; apply ext_refl].
Qed.
Lemma P_empty m m' : n_pending m' = [] -> P m m'.
Proof. intros E idx fid H. rewrite E in H. discriminate H. Qed.
Lemma P_norole m m' : n_pending m' = n_pending m -> (n_frozen m' = false -> n_frozen m = false) -> n_role m <> Leader -> P m m'.
Proof. intros E F R idx fid H. rewrite E in H. split; [exact H|]. split; [exact F|]. intros RL. contradiction. Qed.
Lemma P_of m m' : n_pending m' = n_pending m -> (n_frozen m' = false -> n_frozen m = false) ->
  (n_role m = Leader -> n_role m' = Leader) -> ext (n_log m) (n_log m') -> P m m'.
Proof. intros E F R X idx fid H. rewrite E in H. split; [exact H|]. split; [exact F|]. intros RL. split; [auto|exact X]. Qed.

(* the base node is abstracted first: conversion on large node terms is slow *)
Ltac ptv :=
  match goal with
  | |- P ?x _ => first [ is_var x; apply PE_P; reflexivity
                       | let y := fresh "base" in generalize x; intro y; apply PE_P; reflexivity
                       | apply PE_P; reflexivity ]
  end.

Lemma P_respond n fid r : P n (respond n fid r).
Proof. unfold respond. destruct (n_frozen n); [apply P_refl|]. destruct (existsb _ _); [apply P_refl|ptv]. Qed.

Lemma P_respond_all fids r : forall n, P n (respond_all n fids r).
Proof.
  unfold respond_all. induction fids as [|f fids IH]; intros n; cbn [fold_left]; [apply P_refl|].
  eapply P_trans; [apply P_respond|apply IH].
Qed.

Lemma P_tick n : P n (snd (tick_write n)).
Proof.
  unfold tick_write. destruct (n_frozen n) eqn:F; [apply P_refl|]. destruct (n_budget n) as [k|]; [|apply P_refl].
  destruct (k =? 0); cbn [snd]; [|ptv].
  apply P_of; [reflexivity|intros _; exact F|intros R; exact R|apply ext_refl].
Qed.

Lemma P_write (f : node -> node) n :
  (forall m, P m (f m)) ->
  P n (let (ok, n1) := tick_write n in if ok then f n1 else n1).
Proof.
  intros Hf. pose proof (P_tick n) as H. destruct (tick_write n) as [ok n1]. cbn [snd] in H.
  destruct ok; [|exact H]. eapply P_trans; [exact H|]. apply Hf.
Qed.

Lemma P_persist n : P n (persist n). Proof. apply P_write. intros m. ptv. Qed.
Lemma P_truncate n i : n_role n <> Leader -> P n (truncate_log n i).
Proof.
  intros R. unfold truncate_log. pose proof (P_tick n) as H. pose proof (ElectSpec.role_tick n) as RT.
  destruct (tick_write n) as [ok n1]. cbn [snd] in H, RT.
  destruct ok; [|exact H]. eapply P_trans; [exact H|].
  apply P_norole; [reflexivity|intros F; exact F|rewrite RT; exact R].
Qed.
Lemma P_append es : forall n, P n (append_entries n es).
Proof.
  induction es as [|e es IH]; intros n; cbn [append_entries]; [apply P_refl|].
  pose proof (P_tick n) as H. destruct (tick_write n) as [ok n1]. cbn [snd] in H.
  destruct ok; [|exact H]. eapply P_trans; [exact H|]. eapply P_trans; [|apply IH].
  apply P_of; [reflexivity|intros F; exact F|intros R; exact R|exists [e]; reflexivity].
Qed.

Lemma P_new_opmanager now m n : P m (new_opmanager now n). Proof. apply P_empty. reflexivity. Qed.
Lemma P_reset n : P n (reset_snapshot_files n). Proof. ptv. Qed.
Lemma P_notify n : P n (notify_lost_leadership n).
Proof. unfold notify_lost_leadership. eapply P_trans; [|apply P_respond_all]. apply P_respond_all. Qed.
Lemma P_cancel n : P n (cancel_conf_change n).
Proof.
  unfold cancel_conf_change. destruct (n_cfg_fid n) as [f|]; [|apply P_refl].
  apply P_trans with (respond n f FNotLeader); [apply P_respond|ptv].
Qed.
Lemma P_fail o n : P n (fail o n).
Proof. unfold fail. destruct (n_out n); [ptv|apply P_refl|apply P_refl]. Qed.

(* losing the leadership empties the table of registrations *)
Lemma P_become_follower now m n l t : P m (become_follower now n l t).
Proof.
  unfold become_follower. cbv zeta.
  match goal with |- P m (cancel_conf_change ?x) => apply P_trans with x; [|apply P_cancel] end.
  apply P_new_opmanager.
Qed.

Lemma P_stepdown now m n : P m (stepdown now n).
Proof.
  unfold stepdown.
  match goal with |- P m (cancel_conf_change ?x) => apply P_trans with x; [|apply P_cancel] end.
  apply P_new_opmanager.
Qed.

Lemma P_new_follower m id nx : P m (new_follower m id nx). Proof. unfold new_follower. ptv. Qed.
Lemma P_new_followers nx ids : forall n, P n (fold_left (fun m id => new_follower m id nx) ids n).
Proof.
  induction ids as [|id ids IH]; intros n; cbn [fold_left]; [apply P_refl|].
  eapply P_trans; [apply P_new_follower|apply IH].
Qed.

Lemma P_next_configuration now n c : P n (next_configuration now n c).
Proof.
  unfold next_configuration. destruct c as [nx|]; [|apply P_fail].
  set (n1 := if is_member nx (n_id n) then n else _).
  assert (H1 : P n n1).
  { subst n1. destruct (is_member nx (n_id n)); [apply P_refl|].
    eapply P_trans; [|apply P_reset]. destruct (role_eqb (n_role n) Leader); [apply P_stepdown|apply P_refl]. }
  clearbody n1. eapply P_trans; [exact H1|].
  match goal with |- P n1 (fold_left ?f ?l ?n2 <| n_conf := ?c |>) =>
    apply P_trans with n2; [ptv|]; apply P_trans with (fold_left f l n2); [apply P_new_followers|ptv] end.
Qed.

Lemma role_upd_conf (x : node) c : n_role (x <| n_conf := c |>) = n_role x. Proof. reflexivity. Qed.
Lemma role_upd_of (x : node) f g : n_role (x <| n_orphans ::= f |> <| n_followers ::= g |>) = n_role x. Proof. reflexivity. Qed.
Lemma pending_upd_cr (x : node) a r : n_pending (x <| n_contact := a |> <| n_role := r |>) = n_pending x. Proof. reflexivity. Qed.
Lemma pending_upd_cf (x : node) a r : n_pending (x <| n_conf := a |> <| n_followers := r |>) = n_pending x. Proof. reflexivity. Qed.
Lemma role_next_configuration now n c : n_role n <> Leader -> n_role (next_configuration now n c) <> Leader.
Proof. intros R H. apply R. apply (k_leader _ _ (K_next_configuration now n c) H). Qed.

Lemma P_apply_configuration now n c : P n (apply_configuration now n c).
Proof.
  unfold apply_configuration. destruct (n_cconf n) as [cc|].
  - destruct (c_index c <=? c_index cc); [apply P_refl|].
    eapply P_trans; [apply P_next_configuration|]. ptv.
  - eapply P_trans; [apply P_next_configuration|]. ptv.
Qed.

Lemma P_ae_scan now es : forall n n4 l, n_role n <> Leader -> ae_scan now n es = Some (n4, l) -> P n n4.
Proof.
  induction es as [|e es IH]; intros n n4 l R H; cbn [ae_scan] in H.
  - injection H as <- _. apply P_refl.
  - destruct (last_index (n_log n) <? e_index e); [injection H as <- _; apply P_refl|].
    destruct (log_get (n_log n) (e_index e)) as [ex|]; [|discriminate].
    destruct ((e_index ex =? e_index e) && negb (e_term ex =? e_term e)).
    + injection H as <- _.
      destruct (e_index e <=? c_index (conf_of (truncate_log n (e_index e)))).
      * eapply P_trans; [apply P_truncate, R|apply P_next_configuration].
      * apply P_truncate, R.
    + eapply IH; [exact R|exact H].
Qed.

Lemma P_signal_apply n : P n (signal_apply n). Proof. ptv. Qed.
Lemma P_signal_commit n : P n (signal_commit n). Proof. ptv. Qed.
Lemma P_signal_ro n : P n (signal_ro n). Proof. ptv. Qed.
Lemma P_signal_election n : P n (signal_election n). Proof. ptv. Qed.
Lemma P_signal_snapshot n : P n (signal_snapshot n). Proof. ptv. Qed.

Lemma P_upd_tasks m ts : P m (m <| n_tasks := ts |>). Proof. ptv. Qed.
Lemma P_upd_budget m k : P m (m <| n_budget := k |>). Proof. ptv. Qed.
Lemma P_upd_pad m k : P m (m <| n_pad := k |>). Proof. ptv. Qed.
Lemma P_upd_cv m f : P m (m <| n_cv ::= f |>). Proof. ptv. Qed.
Lemma P_upd_sv m v : P m (m <| n_should_verify := v |>). Proof. ptv. Qed.
Lemma P_upd_ro m f : P m (m <| n_ro ::= f |>). Proof. ptv. Qed.
Lemma P_upd_followers m f : P m (m <| n_followers ::= f |>). Proof. ptv. Qed.
Lemma P_upd_role_leader m : P m (m <| n_role := Leader |>).
Proof. apply P_of; [reflexivity|intros F; exact F|intros _; reflexivity|apply ext_refl]. Qed.

Lemma P_set_follower n id f : P n (set_follower n id f). Proof. unfold set_follower. ptv. Qed.
Lemma P_set_fobj n id g f : P n (set_fobj n id g f).
Proof. unfold set_fobj. destruct (_ =? g); [apply P_set_follower|ptv]. Qed.
Lemma P_bump_round n r : P n (bump_round n r). Proof. unfold bump_round. ptv. Qed.
Lemma P_try_apply_ro now n s : P n (try_apply_ro now n s). Proof. unfold try_apply_ro, signal_ro. ptv. Qed.

Lemma P_send_ae_to_peers now n : P n (send_ae_to_peers now n).
Proof.
  unfold send_ae_to_peers.
  set (n0 := n <| n_hb_rounds ::= N.succ |>).
  assert (H0 : P n n0) by ptv.
  set (n1 := if is_single (conf_of n) (n_id n) then _ else n0).
  assert (H1 : P n0 n1).
  { subst n1. destruct (is_single (conf_of n) (n_id n)); [|apply P_refl].
    eapply P_trans; [|apply P_try_apply_ro].
    destruct (n_commit n0 <? last_index (n_log n0)); [apply P_signal_commit|apply P_refl]. }
  clearbody n1. clearbody n0.
  unfold new_round. cbn [fst snd].
  eapply P_trans; [exact H0|]. eapply P_trans; [exact H1|]. ptv.
Qed.

Lemma P_become_leader now n : P n (become_leader now n).
Proof.
  unfold become_leader.
  eapply P_trans; [|apply P_send_ae_to_peers]. eapply P_trans; [|apply P_append].
  eapply P_trans; [|apply P_reset].
  eapply P_trans; [|apply P_upd_followers].
  apply P_new_opmanager.
Qed.

Lemma P_send_rv_to_peers now n : P n (send_rv_to_peers now n).
Proof.
  unfold send_rv_to_peers. destruct (is_single (conf_of n) (n_id n)).
  - eapply P_trans; [|apply P_become_leader].
    destruct (role_eqb (n_role n) PreCandidate) eqn:E; [|apply P_refl].
    eapply P_trans; [|apply P_persist].
    apply P_norole; [reflexivity|intros F; exact F|rewrite (role_eqb_true _ _ E); discriminate].
  - unfold new_round. ptv.
Qed.

Lemma P_l_election now m : P m (l_election now m).
Proof.
  unfold l_election.
  set (n0 := m <| n_cv ::= _ |>).
  assert (H0 : P m n0) by ptv.
  match goal with |- P m (if ?c then _ else _) => destruct c end; [exact H0|].
  set (n1 := if role_eqb (n_role n0) Follower then n0 <| n_role := PreCandidate |> else n0).
  assert (H1 : P n0 n1).
  { subst n1. destruct (role_eqb (n_role n0) Follower) eqn:E; [|apply P_refl].
    apply P_norole; [reflexivity|intros F; exact F|rewrite (role_eqb_true _ _ E); discriminate]. }
  set (n2 := if role_eqb (n_role n1) Candidate then _ else n1).
  assert (H2 : P n1 n2).
  { subst n2. destruct (role_eqb (n_role n1) Candidate); [|apply P_refl].
    eapply P_trans; [|apply P_persist]. ptv. }
  eapply P_trans; [eapply P_trans; [exact H0|eapply P_trans; [exact H1|exact H2]]|].
  apply P_send_rv_to_peers.
Qed.

Lemma P_l_heartbeat now m : P m (l_heartbeat now m).
Proof. unfold l_heartbeat. destruct (_ || _); [apply P_refl|apply P_send_ae_to_peers]. Qed.

Lemma P_l_is_send n peer : P n (fst (l_is_send n peer)).
Proof.
  unfold l_is_send. destruct (negb (role_eqb (n_role n) Leader)); [apply P_refl|].
  destruct (n_lii n =? 0); [apply P_refl|].
  match goal with |- P n (fst (match ?c with _ => _ end)) => destruct c as [[s o]|] end; cbn [fst];
    [apply P_set_follower|apply P_fail].
Qed.

Lemma P_l_ae_send n peer : P n (fst (l_ae_send n peer)).
Proof.
  unfold l_ae_send. destruct (_ || _); [apply P_refl|].
  destruct (f_next (get_follower n peer) <=? n_lii n).
  - pose proof (P_l_is_send n peer) as H. destruct (l_is_send n peer) as [n1 [q|]]; exact H.
  - destruct (next_index (n_log n) <? f_next (get_follower n peer)); cbn [fst]; [apply P_fail|apply P_refl].
Qed.

Lemma P_h_request_vote now n q : P n (fst (h_request_vote now n q)).
Proof.
  unfold h_request_vote.
  destruct (role_eqb (n_role n) Shutdown); [apply P_refl|].
  destruct (lease_valid now n || recent_contact now n); [apply P_refl|].
  destruct (rv_term q <? n_term n); [apply P_refl|].
  set (n1 := if negb (rv_prevote q) && (n_term n <? rv_term q) then become_follower now n (rv_cand q) (rv_term q) else n).
  assert (H1 : P n n1).
  { subst n1. destruct (negb (rv_prevote q) && (n_term n <? rv_term q)); [apply P_become_follower|apply P_refl]. }
  destruct (negb (rv_prevote q) && match n_vote n1 with Some v => negb (v =? rv_cand q) | None => false end);
    [exact H1|].
  destruct ((rv_last_term q <? last_term (n_log n1)) || _); [exact H1|].
  cbn [fst]. destruct (rv_prevote q); [exact H1|].
  eapply P_trans; [exact H1|]. eapply P_trans; [|apply P_persist]. ptv.
Qed.

Lemma P_l_rv_reply now m rid peer pv q p : P m (l_rv_reply now m rid peer pv q p).
Proof.
  unfold l_rv_reply.
  destruct (role_eqb (n_role m) Shutdown); [apply P_refl|].
  destruct (rv_term q <? n_term m); [apply P_refl|].
  set (n1 := if rvr_granted p then bump_round m rid else m).
  assert (H1 : P m n1) by (subst n1; destruct (rvr_granted p); [apply P_bump_round|apply P_refl]).
  destruct (rv_term q <? rvr_term p).
  - apply P_become_follower.
  - set (n2 := if _ && role_eqb (n_role n1) PreCandidate then _ else n1).
    assert (H2 : P n1 n2).
    { subst n2. match goal with |- P _ (if ?c then _ else _) => destruct c eqn:E end; [|apply P_refl].
      apply andb_prop in E. destruct E as [_ E]. unfold signal_election.
      apply P_norole; [reflexivity|intros F; exact F|rewrite (role_eqb_true _ _ E); discriminate]. }
    eapply P_trans; [eapply P_trans; [exact H1|exact H2]|].
    match goal with |- P _ (if ?c then _ else _) => destruct c end; [apply P_become_leader|apply P_refl].
Qed.

Lemma P_l_ae_reply now n rid peer g q p : P n (fst (l_ae_reply now n rid peer g q p)).
Proof.
  unfold l_ae_reply.
  destruct (_ || _); [apply P_refl|].
  destruct (n_term n <? aer_term p); [cbn [fst]; apply P_become_follower|].
  destruct (negb (ae_term q =? n_term n)); [apply P_refl|].
  set (n1 := if is_voter (conf_of n) peer then bump_round n rid else n).
  set (n2 := if is_voter (conf_of n) peer && has_quorum (conf_of n1) (round_count n1 rid)
             then try_apply_ro now n1 (round_stamp n1 rid) else n1).
  assert (H1 : P n n1) by (subst n1; destruct (is_voter (conf_of n) peer); [apply P_bump_round|apply P_refl]).
  assert (H2 : P n n2).
  { eapply P_trans; [exact H1|]. subst n2.
    destruct (is_voter (conf_of n) peer && has_quorum (conf_of n1) (round_count n1 rid));
      [apply P_try_apply_ro|apply P_refl]. }
  destruct (negb (aer_success p)).
  - destruct (aer_index p <=? n_lii _).
    + eapply P_trans; [exact H2|]. eapply P_trans; [apply P_set_fobj|]. apply P_l_is_send.
    + cbn [fst]. eapply P_trans; [exact H2|apply P_set_fobj].
  - match goal with |- P n (fst (if ?c then _ else _)) => destruct c end; cbn [fst]; [|exact H2].
    eapply P_trans; [exact H2|]. eapply P_trans; [apply P_set_fobj|].
    match goal with |- P _ (if ?c then _ else _) => destruct c end; [apply P_signal_commit|apply P_refl].
Qed.

Lemma P_fold (f : node -> rop -> node) ops : (forall m o, P m (f m o)) -> forall n, P n (fold_left f ops n).
Proof.
  intros Hf. induction ops as [|o ops IH]; intros n; cbn [fold_left]; [apply P_refl|].
  eapply P_trans; [apply Hf|apply IH].
Qed.

Lemma P_lp_ro now n : P n (lp_ro now n).
Proof.
  unfold lp_ro. set (n0 := n <| n_cv ::= _ |>). assert (H0 : P n n0) by ptv.
  destruct (_ || _); [exact H0|].
  eapply P_trans; [exact H0|]. eapply P_trans; [|apply P_fold].
  - apply P_upd_ro.
  - intros m o. destruct (ro_type o); [apply P_respond|apply P_respond|].
    destruct (lease_valid now m); apply P_respond.
Qed.

(* Submit of a read, or on a node that is not the leader, registers nothing *)
Lemma P_api_submit_other now m fid ty p : ty <> OReplicated \/ n_role m <> Leader -> P m (api_submit now m fid ty p).
Proof.
  intros Hc. unfold api_submit. destruct (negb (role_eqb (n_role m) Leader)) eqn:ER; [apply P_respond|].
  destruct ty.
  - destruct Hc as [Hc|Hc]; [congruence|]. apply Bool.negb_false_iff in ER. apply role_eqb_true in ER. contradiction.
  - match goal with |- P m (if ?c then _ else _) => destruct c end; [|apply P_upd_ro].
    eapply P_trans; [|apply P_upd_sv]. eapply P_trans; [|apply P_send_ae_to_peers]. apply P_upd_ro.
  - match goal with |- P m (if ?c then _ else _) => destruct c end; [|apply P_upd_ro].
    eapply P_trans; [|apply P_signal_ro]. apply P_upd_ro.
Qed.

Lemma pending_api_start now n : n_pending (api_start now n) = n_pending n.
Proof.
  unfold api_start. destruct (negb _); [reflexivity|].
  rewrite pending_upd_cr. rewrite (proj_new_followers n_pending 0 _ (fun m id => eq_refl)).
  apply pending_upd_cf.
Qed.

Lemma P_lp_commit now n : P n (lp_commit now n).
Proof.
  unfold lp_commit. set (n0 := n <| n_cv ::= _ |>). assert (H0 : P n n0) by ptv.
  clearbody n0. destruct (negb (role_eqb (n_role n0) Leader)); [exact H0|].
  match goal with |- P n (if ?c then _ else _) => destruct c end; [|exact H0].
  eapply P_trans; [exact H0|]. eapply P_trans; [|apply P_send_ae_to_peers].
  eapply P_trans; [|apply P_signal_apply]. ptv.
Qed.

(* ---- AppendEntries handler: a leader is excluded if the request is of its own term ---- *)
Lemma P_ae_pre now n q : P n (ae_pre now n q).
Proof.
  unfold ae_pre.
  set (n1 := n <| n_contact := now |> <| n_leader := Some (ae_leader q) |>).
  assert (H1 : P n n1) by ptv.
  set (n2 := if n_term n1 <? ae_term q then _ else n1).
  assert (H2 : P n1 n2) by (subst n2; destruct (n_term n1 <? ae_term q); [apply P_become_follower|apply P_refl]).
  eapply P_trans; [exact H1|]. eapply P_trans; [exact H2|].
  destruct (_ && _); [apply P_become_follower|apply P_refl].
Qed.

Lemma role_ae_pre now n q : (ae_term q <? n_term n) = false -> (n_role n = Leader -> ae_term q <> n_term n) ->
  n_role (ae_pre now n q) <> Leader.
Proof.
  intros E2 Hl. unfold ae_pre.
  set (n1 := n <| n_contact := now |> <| n_leader := Some (ae_leader q) |>).
  assert (R1 : n_role n1 = n_role n) by reflexivity. assert (T1 : n_term n1 = n_term n) by reflexivity. clearbody n1.
  set (n2 := if n_term n1 <? ae_term q then _ else n1).
  assert (R2 : n_role n2 <> Leader).
  { subst n2. destruct (n_term n1 <? ae_term q) eqn:E; [rewrite role_become_follower; discriminate|].
    rewrite R1. intros HL. apply (Hl HL). apply N.ltb_ge in E. apply N.ltb_ge in E2. lia. }
  clearbody n2. destruct (_ && _); [rewrite role_become_follower; discriminate|exact R2].
Qed.

Lemma P_h_append_entries now n q : (n_role n = Leader -> ae_term q <> n_term n) -> P n (fst (h_append_entries now n q)).
Proof.
  intros Hl.
  destruct (role_eqb (n_role n) Shutdown) eqn:E1; [unfold h_append_entries; rewrite E1; apply P_refl|].
  destruct (ae_term q <? n_term n) eqn:E2; [unfold h_append_entries; rewrite E1, E2; apply P_refl|].
  rewrite (ae_unfold now n q E1 E2). cbv zeta.
  pose proof (P_ae_pre now n q) as H3. pose proof (role_ae_pre now n q E2 Hl) as R3.
  set (n3 := ae_pre now n q) in *. clearbody n3.
  assert (Hfail : P n (fail Fatal n3)) by (eapply P_trans; [exact H3|apply P_fail]).
  destruct (ae_prev_index q <? n_lii n3); [exact H3|].
  destruct (next_index (n_log n3) <=? ae_prev_index q); [exact H3|].
  destruct ((n_lii n3 =? ae_prev_index q) && negb (n_lit n3 =? ae_prev_term q)); [exact H3|].
  match goal with |- context [fst (match ?c with _ => _ end)] => destruct c as [[idx|]|] end.
  - exact H3.
  - exact Hfail.
  - destruct (ae_scan now n3 (ae_entries q)) as [[n4 ta]|] eqn:Es; [|exact Hfail].
    cbn [fst].
    pose proof (P_ae_scan _ _ _ _ _ R3 Es) as H4. pose proof (P_append ta n4) as H5.
    set (n5 := append_entries n4 ta) in *. clearbody n5.
    assert (H : P n n5) by (eapply P_trans; [exact H3|eapply P_trans; [exact H4|exact H5]]).
    match goal with |- P n (if ?c then _ else _) => destruct c end; [|exact H].
    eapply P_trans; [exact H|]. eapply P_trans; [|apply P_signal_apply]. ptv.
Qed.

(* ---- crash and restart: the table of registrations is empty afterwards ---- *)
Lemma pending_crash m : n_pending (crash m) = []. Proof. reflexivity. Qed.
Lemma pending_restart now m : n_pending (restart_after_crash now m) = [].
Proof. unfold restart_after_crash. rewrite pending_api_start. reflexivity. Qed.

(* ---- the apply loop: the registration of the applied index is removed ---- *)
Lemma lookup_remove_same {V} k (l : list (N * V)) : lookup k (remove_key k l) = None.
Proof.
  induction l as [|[k' v'] l IH]; cbn [remove_key lookup]; [reflexivity|].
  destruct (k =? k') eqn:E; [exact IH|]. cbn [lookup]. rewrite E. exact IH.
Qed.
Lemma lookup_remove_sub {V} i k (l : list (N * V)) v : lookup i (remove_key k l) = Some v -> lookup i l = Some v.
Proof.
  induction l as [|[k' v'] l IH]; cbn [remove_key lookup]; [discriminate|].
  destruct (k =? k') eqn:E.
  - intros H. destruct (i =? k') eqn:E2; [|apply IH, H].
    apply N.eqb_eq in E. apply N.eqb_eq in E2. subst. rewrite lookup_remove_same in H. discriminate.
  - cbn [lookup]. destruct (i =? k'); [auto|apply IH].
Qed.

Lemma P_remove m k : P m (m <| n_pending ::= remove_key k |>).
Proof.
  intros idx fid H. change (lookup idx (remove_key k (n_pending m)) = Some fid) in H.
  split; [eapply lookup_remove_sub; exact H|]. split; [intros F; exact F|]. intros R. split; [exact R|apply ext_refl].
Qed.

Lemma P_lp_apply_one now n : P n (lp_apply_one now n).
Proof.
  unfold lp_apply_one. destruct (log_get (n_log n) (n_applied n + 1)) as [e|]; [|apply P_fail].
  cbv zeta.
  set (n1 := match e_kind e with KNoop => n | _ => _ end).
  assert (H1 : P n n1).
  { subst n1. destruct (e_kind e) as [|p|c].
    - apply P_refl.
    - set (m := n <| n_fsm := n_fsm n ++ [p] |> <| n_applies ::= fun l => l ++ [(e_index e, e_term e, p)] |>).
      assert (Hm : P n m) by ptv. clearbody m.
      destruct (lookup (e_index e) (n_pending m)) as [fid|]; [|exact Hm].
      eapply P_trans; [exact Hm|]. eapply P_trans; [|apply P_respond]. apply P_remove.
    - pose proof (P_apply_configuration now n c) as HA.
      set (a := apply_configuration now n c) in *. clearbody a.
      destruct (n_cfg_fid a) as [f|]; [|exact HA].
      eapply P_trans; [exact HA|]. apply P_trans with (respond a f (FConf (conf_of a))); [apply P_respond|ptv]. }
  clearbody n1. eapply P_trans; [exact H1|].
  set (n2 := n1 <| n_applied ::= N.succ |>). assert (H2 : P n1 n2) by ptv. clearbody n2.
  eapply P_trans; [exact H2|]. destruct (need_snapshot n2); [apply P_signal_snapshot|apply P_refl].
Qed.

Lemma P_lp_apply_run now fuel : forall n, P n (lp_apply_run fuel now n).
Proof.
  induction fuel as [|f IH]; intros n; cbn [lp_apply_run]; [apply P_refl|].
  match goal with |- P n (if ?c then _ else _) => destruct c end; [|apply P_refl].
  eapply P_trans; [apply P_lp_apply_one|apply IH].
Qed.

Lemma P_lp_apply now n : P n (lp_apply now n).
Proof.
  unfold lp_apply. set (n0 := n <| n_cv ::= _ |>).
  assert (H0 : P n n0) by ptv. clearbody n0.
  eapply P_trans; [exact H0|].
  pose proof (P_lp_apply_run now (N.to_nat (n_commit n0 - n_applied n0)) n0) as H1.
  set (n1 := lp_apply_run _ now n0) in *. clearbody n1.
  eapply P_trans; [exact H1|].
  destruct (role_eqb (n_role n1) Leader); [apply P_signal_ro|apply P_refl].
Qed.

(* ================= the invariant of a node, relative to the submissions so far ================= *)
(* B: every success answer carries the payload submitted under its future id.
   A: every registration (idx, fid) is held by a leader, fid was submitted with some payload p, and - unless
      the node froze at a refused storage write - the entry at idx of its log is the operation p *)
Definition B (sb : list (N * N)) (n : node) : Prop :=
  forall fid i t p r, In (fid, FOp i t p r) (n_results n) -> In (fid, p) sb.
Definition A (sb : list (N * N)) (n : node) : Prop :=
  forall idx fid, lookup idx (n_pending n) = Some fid ->
    n_role n = Leader /\
    exists p, In (fid, p) sb /\
              (n_frozen n = false -> exists e, log_get (n_log n) idx = Some e /\ e_kind e = KOp p).

Lemma log_get_ext l l' i e : ext l l' -> log_get l i = Some e -> log_get l' i = Some e.
Proof.
  intros (es & ->). unfold log_get, log_contains.
  assert (Hf : l <> [] -> first_index (l ++ es) = first_index l) by (destruct l; [congruence|reflexivity]).
  destruct (negb ((i - first_index l <=? 0) || (N.of_nat (length l) <=? i - first_index l))) eqn:E; [|discriminate].
  intros Hn. assert (Hne : l <> []) by (intros ->; destruct (N.to_nat _); discriminate Hn).
  rewrite (Hf Hne). apply Bool.negb_true_iff in E. apply Bool.orb_false_iff in E. destruct E as [E1 E2].
  apply N.leb_gt in E1. apply N.leb_gt in E2.
  assert (E' : negb ((i - first_index l <=? 0) || (N.of_nat (length (l ++ es)) <=? i - first_index l)) = true).
  { apply Bool.negb_true_iff. apply Bool.orb_false_iff. split; apply N.leb_gt; [exact E1|]. rewrite app_length. lia. }
  rewrite E'. rewrite nth_error_app1; [exact Hn|]. lia.
Qed.

Lemma log_get_snoc l e : (exists r, l = entry0 :: r) -> wf_log l -> log_get (l ++ [e]) (next_index l) = Some e.
Proof.
  intros (r & Er) W. unfold next_index. rewrite (last_index_consecutive l W). subst l.
  unfold log_get, log_contains. change (first_index ((entry0 :: r) ++ [e])) with 0. change (first_index (entry0 :: r)) with 0.
  rewrite app_length. set (L := length (entry0 :: r)). assert (HL : (1 <= L)%nat) by (subst L; cbn [length]; lia).
  cbn [length].
  replace (0 + N.of_nat L - 1 + 1 - 0) with (N.of_nat L) by lia.
  assert (E : negb ((N.of_nat L <=? 0) || (N.of_nat (L + 1) <=? N.of_nat L)) = true).
  { apply Bool.negb_true_iff. apply Bool.orb_false_iff. split; apply N.leb_gt; lia. }
  rewrite E. rewrite Nnat.Nat2N.id. rewrite nth_error_app2 by (subst L; lia). subst L. rewrite Nat.sub_diag. reflexivity.
Qed.

Lemma A_P sb n n' : P n n' -> A sb n -> A sb n'.
Proof.
  intros HP HA idx fid H. destruct (HP idx fid H) as (L & F & R). destruct (HA idx fid L) as (Rl & p & Hin & He).
  destruct (R Rl) as [Rl' X]. split; [exact Rl'|]. exists p. split; [exact Hin|]. intros Fz.
  destruct (He (F Fz)) as (e & Ge & Ke). exists e. split; [eapply log_get_ext; eassumption|exact Ke].
Qed.
Lemma A_empty sb n : n_pending n = [] -> A sb n.
Proof. intros E idx fid H. rewrite E in H. discriminate H. Qed.
Lemma B_RF sb n n' : RF n n' -> B sb n -> B sb n'.
Proof. intros HR HB fid i t p r H. eapply HB. apply HR. exact H. Qed.
Lemma A_mono sb sb' n : incl sb sb' -> A sb n -> A sb' n.
Proof.
  intros Hi HA idx fid H. destruct (HA idx fid H) as (Rl & p & Hin & He). split; [exact Rl|]. exists p. split; [apply Hi, Hin|exact He].
Qed.
Lemma B_mono sb sb' n : incl sb sb' -> B sb n -> B sb' n.
Proof. intros Hi HB fid i t p r H. apply Hi. eapply HB. exact H. Qed.

Lemma respond_new n fid r y :
  In y (n_results (respond n fid r)) -> In y (n_results n) \/ (y = (fid, r) /\ n_frozen n = false).
Proof.
  unfold respond. destruct (n_frozen n) eqn:F; [auto|]. destruct (existsb _ _); [auto|].
  intros H. change (In y (n_results n ++ [(fid, r)])) in H. apply in_app_or in H. destruct H as [H|[H|[]]]; auto.
Qed.

(* the apply loop answers the future registered for the applied index with the payload of the applied entry *)
Lemma B_apply_one sb now n : lwf n -> A sb n -> B sb n -> B sb (lp_apply_one now n).
Proof.
  intros Hwf HA HB. unfold lp_apply_one.
  destruct (log_get (n_log n) (n_applied n + 1)) as [e|] eqn:HL; [|eapply B_RF; [apply RF_fail|exact HB]].
  cbv zeta.
  set (n1 := match e_kind e with KNoop => n | _ => _ end).
  assert (H1 : B sb n1).
  { subst n1. destruct (e_kind e) as [|p|c] eqn:HK.
    - exact HB.
    - set (m := n <| n_fsm := n_fsm n ++ [p] |> <| n_applies ::= fun l => l ++ [(e_index e, e_term e, p)] |>).
      assert (Hm : n_results m = n_results n /\ n_pending m = n_pending n /\ n_frozen m = n_frozen n) by (repeat split; reflexivity).
      clearbody m. destruct Hm as (RM & PM & FM). rewrite PM.
      destruct (lookup (e_index e) (n_pending n)) as [fid|] eqn:EL.
      + intros f i t p0 r Hin. apply respond_new in Hin. destruct Hin as [Hin|[Hin Fz]].
        * change (In (f, FOp i t p0 r) (n_results m)) in Hin. rewrite RM in Hin. eapply HB; exact Hin.
        * injection Hin as E1 E2 E3 E4 E5. subst f p0.
          change (n_frozen m = false) in Fz. rewrite FM in Fz.
          destruct (HA _ _ EL) as (_ & p' & Hp' & He). destruct (He Fz) as (e' & Ge & Ke).
          rewrite (Hwf _ _ HL) in Ge. rewrite HL in Ge. injection Ge as <-. rewrite HK in Ke. injection Ke as <-. exact Hp'.
      + intros f i t p0 r Hin. rewrite RM in Hin. eapply HB; exact Hin.
    - pose proof (RF_apply_configuration now n c) as HAc.
      set (a := apply_configuration now n c) in *. clearbody a.
      destruct (n_cfg_fid a) as [f|]; [|eapply B_RF; eassumption].
      eapply B_RF; [|exact HB]. eapply RF_trans; [exact HAc|].
      apply RF_trans with (respond a f (FConf (conf_of a))); [apply RF_respond; nf|rtv]. }
  clearbody n1. set (n2 := n1 <| n_applied ::= N.succ |>).
  assert (R2 : n_results n2 = n_results n1) by reflexivity. clearbody n2.
  intros f i t p r Hin. apply (H1 f i t p r). rewrite <- R2. destruct (need_snapshot n2); exact Hin.
Qed.

Lemma B_apply_run sb now fuel : forall n, lwf n -> A sb n -> B sb n -> B sb (lp_apply_run fuel now n).
Proof.
  induction fuel as [|f IH]; intros n W HA HB; cbn [lp_apply_run]; [exact HB|].
  match goal with |- B sb (if ?c then _ else _) => destruct c end; [|exact HB].
  apply IH.
  - pose proof (SL_lp_apply_one now n) as HS. unfold SL in HS. unfold lwf. rewrite HS. exact W.
  - eapply A_P; [apply P_lp_apply_one|exact HA].
  - apply B_apply_one; assumption.
Qed.

Lemma B_lp_apply sb now n : lwf n -> A sb n -> B sb n -> B sb (lp_apply now n).
Proof.
  intros W HA HB. unfold lp_apply. set (n0 := n <| n_cv ::= _ |>).
  assert (W0 : lwf n0) by exact W. assert (A0 : A sb n0) by exact HA. assert (B0 : B sb n0) by exact HB. clearbody n0.
  pose proof (B_apply_run sb now (N.to_nat (n_commit n0 - n_applied n0)) n0 W0 A0 B0) as H1.
  set (n1 := lp_apply_run _ now n0) in *. clearbody n1.
  destruct (role_eqb (n_role n1) Leader); exact H1.
Qed.

(* Submit of a replicated operation on the leader: the future is registered at the index of the appended entry *)
Lemma A_put sb (x : node) idx fid :
  (forall i f, lookup i (put idx fid (n_pending x)) = Some f ->
     n_role x = Leader /\ exists p, In (f, p) sb /\
       (n_frozen x = false -> exists e, log_get (n_log x) i = Some e /\ e_kind e = KOp p)) ->
  A sb (x <| n_pending ::= put idx fid |>).
Proof. intros H i f HL. exact (H i f HL). Qed.

Lemma tick_prl n : n_pending (snd (tick_write n)) = n_pending n /\ n_role (snd (tick_write n)) = n_role n /\
                   n_log (snd (tick_write n)) = n_log n.
Proof.
  unfold tick_write. destruct (n_frozen n); [auto|]. destruct (n_budget n) as [k|]; [|auto]. destruct (k =? 0); cbn [snd]; auto.
Qed.

Lemma A_submit sb now n fid p : (exists r, n_log n = entry0 :: r) -> wf_log (n_log n) -> A sb n ->
  A (sb ++ [(fid, p)]) (api_submit now n fid OReplicated p).
Proof.
  intros Hr W HA.
  assert (HA' : A (sb ++ [(fid, p)]) n) by (eapply A_mono; [|exact HA]; apply incl_appl, incl_refl).
  unfold api_submit. destruct (negb (role_eqb (n_role n) Leader)) eqn:ER; [eapply A_P; [apply P_respond|exact HA']|].
  apply Bool.negb_false_iff in ER. apply role_eqb_true in ER.
  cbv zeta. eapply A_P; [apply P_send_ae_to_peers|].
  set (e := {| e_index := next_index (n_log n); e_term := n_term n; e_kind := KOp p |}).
  cbn [append_entries].
  pose proof (tick_prl n) as TP. pose proof (Votes.tick_false_frozen n) as TF. pose proof (Votes.tick_true_unfrozen n) as TT.
  destruct (tick_write n) as [ok n1]. cbn [fst snd] in TP, TF, TT. destruct TP as (Pp & Pr & Pl).
  destruct ok.
  - destruct (TT eq_refl) as [F0 F1].
    set (x := n1 <| n_log ::= fun l => l ++ [e] |>).
    assert (X : n_pending x = n_pending n /\ n_role x = n_role n /\ n_log x = n_log n ++ [e]).
    { subst x. split; [exact Pp|]. split; [exact Pr|]. change (n_log n1 ++ [e] = n_log n ++ [e]). rewrite Pl. reflexivity. }
    clearbody x. destruct X as (Xp & Xr & Xl).
    apply A_put. intros i f HLk. rewrite Xp in HLk. split; [rewrite Xr; exact ER|].
    destruct (N.eq_dec i (next_index (n_log n))) as [->|Ne].
    + rewrite lookup_put_same in HLk. injection HLk as <-. exists p. split; [apply in_or_app; right; left; reflexivity|].
      intros _. exists e. split; [rewrite Xl; apply log_get_snoc; assumption|reflexivity].
    + rewrite (lookup_put_other _ _ _ _ Ne) in HLk. destruct (HA' i f HLk) as (_ & p' & Hin & He).
      exists p'. split; [exact Hin|]. intros _. destruct (He F0) as (e' & Ge & Ke). exists e'. split; [|exact Ke].
      rewrite Xl. apply (log_get_ext (n_log n)); [exists [e]; reflexivity|exact Ge].
  - specialize (TF eq_refl).
    apply A_put. intros i f HLk. rewrite Pp in HLk. split; [rewrite Pr; exact ER|].
    destruct (N.eq_dec i (next_index (n_log n))) as [->|Ne].
    + rewrite lookup_put_same in HLk. injection HLk as <-. exists p. split; [apply in_or_app; right; left; reflexivity|].
      intros Fz. congruence.
    + rewrite (lookup_put_other _ _ _ _ Ne) in HLk. destruct (HA' i f HLk) as (_ & p' & Hin & He).
      exists p'. split; [exact Hin|]. intros Fz. congruence.
Qed.

(* ================= world level ================= *)
Definition PR (n n' : node) : Prop := P n n' /\ RF n n'.
Lemma PR_refl m : PR m m. Proof. split; [apply P_refl|apply RF_refl]. Qed.
Lemma PR_trans a b c : PR a b -> PR b c -> PR a c.
Proof. intros [A1 A2] [B1 B2]. split; [eapply P_trans; eassumption|eapply RF_trans; eassumption]. Qed.
Lemma PR_cond (b : bool) m m' : PR m m' -> PR m (if b then m' else m).
Proof. intros H. destruct b; [exact H|apply PR_refl]. Qed.

Definition PRW (w : world) (ns' : list node) : Prop :=
  forall n', In n' ns' -> exists n, In n (w_nodes w) /\ PR n n'.

Lemma PRW_same w : PRW w (w_nodes w).
Proof. intros n' Hn'. exists n'. split; [exact Hn'|apply PR_refl]. Qed.

Lemma PRW_set_node w w1 m m' : w_nodes w1 = w_nodes w -> In m (w_nodes w) -> PR m m' -> PRW w (w_nodes (set_node w1 m')).
Proof.
  intros E Hm HT n' Hn'. destruct (in_set_node _ _ _ Hn') as [->|[H _]]; [exists m; auto|].
  rewrite E in H. exists n'. split; [exact H|apply PR_refl].
Qed.

Lemma PRW_on_node w w1 id f : w_nodes w1 = w_nodes w ->
  (forall m, In m (w_nodes w) -> PR m (f m)) -> PRW w (w_nodes (on_node w1 id f)).
Proof.
  intros E Hf. unfold on_node. destruct (get_node w1 id) as [m|] eqn:Gn; [|rewrite E; apply PRW_same].
  destruct (Votes.get_node_in _ _ _ Gn) as [Hm _]. rewrite E in Hm.
  apply PRW_set_node with (m := m); [exact E|exact Hm|apply Hf, Hm].
Qed.

Ltac psame := match goal with |- PRW ?w _ => exact (PRW_same w) end.

Definition IW (sb : list (N * N)) (w : world) : Prop := forall n, In n (w_nodes w) -> A sb n /\ B sb n.

Lemma IW_keep sb w ns' : IW sb w -> PRW w ns' -> forall n', In n' ns' -> A sb n' /\ B sb n'.
Proof.
  intros HI HP n' Hn'. destruct (HP n' Hn') as (n & Hn & HPn & HRn). destruct (HI n Hn) as [HA HB].
  split; [eapply A_P; eassumption|eapply B_RF; eassumption].
Qed.

Lemma IW_on_node sb sb' w w1 id f : w_nodes w1 = w_nodes w -> IW sb w -> incl sb sb' ->
  (forall m, In m (w_nodes w) -> A sb m -> B sb m -> A sb' (f m) /\ B sb' (f m)) -> IW sb' (on_node w1 id f).
Proof.
  intros E HI Hinc Hf.
  assert (Hold : forall n, In n (w_nodes w) -> A sb' n /\ B sb' n).
  { intros n Hn. destruct (HI n Hn) as [HA HB]. split; [eapply A_mono; eassumption|eapply B_mono; eassumption]. }
  intros n' Hn'. unfold on_node in Hn'. destruct (get_node w1 id) as [m|] eqn:Gn.
  - destruct (in_set_node _ _ _ Hn') as [->|[H _]].
    + destruct (Votes.get_node_in _ _ _ Gn) as [Hm _]. rewrite E in Hm. destruct (HI m Hm) as [HA HB]. apply Hf; assumption.
    + rewrite E in H. apply Hold, H.
  - rewrite E in Hn'. apply Hold, Hn'.
Qed.

(* the submission made by one label: Submit of a replicated operation allocates the next future id *)
Definition subl (w : world) (l : label) : list (N * N) :=
  match l with LSubmit _ OReplicated p => [(w_next_fid w, p)] | _ => [] end.
Fixpoint subs (w : world) (ls : list label) : list (N * N) :=
  match ls with [] => [] | l :: r => subl w l ++ subs (step w l) r end.

Section Steps.
Variable C : config.
Hypothesis HCnd : NoDup (member_ids C).

Lemma PRW_step_deliver w c dup : ALL C w -> In c (w_calls w) -> PRW w (w_nodes (step_deliver w c dup)).
Proof.
  intros [HW HX HU HNS HTA HL] Hc. pose proof (x_v C w HX) as HV.
  unfold step_deliver. destruct (get_node w (c_dst c)) as [n|] eqn:Gn.
  2:{ destruct dup; psame. }
  destruct (Votes.get_node_in _ _ _ Gn) as [Hn Eid].
  destruct (n_frozen n) eqn:Fz; [destruct dup; psame|].
  assert (H1 : PRW w (w_nodes (set_node w (fst (fst (run_handler (w_now w) n (c_req c))))))).
  { pose proof (ns_calls w HNS c Hc) as Hq. unfold ns_call in Hq.
    destruct (c_req c) as [q|q|q] eqn:Eq; [| |contradiction].
    - unfold run_handler. destruct (h_append_entries (w_now w) n q) as [n1 p] eqn:EH. cbn [fst].
      replace n1 with (fst (h_append_entries (w_now w) n q)) by (rewrite EH; reflexivity).
      apply PRW_set_node with (m := n); [reflexivity|exact Hn|]. split; [|apply RF_h_append_entries].
      apply P_h_append_entries. intros Hrole Et.
      (* a leader never receives a request of its own term: the sender leads that term too *)
      destruct (lm_ae C w HL c q Hc Eq) as [Hlk Hne]. apply Hne. rewrite <- Eid.
      apply (lead_unique C w (n_id n) (c_src c) (n_term n) n n HX Hn Hn); [|rewrite <- Et; exact Hlk].
      assert (Hact : active (n_role n)) by (rewrite Hrole; unfold active; auto).
      destruct (x_l0 C w HX n Hn Hact) as [_ Hv]. split; [exact Hv|]. intros Hm. apply (x_l C w HX n Hn Hrole Hm).
    - unfold run_handler. destruct (h_request_vote (w_now w) n q) as [n1 p] eqn:EH. cbn [fst].
      replace n1 with (fst (h_request_vote (w_now w) n q)) by (rewrite EH; reflexivity).
      apply PRW_set_node with (m := n); [reflexivity|exact Hn|]. split; [apply P_h_request_vote|apply RF_h_request_vote]. }
  destruct (run_handler (w_now w) n (c_req c)) as [[n1 resp] parked]. cbn [fst] in H1.
  destruct dup; [exact H1|].
  destruct (n_frozen n1); [exact H1|].
  destruct resp as [p|]; exact H1.
Qed.

Lemma PRW_step_reply w c failed : NSW w -> In c (w_calls w) -> PRW w (w_nodes (step_reply w c failed)).
Proof.
  intros HNS Hc. unfold step_reply.
  set (w0 := set_call w (c <| c_state := CDone |>)).
  assert (E0 : w_nodes w0 = w_nodes w) by reflexivity.
  assert (H0 : PRW w (w_nodes w0)) by (rewrite E0; psame).
  destruct (get_node w (c_src c)) as [n|] eqn:Gn; [|exact H0].
  destruct (Votes.get_node_in _ _ _ Gn) as [Hn Eid].
  destruct (n_frozen n) eqn:Fz; [exact H0|].
  pose proof (ns_calls w HNS c Hc) as Hq. unfold ns_call in Hq.
  destruct (c_req c) as [q|q|q] eqn:Eq; [| |contradiction].
  - destruct (if failed then None else c_resp c) as [[p|p|p]|]; try exact H0.
    pose proof (P_l_ae_reply (w_now w) n (c_round c) (c_dst c) (c_fgen c) q p) as HP.
    pose proof (RF_l_ae_reply (w_now w) n (c_round c) (c_dst c) (c_fgen c) q p) as HF.
    destruct (l_ae_reply (w_now w) n (c_round c) (c_dst c) (c_fgen c) q p) as [n1 o]. cbn [fst snd] in *.
    assert (H1 : PRW w (w_nodes (set_node w0 n1))).
    { apply PRW_set_node with (m := n); [exact E0|exact Hn|split; assumption]. }
    destruct o; exact H1.
  - destruct (if failed then None else c_resp c) as [[p|p|p]|]; try exact H0.
    apply PRW_set_node with (m := n); [exact E0|exact Hn|]. split; [apply P_l_rv_reply|apply RF_l_rv_reply].
Qed.

Lemma PRW_step_task w m : In m (w_nodes w) -> PRW w (w_nodes (step_task w m)).
Proof.
  intros Hm. unfold step_task. destruct (n_tasks m) as [|t rest] eqn:Et; [psame|].
  set (n0 := m <| n_tasks := rest |>).
  assert (F0 : PR m n0) by (split; [ptv|rtv]).
  assert (Hsec : forall m', PR m m' -> PRW w (w_nodes (set_node w m'))).
  { intros m' HF. apply PRW_set_node with (m := m); auto. }
  destruct t as [rid peer pv|rid peer].
  - destruct (l_rv_send n0 rid peer pv) as [q|]; apply (Hsec n0 F0).
  - pose proof (P_l_ae_send n0 peer) as HP. pose proof (RF_l_ae_send n0 peer) as HF.
    destruct (l_ae_send n0 peer) as [n1 sn]. cbn [fst] in *.
    assert (H1 : PRW w (w_nodes (set_node w n1))).
    { apply Hsec. apply PR_trans with n0; [exact F0|split; assumption]. }
    destruct sn as [|q|q]; exact H1.
Qed.

Theorem step_IW sb w l : static_label l = true -> nosnap_label l = true -> ALL C w -> IW sb w ->
  IW (sb ++ subl w l) (step w l).
Proof.
  intros Hst Hns HA HI. pose proof HA as [HW HX HU HNS HTA HL]. pose proof (x_v C w HX) as HV.
  assert (Hkeep : forall w', subl w l = [] -> PRW w (w_nodes w') -> IW (sb ++ subl w l) w').
  { intros w' E HP. rewrite E, app_nil_r. intros n' Hn'. apply (IW_keep sb w (w_nodes w') HI HP n' Hn'). }
  destruct l; cbn [step]; try discriminate Hst; try discriminate Hns.
  - (* LTick *) apply Hkeep; [reflexivity|]. psame.
  - (* LElection *) apply Hkeep; [reflexivity|]. apply PRW_on_node; [reflexivity|]. intros m _. apply PR_cond.
    split; [apply P_signal_election|apply RF_signal_election].
  - (* LHeartbeat *) apply Hkeep; [reflexivity|]. apply PRW_on_node; [reflexivity|]. intros m _. apply PR_cond.
    split; [apply P_l_heartbeat|apply RF_l_heartbeat].
  - (* LDeliver *) apply Hkeep; [reflexivity|].
    destruct (get_call w c) as [cl|] eqn:Gn; [|psame]. destruct (VoteRecords.get_call_in _ _ _ Gn) as [Hin _].
    destruct (c_state cl) eqn:Es; try psame. apply PRW_step_deliver; auto.
  - (* LDup *) apply Hkeep; [reflexivity|].
    destruct (get_call w c) as [cl|] eqn:Gn; [|psame]. destruct (VoteRecords.get_call_in _ _ _ Gn) as [Hin _].
    apply PRW_step_deliver; auto.
  - (* LReply *) apply Hkeep; [reflexivity|].
    destruct (get_call w c) as [cl|] eqn:Gn; [|psame]. destruct (VoteRecords.get_call_in _ _ _ Gn) as [Hin _].
    destruct (c_state cl) eqn:Es; try psame. apply PRW_step_reply; auto.
  - (* LFail *) apply Hkeep; [reflexivity|].
    destruct (get_call w c) as [cl|] eqn:Gn; [|psame]. destruct (VoteRecords.get_call_in _ _ _ Gn) as [Hin _].
    destruct (c_state cl) eqn:Es; try psame; apply PRW_step_reply; auto.
  - (* LSubmit: the one step that registers a future *) unfold fresh_fid.
    apply IW_on_node with (sb := sb) (w := w); [reflexivity|exact HI|apply incl_appl, incl_refl|].
    intros m Hm HAm HBm.
    assert (Hinc : incl sb (sb ++ subl w (LSubmit n ty payload))) by apply incl_appl, incl_refl.
    destruct (n_frozen m); [split; [eapply A_mono; eassumption|eapply B_mono; eassumption]|].
    split; [|eapply B_mono; [exact Hinc|]; eapply B_RF; [apply RF_api_submit|exact HBm]].
    destruct ty.
    + cbn [subl]. destruct (ns_nodes w HNS m Hm) as (_ & _ & _ & _ & _ & (r & Er)).
      apply A_submit; [exists r; exact Er| |exact HAm].
      assert (Hsn : is_seg w (seg_of_log (n_log m))) by (left; exists m; auto).
      pose proof (lm_wf C w HL _ Hsn) as Hwfn. rewrite Er in Hwfn. rewrite Er. apply wf_log_seg, Hwfn.
    + eapply A_mono; [exact Hinc|]. eapply A_P; [|exact HAm]. apply P_api_submit_other. left. discriminate.
    + eapply A_mono; [exact Hinc|]. eapply A_P; [|exact HAm]. apply P_api_submit_other. left. discriminate.
  - (* LCrash *) apply Hkeep; [reflexivity|]. change (PRW w (w_nodes (on_node w n crash))).
    apply PRW_on_node; [reflexivity|]. intros m _. split; [apply P_empty, pending_crash|apply RE_RF, RE_crash].
  - (* LRestart *) apply Hkeep; [reflexivity|]. apply PRW_on_node; [reflexivity|]. intros m _.
    destruct (role_eqb (n_role m) Shutdown); [|apply PR_refl].
    split; [apply P_empty, pending_restart|apply RF_restart].
  - (* LBudget *) apply Hkeep; [reflexivity|]. apply PRW_on_node; [reflexivity|]. intros m _. split; [apply P_upd_budget|apply RF_upd_budget].
  - (* LPad *) apply Hkeep; [reflexivity|]. apply PRW_on_node; [reflexivity|]. intros m _. split; [apply P_upd_pad|apply RF_upd_pad].
  - (* LDefer *) apply Hkeep; [reflexivity|]. apply PRW_on_node; [reflexivity|]. intros m _. split; [apply P_upd_tasks|apply RF_upd_tasks].
  - (* LRoMissed *) apply Hkeep; [reflexivity|]. apply PRW_on_node; [reflexivity|]. intros m _. split; [apply P_upd_cv|apply RF_upd_cv].
  - (* LTask *) apply Hkeep; [reflexivity|].
    destruct (get_node w n) as [m|] eqn:Gn; [|psame]. destruct (is_up m) eqn:Hup; [|psame].
    destruct (Votes.get_node_in _ _ _ Gn) as [Hm _]. apply PRW_step_task; auto.
  - (* LElectionRun *) apply Hkeep; [reflexivity|]. apply PRW_on_node; [reflexivity|]. intros m _. apply PR_cond.
    split; [apply P_l_election|apply RF_l_election].
  - (* LCommit *) apply Hkeep; [reflexivity|]. apply PRW_on_node; [reflexivity|]. intros m _. apply PR_cond.
    split; [apply P_lp_commit|apply RF_lp_commit].
  - (* LApply: the only step that answers FOp *) cbn [subl]. rewrite app_nil_r.
    apply IW_on_node with (sb := sb) (w := w); [reflexivity|exact HI|apply incl_refl|].
    intros m Hm HAm HBm. destruct (is_up m && cv_apply (n_cv m)); [|split; assumption].
    destruct (node_log_positional C w m HA Hm) as [_ Hwf].
    split; [eapply A_P; [apply P_lp_apply|exact HAm]|apply B_lp_apply; assumption].
  - (* LRo *) apply Hkeep; [reflexivity|]. apply PRW_on_node; [reflexivity|]. intros m _. apply PR_cond.
    split; [apply P_lp_ro|apply RF_lp_ro].
  - (* LInstallResume *) apply Hkeep; [reflexivity|]. destruct (get_node w n) as [m|] eqn:Gn; [|psame].
    destruct (Votes.get_node_in _ _ _ Gn) as [Hm _]. rewrite (install_resume_ns m (ns_nodes w HNS m Hm)). psame.
Qed.

Lemma IW_run : forall ls w sb, static ls = true -> nosnap ls = true -> ALL C w -> IW sb w ->
  IW (sb ++ subs w ls) (run w ls).
Proof.
  induction ls as [|l ls IH]; intros w sb Hs Hn HA HI.
  - cbn [subs run fold_left]. rewrite app_nil_r. exact HI.
  - destruct (static_cons _ _ Hs) as [S1 S2]. destruct (nosnap_cons _ _ Hn) as [N1 N2].
    cbn [subs]. rewrite app_assoc. cbn [run fold_left]. apply IH; [exact S2|exact N2| |].
    + assert (Hs' : static [l] = true) by (destruct l; cbn [static] in Hs |- *; try discriminate Hs; reflexivity).
      assert (Hn' : nosnap [l] = true) by (destruct l; cbn [nosnap] in Hn |- *; try discriminate Hn; reflexivity).
      exact (ALL_run C [l] HCnd w Hs' Hn' HA).
    + apply step_IW; assumption.
Qed.

End Steps.

(* ================= the theorems ================= *)
Lemma init_pending ids boot et ld n : In n (w_nodes (init_world ids boot et ld)) -> n_pending n = [].
Proof.
  unfold init_world. cbn [w_nodes]. intros Hin. apply in_map_iff in Hin. destruct Hin as (id & <- & _).
  rewrite pending_api_start. reflexivity.
Qed.

(* a success answer carries the payload that was submitted under its future id *)
Theorem answered_bytes_are_submitted ids boot et ld ls : static ls = true -> nosnap ls = true ->
  forall n fid i t p r, In n (w_nodes (run (init_world ids boot et ld) ls)) ->
    In (fid, FOp i t p r) (n_results n) ->
    In (fid, p) (subs (init_world ids boot et ld) ls).
Proof.
  intros Hs Hn n fid i t p r Hin Hres.
  assert (H0 : IW [] (init_world ids boot et ld)).
  { intros m Hm. split; [apply A_empty, (init_pending ids boot et ld m Hm)|].
    intros f i0 t0 p0 r0 H. rewrite (init_results ids boot et ld m Hm) in H. destruct H. }
  pose proof (IW_run (bootconf boot) (bootconf_nodup boot) ls _ [] Hs Hn (ALL_init ids boot et ld) H0) as H.
  destruct (H n Hin) as [_ HB]. exact (HB fid i t p r Hres).
Qed.

(* ---- the future ids of the submission record are pairwise distinct (any world, any labels) ---- *)
Lemma fid_on_node w id f : w_next_fid (on_node w id f) = w_next_fid w.
Proof. unfold on_node. destruct (get_node w id); reflexivity. Qed.

Lemma fid_step_deliver w c dup : w_next_fid (step_deliver w c dup) = w_next_fid w.
Proof.
  unfold step_deliver. destruct (get_node w (c_dst c)) as [n|]; [|destruct dup; reflexivity].
  destruct (n_frozen n); [destruct dup; reflexivity|].
  destruct (run_handler (w_now w) n (c_req c)) as [[n1 resp] parked].
  destruct dup; [reflexivity|]. destruct (n_frozen n1); [reflexivity|]. destruct resp; reflexivity.
Qed.

Lemma fid_step_reply w c failed : w_next_fid (step_reply w c failed) = w_next_fid w.
Proof.
  unfold step_reply. destruct (get_node w (c_src c)) as [n|]; [|reflexivity].
  destruct (n_frozen n); [reflexivity|].
  destruct (c_req c) as [q|q|q]; destruct (if failed then None else c_resp c) as [[p|p|p]|]; try reflexivity.
  destruct (l_ae_reply (w_now w) n (c_round c) (c_dst c) (c_fgen c) q p) as [n1 [isq|]]; reflexivity.
Qed.

Lemma fid_step_task w m : w_next_fid (step_task w m) = w_next_fid w.
Proof.
  unfold step_task. destruct (n_tasks m) as [|t rest]; [reflexivity|]. destruct t as [rid peer pv|rid peer].
  - destruct (l_rv_send _ rid peer pv); reflexivity.
  - destruct (l_ae_send _ peer) as [n1 [|q|q]]; reflexivity.
Qed.

Lemma fid_step w l :
  w_next_fid (step w l) =
  match l with LSubmit _ _ _ | LAddServer _ _ _ | LRemoveServer _ _ => N.succ (w_next_fid w) | _ => w_next_fid w end.
Proof.
  assert (Hs : forall w1 id f, w_next_fid w1 = N.succ (w_next_fid w) -> w_next_fid (on_node w1 id f) = N.succ (w_next_fid w))
    by (intros w1 id f E; rewrite fid_on_node; exact E).
  destruct l; cbn [step].
  - reflexivity.
  - apply fid_on_node.
  - apply fid_on_node.
  - destruct (get_call w c) as [cl|]; [|reflexivity]. destruct (c_state cl); try reflexivity. apply fid_step_deliver.
  - destruct (get_call w c) as [cl|]; [|reflexivity]. apply fid_step_deliver.
  - destruct (get_call w c) as [cl|]; [|reflexivity]. destruct (c_state cl); try reflexivity. apply fid_step_reply.
  - destruct (get_call w c) as [cl|]; [|reflexivity]. destruct (c_state cl); try reflexivity; apply fid_step_reply.
  - unfold fresh_fid. apply Hs. reflexivity.
  - unfold fresh_fid. apply Hs. reflexivity.
  - unfold fresh_fid. apply Hs. reflexivity.
  - apply fid_on_node.
  - change (w_next_fid (on_node w n crash) = w_next_fid w). apply fid_on_node.
  - apply fid_on_node.
  - apply fid_on_node.
  - apply fid_on_node.
  - apply fid_on_node.
  - apply fid_on_node.
  - destruct (get_node w n) as [m|]; [|reflexivity]. destruct (is_up m); [apply fid_step_task|reflexivity].
  - apply fid_on_node.
  - apply fid_on_node.
  - apply fid_on_node.
  - apply fid_on_node.
  - destruct (get_node w n) as [m|]; [|reflexivity]. destruct (lp_install_resume m) as [m1 [q|]]; [|reflexivity].
    match goal with |- context [find ?f ?l] => destruct (find f l) end; reflexivity.
Qed.

Lemma fid_step_le w l : w_next_fid w <= w_next_fid (step w l).
Proof. rewrite fid_step. destruct l; lia. Qed.

Lemma subs_ge : forall ls w x, In x (subs w ls) -> w_next_fid w <= fst x.
Proof.
  induction ls as [|l ls IH]; intros w x H; cbn [subs] in H; [destruct H|].
  apply in_app_or in H. destruct H as [H|H].
  - assert (Hd : subl w l = [] \/ exists p : N, subl w l = [(w_next_fid w, p)]).
    { destruct l; try (left; reflexivity). destruct ty; try (left; reflexivity). right. exists payload. reflexivity. }
    destruct Hd as [E|(p & E)]; rewrite E in H; [destruct H|]. destruct H as [<-|[]]. cbn [fst]. lia.
  - pose proof (IH _ _ H) as H1. pose proof (fid_step_le w l). lia.
Qed.

Theorem subs_fids_distinct : forall ls w, NoDup (map fst (subs w ls)).
Proof.
  induction ls as [|l ls IH]; intros w; cbn [subs]; [constructor|].
  assert (Hd : subl w l = [] \/ exists n p, l = LSubmit n OReplicated p).
  { destruct l; try (left; reflexivity). destruct ty; try (left; reflexivity). right. exists n, payload. reflexivity. }
  destruct Hd as [E|(n & p & ->)]; [rewrite E; apply IH|].
  cbn [subl app map fst]. constructor; [|apply IH].
  intros Hin. apply in_map_iff in Hin. destruct Hin as (x & Ex & Hx).
  pose proof (subs_ge _ _ _ Hx) as Hge. rewrite fid_step in Hge. lia.
Qed.

(* so the payload of a success answer is THE payload submitted under that future id *)
Corollary answered_bytes_unique ids boot et ld ls : static ls = true -> nosnap ls = true ->
  forall n fid i t p r, In n (w_nodes (run (init_world ids boot et ld) ls)) ->
    In (fid, FOp i t p r) (n_results n) ->
    forall p', In (fid, p') (subs (init_world ids boot et ld) ls) -> p' = p.
Proof.
  intros Hs Hn n fid i t p r Hin Hres p' Hp'.
  pose proof (answered_bytes_are_submitted ids boot et ld ls Hs Hn n fid i t p r Hin Hres) as Hp.
  pose proof (subs_fids_distinct ls (init_world ids boot et ld)) as Hnd.
  revert Hnd Hp Hp'. generalize (subs (init_world ids boot et ld) ls). intros sb.
  induction sb as [|[f q] sb IH]; intros Hnd Hp Hp'; [destruct Hp|].
  cbn [map fst] in Hnd. inversion Hnd as [|? ? Hnot Hnd']; subst.
  destruct Hp as [Hp|Hp]; destruct Hp' as [Hp'|Hp'].
  - congruence.
  - injection Hp as -> ->. exfalso. apply Hnot. apply in_map_iff. exists (fid, p'). auto.
  - injection Hp' as -> ->. exfalso. apply Hnot. apply in_map_iff. exists (fid, p). auto.
  - apply IH; assumption.
Qed.

(* non-vacuity: a one-node cluster elects itself, a submission (future 0, payload 42) is committed, applied and
   answered with the submitted payload; the schedule is static and snapshot-free *)
Definition ex_ls : list label :=
  [LTick 1000; LElection 0; LElectionRun 0; LCommit 0; LApply 0; LSubmit 0 OReplicated 42; LCommit 0; LApply 0].
Example ex_answered :
  static ex_ls = true /\ nosnap ex_ls = true /\
  map n_results (w_nodes (run (init_world [0] [0] 100 50) ex_ls)) = [[(0, FOp 3 1 42 1)]] /\
  subs (init_world [0] [0] 100 50) ex_ls = [(0, 42)].
Proof. vm_compute. repeat split. Qed.

Print Assumptions answered_bytes_are_submitted.
Print Assumptions subs_fids_distinct.
Print Assumptions answered_bytes_unique.
