(* Tails: three world invariants of executions without membership changes and without snapshots.
   1. the last entry of a working leader's log is of its term; so is the last position of every AppendEntries request;
   2. a request never reaches beyond the log of its sender while the sender's persistent term is the request's term;
   3. a candidate's log still has, at the advertised last index, the advertised last term, as long as its persistent
      term is the term of the (real) RequestVote request and nobody else has sent AppendEntries in that term. *)
From RaftV Require Import Cluster.World Cluster.Statements Proofs.Frame Proofs.RVSpec Proofs.AESpec Proofs.AELog.
From RaftV Require Import Proofs.ConfNode Proofs.ConfStatic Proofs.ConfSticky.
From RaftV Require Import Proofs.Votes Proofs.VoteRecords Proofs.Names Proofs.ElectSpec.
From RaftV Require Import Proofs.ElectDefs Proofs.EFrame Proofs.RoleFrame Proofs.ElectBook Proofs.ElectNode Proofs.ElectSteps
                          Proofs.ElectWorld Proofs.ElectReply Proofs.ElectStep Proofs.ElectRun Proofs.ElectSafety.
From RaftV Require Import Proofs.LogDefs Proofs.LogSeg Proofs.LogUni Proofs.LogInv Proofs.LogAccept Proofs.LogSend Proofs.LogFrame
                          Proofs.NoSnap Proofs.TaePeer Proofs.LogWorld Proofs.LogRun Proofs.LogMatching Proofs.StepCases
                          Proofs.LeaderLog Proofs.LCDefs Proofs.Tails1 Proofs.Tails2.
Open Scope N_scope.

(* the three invariants; the second and the third are carried together with a bound: the persistent term of the
   sender of a request is at least the term of the request *)
Definition LN (w : world) : Prop :=
  (forall n, In n (w_nodes w) -> ln_node n) /\ (forall k, In k (w_calls w) -> rq_call k).
Definition ae_bound (w : world) : Prop :=
  forall k q a, In k (w_calls w) -> c_req k = ReqAE q -> In a (w_nodes w) -> n_id a = c_src k -> ae_term q <= n_pterm a.
Definition rv_bound (w : world) : Prop :=
  forall k r a, In k (w_calls w) -> c_req k = ReqRV r -> rv_prevote r = false -> In a (w_nodes w) -> n_id a = c_src k ->
    rv_term r <= n_pterm a.
Definition RT (w : world) : Prop := rt_ok w /\ ae_bound w.
Definition CD (w : world) : Prop := cand_ok w /\ rv_bound w.

Lemma top_extends l l' : extends l l' -> top (seg_of_log l) <= top (seg_of_log l').
Proof.
  intros (es & ->). unfold top, seg_of_log. cbn [sg_base sg_es]. destruct l as [|x l]; cbn [app tl].
  - cbn [length]. lia.
  - rewrite app_length. lia.
Qed.

(* a new request: its last position has the term of the sender, a working leader *)
Lemma rq_new m q :
  ns_node m -> wf_seg (seg_of_log (n_log m)) -> ln_node m -> n_role m = Leader -> n_frozen m = false ->
  ae_term q = n_term m ->
  (forall i e, eget (seg_of_req q) i = Some e -> eget (seg_of_log (n_log m)) i = Some e) ->
  tget (seg_of_log (n_log m)) (ae_prev_index q) = Some (ae_prev_term q) ->
  top (seg_of_req q) = top (seg_of_log (n_log m)) ->
  tget (seg_of_req q) (top (seg_of_req q)) = Some (ae_term q).
Proof.
  intros (_ & _ & _ & _ & _ & r & Er) Hwf Hln Hr Hf Ht Hsub Hprev Htop.
  assert (E : tget (seg_of_req q) (top (seg_of_req q)) = tget (seg_of_log (n_log m)) (top (seg_of_req q))).
  { destruct (N.eq_dec (top (seg_of_req q)) (sg_base (seg_of_req q))) as [Eb|Eb].
    - rewrite Eb, tget_base. symmetry. exact Hprev.
    - destruct (eget_defined (seg_of_req q) (top (seg_of_req q))) as (e & Ee); [unfold top in *; lia|lia|].
      rewrite (tget_entry _ _ _ Ee), (tget_entry _ _ _ (Hsub _ _ Ee)). reflexivity. }
  rewrite E, Htop, Ht, <- (Hln Hr Hf). rewrite Er in *. rewrite top_log. apply (log_tail r Hwf).
Qed.

Section Tails.
Variable C : config.
Hypothesis HCnd : NoDup (member_ids C).

(* ---------------- 1 ---------------- *)
Theorem step_LN w l : static_label l = true -> nosnap_label l = true -> ALL C w -> LN w -> LN (step w l).
Proof.
  intros Hst Hns HA [Hn Hk]. pose proof HA as [HW HX HU HNS HTA HL]. split.
  - intros n' Hn'. destruct (step_PN C w l Hst Hns HA n' Hn') as (n & Hin & H). apply H, Hn, Hin.
  - intros k' Hk'. destruct (step_NEW C w l Hst Hns HA k' Hk') as [(k & Hin & Ek)|(m & Hm & Hup & Es & Hreq)].
    + intros q Eq. apply key_fields in Ek. destruct Ek as (_ & _ & _ & _ & Er). apply (Hk k Hin). congruence.
    + intros q Eq. rewrite Eq in Hreq. destruct Hreq as (Hr & Ht & Hsub & Hprev & Htop).
      apply (rq_new m q); auto.
      * apply (ns_nodes w HNS m Hm).
      * apply (lm_wf C w HL). left. exists m. auto.
      * apply is_up_unfrozen, Hup.
Qed.

(* ---------------- 2 ---------------- *)
Theorem step_RT w l : static_label l = true -> nosnap_label l = true -> ALL C w -> RT w -> RT (step w l).
Proof.
  intros Hst Hns HA [Hrt Hb]. pose proof HA as [HW HX HU HNS HTA HL]. pose proof (x_v C w HX) as HV.
  assert (Hcommon : forall k' q a', In k' (w_calls (step w l)) -> c_req k' = ReqAE q -> In a' (w_nodes (step w l)) -> n_id a' = c_src k' ->
            exists a, In a (w_nodes w) /\ n_pterm a <= n_pterm a' /\ ae_term q <= n_pterm a /\
                      (n_pterm a = ae_term q -> n_pterm a' = ae_term q ->
                       extends (n_log a) (n_log a') /\ top (seg_of_req q) <= top (seg_of_log (n_log a)))).
  { intros k' q a' Hk' Eq Ha' Eid'.
    destruct (winner_step C HCnd w l a' (ae_term q) Hst Hns HA Ha') as (a & Ha & Eid & Hp & Hext).
    exists a. split; [exact Ha|]. split; [exact Hp|].
    destruct (step_NEW C w l Hst Hns HA k' Hk') as [(k & Hin & Ek)|(m & Hm & Hup & Es & Hreq)].
    - apply key_fields in Ek. destruct Ek as (_ & Esrc & _ & _ & Er). rewrite Eq in Er. symmetry in Er.
      assert (Ea : n_id a = c_src k) by congruence.
      split; [apply (Hb k q a Hin Er Ha Ea)|]. intros E1 E2. split.
      + apply Hext; [|exact E1|exact E2]. rewrite Ea. apply (lm_ae C w HL k q Hin Er).
      + apply (Hrt k q a Hin Er Ha Ea E1).
    - rewrite Eq in Hreq. destruct Hreq as (Hr & Ht & Hsub & Hprev & Htop).
      assert (a = m) by (apply HU; [exact Ha|exact Hm|congruence]). subst a.
      destruct (vi_coh w HV m Hm (is_up_unfrozen m Hup)) as [Ecoh _].
      split; [lia|]. intros E1 E2. split; [|rewrite Htop; lia].
      apply Hext; [|exact E1|exact E2]. rewrite Ht. apply lead_of_leader; assumption. }
  split.
  - intros k' q a' Hk' Eq Ha' Eid' Ep'. destruct (Hcommon k' q a' Hk' Eq Ha' Eid') as (a & Ha & Hp & Hle & H).
    destruct H as [Hext Htop]; [lia|exact Ep'|]. pose proof (top_extends _ _ Hext). lia.
  - intros k' q a' Hk' Eq Ha' Eid'. destruct (Hcommon k' q a' Hk' Eq Ha' Eid') as (a & Ha & Hp & Hle & _). lia.
Qed.

(* ---------------- 3 ---------------- *)
Lemma TR_pterm w w' L L' : ALL C w -> In L (w_nodes w) -> TR C w w' L L' -> n_pterm L <= n_pterm L'.
Proof.
  intros [HW HX HU HNS HTA HL] Hn HT. pose proof (vi_coh w (x_v C w HX) L Hn) as Hcoh.
  destruct HT as [->|HS _ _|k q Hk Eq Ed F ->].
  - lia.
  - destruct (HS Hcoh) as (_ & [Hp _] & _). exact Hp.
  - pose proof (R_append_entries (w_now w) L q Hcoh) as HR. apply (Votes.r_tv _ _ HR).
Qed.

(* the term at a position of the log of a node that stays in term T, while every AppendEntries request of term T is its own *)
Lemma tget_transfer w w' L L' T i t :
  ALL C w -> In L (w_nodes w) -> TR C w w' L L' -> n_pterm L = T -> n_pterm L' = T ->
  (forall k2 q2, In k2 (w_calls w) -> c_req k2 = ReqAE q2 -> ae_term q2 = T -> c_src k2 = n_id L) ->
  tget (seg_of_log (n_log L)) i = Some t -> tget (seg_of_log (n_log L')) i = Some t.
Proof.
  intros HA Hn HT Ep Ep' Hside Hg. pose proof HA as [HW HX HU HNS HTA HL].
  pose proof (vi_coh w (x_v C w HX) L Hn) as Hcoh.
  destruct (ns_nodes w HNS L Hn) as (Hlii & _ & _ & _ & _ & (r & Er)).
  destruct HT as [->|HS HLG _|k q Hk Eq Ed F ->].
  - exact Hg.
  - destruct HLG as [E|(e & E & _)]; [rewrite E; exact Hg|].
    rewrite E, Er. cbn [app]. rewrite tget_app_old; [rewrite <- Er; exact Hg|].
    rewrite Er in Hg. destruct (tget_some _ _ _ Hg) as (_ & Hle & _). rewrite top_log in Hle. exact Hle.
  - destruct (list_eq_dec entry_eq_dec (n_log (fst (h_append_entries (w_now w) L q))) (n_log L)) as [El|El]; [rewrite El; exact Hg|exfalso].
    destruct (Hcoh F) as [Ecoh _].
    assert (Hsn : is_seg w (seg_of_log (n_log L))) by (left; exists L; auto).
    assert (Hsq : is_seg w (seg_of_req q)) by (right; exists k, q; auto).
    pose proof (lm_wf C w HL _ Hsn) as Hwfn. pose proof (lm_wf C w HL _ Hsq) as Hwfq. rewrite Er in Hwfn.
    destruct (ae_log_general (w_now w) L q) as [Esame|(a & ta & m & _ & _ & _ & Hterm & _)];
      [rewrite Er; apply wf_log_seg, Hwfn|rewrite Er, Hlii; reflexivity|exact Hwfq|contradiction|].
    destruct (N.eq_dec (ae_term q) (n_term L)) as [Et|Et].
    + destruct (lm_ae C w HL k q Hk Eq) as [_ Hne]. apply Hne. rewrite Ed. symmetry. apply (Hside k q Hk Eq). lia.
    + assert (Hlt : n_term L < ae_term q) by lia. pose proof (ae_higher_term_log (w_now w) L q Hlt El) as Hp'. lia.
Qed.

Theorem step_CD w l : static_label l = true -> nosnap_label l = true -> ALL C w -> CD w -> CD (step w l).
Proof.
  intros Hst Hns HA [Hc Hb]. pose proof HA as [HW HX HU HNS HTA HL]. pose proof (x_v C w HX) as HV.
  assert (Hcommon : forall k' r L', In k' (w_calls (step w l)) -> c_req k' = ReqRV r -> rv_prevote r = false ->
            In L' (w_nodes (step w l)) -> n_id L' = c_src k' ->
            exists L, In L (w_nodes w) /\ n_id L' = n_id L /\ TR C w (step w l) L L' /\ rv_term r <= n_pterm L /\
              (n_pterm L = rv_term r ->
               (forall k2 q2, In k2 (w_calls w) -> c_req k2 = ReqAE q2 -> ae_term q2 = rv_term r -> c_src k2 = n_id L) ->
               tget (seg_of_log (n_log L)) (rv_last_index r) = Some (rv_last_term r))).
  { intros k' r L' Hk' Eq Hpv HL' Eid'.
    destruct (step_NT C HCnd w l Hst Hns HA L' HL') as (L & HLin & Eid & HT).
    exists L. split; [exact HLin|]. split; [exact Eid|]. split; [exact HT|].
    destruct (step_NEW C w l Hst Hns HA k' Hk') as [(k & Hin & Ek)|(m & Hm & Hup & Es & Hreq)].
    - apply key_fields in Ek. destruct Ek as (_ & Esrc & _ & _ & Er). rewrite Eq in Er. symmetry in Er.
      assert (Ea : n_id L = c_src k) by congruence.
      split; [apply (Hb k r L Hin Er Hpv HLin Ea)|]. intros E1 Hside. apply (Hc k r L Hin Er Hpv HLin Ea E1).
      intros k2 q2 Hk2 Eq2 Et2. apply (Hside k2 q2 Hk2 Eq2 Et2).
    - rewrite Eq in Hreq. destruct (Hreq Hpv) as (Ht & Hi & Hlt).
      assert (L = m) by (apply HU; [exact HLin|exact Hm|congruence]). subst L.
      destruct (vi_coh w HV m Hm (is_up_unfrozen m Hup)) as [Ecoh _].
      split; [lia|]. intros _ _.
      destruct (ns_nodes w HNS m Hm) as (_ & _ & _ & _ & _ & (r0 & Er0)).
      assert (Hwf : wf_seg (seg_of_log (n_log m))) by (apply (lm_wf C w HL); left; exists m; auto).
      rewrite Hi, Hlt, Er0 in *. destruct (log_tail r0 Hwf) as [A B]. rewrite A. exact B. }
  split.
  - intros k' r L' Hk' Eq Hpv HL' Eid' Ep' Hside'.
    destruct (Hcommon k' r L' Hk' Eq Hpv HL' Eid') as (L & HLin & Eid & HT & Hle & H).
    pose proof (TR_pterm w (step w l) L L' HA HLin HT) as Hp.
    assert (Ep : n_pterm L = rv_term r) by lia.
    assert (Hside : forall k2 q2, In k2 (w_calls w) -> c_req k2 = ReqAE q2 -> ae_term q2 = rv_term r -> c_src k2 = n_id L).
    { intros k2 q2 Hk2 Eq2 Et2. destruct (CP_step w l HV k2 Hk2) as (k2' & Hk2' & Ek2 & _).
      apply key_fields in Ek2. destruct Ek2 as (_ & Es2 & _ & _ & Er2). rewrite <- Es2, <- Eid.
      apply (Hside' k2' q2 Hk2'); [congruence|exact Et2]. }
    apply (tget_transfer w (step w l) L L' (rv_term r)); auto.
  - intros k' r L' Hk' Eq Hpv HL' Eid'.
    destruct (Hcommon k' r L' Hk' Eq Hpv HL' Eid') as (L & HLin & Eid & HT & Hle & _).
    pose proof (TR_pterm w (step w l) L L' HA HLin HT) as Hp. lia.
Qed.

(* ---------------- every reachable world ---------------- *)
Lemma step_ALL w l : static_label l = true -> nosnap_label l = true -> ALL C w -> ALL C (step w l).
Proof.
  intros S1 N1 [HW HX HU HNS HTA HL]. constructor;
    [apply step_WI|apply step_XInv|apply step_UNI|apply step_NSW|apply step_TAEW|apply step_LMI]; assumption.
Qed.

Lemma tails_run ls : forall w, static ls = true -> nosnap ls = true -> ALL C w -> LN w -> RT w -> CD w ->
  LN (run w ls) /\ RT (run w ls) /\ CD (run w ls).
Proof.
  induction ls as [|l ls IH]; intros w Hs Hn HA H1 H2 H3; [auto|].
  destruct (static_cons _ _ Hs) as [S1 S2]. destruct (nosnap_cons _ _ Hn) as [N1 N2]. cbn [run fold_left].
  apply IH; [exact S2|exact N2|apply step_ALL; assumption|apply step_LN; assumption|apply step_RT; assumption|apply step_CD; assumption].
Qed.

End Tails.

(* ---------------- the initial world ---------------- *)
Lemma tails_init ids boot et ld :
  let w := init_world ids boot et ld in LN w /\ RT w /\ CD w.
Proof.
  cbn zeta. split; [split|split; split].
  - intros n Hn. unfold init_world in Hn. cbn [w_nodes] in Hn. apply in_map_iff in Hn. destruct Hn as (id & <- & _).
    destruct (init_node_shape id boot et ld) as [_ Hr]. cbn zeta in Hr. intros Hl. rewrite Hr in Hl. discriminate.
  - intros k [].
  - intros k q a [].
  - intros k q a [].
  - intros k r L [].
  - intros k r a [].
Qed.

Lemma tails_reachable ids boot et ld ls : static ls = true -> nosnap ls = true ->
  let w := run (init_world ids boot et ld) ls in LN w /\ RT w /\ CD w.
Proof.
  intros Hs Hn. cbn zeta. destruct (tails_init ids boot et ld) as (H1 & H2 & H3).
  apply (tails_run (bootconf boot) (bootconf_nodup boot) ls); auto. apply ALL_init.
Qed.

Theorem leader_tail ids boot et ld ls : static ls = true -> nosnap ls = true ->
  let w := run (init_world ids boot et ld) ls in
  (forall n, In n (w_nodes w) -> ln_node n) /\ (forall k, In k (w_calls w) -> rq_call k).
Proof. intros Hs Hn. exact (proj1 (tails_reachable ids boot et ld ls Hs Hn)). Qed.

Theorem request_top ids boot et ld ls : static ls = true -> nosnap ls = true -> rt_ok (run (init_world ids boot et ld) ls).
Proof. intros Hs Hn. exact (proj1 (proj1 (proj2 (tails_reachable ids boot et ld ls Hs Hn)))). Qed.

Theorem candidate_tail ids boot et ld ls : static ls = true -> nosnap ls = true -> cand_ok (run (init_world ids boot et ld) ls).
Proof. intros Hs Hn. exact (proj1 (proj2 (proj2 (tails_reachable ids boot et ld ls Hs Hn)))). Qed.

Print Assumptions leader_tail.
Print Assumptions request_top.
Print Assumptions candidate_tail.
