(* Leader completeness (C07), one step: the remaining clauses of the invariant. *)
From Coq Require Import Classical.
From RaftV Require Import Cluster.World Cluster.Statements Proofs.Frame Proofs.RVSpec Proofs.AESpec Proofs.AELog Proofs.AEFull.
From RaftV Require Import Proofs.ConfNode Proofs.ConfStatic Proofs.ConfSticky.
From RaftV Require Import Proofs.Votes Proofs.VoteRecords Proofs.Names Proofs.ElectSpec.
From RaftV Require Import Proofs.ElectDefs Proofs.RoleFrame Proofs.ElectBook Proofs.ElectWorld Proofs.ElectRun Proofs.ElectSafety.
From RaftV Require Import Proofs.Tails1 Proofs.LogDefs Proofs.LogSeg Proofs.LogUni Proofs.LogInv Proofs.LogAccept Proofs.LogFrame Proofs.NoSnap Proofs.TaePeer
                          Proofs.LogWorld Proofs.LogRun Proofs.LogMatching Proofs.StepCases Proofs.LeaderLog Proofs.SortedTerms Proofs.ReachInd Proofs.ReqTerm
                          Proofs.LCDefs Proofs.LCHist Proofs.LCCore Proofs.LCStep Proofs.LCStep2 Proofs.LCCtx Proofs.LCtt.
Open Scope N_scope.

Section Clauses.
Variables (C : config) (w : world) (l : label).
Hypothesis HC : CTX C w l.
Let w' := step w l.
Let HCnd := cx_nd C w l HC.
Let Hst := cx_st C w l HC.
Let Hns := cx_ns C w l HC.
Let HF := cx_f C w l HC.
Let HF' := cx_f' C w l HC.
Let HA := f_all C w HF.
Let HA' := f_all C w' HF'.
Let HI := cx_i C w l HC.
Let HL := a_lm C w HA.
Let HL' := a_lm C w' HA'.
Let HX := a_x C w HA.
Let HX' := a_x C w' HA'.
Let HV := x_v C w HX.
Let HV' := x_v C w' HX'.
Let HU := a_uni C w HA.
Let HU' := a_uni C w' HA'.
Let HS := f_srt C w HF.
Let HS' := f_srt C w' HF'.

(* ---------------- the winner of a term keeps what its log holds while it stays in that term ---------------- *)
Lemma winner_keeps a0 T : In a0 (w_nodes w) -> lead C (w_calls w) (n_id a0) T -> T <= n_pterm a0 ->
  exists a0', In a0' (w_nodes w') /\ n_id a0' = n_id a0 /\ lead C (w_calls w') (n_id a0') T /\ T <= n_pterm a0' /\
    (n_pterm a0' = T -> n_pterm a0 = T /\ extends (n_log a0) (n_log a0')).
Proof.
  intros Ha0 Hl Hle. destruct (node_forward C HCnd w l Hst Hns HA a0 Ha0) as (a0' & Ha0' & Eid & HT).
  destruct (winner_step C HCnd w l a0' T Hst Hns HA Ha0') as (n & Hn & Eidn & Hp & Hext).
  assert (n = a0) by (apply HU; [exact Hn|exact Ha0|congruence]). subst n.
  exists a0'. split; [exact Ha0'|]. split; [exact Eid|]. rewrite Eid.
  split; [eapply lead_persist; [apply (hCP C w l HA)|exact Hl]|]. split; [lia|].
  intros E. assert (E0 : n_pterm a0 = T) by lia. split; [exact E0|]. apply Hext; assumption.
Qed.

Lemma extends_eget l1 l2 r1 i e : extends l1 l2 -> l1 = entry0 :: r1 -> eget (seg_of_log l1) i = Some e -> eget (seg_of_log l2) i = Some e.
Proof.
  intros (es & ->) -> E. unfold eget, seg_of_log in *. cbn [sg_base sg_es tl app] in *. destruct (0 <? i); [|discriminate].
  rewrite nth_error_app1; [exact E|]. apply nth_error_Some. congruence.
Qed.

Lemma extends_tget l1 l2 r1 i t : extends l1 l2 -> l1 = entry0 :: r1 -> tget (seg_of_log l1) i = Some t -> tget (seg_of_log l2) i = Some t.
Proof.
  intros Hx E1 Ht. unfold tget in *. cbn [sg_base sg_bterm seg_of_log] in *. destruct (i =? 0); [exact Ht|].
  destruct (eget (seg_of_log l1) i) as [e|] eqn:Ee; [|discriminate]. rewrite (extends_eget _ _ _ _ _ Hx E1 Ee). exact Ht.
Qed.

(* ---------------- lc_bs ---------------- *)
Lemma bs_step k' q : In k' (w_calls w') -> c_req k' = ReqAE q -> 2 <= ae_prev_index q ->
  exists a, In a (w_nodes w') /\ lead C (w_calls w') (n_id a) (ae_prev_term q) /\ ae_prev_term q <= n_pterm a /\
    (n_pterm a = ae_prev_term q -> sg_base (seg_of_log (n_log a)) < ae_prev_index q /\
                                   tget (seg_of_log (n_log a)) (ae_prev_index q) = Some (ae_prev_term q)).
Proof.
  intros Hk' Eq Hp2.
  assert (Hold : exists a0, In a0 (w_nodes w) /\ lead C (w_calls w) (n_id a0) (ae_prev_term q) /\ ae_prev_term q <= n_pterm a0 /\
            (n_pterm a0 = ae_prev_term q -> tget (seg_of_log (n_log a0)) (ae_prev_index q) = Some (ae_prev_term q))).
  { destruct (hNC C w l Hst Hns HA k' Hk') as [(k & Hk & Ek)|(m & Hm & Es & Hreq)].
    - pose proof (key_fields _ _ Ek) as (_ & _ & _ & _ & Er). rewrite Eq in Er.
      destruct (lc_bs C w HI k q Hk (eq_sym Er) Hp2) as (a0 & A1 & A2 & A3 & A4). exists a0. split; [exact A1|]. split; [exact A2|]. split; [exact A3|]. intros E. apply A4, E.
    - rewrite Eq in Hreq. destruct Hreq as (_ & _ & _ & _ & Hsub & Hb).
      destruct (tget_some _ _ _ Hb) as (_ & _ & He). destruct He as (e & Ee & Et); [cbn; lia|].
      assert (Hsm : is_seg w (seg_of_log (n_log m))) by (left; exists m; auto).
      destruct (lm_src C w HL _ _ e Hsm Ee Hp2) as (a0 & A1 & A2 & A3 & A4). rewrite Et in *.
      exists a0. split; [exact A1|]. split; [exact A2|]. split; [exact A3|]. intros E. rewrite (tget_entry _ _ _ (A4 E)), Et. reflexivity. }
  destruct Hold as (a0 & Ha0 & Hl0 & Hle0 & Hown0).
  destruct (winner_keeps a0 _ Ha0 Hl0 Hle0) as (a0' & Ha0' & Eid & Hl' & Hle' & Hk).
  exists a0'. split; [exact Ha0'|]. split; [exact Hl'|]. split; [exact Hle'|]. intros H. destruct (Hk H) as [E0 Hx].
  destruct (ns_nodes w (a_ns C w HA) a0 Ha0) as (_ & _ & _ & _ & _ & (r & Er)).
  split; [cbn; lia|]. apply (extends_tget _ _ r _ _ Hx Er). apply Hown0, E0.
Qed.

(* ---------------- members of the new world ---------------- *)
(* how a node becomes a member of an OLD entry in the new world *)
Lemma member_back ej v' : is_entry w ej -> In v' (w_nodes w') -> member C (w_calls w') ej (n_id v') ->
  exists v, In v (w_nodes w) /\ n_id v' = n_id v /\ n_pterm v <= n_pterm v' /\ NK C w l v v' /\
    (member C (w_calls w) ej (n_id v) \/
     (* it has just acknowledged a request that reaches the entry *)
     exists k q, In k (w_calls w) /\ c_req k = ReqAE q /\ ae_term q = e_term ej /\ c_dst k = n_id v /\ n_frozen v = false /\
                 e_index ej <= ae_prev_index q + N.of_nat (length (ae_entries q)) /\
                 ae_success (snd (h_append_entries (w_now w) v q)) = true /\ n_frozen v' = false /\
                 v' = fst (h_append_entries (w_now w) v q)).
Proof.
  intros He Hv' Hm. destruct (node_cases C HCnd w l Hst Hns HA v' Hv') as (v & Hv & Eid & Hp & _ & HK).
  exists v. split; [exact Hv|]. split; [exact Eid|]. split; [exact Hp|]. split; [exact HK|].
  destruct Hm as [Hack|Hlead].
  - destruct (acked_back C w l Hst Hns HA _ _ _ Hack) as [Hold|(k & q & n & Hk & Eq & Et & Ed & Hn & Ein & F & Hj & Hsucc & Hfr & Hin')].
    + left. left. rewrite <- Eid. exact Hold.
    + assert (n = v) by (apply HU; [exact Hn|exact Hv|congruence]). subst n.
      assert (Ev' : fst (h_append_entries (w_now w) v q) = v').
      { apply HU'; [exact Hin'|exact Hv'|]. rewrite (Votes.r_id _ _ (R_append_entries (w_now w) v q (vi_coh w HV v Hv))). congruence. }
      right. exists k, q. rewrite Ev' in Hfr. repeat split; auto. congruence.
  - left. right. destruct He as (s & Hs & Hh & Hi). destruct (lm_src C w HL s _ ej Hs Hh Hi) as (a0 & Ha0 & Hl0 & _).
    assert (E : n_id v' = n_id a0).
    { apply (lead_unique C w' (n_id v') (n_id a0) (e_term ej) v' v' HX' Hv' Hv' Hlead). eapply lead_persist; [apply (hCP C w l HA)|exact Hl0]. }
    rewrite <- Eid, E. exact Hl0.
Qed.

(* members of a brand-new entry: only its appender *)
Lemma member_new ej v' : NEWE C w l ej -> In v' (w_nodes w') -> member C (w_calls w') ej (n_id v') ->
  exists r, n_log v' = entry0 :: r ++ [ej] /\ e_index ej = N.of_nat (length r) + 1 /\ n_pterm v' = e_term ej.
Proof.
  intros HN Hv' [Hack|Hlead]; [destruct (newe_no_ack C w l Hst Hns HA HA' HI (f_rq C w HF) ej _ HN Hack)|].
  destruct HN as (n & n' & r & Hn & Hn' & Eid & Er & Er' & Ei & Et & Erole & Efr & Ept & Hp & Hl & Hi2).
  assert (v' = n').
  { apply HU'; [exact Hv'|exact Hn'|]. rewrite Eid. apply (lead_unique C w' (n_id v') (n_id n) (e_term ej) v' v' HX' Hv' Hv' Hlead). rewrite Et. exact Hl. }
  subst v'. exists r. repeat split; auto. congruence.
Qed.

(* ---------------- lc_mp ---------------- *)
Lemma mp_step ej v' : is_entry w' ej -> In v' (w_nodes w') -> member C (w_calls w') ej (n_id v') -> e_term ej <= n_pterm v'.
Proof.
  intros He Hv' Hm. destruct (entry_cases C HCnd w l Hst Hns HA ej He) as [Hold|Hnew].
  - destruct (member_back ej v' Hold Hv' Hm) as (v & Hv & Eid & Hp & HK & [Hmo|(k & q & Hk & Eq & Et & Ed & F & Hj & Hsucc & Hfr & Ev')]).
    + pose proof (lc_mp C w HI ej v Hold Hv Hmo). lia.
    + destruct (ns_nodes w (a_ns C w HA) v Hv) as (Hlii & Hlit & _ & _ & _ & (r & Er)).
      assert (Hsv : is_seg w (seg_of_log (n_log v))) by (left; exists v; auto).
      assert (Hsq : is_seg w (seg_of_req q)) by (right; exists k, q; auto).
      rewrite Ev' in Hfr.
      destruct (ae_success_full (w_now w) v q r Er Hlii Hlit (lm_wf C w HL _ Hsv) (lm_wf C w HL _ Hsq) Hsucc Hfr) as (_ & _ & Eterm & _).
      rewrite <- Ev' in Eterm. destruct (vi_coh w' HV' v' Hv') as [Ec _]; [rewrite Ev'; exact Hfr|]. lia.
  - destruct (member_new ej v' Hnew Hv' Hm) as (r & _ & _ & E). lia.
Qed.

(* ---------------- an accepted request does not cut a live entry out of a member's log ---------------- *)
Lemma pm_agree s1 s2 j i : PM s1 s2 -> (exists e, eget s1 j = Some e /\ eget s2 j = Some e) -> sg_base s1 < i -> sg_base s2 < i -> i <= j ->
  eget s1 i = eget s2 i.
Proof.
  intros HP (e & E1 & E2) B1 B2 Hij. apply (pm_prefix s1 s2 j i HP); auto.
  - rewrite (tget_entry _ _ _ E1), (tget_entry _ _ _ E2). reflexivity.
  - rewrite (tget_entry _ _ _ E1). discriminate.
Qed.

Lemma cut_above ej v q k x s1 :
  is_entry w ej -> ~ dead C w ej -> In v (w_nodes w) -> n_frozen v = false -> member C (w_calls w) ej (n_id v) ->
  In k (w_calls w) -> c_req k = ReqAE q -> n_term v <= ae_term q ->
  spliced (seg_of_log (n_log v)) (seg_of_req q) s1 x -> e_index ej < x.
Proof.
  intros He Hnd Hv F Hm Hk Eq Hterm (Hx1 & Hbx & F0 & F1 & F2 & F3 & F4 & F6 & F7).
  set (sl := seg_of_log (n_log v)) in *. set (sq := seg_of_req q) in *.
  assert (Hsl : is_seg w sl) by (left; exists v; auto). assert (Hsq : is_seg w sq) by (right; exists k, q; auto).
  pose proof (lc_a C w HI ej v He Hnd Hv Hm) as Hh. fold sl in Hh. destruct (eget_range _ _ _ Hh) as [_ Hjtop].
  destruct F6 as [Hmiss|(ex & eq & Eex & Eeq & Hne)]; [lia|].
  destruct (N.lt_ge_cases (e_index ej) x) as [Hlt|Hge]; [exact Hlt|exfalso].
  pose proof (lm_pm C w HL sl sq Hsl Hsq) as HP.
  assert (Hj2 : 2 <= e_index ej) by (destruct He as (_ & _ & _ & H); exact H).
  (* if the request holds ej, the two agree at x: no conflict *)
  assert (Hagree : holds sq ej -> False).
  { intros Hq. assert (E : eget sl x = eget sq x) by (apply (pm_agree sl sq (e_index ej) x HP); [exists ej; auto|cbn; lia|exact Hbx|exact Hge]).
    rewrite Eex, Eeq in E. injection E as ->. apply Hne. reflexivity. }
  assert (Hx2 : 2 <= x).
  { destruct (N.eq_dec x 1) as [->|]; [|lia]. rewrite (lm_one C w HL sl ex Hsl Eex), (lm_one C w HL sq eq Hsq Eeq) in Hne. contradiction. }
  destruct (classic (exists i' e', eget sq i' = Some e' /\ e_term ej < e_term e')) as [(i' & e' & E' & Ht')|Hnone].
  - apply Hagree. apply (lc_b C w HI ej sq i' e' He Hnd Hsq E' Ht'). lia.
  - (* every entry of the request has a term at most ej's; its last position has the request's term *)
    pose proof (f_rq C w HF k Hk q Eq) as Hrq. fold sq in Hrq.
    destruct (eget_range _ _ _ Eeq) as [_ Hxtop].
    destruct (tget_some _ _ _ Hrq) as (_ & _ & Het). destruct Het as (et & Eet & Ett); [lia|].
    assert (Hle : e_term et <= e_term ej) by (destruct (N.le_gt_cases (e_term et) (e_term ej)); [assumption|exfalso; apply Hnone; exists (top sq), et; auto]).
    pose proof (lc_mp C w HI ej v He Hv Hm) as Hmp. destruct (vi_coh w HV v Hv F) as [Ec _].
    assert (Etq : e_term et = e_term ej) by lia.
    destruct (N.le_gt_cases (e_index ej) (top sq)) as [Hjq|Hjq].
    + apply Hagree. apply (lc_tt C w HI ej sq (top sq) He Hsq Hjq); [rewrite Hrq; f_equal; lia|lia].
    + (* the request's last entry is an entry of ej's term below ej: the member's log holds it *)
      assert (Hiet : e_index et = top sq) by (apply (eget_index _ _ _ (lm_wf C w HL _ Hsq) Eet)).
      assert (Heet : is_entry w et) by (exists sq; split; [exact Hsq|]; split; [unfold holds; rewrite Hiet; exact Eet|lia]).
      destruct (lc_tt C w HI et sl (e_index ej) Heet Hsl) as [P1 _]; [lia|rewrite (tget_entry _ _ _ Hh); f_equal; lia|].
      assert (Hlet : holds sl et) by (apply P1; cbn; lia).
      assert (E : eget sl x = eget sq x).
      { apply (pm_agree sl sq (top sq) x HP); [exists et; unfold holds in Hlet; rewrite Hiet in Hlet; auto|cbn; lia|exact Hbx|exact Hxtop]. }
      rewrite Eex, Eeq in E. injection E as ->. apply Hne. reflexivity.
Qed.

(* ---------------- lc_a ---------------- *)
Lemma a_step ej v' : is_entry w' ej -> ~ dead C w' ej -> In v' (w_nodes w') -> member C (w_calls w') ej (n_id v') ->
  holds (seg_of_log (n_log v')) ej.
Proof.
  intros He Hnd' Hv' Hm. destruct (entry_cases C HCnd w l Hst Hns HA ej He) as [Hold|Hnew].
  2:{ destruct (member_new ej v' Hnew Hv' Hm) as (r & Er & Ei & _). unfold holds. rewrite Er, Ei. apply eget_app_new. }
  assert (Hnd : ~ dead C w ej) by (intro H; apply Hnd'; apply (dead_mono C HCnd w l Hst Hns HA HA' ej Hold H)).
  destruct (member_back ej v' Hold Hv' Hm) as (v & Hv & Eid & Hp & HK & [Hmo|(k & q & Hk & Eq & Et & Ed & F & Hj & Hsucc & Hfr & Ev')]).
  - pose proof (lc_a C w HI ej v Hold Hnd Hv Hmo) as Hh.
    destruct HK as [El|r e0 Er Er' Ei Ete Erole Efr Ept Hlead Hi2|k q x F Hk Eq Ed Ev' Hterm Hsp].
    + rewrite El. exact Hh.
    + rewrite Er in Hh. rewrite Er'. unfold holds in *. destruct (eget_range _ _ _ Hh) as [_ Hjr]. rewrite top_log in Hjr.
      rewrite eget_app_old by exact Hjr. exact Hh.
    + pose proof (cut_above ej v q k x _ Hold Hnd Hv F Hmo Hk Eq Hterm Hsp) as Hjx.
      destruct Hsp as (_ & _ & _ & F1 & _). unfold holds. rewrite F1 by exact Hjx. exact Hh.
  - (* the node has just acknowledged a request of ej's term reaching ej's index *)
    destruct (ns_nodes w (a_ns C w HA) v Hv) as (Hlii & Hlit & _ & _ & _ & (r & Er)).
    assert (Hsv : is_seg w (seg_of_log (n_log v))) by (left; exists v; auto).
    assert (Hsq : is_seg w (seg_of_req q)) by (right; exists k, q; auto).
    assert (Hfr0 : n_frozen (fst (h_append_entries (w_now w) v q)) = false) by (rewrite <- Ev'; exact Hfr).
    destruct (ae_success_full (w_now w) v q r Er Hlii Hlit (lm_wf C w HL _ Hsv) (lm_wf C w HL _ Hsq) Hsucc Hfr0) as (Hall & Hprev & _ & _).
    rewrite <- Ev' in Hall, Hprev.
    pose proof (f_rq C w HF k Hk q Eq) as Hrq. set (sq := seg_of_req q) in *. set (s1 := seg_of_log (n_log v')) in *.
    assert (Hs1 : is_seg w' s1) by (left; exists v'; auto).
    assert (Ht1 : tget s1 (top sq) = Some (e_term ej)).
    { destruct (N.eq_dec (top sq) (sg_base sq)) as [Eb|Eb].
      - rewrite Eb in *. rewrite tget_base in Hrq. cbn [sg_base sg_bterm sq seg_of_req] in *. rewrite Hprev. congruence.
      - destruct (tget_some _ _ _ Hrq) as (Hb & _ & Het). destruct Het as (et & Eet & Ett); [lia|].
        destruct (Hall _ _ Eet) as (e1 & E1 & Et1). rewrite (tget_entry _ _ _ E1). f_equal. lia. }
    destruct (tt_step C w l HC ej s1 (top sq) He Hs1) as [P1 _]; [unfold top, sq; cbn [sg_base sg_es seg_of_req]; exact Hj|exact Ht1|].
    apply P1. cbn. destruct He as (_ & _ & _ & H). lia.
Qed.

(* ---------------- a winner of a higher term whose voters are no members kills the entry ---------------- *)
Lemma one_voter a b : many C = false -> is_voter C a = true -> is_voter C b = true -> a = b.
Proof.
  intros Hm Va Vb. unfold many in Hm. apply Bool.negb_false_iff in Hm. apply N.eqb_eq in Hm.
  pose proof (voter_in C a Va) as Ia. pose proof (voter_in C b Vb) as Ib. unfold voters in *.
  destruct (c_members C) as [|[k v] [|y r]]; cbn in Hm; try lia.
  cbn [filter map] in Ia, Ib. destruct (snd (k, v)); cbn in Ia, Ib; [|contradiction].
  destruct Ia as [<-|[]]. destruct Ib as [<-|[]]. reflexivity.
Qed.

Lemma grant_voter_term k U L : In k (w_calls w') -> granted_real k U L ->
  exists v, In v (w_nodes w') /\ n_id v = c_dst k /\ U <= n_pterm v.
Proof.
  intros Hk Hg. destruct (vi_grant w' HV' k U L Hk Hg) as (v & Gv & Hvo). destruct (Votes.get_node_in _ _ _ Gv) as [Hv Eid].
  exists v. split; [exact Hv|]. split; [exact Eid|]. destruct Hvo as [H|[H _]]; lia.
Qed.

(* the entry dies if a winner L of a higher term U exists, L itself past U, and neither L nor any of its voters is a member *)
Lemma dead_by_winner ej L' U : e_term ej < U -> In L' (w_nodes w') -> lead C (w_calls w') (n_id L') U -> U <= n_pterm L' ->
  many C = true ->
  (forall v', In v' (w_nodes w') -> U <= n_pterm v' -> ~ member C (w_calls w') ej (n_id v')) ->
  dead C w' ej.
Proof.
  intros HT HinL [Hvoter Hwon] HpL Hm Hnm.
  destruct (won_members C (w_calls w') (n_id L') U Hvoter (Hwon Hm)) as (ks & K1 & K2 & K3 & K4).
  exists (n_id L' :: map c_dst ks). split; [exact K2|]. split; [exact K3|]. split; [exact K4|].
  intros d [<-|Hd].
  - split; [apply Hnm; assumption|]. exists L'. split; [exact HinL|]. split; [reflexivity|lia].
  - apply in_map_iff in Hd. destruct Hd as (k & <- & Hk). destruct (K1 k Hk) as (A & B & _).
    destruct (grant_voter_term k U (n_id L') A B) as (v & Hv & Eid & Hp).
    split; [rewrite <- Eid; apply Hnm; assumption|]. exists v. split; [exact Hv|]. split; [exact Eid|lia].
Qed.

(* a brand-new entry is dead as soon as some node past a higher term has won that term *)
Lemma newe_dead ej L' U : NEWE C w l ej -> e_term ej < U -> In L' (w_nodes w') -> lead C (w_calls w') (n_id L') U -> U <= n_pterm L' ->
  dead C w' ej.
Proof.
  intros HN HT HinL Hl HpL.
  pose proof HN as (n & n' & r & Hn & Hn' & Eid & Er & Er' & Ei & Et & Erole & Efr & Ept & Hp & Hl0 & Hi2).
  destruct (many C) eqn:Hm.
  - apply (dead_by_winner ej L' U HT HinL Hl HpL Hm). intros v' Hv' Hpv Hmem.
    destruct (member_new ej v' HN Hv' Hmem) as (_ & _ & _ & E). lia.
  - exfalso. destruct Hl as [VL _]. destruct Hl0 as [Vn _].
    assert (E : n_id L' = n_id n) by (apply one_voter; assumption).
    assert (L' = n') by (apply HU'; [exact HinL|exact Hn'|congruence]). subst L'. lia.
Qed.

(* ---------------- lc_c ---------------- *)
Lemma c_step ej k' r : is_entry w' ej -> ~ dead C w' ej -> In k' (w_calls w') -> c_req k' = ReqRV r -> rv_prevote r = false ->
  (exists p, c_resp k' = Some (RespRV p) /\ rvr_granted p = true) -> member C (w_calls w') ej (c_dst k') ->
  e_term ej < rv_term r -> covers r ej.
Proof.
  intros He Hnd' Hk' Eq Hpv (p & Ep & Hg) Hm HT.
  assert (Hgr : granted_real k' (rv_term r) (rv_cand r)) by (exists r, p; auto 10).
  destruct (grant_voter_term k' _ _ Hk' Hgr) as (v' & Hv' & Eid' & Hpv').
  rewrite <- Eid' in Hm.
  destruct (entry_cases C HCnd w l Hst Hns HA ej He) as [Hold|Hnew].
  2:{ destruct (member_new ej v' Hnew Hv' Hm) as (_ & _ & _ & E). lia. }
  assert (Hnd : ~ dead C w ej) by (intro H; apply Hnd'; apply (dead_mono C HCnd w l Hst Hns HA HA' ej Hold H)).
  pose proof (a_step ej v' He Hnd' Hv' Hm) as Hh'.
  destruct (hRS C w l Hst Hns HA k' (RespRV p) Hk' Ep) as [(k & Hk & Ek & Er)|(k & n & Hk & Ek & Er & Hn & Ein & F & Hr & F' & Hin')];
    pose proof (key_fields _ _ Ek) as (_ & _ & Ed & _ & Erq).
  - (* an old grant *)
    destruct (member_back ej v' Hold Hv' Hm) as (v & Hv & Eid & Hp & HK & [Hmo|(k2 & q2 & Hk2 & Eq2 & Et2 & Ed2 & F2 & Hj2 & Hsucc & Hfr & Ev')]).
    + apply (lc_c C w HI ej k r Hold Hnd Hk); auto; [congruence|exists p; auto|]. replace (c_dst k) with (n_id v) by congruence. exact Hmo.
    + exfalso. assert (Hgr0 : granted_real k (rv_term r) (rv_cand r)) by (exists r, p; repeat split; auto; congruence).
      destruct (vi_grant w HV k _ _ Hk Hgr0) as (v0 & Gv0 & Hvo). destruct (Votes.get_node_in _ _ _ Gv0) as [Hv0 Eid0].
      assert (v0 = v) by (apply HU; [exact Hv0|exact Hv|congruence]). subst v0.
      pose proof (success_term C w HA v q2 Hv k2 Hk2 Eq2 Hsucc) as Hle. rewrite Ev' in Hfr. specialize (Hle Hfr).
      destruct (vi_coh w HV v Hv F2) as [Ec _]. destruct Hvo as [H|[H _]]; lia.
  - (* granted in this step: the voter's log, which holds ej, is not more up to date than the candidate's *)
    rewrite Erq in Eq. rewrite Eq in Hr, Hin', F'. unfold run_handler in Hr, Hin', F'.
    destruct (h_request_vote (w_now w) n r) as [n1 pr] eqn:EH. cbn [fst snd] in *.
    destruct pr as [pr|]; [|discriminate]. cbn [option_map] in Hr. injection Hr as ->.
    assert (Hgl : rv_granted (snd (h_request_vote (w_now w) n r)) = true) by (rewrite EH; exact Hg).
    destruct (rv_grant_log (w_now w) n r Hgl) as (Elog & Hup & _). rewrite EH in Elog. cbn [fst] in Elog.
    assert (n1 = v').
    { apply HU'; [exact Hin'|exact Hv'|]. pose proof (R_request_vote (w_now w) n r (vi_coh w HV n Hn)) as HR. rewrite EH in HR. cbn [fst] in HR.
      rewrite (Votes.r_id _ _ HR). congruence. }
    subst n1. rewrite Elog in Hh'.
    destruct (ns_nodes w (a_ns C w HA) n Hn) as (_ & _ & _ & _ & _ & (r0 & Er0)).
    assert (Hsn : is_seg w (seg_of_log (n_log n))) by (left; exists n; auto).
    pose proof (lm_wf C w HL _ Hsn) as Hwf. rewrite Er0 in *.
    destruct (log_tail r0 Hwf) as [Eli Elt]. destruct (eget_range _ _ _ Hh') as [_ Hjtop]. rewrite top_log in Hjtop.
    pose proof (sr_seg w HS _ Hsn (e_index ej) (N.of_nat (length r0)) _ _ (tget_entry _ _ _ Hh') Elt Hjtop) as Hsorted.
    unfold covers. rewrite Eli in Hup.
    destruct (N.lt_trichotomy (e_term ej) (rv_last_term r)) as [H|[H|H]]; [left; exact H|right|exfalso; apply Hup; left; lia].
    split; [symmetry; exact H|]. destruct (N.le_gt_cases (N.of_nat (length r0)) (rv_last_index r)) as [H1|H1]; [lia|].
    exfalso. apply Hup. right. split; lia.
Qed.

(* ---------------- lc_ic ---------------- *)
Lemma few_voters a b : (length (voters C) < 2)%nat -> is_voter C a = true -> is_voter C b = true -> a = b.
Proof.
  intros Hl Va Vb. pose proof (voter_in C a Va) as Ia. pose proof (voter_in C b Vb) as Ib.
  destruct (voters C) as [|x [|y r]]; cbn in Hl; try lia; [destruct Ia|].
  destruct Ia as [<-|[]]. destruct Ib as [<-|[]]. reflexivity.
Qed.

(* a leader of the new world has won its term; it is past that term, or it is the only voter *)
Lemma leader_facts L' : In L' (w_nodes w') -> n_role L' = Leader ->
  lead C (w_calls w') (n_id L') (n_term L') /\
  (n_pterm L' = n_term L' \/ forall v, is_voter C v = true -> v = n_id L').
Proof.
  intros HinL Hrole. assert (Hact : active (n_role L')) by (rewrite Hrole; unfold active; auto).
  destruct (x_l0 C w' HX' L' HinL Hact) as [_ Hvoter].
  assert (Hlead : lead C (w_calls w') (n_id L') (n_term L')) by (split; [exact Hvoter|intros Hm; apply (x_l C w' HX' L' HinL Hrole Hm)]).
  split; [exact Hlead|]. pose proof (f_pt C w' HF' L' HinL) as Hle.
  destruct (many C) eqn:Hm.
  - destruct Hlead as [_ Hwon]. destruct (won_members C (w_calls w') (n_id L') (n_term L') Hvoter (Hwon Hm)) as (ks & K1 & K2 & K3 & K4).
    destruct ks as [|k ks].
    + right. intros v Hv. apply few_voters; [cbn in K4; lia|exact Hv|exact Hvoter].
    + left. destruct (K1 k (or_introl eq_refl)) as (A & (r & p & G1 & G2 & G3 & G4 & G5 & G6) & _).
      pose proof (x_n C w' HX' k A) as Hnm. unfold named in Hnm. rewrite G1 in Hnm.
      assert (Hb : rv_term r <= n_pterm L') by (apply (f_rvb C w' HF' k r L' A G1 G2 HinL); congruence). lia.
  - right. intros v Hv. apply one_voter; assumption.
Qed.

Lemma holds_extends l1 l2 r1 ej : extends l1 l2 -> l1 = entry0 :: r1 -> holds (seg_of_log l1) ej -> holds (seg_of_log l2) ej.
Proof. intros Hx E Hh. unfold holds in *. apply (extends_eget _ _ r1 _ _ Hx E Hh). Qed.

Lemma ic_step ej L' : is_entry w' ej -> ~ dead C w' ej -> In L' (w_nodes w') -> n_role L' = Leader -> e_term ej < n_term L' ->
  holds (seg_of_log (n_log L')) ej.
Proof.
  intros He Hnd' HinL Hrole HT.
  destruct (leader_facts L' HinL Hrole) as [Hlead Hpast].
  destruct (classic (member C (w_calls w') ej (n_id L'))) as [Hmem|Hnmem]; [apply a_step; assumption|].
  (* the only-voter case: the leader is the creator of every entry, hence a member *)
  assert (Hsingle : (forall v, is_voter C v = true -> v = n_id L') -> False).
  { intros Hall. destruct (entry_cases C HCnd w l Hst Hns HA ej He) as [(s & Hs & Hh & Hi)|Hnew].
    - destruct (lm_src C w HL s _ ej Hs Hh Hi) as (a0 & Ha0 & Hl0 & _). apply Hnmem. right.
      rewrite <- (Hall (n_id a0)) by (destruct Hl0; assumption). eapply lead_persist; [apply (hCP C w l HA)|exact Hl0].
    - destruct Hnew as (n & n' & r & Hn & Hn' & Eid & Er & Er' & Ei & Et & Erole & Efr & Ept & Hp & Hl0 & Hi2).
      assert (E : n_id n = n_id L') by (apply Hall; destruct Hl0; assumption).
      assert (n' = L') by (apply HU'; [exact Hn'|exact HinL|congruence]). subst n'. lia. }
  destruct Hpast as [HpU|Hall]; [|destruct (Hsingle Hall)].
  destruct (entry_cases C HCnd w l Hst Hns HA ej He) as [Hold|Hnew].
  2:{ exfalso. apply Hnd'. apply (newe_dead ej L' (n_term L') Hnew HT HinL Hlead). lia. }
  assert (Hnd : ~ dead C w ej) by (intro H; apply Hnd'; apply (dead_mono C HCnd w l Hst Hns HA HA' ej Hold H)).
  destruct (node_cases C HCnd w l Hst Hns HA L' HinL) as (L & HL0 & Eid & Hp & HT0 & _).
  pose proof (vi_coh w HV L HL0) as HcohL.
  destruct (ns_nodes w (a_ns C w HA) L HL0) as (_ & _ & _ & _ & _ & (r0 & Er0)).
  (* it suffices that the OLD log of the node holds ej and that its log only grew *)
  assert (Hgrow : holds (seg_of_log (n_log L)) ej -> lead C (w_calls w) (n_id L) (n_term L') -> n_pterm L = n_term L' ->
                  holds (seg_of_log (n_log L')) ej).
  { intros Hh HlL EpL. destruct (winner_step C HCnd w l L' (n_term L') Hst Hns HA HinL) as (n & Hn & Eidn & _ & Hext).
    assert (n = L) by (apply HU; [exact Hn|exact HL0|congruence]). subst n.
    apply (holds_extends _ _ r0 ej (Hext HlL EpL HpU) Er0 Hh). }
  destruct (classic (n_role L = Leader /\ n_term L = n_term L')) as [[RL TL]|Hnew_leader].
  - (* it was already the leader of this term *)
    assert (Hact : active (n_role L)) by (rewrite RL; unfold active; auto).
    destruct (x_l0 C w HX L HL0 Hact) as [_ Hvoter].
    assert (HlL : lead C (w_calls w) (n_id L) (n_term L')) by (rewrite <- TL; split; [exact Hvoter|intros Hm; apply (x_l C w HX L HL0 RL Hm)]).
    assert (EpL : n_pterm L = n_term L').
    { pose proof (f_pt C w HF L HL0). destruct (many C) eqn:Hm.
      - destruct HlL as [_ Hw]. destruct (won_members C (w_calls w) (n_id L) (n_term L') Hvoter (Hw Hm)) as (ks & K1 & K2 & K3 & K4).
        destruct ks as [|k ks]; [exfalso; apply Hsingle; intros v Hv; rewrite Eid; apply few_voters; [cbn in K4; lia|exact Hv|exact Hvoter]|].
        destruct (K1 k (or_introl eq_refl)) as (A & (r & p & G1 & G2 & G3 & G4 & G5 & G6) & _).
        pose proof (x_n C w HX k A) as Hnm. unfold named in Hnm. rewrite G1 in Hnm.
        assert (Hb : rv_term r <= n_pterm L) by (apply (f_rvb C w HF k r L A G1 G2 HL0); congruence). lia.
      - exfalso. apply Hsingle. intros v Hv. rewrite Eid. apply one_voter; assumption. }
    apply Hgrow; [|exact HlL|exact EpL]. apply (lc_ic C w HI ej L Hold Hnd HL0 RL). lia.
  - (* it has just become leader: some voter of its election is a member, or the entry is dead *)
    assert (Hsec : (coh L -> S L L') /\ LG L L').
    { destruct HT0 as [->|HS0 HLG _|k q Hk Eq Ed F ->].
      - exfalso. apply Hnew_leader. auto.
      - auto.
      - exfalso. apply Hnew_leader. destruct (K_h_append_entries (w_now w) L q) as [K1 _]. destruct (K1 Hrole) as [B1 B2]. split; [exact B1|symmetry; exact B2]. }
    destruct Hsec as [HS0 HLG].
    destruct (many C) eqn:Hm; [|exfalso; apply Hsingle; intros v Hv; destruct Hlead; apply one_voter; assumption].
    pose proof Hlead as [Hvoter Hwon].
    destruct (won_members C (w_calls w') (n_id L') (n_term L') Hvoter (Hwon Hm)) as (ks & K1 & K2 & K3 & K4).
    destruct (classic (exists k, In k ks /\ member C (w_calls w') ej (c_dst k))) as [(k & Hk & Hmk)|Hnone].
    2:{ exfalso. apply Hnd'. exists (n_id L' :: map c_dst ks). split; [exact K2|]. split; [exact K3|]. split; [exact K4|].
        intros d [<-|Hd].
        - split; [exact Hnmem|]. exists L'. split; [exact HinL|]. split; [reflexivity|lia].
        - apply in_map_iff in Hd. destruct Hd as (k & <- & Hk). destruct (K1 k Hk) as (A & B & _).
          destruct (grant_voter_term k _ _ A B) as (v & Hv & Eidv & Hpv).
          split; [intro Hmk; apply Hnone; exists k; auto|]. exists v. split; [exact Hv|]. split; [exact Eidv|lia]. }
    destruct (K1 k Hk) as (A & (r & p & G1 & G2 & G3 & G4 & G5 & G6) & _).
    assert (Hcov : covers r ej) by (apply (c_step ej k r He Hnd' A G1 G2); [exists p; auto|exact Hmk|lia]).
    pose proof (x_n C w' HX' k A) as Hnm. unfold named in Hnm. rewrite G1 in Hnm.
    (* the request is an old call: the candidate's old log has the advertised last entry *)
    assert (Hk0 : exists k0, In k0 (w_calls w) /\ call_key k = call_key k0).
    { destruct (hRS C w l Hst Hns HA k (RespRV p) A G5) as [(k0 & B1 & B2 & _)|(k0 & n0 & B1 & B2 & _)]; exists k0; auto. }
    destruct Hk0 as (k0 & Hk0 & Ek0). pose proof (key_fields _ _ Ek0) as (_ & Esrc0 & _ & _ & Ereq0).
    assert (EpL : n_pterm L = rv_term r).
    { assert (rv_term r <= n_pterm L) by (apply (f_rvb C w HF k0 r L Hk0); congruence). lia. }
    assert (Hc : tget (seg_of_log (n_log L)) (rv_last_index r) = Some (rv_last_term r)).
    { apply (f_cand C w HF k0 r L Hk0); try congruence.
      intros k2 q2 Hk2 Eq2 Et2. destruct (lm_ae C w HL k2 q2 Hk2 Eq2) as [Hl2 _]. rewrite <- Eid.
      apply (lead_unique C w' (c_src k2) (n_id L') (n_term L') L' L' HX' HinL HinL); [|exact Hlead].
      rewrite <- G3, <- Et2. eapply lead_persist; [apply (hCP C w l HA)|exact Hl2]. }
    assert (HsL : is_seg w (seg_of_log (n_log L))) by (left; exists L; auto).
    assert (Hj2 : 2 <= e_index ej) by (destruct He as (_ & _ & _ & H); exact H).
    assert (HhL : holds (seg_of_log (n_log L)) ej).
    { destruct Hcov as [Hgt|[Heq Hge]].
      - destruct (tget_pos _ _ _ Hc) as (el & Eel & Etl).
        { destruct (N.eq_dec (rv_last_index r) 0) as [E0|E0]; [|cbn; lia]. rewrite E0 in Hc. cbn in Hc. injection Hc as Hc. lia. }
        apply (lc_b C w HI ej _ _ el Hold Hnd HsL Eel); [lia|cbn; lia].
      - destruct (lc_tt C w HI ej _ (rv_last_index r) Hold HsL Hge) as [P1 _]; [rewrite Hc; f_equal; exact Heq|]. apply P1. cbn. lia. }
    destruct HLG as [El|(e0 & El & _)]; [rewrite El; exact HhL|].
    apply (holds_extends (n_log L) (n_log L') r0 ej); [exists [e0]; exact El|exact Er0|exact HhL].
Qed.

(* ---------------- lc_b ---------------- *)
(* the creator of an entry of the new world, as a node of the new world past the entry's term *)
Lemma creator_new e' i' s' : is_seg w' s' -> eget s' i' = Some e' -> 2 <= i' ->
  exists a', In a' (w_nodes w') /\ lead C (w_calls w') (n_id a') (e_term e') /\ e_term e' <= n_pterm a'.
Proof.
  intros Hs E Hi. destruct (lm_src C w' HL' s' i' e' Hs E Hi) as (a' & A1 & A2 & A3 & _). exists a'. auto.
Qed.

Lemma sorted_lt s j i' ej e' : sorted_seg s -> eget s j = Some ej -> eget s i' = Some e' -> e_term ej < e_term e' -> j < i'.
Proof.
  intros Hs Ej Ei Ht. destruct (N.lt_ge_cases j i') as [H|H]; [exact H|exfalso].
  pose proof (Hs i' j _ _ (tget_entry _ _ _ Ei) (tget_entry _ _ _ Ej) H). lia.
Qed.

Lemma b_step ej s' i' e' : is_entry w' ej -> ~ dead C w' ej -> is_seg w' s' -> eget s' i' = Some e' -> e_term ej < e_term e' ->
  sg_base s' < e_index ej -> holds s' ej.
Proof.
  intros He Hnd' Hs E' HT Hb.
  assert (Hj2 : 2 <= e_index ej) by (destruct He as (_ & _ & _ & H); exact H).
  assert (Hi2 : 2 <= i').
  { destruct (N.le_gt_cases 2 i') as [H|H]; [exact H|exfalso]. destruct (eget_range _ _ _ E') as [H1 _]. assert (i' = 1) by lia. subst i'.
    rewrite (lm_one C w' HL' s' e' Hs E') in HT. cbn in HT.
    (* an entry of term 0 above the bootstrap entry does not exist *)
    destruct He as (s0 & Hs0 & Hh0 & _). pose proof (ep_entry _ (sr_pos _ HS') s0 _ ej Hs0 Hh0). lia. }
  destruct (entry_cases C HCnd w l Hst Hns HA ej He) as [Hold|Hnew].
  2:{ exfalso. apply Hnd'. destruct (creator_new e' i' s' Hs E' Hi2) as (a' & A1 & A2 & A3). apply (newe_dead ej a' (e_term e') Hnew HT A1 A2 A3). }
  assert (Hnd : ~ dead C w ej) by (intro H; apply Hnd'; apply (dead_mono C HCnd w l Hst Hns HA HA' ej Hold H)).
  destruct (seg_cases C HCnd w l Hst Hns HA s' Hs) as [Hso|n n' Hn Hn' Eid Hp -> HK|m k' q Hk' Eq Es Hm Hrole Htq Hd Hsub Hbq ->].
  - apply (lc_b C w HI ej s' i' e' Hold Hnd Hso E' HT Hb).
  - assert (Hsn : is_seg w (seg_of_log (n_log n))) by (left; exists n; auto).
    destruct HK as [El|r e0 Er Er' Ei Et Erole Efr Ept Hlead Hie|k q x F Hk Eq Ed -> Hterm (Hx1 & Hbx & F0 & F1 & F2 & F3 & F4 & F6 & F7)].
    + rewrite El in *. apply (lc_b C w HI ej _ i' e' Hold Hnd Hsn E' HT Hb).
    + (* the log of a leader: it holds every live entry of a lower term *)
      destruct (N.le_gt_cases i' (N.of_nat (length r))) as [Hle|Hgt].
      * rewrite Er' in *. rewrite eget_app_old in E' by exact Hle. rewrite Er in Hsn.
        pose proof (lc_b C w HI ej _ i' e' Hold Hnd Hsn E' HT Hb) as Hh. unfold holds in *.
        destruct (eget_range _ _ _ Hh) as [_ Hjr]. rewrite top_log in Hjr. rewrite eget_app_old by exact Hjr. exact Hh.
      * rewrite Er' in E'. destruct (N.eq_dec i' (N.of_nat (length r) + 1)) as [->|Hne]; [|rewrite eget_app_beyond in E' by lia; discriminate].
        rewrite eget_app_new in E'. injection E' as <-. apply (ic_step ej n' He Hnd' Hn' Erole). lia.
    + set (sl := seg_of_log (n_log n)) in *. set (sq := seg_of_req q) in *.
      set (s1 := seg_of_log (n_log (fst (h_append_entries (w_now w) n q)))) in *.
      assert (Hsq : is_seg w sq) by (right; exists k, q; auto).
      assert (Hwf1 : wf_seg s1) by (apply (lm_wf C w' HL'); left; exists (fst (h_append_entries (w_now w) n q)); auto).
      destruct (N.lt_ge_cases i' x) as [Hlt|Hge].
      * rewrite (F1 i' Hlt) in E'. pose proof (lc_b C w HI ej sl i' e' Hold Hnd Hsn E' HT Hb) as Hh.
        pose proof (sorted_lt sl _ _ ej e' (sr_seg w HS sl Hsn) Hh E' HT) as Hji. unfold holds. rewrite F1 by lia. exact Hh.
      * assert (Eq' : eget sq i' = Some e') by (destruct (F3 i' Hge) as [N0|E0]; [congruence|rewrite <- E0; exact E']).
        destruct (eget_range _ _ _ E') as [_ Htop1].
        destruct (N.lt_ge_cases (e_index ej) x) as [Hjx|Hjx].
        -- (* ej lies below the cut: the old log must hold it *)
           unfold holds. rewrite F1 by exact Hjx. change (holds sl ej).
           destruct (N.lt_ge_cases (sg_base sq) (e_index ej)) as [Hbq|Hbq].
           ++ pose proof (lc_b C w HI ej sq i' e' Hold Hnd Hsq Eq' HT Hbq) as Hq.
              destruct (eget_defined s1 x) as (ex & Eex); [cbn; lia|lia|].
              assert (Hpl : tget sl (x - 1) = tget sq (x - 1)).
              { rewrite <- (F2 (x - 1)) by lia. apply F4; [lia|congruence]. }
              unfold holds. rewrite <- Hq.
              apply (pm_prefix sl sq (x - 1) (e_index ej) (lm_pm C w HL sl sq Hsn Hsq)); [exact Hpl| |cbn; lia|exact Hbq|lia].
              rewrite Hpl. destruct (eget_defined sq (x - 1)) as (ey & Ey); [lia|destruct (eget_range _ _ _ Eq'); lia|]. rewrite (tget_entry _ _ _ Ey). discriminate.
           ++ (* the request starts at or after ej: its base term is at least ej's term *)
              assert (Hin' : In e' (ae_entries q)).
              { unfold eget, sq, seg_of_req in Eq'. cbn [sg_base sg_es] in Eq'. destruct (ae_prev_index q <? i'); [|discriminate]. apply (nth_error_In _ _ Eq'). }
              pose proof (sr_req w HS k q e' Hk Eq Hin') as Hle.
              assert (Hbt : e_term ej <= ae_prev_term q) by (apply (lc_rqb C w HI ej k q Hold Hnd Hk Eq); [lia|exact Hbq]).
              change (sg_base sq) with (ae_prev_index q) in *. change (sg_bterm sq) with (ae_prev_term q) in F0.
              destruct (N.eq_dec (ae_prev_term q) (e_term ej)) as [Eeq|Eneq].
              ** destruct (lc_tt C w HI ej sl (ae_prev_index q) Hold Hsn Hbq) as [P1 _]; [rewrite F0; f_equal; exact Eeq|]. apply P1. cbn. lia.
              ** destruct (tget_pos _ _ _ F0) as (ep & Eep & Etp); [cbn; lia|].
                 apply (lc_b C w HI ej sl _ ep Hold Hnd Hsn Eep); [lia|cbn; lia].
        -- (* ej lies in the part written from the request *)
           assert (Hbq : sg_base sq < e_index ej) by lia.
           pose proof (lc_b C w HI ej sq i' e' Hold Hnd Hsq Eq' HT Hbq) as Hq.
           pose proof (sorted_lt sq _ _ ej e' (sr_seg w HS sq Hsq) Hq Eq' HT) as Hji.
           destruct (eget_defined s1 (e_index ej)) as (e & Ee); [cbn; lia|lia|].
           unfold holds. destruct (F3 _ Hjx) as [N0|E0]; [congruence|]. rewrite E0. exact Hq.
  - (* a new request: a sub-segment of the sender's log *)
    assert (Hsm : is_seg w (seg_of_log (n_log m))) by (left; exists m; auto).
    pose proof (lc_b C w HI ej _ i' e' Hold Hnd Hsm (Hsub _ _ E') HT) as Hh. specialize (Hh ltac:(cbn; lia)).
    pose proof (sorted_lt _ _ _ ej e' (sr_seg w HS _ Hsm) Hh (Hsub _ _ E') HT) as Hji.
    destruct (eget_defined (seg_of_req q) (e_index ej)) as (e & Ee); [exact Hb|destruct (eget_range _ _ _ E'); lia|].
    unfold holds in *. rewrite (Hsub _ _ Ee) in Hh. congruence.
Qed.

(* ---------------- lc_rqb ---------------- *)
Lemma rqb_step ej k' q : is_entry w' ej -> ~ dead C w' ej -> In k' (w_calls w') -> c_req k' = ReqAE q -> e_term ej < ae_term q ->
  e_index ej <= ae_prev_index q -> e_term ej <= ae_prev_term q.
Proof.
  intros He Hnd' Hk' Eq HT Hj.
  destruct (entry_cases C HCnd w l Hst Hns HA ej He) as [Hold|Hnew].
  2:{ exfalso. apply Hnd'. destruct (f_rte C w' HF' k' q Hk' Eq) as (a & Ha & Eid & Hle).
      destruct (lm_ae C w' HL' k' q Hk' Eq) as [Hl _]. rewrite <- Eid in Hl. apply (newe_dead ej a (ae_term q) Hnew HT Ha Hl Hle). }
  assert (Hnd : ~ dead C w ej) by (intro H; apply Hnd'; apply (dead_mono C HCnd w l Hst Hns HA HA' ej Hold H)).
  destruct (hNC C w l Hst Hns HA k' Hk') as [(k & Hk & Ek)|(m & Hm & Es & Hreq)].
  - pose proof (key_fields _ _ Ek) as (_ & _ & _ & _ & Er). rewrite Eq in Er. apply (lc_rqb C w HI ej k q Hold Hnd Hk (eq_sym Er) HT Hj).
  - rewrite Eq in Hreq. destruct Hreq as (Hrole & Et & _ & _ & _ & Hb).
    assert (Hsm : is_seg w (seg_of_log (n_log m))) by (left; exists m; auto).
    assert (Hh : holds (seg_of_log (n_log m)) ej) by (apply (lc_ic C w HI ej m Hold Hnd Hm Hrole); lia).
    apply (sr_seg w HS _ Hsm (e_index ej) (ae_prev_index q) _ _ (tget_entry _ _ _ Hh) Hb Hj).
Qed.

(* ---------------- the invariant after the step ---------------- *)
Theorem step_LCI : LCI C w'.
Proof.
  constructor.
  - intros ej s i2 He Hs Hi Ht. apply (tt_step C w l HC ej s i2 He Hs Hi Ht).
  - intros ej v He Hnd Hv Hm. apply a_step; assumption.
  - intros ej s i' e' He Hnd Hs E HT Hb. apply (b_step ej s i' e'); assumption.
  - intros ej k q He Hnd Hk Eq HT Hj. apply (rqb_step ej k q); assumption.
  - intros ej L He Hnd HinL Hrole HT. apply ic_step; assumption.
  - intros ej k r He Hnd Hk Eq Hpv Hg Hm HT. apply (c_step ej k r); assumption.
  - intros k q Hk Eq Hp. apply (bs_step k q); assumption.
  - intros ej v He Hv Hm. apply mp_step; assumption.
Qed.

End Clauses.
