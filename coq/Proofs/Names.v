(* C02 (second half), cluster level, every schedule: every request ever sent names its sender - an AppendEntries
   or InstallSnapshot request names the node that sent it as leader, a RequestVote request names its sender as
   candidate - and AppendEntries / InstallSnapshot requests are only created by a node whose role is Leader. *)
From RaftV Require Import Cluster.World Cluster.Statements.
From RaftV Require Import Proofs.Frame Proofs.Votes Proofs.VoteRecords.
Open Scope N_scope.

Definition named (c : call) : Prop :=
  match c_req c with
  | ReqAE q => ae_leader q = c_src c
  | ReqIS q => is_leader q = c_src c
  | ReqRV q => rv_cand q = c_src c
  end.

Definition NInv (w : world) : Prop := forall c, In c (w_calls w) -> named c.

Lemma NInv_calls w w' : w_calls w' = w_calls w -> NInv w -> NInv w'.
Proof. intros E H c Hc. rewrite E in Hc. exact (H c Hc). Qed.

Lemma NInv_set_call w c0 : NInv w -> named c0 -> NInv (set_call w c0).
Proof.
  intros H H0 c Hc. change (w_calls (set_call w c0)) with (upd_call c0 (w_calls w)) in Hc.
  apply in_upd_call in Hc. destruct Hc as [Hc|[-> _]]; [exact (H c Hc)|exact H0].
Qed.

Lemma NInv_new_call w src dst rid g q :
  NInv w -> named {| c_id := w_next_call w; c_src := src; c_dst := dst; c_round := rid; c_fgen := g; c_req := q; c_resp := None; c_state := CPending |} ->
  NInv (new_call w src dst rid g q).
Proof.
  intros H H0 c Hc. unfold new_call in Hc. cbn [w_calls set] in Hc.
  apply in_app_or in Hc. destruct Hc as [Hc|[<-|[]]]; [exact (H c Hc)|exact H0].
Qed.

Lemma named_upd c c' : c_src c' = c_src c -> c_req c' = c_req c -> named c -> named c'.
Proof. unfold named. intros -> ->. tauto. Qed.

(* ---- the senders ---- *)
Lemma rv_send_named n rid peer pv q : l_rv_send n rid peer pv = Some q -> rv_cand q = n_id n.
Proof.
  unfold l_rv_send. intros H.
  destruct (negb (n_term n =? round_term n rid)); [inversion H|].
  destruct (negb (is_voter (conf_of n) peer) || negb (is_voter (conf_of n) (n_id n))); [inversion H|].
  inversion H. reflexivity.
Qed.

Lemma is_send_named n peer n1 q : l_is_send n peer = (n1, Some q) -> is_leader q = n_id n /\ n_role n = Leader.
Proof.
  unfold l_is_send. destruct (role_eqb (n_role n) Leader) eqn:ER; cbv beta iota delta [negb]; [|discriminate].
  destruct (n_lii n =? 0); [discriminate|].
  match goal with |- (match ?c with _ => _ end) = _ -> _ => destruct c as [[s o]|] end; [|discriminate].
  intros H. apply (f_equal (fun x => match snd x with Some y => is_leader y | None => 0 end)) in H.
  cbv beta iota delta [snd is_leader] in H.
  split; [symmetry; exact H|destruct (n_role n); try discriminate; reflexivity].
Qed.

Lemma ae_send_named n peer n1 s :
  l_ae_send n peer = (n1, s) ->
  match s with
  | SentAE q => ae_leader q = n_id n /\ n_role n = Leader
  | SentIS q => is_leader q = n_id n /\ n_role n = Leader
  | SentNothing => True
  end.
Proof.
  unfold l_ae_send.
  destruct (role_eqb (n_role n) Leader) eqn:ER; cbn [negb orb]; [|intros H; injection H as _ <-; exact I].
  assert (HL : n_role n = Leader) by (destruct (n_role n); try discriminate; reflexivity).
  destruct (negb (is_member (conf_of n) peer)); [intros H; injection H as _ <-; exact I|].
  destruct (f_next (get_follower n peer) <=? n_lii n).
  - destruct (l_is_send n peer) as [m [q|]] eqn:E; intros H; injection H as _ <-; [|exact I].
    exact (is_send_named _ _ _ _ E).
  - destruct (next_index (n_log n) <? f_next (get_follower n peer)); intros H; injection H as _ <-; [exact I|].
    split; [reflexivity|exact HL].
Qed.

Lemma id_set_fobj n id g f : n_id (set_fobj n id g f) = n_id n.
Proof. unfold set_fobj. destruct (_ =? g); reflexivity. Qed.

Lemma ae_reply_named now n rid peer g q p n1 isq :
  l_ae_reply now n rid peer g q p = (n1, Some isq) -> is_leader isq = n_id n.
Proof.
  unfold l_ae_reply. destruct (_ || _); [discriminate|].
  destruct (n_term n <? aer_term p); [discriminate|]. destruct (negb _); [discriminate|].
  set (m1 := if is_voter (conf_of n) peer then bump_round n rid else n).
  set (m2 := if is_voter (conf_of n) peer && has_quorum (conf_of m1) (round_count m1 rid)
             then try_apply_ro now m1 (round_stamp m1 rid) else m1).
  assert (I2 : n_id m2 = n_id n).
  { subst m2 m1. destruct (is_voter (conf_of n) peer); cbn [andb]; [|reflexivity]. destruct (has_quorum _ _); reflexivity. }
  clearbody m2. clear m1.
  destruct (negb (aer_success p)).
  - set (m3 := set_fobj m2 peer g _). assert (I3 : n_id m3 = n_id n) by (subst m3; rewrite id_set_fobj; exact I2).
    clearbody m3. destruct (aer_index p <=? n_lii m3); [|discriminate].
    intros H. destruct (l_is_send m3 peer) as [m [q'|]] eqn:E; [|discriminate].
    injection H as _ <-. destruct (is_send_named _ _ _ _ E) as [E1 _]. congruence.
  - destruct (f_match (fobj m2 peer g) <? _); discriminate.
Qed.

(* ---- one step ---- *)
Lemma NInv_on_node w id f : NInv w -> NInv (on_node w id f).
Proof. intros H. unfold on_node. destruct (get_node w id); [|exact H]. exact (NInv_calls _ _ eq_refl H). Qed.

Lemma NInv_step_deliver w cl dup : NInv w -> In cl (w_calls w) -> NInv (step_deliver w cl dup).
Proof.
  intros H Gin. pose proof (H cl Gin) as Hn.
  assert (Hn1 : forall r st, named (cl <| c_resp := r |> <| c_state := st |>)) by (intros; exact Hn).
  assert (Hn2 : forall st, named (cl <| c_state := st |>)) by (intros; exact Hn).
  unfold step_deliver. destruct (get_node w (c_dst cl)) as [n|].
  - destruct (n_frozen n); [destruct dup; [exact H|apply NInv_set_call; [exact H|apply Hn2]]|].
    destruct (run_handler (w_now w) n (c_req cl)) as [[n1 resp] parked].
    destruct dup; [exact (NInv_calls _ _ eq_refl H)|].
    destruct (n_frozen n1); [apply NInv_set_call; [exact (NInv_calls _ _ eq_refl H)|apply Hn2]|].
    destruct resp; apply NInv_set_call; try exact (NInv_calls _ _ eq_refl H); [apply Hn1|apply Hn2].
  - destruct dup; [exact H|apply NInv_set_call; [exact H|apply Hn2]].
Qed.

Lemma NInv_step_reply w cl failed : NInv w -> In cl (w_calls w) -> NInv (step_reply w cl failed).
Proof.
  intros H Gin. pose proof (H cl Gin) as Hn. unfold step_reply.
  set (w0 := set_call w (cl <| c_state := CDone |>)).
  assert (H0 : NInv w0) by (apply NInv_set_call; [exact H|exact Hn]).
  clearbody w0.
  destruct (get_node w (c_src cl)) as [n|] eqn:G; [|exact H0].
  apply get_node_id in G.
  destruct (n_frozen n); [exact H0|].
  destruct (c_req cl) as [q|q|q]; destruct (if failed then None else c_resp cl) as [[p|p|p]|];
    try exact H0; try exact (NInv_calls _ _ eq_refl H0).
  destruct (l_ae_reply (w_now w) n (c_round cl) (c_dst cl) (c_fgen cl) q p) as [n1 [isq|]] eqn:E;
    [|exact (NInv_calls _ _ eq_refl H0)].
  apply NInv_new_call; [exact (NInv_calls _ _ eq_refl H0)|].
  unfold named. cbn [c_req c_src]. exact (ae_reply_named _ _ _ _ _ _ _ _ _ E).
Qed.

Lemma NInv_step_task w m : NInv w -> NInv (step_task w m).
Proof.
  intros H. unfold step_task. destruct (n_tasks m) as [|t rest]; [exact H|].
  set (m0 := m <| n_tasks := rest |>). assert (I0 : n_id m0 = n_id m) by reflexivity. clearbody m0.
  destruct t as [rid peer pv|rid peer].
  - destruct (l_rv_send m0 rid peer pv) as [q|] eqn:E; [|exact (NInv_calls _ _ eq_refl H)].
    apply NInv_new_call; [exact (NInv_calls _ _ eq_refl H)|].
    unfold named. cbn [c_req c_src]. rewrite (rv_send_named _ _ _ _ _ E). exact I0.
  - destruct (l_ae_send m0 peer) as [m1 s] eqn:E. pose proof (ae_send_named _ _ _ _ E) as HS.
    destruct s as [|q|q]; [exact (NInv_calls _ _ eq_refl H)| |];
      (apply NInv_new_call; [exact (NInv_calls _ _ eq_refl H)|]);
      unfold named; cbn [c_req c_src]; destruct HS as [HS _]; rewrite HS; exact I0.
Qed.

Lemma NInv_map w (g : call -> call) :
  (forall c, c_src (g c) = c_src c /\ c_req (g c) = c_req c) -> NInv w -> NInv (w <| w_calls ::= map g |>).
Proof.
  intros Hg H c Hc. cbn [w_calls set] in Hc. apply in_map_iff in Hc. destruct Hc as (d & <- & Hd).
  destruct (Hg d) as [E1 E2]. exact (named_upd d (g d) E1 E2 (H d Hd)).
Qed.

Theorem step_NInv w l : NInv w -> NInv (step w l).
Proof.
  intros H. destruct l; cbn [step]; try (apply NInv_on_node; exact H).
  - exact (NInv_calls _ _ eq_refl H).
  - destruct (get_call w c) as [cl|] eqn:G; [|exact H]. destruct (c_state cl); try exact H.
    apply get_call_in in G. apply NInv_step_deliver; tauto.
  - destruct (get_call w c) as [cl|] eqn:G; [|exact H].
    apply get_call_in in G. apply NInv_step_deliver; tauto.
  - destruct (get_call w c) as [cl|] eqn:G; [|exact H]. apply get_call_in in G.
    destruct (c_state cl); try exact H; apply NInv_step_reply; tauto.
  - destruct (get_call w c) as [cl|] eqn:G; [|exact H]. apply get_call_in in G.
    destruct (c_state cl); try exact H; apply NInv_step_reply; tauto.
  - unfold drop_calls_of. apply NInv_map; [|apply NInv_on_node; exact H].
    intros c. destruct (c_src c =? n); split; reflexivity.
  - destruct (get_node w n) as [m|]; [|exact H]. destruct (is_up m); [apply NInv_step_task|]; exact H.
  - destruct (get_node w n) as [m|]; [|exact H].
    destruct (lp_install_resume m) as [m1 [q|]]; [|exact H].
    match goal with |- NInv (match ?x with _ => _ end) => destruct x as [c0|] eqn:F end;
      [|exact (NInv_calls _ _ eq_refl H)].
    apply find_some in F. destruct F as [F _].
    apply NInv_set_call; [exact (NInv_calls _ _ eq_refl H)|]. exact (H c0 F).
Qed.

(* every request ever sent, in every reachable world of every schedule, names its sender *)
Theorem requests_name_their_sender ids boot et ld ls :
  NInv (run (init_world ids boot et ld) ls).
Proof.
  unfold run. assert (H0 : NInv (init_world ids boot et ld)) by (intros c []).
  revert H0. generalize (init_world ids boot et ld). induction ls as [|l ls IH]; intros w H; cbn [fold_left]; [exact H|].
  apply IH. apply step_NInv. exact H.
Qed.

(* ---- a new AppendEntries / InstallSnapshot request is created only by a node that is Leader at that moment, and
   carries that node's current term ---- *)
Definition from_leader (w : world) (c : call) : Prop :=
  match c_req c with
  | ReqAE q => exists n, get_node w (c_src c) = Some n /\ n_role n = Leader /\ ae_term q = n_term n
  | ReqIS q => exists n, get_node w (c_src c) = Some n /\ n_role n = Leader /\ is_term q = n_term n
  | ReqRV _ => True
  end.

Lemma is_send_term n peer n1 q : l_is_send n peer = (n1, Some q) -> is_term q = n_term n.
Proof.
  unfold l_is_send. destruct (role_eqb (n_role n) Leader); cbv beta iota delta [negb]; [|discriminate].
  destruct (n_lii n =? 0); [discriminate|].
  match goal with |- (match ?c with _ => _ end) = _ -> _ => destruct c as [[s o]|] end; [|discriminate].
  intros H. apply (f_equal (fun x => match snd x with Some y => is_term y | None => 0 end)) in H.
  cbv beta iota delta [snd is_term] in H. symmetry. exact H.
Qed.

Lemma ae_send_term n peer n1 s :
  l_ae_send n peer = (n1, s) ->
  match s with SentAE q => ae_term q = n_term n | SentIS q => is_term q = n_term n | SentNothing => True end.
Proof.
  unfold l_ae_send.
  destruct (role_eqb (n_role n) Leader); cbn [negb orb]; [|intros H; injection H as _ <-; exact I].
  destruct (negb (is_member (conf_of n) peer)); [intros H; injection H as _ <-; exact I|].
  destruct (f_next (get_follower n peer) <=? n_lii n).
  - destruct (l_is_send n peer) as [m [q|]] eqn:E; intros H; injection H as _ <-; [|exact I].
    exact (is_send_term _ _ _ _ E).
  - destruct (next_index (n_log n) <? f_next (get_follower n peer)); intros H; injection H as _ <-; [exact I|reflexivity].
Qed.

(* the head task of a running node *)
Theorem task_request_from_leader w m c :
  get_node w (n_id m) = Some m ->
  In c (w_calls (step_task w m)) -> ~ In c (w_calls w) -> from_leader w c.
Proof.
  intros G Hc Hn. unfold step_task in Hc. destruct (n_tasks m) as [|t rest]; [contradiction|].
  set (m0 := m <| n_tasks := rest |>) in *.
  assert (P0 : n_id m0 = n_id m /\ n_role m0 = n_role m /\ n_term m0 = n_term m) by (repeat split).
  clearbody m0. destruct P0 as (I0 & R0 & T0).
  destruct t as [rid peer pv|rid peer].
  - destruct (l_rv_send m0 rid peer pv) as [q|] eqn:E; [|contradiction].
    unfold new_call in Hc. cbn [w_calls set] in Hc. apply in_app_or in Hc.
    destruct Hc as [Hc|[<-|[]]]; [contradiction|]. exact I.
  - destruct (l_ae_send m0 peer) as [m1 s] eqn:E.
    pose proof (ae_send_named _ _ _ _ E) as HN. pose proof (ae_send_term _ _ _ _ E) as HT.
    destruct s as [|q|q]; [contradiction| |];
      unfold new_call in Hc; cbn [w_calls set] in Hc; apply in_app_or in Hc;
      (destruct Hc as [Hc|[<-|[]]]; [contradiction|]);
      unfold from_leader; cbn [c_req c_src]; exists m; destruct HN as [_ HL];
      (split; [exact G|split; [rewrite <- R0; exact HL|rewrite HT; exact T0]]).
Qed.
