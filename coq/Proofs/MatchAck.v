(* matchIndex is backed by a recorded acknowledgement (stepping stone of C07, leader completeness).
   Whatever a leader believes a follower has replicated (f_match) is backed by a recorded successful
   AppendEntries response of that follower to a request of the leader's CURRENT term reaching at least
   that far - over every schedule without local snapshots: duplicated, delayed and stale responses,
   crashes, restarts, membership changes included.
   Node level: a sweep of FR (no section other than the processing of an AppendEntries / InstallSnapshot
   response raises a match index: every match index afterwards is 0 or the match index of the same peer
   before) over every function of the node; KZ (a leader afterwards was a leader of the same term before,
   or is a fresh leader whose match indexes are all 0); AR (what the processing of an AppendEntries
   response does).  World level: the acknowledgements recorded in the RPC records persist (CA, acked_step);
   every node after a step is backed by the records before the step (step_NO). *)
From RaftV Require Import Cluster.World Cluster.Statements Proofs.Frame.
From RaftV Require Import Proofs.VoteRecords Proofs.ElectDefs Proofs.RoleFrame.
From RaftV Require Import Proofs.LogDefs Proofs.NoSnap Proofs.LCDefs.
Open Scope N_scope.

(* ================= association lists ================= *)
Lemma in_put {V} (k : N) (v : V) l p x : In (p, x) (put k v l) -> (p = k /\ x = v) \/ In (p, x) l.
Proof.
  induction l as [|[k' v'] l IH]; cbn [put].
  - intros [H|[]]. injection H as <- <-. left. split; reflexivity.
  - destruct (k =? k').
    + intros [H|H]; [injection H as <- <-; left; split; reflexivity|right; right; exact H].
    + destruct (k <? k').
      * intros [H|H]; [injection H as <- <-; left; split; reflexivity|right; exact H].
      * intros [H|H]; [right; left; exact H|]. destruct (IH H) as [A|A]; [left; exact A|right; right; exact A].
Qed.

Lemma lookup_in {V} (k : N) (l : list (N * V)) v : lookup k l = Some v -> In (k, v) l.
Proof.
  induction l as [|[k' v'] l IH]; cbn [lookup]; [discriminate|].
  destruct (N.eqb_spec k k') as [->|NE].
  - intros H. injection H as ->. left. reflexivity.
  - intros H. right. apply IH, H.
Qed.

(* ================= node level ================= *)
(* FR: no match index is raised *)
Definition FR (m m' : node) : Prop :=
  forall p f', In (p, f') (n_followers m') ->
    f_match f' = 0 \/ exists f, In (p, f) (n_followers m) /\ f_match f' = f_match f.
(* Z: every match index is 0 *)
Definition Z (m : node) : Prop := forall p f, In (p, f) (n_followers m) -> f_match f = 0.
(* KZ: a leader was a leader of the same term, or is a fresh one *)
Definition KZ (m m' : node) : Prop :=
  n_role m' = Leader -> (n_role m = Leader /\ n_term m' = n_term m) \/ Z m'.
Definition M (m m' : node) : Prop := KZ m m' /\ FR m m'.

Lemma FR_refl m : FR m m.
Proof. intros p f H. right. exists f. split; [exact H|reflexivity]. Qed.
Lemma FR_trans a b c : FR a b -> FR b c -> FR a c.
Proof.
  intros H1 H2 p f' H. destruct (H2 p f' H) as [E|(f & Hf & E)]; [left; exact E|].
  destruct (H1 p f Hf) as [E1|(f0 & Hf0 & E1)]; [left; congruence|].
  right. exists f0. split; [exact Hf0|congruence].
Qed.
Lemma FR_of_eq m m' : n_followers m' = n_followers m -> FR m m'.
Proof. intros E p f H. rewrite E in H. right. exists f. split; [exact H|reflexivity]. Qed.

(* the base node is abstracted first: conversion on large node terms is slow *)
Ltac frf :=
  match goal with
  | |- FR ?x _ => first [ is_var x; apply FR_of_eq; reflexivity
                        | let y := fresh "base" in generalize x; intro y; apply FR_of_eq; reflexivity
                        | apply FR_of_eq; reflexivity ]
  end.

Lemma FR_of_map m m' (g : fstate -> fstate) :
  n_followers m' = map (fun p => (fst p, g (snd p))) (n_followers m) ->
  (forall x, f_match (g x) = f_match x \/ f_match (g x) = 0) -> FR m m'.
Proof.
  intros E Hg p f' H. rewrite E in H. apply in_map_iff in H. destruct H as ([p0 f0] & H1 & H2).
  cbn [fst snd] in H1. injection H1 as <- <-. destruct (Hg f0) as [A|A]; [|left; exact A].
  right. exists f0. split; [exact H2|exact A].
Qed.

Lemma FR_of_put m m' id f :
  n_followers m' = put id f (n_followers m) ->
  (f_match f = 0 \/ exists f0, In (id, f0) (n_followers m) /\ f_match f = f_match f0) -> FR m m'.
Proof.
  intros E Hf p f' H. rewrite E in H. apply in_put in H. destruct H as [[-> ->]|H]; [exact Hf|].
  right. exists f'. split; [exact H|reflexivity].
Qed.

Lemma FR_of_filter m m' k : n_followers m' = filter k (n_followers m) -> FR m m'.
Proof.
  intros E p f' H. rewrite E in H. apply filter_In in H. right. exists f'. split; [apply H|reflexivity].
Qed.

Lemma FR_of_nil m m' : n_followers m' = [] -> FR m m'.
Proof. intros E p f' H. rewrite E in H. destruct H. Qed.

Lemma Z_FR m m' : Z m -> FR m m' -> Z m'.
Proof.
  intros HZ HF p f' H. destruct (HF p f' H) as [E|(f & Hf & E)]; [exact E|]. rewrite E. apply (HZ p f Hf).
Qed.

Lemma gf_ok n id :
  f_match (get_follower n id) = 0 \/ exists f0, In (id, f0) (n_followers n) /\ f_match (get_follower n id) = f_match f0.
Proof.
  unfold get_follower. destruct (lookup id (n_followers n)) as [f|] eqn:E; [|left; reflexivity].
  right. exists f. split; [apply lookup_in, E|reflexivity].
Qed.

Lemma KZ_of_K m m' : K m m' -> KZ m m'.
Proof. intros HK H. left. apply (k_leader _ _ HK H). Qed.
Lemma KZ_not_leader m m' : n_role m' <> Leader -> KZ m m'.
Proof. intros H E. contradiction. Qed.
Lemma M_of_K m m' : K m m' -> FR m m' -> M m m'.
Proof. intros H1 H2. split; [apply KZ_of_K, H1|exact H2]. Qed.
Lemma M_refl m : M m m.
Proof. apply M_of_K; [apply K_refl|apply FR_refl]. Qed.

(* what M is for *)
Lemma match_ok_M cs m m' : M m m' -> match_ok cs m -> match_ok cs m'.
Proof.
  intros [HK HF] Hm HL p f' Hin. destruct (HK HL) as [[HL0 ET]|HZ]; [|left; apply (HZ p f' Hin)].
  destruct (HF p f' Hin) as [E|(f & Hf & E)]; [left; exact E|].
  rewrite E, ET. apply (Hm HL0 p f Hf).
Qed.

(* ---------------- Handlers.v ---------------- *)
Lemma FR_tick n : FR n (snd (tick_write n)).
Proof.
  unfold tick_write. destruct (n_frozen n); [apply FR_refl|].
  destruct (n_budget n) as [k|]; [|apply FR_refl]. destruct (k =? 0); cbn [snd]; frf.
Qed.

Lemma FR_write (f : node -> node) n :
  (forall m, FR m (f m)) -> FR n (let (ok, n1) := tick_write n in if ok then f n1 else n1).
Proof.
  intros Hf. pose proof (FR_tick n) as H. destruct (tick_write n) as [ok n1]. cbn [snd] in H.
  destruct ok; [|exact H]. eapply FR_trans; [exact H|apply Hf].
Qed.

Lemma FR_persist n : FR n (persist n).
Proof. unfold persist. apply FR_write. intros m. frf. Qed.
Lemma FR_truncate n i : FR n (truncate_log n i).
Proof. unfold truncate_log. apply FR_write. intros m. frf. Qed.

Lemma FR_append es : forall n, FR n (append_entries n es).
Proof.
  induction es as [|e es IH]; intros n; cbn [append_entries]; [apply FR_refl|].
  pose proof (FR_tick n) as H. destruct (tick_write n) as [ok n1]. cbn [snd] in H.
  destruct ok; [|exact H]. eapply FR_trans; [exact H|]. eapply FR_trans; [|apply IH]. frf.
Qed.

Lemma FR_fail o n : FR n (fail o n).
Proof. unfold fail. destruct (n_out n); [frf|apply FR_refl|apply FR_refl]. Qed.

Lemma FR_respond n f r : FR n (respond n f r).
Proof. unfold respond. destruct (n_frozen n); [apply FR_refl|]. destruct (existsb _ _); [apply FR_refl|frf]. Qed.
Lemma FR_respond_all fids : forall n r, FR n (respond_all n fids r).
Proof.
  induction fids as [|f fids IH]; intros n r; [apply FR_refl|].
  cbn [respond_all fold_left]. fold (respond_all (respond n f r) fids r).
  eapply FR_trans; [apply FR_respond|apply IH].
Qed.
Lemma FR_new_opmanager now n : FR n (new_opmanager now n). Proof. frf. Qed.
Lemma FR_notify n : FR n (notify_lost_leadership n).
Proof. unfold notify_lost_leadership. eapply FR_trans; apply FR_respond_all. Qed.
Lemma FR_cancel n : FR n (cancel_conf_change n).
Proof.
  unfold cancel_conf_change. destruct (n_cfg_fid n); [|apply FR_refl].
  eapply FR_trans; [apply FR_respond|frf].
Qed.

Lemma FR_new_follower n id nx : FR n (new_follower n id nx).
Proof.
  apply (FR_of_put n _ id {| f_next := nx; f_match := 0; f_snap := None; f_gen := n_fgen n |}); [reflexivity|].
  left. reflexivity.
Qed.

Lemma FR_new_followers nx ids : forall n, FR n (fold_left (fun m id => new_follower m id nx) ids n).
Proof.
  induction ids as [|id ids IH]; intros n; cbn [fold_left]; [apply FR_refl|].
  eapply FR_trans; [apply FR_new_follower|apply IH].
Qed.

Lemma FR_reset n : FR n (reset_snapshot_files n).
Proof.
  apply (FR_of_map n _ (fun x => x <| f_snap := None |>)); [reflexivity|]. intros x. left. reflexivity.
Qed.

Lemma FR_become_follower now n l t : FR n (become_follower now n l t).
Proof.
  unfold become_follower.
  eapply FR_trans; [|apply FR_cancel]. eapply FR_trans; [|apply FR_new_opmanager].
  eapply FR_trans; [|apply FR_notify]. eapply FR_trans; [|apply FR_reset].
  eapply FR_trans; [|apply FR_persist]. frf.
Qed.

Lemma FR_stepdown now n : FR n (stepdown now n).
Proof.
  unfold stepdown. eapply FR_trans; [|apply FR_cancel]. eapply FR_trans; [|apply FR_new_opmanager].
  eapply FR_trans; [|apply FR_notify]. frf.
Qed.

Lemma FR_next_configuration now n next : FR n (next_configuration now n next).
Proof.
  unfold next_configuration. destruct next as [nx|]; [|apply FR_fail].
  set (n1 := if is_member nx (n_id n) then n else _).
  assert (H1 : FR n n1).
  { subst n1. destruct (is_member nx (n_id n)); [apply FR_refl|].
    eapply FR_trans; [|apply FR_reset]. destruct (role_eqb (n_role n) Leader); [apply FR_stepdown|apply FR_refl]. }
  clearbody n1. eapply FR_trans; [exact H1|].
  match goal with |- FR n1 (fold_left ?f ?l ?n2 <| n_conf := ?c |>) =>
    apply FR_trans with n2; [|apply FR_trans with (fold_left f l n2); [apply FR_new_followers|]] end.
  - eapply FR_of_filter. reflexivity.
  - frf.
Qed.

Lemma FR_apply_configuration now n c : FR n (apply_configuration now n c).
Proof.
  unfold apply_configuration.
  assert (H : FR n (next_configuration now n (Some c) <| n_cconf := Some c |>)).
  { eapply FR_trans; [apply FR_next_configuration|]. frf. }
  destruct (n_cconf n) as [cc|]; [|exact H]. destruct (c_index c <=? c_index cc); [apply FR_refl|exact H].
Qed.

(* ---- AppendEntries ---- *)
Lemma FR_ae_scan now es : forall n n4 l, ae_scan now n es = Some (n4, l) -> FR n n4.
Proof.
  induction es as [|e es IH]; intros n n4 l H; cbn [ae_scan] in H.
  - injection H as <- _. apply FR_refl.
  - destruct (last_index (n_log n) <? e_index e); [injection H as <- _; apply FR_refl|].
    destruct (log_get (n_log n) (e_index e)) as [ex|]; [|discriminate].
    destruct ((e_index ex =? e_index e) && negb (e_term ex =? e_term e)).
    + injection H as <- _.
      destruct (e_index e <=? c_index (conf_of (truncate_log n (e_index e)))).
      * eapply FR_trans; [apply FR_truncate|apply FR_next_configuration].
      * apply FR_truncate.
    + eapply IH; exact H.
Qed.

Lemma FR_signal_apply n : FR n (signal_apply n). Proof. unfold signal_apply. frf. Qed.

Lemma FR_h_append_entries now n q : FR n (fst (h_append_entries now n q)).
Proof.
  unfold h_append_entries.
  destruct (role_eqb (n_role n) Shutdown); [apply FR_refl|].
  destruct (ae_term q <? n_term n); [apply FR_refl|].
  set (n1 := n <| n_contact := now |> <| n_leader := Some (ae_leader q) |>).
  assert (H1 : FR n n1) by frf.
  clearbody n1.
  set (n2 := if n_term n1 <? ae_term q then become_follower now n1 (ae_leader q) (ae_term q) else n1).
  assert (H2 : FR n1 n2).
  { subst n2. destruct (n_term n1 <? ae_term q); [|apply FR_refl]. apply FR_become_follower. }
  clearbody n2.
  set (n3 := if (ae_term q =? n_term n2) && _ then become_follower now n2 (ae_leader q) (ae_term q) else n2).
  assert (H3 : FR n2 n3).
  { subst n3. destruct ((ae_term q =? n_term n2) && _); [|apply FR_refl]. apply FR_become_follower. }
  clearbody n3.
  assert (H03 : FR n n3) by (eapply FR_trans; [exact H1|eapply FR_trans; eassumption]).
  destruct (ae_prev_index q <? n_lii n3); [exact H03|].
  destruct (next_index (n_log n3) <=? ae_prev_index q); [exact H03|].
  destruct ((n_lii n3 =? ae_prev_index q) && negb (n_lit n3 =? ae_prev_term q)); [exact H03|].
  match goal with |- FR n (fst (match ?c with _ => _ end)) => destruct c as [[idx|]|] end.
  - exact H03.
  - cbn [fst]. eapply FR_trans; [exact H03|apply FR_fail].
  - destruct (ae_scan now n3 (ae_entries q)) as [[n4 to_append]|] eqn:Es.
    + cbn [fst]. eapply FR_trans; [exact H03|].
      eapply FR_trans; [eapply FR_ae_scan; exact Es|].
      eapply FR_trans; [apply FR_append|].
      match goal with |- FR _ (if ?c then _ else _) => destruct c end; [|apply FR_refl].
      unfold signal_apply. frf.
    + cbn [fst]. eapply FR_trans; [exact H03|apply FR_fail].
Qed.

(* ---- RequestVote ---- *)
Lemma FR_h_request_vote now n q : FR n (fst (h_request_vote now n q)).
Proof.
  unfold h_request_vote.
  destruct (role_eqb (n_role n) Shutdown); [apply FR_refl|].
  destruct (lease_valid now n || recent_contact now n); [apply FR_refl|].
  destruct (rv_term q <? n_term n); [apply FR_refl|].
  set (n1 := if negb (rv_prevote q) && (n_term n <? rv_term q) then become_follower now n (rv_cand q) (rv_term q) else n).
  assert (H1 : FR n n1).
  { subst n1. destruct (negb (rv_prevote q) && (n_term n <? rv_term q)); [|apply FR_refl].
    apply FR_become_follower. }
  clearbody n1.
  destruct (negb (rv_prevote q) && match n_vote n1 with Some v => negb (v =? rv_cand q) | None => false end);
    [exact H1|].
  destruct ((rv_last_term q <? last_term (n_log n1)) || _); [exact H1|].
  cbn [fst]. destruct (rv_prevote q); [exact H1|].
  eapply FR_trans; [exact H1|]. eapply FR_trans; [|apply FR_persist]. frf.
Qed.

(* ---------------- Leader.v ---------------- *)
Lemma FR_set_follower_gf n id f : f_match f = f_match (get_follower n id) -> FR n (set_follower n id f).
Proof.
  intros E. apply (FR_of_put n _ id f); [reflexivity|]. rewrite E. apply gf_ok.
Qed.

Lemma fobj_current n id g : (f_gen (get_follower n id) =? g) = true -> fobj n id g = get_follower n id.
Proof. intros E. unfold fobj. cbv zeta. rewrite E. reflexivity. Qed.

(* writing back the captured follower object with its match index unchanged *)
Lemma FR_set_fobj n id g f : f_match f = f_match (fobj n id g) -> FR n (set_fobj n id g f).
Proof.
  intros E. unfold set_fobj. destruct (f_gen (get_follower n id) =? g) eqn:G; [|frf].
  rewrite (fobj_current n id g G) in E. apply FR_set_follower_gf, E.
Qed.

Lemma in_set_fobj n id g f p x :
  In (p, x) (n_followers (set_fobj n id g f)) -> (p = id /\ x = f) \/ In (p, x) (n_followers n).
Proof.
  unfold set_fobj. destruct (f_gen (get_follower n id) =? g).
  - unfold set_follower. cbn [n_followers set]. apply in_put.
  - intros H. right. exact H.
Qed.

Lemma FR_bump n r : FR n (bump_round n r). Proof. unfold bump_round. frf. Qed.
Lemma FR_try_apply_ro now n s : FR n (try_apply_ro now n s). Proof. unfold try_apply_ro, signal_ro. frf. Qed.
Lemma FR_signal_commit n : FR n (signal_commit n). Proof. unfold signal_commit. frf. Qed.
Lemma FR_signal_ro n : FR n (signal_ro n). Proof. unfold signal_ro. frf. Qed.
Lemma FR_signal_election n : FR n (signal_election n). Proof. unfold signal_election. frf. Qed.
Lemma FR_signal_snapshot n : FR n (signal_snapshot n). Proof. unfold signal_snapshot. frf. Qed.

Lemma FR_send_ae_to_peers now n : FR n (send_ae_to_peers now n).
Proof.
  unfold send_ae_to_peers.
  set (n0 := n <| n_hb_rounds ::= N.succ |>).
  assert (H0 : FR n n0) by frf.
  set (n1 := if is_single (conf_of n) (n_id n) then _ else n0).
  assert (H1 : FR n0 n1).
  { subst n1. destruct (is_single (conf_of n) (n_id n)); [|apply FR_refl].
    eapply FR_trans; [|apply FR_try_apply_ro].
    destruct (n_commit n0 <? last_index (n_log n0)); [apply FR_signal_commit|apply FR_refl]. }
  eapply FR_trans; [exact H0|]. eapply FR_trans; [exact H1|].
  generalize (n_hb_rounds n0). intros stamp. clearbody n1.
  unfold new_round. cbn [fst snd]. frf.
Qed.

(* becomeLeader: every match index is reset *)
Lemma Z_become_leader now n : Z (become_leader now n).
Proof.
  unfold become_leader.
  set (n1 := new_opmanager now (n <| n_role := Leader |>)). clearbody n1.
  set (n2 := n1 <| n_followers ::= map (fun p => (fst p, snd p <| f_next := last_index (n_log n1) + 1 |> <| f_match := 0 |>)) |>).
  assert (H2 : Z n2).
  { intros p f H. subst n2. cbn [n_followers set] in H. apply in_map_iff in H. destruct H as (x & E & _).
    injection E as _ <-. reflexivity. }
  clearbody n2. apply (Z_FR n2); [exact H2|].
  eapply FR_trans; [|apply FR_send_ae_to_peers]. eapply FR_trans; [|apply FR_append]. apply FR_reset.
Qed.

Lemma FR_become_leader now n : FR n (become_leader now n).
Proof. intros p f H. left. apply (Z_become_leader now n p f H). Qed.

Lemma M_become_leader now n : M n (become_leader now n).
Proof. split; [intros _; right; apply Z_become_leader|apply FR_become_leader]. Qed.

Lemma FR_send_rv_to_peers now n : FR n (send_rv_to_peers now n).
Proof.
  unfold send_rv_to_peers. destruct (is_single (conf_of n) (n_id n)).
  - intros p f H. left. exact (Z_become_leader _ _ p f H).
  - unfold new_round. frf.
Qed.

Lemma KZ_send_rv_to_peers now n : n_role n <> Leader -> KZ n (send_rv_to_peers now n).
Proof.
  intros NL. unfold send_rv_to_peers. destruct (is_single (conf_of n) (n_id n)).
  - intros _. right. apply Z_become_leader.
  - apply KZ_not_leader. unfold new_round. exact NL.
Qed.

Lemma role_eqb_true a b : role_eqb a b = true -> a = b.
Proof. destruct a, b; cbn; intros H; try discriminate H; reflexivity. Qed.
Lemma role_eqb_false a b : role_eqb a b = false -> a <> b.
Proof. intros H E. subst b. destruct a; discriminate H. Qed.

Lemma FR_election now n : FR n (l_election now n).
Proof.
  unfold l_election.
  set (n0 := n <| n_cv ::= _ |>).
  assert (H0 : FR n n0) by frf. clearbody n0.
  match goal with |- FR n (if ?c then _ else _) => destruct c end; [exact H0|].
  set (n1 := if role_eqb (n_role n0) Follower then n0 <| n_role := PreCandidate |> else n0).
  assert (H1 : FR n0 n1) by (subst n1; destruct (role_eqb (n_role n0) Follower); [frf|apply FR_refl]).
  clearbody n1.
  eapply FR_trans; [exact H0|]. eapply FR_trans; [exact H1|]. eapply FR_trans; [|apply FR_send_rv_to_peers].
  destruct (role_eqb (n_role n1) Candidate); [|apply FR_refl].
  eapply FR_trans; [|apply FR_persist]. frf.
Qed.

Lemma role_tick n : n_role (snd (tick_write n)) = n_role n.
Proof.
  unfold tick_write. destruct (n_frozen n); [reflexivity|]. destruct (n_budget n) as [k|]; [destruct (k =? 0)|]; reflexivity.
Qed.
Lemma role_persist n : n_role (persist n) = n_role n.
Proof.
  unfold persist. pose proof (role_tick n) as H. destruct (tick_write n) as [ok n1]. cbn [snd] in H.
  destruct ok; exact H.
Qed.

Lemma KZ_election now n : KZ n (l_election now n).
Proof.
  unfold l_election.
  set (n0 := n <| n_cv ::= _ |>).
  assert (H0 : K n n0) by ktv.
  assert (R0 : n_role n0 = n_role n) by reflexivity. clearbody n0.
  destruct (role_eqb (n_role n0) Leader) eqn:RL; [apply KZ_of_K; exact H0|]. cbn [orb].
  match goal with |- KZ n (if ?c then _ else _) => destruct c end; [apply KZ_of_K; exact H0|].
  apply role_eqb_false in RL.
  set (n1 := if role_eqb (n_role n0) Follower then n0 <| n_role := PreCandidate |> else n0).
  assert (R1 : n_role n1 <> Leader).
  { subst n1. destruct (role_eqb (n_role n0) Follower); [discriminate|exact RL]. }
  clearbody n1.
  set (n2 := if role_eqb (n_role n1) Candidate then _ else n1).
  assert (R2 : n_role n2 <> Leader).
  { subst n2. destruct (role_eqb (n_role n1) Candidate); [|exact R1]. rewrite role_persist. exact R1. }
  clearbody n2.
  intros HL. destruct (KZ_send_rv_to_peers now n2 R2 HL) as [[A _]|A]; [contradiction|right; exact A].
Qed.

Lemma M_election now n : M n (l_election now n).
Proof. split; [apply KZ_election|apply FR_election]. Qed.

Lemma FR_rv_reply now n rid peer pv q p : FR n (l_rv_reply now n rid peer pv q p).
Proof.
  unfold l_rv_reply.
  destruct (role_eqb (n_role n) Shutdown); [apply FR_refl|].
  destruct (rv_term q <? n_term n); [apply FR_refl|].
  set (n1 := if rvr_granted p then bump_round n rid else n).
  assert (H1 : FR n n1) by (subst n1; destruct (rvr_granted p); [apply FR_bump|apply FR_refl]).
  clearbody n1.
  destruct (rv_term q <? rvr_term p).
  - eapply FR_trans; [exact H1|apply FR_become_follower].
  - eapply FR_trans; [exact H1|].
    set (n2 := if _ && role_eqb (n_role n1) PreCandidate then _ else n1).
    assert (H2 : FR n1 n2).
    { subst n2. match goal with |- FR _ (if ?c then _ else _) => destruct c end; [|apply FR_refl].
      eapply FR_trans; [|apply FR_signal_election]. frf. }
    match goal with |- FR _ (if ?c then _ else _) => destruct c end; [|exact H2].
    eapply FR_trans; [exact H2|apply FR_become_leader].
Qed.

Lemma KZ_rv_reply now n rid peer pv q p : KZ n (l_rv_reply now n rid peer pv q p).
Proof.
  unfold l_rv_reply.
  destruct (role_eqb (n_role n) Shutdown); [apply KZ_of_K, K_refl|].
  destruct (rv_term q <? n_term n); [apply KZ_of_K, K_refl|].
  set (n1 := if rvr_granted p then bump_round n rid else n).
  assert (H1 : n_role n1 = n_role n /\ n_term n1 = n_term n).
  { subst n1. destruct (rvr_granted p); split; reflexivity. }
  clearbody n1. destruct H1 as [R1 T1].
  destruct (rv_term q <? rvr_term p); [apply KZ_not_leader; rewrite role_become_follower; discriminate|].
  set (n2 := if _ && role_eqb (n_role n1) PreCandidate then _ else n1).
  assert (H2 : n_role n2 = Leader -> n_role n1 = Leader /\ n_term n2 = n_term n1).
  { subst n2. match goal with |- n_role (if ?c then _ else _) = _ -> _ => destruct c end; [|auto].
    unfold signal_election. intros H. discriminate H. }
  clearbody n2.
  match goal with |- KZ _ (if ?c then _ else _) => destruct c end.
  - intros _. right. apply Z_become_leader.
  - intros HL. left. destruct (H2 HL) as [A B]. split; congruence.
Qed.

Lemma M_rv_reply now n rid peer pv q p : M n (l_rv_reply now n rid peer pv q p).
Proof. split; [apply KZ_rv_reply|apply FR_rv_reply]. Qed.

(* ---- replication, sender side ---- *)
Lemma FR_is_send n peer : FR n (fst (l_is_send n peer)).
Proof.
  unfold l_is_send. destruct (negb (role_eqb (n_role n) Leader)); [apply FR_refl|].
  destruct (n_lii n =? 0); [apply FR_refl|].
  match goal with |- FR n (fst (match ?c with _ => _ end)) => destruct c as [[s o]|] end; cbn [fst];
    [apply FR_set_follower_gf; reflexivity|apply FR_fail].
Qed.

Lemma FR_ae_send n peer : FR n (fst (l_ae_send n peer)).
Proof.
  unfold l_ae_send. destruct (_ || _); [apply FR_refl|].
  destruct (f_next (get_follower n peer) <=? n_lii n).
  - pose proof (FR_is_send n peer) as H. destruct (l_is_send n peer) as [n1 [q|]]; exact H.
  - destruct (next_index (n_log n) <? f_next (get_follower n peer)); cbn [fst]; [apply FR_fail|apply FR_refl].
Qed.

(* AR: the processing of a response of [peer] to the AppendEntries request q: a match index is raised only
   for [peer], only by a success response, only if q is of the current term, and then to prev + len of q *)
Definition AR (peer : nid) (q : ae_req) (r : ae_resp) (m m' : node) : Prop :=
  forall p f', In (p, f') (n_followers m') ->
    f_match f' = 0 \/ (exists f, In (p, f) (n_followers m) /\ f_match f' = f_match f) \/
    (p = peer /\ aer_success r = true /\ ae_term q = n_term m /\
     f_match f' = ae_prev_index q + N.of_nat (length (ae_entries q))).

Lemma AR_of_FR peer q r m m' : FR m m' -> AR peer q r m m'.
Proof. intros H p f' Hin. destruct (H p f' Hin) as [A|A]; [left; exact A|right; left; exact A]. Qed.

Lemma AR_ae_reply now n rid peer g q r : AR peer q r n (fst (l_ae_reply now n rid peer g q r)).
Proof.
  unfold l_ae_reply.
  destruct (_ || _); [apply AR_of_FR, FR_refl|].
  destruct (n_term n <? aer_term r); [cbn [fst]; apply AR_of_FR, FR_become_follower|].
  destruct (N.eqb_spec (ae_term q) (n_term n)) as [ET|NT]; cbn [negb]; [|apply AR_of_FR, FR_refl].
  set (n1 := if is_voter (conf_of n) peer then bump_round n rid else n).
  set (n2 := if is_voter (conf_of n) peer && has_quorum (conf_of n1) (round_count n1 rid)
             then try_apply_ro now n1 (round_stamp n1 rid) else n1).
  assert (F2 : n_followers n2 = n_followers n).
  { subst n2 n1. destruct (is_voter (conf_of n) peer); cbn [andb]; [|reflexivity].
    destruct (has_quorum _ _); reflexivity. }
  clearbody n2. clear n1.
  destruct (aer_success r) eqn:ES; cbn [negb].
  - set (top := ae_prev_index q + N.of_nat (length (ae_entries q))).
    destruct (f_match (fobj n2 peer g) <? top); cbn [fst]; [|apply AR_of_FR, FR_of_eq, F2].
    set (f1 := fobj n2 peer g <| f_next := N.max (f_next (fobj n2 peer g)) (top + 1) |> <| f_match := top |>).
    assert (HM : f_match f1 = top) by reflexivity. clearbody f1.
    set (n3 := set_fobj n2 peer g f1).
    assert (H3 : forall p x, In (p, x) (n_followers n3) -> (p = peer /\ x = f1) \/ In (p, x) (n_followers n)).
    { intros p x H. subst n3. apply in_set_fobj in H. rewrite F2 in H. exact H. }
    clearbody n3.
    assert (E4 : n_followers (if n_commit n3 <? top then signal_commit n3 else n3) = n_followers n3)
      by (destruct (n_commit n3 <? top); reflexivity).
    intros p f' Hin. rewrite E4 in Hin. destruct (H3 p f' Hin) as [[-> ->]|H].
    + right. right. repeat split; try assumption.
    + right. left. exists f'. split; [exact H|reflexivity].
  - apply AR_of_FR.
    set (f1 := fobj n2 peer g <| f_next := aer_index r |>).
    assert (HM : f_match f1 = f_match (fobj n2 peer g)) by reflexivity. clearbody f1.
    pose proof (FR_set_fobj n2 peer g f1 HM) as H3.
    set (n3 := set_fobj n2 peer g f1) in *. clearbody n3.
    assert (H03 : FR n n3) by (eapply FR_trans; [apply FR_of_eq, F2|exact H3]).
    destruct (aer_index r <=? n_lii n3); [|exact H03].
    eapply FR_trans; [exact H03|apply FR_is_send].
Qed.

(* ---- loops ---- *)
Lemma FR_commit now n : FR n (lp_commit now n).
Proof.
  unfold lp_commit. set (n0 := n <| n_cv ::= _ |>). assert (H0 : FR n n0) by frf.
  destruct (negb (role_eqb (n_role n0) Leader)); [exact H0|].
  match goal with |- FR n (if ?c then _ else _) => destruct c end; [|exact H0].
  eapply FR_trans; [exact H0|]. eapply FR_trans; [|apply FR_send_ae_to_peers]. unfold signal_apply. frf.
Qed.

Lemma FR_upd_cfg m v : FR m (m <| n_cfg_fid := v |>). Proof. frf. Qed.
Lemma FR_upd_pending m f : FR m (m <| n_pending ::= f |>). Proof. frf. Qed.
Lemma FR_upd_applied m f : FR m (m <| n_applied ::= f |>). Proof. frf. Qed.
Lemma FR_upd_fsm m a f : FR m (m <| n_fsm := a |> <| n_applies ::= f |>). Proof. frf. Qed.

Lemma FR_apply_one now n : FR n (lp_apply_one now n).
Proof.
  unfold lp_apply_one. destruct (log_get (n_log n) (n_applied n + 1)) as [e|]; [|apply FR_fail].
  set (n1 := match e_kind e with KNoop => n | _ => _ end).
  assert (H1 : FR n n1).
  { subst n1. destruct (e_kind e) as [|p|c].
    - apply FR_refl.
    - match goal with |- FR n (match ?x with _ => _ end) => destruct x end.
      + eapply FR_trans; [|apply FR_respond]. eapply FR_trans; [|apply FR_upd_pending]. apply FR_upd_fsm.
      + apply FR_upd_fsm.
    - match goal with |- FR n (match ?x with _ => _ end) => destruct x end.
      + eapply FR_trans; [|apply FR_upd_cfg]. eapply FR_trans; [|apply FR_respond]. apply FR_apply_configuration.
      + apply FR_apply_configuration. }
  match goal with |- FR n (if ?c then _ else _) => destruct c end.
  - eapply FR_trans; [|apply FR_signal_snapshot]. eapply FR_trans; [|apply FR_upd_applied]. exact H1.
  - eapply FR_trans; [|apply FR_upd_applied]. exact H1.
Qed.

Lemma FR_apply_run now fuel : forall n, FR n (lp_apply_run fuel now n).
Proof.
  induction fuel as [|f IH]; intros n; cbn [lp_apply_run]; [apply FR_refl|].
  match goal with |- FR n (if ?c then _ else _) => destruct c end; [|apply FR_refl].
  eapply FR_trans; [apply FR_apply_one|apply IH].
Qed.

Lemma FR_apply now n : FR n (lp_apply now n).
Proof.
  unfold lp_apply. set (n0 := n <| n_cv ::= _ |>). assert (H0 : FR n n0) by frf.
  eapply FR_trans; [exact H0|].
  match goal with |- FR _ (if ?c then _ else _) => destruct c end;
    [eapply FR_trans; [apply FR_apply_run|apply FR_signal_ro]|apply FR_apply_run].
Qed.

Lemma FR_fold_respond (f : node -> rop -> node) ops : (forall m o, FR m (f m o)) -> forall n, FR n (fold_left f ops n).
Proof.
  intros Hf. induction ops as [|o ops IH]; intros n; cbn [fold_left]; [apply FR_refl|].
  eapply FR_trans; [apply Hf|apply IH].
Qed.

Lemma FR_ro now n : FR n (lp_ro now n).
Proof.
  unfold lp_ro. set (n0 := n <| n_cv ::= _ |>). assert (H0 : FR n n0) by frf.
  destruct (_ || _); [exact H0|].
  eapply FR_trans; [exact H0|]. eapply FR_trans; [|apply FR_fold_respond].
  - frf.
  - intros m o. destruct (ro_type o); [apply FR_respond|apply FR_respond|].
    destruct (lease_valid now m); apply FR_respond.
Qed.

(* ---- client API ---- *)
Lemma FR_upd_sv m v : FR m (m <| n_should_verify := v |>). Proof. frf. Qed.
Lemma FR_upd_ro m f : FR m (m <| n_ro ::= f |>). Proof. frf. Qed.

Lemma FR_submit now n fid ty p : FR n (api_submit now n fid ty p).
Proof.
  unfold api_submit. destruct (negb (role_eqb (n_role n) Leader)); [apply FR_respond|].
  destruct ty.
  - eapply FR_trans; [|apply FR_send_ae_to_peers]. eapply FR_trans; [|apply FR_upd_pending]. apply FR_append.
  - match goal with |- FR n (if ?c then _ else _) => destruct c end; [|apply FR_upd_ro].
    eapply FR_trans; [|apply FR_upd_sv]. eapply FR_trans; [|apply FR_send_ae_to_peers]. apply FR_upd_ro.
  - match goal with |- FR n (if ?c then _ else _) => destruct c end; [|apply FR_upd_ro].
    eapply FR_trans; [|apply FR_signal_ro]. apply FR_upd_ro.
Qed.

Lemma FR_append_configuration n c : FR n (fst (append_configuration n c)).
Proof. unfold append_configuration. cbn [fst]. apply FR_append. Qed.

Lemma FR_upd_conf_cfg m c f : FR m (m <| n_conf := c |> <| n_cfg_fid := f |>). Proof. frf. Qed.

Lemma FR_add_server now n fid id v : FR n (api_add_server now n fid id v).
Proof.
  unfold api_add_server. destruct (negb (role_eqb (n_role n) Leader)); [apply FR_respond|].
  destruct (negb (committed_this_term n)); [apply FR_respond|].
  destruct (pending_conf_change n); [apply FR_respond|].
  destruct (_ && _); [apply FR_respond|].
  pose proof (FR_append_configuration n {| c_index := 0; c_members := put id v (c_members (conf_of n)) |}) as H.
  destruct (append_configuration n _) as [n1 c']. cbn [fst] in H.
  eapply FR_trans; [|apply FR_send_ae_to_peers]. eapply FR_trans; [|apply FR_new_follower].
  eapply FR_trans; [|apply FR_upd_conf_cfg]. exact H.
Qed.

Lemma FR_remove_server now n fid id : FR n (api_remove_server now n fid id).
Proof.
  unfold api_remove_server. destruct (negb (role_eqb (n_role n) Leader)); [apply FR_respond|].
  destruct (negb (committed_this_term n)); [apply FR_respond|].
  destruct (pending_conf_change n); [apply FR_respond|].
  destruct (negb (is_member (conf_of n) id)); [apply FR_respond|].
  pose proof (FR_append_configuration n {| c_index := 0; c_members := remove_key id (c_members (conf_of n)) |}) as H.
  destruct (append_configuration n _) as [n1 c']. cbn [fst] in H.
  eapply FR_trans; [|apply FR_send_ae_to_peers]. eapply FR_trans; [|apply FR_upd_cfg]. exact H.
Qed.

Lemma FR_heartbeat now n : FR n (l_heartbeat now n).
Proof. unfold l_heartbeat. destruct (_ || _); [apply FR_refl|apply FR_send_ae_to_peers]. Qed.

(* ---- crash, restart: not a leader afterwards ---- *)
Lemma match_ok_not_leader cs m : n_role m <> Leader -> match_ok cs m.
Proof. intros H HL. contradiction. Qed.

Lemma match_ok_crash cs m : match_ok cs (crash m).
Proof. apply match_ok_not_leader. rewrite role_crash. discriminate. Qed.

Lemma match_ok_restart cs now m : match_ok cs (restart_after_crash now m).
Proof. apply match_ok_not_leader. rewrite role_restart. discriminate. Qed.

(* ---- the M facts used at world level ---- *)
Lemma M_signal_election m : M m (signal_election m).
Proof. apply M_of_K; [apply K_signal_election|apply FR_signal_election]. Qed.
Lemma M_heartbeat now m : M m (l_heartbeat now m).
Proof. apply M_of_K; [apply K_l_heartbeat|apply FR_heartbeat]. Qed.
Lemma M_commit now m : M m (lp_commit now m).
Proof. apply M_of_K; [apply K_lp_commit|apply FR_commit]. Qed.
Lemma M_apply now m : M m (lp_apply now m).
Proof. apply M_of_K; [apply K_lp_apply|apply FR_apply]. Qed.
Lemma M_ro now m : M m (lp_ro now m).
Proof. apply M_of_K; [apply K_lp_ro|apply FR_ro]. Qed.
Lemma M_submit now m fid ty p : M m (api_submit now m fid ty p).
Proof. apply M_of_K; [apply K_api_submit|apply FR_submit]. Qed.
Lemma M_add_server now m fid id v : M m (api_add_server now m fid id v).
Proof. apply M_of_K; [apply K_api_add_server|apply FR_add_server]. Qed.
Lemma M_remove_server now m fid id : M m (api_remove_server now m fid id).
Proof. apply M_of_K; [apply K_api_remove_server|apply FR_remove_server]. Qed.
Lemma M_upd_budget m k : M m (m <| n_budget := k |>).
Proof. apply M_of_K; [apply K_upd_budget|frf]. Qed.
Lemma M_upd_pad m k : M m (m <| n_pad := k |>).
Proof. apply M_of_K; [apply K_upd_pad|frf]. Qed.
Lemma M_upd_tasks m k : M m (m <| n_tasks := k |>).
Proof. apply M_of_K; [ktv|frf]. Qed.
Lemma M_upd_cv m f : M m (m <| n_cv ::= f |>).
Proof. apply M_of_K; [apply K_upd_cv|frf]. Qed.
Lemma M_ae_send m peer : M m (fst (l_ae_send m peer)).
Proof. apply M_of_K; [apply K_l_ae_send|apply FR_ae_send]. Qed.

Lemma M_run_handler now m q : req_ns q -> M m (fst (fst (run_handler now m q))).
Proof.
  intros Hq. apply M_of_K; [apply K_run_handler|]. unfold run_handler. destruct q as [r|r|r].
  - pose proof (FR_h_append_entries now m r) as H. destruct (h_append_entries now m r) as [n1 p]. exact H.
  - pose proof (FR_h_request_vote now m r) as H. destruct (h_request_vote now m r) as [n1 p]. exact H.
  - destruct Hq.
Qed.

(* the processing of an AppendEntries response recorded in call c *)
Lemma match_ok_ae_reply cs now n c q r :
  In c cs -> c_req c = ReqAE q -> c_resp c = Some (RespAE r) ->
  match_ok cs n -> match_ok cs (fst (l_ae_reply now n (c_round c) (c_dst c) (c_fgen c) q r)).
Proof.
  intros Hc Eq Er Hn HL p f' Hin.
  destruct (k_leader _ _ (K_ae_reply now n (c_round c) (c_dst c) (c_fgen c) q r) HL) as [HL0 ET].
  destruct (AR_ae_reply now n (c_round c) (c_dst c) (c_fgen c) q r p f' Hin) as [E|[(f & Hf & E)|(Ep & Es & Et & E)]].
  - left. exact E.
  - rewrite E, ET. apply (Hn HL0 p f Hf).
  - right. exists c, (f_match f'). split; [exact Hc|]. split; [|apply N.le_refl].
    exists q, r. rewrite ET. repeat split; auto.
Qed.

(* ================= world level ================= *)
(* ---- the recorded acknowledgements persist ---- *)
Definition CA (cs cs' : list call) : Prop :=
  forall k, In k cs -> exists k', In k' cs' /\ c_req k' = c_req k /\ c_dst k' = c_dst k /\
                                   (c_resp k = None \/ c_resp k' = c_resp k).

Lemma CA_refl cs : CA cs cs.
Proof. intros k Hk. exists k. auto. Qed.
Lemma CA_trans a b c : CA a b -> CA b c -> CA a c.
Proof.
  intros H1 H2 k Hk. destruct (H1 k Hk) as (k1 & A1 & A2 & A3 & A4). destruct (H2 k1 A1) as (k2 & B1 & B2 & B3 & B4).
  exists k2. split; [exact B1|]. split; [congruence|]. split; [congruence|].
  destruct A4 as [A4|A4]; [left; exact A4|]. destruct B4 as [B4|B4]; [left; congruence|right; congruence].
Qed.
Lemma CA_app cs k : CA cs (cs ++ [k]).
Proof. intros k0 H. exists k0. split; [apply in_or_app; left; exact H|auto]. Qed.
Lemma CA_map (g : call -> call) cs :
  (forall k, c_req (g k) = c_req k /\ c_dst (g k) = c_dst k /\ c_resp (g k) = c_resp k) -> CA cs (map g cs).
Proof.
  intros Hg k Hk. exists (g k). split; [apply in_map, Hk|]. destruct (Hg k) as (A & B & C). auto.
Qed.
Lemma CA_upd cs c c0 :
  NoDup (map c_id cs) -> In c cs -> c_id c0 = c_id c -> c_req c0 = c_req c -> c_dst c0 = c_dst c ->
  (c_resp c = None \/ c_resp c0 = c_resp c) -> CA cs (upd_call c0 cs).
Proof.
  intros ND Hc Eid Eq Ed Er k Hk.
  destruct (N.eq_dec (c_id k) (c_id c)) as [E|E].
  - assert (k = c) by (eapply nodup_id_eq; eassumption). subst k. exists c0. split; [|auto].
    unfold upd_call. apply in_map_iff. exists c. split; [|exact Hc]. rewrite Eid, N.eqb_refl. reflexivity.
  - exists k. split; [|auto]. unfold upd_call. apply in_map_iff. exists k. split; [|exact Hk].
    destruct (N.eqb_spec (c_id k) (c_id c0)) as [E'|E']; [rewrite Eid in E'; contradiction|reflexivity].
Qed.

Lemma acked_CA cs cs' T v j : CA cs cs' -> acked cs T v j -> acked cs' T v j.
Proof.
  intros H (k & top & Hk & (q & p & A1 & A2 & A3 & A4 & A5 & A6) & Hj).
  destruct (H k Hk) as (k' & B1 & B2 & B3 & B4).
  exists k', top. split; [exact B1|]. split; [|exact Hj].
  exists q, p. destruct B4 as [B4|B4]; [rewrite A4 in B4; discriminate|].
  repeat split; try congruence.
Qed.

Lemma match_ok_CA cs cs' a : CA cs cs' -> match_ok cs a -> match_ok cs' a.
Proof.
  intros H Ha HL p f Hin. destruct (Ha HL p f Hin) as [E|E]; [left; exact E|right].
  eapply acked_CA; eassumption.
Qed.

Lemma calls_on_node w id f : w_calls (on_node w id f) = w_calls w.
Proof. unfold on_node. destruct (get_node w id); reflexivity. Qed.

Lemma CA_step_deliver w c dup : VInv w -> In c (w_calls w) -> (dup = false -> c_state c = CPending) ->
  CA (w_calls w) (w_calls (step_deliver w c dup)).
Proof.
  intros HV Hc Hst. pose proof (vi_nodup w HV) as ND.
  assert (Hstate : forall w1 s, w_calls w1 = w_calls w -> CA (w_calls w) (w_calls (set_call w1 (c <| c_state := s |>)))).
  { intros w1 s E. change (w_calls (set_call w1 (c <| c_state := s |>))) with (upd_call (c <| c_state := s |>) (w_calls w1)).
    rewrite E. apply CA_upd with (c := c); auto. }
  unfold step_deliver. destruct (get_node w (c_dst c)) as [n|].
  2:{ destruct dup; [apply CA_refl|apply Hstate; reflexivity]. }
  destruct (n_frozen n); [destruct dup; [apply CA_refl|apply Hstate; reflexivity]|].
  destruct (run_handler (w_now w) n (c_req c)) as [[n1 resp] parked].
  destruct dup; [apply CA_refl|]. specialize (Hst eq_refl).
  destruct (n_frozen n1); [apply Hstate; reflexivity|].
  destruct resp as [p|]; [|apply Hstate; reflexivity].
  match goal with |- CA _ (w_calls (set_call _ ?c')) => change (CA (w_calls w) (upd_call c' (w_calls w))) end.
  apply CA_upd with (c := c); auto. left. apply (vi_pend w HV c Hc Hst).
Qed.

Lemma CA_step_reply w c failed : VInv w -> In c (w_calls w) -> CA (w_calls w) (w_calls (step_reply w c failed)).
Proof.
  intros HV Hc. pose proof (vi_nodup w HV) as ND. unfold step_reply.
  set (w0 := set_call w (c <| c_state := CDone |>)).
  assert (H0 : CA (w_calls w) (w_calls w0)).
  { change (w_calls w0) with (upd_call (c <| c_state := CDone |>) (w_calls w)). apply CA_upd with (c := c); auto. }
  destruct (get_node w (c_src c)) as [n|]; [|exact H0]. destruct (n_frozen n); [exact H0|].
  destruct (c_req c) as [q|q|q]; destruct (if failed then None else c_resp c) as [[p|p|p]|]; try exact H0.
  destruct (l_ae_reply (w_now w) n (c_round c) (c_dst c) (c_fgen c) q p) as [n1 [isq|]]; [|exact H0].
  eapply CA_trans; [exact H0|]. apply CA_app.
Qed.

Lemma CA_step w l : VInv w -> CA (w_calls w) (w_calls (step w l)).
Proof.
  intros HV. destruct l; cbn [step]; try (rewrite calls_on_node; apply CA_refl); try apply CA_refl.
  - destruct (get_call w c) as [cl|] eqn:G; [|apply CA_refl]. destruct (VoteRecords.get_call_in _ _ _ G) as [Hin _].
    destruct (c_state cl) eqn:Es; try apply CA_refl. apply CA_step_deliver; auto.
  - destruct (get_call w c) as [cl|] eqn:G; [|apply CA_refl]. destruct (VoteRecords.get_call_in _ _ _ G) as [Hin _].
    apply CA_step_deliver; auto. discriminate.
  - destruct (get_call w c) as [cl|] eqn:G; [|apply CA_refl]. destruct (VoteRecords.get_call_in _ _ _ G) as [Hin _].
    destruct (c_state cl); try apply CA_refl. apply CA_step_reply; auto.
  - destruct (get_call w c) as [cl|] eqn:G; [|apply CA_refl]. destruct (VoteRecords.get_call_in _ _ _ G) as [Hin _].
    destruct (c_state cl); try apply CA_refl; apply CA_step_reply; auto.
  - unfold fresh_fid. rewrite calls_on_node. apply CA_refl.
  - unfold fresh_fid. rewrite calls_on_node. apply CA_refl.
  - unfold fresh_fid. rewrite calls_on_node. apply CA_refl.
  - unfold drop_calls_of. cbn [w_calls set]. rewrite calls_on_node. apply CA_map. intros k.
    destruct (c_src k =? n); repeat split; reflexivity.
  - destruct (get_node w n) as [m|]; [|apply CA_refl]. destruct (is_up m); [|apply CA_refl].
    unfold step_task. destruct (n_tasks m) as [|t rest]; [apply CA_refl|]. destruct t as [rid peer pv|rid peer].
    + destruct (l_rv_send _ rid peer pv); [apply CA_app|apply CA_refl].
    + destruct (l_ae_send _ peer) as [n1 [|q|q]]; [apply CA_refl|apply CA_app|apply CA_app].
  - destruct (get_node w n) as [m|]; [|apply CA_refl].
    destruct (lp_install_resume m) as [m1 [q|]]; [|apply CA_refl].
    match goal with |- CA _ (w_calls (match ?x with _ => _ end)) => destruct x as [c|] eqn:Ef end; [|apply CA_refl].
    apply find_some in Ef. destruct Ef as [Hin _].
    match goal with |- CA _ (w_calls (set_call _ ?c')) => change (CA (w_calls w) (upd_call c' (w_calls w))) end.
    apply CA_upd with (c := c); auto. apply (vi_nodup w HV).
Qed.

(* an acknowledgement, once recorded, stays recorded *)
Theorem acked_step w l T v j : VInv w -> acked (w_calls w) T v j -> acked (w_calls (step w l)) T v j.
Proof. intros HV. apply acked_CA, CA_step, HV. Qed.

Theorem acked_run ls : forall w, VInv w -> forall T v j, acked (w_calls w) T v j -> acked (w_calls (run w ls)) T v j.
Proof.
  induction ls as [|l ls IH]; intros w HV T v j H; [exact H|]. cbn [run fold_left].
  apply IH; [apply step_VInv, HV|apply acked_step; assumption].
Qed.

(* ---- every node after a step is backed by the records before the step ---- *)
Definition NO (w : world) (cs : list call) : Prop := forall a, In a (w_nodes w) -> match_ok cs a.

Lemma NO_same w w' cs : w_nodes w' = w_nodes w -> NO w cs -> NO w' cs.
Proof. intros E H a Ha. rewrite E in Ha. apply H, Ha. Qed.

Lemma NO_set_node w m cs : NO w cs -> match_ok cs m -> NO (set_node w m) cs.
Proof.
  intros H Hm x Hx. unfold set_node in Hx. cbn [w_nodes set] in Hx. apply in_map_iff in Hx.
  destruct Hx as (y & <- & Hy). destruct (n_id y =? n_id m); [exact Hm|apply H, Hy].
Qed.

Lemma NO_on_node w id f cs : (forall m, match_ok cs m -> match_ok cs (f m)) -> NO w cs -> NO (on_node w id f) cs.
Proof.
  intros Hf H. unfold on_node. destruct (get_node w id) as [m|] eqn:G; [|exact H].
  apply NO_set_node; [exact H|]. apply Hf. apply H, (NoSnap.get_node_in _ _ _ G).
Qed.

Lemma NO_on_node_M w id f cs : (forall m, M m (f m)) -> NO w cs -> NO (on_node w id f) cs.
Proof. intros Hf. apply NO_on_node. intros m. apply match_ok_M, Hf. Qed.

Lemma NO_step_task w m cs : In m (w_nodes w) -> NO w cs -> NO (step_task w m) cs.
Proof.
  intros Hin H. pose proof (H m Hin) as Hm.
  unfold step_task. destruct (n_tasks m) as [|t rest]; [exact H|].
  set (n0 := m <| n_tasks := rest |>).
  assert (H0 : match_ok cs n0) by (revert Hm; apply match_ok_M, M_upd_tasks).
  clearbody n0. destruct t as [rid peer pv|rid peer].
  - destruct (l_rv_send n0 rid peer pv).
    + eapply NO_same; [|apply NO_set_node; [exact H|exact H0]]. reflexivity.
    + apply NO_set_node; assumption.
  - pose proof (match_ok_M cs n0 _ (M_ae_send n0 peer) H0) as H1.
    destruct (l_ae_send n0 peer) as [n1 [|q|q]]; cbn [fst] in H1.
    + apply NO_set_node; assumption.
    + eapply NO_same; [|apply NO_set_node; [exact H|exact H1]]. reflexivity.
    + eapply NO_same; [|apply NO_set_node; [exact H|exact H1]]. reflexivity.
Qed.

Lemma NO_step_deliver w c dup cs : NSW w -> In c (w_calls w) -> NO w cs -> NO (step_deliver w c dup) cs.
Proof.
  intros HW Hin H. pose proof (ns_calls _ HW c Hin) as Hq. change (req_ns (c_req c)) in Hq.
  assert (Hset : forall w1 c1, NO w1 cs -> NO (set_call w1 c1) cs).
  { intros w1 c1. apply NO_same. reflexivity. }
  unfold step_deliver. destruct (get_node w (c_dst c)) as [n|] eqn:G; [|destruct dup; [exact H|apply Hset, H]].
  destruct (n_frozen n); [destruct dup; [exact H|apply Hset, H]|].
  pose proof (match_ok_M cs n _ (M_run_handler (w_now w) n (c_req c) Hq) (H n (NoSnap.get_node_in _ _ _ G))) as H1.
  destruct (run_handler (w_now w) n (c_req c)) as [[n1 resp] parked]. cbn [fst] in H1.
  pose proof (NO_set_node w n1 cs H H1) as HW1.
  destruct dup; [exact HW1|].
  destruct (n_frozen n1); [apply Hset, HW1|].
  destruct resp; apply Hset, HW1.
Qed.

Lemma NO_step_reply w c failed :
  NSW w -> In c (w_calls w) -> NO w (w_calls w) -> NO (step_reply w c failed) (w_calls w).
Proof.
  intros HW Hin H. pose proof (ns_calls _ HW c Hin) as Hq. change (req_ns (c_req c)) in Hq. unfold step_reply.
  set (w0 := set_call w (c <| c_state := CDone |>)).
  assert (H0 : NO w0 (w_calls w)) by (revert H; apply NO_same; reflexivity).
  destruct (get_node w (c_src c)) as [n|] eqn:G; [|exact H0].
  pose proof (H n (NoSnap.get_node_in _ _ _ G)) as Hn.
  destruct (n_frozen n); [exact H0|].
  revert Hq; destruct (c_req c) as [q|q|q] eqn:Eq; intros Hq; [| |destruct Hq];
    destruct (if failed then None else c_resp c) as [[p|p|p]|] eqn:Er;
    try exact H0;
    try (apply NO_set_node; [exact H0|revert Hn; apply match_ok_M, M_rv_reply]).
  assert (Er' : c_resp c = Some (RespAE p)) by (destruct failed; [discriminate Er|exact Er]).
  pose proof (match_ok_ae_reply (w_calls w) (w_now w) n c q p Hin Eq Er' Hn) as H1.
  destruct (l_ae_reply (w_now w) n (c_round c) (c_dst c) (c_fgen c) q p) as [n1 [isq|]]; cbn [fst] in H1.
  - eapply NO_same; [|apply NO_set_node; [exact H0|exact H1]]. reflexivity.
  - apply NO_set_node; assumption.
Qed.

Theorem step_NO w l : nosnap_label l = true -> NSW w -> NO w (w_calls w) -> NO (step w l) (w_calls w).
Proof.
  intros Hs HW H. destruct l; try discriminate Hs; cbn [step].
  - (* LTick *) revert H. apply NO_same. reflexivity.
  - (* LElection *) apply NO_on_node_M; [|exact H]. intros m. destruct (is_up m); [apply M_signal_election|apply M_refl].
  - (* LHeartbeat *) apply NO_on_node_M; [|exact H]. intros m. destruct (is_up m); [apply M_heartbeat|apply M_refl].
  - (* LDeliver *) destruct (get_call w c) as [cl|] eqn:G; [|exact H]. apply NoSnap.get_call_in in G.
    destruct (c_state cl); try exact H. apply NO_step_deliver; assumption.
  - (* LDup *) destruct (get_call w c) as [cl|] eqn:G; [|exact H]. apply NoSnap.get_call_in in G. apply NO_step_deliver; assumption.
  - (* LReply *) destruct (get_call w c) as [cl|] eqn:G; [|exact H]. apply NoSnap.get_call_in in G.
    destruct (c_state cl); try exact H. apply NO_step_reply; assumption.
  - (* LFail *) destruct (get_call w c) as [cl|] eqn:G; [|exact H]. apply NoSnap.get_call_in in G.
    destruct (c_state cl); try exact H; apply NO_step_reply; assumption.
  - (* LSubmit *) unfold fresh_fid. apply NO_on_node_M; [|revert H; apply NO_same; reflexivity].
    intros m. destruct (n_frozen m); [apply M_refl|apply M_submit].
  - (* LAddServer *) unfold fresh_fid. apply NO_on_node_M; [|revert H; apply NO_same; reflexivity].
    intros m. destruct (n_frozen m); [apply M_refl|apply M_add_server].
  - (* LRemoveServer *) unfold fresh_fid. apply NO_on_node_M; [|revert H; apply NO_same; reflexivity].
    intros m. destruct (n_frozen m); [apply M_refl|apply M_remove_server].
  - (* LCrash *) eapply NO_same; [|apply NO_on_node; [|exact H]]; [reflexivity|]. intros m _. apply match_ok_crash.
  - (* LRestart *) apply NO_on_node; [|exact H]. intros m Hm.
    destruct (role_eqb (n_role m) Shutdown); [apply match_ok_restart|exact Hm].
  - (* LBudget *) apply NO_on_node_M; [|exact H]. intros m. apply M_upd_budget.
  - (* LPad *) apply NO_on_node_M; [|exact H]. intros m. apply M_upd_pad.
  - (* LDefer *) apply NO_on_node_M; [|exact H]. intros m. apply M_upd_tasks.
  - (* LRoMissed *) apply NO_on_node_M; [|exact H]. intros m. apply M_upd_cv.
  - (* LTask *) destruct (get_node w n) as [m|] eqn:G; [|exact H]. destruct (is_up m); [|exact H].
    apply NO_step_task; [eapply NoSnap.get_node_in; exact G|exact H].
  - (* LElectionRun *) apply NO_on_node_M; [|exact H]. intros m. destruct (is_up m && cv_election (n_cv m)); [apply M_election|apply M_refl].
  - (* LCommit *) apply NO_on_node_M; [|exact H]. intros m. destruct (is_up m && cv_commit (n_cv m)); [apply M_commit|apply M_refl].
  - (* LApply *) apply NO_on_node_M; [|exact H]. intros m. destruct (is_up m && cv_apply (n_cv m)); [apply M_apply|apply M_refl].
  - (* LRo *) apply NO_on_node_M; [|exact H]. intros m. destruct (is_up m && cv_ro (n_cv m)); [apply M_ro|apply M_refl].
  - (* LInstallResume: no parked handler *)
    destruct (get_node w n) as [m|] eqn:G; [|exact H]. apply NoSnap.get_node_in in G.
    rewrite (install_resume_ns m (ns_nodes _ HW m G)). exact H.
Qed.

(* ---- the invariant ---- *)
Definition MW (w : world) : Prop := forall a, In a (w_nodes w) -> match_ok (w_calls w) a.

Theorem step_MW w l : nosnap_label l = true -> VInv w -> NSW w -> MW w -> MW (step w l).
Proof.
  intros Hs HV HW H a Ha. apply (match_ok_CA (w_calls w)); [apply CA_step, HV|].
  apply (step_NO w l Hs HW H a Ha).
Qed.

Lemma MW_init ids boot et ld : MW (init_world ids boot et ld).
Proof.
  intros a Ha. apply match_ok_not_leader.
  unfold init_world in Ha. cbn [w_nodes] in Ha. apply in_map_iff in Ha. destruct Ha as (id & <- & _).
  destruct (ElectSafety.init_node_shape id boot et ld) as [_ R]. cbn zeta in R. rewrite R. discriminate.
Qed.

Theorem MW_run ls : forall w, nosnap ls = true -> VInv w -> NSW w -> MW w -> MW (run w ls).
Proof.
  induction ls as [|l ls IH]; intros w Hs HV HW H; [exact H|].
  apply nosnap_cons in Hs. destruct Hs as [Hl Hs]. cbn [run fold_left].
  apply IH; [exact Hs|apply step_VInv, HV|apply step_NSW; assumption|apply step_MW; assumption].
Qed.

(* over every schedule without local snapshots; membership changes included *)
Theorem match_backed_nosnap ids boot et ld ls : nosnap ls = true ->
  let w := run (init_world ids boot et ld) ls in
  forall a, In a (w_nodes w) -> match_ok (w_calls w) a.
Proof.
  intros Hs. cbn zeta. apply MW_run; [exact Hs|apply VInv_init|apply NSW_init|apply MW_init].
Qed.

Theorem match_backed ids boot et ld ls : static ls = true -> nosnap ls = true ->
  let w := run (init_world ids boot et ld) ls in
  forall a, In a (w_nodes w) -> match_ok (w_calls w) a.
Proof. intros _. apply match_backed_nosnap. Qed.

Print Assumptions match_backed.
Print Assumptions acked_run.
