(* Two node-level facts for the cluster arguments:
   1. a follower that answers SUCCESS to an AppendEntries request and is not frozen afterwards holds, at every
      index of the request, an entry of the request's term at that index, its log has the request's prev term at
      prev, and its term is the request's term;
   2. a voter that grants a vote found the candidate's log at least as up to date as its own; its log is untouched. *)
From RaftV Require Import Node.Leader Proofs.Frame Proofs.AESpec Proofs.AELog Proofs.LogDefs Proofs.LogSeg Proofs.LogAccept Proofs.RVSpec Proofs.Votes.
Open Scope N_scope.

(* ---------- writes that leave the node unfrozen happened ---------- *)
Lemma append_unfrozen es : forall n,
  n_frozen (append_entries n es) = false -> n_log (append_entries n es) = n_log n ++ es.
Proof.
  induction es as [|e es IH]; intros n F; cbn [append_entries] in *.
  - rewrite app_nil_r. reflexivity.
  - pose proof (tick_spec n) as [HL HF]. destruct (tick_write n) as [ok n1]. cbn [fst snd] in HL, HF. destruct ok.
    + rewrite (IH _ F).
      change (n_log (n1 <| n_log ::= fun l => l ++ [e] |>)) with (n_log n1 ++ [e]).
      rewrite HL, <- app_assoc. reflexivity.
    + rewrite HF in F by reflexivity. discriminate.
Qed.

(* the term after the preamble is the request's term *)
Lemma ae_pre_term now n q : (ae_term q <? n_term n) = false -> n_term (ae_pre now n q) = ae_term q.
Proof.
  intros E2. apply N.ltb_ge in E2. unfold ae_pre.
  set (n1 := n <| n_contact := now |> <| n_leader := Some (ae_leader q) |>).
  assert (T1 : n_term n1 = n_term n) by reflexivity. clearbody n1.
  set (n2 := if n_term n1 <? ae_term q then become_follower now n1 (ae_leader q) (ae_term q) else n1).
  assert (T2 : n_term n2 = ae_term q).
  { subst n2. destruct (N.ltb_spec (n_term n1) (ae_term q)) as [H|H]; [|lia].
    pose proof (become_follower_fields now n1 (ae_leader q) (ae_term q)) as HF. cbn zeta in HF. tauto. }
  clearbody n2. destruct (_ && _); [|exact T2].
  pose proof (become_follower_fields now n2 (ae_leader q) (ae_term q)) as HF. cbn zeta in HF. tauto.
Qed.

(* ---------- a successful, unfrozen AppendEntries: the exact log ---------- *)
Lemma ae_success_unfrozen now n q :
  wf_log (n_log n) -> first_index (n_log n) = n_lii n ->
  consecutive (ae_prev_index q + 1) (ae_entries q) ->
  let n' := fst (h_append_entries now n q) in
  ae_success (snd (h_append_entries now n q)) = true -> n_frozen n' = false ->
  exists a ta,
    ae_entries q = a ++ ta /\
    n_term n <= ae_term q /\ n_term n' = ae_term q /\
    n_lii n <= ae_prev_index q /\ ae_prev_index q < next_index (n_log n) /\
    ((ae_prev_index q = n_lii n /\ ae_prev_term q = n_lit n) \/
     (n_lii n < ae_prev_index q /\ exists pe, log_get (n_log n) (ae_prev_index q) = Some pe /\ e_term pe = ae_prev_term q)) /\
    (forall e, In e a -> exists x, log_get (n_log n) (e_index e) = Some x /\ e_term x = e_term e) /\
    n_log n' = match ta with
               | [] => n_log n
               | _ => log_truncate (n_log n) (ae_prev_index q + 1 + N.of_nat (length a)) ++ ta
               end.
Proof.
  intros Hwf Hfi Hc. cbn zeta. intros Hs Hfz.
  destruct (role_eqb (n_role n) Shutdown) eqn:E1; [unfold h_append_entries in Hs; rewrite E1 in Hs; discriminate|].
  destruct (ae_term q <? n_term n) eqn:E2; [unfold h_append_entries in Hs; rewrite E1, E2 in Hs; discriminate|].
  pose proof (ae_pre_term now n q E2) as HT3.
  rewrite (ae_unfold now n q E1 E2) in *. cbn zeta in *.
  pose proof (LC_ae_pre now n q) as (HL & _ & Hlii & Hlit). set (n3 := ae_pre now n q) in *.
  destruct (N.ltb_spec (ae_prev_index q) (n_lii n3)) as [Hp1|Hp1]; [discriminate|].
  destruct (N.leb_spec (next_index (n_log n3)) (ae_prev_index q)) as [Hp2|Hp2]; [discriminate|].
  destruct ((n_lii n3 =? ae_prev_index q) && negb (n_lit n3 =? ae_prev_term q)) eqn:E3; [discriminate|].
  match type of Hs with context [match ?c with _ => _ end] => set (conflict := c) in * end.
  assert (Hcf : conflict = None ->
    (ae_prev_index q = n_lii n /\ ae_prev_term q = n_lit n) \/
    (n_lii n < ae_prev_index q /\ exists pe, log_get (n_log n) (ae_prev_index q) = Some pe /\ e_term pe = ae_prev_term q)).
  { subst conflict. destruct (N.ltb_spec (n_lii n3) (ae_prev_index q)) as [Hlt|Hge].
    - destruct (log_get (n_log n3) (ae_prev_index q)) as [pe|] eqn:Eg; [|discriminate].
      destruct (N.eqb_spec (e_term pe) (ae_prev_term q)) as [Et|Et]; [|discriminate].
      intros _. right. split; [lia|]. exists pe. rewrite <- HL. auto.
    - intros _. left. assert (Hq : n_lii n3 = ae_prev_index q) by lia.
      rewrite Hq, N.eqb_refl in E3. cbn [andb] in E3.
      destruct (N.eqb_spec (n_lit n3) (ae_prev_term q)) as [Et|Et]; [|discriminate].
      split; congruence. }
  clearbody conflict. destruct conflict as [[idx|]|]; try discriminate.
  specialize (Hcf eq_refl).
  destruct (ae_scan now n3 (ae_entries q)) as [[n4 ta]|] eqn:Es; [|discriminate].
  cbn [fst] in Hfz |- *.
  destruct (ae_scan_shape_gen now (ae_entries q) n3 n4 ta (ae_prev_index q + 1)) as (a & Ea & Ha & _ & Hl4);
    [rewrite HL; exact Hwf|exact Hc|rewrite HL, Hfi, <- Hlii; lia|lia|exact Es|].
  pose proof (Q_ae_scan _ _ _ _ _ Es) as Q4.
  pose proof (Q_append ta n4) as Q5.
  pose proof (append_unfrozen ta n4) as H5.
  set (n5 := append_entries n4 ta) in *. clearbody n5.
  match type of Hfz with n_frozen (if ?c then ?x else ?y) = false =>
    assert (H6 : n_log (if c then x else y) = n_log y /\ n_term (if c then x else y) = n_term y /\
                 n_frozen (if c then x else y) = n_frozen y)
      by (destruct c; repeat split; reflexivity);
    destruct H6 as (H6 & H7 & H8); rewrite H8 in Hfz; rewrite H6, H7; clear H6 H7 H8 end.
  pose proof (q_frozen _ _ Q5 Hfz) as F4.
  specialize (H5 Hfz).
  destruct Hl4 as [Hl4|[_ F4']]; [|congruence].
  exists a, ta.
  split; [exact Ea|]. split; [apply N.ltb_ge; exact E2|].
  split; [rewrite (q_term _ _ Q5), (q_term _ _ Q4); exact HT3|].
  split; [lia|]. split; [rewrite <- HL; exact Hp2|]. split; [exact Hcf|].
  split; [rewrite <- HL; exact Ha|].
  rewrite H5, Hl4, HL. destruct ta; [apply app_nil_r|reflexivity].
Qed.

(* ---------- theorem 1 ---------- *)
Theorem ae_success_full now n q r :
  n_log n = entry0 :: r -> n_lii n = 0 -> n_lit n = 0 -> wf_seg (seg_of_log (n_log n)) -> wf_seg (seg_of_req q) ->
  let n' := fst (h_append_entries now n q) in
  ae_success (snd (h_append_entries now n q)) = true -> n_frozen n' = false ->
  (forall i e, eget (seg_of_req q) i = Some e -> exists e', eget (seg_of_log (n_log n')) i = Some e' /\ e_term e' = e_term e) /\
  tget (seg_of_log (n_log n')) (ae_prev_index q) = Some (ae_prev_term q) /\
  ae_term q = n_term n' /\ n_term n <= ae_term q.
Proof.
  intros Hlog Hlii Hlit Hwf Hwq. cbn zeta. intros Hs Hfz.
  rewrite Hlog in Hwf.
  destruct (ae_success_unfrozen now n q) as (a & ta & Ea & Hle & Ht & _ & Hp2 & Hcf & Ha & Hl');
    [rewrite Hlog; apply wf_log_seg; exact Hwf|rewrite Hlog, Hlii; reflexivity|exact Hwq|exact Hs|exact Hfz|].
  rewrite Hlog, Hlii, Hlit in *.
  set (sl := seg_of_log (entry0 :: r)) in *.
  (* the old log has the request's prev term at prev *)
  assert (Hcheck : tget sl (ae_prev_index q) = Some (ae_prev_term q)).
  { destruct Hcf as [[P1 P2]|[P1 (pe & Hg & Hpt)]].
    - rewrite P1, P2. exact (tget_base sl).
    - rewrite <- (eget_log (entry0 :: r)) in Hg by (exists r; reflexivity).
      fold sl in Hg. rewrite (tget_entry _ _ _ Hg), Hpt. reflexivity. }
  (* every entry of a is in the old log with its term *)
  assert (Hain : forall i e, eget (seg_of_req q) i = Some e -> i < ae_prev_index q + 1 + N.of_nat (length a) ->
                   exists e', eget sl i = Some e' /\ e_term e' = e_term e).
  { intros i e Eg Hi. pose proof (eget_index _ _ _ Hwq Eg) as Hidx.
    assert (Hin : In e a).
    { unfold eget, seg_of_req in Eg. cbn [sg_base sg_es] in Eg.
      destruct (N.ltb_spec (ae_prev_index q) i) as [Hlt|Hlt]; [|discriminate].
      rewrite Ea, nth_error_app1 in Eg by lia. eapply nth_error_In; exact Eg. }
    destruct (Ha e Hin) as (x0 & Hx0 & Hxt). rewrite Hidx in Hx0.
    rewrite <- (eget_log (entry0 :: r)) in Hx0 by (exists r; reflexivity). exists x0. auto. }
  split; [|split; [|split; [symmetry; exact Ht|exact Hle]]].
  - intros i e Eg. destruct ta as [|t ta'].
    + rewrite Hl'. fold sl. apply (Hain i e Eg).
      destruct (eget_range _ _ _ Eg) as [_ Htop]. unfold top, seg_of_req in Htop. cbn [sg_base sg_es] in Htop.
      rewrite Ea, app_nil_r in Htop. lia.
    + rewrite Hl'.
      destruct (splice_facts r q a (t :: ta') (length (t :: ta')) Hwf Hwq Ea Hp2 Hcheck Ha) as (F1 & _).
      cbn zeta in F1.
      change (log_truncate (entry0 :: r) (ae_prev_index q + 1 + N.of_nat (length a)) ++ t :: ta')
        with (splice r (ae_prev_index q + 1 + N.of_nat (length a)) (t :: ta')).
      destruct (N.lt_ge_cases i (ae_prev_index q + 1 + N.of_nat (length a))) as [Hi|Hi].
      * rewrite eget_splice_low by (try assumption; lia). apply (Hain i e Eg Hi).
      * rewrite eget_splice_high by (try assumption; lia).
        rewrite (eget_req_tail q a (t :: ta') i Ea Hi) in Eg. exists e. auto.
  - destruct ta as [|t ta'].
    + rewrite Hl'. exact Hcheck.
    + rewrite Hl'.
      destruct (splice_facts r q a (t :: ta') (length (t :: ta')) Hwf Hwq Ea Hp2 Hcheck Ha) as (F1 & _).
      cbn zeta in F1.
      change (log_truncate (entry0 :: r) (ae_prev_index q + 1 + N.of_nat (length a)) ++ t :: ta')
        with (splice r (ae_prev_index q + 1 + N.of_nat (length a)) (t :: ta')).
      rewrite tget_splice_low by (try assumption; lia). exact Hcheck.
Qed.

(* ---------- theorem 2 ---------- *)
Theorem rv_grant_log now n q :
  rv_granted (snd (h_request_vote now n q)) = true ->
  n_log (fst (h_request_vote now n q)) = n_log n /\
  ~ (rv_last_term q < last_term (n_log n) \/ (rv_last_term q = last_term (n_log n) /\ rv_last_index q < last_index (n_log n))) /\
  n_term n <= rv_term q.
Proof.
  intros Hg.
  split; [exact (proj2 (rv_term_monotone now n q))|].
  split.
  - pose proof (rv_grant_up_to_date now n q Hg) as H. lia.
  - unfold h_request_vote in Hg.
    destruct (role_eqb (n_role n) Shutdown); [cbn [fst snd rv_granted rvr_granted] in Hg; discriminate|].
    destruct (lease_valid now n || recent_contact now n); [cbn [fst snd rv_granted rvr_granted] in Hg; discriminate|].
    destruct (N.ltb_spec (rv_term q) (n_term n)) as [Hlt|Hge]; [cbn [fst snd rv_granted rvr_granted] in Hg; discriminate|].
    exact Hge.
Qed.

Print Assumptions ae_success_full.
Print Assumptions rv_grant_log.
