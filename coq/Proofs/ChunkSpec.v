(* C11, chunk exactness for chunks that belong to the snapshot being received (node level, every state): a chunk
   with the index of the partially received file and the expected offset is appended byte for byte, and the
   follower reports offset + length.  (A chunk of an OLDER snapshot at the same offset is also accepted by the
   code: open finding D10.) *)
From RaftV Require Import Node.Leader.
From RaftV Require Import Proofs.Frame.
Open Scope N_scope.

Theorem is_chunk_appended now n q p :
  n_role n = Follower -> is_term q = n_term n ->
  n_lii n < is_lii q -> n_applied n < is_lii q ->
  n_partial n = Some p -> s_index p = is_lii q ->
  is_offset q = N.of_nat (length (s_data p)) -> is_done q = false ->
  let r := h_install_snapshot now n q in
  n_partial (fst r) = Some {| s_index := s_index p; s_term := s_term p; s_conf := s_conf p; s_data := s_data p ++ is_bytes q |} /\
  snd r = Some {| isr_term := n_term n; isr_written := is_offset q + N.of_nat (length (is_bytes q)) |} /\
  n_snaps (fst r) = n_snaps n /\ n_log (fst r) = n_log n /\ n_fsm (fst r) = n_fsm n.
Proof.
  intros HR HT HL HA HP HI HO HD. cbn zeta. unfold h_install_snapshot.
  cbv zeta. rewrite HR, HT. cbn [role_eqb orb andb]. rewrite N.ltb_irrefl. rewrite ?N.eqb_refl.
  rewrite ?HR. cbn [role_eqb orb andb].
  set (n3 := n <| n_contact := now |>).
  assert (P3 : n_lii n3 = n_lii n /\ n_applied n3 = n_applied n /\ n_partial n3 = n_partial n /\ n_snaps n3 = n_snaps n
               /\ n_log n3 = n_log n /\ n_fsm n3 = n_fsm n) by (repeat split).
  clearbody n3. destruct P3 as (L3 & A3 & P3 & S3 & G3 & F3).
  rewrite L3, A3.
  destruct (N.leb_spec (is_lii q) (n_lii n)) as [X|_]; [lia|].
  destruct (N.leb_spec (is_lii q) (n_applied n)) as [X|_]; [lia|]. cbn [orb].
  rewrite P3, HP, HI, N.ltb_irrefl. rewrite P3, HP.
  rewrite HO, N.eqb_refl. cbn [negb]. rewrite HD. cbn [negb fst snd n_partial n_snaps n_log n_fsm set].
  rewrite S3, G3, F3. rewrite <- HO.
  split; [rewrite HI; reflexivity|]. split; [|repeat split; reflexivity].
  destruct (n_term n <? n_term n) eqn:E; [rewrite N.ltb_irrefl in E; discriminate|reflexivity].
Qed.
