(* Progress steps behind C15 (node level, every state and request):
   - the hint of a rejected AppendEntries request is at most the request's previous index, or is the index right
     after the follower's snapshot: the leader's next index moves towards a point where the logs agree;
   - a follower that already covers an offered snapshot acknowledges every chunk (fix D13), and the leader that
     receives that acknowledgement for its final chunk finishes the transfer: nextIndex = boundary + 1. *)
From RaftV Require Import Node.Leader.
From RaftV Require Import Proofs.Frame Proofs.AESpec Proofs.SnapSpec Proofs.ReplySpec.
Open Scope N_scope.

Lemma conflict_scan_le fuel l lii : forall index t, conflict_scan fuel l lii index t <= index.
Proof.
  induction fuel as [|f IH]; intros index t; cbn [conflict_scan]; [lia|].
  destruct (lii <? index); [|lia].
  destruct (log_get l index) as [e|]; [|lia].
  destruct (e_term e =? t); [|lia]. specialize (IH (index - 1) t). lia.
Qed.

Definition ae_hint (r : option ae_resp) : option N :=
  match r with Some p => if aer_success p then None else Some (aer_index p) | None => None end.

Theorem ae_reject_hint now n q h :
  ae_hint (snd (h_append_entries now n q)) = Some h ->
  ae_term q < n_term n \/ h <= ae_prev_index q \/ (ae_prev_index q < h /\ h = n_lii n + 1).
Proof.
  destruct (role_eqb (n_role n) Shutdown) eqn:E1; [unfold h_append_entries; rewrite E1; discriminate|].
  destruct (N.ltb_spec (ae_term q) (n_term n)) as [E2|E2]; [intros _; left; exact E2|].
  assert (E2' : (ae_term q <? n_term n) = false) by (apply N.ltb_ge; exact E2).
  rewrite (ae_unfold now n q E1 E2'). cbv zeta.
  pose proof (LC_ae_pre now n q) as HL.
  set (n3 := ae_pre now n q) in *. clearbody n3.
  assert (HLii : n_lii n3 = n_lii n) by (destruct HL as (_ & _ & H & _); exact H).
  destruct (N.ltb_spec (ae_prev_index q) (n_lii n3)) as [A|A].
  { cbn [snd ae_hint aer_success aer_index]. intros H. injection H as <-. right. right. rewrite <- HLii. split; lia. }
  destruct (N.leb_spec (next_index (n_log n3)) (ae_prev_index q)) as [B|B].
  { cbn [snd ae_hint aer_success aer_index]. intros H. injection H as <-. right. left. exact B. }
  destruct ((n_lii n3 =? ae_prev_index q) && negb (n_lit n3 =? ae_prev_term q)) eqn:C.
  { cbn [snd ae_hint aer_success aer_index]. intros H. injection H as <-. right. left.
    apply andb_prop in C. destruct C as [C _]. apply N.eqb_eq in C. lia. }
  destruct (N.ltb_spec (n_lii n3) (ae_prev_index q)) as [D|D].
  - destruct (log_get (n_log n3) (ae_prev_index q)) as [pe|]; [|cbn; discriminate].
    destruct (e_term pe =? ae_prev_term q).
    + destruct (ae_scan now n3 (ae_entries q)) as [[n4 ta]|]; cbn; discriminate.
    + cbn [snd ae_hint aer_success aer_index]. intros H. injection H as <-. right. left.
      pose proof (conflict_scan_le (length (n_log n3)) (n_log n3) (n_lii n3) (ae_prev_index q - 1) (e_term pe)). lia.
  - destruct (ae_scan now n3 (ae_entries q)) as [[n4 ta]|]; cbn; discriminate.
Qed.

(* ---------------- the InstallSnapshot handshake ---------------- *)
(* a follower that already covers the offered snapshot acknowledges the chunk: BytesWritten = offset + length *)
Theorem is_covered_chunk_is_acknowledged now n q :
  role_eqb (n_role n) Shutdown = false -> n_term n <= is_term q ->
  is_lii q <= n_lii n \/ is_lii q <= n_applied n ->
  exists t, snd (h_install_snapshot now n q) =
            Some {| isr_term := t; isr_written := is_offset q + N.of_nat (length (is_bytes q)) |}.
Proof.
  intros HS HT HC. unfold h_install_snapshot. rewrite HS.
  destruct (N.ltb_spec (is_term q) (n_term n)) as [L|_]; [lia|].
  cbv zeta.
  set (n1 := if n_term n <? is_term q then become_follower now n (is_leader q) (is_term q) else n).
  set (n2 := if (is_term q =? n_term n1) && _ then become_follower now n1 (is_leader q) (is_term q) else n1).
  set (n3 := n2 <| n_contact := now |>).
  assert (E : n3 = is_pre now n q) by reflexivity.
  pose proof (is_pre_frame now n q) as [V _]. rewrite <- E in V. clearbody n3. clear E n1 n2.
  apply vol_proj in V. destruct V as (VA & VL & _).
  assert (G : (is_lii q <=? n_lii n3) || (is_lii q <=? n_applied n3) = true).
  { rewrite VA, VL. apply Bool.orb_true_iff. destruct HC as [H|H]; [left|right]; apply N.leb_le; exact H. }
  rewrite G. cbn [snd]. eexists. reflexivity.
Qed.

(* the leader that gets its final chunk acknowledged finishes the transfer: nextIndex = boundary + 1,
   matchIndex = boundary, the snapshot file is closed *)
Theorem is_acknowledged_final_chunk_finishes now n peer q p s o :
  f_snap (get_follower n peer) = Some (s, o) ->
  isr_term p <= n_term n -> isr_written p = is_offset q -> is_done q = true ->
  get_follower (l_is_reply now n peer (f_gen (get_follower n peer)) q (Some p)) peer =
  {| f_next := is_lii q + 1; f_match := is_lii q; f_snap := None; f_gen := f_gen (get_follower n peer) |}.
Proof.
  intros HF HT HW HD. unfold l_is_reply, fobj. rewrite N.eqb_refl, HF.
  destruct (N.ltb_spec (n_term n) (isr_term p)) as [L|_]; [lia|].
  rewrite HW, N.eqb_refl, HD. cbn [negb].
  unfold set_fobj. rewrite N.eqb_refl. unfold get_follower, set_follower. cbn [n_followers set].
  rewrite ReplySpec.lookup_put_same. reflexivity.
Qed.
