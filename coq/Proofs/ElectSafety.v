(* Election safety (C02), final part: the invariant holds in every reachable world of a static execution;
   the RPC records are a history (a recorded grant stays recorded); two majorities of the voters intersect;
   hence two leaders of one term - at any two points of one execution - are the same node. *)
From RaftV Require Import Cluster.World Cluster.Statements Proofs.Frame Proofs.RVSpec.
From RaftV Require Import Proofs.ConfNode Proofs.ConfStatic Proofs.ConfSticky.
From RaftV Require Import Proofs.Votes Proofs.VoteRecords Proofs.Names Proofs.ElectSpec.
From RaftV Require Import Proofs.ElectDefs Proofs.EFrame Proofs.RoleFrame Proofs.ElectBook Proofs.ElectNode Proofs.ElectSteps
                          Proofs.ElectWorld Proofs.ElectReply Proofs.ElectStep Proofs.ElectRun.
Open Scope N_scope.
Ltac Zify.zify_post_hook ::= Z.div_mod_to_equations.

(* ---------------- the initial world ---------------- *)
Lemma fold_new_follower_erf ids : forall n, erf (fold_left (fun m id => new_follower m id 0) ids n) = erf n.
Proof. induction ids as [|x l IH]; intros n; [reflexivity|]. cbn [fold_left]. rewrite IH. reflexivity. Qed.

Lemma fold_new_follower_role ids : forall n, n_role (fold_left (fun m id => new_follower m id 0) ids n) = n_role n.
Proof. induction ids as [|x l IH]; intros n; [reflexivity|]. cbn [fold_left]. rewrite IH. reflexivity. Qed.

Lemma erf_append es : forall n, erf (append_entries n es) = erf n.
Proof.
  induction es as [|e r IH]; intros n; [reflexivity|]. cbn [append_entries]. unfold tick_write.
  destruct (n_frozen n); [reflexivity|]. destruct (n_budget n) as [k|]; [destruct (k =? 0); [reflexivity|]|]; rewrite IH; reflexivity.
Qed.

Lemma init_node_shape id boot et ld :
  let n := api_start 0 (new_opmanager 0 (if existsb (N.eqb id) boot then api_bootstrap (mk_node id et ld) boot else mk_node id et ld)) in
  erf n = ([], 0, []) /\ n_role n = Follower.
Proof.
  cbn zeta.
  set (m1 := if existsb (N.eqb id) boot then api_bootstrap (mk_node id et ld) boot else mk_node id et ld).
  assert (H1 : erf m1 = ([], 0, []) /\ n_role m1 = Shutdown).
  { subst m1. destruct (existsb (N.eqb id) boot); [|split; reflexivity].
    unfold api_bootstrap. cbn [n_conf mk_node]. cbn [n_log last_index last_entry last e_index entry0 mk_node]. cbn [N.ltb N.compare].
    split; [rewrite erf_append; reflexivity|rewrite role_append; reflexivity]. }
  clearbody m1. destruct H1 as [E1 R1].
  unfold api_start. assert (R2 : n_role (new_opmanager 0 m1) = Shutdown) by exact R1. rewrite R2. cbn [role_eqb negb].
  split.
  - unfold erf in *. cbn [n_rounds n_next_round n_tasks set].
    pose proof (fold_new_follower_erf (member_ids (conf_of (new_opmanager 0 m1)))
                  (new_opmanager 0 m1 <| n_conf := Some (conf_of (new_opmanager 0 m1)) |> <| n_followers := [] |>)) as H.
    unfold erf in H. injection H as Ha Hb Hc. injection E1 as Ea Eb Ec.
    change (n_rounds (_ <| n_contact := 0 |> <| n_role := Follower |>)) with
      (n_rounds (fold_left (fun m id => new_follower m id 0) (member_ids (conf_of (new_opmanager 0 m1)))
                  (new_opmanager 0 m1 <| n_conf := Some (conf_of (new_opmanager 0 m1)) |> <| n_followers := [] |>))).
    rewrite Ha, Hb, Hc. cbn [n_rounds n_next_round n_tasks set new_opmanager]. rewrite Ea, Eb, Ec. reflexivity.
  - reflexivity.
Qed.

Lemma BN_empty C n : erf n = ([], 0, []) -> BN C [] n.
Proof.
  unfold erf. intros E. injection E as Er En Et.
  constructor; unfold wf_rounds; rewrite ?Er, ?En, ?Et; cbn [map filter]; try (intros; contradiction); try constructor.
  - constructor.
  - intros r [].
Qed.

Lemma XInv_init C ids boot et ld : XInv C (init_world ids boot et ld).
Proof.
  assert (Hnode : forall n, In n (w_nodes (init_world ids boot et ld)) -> erf n = ([], 0, []) /\ n_role n = Follower).
  { intros n Hn. unfold init_world in Hn. cbn [w_nodes] in Hn. apply in_map_iff in Hn. destruct Hn as (id & <- & _).
    apply init_node_shape. }
  constructor.
  - apply VInv_init.
  - intros c [].
  - intros n Hn. apply BN_empty, (Hnode n Hn).
  - intros k t n [].
  - intros k1 k2 t x [].
  - intros n Hn Ha. destruct (Hnode n Hn) as [_ R]. rewrite R in Ha. destruct Ha as [H|[H|H]]; discriminate.
  - intros n Hn Hl. destruct (Hnode n Hn) as [_ R]. rewrite R in Hl. discriminate.
Qed.

Lemma XInv_run C ls : NoDup (member_ids C) -> forall w, static ls = true -> WI C w -> XInv C w -> XInv C (run w ls) /\ WI C (run w ls).
Proof.
  intros HC. induction ls as [|l ls IH]; intros w Hs HW HX; [split; assumption|].
  destruct (static_cons _ _ Hs) as [H1 H2]. cbn [run fold_left]. apply IH; [exact H2|apply step_WI; assumption|apply step_XInv; assumption].
Qed.

Lemma static_app a b : static (a ++ b) = true -> static a = true /\ static b = true.
Proof.
  induction a as [|l a IH]; cbn [app]; intros H; [split; [reflexivity|exact H]|].
  destruct (static_cons _ _ H) as [H1 H2]. destruct (IH H2) as [A B]. split; [|exact B].
  destruct l; cbn [static] in *; try exact A; discriminate H1.
Qed.

(* ---------------- the RPC records are a history ---------------- *)
Definition CP (cs cs' : list call) : Prop :=
  forall k, In k cs -> exists k', In k' cs' /\ call_key k' = call_key k /\
                                   forall t a, granted_real k t a -> granted_real k' t a.

Lemma CP_refl cs : CP cs cs.
Proof. intros k Hk. exists k. auto. Qed.
Lemma CP_trans a b c : CP a b -> CP b c -> CP a c.
Proof.
  intros H1 H2 k Hk. destruct (H1 k Hk) as (k1 & A1 & A2 & A3). destruct (H2 k1 A1) as (k2 & B1 & B2 & B3).
  exists k2. split; [exact B1|]. split; [congruence|auto].
Qed.
Lemma CP_app cs k : CP cs (cs ++ [k]).
Proof. intros k0 H. exists k0. split; [apply in_or_app; left; exact H|auto]. Qed.
Lemma CP_map (g : call -> call) cs :
  (forall k, call_key (g k) = call_key k /\ c_resp (g k) = c_resp k) -> CP cs (map g cs).
Proof.
  intros Hg k Hk. exists (g k). split; [apply in_map, Hk|]. destruct (Hg k) as [A B]. split; [exact A|].
  intros t a. apply key_granted; assumption.
Qed.
Lemma CP_upd cs c c0 :
  NoDup (map c_id cs) -> In c cs -> call_key c0 = call_key c -> (forall t a, granted_real c t a -> granted_real c0 t a) ->
  CP cs (upd_call c0 cs).
Proof.
  intros ND Hc Ek Hg k Hk. pose proof (key_fields _ _ Ek) as (Eid & _).
  destruct (N.eq_dec (c_id k) (c_id c)) as [E|E].
  - assert (k = c) by (eapply nodup_id_eq; eassumption). subst k. exists c0. split; [|split; [exact Ek|exact Hg]].
    unfold upd_call. apply in_map_iff. exists c. split; [|exact Hc]. rewrite Eid, N.eqb_refl. reflexivity.
  - exists k. split; [|split; [reflexivity|auto]]. unfold upd_call. apply in_map_iff. exists k. split; [|exact Hk].
    destruct (N.eqb_spec (c_id k) (c_id c0)) as [E'|E']; [rewrite Eid in E'; contradiction|reflexivity].
Qed.

Lemma CP_set cs c c0 :
  NoDup (map c_id cs) -> In c cs -> call_key c0 = call_key c -> (c_resp c0 = c_resp c \/ c_resp c = None) ->
  CP cs (upd_call c0 cs).
Proof.
  intros ND Hc Ek Hr. apply CP_upd with (c := c); try assumption.
  intros t a Hg. destruct Hr as [Hr|Hr]; [eapply key_granted; eassumption|].
  destruct Hg as (q & p & _ & _ & _ & _ & H & _). rewrite Hr in H. discriminate.
Qed.

Lemma calls_on_node w id f : w_calls (on_node w id f) = w_calls w.
Proof. unfold on_node. destruct (get_node w id); reflexivity. Qed.

Lemma CP_step_deliver w c dup : VInv w -> In c (w_calls w) -> (dup = false -> c_state c = CPending) ->
  CP (w_calls w) (w_calls (step_deliver w c dup)).
Proof.
  intros HV Hc Hst. pose proof (vi_nodup w HV) as ND.
  assert (Hstate : forall w1 s, w_calls w1 = w_calls w -> CP (w_calls w) (w_calls (set_call w1 (c <| c_state := s |>)))).
  { intros w1 s E. change (w_calls (set_call w1 (c <| c_state := s |>))) with (upd_call (c <| c_state := s |>) (w_calls w1)).
    rewrite E. apply CP_set with (c := c); auto. }
  unfold step_deliver. destruct (get_node w (c_dst c)) as [n|].
  2:{ destruct dup; [apply CP_refl|apply Hstate; reflexivity]. }
  destruct (n_frozen n); [destruct dup; [apply CP_refl|apply Hstate; reflexivity]|].
  destruct (run_handler (w_now w) n (c_req c)) as [[n1 resp] parked].
  destruct dup; [apply CP_refl|]. specialize (Hst eq_refl).
  destruct (n_frozen n1); [apply Hstate; reflexivity|].
  destruct resp as [p|]; [|apply Hstate; reflexivity].
  match goal with |- CP _ (w_calls (set_call _ ?c')) => change (CP (w_calls w) (upd_call c' (w_calls w))) end.
  apply CP_set with (c := c); auto. right. apply (vi_pend w HV c Hc Hst).
Qed.

Lemma CP_step_reply w c failed : VInv w -> In c (w_calls w) -> CP (w_calls w) (w_calls (step_reply w c failed)).
Proof.
  intros HV Hc. pose proof (vi_nodup w HV) as ND. unfold step_reply.
  set (w0 := set_call w (c <| c_state := CDone |>)).
  assert (H0 : CP (w_calls w) (w_calls w0)).
  { change (w_calls w0) with (upd_call (c <| c_state := CDone |>) (w_calls w)). apply CP_set with (c := c); auto. }
  destruct (get_node w (c_src c)) as [n|]; [|exact H0]. destruct (n_frozen n); [exact H0|].
  destruct (c_req c) as [q|q|q]; destruct (if failed then None else c_resp c) as [[p|p|p]|]; try exact H0.
  destruct (l_ae_reply (w_now w) n (c_round c) (c_dst c) (c_fgen c) q p) as [n1 [isq|]]; [|exact H0].
  eapply CP_trans; [exact H0|]. apply CP_app.
Qed.

Lemma CP_step w l : VInv w -> CP (w_calls w) (w_calls (step w l)).
Proof.
  intros HV. destruct l; cbn [step]; try (rewrite calls_on_node; apply CP_refl); try apply CP_refl.
  - destruct (get_call w c) as [cl|] eqn:G; [|apply CP_refl]. destruct (get_call_in _ _ _ G) as [Hin _].
    destruct (c_state cl) eqn:Es; try apply CP_refl. apply CP_step_deliver; auto.
  - destruct (get_call w c) as [cl|] eqn:G; [|apply CP_refl]. destruct (get_call_in _ _ _ G) as [Hin _].
    apply CP_step_deliver; auto. discriminate.
  - destruct (get_call w c) as [cl|] eqn:G; [|apply CP_refl]. destruct (get_call_in _ _ _ G) as [Hin _].
    destruct (c_state cl); try apply CP_refl. apply CP_step_reply; auto.
  - destruct (get_call w c) as [cl|] eqn:G; [|apply CP_refl]. destruct (get_call_in _ _ _ G) as [Hin _].
    destruct (c_state cl); try apply CP_refl; apply CP_step_reply; auto.
  - unfold fresh_fid. rewrite calls_on_node. apply CP_refl.
  - unfold fresh_fid. rewrite calls_on_node. apply CP_refl.
  - unfold fresh_fid. rewrite calls_on_node. apply CP_refl.
  - unfold drop_calls_of. cbn [w_calls set]. rewrite calls_on_node. apply CP_map. intros k.
    destruct (c_src k =? n); split; reflexivity.
  - destruct (get_node w n) as [m|]; [|apply CP_refl]. destruct (is_up m); [|apply CP_refl].
    unfold step_task. destruct (n_tasks m) as [|t rest]; [apply CP_refl|]. destruct t as [rid peer pv|rid peer].
    + destruct (l_rv_send _ rid peer pv); [apply CP_app|apply CP_refl].
    + destruct (l_ae_send _ peer) as [n1 [|q|q]]; [apply CP_refl|apply CP_app|apply CP_app].
  - destruct (get_node w n) as [m|]; [|apply CP_refl].
    destruct (lp_install_resume m) as [m1 [q|]]; [|apply CP_refl].
    match goal with |- CP _ (w_calls (match ?x with _ => _ end)) => destruct x as [c|] eqn:Ef end; [|apply CP_refl].
    apply find_some in Ef. destruct Ef as [Hin _].
    match goal with |- CP _ (w_calls (set_call _ ?c')) => change (CP (w_calls w) (upd_call c' (w_calls w))) end.
    apply CP_set with (c := c); auto. apply (vi_nodup w HV).
Qed.

Lemma CP_run ls : forall w, VInv w -> CP (w_calls w) (w_calls (run w ls)).
Proof.
  induction ls as [|l ls IH]; intros w HV; [apply CP_refl|]. cbn [run fold_left].
  eapply CP_trans; [apply CP_step, HV|]. apply IH, step_VInv, HV.
Qed.

(* ---------------- two majorities intersect ---------------- *)
Lemma common_or_disjoint (la lb : list N) : (exists x, In x la /\ In x lb) \/ (forall x, In x la -> ~ In x lb).
Proof.
  induction la as [|a la IH]; [right; intros x []|].
  destruct (in_dec N.eq_dec a lb) as [H|H]; [left; exists a; split; [left; reflexivity|exact H]|].
  destruct IH as [(x & A & B)|IH]; [left; exists x; split; [right; exact A|exact B]|].
  right. intros x [<-|Hx]; [exact H|apply IH, Hx].
Qed.

Lemma pigeon (la lb l : list N) :
  NoDup la -> NoDup lb -> incl la l -> incl lb l -> (length l < length la + length lb)%nat -> exists x, In x la /\ In x lb.
Proof.
  intros Na Nb Ia Ib Hlen. destruct (common_or_disjoint la lb) as [H|H]; [exact H|]. exfalso.
  assert (ND : NoDup (la ++ lb)) by (apply nodup_app; [exact Na|exact Nb|intros x A B; exact (H x A B)]).
  assert (Hi : incl (la ++ lb) l) by (apply incl_app; assumption).
  pose proof (NoDup_incl_length ND Hi) as HL. rewrite app_length in HL. lia.
Qed.

Definition voters (C : config) : list nid := map fst (filter snd (c_members C)).

Lemma voter_in C x : is_voter C x = true -> In x (voters C).
Proof.
  unfold is_voter, voters. destruct (lookup x (c_members C)) as [b|] eqn:E; [|discriminate]. intros ->.
  apply lookup_in in E. apply in_map_iff. exists (x, true). split; [reflexivity|]. apply filter_In. split; [exact E|reflexivity].
Qed.

Lemma voters_nodup C : NoDup (member_ids C) -> NoDup (voters C).
Proof.
  unfold member_ids, voters. induction (c_members C) as [|[k b] l IH]; cbn [map filter]; intros H; [constructor|].
  inversion H as [|? ? Hk ND]; subst. destruct b; cbn [snd map]; [|apply IH, ND]. constructor; [|apply IH, ND].
  intro Hin. apply Hk. apply in_map_iff in Hin. destruct Hin as (y & Ey & Hy). apply filter_In in Hy. destruct Hy as [Hy _].
  apply in_map_iff. exists y. auto.
Qed.

Lemma voters_length C : N.of_nat (length (voters C)) = num_voters C.
Proof. unfold voters, num_voters. rewrite map_length. reflexivity. Qed.

(* ---------------- election safety ---------------- *)
Section Safety.
Variable C : config.
Hypothesis HCnd : NoDup (member_ids C).

Lemma won_members cs a t : is_voter C a = true -> won C cs a t ->
  exists ks, (forall k, In k ks -> In k cs /\ granted_real k t a /\ c_dst k <> a) /\
             NoDup (a :: map c_dst ks) /\ incl (a :: map c_dst ks) (voters C) /\
             (length (voters C) < 2 * length (a :: map c_dst ks))%nat.
Proof.
  intros Hv (ks & H1 & H2 & H3). exists ks. split; [intros k Hk; destruct (H1 k Hk) as (A & B & D & _); auto|].
  split; [|split].
  - constructor; [|exact H2]. intro Hin. apply in_map_iff in Hin. destruct Hin as (k & E & Hk).
    destruct (H1 k Hk) as (_ & _ & D & _). contradiction.
  - intros x [<-|Hx]; [apply voter_in, Hv|]. apply in_map_iff in Hx. destruct Hx as (k & <- & Hk).
    destruct (H1 k Hk) as (_ & _ & _ & V). apply voter_in, V.
  - unfold has_quorum in H3. apply N.ltb_lt in H3. rewrite <- voters_length in H3. cbn [length]. rewrite map_length.
    pose proof (N.div_mod' (N.of_nat (length (voters C))) 2) as D1.
    pose proof (N.mod_lt (N.of_nat (length (voters C))) 2) as D2.
    set (dv := N.of_nat (length (voters C)) / 2) in *. set (md := N.of_nat (length (voters C)) mod 2) in *.
    clearbody dv md. lia.
Qed.

Theorem two_leaders_same w a b t na nb :
  XInv C w -> In na (w_nodes w) -> In nb (w_nodes w) ->
  is_voter C a = true -> is_voter C b = true ->
  (many C = true -> won C (w_calls w) a t) -> (many C = true -> won C (w_calls w) b t) -> a = b.
Proof.
  intros HX _ _ Va Vb Wa Wb.
  destruct (many C) eqn:Hm.
  2:{ (* one member *)
    unfold many in Hm. apply Bool.negb_false_iff in Hm. apply N.eqb_eq in Hm.
    pose proof (voter_in C a Va) as Ia. pose proof (voter_in C b Vb) as Ib. unfold voters in *.
    destruct (c_members C) as [|[k v] [|y l]]; cbn in Hm; try lia.
    cbn [filter map] in Ia, Ib. destruct (snd (k, v)); cbn in Ia, Ib; [|contradiction].
    destruct Ia as [<-|[]]. destruct Ib as [<-|[]]. reflexivity. }
  destruct (won_members _ a t Va (Wa eq_refl)) as (ka & A1 & A2 & A3 & A4).
  destruct (won_members _ b t Vb (Wb eq_refl)) as (kb & B1 & B2 & B3 & B4).
  assert (Hlen : (length (voters C) < length (a :: map c_dst ka) + length (b :: map c_dst kb))%nat) by lia.
  destruct (pigeon _ _ (voters C) A2 B2 A3 B3 Hlen) as (v & Hva & Hvb).
  pose proof (x_v C w HX) as HV. pose proof (x_n C w HX) as HN.
  assert (Hsrc : forall k x, In k (w_calls w) -> granted_real k t x -> c_src k = x /\ real_rv k t).
  { intros k x Hk (q & p & G1 & G2 & G3 & G4 & _). specialize (HN k Hk). unfold named in HN. rewrite G1 in HN.
    split; [congruence|exists q; auto]. }
  destruct Hva as [<-|Hva], Hvb as [Eb|Hvb].
  - exact (eq_sym Eb).
  - (* a granted b's request; a itself has asked for votes in this term *)
    apply in_map_iff in Hvb. destruct Hvb as (k2 & Ed & Hk2). destruct (B1 k2 Hk2) as (K2 & G2 & _).
    destruct ka as [|k1 ka'].
    + cbn [map length] in A4. assert (Hl : (length (voters C) <= 1)%nat) by lia.
      pose proof (voter_in C a Va) as Ia. pose proof (voter_in C b Vb) as Ib.
      destruct (voters C) as [|x [|y l]]; cbn in Hl; try lia; [destruct Ia|].
      destruct Ia as [<-|[]]. destruct Ib as [<-|[]]. reflexivity.
    + destruct (A1 k1 (or_introl eq_refl)) as (K1 & G1 & _). destruct (Hsrc k1 a K1 G1) as [S1 R1].
      symmetry. rewrite <- S1. apply (x_s2 C w HX k1 k2 t b K1 K2 R1 G2). congruence.
  - subst v. apply in_map_iff in Hva. destruct Hva as (k2 & Ed & Hk2). destruct (A1 k2 Hk2) as (K2 & G2 & _).
    destruct kb as [|k1 kb'].
    + cbn [map length] in B4. assert (Hl : (length (voters C) <= 1)%nat) by lia.
      pose proof (voter_in C a Va) as Ia. pose proof (voter_in C b Vb) as Ib.
      destruct (voters C) as [|x [|y l]]; cbn in Hl; try lia; [destruct Ia|].
      destruct Ia as [<-|[]]. destruct Ib as [<-|[]]. reflexivity.
    + destruct (B1 k1 (or_introl eq_refl)) as (K1 & G1 & _). destruct (Hsrc k1 b K1 G1) as [S1 R1].
      rewrite <- S1. apply (x_s2 C w HX k1 k2 t a K1 K2 R1 G2). congruence.
  - apply in_map_iff in Hva. destruct Hva as (k1 & E1 & Hk1). apply in_map_iff in Hvb. destruct Hvb as (k2 & E2 & Hk2).
    destruct (A1 k1 Hk1) as (K1 & G1 & _). destruct (B1 k2 Hk2) as (K2 & G2 & _).
    apply (vi_uniq w HV k1 k2 t a b K1 K2 G1 G2). congruence.
Qed.

End Safety.

Theorem election_safety : C02_statement.
Proof.
  unfold C02_statement. intros ids boot et ld ls1 ls2 Hs. cbn zeta. intros a b t (na & Hna & Ia & Ra & Ta) (nb & Hnb & Ib & Rb & Tb).
  destruct (static_app _ _ Hs) as [Hs1 Hs2].
  set (C := bootconf boot). pose proof (bootconf_nodup boot) as HC. fold C in HC.
  set (w0 := init_world ids boot et ld) in *. set (w1 := run w0 ls1) in *. set (w2 := run w1 ls2) in *.
  destruct (XInv_run C ls1 HC w0 Hs1 (WI_init ids boot et ld) (XInv_init C ids boot et ld)) as [HX1 HW1]. fold w1 in HX1, HW1.
  destruct (XInv_run C ls2 HC w1 Hs2 HW1 HX1) as [HX2 HW2]. fold w2 in HX2, HW2.
  assert (Aa : active (n_role na)) by (rewrite Ra; unfold active; auto).
  assert (Ab : active (n_role nb)) by (rewrite Rb; unfold active; auto).
  destruct (x_l0 C w1 HX1 na Hna Aa) as [_ Va]. destruct (x_l0 C w2 HX2 nb Hnb Ab) as [_ Vb]. rewrite Ia in Va. rewrite Ib in Vb.
  apply (two_leaders_same C w2 a b t nb nb HX2 Hnb Hnb Va Vb).
  - intros Hm. pose proof (x_l C w1 HX1 na Hna Ra Hm) as W. rewrite Ia, Ta in W.
    eapply won_persist; [|exact W]. apply CP_run, (x_v C w1 HX1).
  - intros Hm. pose proof (x_l C w2 HX2 nb Hnb Rb Hm) as W. rewrite Ib, Tb in W. exact W.
Qed.

Print Assumptions election_safety.
