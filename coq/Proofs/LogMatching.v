(* Log matching (C06), final part: the invariant holds initially and in every reachable world of an
   execution without membership changes and without snapshots; hence the Log Matching property. *)
From RaftV Require Import Cluster.World Cluster.Statements Proofs.Frame Proofs.RVSpec Proofs.AESpec Proofs.ReplySpec.
From RaftV Require Import Proofs.ConfNode Proofs.ConfStatic Proofs.ConfSticky.
From RaftV Require Import Proofs.Votes Proofs.VoteRecords Proofs.Names Proofs.ElectSpec.
From RaftV Require Import Proofs.ElectDefs Proofs.ElectWorld Proofs.ElectRun Proofs.ElectSafety.
From RaftV Require Import Proofs.LogDefs Proofs.LogSeg Proofs.LogUni Proofs.LogInv Proofs.LogFrame Proofs.NoSnap Proofs.TaePeer Proofs.LogRun.
Open Scope N_scope.

(* ---------------- the initial world ---------------- *)
Lemma lookup_fold_put id boot : forall acc : list (N * bool),
  lookup id (fold_left (fun l x => put x true l) boot acc) <> None -> In id boot \/ lookup id acc <> None.
Proof.
  induction boot as [|x boot IH]; intros acc H; [right; exact H|]. cbn [fold_left] in H.
  destruct (IH _ H) as [A|A]; [left; right; exact A|].
  destruct (N.eq_dec id x) as [->|E]; [left; left; reflexivity|]. right. rewrite lookup_put_other in A by exact E. exact A.
Qed.

Lemma voter_in_boot boot id : is_voter (bootconf boot) id = true -> existsb (N.eqb id) boot = true.
Proof.
  unfold is_voter, bootconf. cbn [c_members]. intros H.
  assert (Hl : lookup id (fold_left (fun l x => put x true l) boot []) <> None) by (destruct (lookup id _); [discriminate|discriminate H]).
  destruct (lookup_fold_put id boot [] Hl) as [A|A]; [|cbn in A; contradiction].
  apply existsb_exists. exists id. split; [exact A|apply N.eqb_refl].
Qed.

Lemma init_node_log id boot et ld :
  let n := api_start 0 (new_opmanager 0 (if existsb (N.eqb id) boot then api_bootstrap (mk_node id et ld) boot else mk_node id et ld)) in
  n_id n = id /\
  n_log n = if existsb (N.eqb id) boot then [entry0; bootentry (bootconf boot)] else [entry0].
Proof.
  cbn zeta.
  set (m1 := if existsb (N.eqb id) boot then api_bootstrap (mk_node id et ld) boot else mk_node id et ld).
  assert (H1 : n_id m1 = id /\ n_log m1 = if existsb (N.eqb id) boot then [entry0; bootentry (bootconf boot)] else [entry0]).
  { subst m1. destruct (existsb (N.eqb id) boot); [|split; reflexivity].
    unfold api_bootstrap. cbn [n_conf mk_node]. cbn [n_log last_index last_entry last e_index entry0 mk_node]. cbn [N.ltb N.compare].
    unfold append_entries, tick_write. cbn [n_frozen n_budget mk_node set]. split; reflexivity. }
  clearbody m1. destruct H1 as [E1 E2].
  split.
  - rewrite (q_id _ _ (Q_api_start 0 (new_opmanager 0 m1))). exact E1.
  - rewrite (SL_api_start 0 (new_opmanager 0 m1)), (SL_new_opmanager 0 m1). exact E2.
Qed.

Lemma LMI_init ids boot et ld : LMI (bootconf boot) (init_world ids boot et ld).
Proof.
  set (C := bootconf boot).
  assert (Hnode : forall n, In n (w_nodes (init_world ids boot et ld)) ->
            n_log n = (if existsb (N.eqb (n_id n)) boot then [entry0; bootentry C] else [entry0])).
  { intros n Hn. unfold init_world in Hn. cbn [w_nodes] in Hn. apply in_map_iff in Hn. destruct Hn as (id & <- & _).
    destruct (init_node_log id boot et ld) as [A B]. cbn zeta in A, B. rewrite A. exact B. }
  assert (Hseg : forall s, is_seg (init_world ids boot et ld) s -> s = seg_of_log [entry0; bootentry C] \/ s = seg_of_log [entry0]).
  { intros s [(n & Hn & ->)|(k & q & [] & _)]. rewrite (Hnode n Hn). destruct (existsb (N.eqb (n_id n)) boot); auto. }
  assert (Hget : forall s i e, is_seg (init_world ids boot et ld) s -> eget s i = Some e -> i = 1 /\ e = bootentry C /\ s = seg_of_log [entry0; bootentry C]).
  { intros s i e Hs E. destruct (Hseg s Hs) as [->| ->].
    - destruct (eget_range _ _ _ E) as [A B]. unfold top in B. cbn in A, B. assert (i = 1) by lia. subst i. cbn in E. injection E as <-. auto.
    - destruct (eget_range _ _ _ E) as [A B]. unfold top in B. cbn in A, B. lia. }
  constructor.
  - intros s Hs. destruct (Hseg s Hs) as [->| ->]; unfold wf_seg; cbn; auto.
  - intros s1 s2 H1 H2 i e1 e2 E1 E2 _. destruct (Hget _ _ _ H1 E1) as (-> & -> & ->). destruct (Hget _ _ _ H2 E2) as (_ & -> & ->).
    split; reflexivity.
  - intros n Hn Hv. rewrite (Hnode n Hn), (voter_in_boot boot (n_id n) Hv). exists []. reflexivity.
  - intros s e Hs E. destruct (Hget _ _ _ Hs E) as (_ & -> & _). reflexivity.
  - intros s i e Hs E Hi. destruct (Hget _ _ _ Hs E) as (-> & _). lia.
  - intros k q [].
Qed.

Lemma UNI_init ids boot et ld : UNI (init_world ids boot et ld).
Proof.
  intros a b Ha Hb E. unfold init_world in Ha, Hb. cbn [w_nodes] in Ha, Hb.
  apply in_map_iff in Ha. destruct Ha as (ia & <- & _). apply in_map_iff in Hb. destruct Hb as (ib & <- & _).
  destruct (init_node_log ia boot et ld) as [A _]. destruct (init_node_log ib boot et ld) as [B _]. cbn zeta in A, B.
  rewrite A, B in E. subst ib. reflexivity.
Qed.

(* ---------------- every reachable world ---------------- *)
Record ALL (C : config) (w : world) : Prop := {
  a_wi : WI C w; a_x : XInv C w; a_uni : UNI w; a_ns : NSW w; a_ta : TAEW w; a_lm : LMI C w }.

Lemma ALL_run C ls : NoDup (member_ids C) -> forall w, static ls = true -> nosnap ls = true -> ALL C w -> ALL C (run w ls).
Proof.
  intros HC. induction ls as [|l ls IH]; intros w Hs Hn HA; [exact HA|].
  destruct (static_cons _ _ Hs) as [S1 S2]. destruct (nosnap_cons _ _ Hn) as [N1 N2]. destruct HA as [HW HX HU HNS HTA HL].
  cbn [run fold_left]. apply IH; [exact S2|exact N2|]. constructor.
  - apply step_WI; assumption.
  - apply step_XInv; assumption.
  - apply step_UNI; assumption.
  - apply step_NSW; assumption.
  - apply step_TAEW; assumption.
  - apply step_LMI; assumption.
Qed.

Lemma ALL_init ids boot et ld : ALL (bootconf boot) (init_world ids boot et ld).
Proof.
  constructor; [apply WI_init|apply XInv_init|apply UNI_init|apply NSW_init|apply TAEW_init|apply LMI_init].
Qed.

(* ---------------- Log Matching ---------------- *)
Definition C06_conclusion (w : world) : Prop :=
  forall a b i t, In a (w_nodes w) -> In b (w_nodes w) ->
    entry_at (n_log a) i t -> entry_at (n_log b) i t ->
    forall e, e_index e <= i -> first_index (n_log a) < e_index e -> first_index (n_log b) < e_index e ->
      (In e (n_log a) <-> In e (n_log b)).

Lemma entry_at_tget r i t : wf_seg (seg_of_log (entry0 :: r)) -> entry_at (entry0 :: r) i t -> 0 < i ->
  tget (seg_of_log (entry0 :: r)) i = Some t.
Proof.
  intros Hwf (e & [<-|Hin] & Ei & Et) Hi; [cbn in Ei; lia|].
  pose proof (in_log_eget r e Hwf Hin) as E. rewrite Ei in E. rewrite (tget_entry _ _ _ E), Et. reflexivity.
Qed.

Lemma matching_half C w a b ra rb i t e :
  LMI C w -> In a (w_nodes w) -> In b (w_nodes w) -> n_log a = entry0 :: ra -> n_log b = entry0 :: rb ->
  entry_at (n_log a) i t -> entry_at (n_log b) i t -> e_index e <= i -> 0 < e_index e ->
  In e (n_log a) -> In e (n_log b).
Proof.
  intros HL Ha Hb Ea Eb Ha_at Hb_at Hle Hpos Hin.
  assert (Hsa : is_seg w (seg_of_log (n_log a))) by (left; exists a; auto).
  assert (Hsb : is_seg w (seg_of_log (n_log b))) by (left; exists b; auto).
  pose proof (lm_wf C w HL _ Hsa) as Wa. pose proof (lm_wf C w HL _ Hsb) as Wb. pose proof (lm_pm C w HL _ _ Hsa Hsb) as HP.
  rewrite Ea in *. rewrite Eb in *.
  assert (Hi : 0 < i) by lia.
  pose proof (entry_at_tget ra i t Wa Ha_at Hi) as Ta. pose proof (entry_at_tget rb i t Wb Hb_at Hi) as Tb.
  destruct Hin as [<-|Hin]; [cbn in Hpos; lia|].
  pose proof (in_log_eget ra e Wa Hin) as E.
  assert (Heq : eget (seg_of_log (entry0 :: ra)) (e_index e) = eget (seg_of_log (entry0 :: rb)) (e_index e)).
  { apply (pm_prefix _ _ i (e_index e) HP); [congruence|congruence|exact Hpos|exact Hpos|exact Hle]. }
  rewrite E in Heq. right. apply (eget_in_log rb (e_index e) e). symmetry. exact Heq.
Qed.

Theorem log_matching_nosnap ids boot et ld ls :
  static ls = true -> nosnap ls = true -> C06_conclusion (run (init_world ids boot et ld) ls).
Proof.
  intros Hs Hn. pose proof (ALL_run (bootconf boot) ls (bootconf_nodup boot) _ Hs Hn (ALL_init ids boot et ld)) as [_ _ _ HNS _ HL].
  intros a b i t Ha Hb Ata Atb e Hle Fa Fb.
  destruct (ns_nodes _ HNS a Ha) as (_ & _ & _ & _ & _ & (ra & Ea)). destruct (ns_nodes _ HNS b Hb) as (_ & _ & _ & _ & _ & (rb & Eb)).
  assert (Hpos : 0 < e_index e) by (rewrite Ea in Fa; cbn in Fa; exact Fa).
  split; intros Hin.
  - eapply (matching_half (bootconf boot) _ a b ra rb i t e); eauto.
  - eapply (matching_half (bootconf boot) _ b a rb ra i t e); eauto.
Qed.

Print Assumptions log_matching_nosnap.
