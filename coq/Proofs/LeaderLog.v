(* C07, second half ("a leader never overwrites"), cluster level: as long as the persistent term of the
   winner of a term is that term - while it leads, and also after it crashed and restarted as a follower of
   that term - its log only grows.  Executions without membership changes and without snapshots. *)
From RaftV Require Import Cluster.World Cluster.Statements Proofs.Frame Proofs.RVSpec Proofs.AESpec Proofs.AELog.
From RaftV Require Import Proofs.ConfNode Proofs.ConfStatic Proofs.ConfSticky.
From RaftV Require Import Proofs.Votes Proofs.VoteRecords Proofs.Names Proofs.ElectSpec.
From RaftV Require Import Proofs.ElectDefs Proofs.ElectWorld Proofs.ElectRun Proofs.ElectSafety.
From RaftV Require Import Proofs.LogDefs Proofs.LogSeg Proofs.LogUni Proofs.LogInv Proofs.LogFrame Proofs.NoSnap Proofs.TaePeer
                          Proofs.LogWorld Proofs.LogRun Proofs.LogMatching Proofs.StepCases.
Open Scope N_scope.

Definition extends (l l' : list entry) : Prop := exists es, l' = l ++ es.
Lemma extends_refl l : extends l l. Proof. exists []. rewrite app_nil_r. reflexivity. Qed.
Lemma extends_trans a b c : extends a b -> extends b c -> extends a c.
Proof. intros (x & ->) (y & ->). exists (x ++ y). rewrite app_assoc. reflexivity. Qed.

Section LeaderLog.
Variable C : config.
Hypothesis HCnd : NoDup (member_ids C).

(* one step *)
Lemma winner_step w l n' T :
  static_label l = true -> nosnap_label l = true -> ALL C w ->
  In n' (w_nodes (step w l)) ->
  exists n, In n (w_nodes w) /\ n_id n' = n_id n /\ n_pterm n <= n_pterm n' /\
            (lead C (w_calls w) (n_id n) T -> n_pterm n = T -> n_pterm n' = T -> extends (n_log n) (n_log n')).
Proof.
  intros Hst Hns HA Hn'. pose proof HA as [HW HX HU HNS HTA HL].
  destruct (step_NT C HCnd w l Hst Hns HA n' Hn') as (n & Hn & Eid & HT).
  pose proof (vi_coh w (x_v C w HX) n Hn) as Hcoh.
  exists n. split; [exact Hn|]. split; [exact Eid|].
  destruct HT as [->|HS HLG _|k q Hk Eq Ed F ->].
  - split; [lia|]. intros _ _ _. apply extends_refl.
  - destruct (HS Hcoh) as (_ & [Hp _] & _). split; [exact Hp|]. intros _ _ _.
    destruct HLG as [E|(e & E & _)]; [rewrite E; apply extends_refl|exists [e]; exact E].
  - pose proof (R_append_entries (w_now w) n q Hcoh) as HR. pose proof (Votes.r_tv _ _ HR) as [Hp _].
    split; [exact Hp|]. intros Hlead Ep Ep'.
    destruct (list_eq_dec entry_eq_dec (n_log (fst (h_append_entries (w_now w) n q))) (n_log n)) as [El|El]; [rewrite El; apply extends_refl|exfalso].
    destruct (Hcoh F) as [Ecoh _].
    destruct (ns_nodes w HNS n Hn) as (Hlii & _ & _ & _ & _ & (r & Er)).
    assert (Hsn : is_seg w (seg_of_log (n_log n))) by (left; exists n; auto).
    assert (Hsq : is_seg w (seg_of_req q)) by (right; exists k, q; auto).
    pose proof (lm_wf C w HL _ Hsn) as Hwfn. pose proof (lm_wf C w HL _ Hsq) as Hwfq. rewrite Er in Hwfn.
    destruct (ae_log_general (w_now w) n q) as [Esame|(a & ta & m & _ & _ & _ & Hterm & _)];
      [rewrite Er; apply wf_log_seg, Hwfn|rewrite Er, Hlii; reflexivity|exact Hwfq|contradiction|].
    destruct (N.eq_dec (ae_term q) (n_term n)) as [Et|Et].
    + destruct (lm_ae C w HL k q Hk Eq) as [Hlk Hne]. apply Hne. rewrite Ed. symmetry.
      apply (lead_unique C w (c_src k) (n_id n) T n n HX Hn Hn); [|exact Hlead]. rewrite <- Ep, Ecoh, <- Et. exact Hlk.
    + assert (Hlt : n_term n < ae_term q) by lia. pose proof (ae_higher_term_log (w_now w) n q Hlt El) as Hp'. lia.
Qed.

(* any number of steps *)
Theorem winner_log_grows ls : forall w, static ls = true -> nosnap ls = true -> ALL C w ->
  forall T n', In n' (w_nodes (run w ls)) -> n_pterm n' = T ->
  exists n, In n (w_nodes w) /\ n_id n' = n_id n /\ n_pterm n <= T /\
            (lead C (w_calls w) (n_id n) T -> n_pterm n = T -> extends (n_log n) (n_log n')).
Proof.
  induction ls as [|l ls IH]; intros w Hs Hn HA T n' Hn' Ep.
  - exists n'. split; [exact Hn'|]. split; [reflexivity|]. split; [lia|]. intros _ _. apply extends_refl.
  - destruct (static_cons _ _ Hs) as [S1 S2]. destruct (nosnap_cons _ _ Hn) as [N1 N2]. cbn [run fold_left] in Hn'.
    assert (HA1 : ALL C (step w l)).
    { destruct HA as [HW HX HU HNS HTA HL]. constructor;
        [apply step_WI|apply step_XInv|apply step_UNI|apply step_NSW|apply step_TAEW|apply step_LMI]; assumption. }
    destruct (IH (step w l) S2 N2 HA1 T n' Hn' Ep) as (n1 & Hn1 & Eid1 & Hp1 & Hext1).
    destruct (winner_step w l n1 T S1 N1 HA Hn1) as (n & Hn0 & Eid & Hp & Hext).
    exists n. split; [exact Hn0|]. split; [congruence|]. split; [lia|]. intros Hlead Ep0.
    assert (Ep1 : n_pterm n1 = T) by lia.
    eapply extends_trans; [apply Hext; assumption|]. apply Hext1; [|exact Ep1].
    rewrite Eid. eapply lead_persist; [apply CP_step, (x_v C w (a_x C w HA))|exact Hlead].
Qed.

End LeaderLog.

(* the statement for leaders of reachable worlds *)
Theorem leader_never_overwrites ids boot et ld ls1 ls2 :
  static (ls1 ++ ls2) = true -> nosnap (ls1 ++ ls2) = true ->
  let w1 := run (init_world ids boot et ld) ls1 in
  let w2 := run w1 ls2 in
  forall n n', In n (w_nodes w1) -> n_role n = Leader -> n_frozen n = false ->
    In n' (w_nodes w2) -> n_id n' = n_id n -> n_pterm n' = n_term n ->
    extends (n_log n) (n_log n').
Proof.
  intros Hs Hn. cbn zeta. intros n n' Hin Hrole F Hin' Eid Ep.
  destruct (static_app _ _ Hs) as [S1 S2].
  assert (N12 : nosnap ls1 = true /\ nosnap ls2 = true).
  { clear - Hn. induction ls1 as [|l ls IH]; cbn [app] in Hn; [split; [reflexivity|exact Hn]|].
    destruct (nosnap_cons _ _ Hn) as [A B]. destruct (IH B) as [D E]. split; [|exact E]. destruct l; cbn in *; try exact D; discriminate. }
  destruct N12 as [N1 N2].
  set (C := bootconf boot). pose proof (bootconf_nodup boot) as HC. fold C in HC.
  pose proof (ALL_run C ls1 HC _ S1 N1 (ALL_init ids boot et ld)) as HA.
  set (w1 := run (init_world ids boot et ld) ls1) in *.
  destruct (winner_log_grows C HC ls2 w1 S2 N2 HA (n_term n) n' Hin' Ep) as (n0 & Hn0 & Eid0 & _ & Hext).
  assert (n0 = n) by (apply (a_uni C w1 HA); [exact Hn0|exact Hin|congruence]). subst n0.
  pose proof (a_x C w1 HA) as HX. destruct (vi_coh w1 (x_v C w1 HX) n Hin F) as [Ecoh _].
  apply Hext; [|exact Ecoh].
  assert (Hact : active (n_role n)) by (rewrite Hrole; unfold active; auto).
  destruct (x_l0 C w1 HX n Hin Hact) as [_ Hv]. split; [exact Hv|]. intros Hm. apply (x_l C w1 HX n Hin Hrole Hm).
Qed.

Print Assumptions leader_never_overwrites.
