(* Election safety (C02), part 1: the bookkeeping invariant.  For every node n of a world and the RPC
   records cs of that world (never deleted: they are the history):
   - vote counters (rounds) have unique, bounded identities; tasks and calls refer to counters that exist(ed);
   - all goroutines and RPCs that share a counter are of one kind (AppendEntries / pre-vote / real vote);
   - a counter's RequestVote RPCs go to distinct peers, none to the node itself, none twice;
   - a counter never exceeds 1 + the number of its granted RequestVote RPCs whose response was consumed;
   - a RequestVote RPC carries the term its counter was created in (+1 for a pre-vote), and goes to a voter. *)
From RaftV Require Import Cluster.World Proofs.Frame Proofs.Votes Proofs.ElectDefs.
From Coq Require Import Permutation.
Open Scope N_scope.

Definition is_rv (k : call) : bool := match c_req k with ReqRV _ => true | _ => false end.
Definition call_tag (k : call) : N := match c_req k with ReqRV q => if rv_prevote q then 1 else 2 | _ => 0 end.
Definition task_tag (t : task) : N := match t with TRv _ _ pv => if pv then 1 else 2 | TAe _ _ => 0 end.
Definition cgranted (k : call) : bool := match c_resp k with Some (RespRV p) => rvr_granted p | _ => false end.
Definition cdone (k : call) : bool := match c_state k with CDone => true | _ => false end.
Definition counted (id rid : N) (k : call) : bool :=
  (c_src k =? id) && (c_round k =? rid) && is_rv k && cdone k && cgranted k.
Definition cnt (cs : list call) (id rid : N) : N := N.of_nat (length (filter (counted id rid) cs)).
Definition call_key (k : call) := (c_id k, c_src k, c_dst k, c_round k, c_req k).

(* an RV counter: one that has a RequestVote RPC or a pending sendRequestVote goroutine *)
Definition rv_round (cs : list call) (n : node) (rid : N) : Prop :=
  (exists k, In k cs /\ c_src k = n_id n /\ c_round k = rid /\ is_rv k = true) \/
  (exists p pv, In (TRv rid p pv) (n_tasks n)).

Record BN (C : config) (cs : list call) (n : node) : Prop := {
  b_wf : wf_rounds n;
  b_task_lt : forall t, In t (n_tasks n) -> task_round t < n_next_round n;
  b_call_lt : forall k, In k cs -> c_src k = n_id n -> c_round k < n_next_round n;
  b_tt : forall t1 t2, In t1 (n_tasks n) -> In t2 (n_tasks n) -> task_round t1 = task_round t2 -> task_tag t1 = task_tag t2;
  b_tc : forall t k, In t (n_tasks n) -> In k cs -> c_src k = n_id n -> c_round k = task_round t -> call_tag k = task_tag t;
  b_cc : forall k1 k2, In k1 cs -> In k2 cs -> c_src k1 = n_id n -> c_src k2 = n_id n -> c_round k1 = c_round k2 ->
           call_tag k1 = call_tag k2;
  b_nodup : NoDup (filter is_trv (n_tasks n));
  b_task_peer : forall rid p pv, In (TRv rid p pv) (n_tasks n) ->
                  p <> n_id n /\
                  forall k, In k cs -> c_src k = n_id n -> c_round k = rid -> is_rv k = true -> c_dst k <> p;
  b_call_peer : forall k1 k2, In k1 cs -> In k2 cs -> c_src k1 = n_id n -> c_src k2 = n_id n -> c_round k1 = c_round k2 ->
                  is_rv k1 = true -> is_rv k2 = true -> c_dst k1 = c_dst k2 -> c_id k1 = c_id k2;
  b_call_self : forall k, In k cs -> c_src k = n_id n -> is_rv k = true -> c_dst k <> n_id n;
  b_count : forall r, In r (n_rounds n) -> rv_round cs n (rd_id r) -> r_count r <= 1 + cnt cs (n_id n) (rd_id r);
  b_req : forall k q, In k cs -> c_req k = ReqRV q -> c_src k = n_id n ->
            is_voter C (c_dst k) = true /\
            forall r, In r (n_rounds n) -> rd_id r = c_round k -> rv_term q = r_term r + (if rv_prevote q then 1 else 0);
  b_rterm : forall r, In r (n_rounds n) -> rv_round cs n (rd_id r) -> n_frozen n = false -> r_term r <= n_term n;
  b_live : forall rid p pv, In (TRv rid p pv) (n_tasks n) -> exists r, In r (n_rounds n) /\ rd_id r = rid;
  b_selfvote : forall rid p r, In (TRv rid p false) (n_tasks n) -> In r (n_rounds n) -> rd_id r = rid ->
                 r_term r = n_term n -> n_frozen n = false -> n_vote n = Some (n_id n) }.

(* ------------------------------------------------------------------ *)
(* the RPC records change, the node does not *)
Lemma key_fields k k' : call_key k' = call_key k ->
  c_id k' = c_id k /\ c_src k' = c_src k /\ c_dst k' = c_dst k /\ c_round k' = c_round k /\ c_req k' = c_req k.
Proof. unfold call_key. intros H. injection H as H1 H2 H3 H4 H5. auto. Qed.

Lemma key_is_rv k k' : call_key k' = call_key k -> is_rv k' = is_rv k.
Proof. intros H. apply key_fields in H. unfold is_rv. destruct H as (_ & _ & _ & _ & ->). reflexivity. Qed.
Lemma key_tag k k' : call_key k' = call_key k -> call_tag k' = call_tag k.
Proof. intros H. apply key_fields in H. unfold call_tag. destruct H as (_ & _ & _ & _ & ->). reflexivity. Qed.

Lemma BN_calls_sim C cs cs' n :
  (forall k', In k' cs' -> c_src k' = n_id n -> exists k, In k cs /\ call_key k' = call_key k) ->
  (forall rid, cnt cs (n_id n) rid <= cnt cs' (n_id n) rid) ->
  BN C cs n -> BN C cs' n.
Proof.
  intros Hsim Hcnt [WF TL CL TT TC CC ND TP CP CS CT RQ RT LV SV].
  assert (Hrv : forall rid, rv_round cs' n rid -> rv_round cs n rid).
  { intros rid [(k' & Hk' & Es & Er & Ev)|H]; [|right; exact H].
    destruct (Hsim k' Hk' Es) as (k & Hk & Ek). pose proof (key_is_rv _ _ Ek) as E1. apply key_fields in Ek.
    destruct Ek as (_ & E2 & _ & E4 & _). left. exists k. repeat split; congruence. }
  constructor; try assumption.
  - intros k' Hk' Es. destruct (Hsim k' Hk' Es) as (k & Hk & Ek). apply key_fields in Ek.
    destruct Ek as (_ & E2 & _ & E4 & _). rewrite E4. apply CL; congruence.
  - intros t k' Ht Hk' Es Er. destruct (Hsim k' Hk' Es) as (k & Hk & Ek). rewrite (key_tag _ _ Ek).
    apply key_fields in Ek. destruct Ek as (_ & E2 & _ & E4 & _). apply TC; congruence.
  - intros k1' k2' H1 H2 Es1 Es2 Er. destruct (Hsim k1' H1 Es1) as (k1 & Hk1 & Ek1). destruct (Hsim k2' H2 Es2) as (k2 & Hk2 & Ek2).
    rewrite (key_tag _ _ Ek1), (key_tag _ _ Ek2). apply key_fields in Ek1, Ek2.
    destruct Ek1 as (_ & A2 & _ & A4 & _). destruct Ek2 as (_ & B2 & _ & B4 & _). apply CC; congruence.
  - intros rid p pv Ht. destruct (TP rid p pv Ht) as [T1 T2]. split; [exact T1|].
    intros k' Hk' Es Er Ev. destruct (Hsim k' Hk' Es) as (k & Hk & Ek). pose proof (key_is_rv _ _ Ek) as E1.
    apply key_fields in Ek. destruct Ek as (_ & E2 & E3 & E4 & _). rewrite E3. apply T2; congruence.
  - intros k1' k2' H1 H2 Es1 Es2 Er Ev1 Ev2 Ed.
    destruct (Hsim k1' H1 Es1) as (k1 & Hk1 & Ek1). destruct (Hsim k2' H2 Es2) as (k2 & Hk2 & Ek2).
    pose proof (key_is_rv _ _ Ek1) as V1. pose proof (key_is_rv _ _ Ek2) as V2. apply key_fields in Ek1, Ek2.
    destruct Ek1 as (A1 & A2 & A3 & A4 & _). destruct Ek2 as (B1 & B2 & B3 & B4 & _).
    rewrite A1, B1. apply CP; congruence.
  - intros k' Hk' Es Ev. destruct (Hsim k' Hk' Es) as (k & Hk & Ek). pose proof (key_is_rv _ _ Ek) as V1.
    apply key_fields in Ek. destruct Ek as (_ & E2 & E3 & _ & _). rewrite E3. apply CS; congruence.
  - intros r Hr Hw. specialize (CT r Hr (Hrv _ Hw)). specialize (Hcnt (rd_id r)). lia.
  - intros k' q Hk' Eq Es. destruct (Hsim k' Hk' Es) as (k & Hk & Ek). apply key_fields in Ek.
    destruct Ek as (_ & E2 & E3 & E4 & E5). rewrite E3, E4. apply RQ; congruence.
  - intros r Hr Hw. apply RT; [exact Hr|apply Hrv, Hw].
Qed.

(* counting is monotone when calls only move towards CDone *)
Lemma cnt_map_mono (g : call -> call) cs id rid :
  (forall k, counted id rid k = true -> counted id rid (g k) = true) -> cnt cs id rid <= cnt (map g cs) id rid.
Proof.
  intros H. unfold cnt. induction cs as [|k cs IH]; [cbn; lia|]. cbn [map filter].
  destruct (counted id rid k) eqn:E.
  - rewrite (H k E). cbn [length]. lia.
  - destruct (counted id rid (g k)); cbn [length]; lia.
Qed.

Lemma cnt_app cs cs2 id rid : cnt (cs ++ cs2) id rid = cnt cs id rid + cnt cs2 id rid.
Proof. unfold cnt. rewrite filter_app, app_length. lia. Qed.

(* ------------------------------------------------------------------ *)
(* the node runs a section, the RPC records do not change *)
Lemma mem_mono m m' : R m m' -> coh m -> n_frozen m' = false ->
  n_frozen m = false /\ n_term m <= n_term m' /\ (n_term m' = n_term m -> forall c, n_vote m = Some c -> n_vote m' = Some c).
Proof.
  intros [Eid HF [T1 T2] HC] Hc F'. pose proof (HF F') as F. destruct (Hc F) as [A1 A2]. destruct (HC Hc F') as [B1 B2].
  split; [exact F|]. split; [lia|]. intros ET c Hv. rewrite <- B2. apply T2; [lia|]. rewrite A2. exact Hv.
Qed.

Lemma trv_in (ts ts' : list task) rid p pv :
  filter is_trv ts' = filter is_trv ts -> In (TRv rid p pv) ts' -> In (TRv rid p pv) ts.
Proof.
  intros E H. assert (H1 : In (TRv rid p pv) (filter is_trv ts')) by (apply filter_In; split; [exact H|reflexivity]).
  rewrite E in H1. apply filter_In in H1. tauto.
Qed.

Lemma BN_node_core C cs m m' :
  R m m' -> coh m ->
  n_next_round m <= n_next_round m' ->
  (forall r', In r' (n_rounds m') ->
     (exists r, In r (n_rounds m) /\ rd_id r' = rd_id r /\ r_term r' = r_term r /\
                (rv_round cs m (rd_id r) -> r_count r' <= 1 + cnt cs (n_id m) (rd_id r)))
     \/ n_next_round m <= rd_id r') ->
  (forall r, In r (n_rounds m) -> exists r', In r' (n_rounds m') /\ rd_id r' = rd_id r) ->
  (wf_rounds m -> wf_rounds m') ->
  filter is_trv (n_tasks m') = filter is_trv (n_tasks m) ->
  (forall t, In t (n_tasks m') ->
     In t (n_tasks m) \/ (is_trv t = false /\ n_next_round m <= task_round t /\ task_round t < n_next_round m')) ->
  BN C cs m -> BN C cs m'.
Proof.
  intros HR Hcoh Hnext Hr Hkeep Hwf Htrv Htae [WF TL CL TT TC CC ND TP CP CS CT RQ RT LV SV0].
  pose proof (Votes.r_id _ _ HR) as Eid.
  assert (Hrvr : forall rid, rv_round cs m' rid -> rv_round cs m rid).
  { intros rid [(k & H)|(p & pv & H)]; [left; exists k; rewrite <- Eid; exact H|right; exists p, pv; eapply trv_in; eassumption]. }
  constructor.
  - apply Hwf, WF.
  - intros t Ht. destruct (Htae t Ht) as [H|(_ & _ & H)]; [specialize (TL t H); lia|exact H].
  - intros k Hk Es. rewrite Eid in Es. specialize (CL k Hk Es). lia.
  - intros t1 t2 H1 H2 Er. destruct (Htae t1 H1) as [A|(A1 & A2 & A3)], (Htae t2 H2) as [B|(B1 & B2 & B3)].
    + apply TT; assumption.
    + specialize (TL t1 A). lia.
    + specialize (TL t2 B). lia.
    + destruct t1, t2; try discriminate. reflexivity.
  - intros t k Ht Hk Es Er. rewrite Eid in Es. destruct (Htae t Ht) as [A|(A1 & A2 & A3)]; [apply TC; assumption|].
    specialize (CL k Hk Es). lia.
  - intros k1 k2 H1 H2 E1 E2. rewrite Eid in E1, E2. apply CC; assumption.
  - rewrite Htrv. exact ND.
  - intros rid p pv Ht. rewrite Eid. apply (TP rid p pv). eapply trv_in; eassumption.
  - intros k1 k2 H1 H2 E1 E2. rewrite Eid in E1, E2. apply CP; assumption.
  - intros k Hk Es. rewrite Eid in *. apply CS; assumption.
  - intros r' Hr' Hw. rewrite Eid. destruct (Hr r' Hr') as [(r & Hin & E1 & E2 & Hc)|Hfresh].
    + rewrite E1. apply Hc. rewrite <- E1. apply Hrvr, Hw.
    + exfalso. destruct (Hrvr _ Hw) as [(k & Hk & Es & Er & _)|(p & pv & Ht)].
      * specialize (CL k Hk Es). lia.
      * specialize (TL _ Ht). cbn [task_round] in TL. lia.
  - intros k q Hk Eq Es. rewrite Eid in Es. destruct (RQ k q Hk Eq Es) as [R1 R2]. split; [exact R1|].
    intros r' Hr' Er. destruct (Hr r' Hr') as [(r & Hin & E1 & E2 & _)|Hfresh].
    + rewrite E2. apply R2; [exact Hin|congruence].
    + specialize (CL k Hk Es). lia.
  - intros r' Hr' Hw F'. destruct (mem_mono _ _ HR Hcoh F') as (F & HT & _).
    destruct (Hr r' Hr') as [(r & Hin & E1 & E2 & _)|Hfresh].
    + rewrite E2. assert (Hw0 : rv_round cs m (rd_id r)) by (rewrite <- E1; apply Hrvr, Hw). specialize (RT r Hin Hw0 F). lia.
    + exfalso. destruct (Hrvr _ Hw) as [(k & Hk & Es & Er & _)|(p & pv & Ht)].
      * specialize (CL k Hk Es). lia.
      * specialize (TL _ Ht). cbn [task_round] in TL. lia.
  - intros rid p pv Ht. pose proof (trv_in _ _ _ _ _ Htrv Ht) as Ht0. destruct (LV rid p pv Ht0) as (r & Hin & Er).
    destruct (Hkeep r Hin) as (r' & Hin' & Er'). exists r'. split; [exact Hin'|congruence].
  - intros rid p r' Ht Hr' Er Et F'. rewrite Eid. destruct (mem_mono _ _ HR Hcoh F') as (F & HT & HV).
    pose proof (trv_in _ _ _ _ _ Htrv Ht) as Ht0.
    destruct (Hr r' Hr') as [(r & Hin & E1 & E2 & _)|Hfresh].
    + assert (Hw0 : rv_round cs m (rd_id r)) by (right; exists p, false; rewrite E1 in Er; rewrite Er; exact Ht0).
      specialize (RT r Hin Hw0 F).
      destruct (N.eq_dec (n_term m') (n_term m)) as [ET|ET]; [|lia].
      apply (HV ET). apply (SV0 rid p r Ht0 Hin); congruence.
    + specialize (TL _ Ht0). cbn [task_round] in TL. lia.
Qed.

Lemma BN_node_E C cs m m' : R m m' -> coh m -> E m m' -> BN C cs m -> BN C cs m'.
Proof.
  intros HR Hc [E1 E0 E2 E3 E4 E5] HB. apply (BN_node_core C cs m m' HR Hc E1); try assumption.
  - intros r' Hr'. destruct (E2 r' Hr') as [H|H]; [left|right; exact H].
    exists r'. repeat split; try assumption. intros Hw. apply (b_count _ _ _ HB r' H Hw).
  - intros r Hr. exists r. split; [apply E0, Hr|reflexivity].
Qed.

(* EB: the counter rid was incremented; the caller shows that the increment is covered *)
Lemma BN_node_EB C cs rid m m' :
  R m m' -> coh m -> EB rid m m' ->
  (forall r, In r (n_rounds m) -> rd_id r = rid -> rv_round cs m rid -> r_count r + 1 <= 1 + cnt cs (n_id m) rid) ->
  BN C cs m -> BN C cs m'.
Proof.
  intros HR Hc [E1 E0 E2 E3 E4 E5] Hb HB. apply (BN_node_core C cs m m' HR Hc E1); try assumption.
  intros r' Hr'. destruct (E2 r' Hr') as [(r & Hin & B1 & B2 & B3)|H]; [left|right; exact H].
  exists r. repeat split; try assumption. intros Hw. pose proof (b_count _ _ _ HB r Hin Hw) as Hcnt.
  destruct B3 as [->|[Er ->]]; [exact Hcnt|]. subst rid. apply Hb; [exact Hin|reflexivity|exact Hw].
Qed.
