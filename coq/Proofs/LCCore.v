(* Leader completeness (C07), core definitions: acknowledged entries, dead entries (a majority that has
   moved past the entry's term without acknowledging it), committed entries (a majority that has
   acknowledged it), and the invariant. Classical logic (excluded middle) is used from here on. *)
From Coq Require Import Classical.
From RaftV Require Import Cluster.World Cluster.Statements Proofs.Frame Proofs.RVSpec Proofs.AESpec Proofs.AELog Proofs.AEFull.
From RaftV Require Import Proofs.ConfNode Proofs.ConfStatic Proofs.ConfSticky.
From RaftV Require Import Proofs.Votes Proofs.VoteRecords Proofs.Names Proofs.ElectSpec.
From RaftV Require Import Proofs.ElectDefs Proofs.ElectBook Proofs.ElectWorld Proofs.ElectRun Proofs.ElectSafety.
From RaftV Require Import Proofs.LogDefs Proofs.LogSeg Proofs.LogUni Proofs.LogInv Proofs.LogFrame Proofs.NoSnap Proofs.TaePeer
                          Proofs.LogWorld Proofs.LogRun Proofs.LogMatching Proofs.StepCases Proofs.SortedTerms
                          Proofs.LCDefs Proofs.LCHist.
Open Scope N_scope.

Section LCCore.
Variable C : config.

(* ej occurs in some segment of the world, above the bootstrap entry *)
Definition is_entry (w : world) (ej : entry) : Prop := exists s, is_seg w s /\ holds s ej /\ 2 <= e_index ej.

(* v has acknowledged ej (a success response to a request of ej's term reaching ej's index), or is the winner of ej's term *)
Definition member (cs : list call) (ej : entry) (v : nid) : Prop :=
  acked cs (e_term ej) v (e_index ej) \/ lead C cs v (e_term ej).

Definition dead (w : world) (ej : entry) : Prop :=
  exists D, NoDup D /\ incl D (voters C) /\ (length (voters C) < 2 * length D)%nat /\
    forall d, In d D -> ~ member (w_calls w) ej d /\ exists nd, In nd (w_nodes w) /\ n_id nd = d /\ e_term ej < n_pterm nd.

Definition committed (cs : list call) (ej : entry) : Prop :=
  exists V, NoDup V /\ incl V (voters C) /\ (length (voters C) < 2 * length V)%nat /\ forall v, In v V -> member cs ej v.

(* the candidate's advertised last entry is at least as far as ej *)
Definition covers (r : rv_req) (ej : entry) : Prop :=
  e_term ej < rv_last_term r \/ (rv_last_term r = e_term ej /\ e_index ej <= rv_last_index r).

Record LCI (w : world) : Prop := {
  (* entries of one term form one chain *)
  lc_tt : forall ej s i2, is_entry w ej -> is_seg w s -> e_index ej <= i2 -> tget s i2 = Some (e_term ej) ->
            (sg_base s < e_index ej -> holds s ej) /\
            (forall i, e_index ej <= i -> i <= i2 -> sg_base s <= i -> tget s i = Some (e_term ej));
  (* members of a live entry hold it *)
  lc_a : forall ej v, is_entry w ej -> ~ dead w ej -> In v (w_nodes w) -> member (w_calls w) ej (n_id v) ->
           holds (seg_of_log (n_log v)) ej;
  (* a segment with an entry of a higher term holds every live entry above its base *)
  lc_b : forall ej s i' e', is_entry w ej -> ~ dead w ej -> is_seg w s -> eget s i' = Some e' -> e_term ej < e_term e' ->
           sg_base s < e_index ej -> holds s ej;
  (* a request of a higher term whose base is at or after a live entry has a base term at least the entry's *)
  lc_rqb : forall ej k q, is_entry w ej -> ~ dead w ej -> In k (w_calls w) -> c_req k = ReqAE q -> e_term ej < ae_term q ->
             e_index ej <= ae_prev_index q -> e_term ej <= ae_prev_term q;
  (* leaders of higher terms hold every live entry *)
  lc_ic : forall ej L, is_entry w ej -> ~ dead w ej -> In L (w_nodes w) -> n_role L = Leader -> e_term ej < n_term L ->
            holds (seg_of_log (n_log L)) ej;
  (* a member grants its vote only to a candidate whose advertised log covers the entry *)
  lc_c : forall ej k r, is_entry w ej -> ~ dead w ej -> In k (w_calls w) -> c_req k = ReqRV r -> rv_prevote r = false ->
           (exists p, c_resp k = Some (RespRV p) /\ rvr_granted p = true) -> member (w_calls w) ej (c_dst k) ->
           e_term ej < rv_term r -> covers r ej;
  (* the base of a request is a position of its creator's log, like an entry *)
  lc_bs : forall k q, In k (w_calls w) -> c_req k = ReqAE q -> 2 <= ae_prev_index q ->
            exists a, In a (w_nodes w) /\ lead C (w_calls w) (n_id a) (ae_prev_term q) /\ ae_prev_term q <= n_pterm a /\
                      (n_pterm a = ae_prev_term q -> sg_base (seg_of_log (n_log a)) < ae_prev_index q /\
                                                     tget (seg_of_log (n_log a)) (ae_prev_index q) = Some (ae_prev_term q));
  (* a member's persistent term has reached the entry's term *)
  lc_mp : forall ej v, is_entry w ej -> In v (w_nodes w) -> member (w_calls w) ej (n_id v) -> e_term ej <= n_pterm v }.

(* ---------------- committed and dead exclude each other ---------------- *)
Lemma committed_not_dead w ej : committed (w_calls w) ej -> ~ dead w ej.
Proof.
  intros (V & NV & IV & LV & HV) (D & ND & ID & LD & HD).
  assert (Hlen : (length (voters C) < length V + length D)%nat) by lia.
  destruct (pigeon V D (voters C) NV ND IV ID Hlen) as (x & Hx & Hd).
  destruct (HD x Hd) as [Hn _]. apply Hn, HV, Hx.
Qed.

End LCCore.
