(* Where a new AppendEntries record comes from, stated about the sender's node in the world AFTER the step:
   it is there, it is a leader in the term of the request, the request carries its commit index, and the
   request is a sub-segment of its log.  Same analysis as StepCases.step_NC. *)
From RaftV Require Import Cluster.World Cluster.Statements Proofs.Frame Proofs.RVSpec Proofs.AESpec Proofs.AELog.
From RaftV Require Import Proofs.ConfNode Proofs.ConfStatic Proofs.ConfSticky.
From RaftV Require Import Proofs.Votes Proofs.VoteRecords Proofs.Names Proofs.ElectSpec.
From RaftV Require Import Proofs.ElectDefs Proofs.EFrame Proofs.RoleFrame Proofs.ElectBook Proofs.ElectNode Proofs.ElectSteps
                          Proofs.ElectWorld Proofs.ElectReply Proofs.ElectStep Proofs.ElectRun Proofs.ElectSafety.
From RaftV Require Import Proofs.LogDefs Proofs.LogSeg Proofs.LogUni Proofs.LogInv Proofs.LogAccept Proofs.LogSend Proofs.LogFrame
                          Proofs.NoSnap Proofs.TaePeer Proofs.LogWorld Proofs.LogRun Proofs.LogMatching.
From RaftV Require Import Proofs.StepCases.
Open Scope N_scope.

(* when l_ae_send sends an AppendEntries request the node is left as it was, and the request carries the
   node's commit index *)
Lemma ae_send_same n peer n1 q : l_ae_send n peer = (n1, SentAE q) -> n1 = n /\ ae_commit q = n_commit n.
Proof.
  unfold l_ae_send.
  destruct (negb (role_eqb (n_role n) Leader) || negb (is_member (conf_of n) peer)); [intros H; discriminate H|].
  destruct (f_next (get_follower n peer) <=? n_lii n).
  - destruct (l_is_send n peer) as [m [q2|]]; intros H; discriminate H.
  - destruct (next_index (n_log n) <? f_next (get_follower n peer)); intros H; [discriminate H|].
    injection H as E1 E2. split; [symmetry; exact E1|]. rewrite <- E2. reflexivity.
Qed.

Section NewCalls.
Variable C : config.

Definition NAk (w w' : world) (k' : call) : Prop :=
  (exists k, In k (w_calls w) /\ call_key k' = call_key k) \/
  (exists m', In m' (w_nodes w') /\ n_id m' = c_src k' /\
     match c_req k' with
     | ReqAE q => n_role m' = Leader /\ n_term m' = ae_term q /\ ae_commit q = n_commit m' /\
                  (forall i e, eget (seg_of_req q) i = Some e -> eget (seg_of_log (n_log m')) i = Some e) /\
                  tget (seg_of_log (n_log m')) (ae_prev_index q) = Some (ae_prev_term q) /\ n_frozen m' = false
     | ReqRV _ => True
     | ReqIS _ => True
     end).
Definition NA (w w' : world) : Prop := forall k', In k' (w_calls w') -> NAk w w' k'.

Lemma NA_keys w w' : (forall k', In k' (w_calls w') -> exists k, In k (w_calls w) /\ call_key k' = call_key k) -> NA w w'.
Proof. intros H k' Hk'. left. apply H, Hk'. Qed.

Lemma NA_same w w' : w_calls w' = w_calls w -> NA w w'.
Proof. intros E. apply NA_keys. intros k' Hk'. rewrite E in Hk'. exists k'. auto. Qed.

Lemma NA_of_NC_keys w w' : NC w w' -> (forall k', NCk w k' -> (exists k, In k (w_calls w) /\ call_key k' = call_key k)) -> NA w w'.
Proof. intros H H1 k' Hk'. left. apply H1, H, Hk'. Qed.

Lemma NA_step_task w m : NSW w -> LMI C w -> In m (w_nodes w) -> n_frozen m = false -> NA w (step_task w m).
Proof.
  intros HNS HL Hm Hfm. unfold step_task. destruct (n_tasks m) as [|t rest] eqn:Et; [apply NA_same; reflexivity|].
  set (n0 := m <| n_tasks := rest |>).
  destruct t as [rid peer pv|rid peer].
  - destruct (l_rv_send n0 rid peer pv) as [q|]; [|apply NA_same; reflexivity].
    intros k' Hk'. unfold new_call in Hk'. cbn [w_calls set] in Hk'. apply in_app_or in Hk'.
    destruct Hk' as [H|[<-|[]]]; [left; exists k'; auto|]. right. exists n0.
    split; [|split; [reflexivity|exact I]].
    change (In n0 (w_nodes (set_node w n0))). apply in_set_node_self with (m := m); [exact Hm|reflexivity].
  - assert (Hns0 : ns_node n0) by (apply (ns_nf n0 m); [reflexivity|apply (ns_nodes w HNS m Hm)]).
    destruct (ae_send_ns n0 peer Hns0) as [_ Hsent].
    pose proof (ae_send_named n0 peer) as Hnamed. pose proof (ae_send_term n0 peer) as Hterm.
    pose proof (ae_send_seg n0 peer) as Hseg. pose proof (ae_send_same n0 peer) as Hsame.
    destruct (l_ae_send n0 peer) as [n1 sn]. cbn [fst snd] in *.
    destruct sn as [|q|q]; [apply NA_same; reflexivity| |contradiction].
    destruct (Hnamed n1 (SentAE q) eq_refl) as [Hld Hrole]. specialize (Hterm n1 (SentAE q) eq_refl). cbn beta iota in Hterm.
    assert (Hwf0 : wf_seg (seg_of_log (n_log n0))) by (apply (lm_wf C w HL); left; exists m; auto).
    destruct (Hseg n1 q Hns0 Hwf0 eq_refl) as (S1 & S2 & S3).
    destruct (Hsame n1 q eq_refl) as [E1 Ecm]. subst n1.
    intros k' Hk'. unfold new_call in Hk'. cbn [w_calls set] in Hk'. apply in_app_or in Hk'.
    destruct Hk' as [H|[<-|[]]]; [left; exists k'; auto|]. right. exists n0. cbn [c_src c_req].
    split; [change (In n0 (w_nodes (set_node w n0))); apply in_set_node_self with (m := m); [exact Hm|reflexivity]|].
    split; [reflexivity|]. split; [exact Hrole|]. split; [symmetry; exact Hterm|]. split; [exact Ecm|]. split; [exact S2|]. split; [exact S3|exact Hfm].
Qed.

Theorem step_NA w l : static_label l = true -> nosnap_label l = true -> ALL C w -> NA w (step w l).
Proof.
  intros Hst Hns [HW HX HU HNS HTA HL].
  assert (Hon : forall w1 id f, w_calls w1 = w_calls w -> NA w (on_node w1 id f)).
  { intros w1 id f E. apply NA_same. unfold on_node. destruct (get_node w1 id); exact E. }
  assert (Hdel : forall c dup, In c (w_calls w) -> NA w (step_deliver w c dup)).
  { intros c dup Hc. apply NA_keys. unfold step_deliver. destruct (get_node w (c_dst c)) as [n|].
    2:{ destruct dup; [intros k' H; exists k'; auto|apply keys_set_call with (c := c); auto]. }
    destruct (n_frozen n); [destruct dup; [intros k' H; exists k'; auto|apply keys_set_call with (c := c); auto]|].
    destruct (run_handler (w_now w) n (c_req c)) as [[n1 resp] parked].
    destruct dup; [intros k' H; exists k'; auto|].
    destruct (n_frozen n1); [apply keys_set_call with (c := c); auto|].
    destruct resp; apply keys_set_call with (c := c); auto. }
  assert (Hrep : forall c failed, In c (w_calls w) -> NA w (step_reply w c failed)).
  { intros c failed Hc. apply NA_keys. unfold step_reply. set (w0 := set_call w (c <| c_state := CDone |>)).
    assert (H0 : forall k', In k' (w_calls w0) -> exists k, In k (w_calls w) /\ call_key k' = call_key k)
      by (apply keys_set_call with (c := c); auto).
    destruct (get_node w (c_src c)) as [n|] eqn:G; [|exact H0]. destruct (Votes.get_node_in _ _ _ G) as [Hn _].
    destruct (n_frozen n); [exact H0|].
    destruct (c_req c) as [q|q|q]; destruct (if failed then None else c_resp c) as [[p|p|p]|]; try exact H0.
    destruct (ae_reply_ns (w_now w) n (c_round c) (c_dst c) (c_fgen c) q p (ns_nodes w HNS n Hn)) as [_ Hnone].
    destruct (l_ae_reply (w_now w) n (c_round c) (c_dst c) (c_fgen c) q p) as [n1 o]. cbn [snd] in Hnone. subst o. exact H0. }
  destruct l; cbn [step]; try discriminate Hst; try discriminate Hns; try (apply Hon; reflexivity).
  - apply NA_same. reflexivity.
  - destruct (get_call w c) as [cl|] eqn:G; [|apply NA_same; reflexivity]. destruct (VoteRecords.get_call_in _ _ _ G) as [Hin _].
    destruct (c_state cl); try (apply NA_same; reflexivity). apply Hdel; auto.
  - destruct (get_call w c) as [cl|] eqn:G; [|apply NA_same; reflexivity]. destruct (VoteRecords.get_call_in _ _ _ G) as [Hin _].
    apply Hdel; auto.
  - destruct (get_call w c) as [cl|] eqn:G; [|apply NA_same; reflexivity]. destruct (VoteRecords.get_call_in _ _ _ G) as [Hin _].
    destruct (c_state cl); try (apply NA_same; reflexivity). apply Hrep; auto.
  - destruct (get_call w c) as [cl|] eqn:G; [|apply NA_same; reflexivity]. destruct (VoteRecords.get_call_in _ _ _ G) as [Hin _].
    destruct (c_state cl); try (apply NA_same; reflexivity); apply Hrep; auto.
  - apply NA_keys. intros k' Hk'. unfold drop_calls_of in Hk'. cbn [w_calls set] in Hk'. apply in_map_iff in Hk'.
    destruct Hk' as (d & <- & Hd). exists d. rewrite calls_on_node in Hd. split; [exact Hd|]. destruct (c_src d =? n); reflexivity.
  - destruct (get_node w n) as [m|] eqn:G; [|apply NA_same; reflexivity]. destruct (is_up m) eqn:Eup; [|apply NA_same; reflexivity].
    destruct (Votes.get_node_in _ _ _ G) as [Hm _]. apply NA_step_task; auto.
    unfold is_up in Eup. apply andb_true_iff in Eup. destruct Eup as [_ Eup]. apply negb_true_iff in Eup. exact Eup.
  - destruct (get_node w n) as [m|] eqn:G; [|apply NA_same; reflexivity].
    destruct (Votes.get_node_in _ _ _ G) as [Hm _]. rewrite (install_resume_ns m (ns_nodes w HNS m Hm)). apply NA_same. reflexivity.
Qed.

(* the NoDup hypothesis is not used; it is kept so that the statement has the shape of the other step theorems *)
Theorem new_ae_sender w l : NoDup (member_ids C) -> static_label l = true -> nosnap_label l = true -> ALL C w ->
  forall k' q, In k' (w_calls (step w l)) -> c_req k' = ReqAE q ->
    (exists k, In k (w_calls w) /\ call_key k' = call_key k) \/
    (exists m', In m' (w_nodes (step w l)) /\ n_id m' = c_src k' /\
       n_role m' = Leader /\ n_term m' = ae_term q /\ ae_commit q = n_commit m' /\
       (forall i e, eget (seg_of_req q) i = Some e -> eget (seg_of_log (n_log m')) i = Some e) /\
       tget (seg_of_log (n_log m')) (ae_prev_index q) = Some (ae_prev_term q) /\ n_frozen m' = false).
Proof.
  intros _ Hst Hns HA k' q Hk' Eq. destruct (step_NA w l Hst Hns HA k' Hk') as [H|(m' & A & B & D)]; [left; exact H|].
  right. exists m'. rewrite Eq in D. auto.
Qed.

End NewCalls.
Print Assumptions new_ae_sender.
