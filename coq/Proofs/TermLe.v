(* The term on disk never exceeds the term in memory: over EVERY step of EVERY
   node - handlers, timers, replies, client calls, membership changes, snapshots,
   crashes at any storage write, restarts - n_pterm n <= n_term n.
   Same sweep as Proofs/Votes.v: the Q-functions keep both fields; for the
   functions that do write the term (persist, becomeFollower, becomeCandidate,
   crash, restore) the short case analysis is redone. *)
From RaftV Require Import Cluster.World Proofs.Frame Proofs.Votes.
Open Scope N_scope.

Definition ptle (n : node) : Prop := n_pterm n <= n_term n.

Definition PT (m m' : node) : Prop := ptle m -> ptle m'.

Lemma PT_refl n : PT n n. Proof. intros H; exact H. Qed.
Lemma PT_trans a b c : PT a b -> PT b c -> PT a c.
Proof. unfold PT. auto. Qed.
Lemma Q_PT n n' : Q n n' -> PT n n'.
Proof. intros [_ Ht _ Hpt _ _] H. unfold ptle in *. rewrite Ht, Hpt. exact H. Qed.

(* ---- the transitions that do change the term ---- *)
Lemma ptle_persist m : ptle m -> ptle (persist m).
Proof.
  intros H. pose proof (persist_core m) as HP. cbn zeta in HP. destruct HP as (P1 & _ & _ & _ & _ & _ & P5 & _).
  unfold ptle in *. rewrite P1, P5. destruct (fst (tick_write m)); [apply N.le_refl|exact H].
Qed.

Lemma PT_set_persist n t v : n_term n <= t -> PT n (persist (n <| n_term := t |> <| n_vote := v |>)).
Proof.
  intros Ht H. apply ptle_persist.
  set (m := n <| n_term := t |> <| n_vote := v |>).
  assert (Mt : n_term m = t) by reflexivity. assert (Mpt : n_pterm m = n_pterm n) by reflexivity.
  unfold ptle in *. rewrite Mt, Mpt. lia.
Qed.

Lemma PT_become_follower now n l t : n_term n <= t -> PT n (become_follower now n l t).
Proof.
  intros Ht H.
  assert (H1 : ptle (persist (bf_pre n l t))).
  { apply ptle_persist.
    assert (Mt : n_term (bf_pre n l t) = t) by reflexivity.
    assert (Mpt : n_pterm (bf_pre n l t) = n_pterm n) by reflexivity.
    unfold ptle in *. rewrite Mt, Mpt. lia. }
  revert H1. apply Q_PT, Q_same_core, become_follower_core.
Qed.

(* ---- RequestVote ---- *)
Lemma PT_request_vote now n q : PT n (fst (h_request_vote now n q)).
Proof.
  unfold h_request_vote.
  destruct (role_eqb (n_role n) Shutdown); [apply PT_refl|].
  destruct (lease_valid now n || recent_contact now n); [apply PT_refl|].
  destruct (N.ltb_spec (rv_term q) (n_term n)) as [Hlt|Hge]; [apply PT_refl|].
  set (n1 := if negb (rv_prevote q) && (n_term n <? rv_term q) then become_follower now n (rv_cand q) (rv_term q) else n).
  assert (H1 : PT n n1).
  { subst n1. destruct (negb (rv_prevote q) && (n_term n <? rv_term q)); [|apply PT_refl].
    apply PT_become_follower; assumption. }
  destruct (negb (rv_prevote q) && match n_vote n1 with Some v => negb (v =? rv_cand q) | None => false end) eqn:Ev;
    [exact H1|].
  destruct ((rv_last_term q <? last_term (n_log n1)) || _); [exact H1|].
  cbn [fst]. destruct (rv_prevote q) eqn:Ep; [exact H1|].
  eapply PT_trans; [exact H1|].
  replace (n1 <| n_contact := now |> <| n_vote := Some (rv_cand q) |>)
    with ((n1 <| n_contact := now |>) <| n_term := n_term (n1 <| n_contact := now |>) |> <| n_vote := Some (rv_cand q) |>)
    by (destruct n1; reflexivity).
  eapply PT_trans; [apply Q_PT; instantiate (1 := n1 <| n_contact := now |>); qtv|].
  apply PT_set_persist. apply N.le_refl.
Qed.

(* ---- AppendEntries ---- *)
Lemma PT_append_entries now n q : PT n (fst (h_append_entries now n q)).
Proof.
  unfold h_append_entries.
  destruct (role_eqb (n_role n) Shutdown); [apply PT_refl|].
  destruct (N.ltb_spec (ae_term q) (n_term n)) as [Hlt|Hge]; [apply PT_refl|].
  set (n1 := n <| n_contact := now |> <| n_leader := Some (ae_leader q) |>).
  assert (H1 : PT n n1) by (apply Q_PT; qtv).
  assert (T1 : n_term n1 = n_term n) by reflexivity.
  set (n2 := if n_term n1 <? ae_term q then become_follower now n1 (ae_leader q) (ae_term q) else n1).
  assert (H2 : PT n1 n2).
  { subst n2. destruct (N.ltb_spec (n_term n1) (ae_term q)); [|apply PT_refl].
    apply PT_become_follower; lia. }
  set (n3 := if (ae_term q =? n_term n2) && _ then become_follower now n2 (ae_leader q) (ae_term q) else n2).
  assert (H3 : PT n2 n3).
  { subst n3. destruct (N.eqb_spec (ae_term q) (n_term n2)) as [E|E]; cbn [andb]; [|apply PT_refl].
    destruct (role_eqb (n_role n2) Candidate || role_eqb (n_role n2) PreCandidate); [|apply PT_refl].
    apply PT_become_follower; lia. }
  assert (H03 : PT n n3) by (eapply PT_trans; [exact H1|eapply PT_trans; eassumption]).
  destruct (ae_prev_index q <? n_lii n3); [exact H03|].
  destruct (next_index (n_log n3) <=? ae_prev_index q); [exact H03|].
  destruct ((n_lii n3 =? ae_prev_index q) && negb (n_lit n3 =? ae_prev_term q)); [exact H03|].
  match goal with |- PT n (fst (match ?c with _ => _ end)) => destruct c as [[idx|]|] end.
  - exact H03.
  - cbn [fst]. eapply PT_trans; [exact H03|apply Q_PT, Q_fail].
  - destruct (ae_scan now n3 (ae_entries q)) as [[n4 to_append]|] eqn:Es.
    + cbn [fst]. eapply PT_trans; [exact H03|]. apply Q_PT.
      eapply Q_trans; [eapply Q_ae_scan; exact Es|].
      eapply Q_trans; [apply Q_append|].
      match goal with |- Q _ (if ?c then _ else _) => destruct c end; [|apply Q_refl].
      unfold signal_apply. qtv.
    + cbn [fst]. eapply PT_trans; [exact H03|apply Q_PT, Q_fail].
Qed.

(* ---- InstallSnapshot ---- *)
Lemma PT_install_snapshot now n q : PT n (fst (h_install_snapshot now n q)).
Proof.
  unfold h_install_snapshot.
  destruct (role_eqb (n_role n) Shutdown); [apply PT_refl|].
  destruct (N.ltb_spec (is_term q) (n_term n)) as [Hlt|Hge]; [apply PT_refl|].
  set (n1 := if n_term n <? is_term q then become_follower now n (is_leader q) (is_term q) else n).
  assert (H1 : PT n n1).
  { subst n1. destruct (N.ltb_spec (n_term n) (is_term q)); [|apply PT_refl]. apply PT_become_follower; lia. }
  set (n2 := if (is_term q =? n_term n1) && _ then become_follower now n1 (is_leader q) (is_term q) else n1).
  assert (H2 : PT n1 n2).
  { subst n2. destruct (N.eqb_spec (is_term q) (n_term n1)) as [E|E]; cbn [andb]; [|apply PT_refl].
    destruct (role_eqb (n_role n1) Candidate || role_eqb (n_role n1) PreCandidate); [|apply PT_refl].
    apply PT_become_follower; lia. }
  set (n3 := n2 <| n_contact := now |>).
  assert (H03 : PT n n3).
  { eapply PT_trans; [exact H1|]. eapply PT_trans; [exact H2|]. apply Q_PT. qtv. }
  destruct ((is_lii q <=? n_lii n3) || (is_lii q <=? n_applied n3)); [exact H03|].
  set (n4 := match n_partial n3 with Some p => if s_index p <? is_lii q then n3 <| n_partial := None |> else n3 | None => n3 end).
  assert (H4 : Q n3 n4).
  { subst n4. destruct (n_partial n3) as [p|]; [|apply Q_refl]. destruct (s_index p <? is_lii q); [qtv|apply Q_refl]. }
  assert (H04 : PT n n4) by (eapply PT_trans; [exact H03|apply Q_PT; exact H4]).
  match goal with |- PT n (fst (if ?c then _ else _)) => destruct c end.
  - cbn [fst]. eapply PT_trans; [exact H04|]. apply Q_PT. qtv.
  - match goal with |- PT n (fst (if ?c then _ else _)) => destruct c end.
    + cbn [fst]. eapply PT_trans; [exact H04|]. apply Q_PT. qtv.
    + match goal with |- PT n (fst (if ?c then _ else _)) => destruct c end.
      * match goal with |- PT n (fst (if ?c then _ else _)) => destruct c end; cbn [fst];
          (eapply PT_trans; [exact H04|]); apply Q_PT.
        -- eapply Q_trans; [apply Q_close_snapshot|]. qtv.
        -- eapply Q_trans; [|apply Q_install_compact]. eapply Q_trans; [apply Q_close_snapshot|]. qtv.
      * cbn [fst]. eapply PT_trans; [exact H04|]. apply Q_PT.
        eapply Q_trans; [|apply Q_install_restore]. eapply Q_trans; [apply Q_close_snapshot|]. qtv.
Qed.

(* ---- sender side ---- *)
Lemma PT_send_rv_to_peers now n : PT n (send_rv_to_peers now n).
Proof.
  unfold send_rv_to_peers. destruct (is_single (conf_of n) (n_id n)).
  - eapply PT_trans; [|apply Q_PT, Q_become_leader].
    destruct (role_eqb (n_role n) PreCandidate); [|apply PT_refl].
    set (n0 := n <| n_role := Candidate |>).
    assert (H0 : Q n n0) by qtv.
    clearbody n0. eapply PT_trans; [apply Q_PT; exact H0|].
    apply PT_set_persist. lia.
  - apply Q_PT. unfold new_round. qtv.
Qed.

Lemma PT_election now n : PT n (l_election now n).
Proof.
  unfold l_election.
  set (n0 := n <| n_cv ::= _ |>).
  assert (H0 : Q n n0) by qtv.
  match goal with |- PT n (if ?c then _ else _) => destruct c end; [apply Q_PT; exact H0|].
  set (n1 := if role_eqb (n_role n0) Follower then n0 <| n_role := PreCandidate |> else n0).
  assert (H1 : Q n0 n1) by (subst n1; destruct (role_eqb (n_role n0) Follower); [qtv|apply Q_refl]).
  eapply PT_trans; [apply Q_PT; eapply Q_trans; [exact H0|exact H1]|].
  assert (H2 : PT n1 (if role_eqb (n_role n1) Candidate
                     then persist (n1 <| n_term ::= N.succ |> <| n_vote := Some (n_id n1) |>) else n1)).
  { destruct (role_eqb (n_role n1) Candidate); [|apply PT_refl].
    replace (n1 <| n_term ::= N.succ |> <| n_vote := Some (n_id n1) |>)
      with (n1 <| n_term := N.succ (n_term n1) |> <| n_vote := Some (n_id n1) |>) by reflexivity.
    apply PT_set_persist. lia. }
  eapply PT_trans; [exact H2|]. apply PT_send_rv_to_peers.
Qed.

Lemma PT_rv_reply now n rid peer pv q p : PT n (l_rv_reply now n rid peer pv q p).
Proof.
  unfold l_rv_reply.
  destruct (role_eqb (n_role n) Shutdown); [apply PT_refl|].
  destruct (N.ltb_spec (rv_term q) (n_term n)) as [Hlt|Hge]; [apply PT_refl|].
  set (n1 := if rvr_granted p then bump_round n rid else n).
  assert (H1 : Q n n1) by (subst n1; destruct (rvr_granted p); [apply Q_bump|apply Q_refl]).
  assert (T1 : n_term n1 = n_term n) by (destruct H1; assumption).
  destruct (N.ltb_spec (rv_term q) (rvr_term p)).
  - eapply PT_trans; [apply Q_PT; exact H1|]. apply PT_become_follower. lia.
  - eapply PT_trans; [apply Q_PT; exact H1|]. apply Q_PT.
    set (n2 := if _ && role_eqb (n_role n1) PreCandidate then _ else n1).
    assert (H2 : Q n1 n2).
    { subst n2. match goal with |- Q _ (if ?c then _ else _) => destruct c end; [unfold signal_election; qtv|apply Q_refl]. }
    match goal with |- Q _ (if ?c then _ else _) => destruct c end; [|exact H2].
    eapply Q_trans; [exact H2|apply Q_become_leader].
Qed.

Lemma PT_ae_reply now n rid peer g q p : PT n (fst (l_ae_reply now n rid peer g q p)).
Proof.
  unfold l_ae_reply.
  destruct (_ || _); [apply PT_refl|].
  destruct (N.ltb_spec (n_term n) (aer_term p)); [cbn [fst]; apply PT_become_follower; lia|].
  destruct (negb (ae_term q =? n_term n)); [apply PT_refl|].
  apply Q_PT.
  set (n1 := if is_voter (conf_of n) peer then bump_round n rid else n).
  set (n2 := if is_voter (conf_of n) peer && has_quorum (conf_of n1) (round_count n1 rid)
             then try_apply_ro now n1 (round_stamp n1 rid) else n1).
  assert (H1 : Q n n1) by (subst n1; destruct (is_voter (conf_of n) peer); [apply Q_bump|apply Q_refl]).
  assert (H2 : Q n n2).
  { eapply Q_trans; [exact H1|]. subst n2.
    destruct (is_voter (conf_of n) peer && has_quorum (conf_of n1) (round_count n1 rid)); [apply Q_try_apply_ro|apply Q_refl]. }
  destruct (negb (aer_success p)).
  - destruct (aer_index p <=? n_lii _).
    + eapply Q_trans; [exact H2|]. eapply Q_trans; [apply Q_set_fobj|]. apply Q_is_send.
    + cbn [fst]. eapply Q_trans; [exact H2|apply Q_set_fobj].
  - match goal with |- Q n (fst (if ?c then _ else _)) => destruct c end; cbn [fst]; [|exact H2].
    eapply Q_trans; [exact H2|]. eapply Q_trans; [apply Q_set_fobj|].
    match goal with |- Q _ (if ?c then _ else _) => destruct c end; [unfold signal_commit; qtv|apply Q_refl].
Qed.

Lemma PT_is_reply now n peer g q resp : PT n (l_is_reply now n peer g q resp).
Proof.
  unfold l_is_reply.
  destruct (f_snap (fobj n peer g)) as [[s o]|]; [|apply PT_refl].
  destruct resp as [p|]; [|apply PT_refl].
  destruct (N.ltb_spec (n_term n) (isr_term p)); [apply PT_become_follower; lia|].
  apply Q_PT. destruct (negb (isr_written p =? is_offset q)); [apply Q_set_fobj|].
  destruct (negb (is_done q)); [apply Q_refl|apply Q_set_fobj].
Qed.

(* ---- crash / restart: memory is reloaded from disk ---- *)
Lemma crash_terms n : n_term (crash n) = n_pterm n /\ n_pterm (crash n) = n_pterm n.
Proof. split; reflexivity. Qed.

Lemma ptle_crash n : ptle (crash n).
Proof. destruct (crash_terms n) as [E1 E2]. unfold ptle. rewrite E1, E2. apply N.le_refl. Qed.

Lemma ptle_restore m : ptle (restore m).
Proof.
  pose proof (restore_tvf m) as H. unfold tvf in H. injection H as _ H2 _ H4 _ _.
  unfold ptle. rewrite H2, H4. apply N.le_refl.
Qed.

Lemma ptle_restart now n : ptle (restart_after_crash now n).
Proof.
  unfold restart_after_crash.
  set (m := crash n). clearbody m.
  pose proof (ptle_restore m) as H. set (r := restore m) in *. clearbody r.
  revert H. apply Q_PT. eapply Q_trans; [apply Q_new_opmanager|apply Q_api_start].
Qed.

(* ---------------- world level ---------------- *)
Definition InvP (w : world) : Prop := forall n, In n (w_nodes w) -> ptle n.

Lemma IP_same_nodes w w' : w_nodes w' = w_nodes w -> InvP w -> InvP w'.
Proof. unfold InvP. intros E H. rewrite E. exact H. Qed.

Lemma IP_set_node w m m' : get_node w (n_id m) = Some m -> PT m m' -> InvP w -> InvP (set_node w m').
Proof.
  intros G HP HI. destruct (get_node_in _ _ _ G) as [Hin _].
  intros x Hx. unfold set_node in Hx. cbn [w_nodes set] in Hx. apply in_map_iff in Hx.
  destruct Hx as (y & <- & Hy). destruct (n_id y =? n_id m'); [apply HP, HI, Hin|apply HI, Hy].
Qed.

Lemma IP_set_Q w m m' : get_node w (n_id m) = Some m -> Q m m' -> InvP w -> InvP (set_node w m').
Proof. intros G HQ. apply IP_set_node with (m := m); [exact G|apply Q_PT, HQ]. Qed.

Lemma IP_on_node w id f : (forall m, PT m (f m)) -> InvP w -> InvP (on_node w id f).
Proof.
  intros Hf HI. unfold on_node. destruct (get_node w id) as [m|] eqn:G; [|exact HI].
  apply IP_set_node with (m := m); [eapply get_node_id; exact G|apply Hf|exact HI].
Qed.

Lemma IP_step_task w m : get_node w (n_id m) = Some m -> InvP w -> InvP (step_task w m).
Proof.
  intros G HI. unfold step_task. destruct (n_tasks m) as [|t rest]; [exact HI|].
  set (n0 := m <| n_tasks := rest |>). assert (H0 : Q m n0) by qtv.
  destruct t as [rid peer pv|rid peer].
  - destruct (l_rv_send n0 rid peer pv).
    + eapply IP_same_nodes; [|apply (IP_set_Q w m n0 G H0 HI)]. reflexivity.
    + apply (IP_set_Q w m n0 G H0 HI).
  - pose proof (Q_ae_send n0 peer) as H1. destruct (l_ae_send n0 peer) as [n1 [|q|q]]; cbn [fst] in H1.
    + apply (IP_set_Q w m n1 G (Q_trans _ _ _ H0 H1) HI).
    + eapply IP_same_nodes; [|apply (IP_set_Q w m n1 G (Q_trans _ _ _ H0 H1) HI)]. reflexivity.
    + eapply IP_same_nodes; [|apply (IP_set_Q w m n1 G (Q_trans _ _ _ H0 H1) HI)]. reflexivity.
Qed.

Lemma PT_run_handler now n q : PT n (fst (fst (run_handler now n q))).
Proof.
  unfold run_handler. destruct q as [r|r|r].
  - pose proof (PT_append_entries now n r) as H. destruct (h_append_entries now n r). exact H.
  - pose proof (PT_request_vote now n r) as H. destruct (h_request_vote now n r). exact H.
  - pose proof (PT_install_snapshot now n r) as H. destruct (h_install_snapshot now n r). exact H.
Qed.

Lemma IP_step_deliver w c dup : InvP w -> InvP (step_deliver w c dup).
Proof.
  intros HI. unfold step_deliver. destruct (get_node w (c_dst c)) as [n|] eqn:G;
    [|destruct dup; [exact HI|eapply IP_same_nodes; [|exact HI]; reflexivity]].
  apply get_node_id in G.
  destruct (n_frozen n); [destruct dup; [exact HI|eapply IP_same_nodes; [|exact HI]; reflexivity]|].
  pose proof (PT_run_handler (w_now w) n (c_req c)) as HR.
  destruct (run_handler (w_now w) n (c_req c)) as [[n1 resp] parked]. cbn [fst] in HR.
  pose proof (IP_set_node w n n1 G HR HI) as H1.
  destruct dup; [exact H1|].
  destruct (n_frozen n1); [eapply IP_same_nodes; [|exact H1]; reflexivity|].
  destruct resp; (eapply IP_same_nodes; [|exact H1]); reflexivity.
Qed.

Lemma IP_step_reply w c failed : InvP w -> InvP (step_reply w c failed).
Proof.
  intros HI. unfold step_reply.
  set (w0 := set_call w (c <| c_state := CDone |>)).
  assert (E0 : w_nodes w0 = w_nodes w) by reflexivity.
  assert (HI0 : InvP w0) by (eapply IP_same_nodes; [exact E0|exact HI]).
  destruct (get_node w (c_src c)) as [n|] eqn:G; [|exact HI0].
  apply get_node_id in G.
  assert (G0 : get_node w0 (n_id n) = Some n) by (unfold get_node in *; rewrite E0; exact G).
  destruct (n_frozen n); [exact HI0|].
  destruct (c_req c) as [q|q|q]; destruct (if failed then None else c_resp c) as [[p|p|p]|];
    try exact HI0;
    try (match goal with
         | |- InvP (set_node w0 (l_rv_reply _ _ _ _ _ _ _)) =>
             apply (IP_set_node w0 n _ G0); [apply PT_rv_reply|exact HI0]
         | |- InvP (set_node w0 (l_is_reply _ _ _ _ _ _)) =>
             apply (IP_set_node w0 n _ G0); [apply PT_is_reply|exact HI0]
         end).
  pose proof (PT_ae_reply (w_now w) n (c_round c) (c_dst c) (c_fgen c) q p) as HR.
  destruct (l_ae_reply (w_now w) n (c_round c) (c_dst c) (c_fgen c) q p) as [n1 [isq|]]; cbn [fst] in HR.
  - eapply IP_same_nodes; [|apply (IP_set_node w0 n n1 G0 HR HI0)]. reflexivity.
  - apply (IP_set_node w0 n n1 G0 HR HI0).
Qed.

Theorem step_IP w l : InvP w -> InvP (step w l).
Proof.
  intros HI. destruct l; cbn [step].
  - eapply IP_same_nodes; [|exact HI]. reflexivity.
  - apply IP_on_node; [|exact HI]. intros m. destruct (is_up m); [apply Q_PT, Q_signal_election|apply PT_refl].
  - apply IP_on_node; [|exact HI]. intros m. destruct (is_up m); [apply Q_PT, Q_heartbeat|apply PT_refl].
  - destruct (get_call w c) as [cl|]; [|exact HI]. destruct (c_state cl); try exact HI.
    apply IP_step_deliver; exact HI.
  - destruct (get_call w c) as [cl|]; [|exact HI]. apply IP_step_deliver; exact HI.
  - destruct (get_call w c) as [cl|]; [|exact HI]. destruct (c_state cl); try exact HI.
    apply IP_step_reply; exact HI.
  - destruct (get_call w c) as [cl|]; [|exact HI]. destruct (c_state cl); try exact HI;
      apply IP_step_reply; exact HI.
  - unfold fresh_fid. set (w1 := w <| w_next_fid ::= N.succ |>).
    apply IP_on_node; [|unfold InvP; exact HI]. intros m. destruct (n_frozen m); [apply PT_refl|apply Q_PT, Q_submit].
  - unfold fresh_fid. set (w1 := w <| w_next_fid ::= N.succ |>).
    apply IP_on_node; [|unfold InvP; exact HI]. intros m. destruct (n_frozen m); [apply PT_refl|apply Q_PT, Q_add_server].
  - unfold fresh_fid. set (w1 := w <| w_next_fid ::= N.succ |>).
    apply IP_on_node; [|unfold InvP; exact HI]. intros m. destruct (n_frozen m); [apply PT_refl|apply Q_PT, Q_remove_server].
  - apply IP_on_node; [|exact HI]. intros m. destruct (is_up m); [|apply PT_refl].
    apply Q_PT. apply Q_trans with (lp_snapshot (m <| n_snap_every := 1 |>)); [|qtv].
    eapply Q_trans; [|apply Q_snapshot]. qtv.
  - eapply IP_same_nodes; [|apply IP_on_node; [|exact HI]; intros m _; apply ptle_crash]. reflexivity.
  - apply IP_on_node; [|exact HI]. intros m. destruct (role_eqb (n_role m) Shutdown); [intros _; apply ptle_restart|apply PT_refl].
  - apply IP_on_node; [|exact HI]. intros m. apply Q_PT, Q_upd_budget.
  - apply IP_on_node; [|exact HI]. intros m. apply Q_PT. qtv.
  - apply IP_on_node; [|exact HI]. intros m. apply Q_PT. qtv.
  - apply IP_on_node; [|exact HI]. intros m. apply Q_PT. qtv.
  - destruct (get_node w n) as [m|] eqn:G; [|exact HI]. destruct (is_up m); [|exact HI].
    apply IP_step_task; [eapply get_node_id; exact G|exact HI].
  - apply IP_on_node; [|exact HI]. intros m. destruct (is_up m && cv_election (n_cv m)); [apply PT_election|apply PT_refl].
  - apply IP_on_node; [|exact HI]. intros m. destruct (is_up m && cv_commit (n_cv m)); [apply Q_PT, Q_commit|apply PT_refl].
  - apply IP_on_node; [|exact HI]. intros m. destruct (is_up m && cv_apply (n_cv m)); [apply Q_PT, Q_apply|apply PT_refl].
  - apply IP_on_node; [|exact HI]. intros m. destruct (is_up m && cv_ro (n_cv m)); [apply Q_PT, Q_ro|apply PT_refl].
  - destruct (get_node w n) as [m|] eqn:G; [|exact HI]. apply get_node_id in G.
    pose proof (Q_install_resume m) as HQ. destruct (lp_install_resume m) as [m1 [q|]]; cbn [fst] in HQ; [|exact HI].
    pose proof (IP_set_Q w m m1 G HQ HI) as H1.
    match goal with |- InvP (match ?x with _ => _ end) => destruct x end;
      [eapply IP_same_nodes; [|exact H1]; reflexivity|exact H1].
Qed.

Lemma IP_init ids boot et ld : InvP (init_world ids boot et ld).
Proof.
  unfold InvP, init_world. cbn [w_nodes]. intros n Hin. apply in_map_iff in Hin. destruct Hin as (id & <- & _).
  set (m := mk_node id et ld).
  assert (Hm : ptle m) by (unfold ptle; apply N.le_refl).
  set (m1 := if existsb (N.eqb id) boot then api_bootstrap m boot else m).
  assert (H1 : Q m m1).
  { subst m1. destruct (existsb (N.eqb id) boot); [|apply Q_refl].
    unfold api_bootstrap. destruct (n_conf m); [apply Q_refl|]. destruct (0 <? last_index (n_log m)); [apply Q_refl|].
    eapply Q_trans; [|apply Q_append]. qtv. }
  revert Hm. apply Q_PT. eapply Q_trans; [exact H1|].
  eapply Q_trans; [apply Q_new_opmanager|apply Q_api_start].
Qed.

Lemma IP_run ls : forall w, InvP w -> InvP (run w ls).
Proof.
  induction ls as [|l ls IH]; intros w HI; [exact HI|].
  cbn [run fold_left]. apply IH. apply step_IP. exact HI.
Qed.

Theorem ptle_run ids boot et ld ls :
  forall n, In n (w_nodes (run (init_world ids boot et ld) ls)) -> ptle n.
Proof. exact (IP_run ls _ (IP_init ids boot et ld)). Qed.

Print Assumptions ptle_run.
