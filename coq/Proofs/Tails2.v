(* Tails, part 2: what a step does to the RPC records, with the facts about a request at its creation that
   StepCases.NCk does not record (the sender is up; the request reaches to the END of the sender's log; the
   fields of a real RequestVote request). *)
From RaftV Require Import Cluster.World Cluster.Statements Proofs.Frame Proofs.RVSpec Proofs.AESpec Proofs.AELog.
From RaftV Require Import Proofs.ConfNode Proofs.ConfStatic Proofs.ConfSticky.
From RaftV Require Import Proofs.Votes Proofs.VoteRecords Proofs.Names Proofs.ElectSpec.
From RaftV Require Import Proofs.ElectDefs Proofs.EFrame Proofs.RoleFrame Proofs.ElectBook Proofs.ElectNode Proofs.ElectSteps
                          Proofs.ElectWorld Proofs.ElectReply Proofs.ElectStep Proofs.ElectRun Proofs.ElectSafety.
From RaftV Require Import Proofs.LogDefs Proofs.LogSeg Proofs.LogUni Proofs.LogInv Proofs.LogAccept Proofs.LogSend Proofs.LogFrame
                          Proofs.NoSnap Proofs.TaePeer Proofs.LogWorld Proofs.LogRun Proofs.LogMatching Proofs.StepCases
                          Proofs.LeaderLog Proofs.LCDefs Proofs.Tails1.
Open Scope N_scope.

Lemma ae_send_top n peer n1 q :
  ns_node n -> wf_seg (seg_of_log (n_log n)) -> l_ae_send n peer = (n1, SentAE q) ->
  top (seg_of_req q) = top (seg_of_log (n_log n)).
Proof.
  intros (Hlii & Hlit & _ & _ & _ & r & Hr) Hwf H. rewrite Hr in *.
  unfold l_ae_send in H. rewrite Hlii, Hlit, Hr in H.
  destruct (negb (role_eqb (n_role n) Leader) || negb (is_member (conf_of n) peer)) eqn:E0; [discriminate|].
  remember (f_next (get_follower n peer)) as nx eqn:Enx.
  destruct (N.leb_spec nx 0) as [H1|H1].
  { destruct (l_is_send n peer) as [n2 [q2|]]; discriminate. }
  rewrite (next_index_log r Hwf) in H.
  destruct (N.ltb_spec (N.of_nat (length r) + 1) nx) as [H2|H2]; [discriminate|].
  injection H as _ <-.
  replace (N.max (nx - 1) 0) with (nx - 1) by lia.
  unfold top, seg_of_req, seg_of_log. cbn [ae_prev_index ae_entries sg_base sg_es tl].
  unfold log_from, first_index. cbn [hd e_index entry0]. rewrite (next_index_log r Hwf).
  destruct (N.ltb_spec 0 nx); [|lia]. cbn [andb].
  destruct (N.ltb_spec nx (N.of_nat (length r) + 1)).
  - replace (N.to_nat (nx - 0)) with (Datatypes.S (N.to_nat (nx - 1))) by lia. cbn [skipn]. rewrite skipn_length. lia.
  - cbn [length]. lia.
Qed.

Lemma rv_send_fields n rid peer pv q : l_rv_send n rid peer pv = Some q ->
  rv_prevote q = pv /\ (pv = false -> rv_term q = n_term n) /\
  rv_last_index q = last_index (n_log n) /\ rv_last_term q = last_term (n_log n).
Proof.
  unfold l_rv_send. intros H.
  destruct (negb (n_term n =? round_term n rid)); [discriminate|].
  destruct (negb (is_voter (conf_of n) peer) || negb (is_voter (conf_of n) (n_id n))); [discriminate|].
  injection H as <-. cbn. split; [reflexivity|]. split; [intros ->; reflexivity|]. split; reflexivity.
Qed.

Lemma is_up_unfrozen m : is_up m = true -> n_frozen m = false.
Proof. unfold is_up. intros H. apply andb_prop in H. destruct H as [_ H]. destruct (n_frozen m); [discriminate|reflexivity]. Qed.

Definition NEWk (w : world) (k' : call) : Prop :=
  (exists k, In k (w_calls w) /\ call_key k' = call_key k) \/
  (exists m, In m (w_nodes w) /\ is_up m = true /\ c_src k' = n_id m /\
     match c_req k' with
     | ReqAE q => n_role m = Leader /\ ae_term q = n_term m /\
                  (forall i e, eget (seg_of_req q) i = Some e -> eget (seg_of_log (n_log m)) i = Some e) /\
                  tget (seg_of_log (n_log m)) (ae_prev_index q) = Some (ae_prev_term q) /\
                  top (seg_of_req q) = top (seg_of_log (n_log m))
     | ReqRV r => rv_prevote r = false ->
                  rv_term r = n_term m /\ rv_last_index r = last_index (n_log m) /\ rv_last_term r = last_term (n_log m)
     | ReqIS _ => False
     end).
Definition NEW (w w' : world) : Prop := forall k', In k' (w_calls w') -> NEWk w k'.

Lemma NEW_keys w w' : (forall k', In k' (w_calls w') -> exists k, In k (w_calls w) /\ call_key k' = call_key k) -> NEW w w'.
Proof. intros H k' Hk'. left. apply H, Hk'. Qed.

Lemma NEW_same w w' : w_calls w' = w_calls w -> NEW w w'.
Proof. intros E. apply NEW_keys. intros k' Hk'. rewrite E in Hk'. exists k'. auto. Qed.

Section Tails2.
Variable C : config.
Hypothesis HCnd : NoDup (member_ids C).

Lemma NEW_step_deliver w c dup : In c (w_calls w) -> NEW w (step_deliver w c dup).
Proof.
  intros Hc. apply NEW_keys. unfold step_deliver. destruct (get_node w (c_dst c)) as [n|].
  2:{ destruct dup; [intros k' H; exists k'; auto|apply keys_set_call with (c := c); auto]. }
  destruct (n_frozen n); [destruct dup; [intros k' H; exists k'; auto|apply keys_set_call with (c := c); auto]|].
  destruct (run_handler (w_now w) n (c_req c)) as [[n1 resp] parked].
  destruct dup; [intros k' H; exists k'; auto|].
  destruct (n_frozen n1); [apply keys_set_call with (c := c); auto|].
  destruct resp; apply keys_set_call with (c := c); auto.
Qed.

Lemma NEW_step_reply w c failed : NSW w -> In c (w_calls w) -> NEW w (step_reply w c failed).
Proof.
  intros HNS Hc. apply NEW_keys. unfold step_reply. set (w0 := set_call w (c <| c_state := CDone |>)).
  assert (H0 : forall k', In k' (w_calls w0) -> exists k, In k (w_calls w) /\ call_key k' = call_key k)
    by (apply keys_set_call with (c := c); auto).
  destruct (get_node w (c_src c)) as [n|] eqn:G; [|exact H0]. destruct (Votes.get_node_in _ _ _ G) as [Hn _].
  destruct (n_frozen n); [exact H0|].
  destruct (c_req c) as [q|q|q]; destruct (if failed then None else c_resp c) as [[p|p|p]|]; try exact H0.
  destruct (ae_reply_ns (w_now w) n (c_round c) (c_dst c) (c_fgen c) q p (ns_nodes w HNS n Hn)) as [_ Hnone].
  destruct (l_ae_reply (w_now w) n (c_round c) (c_dst c) (c_fgen c) q p) as [n1 o]. cbn [snd] in Hnone. subst o. exact H0.
Qed.

Lemma NEW_step_task w m : NSW w -> LMI C w -> In m (w_nodes w) -> is_up m = true -> NEW w (step_task w m).
Proof.
  intros HNS HL Hm Hup. unfold step_task. destruct (n_tasks m) as [|t rest] eqn:Et; [apply NEW_same; reflexivity|].
  set (n0 := m <| n_tasks := rest |>).
  destruct t as [rid peer pv|rid peer].
  - destruct (l_rv_send n0 rid peer pv) as [q|] eqn:Es; [|apply NEW_same; reflexivity].
    intros k' Hk'. unfold new_call in Hk'. cbn [w_calls set] in Hk'. apply in_app_or in Hk'.
    destruct Hk' as [H|[<-|[]]]; [left; exists k'; auto|]. right. exists m. cbn [c_src c_req].
    split; [exact Hm|]. split; [exact Hup|]. split; [reflexivity|].
    destruct (rv_send_fields _ _ _ _ _ Es) as (A & B & D & E). intros Hpv. rewrite Hpv in A. symmetry in A.
    rewrite (B A), D, E. auto.
  - assert (Hns0 : ns_node n0) by (apply (ns_nf n0 m); [reflexivity|apply (ns_nodes w HNS m Hm)]).
    destruct (ae_send_ns n0 peer Hns0) as [_ Hsent].
    pose proof (ae_send_named n0 peer) as Hnamed. pose proof (ae_send_term n0 peer) as Hterm.
    pose proof (ae_send_seg n0 peer) as Hseg. pose proof (ae_send_top n0 peer) as Htop.
    destruct (l_ae_send n0 peer) as [n1 sn]. cbn [fst snd] in *.
    destruct sn as [|q|q]; [apply NEW_same; reflexivity| |contradiction].
    destruct (Hnamed n1 (SentAE q) eq_refl) as [Hld Hrole]. specialize (Hterm n1 (SentAE q) eq_refl). cbn in Hterm.
    assert (Hwf0 : wf_seg (seg_of_log (n_log n0))) by (apply (lm_wf C w HL); left; exists m; auto).
    destruct (Hseg n1 q Hns0 Hwf0 eq_refl) as (S1 & S2 & S3). specialize (Htop n1 q Hns0 Hwf0 eq_refl).
    intros k' Hk'. unfold new_call in Hk'. cbn [w_calls set] in Hk'. apply in_app_or in Hk'.
    destruct Hk' as [H|[<-|[]]]; [left; exists k'; auto|]. right. exists m. cbn [c_src c_req].
    split; [exact Hm|]. split; [exact Hup|]. split; [reflexivity|]. split; [exact Hrole|]. split; [exact Hterm|]. auto.
Qed.

Theorem step_NEW w l : static_label l = true -> nosnap_label l = true -> ALL C w -> NEW w (step w l).
Proof.
  intros Hst Hns [HW HX HU HNS HTA HL].
  assert (Hon : forall w1 id f, w_calls w1 = w_calls w -> NEW w (on_node w1 id f)).
  { intros w1 id f E. apply NEW_same. unfold on_node. destruct (get_node w1 id); exact E. }
  destruct l; cbn [step]; try discriminate Hst; try discriminate Hns; try (apply Hon; reflexivity).
  - apply NEW_same. reflexivity.
  - destruct (get_call w c) as [cl|] eqn:G; [|apply NEW_same; reflexivity]. destruct (VoteRecords.get_call_in _ _ _ G) as [Hin _].
    destruct (c_state cl); try (apply NEW_same; reflexivity). apply NEW_step_deliver; auto.
  - destruct (get_call w c) as [cl|] eqn:G; [|apply NEW_same; reflexivity]. destruct (VoteRecords.get_call_in _ _ _ G) as [Hin _].
    apply NEW_step_deliver; auto.
  - destruct (get_call w c) as [cl|] eqn:G; [|apply NEW_same; reflexivity]. destruct (VoteRecords.get_call_in _ _ _ G) as [Hin _].
    destruct (c_state cl); try (apply NEW_same; reflexivity). apply NEW_step_reply; auto.
  - destruct (get_call w c) as [cl|] eqn:G; [|apply NEW_same; reflexivity]. destruct (VoteRecords.get_call_in _ _ _ G) as [Hin _].
    destruct (c_state cl); try (apply NEW_same; reflexivity); apply NEW_step_reply; auto.
  - apply NEW_keys. intros k' Hk'. unfold drop_calls_of in Hk'. cbn [w_calls set] in Hk'. apply in_map_iff in Hk'.
    destruct Hk' as (d & <- & Hd). exists d. rewrite calls_on_node in Hd. split; [exact Hd|]. destruct (c_src d =? n); reflexivity.
  - destruct (get_node w n) as [m|] eqn:G; [|apply NEW_same; reflexivity]. destruct (is_up m) eqn:Hup; [|apply NEW_same; reflexivity].
    destruct (Votes.get_node_in _ _ _ G) as [Hm _]. apply NEW_step_task; auto.
  - destruct (get_node w n) as [m|] eqn:G; [|apply NEW_same; reflexivity].
    destruct (Votes.get_node_in _ _ _ G) as [Hm _]. rewrite (install_resume_ns m (ns_nodes w HNS m Hm)). apply NEW_same. reflexivity.
Qed.

End Tails2.
