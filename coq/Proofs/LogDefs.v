(* Log matching (C06), shared definitions. *)
From RaftV Require Import Cluster.World Cluster.Statements Proofs.Frame Proofs.AESpec.
Open Scope N_scope.

(* ---- executions without snapshots: what every node and RPC record looks like ---- *)
Definition ns_node (n : node) : Prop :=
  n_lii n = 0 /\ n_lit n = 0 /\ n_snaps n = [] /\ n_partial n = None /\ n_iswait n = [] /\
  (exists r, n_log n = entry0 :: r).
Definition ns_call (c : call) : Prop := match c_req c with ReqIS _ => False | _ => True end.
Record NSW (w : world) : Prop := {
  ns_nodes : forall n, In n (w_nodes w) -> ns_node n;
  ns_calls : forall c, In c (w_calls w) -> ns_call c }.

Definition nosnap_label (l : label) : bool := match l with LSnapshot _ => false | _ => true end.

(* ---- what a section that is not the AppendEntries handler does to the log ---- *)
(* nothing, or (a leader) one new entry at the end, of the node's term *)
Definition LG (m m' : node) : Prop :=
  n_log m' = n_log m \/
  exists e, n_log m' = n_log m ++ [e] /\ e_index e = next_index (n_log m) /\ e_term e = n_term m' /\
            n_role m' = Leader /\ n_frozen m' = false /\
            match e_kind e with KConf _ => False | _ => True end.
