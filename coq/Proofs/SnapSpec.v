(* Handler specification of InstallSnapshot (C11) and the snapshot/restore round trip of the
   harness state machine (C10), for every node state and every request. *)
From RaftV Require Import Node.Leader.
From RaftV Require Export Proofs.Frame.
From RaftV Require Import Proofs.AESpec.
Open Scope N_scope.

(* ---------------- the state machine of the harness: Restore (Snapshot st) = st ---------------- *)
Lemma be4_word p : p < 4294967296 ->
  match be4 p with
  | [a; b; c; d] => a * 16777216 + b * 65536 + c * 256 + d = p
  | _ => False
  end.
Proof. intros H. unfold be4. lia. Qed.

Lemma take_words_flat st : forall rest,
  Forall (fun p => p < 4294967296) st ->
  take_words (length st) (flat_map be4 st ++ rest) = st.
Proof.
  induction st as [|p st IH]; intros rest H; [reflexivity|].
  inversion H as [|? ? Hp Hst]; subst.
  cbn [length flat_map]. rewrite <- app_assoc.
  pose proof (be4_word p Hp) as W. unfold be4 in *. cbn [app take_words].
  rewrite W. f_equal. apply IH. exact Hst.
Qed.

Theorem fsm_unsnap_snap pad st :
  Forall (fun p => p < 4294967296) st -> N.of_nat (length st) < 4294967296 ->
  fsm_unsnap (fsm_snap pad st) = st.
Proof.
  intros Hst Hlen. unfold fsm_snap, fsm_unsnap.
  pose proof (be4_word (N.of_nat (length st)) Hlen) as W. unfold be4 in *. cbn [app].
  rewrite W, Nat2N.id. apply take_words_flat. exact Hst.
Qed.

(* ---------------- InstallSnapshot ---------------- *)
Definition is_node (r : node * option is_resp) : node := fst r.

(* the prologue of the handler (term handling, lastContact) touches nothing of the snapshot/log state *)
Definition is_pre (now : N) (n : node) (q : is_req) : node :=
  let n1 := if n_term n <? is_term q then become_follower now n (is_leader q) (is_term q) else n in
  let n2 := if (is_term q =? n_term n1) && (role_eqb (n_role n1) Candidate || role_eqb (n_role n1) PreCandidate)
            then become_follower now n1 (is_leader q) (is_term q) else n1 in
  n2 <| n_contact := now |>.

Lemma is_pre_frame now n q : vol (is_pre now n q) = vol n /\ n_log (is_pre now n q) = n_log n.
Proof.
  unfold is_pre.
  set (n1 := if n_term n <? is_term q then become_follower now n (is_leader q) (is_term q) else n).
  assert (H1 : vol n1 = vol n /\ n_log n1 = n_log n).
  { subst n1. destruct (n_term n <? is_term q); [|split; reflexivity].
    split; [apply vol_become_follower|apply log_become_follower]. }
  clearbody n1. destruct H1 as [V1 L1].
  set (n2 := if _ && _ then become_follower now n1 (is_leader q) (is_term q) else n1).
  assert (H2 : vol n2 = vol n1 /\ n_log n2 = n_log n1).
  { subst n2. destruct (_ && _); [|split; reflexivity].
    split; [apply vol_become_follower|apply log_become_follower]. }
  clearbody n2. destruct H2 as [V2 L2].
  split; [|cbn; congruence].
  transitivity (vol n2); [reflexivity|congruence].
Qed.

Lemma vol_proj a b : vol a = vol b -> n_applied a = n_applied b /\ n_lii a = n_lii b /\ n_commit a = n_commit b.
Proof. unfold vol. intros H. injection H as H1 H2 H3 _ _ _ _ _ _. auto. Qed.

(* a request with a stale term, or one that offers nothing new (its last included index is covered by
   the node's own snapshot or by what it has applied), changes neither the log nor the commit index,
   the applied index, the snapshot boundary, the stored snapshots, the state machine, its apply history
   or the configurations: no snapshot older than what the node has applied is ever installed *)
Theorem is_nothing_new_unchanged now n q :
  is_term q < n_term n \/ is_lii q <= n_lii n \/ is_lii q <= n_applied n ->
  let n' := is_node (h_install_snapshot now n q) in
  vol n' = vol n /\ n_log n' = n_log n.
Proof.
  intros H. cbn zeta. unfold is_node, h_install_snapshot.
  destruct (role_eqb (n_role n) Shutdown); [split; reflexivity|].
  destruct (N.ltb_spec (is_term q) (n_term n)) as [Hlt|Hge]; [split; reflexivity|].
  destruct H as [H|H]; [lia|].
  cbv zeta.
  set (n1 := if n_term n <? is_term q then become_follower now n (is_leader q) (is_term q) else n).
  set (n2 := if (is_term q =? n_term n1) && _ then become_follower now n1 (is_leader q) (is_term q) else n1).
  set (n3 := n2 <| n_contact := now |>).
  assert (E : n3 = is_pre now n q) by reflexivity.
  pose proof (is_pre_frame now n q) as [V L]. rewrite <- E in V, L. clearbody n3. clear E.
  assert (G : (is_lii q <=? n_lii n3) || (is_lii q <=? n_applied n3) = true).
  { apply vol_proj in V. destruct V as (VA & VL & _). rewrite VA, VL.
    apply Bool.orb_true_iff. destruct H as [H|H]; [left|right]; apply N.leb_le; exact H. }
  rewrite G. cbn [fst]. split; assumption.
Qed.

(* whatever the request and the state: the applied index and the snapshot boundary never move backwards *)

Lemma applied_tick_write m : n_applied (snd (tick_write m)) = n_applied m /\ n_lii (snd (tick_write m)) = n_lii m.
Proof.
  unfold tick_write. destruct (n_frozen m); [split; reflexivity|].
  destruct (n_budget m) as [k|]; [|split; reflexivity]. destruct (k =? 0); split; reflexivity.
Qed.

Lemma applied_close_snapshot m s : n_applied (close_snapshot m s) = n_applied m /\ n_lii (close_snapshot m s) = n_lii m.
Proof.
  unfold close_snapshot. pose proof (applied_tick_write m) as H. destruct (tick_write m) as [ok m1]. cbn [snd] in H.
  destruct ok; [cbn; exact H|exact H].
Qed.

Lemma applied_compact_log m i : n_applied (compact_log m i) = n_applied m /\ n_lii (compact_log m i) = n_lii m.
Proof.
  unfold compact_log. pose proof (applied_tick_write m) as H. destruct (tick_write m) as [ok m1]. cbn [snd] in H.
  destruct ok; [cbn; exact H|exact H].
Qed.

Lemma applied_discard_log m i t : n_applied (discard_log m i t) = n_applied m /\ n_lii (discard_log m i t) = n_lii m.
Proof.
  unfold discard_log. pose proof (applied_tick_write m) as H. destruct (tick_write m) as [ok m1]. cbn [snd] in H.
  destruct ok; [cbn; exact H|exact H].
Qed.

(* ---- applied index and snapshot boundary through configuration changes ---- *)
Definition al (n : node) : N * N := (n_applied n, n_lii n).

Lemma al_stepdown now n : al (stepdown now n) = al n.
Proof.
  unfold stepdown.
  set (a := n <| n_role := Follower |>).
  assert (Ha : al a = al n) by reflexivity. clearbody a.
  destruct (sc_notify a) as [_ _ _ _ _ _ _ _ _ V2]. set (b := notify_lost_leadership a) in *. clearbody b.
  destruct (sc_new_opmanager now b) as [_ _ _ _ _ _ _ _ _ V3]. set (c := new_opmanager now b) in *. clearbody c.
  destruct (sc_cancel c) as [_ _ _ _ _ _ _ _ _ V1].
  unfold al, vol in *. injection V1 as _ A1 L1 _ _ _ _ _ _. injection V2 as _ A2 L2 _ _ _ _ _ _. injection V3 as _ A3 L3 _ _ _ _ _ _.
  congruence.
Qed.

Lemma al_new_followers nx ids : forall n, al (fold_left (fun m id => new_follower m id nx) ids n) = al n.
Proof.
  induction ids as [|id ids IH]; intros n; cbn [fold_left]; [reflexivity|]. rewrite IH. reflexivity.
Qed.

Lemma al_next_configuration now n c : al (next_configuration now n c) = al n.
Proof.
  unfold next_configuration. destruct c as [nx|]; [|unfold fail; destruct (n_out n); reflexivity].
  set (n1 := if is_member nx (n_id n) then n else _).
  assert (H : al n1 = al n).
  { subst n1. destruct (is_member nx (n_id n)); [reflexivity|].
    transitivity (al (if role_eqb (n_role n) Leader then stepdown now n else n)); [reflexivity|].
    destruct (role_eqb (n_role n) Leader); [apply al_stepdown|reflexivity]. }
  clearbody n1.
  match goal with |- al (fold_left ?f ?l ?n2 <| n_conf := ?c |>) = _ =>
    change (al (fold_left f l n2) = al n); rewrite (al_new_followers 0 l); exact H end.
Qed.

Lemma al_apply_configuration now n c : al (apply_configuration now n c) = al n.
Proof.
  unfold apply_configuration. destruct (n_cconf n) as [cc|].
  - destruct (c_index c <=? c_index cc); [reflexivity|].
    transitivity (al (next_configuration now n (Some c))); [reflexivity|apply al_next_configuration].
  - transitivity (al (next_configuration now n (Some c))); [reflexivity|apply al_next_configuration].
Qed.

(* InstallSnapshot, whatever the request and the state: the applied index and the snapshot boundary
   never move backwards *)
Theorem is_monotone now n q :
  let n' := is_node (h_install_snapshot now n q) in
  n_applied n <= n_applied n' /\ n_lii n <= n_lii n'.
Proof.
  cbn zeta. unfold is_node, h_install_snapshot.
  destruct (role_eqb (n_role n) Shutdown); [cbn [fst]; lia|].
  destruct (N.ltb_spec (is_term q) (n_term n)) as [Hlt|Hge]; [cbn [fst]; lia|].
  cbv zeta.
  set (n1 := if n_term n <? is_term q then become_follower now n (is_leader q) (is_term q) else n).
  set (n2 := if (is_term q =? n_term n1) && _ then become_follower now n1 (is_leader q) (is_term q) else n1).
  set (n3 := n2 <| n_contact := now |>).
  assert (E : n3 = is_pre now n q) by reflexivity.
  pose proof (is_pre_frame now n q) as [V _]. rewrite <- E in V. clearbody n3. clear E n1 n2.
  apply vol_proj in V. destruct V as (VA & VL & _). rewrite <- VA, <- VL. clear VA VL.
  destruct (N.leb_spec (is_lii q) (n_lii n3)) as [G1|G1]; [cbn [orb fst]; lia|].
  destruct (N.leb_spec (is_lii q) (n_applied n3)) as [G2|G2]; [cbn [orb fst]; lia|].
  cbn [orb].
  set (n4 := match n_partial n3 with Some p => if s_index p <? is_lii q then n3 <| n_partial := None |> else n3 | None => n3 end).
  assert (H4 : al n4 = al n3).
  { subst n4. destruct (n_partial n3) as [p|]; [|reflexivity]. destruct (s_index p <? is_lii q); reflexivity. }
  clearbody n4.
  set (p := match n_partial n4 with Some p => p | None => _ end). clearbody p.
  unfold al in H4. injection H4 as A4 L4. rewrite <- A4, <- L4. rewrite <- A4 in G2. rewrite <- L4 in G1. clear A4 L4.
  destruct (negb (is_offset q =? N.of_nat (length (s_data p)))); [cbn [fst]; cbn; lia|].
  destruct (negb (is_done q)); [cbn [fst]; cbn; lia|].
  set (p' := {| s_index := s_index p; s_term := s_term p; s_conf := s_conf p; s_data := s_data p ++ is_bytes q |}). clearbody p'.
  set (n5 := close_snapshot n4 p' <| n_partial := None |> <| n_lii := is_lii q |> <| n_lit := is_lit q |>).
  assert (A5 : n_applied n5 = n_applied n4) by (subst n5; cbn; apply applied_close_snapshot).
  assert (L5 : n_lii n5 = is_lii q) by reflexivity.
  clearbody n5.
  destruct (match log_get (n_log n5) (is_lii q) with Some e => e_term e =? is_lit q | None => false end).
  - destruct (n_applied n5 <? is_lii q); cbn [fst].
    + cbn. rewrite A5, L5. lia.
    + unfold h_install_compact. destruct (_ || _); [rewrite A5, L5; lia|].
      destruct (applied_compact_log n5 (is_lii q)) as [HA HL]. rewrite HA, HL, A5, L5. lia.
  - cbn [fst]. unfold h_install_restore.
    destruct (last (map Some (n_snaps n5)) None) as [s|].
    + set (m1 := n5 <| n_fsm := fsm_unsnap (s_data s) |> <| n_applies := [] |>).
      assert (A1 : n_applied m1 = n_applied n5) by reflexivity.
      assert (L1 : n_lii m1 = n_lii n5) by reflexivity. clearbody m1.
      destruct (role_eqb (n_role m1) Shutdown); [rewrite A1, L1, A5, L5; lia|].
      set (m2 := m1 <| n_applied := is_lii q |> <| n_commit := is_lii q |>).
      assert (A2 : n_applied m2 = is_lii q) by reflexivity.
      assert (L2 : n_lii m2 = n_lii m1) by reflexivity. clearbody m2.
      pose proof (al_apply_configuration now (discard_log m2 (is_lii q) (is_lit q)) (is_conf q)) as HC.
      unfold al in HC. injection HC as HA HL. rewrite HA, HL.
      destruct (applied_discard_log m2 (is_lii q) (is_lit q)) as [DA DL]. rewrite DA, DL, A2, L2, L1, L5. lia.
    + unfold fail. destruct (n_out n5); cbn; rewrite ?A5, ?L5; lia.
Qed.
