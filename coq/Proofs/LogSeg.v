(* Log matching (C06), part 1: partial logs (segments), the one-step matching relation between two of
   them, and the classical prefix property it implies.  A node log (placeholder + entries) and an
   AppendEntries request (prev index/term + entries) are both segments. *)
From RaftV Require Import Cluster.World Proofs.Frame Proofs.AESpec Proofs.LogDefs.
Open Scope N_scope.

Record seg := { sg_base : N; sg_bterm : N; sg_es : list entry }.

Definition eget (s : seg) (i : N) : option entry :=
  if sg_base s <? i then nth_error (sg_es s) (N.to_nat (i - sg_base s - 1)) else None.
Definition tget (s : seg) (i : N) : option N :=
  if i =? sg_base s then Some (sg_bterm s) else option_map e_term (eget s i).
Definition wf_seg (s : seg) : Prop := consecutive (sg_base s + 1) (sg_es s).
Definition top (s : seg) : N := sg_base s + N.of_nat (length (sg_es s)).

Definition seg_of_log (l : list entry) : seg := {| sg_base := 0; sg_bterm := 0; sg_es := tl l |}.
Definition seg_of_req (q : ae_req) : seg :=
  {| sg_base := ae_prev_index q; sg_bterm := ae_prev_term q; sg_es := ae_entries q |}.

(* one-step matching: the same index and term in both means the same entry and the same term just before it *)
Definition PM (s1 s2 : seg) : Prop :=
  forall i e1 e2, eget s1 i = Some e1 -> eget s2 i = Some e2 -> e_term e1 = e_term e2 ->
    e1 = e2 /\ tget s1 (i - 1) = tget s2 (i - 1).

(* ---------------- accessors ---------------- *)
Lemma eget_range s i e : eget s i = Some e -> sg_base s < i /\ i <= top s.
Proof.
  unfold eget, top. destruct (N.ltb_spec (sg_base s) i) as [H|H]; [|discriminate]. intros E.
  split; [exact H|]. assert (Hn : nth_error (sg_es s) (N.to_nat (i - sg_base s - 1)) <> None) by congruence.
  apply nth_error_Some in Hn. lia.
Qed.

Lemma eget_defined s i : sg_base s < i -> i <= top s -> exists e, eget s i = Some e.
Proof.
  unfold eget, top. intros H1 H2. destruct (N.ltb_spec (sg_base s) i); [|lia].
  destruct (nth_error (sg_es s) (N.to_nat (i - sg_base s - 1))) as [e|] eqn:E; [exists e; reflexivity|].
  apply nth_error_None in E. lia.
Qed.

Lemma eget_index s i e : wf_seg s -> eget s i = Some e -> e_index e = i.
Proof.
  intros Hwf E. pose proof (eget_range _ _ _ E) as [H1 H2]. unfold eget in E. destruct (N.ltb_spec (sg_base s) i); [|lia].
  assert (Hk : (N.to_nat (i - sg_base s - 1) < length (sg_es s))%nat) by (apply nth_error_Some; congruence).
  apply nth_error_nth with (d := entry0) in E. rewrite <- E.
  rewrite (consecutive_nth _ _ Hwf _ entry0 Hk). lia.
Qed.

Lemma tget_base s : tget s (sg_base s) = Some (sg_bterm s).
Proof. unfold tget. rewrite N.eqb_refl. reflexivity. Qed.

Lemma tget_entry s i e : eget s i = Some e -> tget s i = Some (e_term e).
Proof.
  intros E. pose proof (eget_range _ _ _ E) as [H _]. unfold tget. destruct (N.eqb_spec i (sg_base s)); [lia|].
  rewrite E. reflexivity.
Qed.

Lemma tget_some s i t : tget s i = Some t -> sg_base s <= i /\ i <= top s /\ (sg_base s < i -> exists e, eget s i = Some e /\ e_term e = t).
Proof.
  unfold tget. destruct (N.eqb_spec i (sg_base s)) as [E|E].
  - intros _. unfold top. split; [lia|]. split; [lia|]. intros; lia.
  - destruct (eget s i) as [e|] eqn:Eg; [|discriminate]. cbn [option_map]. intros H. injection H as <-.
    destruct (eget_range _ _ _ Eg). split; [lia|]. split; [assumption|]. intros _. exists e. auto.
Qed.

(* ---------------- node logs as segments ---------------- *)
Lemma eget_log l i : (exists r, l = entry0 :: r) -> eget (seg_of_log l) i = log_get l i.
Proof.
  intros (r & ->). unfold eget, seg_of_log, log_get, log_contains, first_index. cbn [sg_base sg_es tl hd e_index entry0 length].
  destruct (N.ltb_spec 0 i) as [H|H].
  - destruct (N.leb_spec (i - 0) 0); [lia|]. cbn [orb].
    destruct (N.leb_spec (N.of_nat (S (length r))) (i - 0)) as [H2|H2]; cbn [negb].
    + apply nth_error_None. lia.
    + replace (N.to_nat (i - 0)) with (S (N.to_nat (i - 0 - 1))) by lia. reflexivity.
  - destruct (N.leb_spec (i - 0) 0); [|lia]. reflexivity.
Qed.

Lemma top_log r : top (seg_of_log (entry0 :: r)) = N.of_nat (length r).
Proof. unfold top, seg_of_log. cbn. lia. Qed.

Lemma wf_seg_log r : wf_log (entry0 :: r) -> wf_seg (seg_of_log (entry0 :: r)).
Proof. intros [_ H]. unfold wf_seg, seg_of_log. cbn [sg_base sg_es tl]. cbn in H. destruct H as [_ H]. exact H. Qed.

Lemma wf_log_seg r : wf_seg (seg_of_log (entry0 :: r)) -> wf_log (entry0 :: r).
Proof. intros H. split; [discriminate|]. cbn. split; [reflexivity|exact H]. Qed.

Lemma in_log_eget r e : wf_seg (seg_of_log (entry0 :: r)) -> In e r -> eget (seg_of_log (entry0 :: r)) (e_index e) = Some e.
Proof.
  intros Hwf Hin. apply In_nth_error in Hin. destruct Hin as (k & Hk).
  assert (Hlen : (k < length r)%nat) by (apply nth_error_Some; congruence).
  pose proof Hk as Hk'. apply nth_error_nth with (d := entry0) in Hk'.
  unfold wf_seg, seg_of_log in Hwf. cbn [sg_base sg_es tl] in Hwf.
  pose proof (consecutive_nth _ _ Hwf k entry0 Hlen) as Hi. rewrite Hk' in Hi.
  unfold eget, seg_of_log. cbn [sg_base sg_es tl]. destruct (N.ltb_spec 0 (e_index e)); [|lia].
  replace (N.to_nat (e_index e - 0 - 1)) with k by lia. exact Hk.
Qed.

Lemma eget_in_log r i e : eget (seg_of_log (entry0 :: r)) i = Some e -> In e r.
Proof.
  unfold eget, seg_of_log. cbn [sg_base sg_es tl]. destruct (0 <? i); [|discriminate]. apply nth_error_In.
Qed.

(* ---------------- the prefix property from one-step matching ---------------- *)
Lemma pm_down s1 s2 :
  PM s1 s2 -> forall (k : nat) j, tget s1 j = tget s2 j -> tget s1 j <> None ->
  sg_base s1 < j - N.of_nat k -> sg_base s2 < j - N.of_nat k -> N.of_nat k <= j ->
  eget s1 (j - N.of_nat k) = eget s2 (j - N.of_nat k) /\ eget s1 (j - N.of_nat k) <> None.
Proof.
  intros HP. induction k as [|k IH]; intros j Ht Hn B1 B2 Hk.
  - replace (j - N.of_nat 0) with j in * by lia.
    destruct (tget s1 j) as [t|] eqn:T1; [|contradiction]. symmetry in Ht.
    destruct (tget_some _ _ _ T1) as (_ & _ & H1). destruct (tget_some _ _ _ Ht) as (_ & _ & H2).
    destruct (H1 B1) as (e1 & E1 & Et1). destruct (H2 B2) as (e2 & E2 & Et2).
    destruct (HP j e1 e2 E1 E2) as [-> _]; [congruence|]. rewrite E1, E2. split; [reflexivity|discriminate].
  - destruct (IH j Ht Hn) as [E Ne]; [lia|lia|lia|].
    destruct (eget s1 (j - N.of_nat k)) as [e1|] eqn:E1; [|contradiction]. symmetry in E.
    destruct (HP _ e1 e1 E1 E eq_refl) as [_ Hp].
    replace (j - N.of_nat k - 1) with (j - N.of_nat (S k)) in Hp by lia.
    assert (Hd1 : exists e, eget s1 (j - N.of_nat (S k)) = Some e).
    { apply eget_defined; [exact B1|]. destruct (eget_range _ _ _ E1). lia. }
    assert (Hd2 : exists e, eget s2 (j - N.of_nat (S k)) = Some e).
    { apply eget_defined; [exact B2|]. destruct (eget_range _ _ _ E). lia. }
    destruct Hd1 as (a1 & A1). destruct Hd2 as (a2 & A2).
    rewrite (tget_entry _ _ _ A1), (tget_entry _ _ _ A2) in Hp. injection Hp as Hp.
    destruct (HP _ a1 a2 A1 A2 Hp) as [-> _]. rewrite A1, A2. split; [reflexivity|discriminate].
Qed.

Theorem pm_prefix s1 s2 j i :
  PM s1 s2 -> tget s1 j = tget s2 j -> tget s1 j <> None -> sg_base s1 < i -> sg_base s2 < i -> i <= j ->
  eget s1 i = eget s2 i.
Proof.
  intros HP Ht Hn B1 B2 Hij. destruct (pm_down s1 s2 HP (N.to_nat (j - i)) j Ht Hn) as [E _]; try lia.
  replace (j - N.of_nat (N.to_nat (j - i))) with i in E by lia. exact E.
Qed.

Lemma PM_self s : PM s s.
Proof. intros i e1 e2 E1 E2 _. rewrite E1 in E2. injection E2 as ->. auto. Qed.

(* a segment that reads like s1 below x and like s2 from x on, the two agreeing on the term at x-1 *)
Lemma PM_splice s s1 s2 x y :
  (forall i, i < x -> eget s i = eget s1 i) -> (forall i, i < x -> tget s i = tget s1 i) ->
  (forall i, x <= i -> eget s i = None \/ eget s i = eget s2 i) ->
  (forall i, x <= i -> eget s i <> None -> tget s (i - 1) = tget s2 (i - 1)) ->
  PM s1 y -> PM s2 y -> PM s y.
Proof.
  intros L1 L2 U1 U2 P1 P2 i e1 e2 E1 E2 Et. destruct (N.lt_ge_cases i x) as [H|H].
  - rewrite (L1 i H) in E1. destruct (P1 i e1 e2 E1 E2 Et) as [A B]. split; [exact A|]. rewrite L2 by lia. exact B.
  - destruct (U1 i H) as [N0|Eq]; [congruence|]. assert (Hne : eget s i <> None) by congruence.
    rewrite Eq in E1. destruct (P2 i e1 e2 E1 E2 Et) as [A B]. split; [exact A|]. rewrite (U2 i H Hne). exact B.
Qed.

Lemma PM_sym_splice s s1 s2 x y :
  (forall i, i < x -> eget s i = eget s1 i) -> (forall i, i < x -> tget s i = tget s1 i) ->
  (forall i, x <= i -> eget s i = None \/ eget s i = eget s2 i) ->
  (forall i, x <= i -> eget s i <> None -> tget s (i - 1) = tget s2 (i - 1)) ->
  PM y s1 -> PM y s2 -> PM y s.
Proof.
  intros L1 L2 U1 U2 P1 P2 i e1 e2 E1 E2 Et. destruct (N.lt_ge_cases i x) as [H|H].
  - rewrite (L1 i H) in E2. destruct (P1 i e1 e2 E1 E2 Et) as [A B]. split; [exact A|]. rewrite L2 by lia. exact B.
  - destruct (U1 i H) as [N0|Eq]; [congruence|]. assert (Hne : eget s i <> None) by congruence.
    rewrite Eq in E2. destruct (P2 i e1 e2 E1 E2 Et) as [A B]. split; [exact A|]. rewrite (U2 i H Hne). exact B.
Qed.
