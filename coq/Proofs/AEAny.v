(* A follower that answers SUCCESS to an AppendEntries request, whatever its write budget (torn batch, frozen
   afterwards, frozen before): the shape of its new log, and the positional reading of it.

   One path of the model makes the naive statement FALSE: the scan over the request finds a conflicting entry,
   the truncate is refused by the storage (budget exhausted, or the node was frozen already), the append that
   follows writes nothing, and the handler still answers success.  The log is then the old log, conflicting
   entry included, and the node is frozen.  [ae_success_any_counterexample] exhibits it. *)
From RaftV Require Import Node.Leader Proofs.Frame Proofs.AESpec Proofs.AELog Proofs.AEFull Proofs.LogDefs Proofs.LogSeg Proofs.LogAccept Proofs.RVSpec Proofs.Votes.
Open Scope N_scope.

(* ---------- a successful AppendEntries, any budget: the log ---------- *)
Lemma ae_success_shape now n q :
  wf_log (n_log n) -> first_index (n_log n) = n_lii n ->
  consecutive (ae_prev_index q + 1) (ae_entries q) ->
  let n' := fst (h_append_entries now n q) in
  ae_success (snd (h_append_entries now n q)) = true ->
  exists a ta m,
    ae_entries q = a ++ ta /\ (m <= length ta)%nat /\
    n_term n <= ae_term q /\ n_term n' = ae_term q /\
    n_lii n <= ae_prev_index q /\ ae_prev_index q < next_index (n_log n) /\
    ((ae_prev_index q = n_lii n /\ ae_prev_term q = n_lit n) \/
     (n_lii n < ae_prev_index q /\ exists pe, log_get (n_log n) (ae_prev_index q) = Some pe /\ e_term pe = ae_prev_term q)) /\
    (forall e, In e a -> exists x, log_get (n_log n) (e_index e) = Some x /\ e_term x = e_term e) /\
    (n_log n' = match ta with
                | [] => n_log n
                | _ => log_truncate (n_log n) (ae_prev_index q + 1 + N.of_nat (length a)) ++ firstn m ta
                end
     \/ (ta <> [] /\ n_log n' = n_log n /\ n_frozen n' = true)).
Proof.
  intros Hwf Hfi Hc. cbn zeta. intros Hs.
  destruct (role_eqb (n_role n) Shutdown) eqn:E1; [unfold h_append_entries in Hs; rewrite E1 in Hs; discriminate|].
  destruct (ae_term q <? n_term n) eqn:E2; [unfold h_append_entries in Hs; rewrite E1, E2 in Hs; discriminate|].
  pose proof (ae_pre_term now n q E2) as HT3.
  rewrite (ae_unfold now n q E1 E2) in *. cbn zeta in *.
  pose proof (LC_ae_pre now n q) as (HL & _ & Hlii & Hlit). set (n3 := ae_pre now n q) in *.
  destruct (N.ltb_spec (ae_prev_index q) (n_lii n3)) as [Hp1|Hp1]; [discriminate|].
  destruct (N.leb_spec (next_index (n_log n3)) (ae_prev_index q)) as [Hp2|Hp2]; [discriminate|].
  destruct ((n_lii n3 =? ae_prev_index q) && negb (n_lit n3 =? ae_prev_term q)) eqn:E3; [discriminate|].
  match type of Hs with context [match ?c with _ => _ end] => set (conflict := c) in * end.
  assert (Hcf : conflict = None ->
    (ae_prev_index q = n_lii n /\ ae_prev_term q = n_lit n) \/
    (n_lii n < ae_prev_index q /\ exists pe, log_get (n_log n) (ae_prev_index q) = Some pe /\ e_term pe = ae_prev_term q)).
  { subst conflict. destruct (N.ltb_spec (n_lii n3) (ae_prev_index q)) as [Hlt|Hge].
    - destruct (log_get (n_log n3) (ae_prev_index q)) as [pe|] eqn:Eg; [|discriminate].
      destruct (N.eqb_spec (e_term pe) (ae_prev_term q)) as [Et|Et]; [|discriminate].
      intros _. right. split; [lia|]. exists pe. rewrite <- HL. auto.
    - intros _. left. assert (Hq : n_lii n3 = ae_prev_index q) by lia.
      rewrite Hq, N.eqb_refl in E3. cbn [andb] in E3.
      destruct (N.eqb_spec (n_lit n3) (ae_prev_term q)) as [Et|Et]; [|discriminate].
      split; congruence. }
  clearbody conflict. destruct conflict as [[idx|]|]; try discriminate.
  specialize (Hcf eq_refl).
  destruct (ae_scan now n3 (ae_entries q)) as [[n4 ta]|] eqn:Es; [|discriminate].
  cbn [fst].
  destruct (ae_scan_shape_gen now (ae_entries q) n3 n4 ta (ae_prev_index q + 1)) as (a & Ea & Ha & _ & Hl4);
    [rewrite HL; exact Hwf|exact Hc|rewrite HL, Hfi, <- Hlii; lia|lia|exact Es|].
  pose proof (Q_ae_scan _ _ _ _ _ Es) as Q4.
  pose proof (Q_append ta n4) as Q5.
  destruct (append_general ta n4) as (m & Hm & H5).
  pose proof (append_frozen ta n4) as H5f.
  set (n5 := append_entries n4 ta) in *. clearbody n5.
  match goal with |- context [n_log (if ?c then ?x else ?y)] =>
    assert (H6 : n_log (if c then x else y) = n_log y /\ n_term (if c then x else y) = n_term y /\
                 n_frozen (if c then x else y) = n_frozen y)
      by (destruct c; repeat split; reflexivity);
    destruct H6 as (H6 & H7 & H8); rewrite H6, H7, H8; clear H6 H7 H8 end.
  exists a, ta, m.
  split; [exact Ea|]. split; [exact Hm|]. split; [apply N.ltb_ge; exact E2|].
  split; [rewrite (q_term _ _ Q5), (q_term _ _ Q4); exact HT3|].
  split; [lia|]. split; [rewrite <- HL; exact Hp2|]. split; [exact Hcf|].
  split; [rewrite <- HL; exact Ha|].
  destruct Hl4 as [Hl4|[Hl4 F4]].
  - left. rewrite H5, Hl4, HL. destruct ta; [rewrite firstn_nil; apply app_nil_r|reflexivity].
  - destruct ta as [|t ta'].
    + left. rewrite H5, firstn_nil, app_nil_r. congruence.
    + right. split; [discriminate|]. rewrite (H5f F4). split; [congruence|exact F4].
Qed.

(* ---------- the positional reading ---------- *)
(* After a success response, torn or not: the new log reads like the old log up to prev (where the old log has
   the request's prev term), and - unless the log is untouched and the node frozen (refused truncate) - every
   entry of the new log at a position covered by the request has the term of the request's entry there. *)
Theorem ae_success_any now n q r :
  n_log n = entry0 :: r -> n_lii n = 0 -> n_lit n = 0 -> wf_seg (seg_of_log (n_log n)) -> wf_seg (seg_of_req q) ->
  let n' := fst (h_append_entries now n q) in
  ae_success (snd (h_append_entries now n q)) = true ->
  tget (seg_of_log (n_log n)) (ae_prev_index q) = Some (ae_prev_term q) /\
  n_term n <= ae_term q /\
  (forall i, i <= ae_prev_index q -> eget (seg_of_log (n_log n')) i = eget (seg_of_log (n_log n)) i) /\
  ((n_log n' = n_log n /\ n_frozen n' = true) \/
   (forall i ec, ae_prev_index q < i -> i <= ae_prev_index q + N.of_nat (length (ae_entries q)) ->
      eget (seg_of_log (n_log n')) i = Some ec -> exists e2, eget (seg_of_req q) i = Some e2 /\ e_term e2 = e_term ec)).
Proof.
  intros Hlog Hlii Hlit Hwf Hwq. cbn zeta. intros Hs.
  rewrite Hlog in Hwf.
  destruct (ae_success_shape now n q) as (a & ta & m & Ea & Hm & Hle & _ & _ & Hp2 & Hcf & Ha & Hl');
    [rewrite Hlog; apply wf_log_seg; exact Hwf|rewrite Hlog, Hlii; reflexivity|exact Hwq|exact Hs|].
  set (n' := fst (h_append_entries now n q)) in *. clearbody n'.
  rewrite Hlog, Hlii, Hlit in *.
  set (sl := seg_of_log (entry0 :: r)) in *.
  assert (Hcheck : tget sl (ae_prev_index q) = Some (ae_prev_term q)).
  { destruct Hcf as [[P1 P2]|[P1 (pe & Hg & Hpt)]].
    - rewrite P1, P2. exact (tget_base sl).
    - rewrite <- (eget_log (entry0 :: r)) in Hg by (exists r; reflexivity).
      fold sl in Hg. rewrite (tget_entry _ _ _ Hg), Hpt. reflexivity. }
  (* a position of the request inside a: the old log's entry there has the request's term *)
  assert (Hain : forall i ec, ae_prev_index q < i -> i < ae_prev_index q + 1 + N.of_nat (length a) ->
                   eget sl i = Some ec -> exists e2, eget (seg_of_req q) i = Some e2 /\ e_term e2 = e_term ec).
  { intros i ec H1 H2 Eg.
    destruct (eget_defined (seg_of_req q) i) as (e2 & Eq).
    { unfold seg_of_req. cbn [sg_base]. exact H1. }
    { unfold top, seg_of_req. cbn [sg_base sg_es]. rewrite Ea, app_length. lia. }
    pose proof (eget_index _ _ _ Hwq Eq) as Hidx.
    assert (Hin : In e2 a).
    { unfold eget, seg_of_req in Eq. cbn [sg_base sg_es] in Eq.
      destruct (N.ltb_spec (ae_prev_index q) i) as [Hlt|Hlt]; [|discriminate].
      rewrite Ea, nth_error_app1 in Eq by lia. eapply nth_error_In; exact Eq. }
    destruct (Ha e2 Hin) as (x0 & Hx0 & Hxt). rewrite Hidx in Hx0.
    rewrite <- (eget_log (entry0 :: r)) in Hx0 by (exists r; reflexivity). fold sl in Hx0.
    exists e2. split; [exact Eq|]. congruence. }
  split; [exact Hcheck|]. split; [exact Hle|].
  destruct Hl' as [Hl'|(_ & Hl' & Hfz)].
  2:{ split; [intros i _; rewrite Hl'; reflexivity|left; split; assumption]. }
  destruct ta as [|t ta'].
  - rewrite Hl'. fold sl. split; [reflexivity|]. right.
    intros i ec H1 H2 Eg. apply (Hain i ec H1); [|exact Eg].
    rewrite Ea, app_nil_r in H2. lia.
  - rewrite Hl'.
    destruct (splice_facts r q a (t :: ta') m Hwf Hwq Ea Hp2 Hcheck Ha) as (F1 & F2 & _ & F4 & _).
    cbn zeta in F1, F2, F4.
    change (log_truncate (entry0 :: r) (ae_prev_index q + 1 + N.of_nat (length a)) ++ firstn m (t :: ta'))
      with (splice r (ae_prev_index q + 1 + N.of_nat (length a)) (firstn m (t :: ta'))).
    set (s' := seg_of_log (splice r (ae_prev_index q + 1 + N.of_nat (length a)) (firstn m (t :: ta')))) in *.
    clearbody s'.
    split; [intros i Hi; apply F2; lia|]. right.
    intros i ec H1 H2 Eg.
    destruct (N.lt_ge_cases i (ae_prev_index q + 1 + N.of_nat (length a))) as [Hi|Hi].
    + rewrite (F2 i Hi) in Eg. apply (Hain i ec H1 Hi Eg).
    + destruct (F4 i Hi) as [Hn|He]; [congruence|].
      exists ec. split; [rewrite <- He; exact Eg|reflexivity].
Qed.

(* the same without the escape clause, for a node that is not frozen afterwards or whose log changed *)
Corollary ae_success_any_changed now n q r :
  n_log n = entry0 :: r -> n_lii n = 0 -> n_lit n = 0 -> wf_seg (seg_of_log (n_log n)) -> wf_seg (seg_of_req q) ->
  let n' := fst (h_append_entries now n q) in
  ae_success (snd (h_append_entries now n q)) = true ->
  n_frozen n' = false \/ n_log n' <> n_log n ->
  forall i ec, ae_prev_index q < i -> i <= ae_prev_index q + N.of_nat (length (ae_entries q)) ->
    eget (seg_of_log (n_log n')) i = Some ec -> exists e2, eget (seg_of_req q) i = Some e2 /\ e_term e2 = e_term ec.
Proof.
  intros Hlog Hlii Hlit Hwf Hwq. cbn zeta. intros Hs Hx.
  destruct (ae_success_any now n q r Hlog Hlii Hlit Hwf Hwq Hs) as (_ & _ & _ & [[H1 H2]|H]); [|exact H].
  destruct Hx as [Hx|Hx]; [congruence|contradiction].
Qed.

(* ---------- the path on which the unconditional statement fails ---------- *)
Definition cx_node : node :=
  {| n_id := 1; n_et := 10; n_ld := 5; n_pterm := 2; n_pvote := None; n_term := 2; n_vote := None;
     n_log := [entry0; {| e_index := 1; e_term := 1; e_kind := KNoop |}];
     n_snaps := []; n_partial := None; n_open := true; n_role := Follower;
     n_commit := 0; n_applied := 0; n_lii := 0; n_lit := 0; n_conf := None; n_cconf := None; n_leader := None;
     n_followers := []; n_fgen := 1; n_orphans := []; n_pending := []; n_ro := []; n_should_verify := true; n_cfg_fid := None; n_hb_rounds := 0; n_lease := 0; n_contact := 0;
     n_rounds := []; n_next_round := 0; n_tasks := []; n_cv := conds0; n_iswait := []; n_fsm := [];
     n_snap_every := 0; n_pad := 0; n_budget := Some 0; n_frozen := false; n_out := Ok; n_results := []; n_applies := [] |}.
Definition cx_req : ae_req :=
  {| ae_leader := 2; ae_term := 2; ae_commit := 0; ae_prev_index := 0; ae_prev_term := 0;
     ae_entries := [{| e_index := 1; e_term := 2; e_kind := KNoop |}] |}.

(* an unfrozen follower with an exhausted budget: success response, log untouched, conflicting entry kept *)
Lemma ae_success_any_counterexample :
  n_frozen cx_node = false /\
  wf_seg (seg_of_log (n_log cx_node)) /\ wf_seg (seg_of_req cx_req) /\
  ae_success (snd (h_append_entries 0 cx_node cx_req)) = true /\
  n_frozen (fst (h_append_entries 0 cx_node cx_req)) = true /\
  exists ec e2, eget (seg_of_log (n_log (fst (h_append_entries 0 cx_node cx_req)))) 1 = Some ec /\
                eget (seg_of_req cx_req) 1 = Some e2 /\ e_term e2 <> e_term ec.
Proof.
  split; [reflexivity|]. split; [vm_compute; auto|]. split; [vm_compute; auto|].
  split; [vm_compute; reflexivity|]. split; [vm_compute; reflexivity|].
  exists {| e_index := 1; e_term := 1; e_kind := KNoop |}, {| e_index := 1; e_term := 2; e_kind := KNoop |}.
  split; [vm_compute; reflexivity|]. split; [vm_compute; reflexivity|]. cbn. discriminate.
Qed.

Print Assumptions ae_success_shape.
Print Assumptions ae_success_any.
Print Assumptions ae_success_any_changed.
Print Assumptions ae_success_any_counterexample.
