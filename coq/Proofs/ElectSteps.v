(* Election safety (C02), part 3: what the three sections that touch the election bookkeeping do to it:
   election() (an election timeout), sendRequestVote after its RPC, sendAppendEntries after its RPC. *)
From RaftV Require Import Cluster.World Proofs.Frame Proofs.Votes Proofs.ElectSpec Proofs.ElectDefs Proofs.EFrame Proofs.RoleFrame.
Open Scope N_scope.

Lemma persist_erf n : erf (persist n) = erf n.
Proof.
  unfold persist, tick_write. destruct (n_frozen n); [reflexivity|].
  destruct (n_budget n) as [k|]; [destruct (k =? 0)|]; reflexivity.
Qed.

(* ---------------- sendRequestVoteToPeers / election() ---------------- *)
Definition rv_peers (n : node) : list nid :=
  filter (fun id => negb (id =? n_id n) && is_voter (conf_of n) id) (member_ids (conf_of n)).

Definition new_rv_round (n n' : node) (pv : bool) : Prop :=
  exists c0,
    n_rounds n' = n_rounds n ++ [Build_round (n_next_round n) c0 0 (n_term n')] /\ c0 <= 1 /\
    n_next_round n' = n_next_round n + 1 /\
    n_tasks n' = n_tasks n ++ map (fun id => TRv (n_next_round n) id pv) (rv_peers n).

Lemma send_rv_shape now n :
  let n' := send_rv_to_peers now n in
  E n n' \/ (new_rv_round n n' (role_eqb (n_role n) PreCandidate) /\ tvf n' = tvf n /\ n_role n' = n_role n).
Proof.
  cbn zeta. unfold send_rv_to_peers. destruct (is_single (conf_of n) (n_id n)).
  - left. eapply E_trans; [|apply E_become_leader].
    destruct (role_eqb (n_role n) PreCandidate); [|apply E_refl].
    apply E_of_erf. rewrite persist_erf. reflexivity.
  - right. unfold new_round. split; [|split; reflexivity].
    exists (self_count n). split; [reflexivity|]. split; [unfold self_count; destruct (is_voter _ _); lia|].
    split; reflexivity.
Qed.

Lemma election_shape now m :
  let m' := l_election now m in
  E m m' \/ exists pv, new_rv_round m m' pv /\ (pv = false -> n_vote m' = Some (n_id m)).
Proof.
  cbn zeta. unfold l_election.
  set (n0 := m <| n_cv ::= fun c => c <| cv_election := false |> |>).
  assert (P0 : erf n0 = erf m /\ conf_of n0 = conf_of m /\ n_id n0 = n_id m) by (repeat split).
  clearbody n0. destruct P0 as (E0 & C0 & I0).
  match goal with |- E m (if ?c then _ else _) \/ _ => destruct c eqn:G end; [left; apply E_of_erf; exact E0|].
  apply Bool.orb_false_iff in G. destruct G as [G _]. apply Bool.orb_false_iff in G. destruct G as [G _].
  apply Bool.orb_false_iff in G. destruct G as [GL GS].
  set (n1 := if role_eqb (n_role n0) Follower then n0 <| n_role := PreCandidate |> else n0).
  assert (P1 : erf n1 = erf m /\ conf_of n1 = conf_of m /\ n_id n1 = n_id m /\ (n_role n1 = PreCandidate \/ n_role n1 = Candidate)).
  { subst n1. destruct (n_role n0) eqn:ER; cbn; repeat split; try assumption; auto; discriminate. }
  clearbody n1. destruct P1 as (E1 & C1 & I1 & R1).
  set (n2 := if role_eqb (n_role n1) Candidate then persist (n1 <| n_term ::= N.succ |> <| n_vote := Some (n_id n1) |>) else n1).
  assert (P2 : erf n2 = erf m /\ conf_of n2 = conf_of m /\ n_id n2 = n_id m /\ n_role n2 = n_role n1 /\
               (n_role n1 = Candidate -> n_vote n2 = Some (n_id m))).
  { subst n2. destruct (role_eqb (n_role n1) Candidate) eqn:EC.
    - pose proof (persist_core (n1 <| n_term ::= N.succ |> <| n_vote := Some (n_id n1) |>)) as HP. cbn zeta in HP.
      destruct HP as (PT & PV & PL & PR & PI & PVol & _).
      split; [rewrite persist_erf; exact E1|]. split.
      + unfold conf_of. unfold vol in PVol. injection PVol as _ _ _ _ _ _ _ PC _. rewrite PC. exact C1.
      + split; [rewrite PI; exact I1|]. split; [rewrite PR; reflexivity|]. intros _. rewrite PV. cbn. rewrite I1. reflexivity.
    - repeat split; try assumption. intros E. rewrite E in EC. discriminate. }
  clearbody n2. destruct P2 as (E2 & C2 & I2 & R2 & V2).
  pose proof (send_rv_shape now n2) as HS. cbn zeta in HS. unfold erf in E2. injection E2 as Er En Et.
  destruct HS as [HS|((c0 & A1 & A2 & A3 & A4) & TV & RR)].
  - left. eapply E_trans; [|exact HS]. apply E_of_erf. unfold erf. congruence.
  - right. exists (role_eqb (n_role n2) PreCandidate). split.
    + exists c0. unfold rv_peers in *. rewrite C2, I2, Er, En, Et in *. repeat split; assumption.
    + intros Hpv. unfold tvf in TV. injection TV as _ _ TV _ _ _. rewrite TV. apply V2.
      rewrite R2 in Hpv. destruct R1 as [R1|R1]; [rewrite R1 in Hpv; discriminate|exact R1].
Qed.

(* roles: election() makes a leader only of the single voter; it makes a (pre-)candidate only of a voter *)
Lemma election_K now m :
  let m' := l_election now m in
  (n_role m' = Leader -> (n_role m = Leader /\ n_term m' = n_term m) \/ is_single (conf_of m) (n_id m) = true) /\
  (active (n_role m') -> active (n_role m) \/ is_voter (conf_of m) (n_id m) = true).
Proof.
  cbn zeta. split.
  - intros H. destruct (n_role m) eqn:ER; try (right; apply (election_becomes_leader now m); [rewrite ER; discriminate|exact H]).
    left. split; [reflexivity|]. unfold l_election. cbn [n_role set]. rewrite ER. reflexivity.
  - unfold l_election.
    set (n0 := m <| n_cv ::= fun c => c <| cv_election := false |> |>).
    assert (P0 : n_role n0 = n_role m /\ conf_of n0 = conf_of m /\ n_id n0 = n_id m) by (repeat split).
    clearbody n0. destruct P0 as (R0 & C0 & I0).
    match goal with |- active (n_role (if ?c then _ else _)) -> _ => destruct c eqn:G end; [rewrite R0; auto|].
    apply Bool.orb_false_iff in G. destruct G as [G _]. apply Bool.orb_false_iff in G. destruct G as [_ G].
    intros _. right. rewrite <- C0, <- I0. destruct (is_voter (conf_of n0) (n_id n0)); [reflexivity|discriminate].
Qed.

(* ---------------- sendRequestVote after the RPC ---------------- *)
Lemma EB_bump n rid : EB rid n (bump_round n rid).
Proof.
  unfold bump_round. constructor; cbn [n_next_round n_rounds n_tasks set]; try reflexivity; try lia.
  - intros r Hr. exists (if rd_id r =? rid then Build_round rid (r_count r + 1) (r_stamp r) (r_term r) else r).
    split; [apply in_map_iff; exists r; split; [reflexivity|exact Hr]|].
    destruct (N.eqb_spec (rd_id r) rid) as [E|E]; [symmetry; exact E|reflexivity].
  - intros r' H. left. apply in_map_iff in H. destruct H as (r & <- & Hr). exists r. split; [exact Hr|].
    unfold bumped. destruct (N.eqb_spec (rd_id r) rid) as [E|E]; cbn; [|auto]. repeat split; auto.
  - intros [W1 W2]. split.
    + cbn [n_rounds set]. rewrite map_map. erewrite map_ext; [exact W1|]. intros r. destruct (N.eqb_spec (rd_id r) rid) as [E|E]; [symmetry; exact E|reflexivity].
    + cbn [n_rounds n_next_round set]. intros r' H. apply in_map_iff in H. destruct H as (r & <- & Hr).
      specialize (W2 r Hr). destruct (N.eqb_spec (rd_id r) rid) as [E|E]; cbn; [rewrite <- E|]; exact W2.
  - intros t H. left. exact H.
Qed.

Lemma rv_reply_rest now n1 rid peer pv q p :
  E n1 (if rv_term q <? rvr_term p then become_follower now n1 peer (rvr_term p) else
        let quorum := has_quorum (conf_of n1) (round_count n1 rid) in
        let n2 := if quorum && role_eqb (n_role n1) PreCandidate
                  then signal_election (n1 <| n_role := Candidate |>) else n1 in
        if negb pv && quorum && role_eqb (n_role n2) Candidate then become_leader now n2 else n2).
Proof.
  destruct (rv_term q <? rvr_term p); [apply E_become_follower|]. cbn zeta.
  set (n2 := if _ && role_eqb (n_role n1) PreCandidate then _ else n1).
  assert (H2 : E n1 n2).
  { subst n2. match goal with |- E _ (if ?c then _ else _) => destruct c end; [|apply E_refl].
    eapply E_trans; [|apply E_signal_election]. apply E_of_erf. reflexivity. }
  clearbody n2. match goal with |- E _ (if ?c then _ else _) => destruct c end; [|exact H2].
  eapply E_trans; [exact H2|apply E_become_leader].
Qed.

Lemma rv_reply_EB now m rid peer pv q p :
  let m' := l_rv_reply now m rid peer pv q p in
  (rvr_granted p = true -> EB rid m m') /\ (rvr_granted p = false -> E m m').
Proof.
  cbn zeta. unfold l_rv_reply.
  destruct (role_eqb (n_role m) Shutdown); [split; intros _; [apply E_EB|]; apply E_refl|].
  destruct (rv_term q <? n_term m); [split; intros _; [apply E_EB|]; apply E_refl|].
  split; intros G; rewrite G.
  - eapply EB_E_trans; [apply EB_bump|apply rv_reply_rest].
  - apply rv_reply_rest.
Qed.

Lemma rv_reply_K now m rid peer pv q p :
  let m' := l_rv_reply now m rid peer pv q p in
  (n_role m' = Leader ->
     (n_role m = Leader /\ n_term m' = n_term m) \/
     (pv = false /\ n_term m <= rv_term q /\ n_term m' = n_term m /\ active (n_role m) /\
      has_quorum (conf_of m) (round_count (if rvr_granted p then bump_round m rid else m) rid) = true)) /\
  (active (n_role m') -> active (n_role m)).
Proof.
  cbn zeta.
  assert (HT : n_role (l_rv_reply now m rid peer pv q p) = Leader -> n_term (l_rv_reply now m rid peer pv q p) = n_term m).
  { unfold l_rv_reply.
    destruct (role_eqb (n_role m) Shutdown); [reflexivity|].
    destruct (rv_term q <? n_term m); [reflexivity|].
    set (n1 := if rvr_granted p then bump_round m rid else m).
    assert (T1 : n_term n1 = n_term m) by (subst n1; destruct (rvr_granted p); reflexivity).
    clearbody n1.
    destruct (rv_term q <? rvr_term p).
    { intros H. pose proof (become_follower_fields now n1 peer (rvr_term p)) as HF. cbn zeta in HF.
      destruct HF as (_ & _ & _ & HR & _). rewrite HR in H. discriminate. }
    intros _. cbn zeta. set (n2 := if _ && role_eqb (n_role n1) PreCandidate then _ else n1).
    assert (T2 : n_term n2 = n_term n1).
    { subst n2. match goal with |- n_term (if ?c then _ else _) = _ => destruct c end; reflexivity. }
    clearbody n2. match goal with |- n_term (if ?c then _ else _) = _ => destruct c end; [|congruence].
    rewrite (q_term _ _ (Q_become_leader now n2)). congruence. }
  split.
  - intros H. destruct (n_role m) eqn:ER; try (right;
      destruct (rv_reply_becomes_leader now m rid peer pv q p) as (A1 & A2 & A3 & A4); [rewrite ER; discriminate|exact H|];
      split; [exact A1|]; split; [exact A2|]; split; [apply HT, H|];
      split; [unfold active; destruct A4 as [A4|A4]; rewrite ER in A4; first [discriminate|auto]|];
      cbn zeta in A3; destruct (rvr_granted p); exact A3).
    left. split; [reflexivity|apply HT, H].
  - unfold l_rv_reply.
    destruct (role_eqb (n_role m) Shutdown); [auto|].
    destruct (rv_term q <? n_term m); [auto|].
    set (n1 := if rvr_granted p then bump_round m rid else m).
    assert (R1 : n_role n1 = n_role m) by (subst n1; destruct (rvr_granted p); reflexivity).
    clearbody n1.
    destruct (rv_term q <? rvr_term p).
    { intros H. pose proof (become_follower_fields now n1 peer (rvr_term p)) as HF. cbn zeta in HF.
      destruct HF as (_ & _ & _ & HR & _). rewrite HR in H. destruct H as [H|[H|H]]; discriminate. }
    cbn zeta. set (quorum := has_quorum (conf_of n1) (round_count n1 rid)).
    set (n2 := if quorum && role_eqb (n_role n1) PreCandidate then signal_election (n1 <| n_role := Candidate |>) else n1).
    assert (R2 : active (n_role n2) -> active (n_role m)).
    { subst n2. destruct (quorum && role_eqb (n_role n1) PreCandidate) eqn:EQ; [|rewrite R1; auto].
      intros _. apply andb_prop in EQ. destruct EQ as [_ EQ]. rewrite <- R1. destruct (n_role n1); try discriminate. left. reflexivity. }
    destruct (negb pv && quorum && role_eqb (n_role n2) Candidate) eqn:EL; [|exact R2].
    intros _. apply R2. apply andb_prop in EL. destruct EL as [_ EL]. destruct (n_role n2); try discriminate. right. left. reflexivity.
Qed.

(* ---------------- sendAppendEntries after the RPC ---------------- *)
Lemma ae_reply_EB now m rid peer gen q p : EB rid m (fst (l_ae_reply now m rid peer gen q p)).
Proof.
  unfold l_ae_reply.
  destruct (negb (is_member (conf_of m) peer) || negb (role_eqb (n_role m) Leader)); [apply E_EB, E_refl|].
  destruct (n_term m <? aer_term p); [apply E_EB, E_become_follower|].
  destruct (negb (ae_term q =? n_term m)); [apply E_EB, E_refl|].
  set (n1 := if is_voter (conf_of m) peer then bump_round m rid else m).
  assert (H1 : EB rid m n1) by (subst n1; destruct (is_voter (conf_of m) peer); [apply EB_bump|apply E_EB, E_refl]).
  clearbody n1.
  set (n2 := if is_voter (conf_of m) peer && has_quorum (conf_of n1) (round_count n1 rid)
             then try_apply_ro now n1 (round_stamp n1 rid) else n1).
  assert (H2 : EB rid m n2).
  { subst n2. match goal with |- EB _ _ (if ?c then _ else _) => destruct c end; [|exact H1].
    eapply EB_E_trans; [exact H1|apply E_try_apply_ro]. }
  clearbody n2.
  destruct (negb (aer_success p)).
  - set (n3 := set_fobj n2 peer gen _).
    assert (H3 : EB rid m n3) by (eapply EB_E_trans; [exact H2|apply E_set_fobj]).
    clearbody n3. destruct (aer_index p <=? n_lii n3); [|exact H3].
    eapply EB_E_trans; [exact H3|apply E_l_is_send].
  - match goal with |- EB _ _ (fst (if ?c then _ else _)) => destruct c end; [|exact H2].
    cbn [fst]. set (n3 := set_fobj n2 peer gen _).
    assert (H3 : EB rid m n3) by (eapply EB_E_trans; [exact H2|apply E_set_fobj]).
    clearbody n3. destruct (n_commit n3 <? _); [|exact H3].
    eapply EB_E_trans; [exact H3|apply E_signal_commit].
Qed.
