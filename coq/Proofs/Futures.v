(* Futures (C18, C03): a future is answered at most once - respond is a
   non-blocking send on a buffered channel of one, the first answer wins. *)
From RaftV Require Import Node.Leader.
Open Scope N_scope.

Lemma existsb_fst_in (l : list (N * fresult)) f :
  existsb (fun p => fst p =? f) l = false -> ~ In f (map fst l).
Proof.
  induction l as [|[k v] l IH]; cbn [existsb map fst In]; [tauto|].
  intros H. apply orb_false_iff in H. destruct H as [H1 H2].
  intros [E|E]; [subst; rewrite N.eqb_refl in H1; discriminate|exact (IH H2 E)].
Qed.

Lemma respond_nodup n f r :
  NoDup (map fst (n_results n)) -> NoDup (map fst (n_results (respond n f r))).
Proof.
  intros H. unfold respond. destruct (n_frozen n); [exact H|].
  destruct (existsb _ _) eqn:E; [exact H|].
  cbn. rewrite map_app. cbn [map fst].
  apply NoDup_app_remove_l with (l := []) || idtac.
  assert (Hn : ~ In f (map fst (n_results n))) by (apply existsb_fst_in; exact E).
  clear E. induction (map fst (n_results n)) as [|k l IH]; cbn [app]; [constructor; [tauto|constructor]|].
  inversion H as [|? ? Hk Hl]; subst. constructor.
  - intro Hin. apply in_app_or in Hin. destruct Hin as [Hin|[Hin|[]]]; [tauto|subst; apply Hn; left; reflexivity].
  - apply IH; [exact Hl|intro; apply Hn; right; assumption].
Qed.

Lemma respond_keeps_first n f r r0 :
  In (f, r0) (n_results n) -> n_results (respond n f r) = n_results n.
Proof.
  intros Hin. unfold respond. destruct (n_frozen n); [reflexivity|].
  destruct (existsb (fun p => fst p =? f) (n_results n)) eqn:E; [reflexivity|].
  exfalso. apply existsb_fst_in in E. apply E. apply in_map_iff. exists (f, r0). split; [reflexivity|exact Hin].
Qed.
