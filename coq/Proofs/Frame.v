(* Frame lemmas: the bookkeeping helpers (answering futures, resetting the
   operation manager, closing snapshot files) do not touch the fields the
   safety arguments are about. *)
From RaftV Require Import Node.Leader.
Open Scope N_scope.

Definition vol (n : node) := (n_commit n, n_applied n, n_lii n, n_lit n, n_snaps n, n_fsm n, n_applies n, n_conf n, n_cconf n).

Record same_core (a b : node) : Prop := {
  sc_term : n_term a = n_term b; sc_vote : n_vote a = n_vote b;
  sc_pterm : n_pterm a = n_pterm b; sc_pvote : n_pvote a = n_pvote b;
  sc_log : n_log a = n_log b; sc_role : n_role a = n_role b; sc_id : n_id a = n_id b;
  sc_frozen : n_frozen a = n_frozen b; sc_budget : n_budget a = n_budget b;
  sc_vol : vol a = vol b }.

Lemma same_core_refl a : same_core a a.
Proof. constructor; reflexivity. Qed.
Lemma same_core_trans a b c : same_core a b -> same_core b c -> same_core a c.
Proof. intros [] []; constructor; congruence. Qed.

Lemma sc_respond n f r : same_core (respond n f r) n.
Proof.
  unfold respond. destruct (n_frozen n) eqn:E; [apply same_core_refl|].
  destruct (existsb _ _); [apply same_core_refl|]. constructor; reflexivity.
Qed.
Lemma sc_respond_all fids : forall n r, same_core (respond_all n fids r) n.
Proof.
  induction fids as [|f fids IH]; intros n r; [apply same_core_refl|].
  cbn [respond_all fold_left]. fold (respond_all (respond n f r) fids r).
  eapply same_core_trans; [apply IH|apply sc_respond].
Qed.
Lemma sc_new_opmanager now n : same_core (new_opmanager now n) n.
Proof. constructor; reflexivity. Qed.
Lemma sc_reset_snapshot_files n : same_core (reset_snapshot_files n) n.
Proof. constructor; reflexivity. Qed.
Lemma sc_notify n : same_core (notify_lost_leadership n) n.
Proof.
  unfold notify_lost_leadership. eapply same_core_trans; [apply sc_respond_all|apply sc_respond_all].
Qed.
Lemma sc_cancel n : same_core (cancel_conf_change n) n.
Proof.
  unfold cancel_conf_change. destruct (n_cfg_fid n); [|apply same_core_refl].
  eapply same_core_trans; [|apply sc_respond]. constructor; reflexivity.
Qed.

(* tick_write / persist *)
Lemma tick_write_core n :
  let n' := snd (tick_write n) in
  n_term n' = n_term n /\ n_vote n' = n_vote n /\ n_pterm n' = n_pterm n /\ n_pvote n' = n_pvote n /\
  n_log n' = n_log n /\ n_role n' = n_role n /\ n_id n' = n_id n /\ vol n' = vol n.
Proof.
  cbn zeta. unfold tick_write. destruct (n_frozen n); [cbn; repeat split|].
  destruct (n_budget n) as [k|]; [|cbn; repeat split].
  destruct (k =? 0); cbn; repeat split.
Qed.

Lemma persist_core n :
  let n' := persist n in
  n_term n' = n_term n /\ n_vote n' = n_vote n /\ n_log n' = n_log n /\ n_role n' = n_role n /\ n_id n' = n_id n /\
  vol n' = vol n /\
  n_pterm n' = (if fst (tick_write n) then n_term n else n_pterm n) /\
  n_pvote n' = (if fst (tick_write n) then n_vote n else n_pvote n).
Proof.
  cbn zeta. unfold persist. pose proof (tick_write_core n) as H. destruct (tick_write n) as [ok n1]. cbn [snd fst] in *.
  destruct H as (H1 & H2 & H3 & H4 & H5 & H6 & H7 & H8).
  destruct ok; cbn; repeat split; try congruence; rewrite <- H8; reflexivity.
Qed.

(* becomeFollower *)
Definition bf_pre (n : node) (leader : nid) (term : N) : node :=
  n <| n_role := Follower |> <| n_term := term |> <| n_leader := Some leader |>
    <| n_vote := if term =? n_term n then n_vote n else None |>.

Lemma become_follower_core now n leader term :
  same_core (become_follower now n leader term) (persist (bf_pre n leader term)).
Proof.
  unfold become_follower. fold (bf_pre n leader term).
  eapply same_core_trans; [apply sc_cancel|].
  eapply same_core_trans; [apply sc_new_opmanager|].
  eapply same_core_trans; [apply sc_notify|].
  apply sc_reset_snapshot_files.
Qed.

Lemma become_follower_fields now n leader term :
  let n' := become_follower now n leader term in
  n_term n' = term /\ n_vote n' = (if term =? n_term n then n_vote n else None) /\
  n_log n' = n_log n /\ n_role n' = Follower /\
  (n_pterm n' = term /\ n_pvote n' = n_vote n' \/ n_pterm n' = n_pterm n /\ n_pvote n' = n_pvote n).
Proof.
  cbn zeta. destruct (become_follower_core now n leader term) as [T V PT PV L R _ _ _ _].
  pose proof (persist_core (bf_pre n leader term)) as HP. cbn zeta in HP.
  destruct HP as (P1 & P2 & P3 & P4 & _ & _ & P5 & P6).
  rewrite T, V, PT, PV, L, R, P1, P2, P3, P4, P5, P6. unfold bf_pre. cbn.
  repeat split. destruct (fst (tick_write _)); [left|right]; split; reflexivity.
Qed.

Lemma vol_become_follower now n l t : vol (become_follower now n l t) = vol n.
Proof.
  destruct (become_follower_core now n l t) as [_ _ _ _ _ _ _ _ _ V]. rewrite V.
  pose proof (persist_core (bf_pre n l t)) as HP. cbn zeta in HP. destruct HP as (_ & _ & _ & _ & _ & HV & _).
  rewrite HV. reflexivity.
Qed.

Lemma log_become_follower now n l t : n_log (become_follower now n l t) = n_log n.
Proof. pose proof (become_follower_fields now n l t) as H. cbn zeta in H. tauto. Qed.
