(* Leader completeness (C07), one step: the entries of one term form one chain (clause lc_tt). *)
From Coq Require Import Classical.
From RaftV Require Import Cluster.World Cluster.Statements Proofs.Frame Proofs.RVSpec Proofs.AESpec Proofs.AELog Proofs.AEFull.
From RaftV Require Import Proofs.ConfNode Proofs.ConfStatic Proofs.ConfSticky.
From RaftV Require Import Proofs.Votes Proofs.VoteRecords Proofs.Names Proofs.ElectSpec.
From RaftV Require Import Proofs.ElectDefs Proofs.ElectBook Proofs.ElectWorld Proofs.ElectRun Proofs.ElectSafety.
From RaftV Require Import Proofs.LogDefs Proofs.LogSeg Proofs.LogUni Proofs.LogInv Proofs.LogAccept Proofs.LogFrame Proofs.NoSnap Proofs.TaePeer
                          Proofs.LogWorld Proofs.LogRun Proofs.LogMatching Proofs.StepCases Proofs.SortedTerms Proofs.ReachInd Proofs.ReqTerm
                          Proofs.LCDefs Proofs.LCHist Proofs.LCCore Proofs.LCStep Proofs.LCStep2 Proofs.LCCtx.
Open Scope N_scope.

Definition TTP (ej : entry) (s : seg) (i2 : N) : Prop :=
  (sg_base s < e_index ej -> holds s ej) /\
  (forall i, e_index ej <= i -> i <= i2 -> sg_base s <= i -> tget s i = Some (e_term ej)).

Section TT.
Variables (C : config) (w : world) (l : label).
Hypothesis HC : CTX C w l.
Let w' := step w l.
Let HCnd := cx_nd C w l HC.
Let Hst := cx_st C w l HC.
Let Hns := cx_ns C w l HC.
Let HF := cx_f C w l HC.
Let HF' := cx_f' C w l HC.
Let HA := f_all C w HF.
Let HA' := f_all C w' HF'.
Let HI := cx_i C w l HC.
Let HL := a_lm C w HA.
Let HX' := a_x C w' HA'.
Let HU := a_uni C w HA.
Let HU' := a_uni C w' HA'.
Let HS := f_srt C w HF.

(* a defined entry below a defined entry *)
Lemma eget_below s i i2 e2 : wf_seg s -> eget s i2 = Some e2 -> sg_base s < i -> i <= i2 -> exists e, eget s i = Some e.
Proof. intros _ E Hb Hi. destruct (eget_range _ _ _ E). apply eget_defined; lia. Qed.

Lemma tget_pos s i t : tget s i = Some t -> sg_base s < i -> exists e, eget s i = Some e /\ e_term e = t.
Proof. intros H Hb. destruct (tget_some _ _ _ H) as (_ & _ & He). apply He, Hb. Qed.

(* old entry, a segment that is a sub-segment of an old node log *)
Lemma TTP_sub ej s sm i2 :
  (forall i e, eget s i = Some e -> eget sm i = Some e) -> tget sm (sg_base s) = Some (sg_bterm s) -> sg_base sm = 0 ->
  wf_seg s -> 2 <= e_index ej -> e_index ej <= i2 -> tget s i2 = Some (e_term ej) ->
  (forall i2', e_index ej <= i2' -> tget sm i2' = Some (e_term ej) -> TTP ej sm i2') -> TTP ej s i2.
Proof.
  intros Hsub Hb Hb0 Hwf Hj Hi Ht HP.
  assert (Htm : tget sm i2 = Some (e_term ej)).
  { destruct (N.eq_dec i2 (sg_base s)) as [->|E]; [rewrite tget_base in Ht; rewrite Hb; exact Ht|].
    destruct (tget_pos _ _ _ Ht) as (e2 & E2 & Et2); [destruct (tget_some _ _ _ Ht); lia|].
    rewrite (tget_entry _ _ _ (Hsub _ _ E2)), Et2. reflexivity. }
  destruct (HP i2 Hi Htm) as [P1 P2]. split.
  - intros Hbj. assert (Hm : holds sm ej) by (apply P1; lia).
    destruct (tget_some _ _ _ Ht) as (_ & Htop & _).
    destruct (eget_defined s (e_index ej)) as (e & Ee); [exact Hbj|lia|]. unfold holds in *. rewrite (Hsub _ _ Ee) in Hm. congruence.
  - intros i Hi1 Hi2 Hbi. destruct (N.eq_dec i (sg_base s)) as [->|E].
    + rewrite tget_base. rewrite <- Hb. apply P2; lia.
    + destruct (tget_some _ _ _ Ht) as (_ & Htop & _).
      destruct (eget_defined s i) as (e & Ee); [lia|lia|]. rewrite (tget_entry _ _ _ Ee), <- (tget_entry _ _ _ (Hsub _ _ Ee)). apply P2; lia.
Qed.

Lemma tt_step ej s' i2 : is_entry w' ej -> is_seg w' s' -> e_index ej <= i2 -> tget s' i2 = Some (e_term ej) -> TTP ej s' i2.
Proof.
  intros He Hs Hi Ht.
  assert (Hj2 : 2 <= e_index ej) by (destruct He as (_ & _ & _ & H); exact H).
  destruct (entry_cases C HCnd w l Hst Hns HA ej He) as [Hold|Hnew].
  - (* an old entry *)
    assert (HP : forall s i2', is_seg w s -> e_index ej <= i2' -> tget s i2' = Some (e_term ej) -> TTP ej s i2').
    { intros s i2' Hs0 Hi0 Ht0. apply (lc_tt C w HI ej s i2' Hold Hs0 Hi0 Ht0). }
    destruct (seg_cases C HCnd w l Hst Hns HA s' Hs) as [Hso|n n' Hn Hn' Eid Hp -> HK|m k' q Hk' Eq Es Hm Hrole Htq Hd Hsub Hb ->].
    + apply HP; assumption.
    + assert (Hsn : is_seg w (seg_of_log (n_log n))) by (left; exists n; auto).
      destruct HK as [El|r e0 Er Er' Ei Et Erole Efr Ept Hlead Hi2|k q x F Hk Eq Ed -> Hterm (Hx1 & Hbx & F0 & F1 & F2 & F3 & F4 & F6 & F7)].
      * rewrite El in *. apply HP; assumption.
      * (* the leader appended one entry *)
        rewrite Er in Hsn. rewrite Er' in *.
        destruct (N.le_gt_cases i2 (N.of_nat (length r))) as [Hle|Hgt].
        -- rewrite tget_app_old in Ht by exact Hle. destruct (HP _ i2 Hsn Hi Ht) as [P1 P2]. split.
           ++ intros Hb. unfold holds. rewrite eget_app_old by lia. apply P1. exact Hb.
           ++ intros i A B D. rewrite tget_app_old by lia. apply P2; assumption.
        -- destruct (N.eq_dec i2 (N.of_nat (length r) + 1)) as [->|Hne].
           2:{ destruct (tget_some _ _ _ Ht) as (_ & Htop & _). rewrite top_log, app_length in Htop. cbn in Htop. lia. }
           assert (Ee0 : eget (seg_of_log (entry0 :: r ++ [e0])) (N.of_nat (length r) + 1) = Some e0) by apply eget_app_new.
           rewrite (tget_entry _ _ _ Ee0) in Ht. injection Ht as Ht.
           (* the creator of ej is this leader, whose persistent term was already the entry's term *)
           destruct Hold as (s0 & Hs0 & Hh0 & _). destruct (lm_src C w HL s0 _ ej Hs0 Hh0 Hj2) as (a0 & Ha0 & Hl0 & Hle0 & Hown0).
           assert (a0 = n).
           { apply HU; [exact Ha0|exact Hn|]. apply (lead_unique C w' (n_id a0) (n_id n) (e_term ej) n' n' HX' Hn' Hn').
             - eapply lead_persist; [apply (hCP C w l HA)|exact Hl0].
             - rewrite <- Ht, Et. exact Hlead. }
           subst a0. assert (Epn : n_pterm n = e_term ej) by lia. specialize (Hown0 Epn). rewrite Er in Hown0.
           destruct (eget_range _ _ _ Hown0) as [_ Hjr]. rewrite top_log in Hjr. split.
           ++ intros _. unfold holds. rewrite eget_app_old by exact Hjr. exact Hown0.
           ++ intros i A B D. destruct (N.eq_dec i (N.of_nat (length r) + 1)) as [->|Hni]; [rewrite (tget_entry _ _ _ Ee0), Ht; reflexivity|].
              rewrite tget_app_old by lia.
              destruct (eget_defined (seg_of_log (entry0 :: r)) i) as (ei & Eei); [cbn; lia|rewrite top_log; lia|].
              rewrite (tget_entry _ _ _ Eei). f_equal.
              pose proof (sr_seg w HS _ Hsn (e_index ej) i (e_term ej) (e_term ei) (tget_entry _ _ _ Hown0) (tget_entry _ _ _ Eei) A) as Hlo.
              assert (Hin : In ei (n_log n)) by (rewrite Er; right; apply (eget_in_log r i ei Eei)).
              pose proof (sr_node2 w HS n ei Hn Hin) as Hhi.
              assert (e_index ei = i) by (apply (eget_index _ _ _ (lm_wf C w HL _ Hsn) Eei)). lia.
      * (* the AppendEntries handler spliced the request into the log *)
        set (sl := seg_of_log (n_log n)) in *. set (sq := seg_of_req q) in *.
        set (s1 := seg_of_log (n_log (fst (h_append_entries (w_now w) n q)))) in *.
        assert (Hsq : is_seg w sq) by (right; exists k, q; auto).
        assert (Hwf1 : wf_seg s1) by (apply (lm_wf C w' (a_lm C w' HA')); left; exists (fst (h_append_entries (w_now w) n q)); auto).
        destruct (N.lt_ge_cases i2 x) as [Hlt|Hge].
        -- rewrite (F2 i2 Hlt) in Ht. destruct (HP sl i2 Hsn Hi Ht) as [P1 P2]. split.
           ++ intros _. unfold holds. rewrite F1 by lia. apply P1. cbn. lia.
           ++ intros i A B D. rewrite F2 by lia. apply P2; auto; cbn; lia.
        -- destruct (tget_pos _ _ _ Ht) as (e2 & E2 & Et2); [cbn; lia|].
           assert (Eq2 : eget sq i2 = Some e2) by (destruct (F3 i2 Hge) as [N0|E0]; [congruence|rewrite <- E0; exact E2]).
           assert (Htq : tget sq i2 = Some (e_term ej)) by (rewrite (tget_entry _ _ _ Eq2), Et2; reflexivity).
           destruct (HP sq i2 Hsq Hi Htq) as [Q1 Q2].
           (* the new log has an entry at x, hence the terms agree at x-1 *)
           destruct (eget_below s1 x i2 e2 Hwf1 E2) as (ex & Eex); [cbn; lia|exact Hge|].
           assert (Hpred : tget s1 (x - 1) = tget sq (x - 1)) by (apply F4; [lia|congruence]).
           assert (Hpl : tget sl (x - 1) = tget sq (x - 1)) by (rewrite <- Hpred; symmetry; apply F2; lia).
           (* the old log holds ej whenever ej lies below the cut *)
           assert (Hlow : e_index ej < x -> holds sl ej /\ forall i, e_index ej <= i -> i < x -> tget sl i = Some (e_term ej)).
           { intros Hjx.
             assert (Htx : tget sl (x - 1) = Some (e_term ej)).
             { rewrite Hpl. apply Q2; [lia|lia|cbn [sg_base sq seg_of_req] in *; lia]. }
             destruct (HP sl (x - 1) Hsn) as [P1 P2]; [lia|exact Htx|]. split; [apply P1; cbn; lia|].
             intros i A B. apply P2; [exact A|lia|cbn; lia]. }
           split.
           ++ intros _. unfold holds. destruct (N.lt_ge_cases (e_index ej) x) as [Hjx|Hjx].
              ** rewrite F1 by exact Hjx. apply Hlow, Hjx.
              ** destruct (eget_below s1 (e_index ej) i2 e2 Hwf1 E2) as (e & Ee); [cbn; lia|exact Hi|].
                 destruct (F3 _ Hjx) as [N0|E0]; [congruence|]. rewrite E0. apply Q1. cbn [sg_base sq seg_of_req] in *. lia.
           ++ intros i A B D. destruct (N.lt_ge_cases i x) as [Hix|Hix].
              ** rewrite F2 by exact Hix. apply Hlow; lia.
              ** destruct (eget_below s1 i i2 e2 Hwf1 E2) as (e & Ee); [cbn; lia|exact B|].
                 destruct (F3 _ Hix) as [N0|E0]; [congruence|]. rewrite (tget_entry _ _ _ Ee). rewrite E0 in Ee.
                 rewrite <- (tget_entry _ _ _ Ee). apply Q2; [exact A|exact B|cbn [sg_base sq seg_of_req] in *; lia].
    + (* a new request: a sub-segment of the sender's log *)
      assert (Hsm : is_seg w (seg_of_log (n_log m))) by (left; exists m; auto).
      apply (TTP_sub ej (seg_of_req q) (seg_of_log (n_log m)) i2); [exact Hsub|exact Hb|reflexivity| |exact Hj2|exact Hi|exact Ht|].
      * apply (lm_wf C w' (a_lm C w' HA')). right. exists k', q. auto.
      * intros i2' A B. apply HP; assumption.
  - (* a brand-new entry: only the appender's new log has its term at or beyond its index *)
    assert (Hno : forall s i, is_seg w s -> e_index ej <= i -> tget s i = Some (e_term ej) -> False).
    { intros s i A B D. apply (newe_above C w l HA HA' HI (f_rq C w HF) ej s i Hnew A B D). }
    pose proof Hnew as (n0 & n0' & r0 & Hn0 & Hn0' & Eid0 & Er0 & Er0' & Ei0 & Et0 & Erole0 & Efr0 & Ept0 & Hp0 & Hl0 & _).
    destruct (seg_cases C HCnd w l Hst Hns HA s' Hs) as [Hso|n n' Hn Hn' Eid Hp -> HK|m k' q Hk' Eq Es Hm Hrole Htq Hd Hsub Hb ->].
    + destruct (Hno s' i2 Hso Hi Ht).
    + assert (Hsn : is_seg w (seg_of_log (n_log n))) by (left; exists n; auto).
      destruct HK as [El|r e0 Er Er' Ei Et Erole Efr Ept Hlead Hi2|k q x F Hk Eq Ed -> Hterm (Hx1 & Hbx & F0 & F1 & F2 & F3 & F4 & F6 & F7)].
      * rewrite El in Ht. destruct (Hno _ i2 Hsn Hi Ht).
      * rewrite Er in Hsn. rewrite Er' in *.
        destruct (N.le_gt_cases i2 (N.of_nat (length r))) as [Hle|Hgt].
        -- rewrite tget_app_old in Ht by exact Hle. destruct (Hno _ i2 Hsn Hi Ht).
        -- destruct (N.eq_dec i2 (N.of_nat (length r) + 1)) as [->|Hne].
           2:{ destruct (tget_some _ _ _ Ht) as (_ & Htop & _). rewrite top_log, app_length in Htop. cbn in Htop. lia. }
           assert (Ee0 : eget (seg_of_log (entry0 :: r ++ [e0])) (N.of_nat (length r) + 1) = Some e0) by apply eget_app_new.
           rewrite (tget_entry _ _ _ Ee0) in Ht. injection Ht as Ht.
           (* both appenders lead the same term: the same node, hence the same entry *)
           assert (n' = n0').
           { apply HU'; [exact Hn'|exact Hn0'|]. rewrite Eid, Eid0.
             apply (lead_unique C w' (n_id n) (n_id n0) (e_term ej) n' n' HX' Hn' Hn'); [rewrite <- Ht, Et; exact Hlead|rewrite Et0; exact Hl0]. }
           subst n0'. assert (n = n0) by (apply HU; [exact Hn|exact Hn0|congruence]). subst n0.
           rewrite Er in Er0. injection Er0 as <-. rewrite Er' in Er0'. injection Er0' as Er0'.
           apply app_inj_tail in Er0'. destruct Er0' as [_ <-].
           split; [intros _; unfold holds; rewrite Ei; exact Ee0|].
           intros i A B D. assert (i = N.of_nat (length r) + 1) by lia. subst i. rewrite (tget_entry _ _ _ Ee0). congruence.
      * set (sl := seg_of_log (n_log n)) in *. set (sq := seg_of_req q) in *.
        assert (Hsq : is_seg w sq) by (right; exists k, q; auto).
        destruct (N.lt_ge_cases i2 x) as [Hlt|Hge].
        -- rewrite (F2 i2 Hlt) in Ht. destruct (Hno sl i2 Hsn Hi Ht).
        -- destruct (tget_pos _ _ _ Ht) as (e2 & E2 & Et2); [cbn; lia|].
           assert (Eq2 : eget sq i2 = Some e2) by (destruct (F3 i2 Hge) as [N0|E0]; [congruence|rewrite <- E0; exact E2]).
           destruct (Hno sq i2 Hsq Hi). rewrite (tget_entry _ _ _ Eq2), Et2. reflexivity.
    + assert (Hsm : is_seg w (seg_of_log (n_log m))) by (left; exists m; auto).
      exfalso. destruct (N.eq_dec i2 (ae_prev_index q)) as [->|E].
      * change (ae_prev_index q) with (sg_base (seg_of_req q)) in Ht. rewrite tget_base in Ht. cbn [sg_bterm seg_of_req] in Ht.
        apply (Hno _ (ae_prev_index q) Hsm Hi). rewrite Hb. exact Ht.
      * destruct (tget_pos _ _ _ Ht) as (e2 & E2 & Et2); [destruct (tget_some _ _ _ Ht) as (A & _); cbn [sg_base seg_of_req] in *; lia|].
        apply (Hno _ i2 Hsm Hi). rewrite (tget_entry _ _ _ (Hsub _ _ E2)), Et2. reflexivity.
Qed.

End TT.
