(* C04/C03: an operation acknowledged to a client (a future answered with FOp index term payload) was applied,
   hence lies on the chain of an acknowledged entry: from then on it is on a majority's disk and every
   application of that index, anywhere, at any time, carries its term and bytes. *)
From Coq Require Import Classical.
From RaftV Require Import Cluster.World Cluster.Statements Proofs.Frame Proofs.RVSpec Proofs.AESpec.
From RaftV Require Import Proofs.ConfNode Proofs.ConfStatic Proofs.Votes Proofs.VoteRecords Proofs.Names.
From RaftV Require Import Proofs.ElectDefs Proofs.ElectBook Proofs.ElectWorld Proofs.ElectRun Proofs.ElectSafety.
From RaftV Require Import Proofs.LogDefs Proofs.LogSeg Proofs.LogUni Proofs.LogInv Proofs.NoSnap Proofs.TaePeer Proofs.LogRun Proofs.LogMatching
                          Proofs.StepCases Proofs.SortedTerms Proofs.ReachInd Proofs.ReqTerm Proofs.TermLe Proofs.MatchAck Proofs.Tails
                          Proofs.LCDefs Proofs.LCHist Proofs.LCCore Proofs.LCStep Proofs.LCStep2 Proofs.LCCtx Proofs.LCtt Proofs.LCClauses Proofs.LCReach
                          Proofs.LCPersist Proofs.LCChain Proofs.LCReq Proofs.LCQuorum Proofs.FollowerKeys Proofs.CommitSteps Proofs.LCBack Proofs.LCFinal
                          Proofs.ResultSteps.
Open Scope N_scope.

(* (i, t, p) is the operation on the chain of an acknowledged entry at index i *)
Definition on_chain (C : config) (w : world) (i t p : N) : Prop :=
  2 <= i /\ exists ej ec, is_entry w ej /\ committed C (w_calls w) ej /\ i <= e_index ej /\ chain_at w ej i ec /\ e_term ec = t /\ e_kind ec = KOp p.

(* some client future was answered with the success result of a replicated operation *)
Definition acked_op (w : world) (i t p : N) : Prop :=
  exists n fid r, In n (w_nodes w) /\ In (fid, FOp i t p r) (n_results n).

Definition RSI (C : config) (w : world) : Prop := forall i t p, acked_op w i t p -> on_chain C w i t p.

Lemma step_RSI C w l : CTX C w l -> CBI C (step w l) -> RSI C w -> RSI C (step w l).
Proof.
  intros HC HB' HR i t p (n' & fid & r & Hn' & Hin).
  pose proof (cx_f C w l HC) as HF. pose proof (f_all C w HF) as HA.
  destruct (step_results C w l (cx_nd C w l HC) (cx_st C w l HC) (cx_ns C w l HC) HA n' Hn') as (n & Hn & Eid & Hres).
  destruct (Hres fid i t p r Hin) as [Hold|Happ].
  - destruct (HR i t p) as (Hi2 & ej & ec & He & Hc & Hi & Hch & Et & Ek); [exists n, fid, r; auto|].
    split; [exact Hi2|]. exists ej, ec.
    pose proof (committed_mono C w l HC ej Hc) as Hc'. pose proof (committed_not_dead C (step w l) ej Hc') as Hnd'.
    split; [apply (entry_persists C w l HC ej He Hnd')|]. split; [exact Hc'|]. split; [exact Hi|].
    split; [apply (chain_persists C w l HC ej i ec He Hnd'); try assumption; lia|]. auto.
  - apply (cb_app C (step w l) HB' n' i t p Hn' Happ).
Qed.

Theorem RSI_reach ids boot et ld ls : static ls = true -> nosnap ls = true ->
  RSI (bootconf boot) (run (init_world ids boot et ld) ls).
Proof.
  induction ls as [|l ls IH] using rev_ind; intros Hs Hn.
  - intros i t p (n & fid & r & Hn0 & Hin). cbn in Hn0. rewrite (init_results ids boot et ld n Hn0) in Hin. destruct Hin.
  - destruct (static_snoc _ _ Hs) as [S1 S2]. destruct (nosnap_snoc _ _ Hn) as [N1 N2].
    destruct (ctx_reach ids boot et ld ls l Hs Hn) as [HC E]. rewrite E. apply step_RSI; auto.
    rewrite <- E. apply CBI_reach; assumption.
Qed.

(* ---- what being on the chain of an acknowledged entry gives, along an execution ---- *)
Section Exec.
Variables (ids boot : list nid) (et ld : N) (ls1 ls2 : list label).
Hypothesis Hs : static (ls1 ++ ls2) = true.
Hypothesis Hn : nosnap (ls1 ++ ls2) = true.
Let C := bootconf boot.
Let w1 := run (init_world ids boot et ld) ls1.
Let w2 := run w1 ls2.

Lemma on_chain_run i t p : on_chain C w1 i t p -> on_chain C w2 i t p.
Proof.
  intros (Hi2 & ej & ec & He & Hc & Hi & Hch & Et & Ek).
  destruct (chain_run ids boot et ld ls1 ls2 ej i ec Hs Hn He Hc ltac:(lia) Hi Hch) as (He' & Hc' & Hch').
  split; [exact Hi2|]. exists ej, ec. auto 10.
Qed.

Lemma on_chain_agree i t p t' p' : on_chain C w2 i t p -> on_chain C w2 i t' p' -> t = t' /\ p = p'.
Proof.
  intros (Hi2 & ej1 & ec1 & He1 & Hc1 & Hi1 & Hch1 & Et1 & Ek1) (_ & ej2 & ec2 & He2 & Hc2 & Hi2' & Hch2 & Et2 & Ek2).
  unfold w2, w1 in *. rewrite run_app in *.
  pose proof (facts_reach ids boot et ld _ Hs Hn) as HF2. pose proof (LCI_reach ids boot et ld _ Hs Hn) as HI2.
  assert (ec1 = ec2).
  { apply (chains_agree _ _ HF2 HI2 ej1 ej2 i ec1 ec2); auto using committed_not_dead. lia. }
  subst ec2. split; [congruence|]. rewrite Ek1 in Ek2. injection Ek2 as ->. reflexivity.
Qed.

Lemma on_chain_majority i t p : on_chain C w2 i t p ->
  exists e V, e_index e = i /\ e_term e = t /\ e_kind e = KOp p /\
    NoDup V /\ incl V (voters C) /\ (length (voters C) < 2 * length V)%nat /\
    forall nv, In nv (w_nodes w2) -> In (n_id nv) V -> In e (n_log nv).
Proof.
  intros (Hi2 & ej & ec & He' & Hc' & Hi & Hch' & Et & Ek).
  unfold w2, w1 in *. rewrite run_app in *.
  pose proof (facts_reach ids boot et ld _ Hs Hn) as HF2. pose proof (LCI_reach ids boot et ld _ Hs Hn) as HI2.
  pose proof (f_all _ _ HF2) as HA2.
  assert (Eidx : e_index ec = i).
  { destruct (live_holder _ _ HF2 HI2 ej He' (committed_not_dead _ _ ej Hc')) as (a & Ha & Hh).
    assert (Hsa : is_seg (run (init_world ids boot et ld) (ls1 ++ ls2)) (seg_of_log (n_log a))) by (left; exists a; auto).
    apply (eget_index _ _ _ (lm_wf _ _ (a_lm _ _ HA2) _ Hsa) (Hch' a Ha Hh)). }
  pose proof Hc' as (V & NV & IV & LV & HV). exists ec, V. repeat split; auto.
  intros nv Hnv Hid. pose proof (lc_a _ _ HI2 ej nv He' (committed_not_dead _ _ ej Hc') Hnv (HV _ Hid)) as Hh.
  pose proof (Hch' nv Hnv Hh) as E.
  destruct (ns_nodes _ (a_ns _ _ HA2) nv Hnv) as (_ & _ & _ & _ & _ & (r & Er)). rewrite Er in *. right. apply (eget_in_log r _ ec E).
Qed.

Lemma acked_on_chain i t p : acked_op w1 i t p -> on_chain C w1 i t p.
Proof. apply (RSI_reach ids boot et ld ls1 (static_app1 _ _ Hs) (nosnap_app1 _ _ Hn)). Qed.

Lemma applied_on_chain2 i t p : applied_in w2 i t p -> on_chain C w2 i t p.
Proof.
  intros (n & Hn0 & Hin). unfold w2, w1 in *. rewrite run_app in *.
  apply (cb_app _ _ (CBI_reach ids boot et ld _ Hs Hn) n i t p Hn0 Hin).
Qed.

(* an acknowledged operation is, from then on, in the persistent log of a majority *)
Theorem acknowledged_durable_on_majority i t p : acked_op w1 i t p ->
  exists e V, e_index e = i /\ e_term e = t /\ e_kind e = KOp p /\
    NoDup V /\ incl V (voters C) /\ (length (voters C) < 2 * length V)%nat /\
    forall nv, In nv (w_nodes w2) -> In (n_id nv) V -> In e (n_log nv).
Proof. intros H. apply on_chain_majority, on_chain_run, acked_on_chain, H. Qed.

(* every later application of that index, on any node, is that operation *)
Theorem acknowledged_then_applied i t p t' p' : acked_op w1 i t p -> applied_in w2 i t' p' -> t = t' /\ p = p'.
Proof.
  intros H1 H2. apply (on_chain_agree i t p t' p'); [apply on_chain_run, acked_on_chain, H1|apply applied_on_chain2, H2].
Qed.

End Exec.

Print Assumptions acknowledged_durable_on_majority.
Print Assumptions acknowledged_then_applied.
