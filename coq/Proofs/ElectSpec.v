(* How a node becomes leader (C02, C07, node level, every state and reply): only by processing the reply to a REAL
   vote request while it is a candidate and the votes counted for that election (its own and the granted
   replies, this one included) are a majority of the voters of its configuration - or, in election(), as the
   only voter of its configuration, after taking a new term. *)
From RaftV Require Import Node.Leader.
From RaftV Require Import Proofs.Frame Proofs.AESpec Proofs.Votes.
Open Scope N_scope.

Lemma role_tick n : n_role (snd (tick_write n)) = n_role n.
Proof. pose proof (tick_write_core n) as H. cbn zeta in H. tauto. Qed.

Lemma role_append es : forall n, n_role (append_entries n es) = n_role n.
Proof.
  induction es as [|e es IH]; intros n; cbn [append_entries]; [reflexivity|].
  pose proof (role_tick n) as H. destruct (tick_write n) as [ok n1]. cbn [snd] in H.
  destruct ok; [rewrite IH; exact H|exact H].
Qed.

Lemma role_send_ae_to_peers now m : n_role (send_ae_to_peers now m) = n_role m.
Proof.
  unfold send_ae_to_peers.
  set (m0 := m <| n_hb_rounds ::= N.succ |>).
  assert (H0 : n_role m0 = n_role m) by reflexivity. clearbody m0.
  set (m1 := if is_single (conf_of m) (n_id m) then _ else m0).
  assert (H1 : n_role m1 = n_role m0).
  { subst m1. destruct (is_single (conf_of m) (n_id m)); [|reflexivity].
    unfold try_apply_ro, signal_ro. cbn [n_role set].
    destruct (n_commit m0 <? last_index (n_log m0)); reflexivity. }
  clearbody m1. unfold new_round. cbn. congruence.
Qed.

Lemma role_become_leader now n : n_role (become_leader now n) = Leader.
Proof.
  unfold become_leader. rewrite role_send_ae_to_peers, role_append.
  rewrite (sc_role _ _ (sc_reset_snapshot_files _)). reflexivity.
Qed.

Theorem rv_reply_becomes_leader now n rid peer pv q p :
  n_role n <> Leader -> n_role (l_rv_reply now n rid peer pv q p) = Leader ->
  pv = false /\ n_term n <= rv_term q /\
  let n1 := if rvr_granted p then bump_round n rid else n in
  has_quorum (conf_of n1) (round_count n1 rid) = true /\
  (n_role n = Candidate \/ n_role n = PreCandidate).
Proof.
  intros HN. unfold l_rv_reply.
  destruct (role_eqb (n_role n) Shutdown); [intros H; rewrite H in HN; contradiction|].
  destruct (N.ltb_spec (rv_term q) (n_term n)) as [LT|GE]; [intros H; rewrite H in HN; contradiction|].
  set (n1 := if rvr_granted p then bump_round n rid else n).
  assert (R1 : n_role n1 = n_role n) by (subst n1; destruct (rvr_granted p); reflexivity).
  destruct (rv_term q <? rvr_term p).
  { intros H. pose proof (become_follower_fields now n1 peer (rvr_term p)) as HF. cbn zeta in HF.
    destruct HF as (_ & _ & _ & HR & _). rewrite HR in H. discriminate. }
  set (quorum := has_quorum (conf_of n1) (round_count n1 rid)).
  set (n2 := if quorum && role_eqb (n_role n1) PreCandidate then signal_election (n1 <| n_role := Candidate |>) else n1).
  assert (R2 : n_role n2 = Candidate \/ n_role n2 = n_role n).
  { subst n2. destruct (quorum && role_eqb (n_role n1) PreCandidate); [left; reflexivity|right; exact R1]. }
  destruct (negb pv && quorum && role_eqb (n_role n2) Candidate) eqn:E.
  - intros _. apply andb_prop in E. destruct E as [E E3]. apply andb_prop in E. destruct E as [E1 E2].
    split; [destruct pv; [discriminate|reflexivity]|]. split; [exact GE|]. cbn zeta. fold n1. split; [exact E2|].
    subst n2. destruct (role_eqb (n_role n1) PreCandidate) eqn:EP.
    + right. rewrite <- R1. destruct (n_role n1); try discriminate; reflexivity.
    + rewrite E2 in E3. cbn [andb] in E3. left. rewrite <- R1. destruct (n_role n1); try discriminate; reflexivity.
  - intros H. destruct R2 as [R2|R2]; rewrite R2 in H; [discriminate|]. rewrite H in HN. contradiction.
Qed.

(* election(): a node becomes leader here only as the single voter of its configuration, and then in a term of its
   own (fix D21): the term it leads is exactly one above the term it had *)
Theorem election_becomes_leader now n :
  n_role n <> Leader -> n_role (l_election now n) = Leader ->
  is_single (conf_of n) (n_id n) = true /\ n_term (l_election now n) = n_term n + 1.
Proof.
  intros HN. unfold l_election.
  set (n0 := n <| n_cv ::= fun c => c <| cv_election := false |> |>).
  assert (P0 : n_role n0 = n_role n /\ n_term n0 = n_term n /\ conf_of n0 = conf_of n /\ n_id n0 = n_id n) by (repeat split).
  clearbody n0. destruct P0 as (R0 & T0 & C0 & I0).
  destruct (role_eqb (n_role n0) Leader || role_eqb (n_role n0) Shutdown || negb (is_voter (conf_of n0) (n_id n0))
            || recent_contact now n0) eqn:G; [intros H; rewrite R0 in H; rewrite H in HN; contradiction|].
  apply Bool.orb_false_iff in G. destruct G as [G _]. apply Bool.orb_false_iff in G. destruct G as [G _].
  apply Bool.orb_false_iff in G. destruct G as [_ GS].
  set (n1 := if role_eqb (n_role n0) Follower then n0 <| n_role := PreCandidate |> else n0).
  assert (P1 : (n_role n1 = PreCandidate \/ n_role n1 = Candidate) /\ n_term n1 = n_term n /\ conf_of n1 = conf_of n /\ n_id n1 = n_id n).
  { subst n1. destruct (n_role n0) eqn:ER; cbn; repeat split; try assumption; auto; try discriminate.
    rewrite <- R0 in HN. contradiction. }
  clearbody n1. destruct P1 as (R1 & T1 & C1 & I1).
  set (n2 := if role_eqb (n_role n1) Candidate then persist (n1 <| n_term ::= N.succ |> <| n_vote := Some (n_id n1) |>) else n1).
  assert (P2 : n_role n2 = n_role n1 /\ conf_of n2 = conf_of n /\ n_id n2 = n_id n /\
               (n_role n1 = Candidate /\ n_term n2 = n_term n + 1 \/ n_role n1 <> Candidate /\ n_term n2 = n_term n)).
  { subst n2. destruct (role_eqb (n_role n1) Candidate) eqn:EC.
    - pose proof (persist_core (n1 <| n_term ::= N.succ |> <| n_vote := Some (n_id n1) |>)) as HP. cbn zeta in HP.
      destruct HP as (PT & PV & PL & PR & PI & PVol & _).
      split; [rewrite PR; reflexivity|]. split.
      + unfold conf_of. unfold vol in PVol. injection PVol as _ _ _ _ _ _ _ PC _. rewrite PC. exact C1.
      + split; [rewrite PI; exact I1|]. left. split; [destruct (n_role n1); try discriminate; reflexivity|].
        rewrite PT. cbn. lia.
    - split; [reflexivity|]. split; [exact C1|]. split; [exact I1|]. right.
      split; [intros E; rewrite E in EC; discriminate|exact T1]. }
  clearbody n2. destruct P2 as (R2 & C2 & I2 & T2).
  unfold send_rv_to_peers. rewrite C2, I2.
  destruct (is_single (conf_of n) (n_id n)) eqn:ES.
  - intros _. split; [reflexivity|].
    rewrite (q_term _ _ (Votes.Q_become_leader now _)).
    destruct (role_eqb (n_role n2) PreCandidate) eqn:EP.
    + pose proof (persist_core (n2 <| n_role := Candidate |> <| n_term := N.succ (n_term (n2 <| n_role := Candidate |>)) |>
                                 <| n_vote := Some (n_id (n2 <| n_role := Candidate |>)) |>)) as HP.
      cbn zeta in HP. destruct HP as (PT & _). rewrite PT. cbn.
      destruct T2 as [[E _]|[_ E]]; [|rewrite E; lia].
      rewrite R2, E in EP. discriminate.
    + destruct T2 as [[_ E]|[NE E]]; [exact E|].
      exfalso. rewrite R2 in EP. destruct R1 as [R1|R1]; [rewrite R1 in EP; discriminate|contradiction].
  - unfold new_round. cbn. intros H. rewrite R2 in H. destruct R1 as [R1|R1]; rewrite R1 in H; discriminate.
Qed.
