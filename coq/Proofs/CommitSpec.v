(* commitLoop, for every node state (C04, C07): the commit index of a leader only moves forward, and only to
   an entry of the leader's own term whose index a majority of the voters of its configuration have
   acknowledged (matchIndex), the leader counting itself only if it is a voter. *)
From RaftV Require Import Node.Leader.
From RaftV Require Import Proofs.Frame.
Open Scope N_scope.

Lemma commit_scan_spec n es : forall c,
  let c' := commit_scan n es c in
  c <= c' /\
  (c' = c \/ exists e, In e es /\ e_index e = c' /\ e_term e = n_term n /\
                        has_quorum (conf_of n) (count_matches n (e_index e)) = true).
Proof.
  induction es as [|e es IH]; intros c; cbn [commit_scan]; [split; [lia|left; reflexivity]|].
  set (c1 := if (c <? e_index e) && (e_term e =? n_term n) && has_quorum (conf_of n) (count_matches n (e_index e))
             then e_index e else c).
  assert (H1 : c <= c1 /\ (c1 = c \/ (c1 = e_index e /\ e_term e = n_term n /\
                                      has_quorum (conf_of n) (count_matches n (e_index e)) = true))).
  { subst c1. destruct (N.ltb_spec c (e_index e)) as [L|L]; cbn [andb]; [|split; [lia|left; reflexivity]].
    destruct (N.eqb_spec (e_term e) (n_term n)) as [T|T]; cbn [andb]; [|split; [lia|left; reflexivity]].
    destruct (has_quorum (conf_of n) (count_matches n (e_index e))) eqn:Q; [|split; [lia|left; reflexivity]].
    split; [lia|right; auto]. }
  clearbody c1. destruct H1 as [L1 H1]. destruct (IH c1) as [L2 H2]. cbn zeta in L2, H2.
  split; [lia|].
  destruct H2 as [E2|(e' & I' & H')].
  - rewrite E2. destruct H1 as [E1|(E1 & T & Q)]; [left; exact E1|].
    right. exists e. split; [left; reflexivity|]. rewrite E1. auto.
  - right. exists e'. split; [right; exact I'|exact H'].
Qed.

Lemma log_from_in l lii from e : In e (log_from l lii from) -> In e l.
Proof.
  unfold log_from. destruct (_ && _); [|intros []].
  generalize (N.to_nat (from - first_index l)). intros k. revert l.
  induction k as [|k IH]; intros l0 H; [exact H|].
  destruct l0 as [|x l0]; [destruct H|]. right. apply IH. exact H.
Qed.

Lemma commit_send_ae_to_peers now m : n_commit (send_ae_to_peers now m) = n_commit m.
Proof.
  unfold send_ae_to_peers.
  set (m0 := m <| n_hb_rounds ::= N.succ |>).
  assert (H0 : n_commit m0 = n_commit m) by reflexivity. clearbody m0.
  set (m1 := if is_single (conf_of m) (n_id m) then _ else m0).
  assert (H1 : n_commit m1 = n_commit m0).
  { subst m1. destruct (is_single (conf_of m) (n_id m)); [|reflexivity].
    unfold try_apply_ro, signal_ro. cbn [n_commit set].
    destruct (n_commit m0 <? last_index (n_log m0)); reflexivity. }
  clearbody m1. unfold new_round. cbn. congruence.
Qed.

Theorem lp_commit_spec now n :
  let n' := lp_commit now n in
  n_commit n <= n_commit n' /\
  (n_commit n < n_commit n' ->
   n_role n = Leader /\
   exists e, In e (n_log n) /\ e_index e = n_commit n' /\ e_term e = n_term n /\
             has_quorum (conf_of n) (count_matches n (e_index e)) = true).
Proof.
  cbn zeta. unfold lp_commit.
  set (n0 := n <| n_cv ::= fun c => c <| cv_commit := false |> |>).
  assert (P : n_commit n0 = n_commit n /\ n_role n0 = n_role n /\ n_log n0 = n_log n /\ n_term n0 = n_term n
              /\ conf_of n0 = conf_of n /\ forall i, count_matches n0 i = count_matches n i) by (repeat split).
  clearbody n0. destruct P as (PC & PR & PL & PT & PF & PM).
  destruct (role_eqb (n_role n0) Leader) eqn:ER; cbn [negb]; [|rewrite PC; split; [lia|intros H; lia]].
  set (es := log_from (n_log n0) (first_index (n_log n0)) (n_commit n0 + 1)).
  destruct (commit_scan_spec n0 es (n_commit n0)) as [L H]. cbn zeta in L, H.
  set (c := commit_scan n0 es (n_commit n0)) in *. clearbody c.
  destruct (N.ltb_spec (n_commit n0) c) as [LT|GE].
  - rewrite commit_send_ae_to_peers. cbn [n_commit signal_apply set]. rewrite <- PC.
    split; [lia|]. intros _.
    split; [rewrite <- PR; destruct (n_role n0); try discriminate; reflexivity|].
    destruct H as [E|(e & I & E & T & Q)]; [lia|].
    exists e. subst es. apply log_from_in in I. rewrite <- PL, <- PT, <- PF, <- PM. auto.
  - rewrite PC. split; [lia|intros H'; lia].
Qed.

(* ---------------- applyLoop: one iteration (C01, C03, C10) ---------------- *)
From RaftV Require Import Proofs.AESpec Proofs.SnapSpec Proofs.ReadSpec.

(* state machine, apply history and applied index through configuration changes and step-downs *)
Definition fa (n : node) := (n_fsm n, n_applies n, n_applied n).

Lemma fa_vol a b : vol a = vol b -> fa a = fa b.
Proof. unfold vol, fa. intros H. injection H as _ H2 _ _ _ H6 H7 _ _. congruence. Qed.

Lemma fa_stepdown now n : fa (stepdown now n) = fa n.
Proof.
  unfold stepdown.
  set (a := n <| n_role := Follower |>).
  assert (Ha : fa a = fa n) by reflexivity. clearbody a.
  rewrite (fa_vol _ _ (sc_vol _ _ (sc_cancel _))), (fa_vol _ _ (sc_vol _ _ (sc_new_opmanager now _))),
          (fa_vol _ _ (sc_vol _ _ (sc_notify _))).
  exact Ha.
Qed.

Lemma fa_next_configuration now n c : fa (next_configuration now n c) = fa n.
Proof.
  unfold next_configuration. destruct c as [nx|]; [|unfold fail; destruct (n_out n); reflexivity].
  set (n1 := if is_member nx (n_id n) then n else _).
  assert (H : fa n1 = fa n).
  { subst n1. destruct (is_member nx (n_id n)); [reflexivity|].
    transitivity (fa (if role_eqb (n_role n) Leader then stepdown now n else n)); [reflexivity|].
    destruct (role_eqb (n_role n) Leader); [apply fa_stepdown|reflexivity]. }
  clearbody n1.
  match goal with |- fa (fold_left ?f ?l ?n2 <| n_conf := ?c |>) = _ =>
    change (fa (fold_left f l n2) = fa n); rewrite (proj_new_followers fa 0 l); [exact H|reflexivity] end.
Qed.

Lemma fa_apply_configuration now n c : fa (apply_configuration now n c) = fa n.
Proof.
  unfold apply_configuration. destruct (n_cconf n) as [cc|].
  - destruct (c_index c <=? c_index cc); [reflexivity|].
    transitivity (fa (next_configuration now n (Some c))); [reflexivity|apply fa_next_configuration].
  - transitivity (fa (next_configuration now n (Some c))); [reflexivity|apply fa_next_configuration].
Qed.

Lemma fa_respond n f r : fa (respond n f r) = fa n.
Proof. unfold respond. destruct (n_frozen n); [reflexivity|]. destruct (existsb _ _); reflexivity. Qed.

(* One iteration of the apply loop, for every node state: the applied index advances by exactly one; the state
   machine receives exactly the payload of the log entry at that index - nothing for a no-op or configuration
   entry - and the apply history records that entry's own index, term and payload. *)
Theorem lp_apply_one_spec now n e :
  log_get (n_log n) (n_applied n + 1) = Some e ->
  let n' := lp_apply_one now n in
  n_applied n' = n_applied n + 1 /\
  match e_kind e with
  | KOp p => n_fsm n' = n_fsm n ++ [p] /\ n_applies n' = n_applies n ++ [(e_index e, e_term e, p)]
  | _ => n_fsm n' = n_fsm n /\ n_applies n' = n_applies n
  end.
Proof.
  intros HL. cbn zeta. unfold lp_apply_one. rewrite HL.
  set (n1 := match e_kind e with KNoop => n | KConf c => _ | KOp p => _ end).
  assert (H1 : n_applied n1 = n_applied n /\
               match e_kind e with
               | KOp p => n_fsm n1 = n_fsm n ++ [p] /\ n_applies n1 = n_applies n ++ [(e_index e, e_term e, p)]
               | _ => n_fsm n1 = n_fsm n /\ n_applies n1 = n_applies n
               end).
  { subst n1. destruct (e_kind e) as [|p|c].
    - auto.
    - set (m := n <| n_fsm := n_fsm n ++ [p] |> <| n_applies ::= fun l => l ++ [(e_index e, e_term e, p)] |>).
      assert (Hm : fa m = (n_fsm n ++ [p], n_applies n ++ [(e_index e, e_term e, p)], n_applied n)) by reflexivity.
      clearbody m.
      destruct (lookup (e_index e) (n_pending m)) as [fid|].
      + pose proof (fa_respond (m <| n_pending ::= remove_key (e_index e) |>) fid
                      (FOp (e_index e) (e_term e) p (N.of_nat (length (n_fsm n ++ [p]))))) as HR.
        change (fa (m <| n_pending ::= remove_key (e_index e) |>)) with (fa m) in HR. rewrite Hm in HR.
        unfold fa in HR. injection HR as A B C. auto.
      + unfold fa in Hm. injection Hm as A B C. auto.
    - pose proof (fa_apply_configuration now n c) as HF.
      destruct (n_cfg_fid (apply_configuration now n c)) as [f|].
      + assert (HR : fa (respond (apply_configuration now n c) f (FConf (conf_of (apply_configuration now n c))) <| n_cfg_fid := None |>)
                     = fa (apply_configuration now n c)).
        { transitivity (fa (respond (apply_configuration now n c) f (FConf (conf_of (apply_configuration now n c)))));
            [reflexivity|apply fa_respond]. }
        rewrite HF in HR. unfold fa in HR. injection HR as A B C. auto.
      + unfold fa in HF. injection HF as A B C. auto. }
  clearbody n1. destruct H1 as [A1 H1].
  set (n2 := n1 <| n_applied ::= N.succ |>).
  assert (H2 : n_applied n2 = n_applied n + 1 /\ n_fsm n2 = n_fsm n1 /\ n_applies n2 = n_applies n1).
  { subst n2. cbn. rewrite A1. repeat split. lia. }
  clearbody n2. destruct H2 as (A2 & F2 & P2).
  assert (H3 : forall m : node, m = (if need_snapshot n2 then signal_snapshot n2 else n2) ->
               n_applied m = n_applied n2 /\ n_fsm m = n_fsm n2 /\ n_applies m = n_applies n2).
  { intros m ->. destruct (need_snapshot n2); repeat split. }
  destruct (H3 _ eq_refl) as (A3 & F3 & P3). rewrite A3, F3, P3, A2, F2, P2.
  split; [reflexivity|]. exact H1.
Qed.

(* C03: applying an operation entry answers at most one future - the one registered for that index - and the
   answer carries the entry's own index, term and payload and the state machine's new state *)
Theorem lp_apply_one_results now n e p x :
  log_get (n_log n) (n_applied n + 1) = Some e -> e_kind e = KOp p ->
  In x (n_results (lp_apply_one now n)) ->
  In x (n_results n) \/
  exists fid, lookup (e_index e) (n_pending n) = Some fid /\
              x = (fid, FOp (e_index e) (e_term e) p (N.of_nat (length (n_fsm n ++ [p])))).
Proof.
  intros HL HK. unfold lp_apply_one. rewrite HL, HK.
  set (m := n <| n_fsm := n_fsm n ++ [p] |> <| n_applies ::= fun l => l ++ [(e_index e, e_term e, p)] |>).
  assert (Hm : n_results m = n_results n /\ n_pending m = n_pending n) by (split; reflexivity).
  clearbody m. destruct Hm as [RM PM]. rewrite PM.
  set (n1 := match lookup (e_index e) (n_pending n) with Some fid => _ | None => m end).
  assert (H1 : forall y, In y (n_results n1) -> In y (n_results n) \/
             exists fid, lookup (e_index e) (n_pending n) = Some fid /\
                         y = (fid, FOp (e_index e) (e_term e) p (N.of_nat (length (n_fsm n ++ [p]))))).
  { subst n1. destruct (lookup (e_index e) (n_pending n)) as [fid|]; intros y Hy.
    - apply respond_results in Hy. destruct Hy as [Hy|Hy].
      + left. cbn in Hy. rewrite RM in Hy. exact Hy.
      + right. exists fid. auto.
    - left. rewrite RM in Hy. exact Hy. }
  clearbody n1.
  set (n2 := n1 <| n_applied ::= N.succ |>).
  assert (R2 : n_results n2 = n_results n1) by reflexivity. clearbody n2.
  intros Hx. apply H1. rewrite <- R2. destruct (need_snapshot n2); exact Hx.
Qed.
