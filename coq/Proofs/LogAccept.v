(* Log matching (C06), part 3: the log of a follower after an accepted AppendEntries request reads like
   its old log below the cut and like the request from the cut on. *)
From RaftV Require Import Cluster.World Proofs.Frame Proofs.AESpec Proofs.LogDefs Proofs.LogSeg.
Open Scope N_scope.

Lemma consecutive_firstn m : forall i es, consecutive i es -> consecutive i (firstn m es).
Proof.
  induction m as [|m IH]; intros i es H; [exact I|]. destruct es as [|e es]; [exact I|].
  cbn [firstn consecutive] in *. destruct H as [H1 H2]. split; [exact H1|apply IH, H2].
Qed.

Lemma next_index_log r : wf_seg (seg_of_log (entry0 :: r)) -> next_index (entry0 :: r) = N.of_nat (length r) + 1.
Proof.
  intros H. unfold next_index. rewrite (last_index_consecutive _ (wf_log_seg r H)). cbn [first_index hd e_index entry0 length]. lia.
Qed.

Lemma nth_error_firstn_lt {A} (l : list A) k j : (j < k)%nat -> nth_error (firstn k l) j = nth_error l j.
Proof.
  revert l j. induction k as [|k IH]; intros l j H; [lia|]. destruct l as [|y l]; [reflexivity|].
  destruct j as [|j]; [reflexivity|]. cbn [firstn nth_error]. apply IH. lia.
Qed.

Lemma nth_error_firstn_ge {A} (l : list A) k j : (k <= j)%nat -> nth_error (firstn k l) j = None.
Proof. intros H. apply nth_error_None. pose proof (firstn_le_length k l). lia. Qed.

(* the spliced log *)
Definition splice (r : list entry) (x : N) (ta' : list entry) : list entry :=
  log_truncate (entry0 :: r) x ++ ta'.

Lemma splice_shape r x ta' : 1 <= x -> x <= N.of_nat (length r) + 1 ->
  splice r x ta' = entry0 :: (firstn (N.to_nat (x - 1)) r ++ ta').
Proof.
  intros H1 H2. unfold splice, log_truncate, first_index. cbn [hd e_index entry0].
  replace (N.to_nat (x - 0)) with (S (N.to_nat (x - 1))) by lia. reflexivity.
Qed.

Lemma eget_splice_low r x ta' i : 1 <= x -> x <= N.of_nat (length r) + 1 -> i < x ->
  eget (seg_of_log (splice r x ta')) i = eget (seg_of_log (entry0 :: r)) i.
Proof.
  intros H1 H2 Hi. rewrite splice_shape by assumption. unfold eget, seg_of_log. cbn [sg_base sg_es tl].
  destruct (N.ltb_spec 0 i); [|reflexivity].
  rewrite nth_error_app1 by (rewrite firstn_length; lia). apply nth_error_firstn_lt. lia.
Qed.

Lemma tget_splice_low r x ta' i : 1 <= x -> x <= N.of_nat (length r) + 1 -> i < x ->
  tget (seg_of_log (splice r x ta')) i = tget (seg_of_log (entry0 :: r)) i.
Proof. intros H1 H2 Hi. unfold tget. cbn [sg_base seg_of_log]. rewrite eget_splice_low by assumption. reflexivity. Qed.

Lemma eget_splice_high r x ta' i : 1 <= x -> x <= N.of_nat (length r) + 1 -> x <= i ->
  eget (seg_of_log (splice r x ta')) i = nth_error ta' (N.to_nat (i - x)).
Proof.
  intros H1 H2 Hi. rewrite splice_shape by assumption. unfold eget, seg_of_log. cbn [sg_base sg_es tl].
  destruct (N.ltb_spec 0 i); [|lia].
  rewrite nth_error_app2 by (rewrite firstn_length; lia). rewrite firstn_length. f_equal. lia.
Qed.

Lemma eget_req_tail q a ta i : ae_entries q = a ++ ta -> ae_prev_index q + 1 + N.of_nat (length a) <= i ->
  eget (seg_of_req q) i = nth_error ta (N.to_nat (i - (ae_prev_index q + 1 + N.of_nat (length a)))).
Proof.
  intros E Hi. unfold eget, seg_of_req. cbn [sg_base sg_es]. destruct (N.ltb_spec (ae_prev_index q) i); [|lia].
  rewrite E, nth_error_app2 by lia. f_equal. lia.
Qed.

Lemma eget_req_head q a ta i e : ae_entries q = a ++ ta -> wf_seg (seg_of_req q) -> In e a -> e_index e = i ->
  eget (seg_of_req q) i = Some e.
Proof.
  intros E Hwf Hin Ei. apply In_nth_error in Hin. destruct Hin as (k & Hk).
  assert (Hlen : (k < length a)%nat) by (apply nth_error_Some; congruence).
  assert (Hk2 : nth_error (ae_entries q) k = Some e) by (rewrite E, nth_error_app1 by exact Hlen; exact Hk).
  unfold wf_seg, seg_of_req in Hwf. cbn [sg_base sg_es] in Hwf.
  assert (Hlen2 : (k < length (ae_entries q))%nat) by (apply nth_error_Some; congruence).
  pose proof (consecutive_nth _ _ Hwf k entry0 Hlen2) as Hi. rewrite (nth_error_nth _ _ _ Hk2) in Hi.
  unfold eget, seg_of_req. cbn [sg_base sg_es]. destruct (N.ltb_spec (ae_prev_index q) i); [|lia].
  replace (N.to_nat (i - ae_prev_index q - 1)) with k by lia. exact Hk2.
Qed.

(* the four facts the matching argument needs *)
Lemma splice_facts r q a ta m :
  let prev := ae_prev_index q in
  let x := prev + 1 + N.of_nat (length a) in
  let s' := seg_of_log (splice r x (firstn m ta)) in
  let sl := seg_of_log (entry0 :: r) in
  let sq := seg_of_req q in
  wf_seg sl -> wf_seg sq -> ae_entries q = a ++ ta ->
  prev < next_index (entry0 :: r) -> tget sl prev = Some (ae_prev_term q) ->
  (forall e, In e a -> exists x0, log_get (entry0 :: r) (e_index e) = Some x0 /\ e_term x0 = e_term e) ->
  x <= N.of_nat (length r) + 1 /\
  (forall i, i < x -> eget s' i = eget sl i) /\
  (forall i, i < x -> tget s' i = tget sl i) /\
  (forall i, x <= i -> eget s' i = None \/ eget s' i = eget sq i) /\
  (forall i, x <= i -> eget s' i <> None -> tget s' (i - 1) = tget sq (i - 1)) /\
  wf_seg s'.
Proof.
  cbn zeta. intros Hwf Hwq Hes Hprev Hcheck Ha.
  set (prev := ae_prev_index q) in *.
  remember (prev + 1 + N.of_nat (length a)) as x eqn:Ex.
  rewrite (next_index_log r Hwf) in Hprev.
  (* every entry of a is in the log at its own index *)
  assert (Hain : forall e, In e a -> eget (seg_of_log (entry0 :: r)) (e_index e) <> None /\
                                     tget (seg_of_log (entry0 :: r)) (e_index e) = Some (e_term e)).
  { intros e He. destruct (Ha e He) as (x0 & Hx0 & Ht). rewrite <- eget_log in Hx0 by (exists r; reflexivity).
    split; [congruence|]. rewrite (tget_entry _ _ _ Hx0). congruence. }
  assert (Hcq : consecutive (prev + 1) (a ++ ta)).
  { unfold wf_seg, seg_of_req in Hwq. cbn [sg_base sg_es] in Hwq. rewrite Hes in Hwq. exact Hwq. }
  apply consecutive_app in Hcq. destruct Hcq as [Hca Hcta].
  assert (Hx1 : 1 <= x) by lia.
  (* the last entry of a has index x - 1 *)
  assert (Hlast : a = [] \/ exists ea, In ea a /\ e_index ea = x - 1).
  { destruct a as [|e0 a0] eqn:Ea; [left; reflexivity|right].
    destruct (@exists_last _ (e0 :: a0)) as (a' & ea & Eq); [discriminate|].
    rewrite Eq in Hca. apply consecutive_app in Hca. destruct Hca as [_ [Hi _]].
    exists ea. split; [rewrite Eq; apply in_or_app; right; left; reflexivity|].
    rewrite Ex, Eq, app_length. cbn [length]. lia. }
  assert (F1 : x <= N.of_nat (length r) + 1).
  { destruct Hlast as [->|(ea & Hin & Hi)]; [cbn [length] in Ex; lia|].
    destruct (Hain ea Hin) as [Hne _]. rewrite Hi in Hne.
    destruct (eget (seg_of_log (entry0 :: r)) (x - 1)) as [y|] eqn:Ey; [|congruence].
    destruct (eget_range _ _ _ Ey) as [_ Ht]. rewrite top_log in Ht. lia. }
  assert (F3a : forall i, x <= i -> (N.to_nat (i - x) < m)%nat ->
                  eget (seg_of_log (splice r x (firstn m ta))) i = eget (seg_of_req q) i).
  { intros i Hi Hm. rewrite eget_splice_high by assumption.
    rewrite (eget_req_tail q a ta i Hes) by (fold prev; lia). fold prev. rewrite <- Ex.
    apply nth_error_firstn_lt. exact Hm. }
  assert (F3b : forall i, x <= i -> (m <= N.to_nat (i - x))%nat ->
                  eget (seg_of_log (splice r x (firstn m ta))) i = None).
  { intros i Hi Hm. rewrite eget_splice_high by assumption. apply nth_error_firstn_ge. exact Hm. }
  split; [exact F1|].
  split; [intros i Hi; apply eget_splice_low; assumption|].
  split; [intros i Hi; apply tget_splice_low; assumption|].
  split.
  { intros i Hi. destruct (lt_dec (N.to_nat (i - x)) m) as [Hm|Hm].
    - right. apply F3a; assumption.
    - left. apply F3b; [assumption|lia]. }
  split.
  { intros i Hi Hne.
    assert (Hm : (N.to_nat (i - x) < m)%nat).
    { destruct (lt_dec (N.to_nat (i - x)) m) as [Hm|Hm]; [exact Hm|]. exfalso. apply Hne, F3b; [assumption|lia]. }
    destruct (N.eq_dec i x) as [->|Hix].
    - rewrite tget_splice_low by (try assumption; lia).
      destruct Hlast as [Ea|(ea & Hin & Hidx)].
      + subst a. cbn [length] in Ex. replace (x - 1) with prev by lia. rewrite Hcheck.
        symmetry. exact (tget_base (seg_of_req q)).
      + destruct (Hain ea Hin) as [_ Ht]. rewrite Hidx in Ht. rewrite Ht. symmetry.
        apply tget_entry. apply (eget_req_head q a ta (x - 1) ea Hes Hwq Hin Hidx).
    - assert (E : eget (seg_of_log (splice r x (firstn m ta))) (i - 1) = eget (seg_of_req q) (i - 1)).
      { apply F3a; lia. }
      unfold tget. rewrite E. cbn [sg_base seg_of_log seg_of_req]. fold prev.
      destruct (N.eqb_spec (i - 1) 0); [lia|]. destruct (N.eqb_spec (i - 1) prev); [lia|]. reflexivity. }
  unfold wf_seg. rewrite splice_shape by assumption. cbn [seg_of_log sg_base sg_es tl].
  apply consecutive_app. split.
  - apply consecutive_firstn. exact Hwf.
  - rewrite firstn_length. apply consecutive_firstn.
    replace (0 + 1 + N.of_nat (Nat.min (N.to_nat (x - 1)) (length r))) with x by lia.
    rewrite Ex. exact Hcta.
Qed.

Print Assumptions splice_facts.
