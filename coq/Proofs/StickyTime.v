(* C16, cluster level, the timing half in its one-voter form: a voter that handles an AppendEntries request of its own
   or a newer term at time t (accepted or rejected, heartbeat or not) is sticky at every instant before t + its election
   timeout; so whatever vote request reaches it in that window - prevote or real, of any term, from any node - changes
   no node of the cluster.  A leader whose requests reach a voter at intervals shorter than the election timeout
   therefore keeps that voter out of every election, whatever the other nodes do.  Any world (reachable or not). *)
From RaftV Require Import Cluster.World Cluster.Statements Proofs.RVSpec Proofs.ReadSpec Proofs.Votes Proofs.VoteRecords
                          Proofs.ElectReply Proofs.StickyWorld Proofs.ContactSpec.
Open Scope N_scope.

Lemma deliver_ae_node w c n q :
  get_node w (c_dst c) = Some n -> n_frozen n = false -> c_req c = ReqAE q ->
  get_node (step_deliver w c false) (c_dst c) = Some (fst (h_append_entries (w_now w) n q)).
Proof.
  intros G F Eq. unfold step_deliver. rewrite G, F. unfold run_handler. rewrite Eq.
  destruct (h_append_entries (w_now w) n q) as [n1 p] eqn:Eh. cbn [fst].
  destruct (get_node_in _ _ _ G) as [_ Eid].
  assert (Hid : n_id n1 = n_id n).
  { pose proof (ae_keeps_id (w_now w) n q) as HR. rewrite Eh in HR. exact HR. }
  assert (G1 : get_node (set_node w n1) (c_dst c) = Some n1).
  { rewrite <- Eid. apply get_node_set_self; [rewrite Eid; exact G|exact Hid]. }
  destruct (n_frozen n1); [rewrite get_node_set_call; exact G1|].
  destruct (option_map RespAE p); rewrite get_node_set_call; exact G1.
Qed.

(* the theorem: heartbeat at time t, any amount of time dt < election timeout, then any vote request to that voter *)
Theorem heartbeat_then_vote_request w cid c n q dt :
  get_call w cid = Some c -> c_state c = CPending -> c_req c = ReqAE q ->
  get_node w (c_dst c) = Some n -> n_frozen n = false -> role_eqb (n_role n) Shutdown = false ->
  (ae_term q <? n_term n) = false -> dt < n_et n ->
  let w1 := step w (LDeliver cid) in
  let w2 := step w1 (LTick dt) in
  forall n1, get_node w1 (c_dst c) = Some n1 -> n_frozen n1 = false -> role_eqb (n_role n1) Shutdown = false ->
    sticky w2 n1 /\
    forall cid' c' q', get_call w2 cid' = Some c' -> c_dst c' = c_dst c -> c_req c' = ReqRV q' ->
      forall id, get_node (step w2 (LDeliver cid')) id = get_node w2 id /\
                 get_node (step w2 (LDup cid')) id = get_node w2 id.
Proof.
  intros Gc Hp Eq G F Hup Ht Hdt. cbn zeta. intros n1 G1 F1 Hup1.
  assert (E1 : step w (LDeliver cid) = step_deliver w c false) by (cbn [step]; rewrite Gc, Hp; reflexivity).
  rewrite E1 in *.
  assert (En1 : n1 = fst (h_append_entries (w_now w) n q)).
  { rewrite (deliver_ae_node w c n q G F Eq) in G1. injection G1 as <-. reflexivity. }
  assert (Hnow : w_now (step_deliver w c false) = w_now w).
  { unfold step_deliver. rewrite G, F. destruct (run_handler (w_now w) n (c_req c)) as [[m r] pk].
    destruct (n_frozen m); [reflexivity|]. destruct r; reflexivity. }
  set (w1 := step_deliver w c false) in *.
  assert (Hst : sticky (step w1 (LTick dt)) n1).
  { unfold sticky. split; [exact F1|]. split; [exact Hup1|].
    apply Bool.orb_true_iff. right. cbn [step]. change (w_now (w1 <| w_now := w_now w1 + dt |>)) with (w_now w1 + dt).
    rewrite Hnow, En1. apply ae_makes_recent_contact; [exact Hup|exact Ht|lia|lia]. }
  split; [exact Hst|]. intros cid' c' q' Gc' Ed' Eq' id.
  assert (G2 : get_node (step w1 (LTick dt)) (c_dst c') = Some n1) by (rewrite Ed'; exact G1).
  exact (sticky_step_changes_no_node _ cid' c' n1 q' Gc' G2 Hst Eq' id).
Qed.

Print Assumptions heartbeat_then_vote_request.
