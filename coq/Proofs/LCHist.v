(* Leader completeness (C07), history: the RPC records of a world are never deleted and a response, once
   recorded, is never changed - over every step. *)
From RaftV Require Import Cluster.World Cluster.Statements Proofs.Frame Proofs.RVSpec Proofs.AESpec.
From RaftV Require Import Proofs.Votes Proofs.VoteRecords Proofs.Names.
From RaftV Require Import Proofs.ElectDefs Proofs.ElectBook Proofs.ElectWorld Proofs.ElectSafety Proofs.LogDefs Proofs.LogSeg Proofs.LogInv Proofs.LCDefs.
Open Scope N_scope.

Definition CPR (cs cs' : list call) : Prop :=
  forall k, In k cs -> exists k', In k' cs' /\ call_key k' = call_key k /\ (c_resp k = None \/ c_resp k' = c_resp k).

Lemma CPR_refl cs : CPR cs cs.
Proof. intros k Hk. exists k. auto. Qed.
Lemma CPR_trans a b c : CPR a b -> CPR b c -> CPR a c.
Proof.
  intros H1 H2 k Hk. destruct (H1 k Hk) as (k1 & A1 & A2 & A3). destruct (H2 k1 A1) as (k2 & B1 & B2 & B3).
  exists k2. split; [exact B1|]. split; [congruence|].
  destruct A3 as [A3|A3]; [left; exact A3|]. destruct B3 as [B3|B3]; [left; congruence|right; congruence].
Qed.
Lemma CPR_app cs k : CPR cs (cs ++ [k]).
Proof. intros k0 H. exists k0. split; [apply in_or_app; left; exact H|auto]. Qed.
Lemma CPR_map (g : call -> call) cs :
  (forall k, call_key (g k) = call_key k /\ c_resp (g k) = c_resp k) -> CPR cs (map g cs).
Proof. intros Hg k Hk. exists (g k). split; [apply in_map, Hk|]. destruct (Hg k) as [A B]. auto. Qed.
Lemma CPR_set cs c c0 :
  NoDup (map c_id cs) -> In c cs -> call_key c0 = call_key c -> (c_resp c0 = c_resp c \/ c_resp c = None) ->
  CPR cs (upd_call c0 cs).
Proof.
  intros ND Hc Ek Hr k Hk. pose proof (key_fields _ _ Ek) as (Eid & _).
  destruct (N.eq_dec (c_id k) (c_id c)) as [E|E].
  - assert (k = c) by (eapply nodup_id_eq; eassumption). subst k. exists c0. split; [|split; [exact Ek|tauto]].
    unfold upd_call. apply in_map_iff. exists c. split; [|exact Hc]. rewrite Eid, N.eqb_refl. reflexivity.
  - exists k. split; [|split; [reflexivity|auto]]. unfold upd_call. apply in_map_iff. exists k. split; [|exact Hk].
    destruct (N.eqb_spec (c_id k) (c_id c0)) as [E'|E']; [rewrite Eid in E'; contradiction|reflexivity].
Qed.

Lemma CPR_step_deliver w c dup : VInv w -> In c (w_calls w) -> (dup = false -> c_state c = CPending) ->
  CPR (w_calls w) (w_calls (step_deliver w c dup)).
Proof.
  intros HV Hc Hst. pose proof (vi_nodup w HV) as ND.
  assert (Hstate : forall w1 s, w_calls w1 = w_calls w -> CPR (w_calls w) (w_calls (set_call w1 (c <| c_state := s |>)))).
  { intros w1 s E. change (w_calls (set_call w1 (c <| c_state := s |>))) with (upd_call (c <| c_state := s |>) (w_calls w1)).
    rewrite E. apply CPR_set with (c := c); auto. }
  unfold step_deliver. destruct (get_node w (c_dst c)) as [n|].
  2:{ destruct dup; [apply CPR_refl|apply Hstate; reflexivity]. }
  destruct (n_frozen n); [destruct dup; [apply CPR_refl|apply Hstate; reflexivity]|].
  destruct (run_handler (w_now w) n (c_req c)) as [[n1 resp] parked].
  destruct dup; [apply CPR_refl|]. specialize (Hst eq_refl).
  destruct (n_frozen n1); [apply Hstate; reflexivity|].
  destruct resp as [p|]; [|apply Hstate; reflexivity].
  match goal with |- CPR _ (w_calls (set_call _ ?c')) => change (CPR (w_calls w) (upd_call c' (w_calls w))) end.
  apply CPR_set with (c := c); auto. right. apply (vi_pend w HV c Hc Hst).
Qed.

Lemma CPR_step_reply w c failed : VInv w -> In c (w_calls w) -> CPR (w_calls w) (w_calls (step_reply w c failed)).
Proof.
  intros HV Hc. pose proof (vi_nodup w HV) as ND. unfold step_reply.
  set (w0 := set_call w (c <| c_state := CDone |>)).
  assert (H0 : CPR (w_calls w) (w_calls w0)).
  { change (w_calls w0) with (upd_call (c <| c_state := CDone |>) (w_calls w)). apply CPR_set with (c := c); auto. }
  destruct (get_node w (c_src c)) as [n|]; [|exact H0]. destruct (n_frozen n); [exact H0|].
  destruct (c_req c) as [q|q|q]; destruct (if failed then None else c_resp c) as [[p|p|p]|]; try exact H0.
  destruct (l_ae_reply (w_now w) n (c_round c) (c_dst c) (c_fgen c) q p) as [n1 [isq|]]; [|exact H0].
  eapply CPR_trans; [exact H0|]. apply CPR_app.
Qed.

Lemma CPR_step w l : VInv w -> CPR (w_calls w) (w_calls (step w l)).
Proof.
  intros HV. destruct l; cbn [step]; try (rewrite calls_on_node; apply CPR_refl); try apply CPR_refl.
  - destruct (get_call w c) as [cl|] eqn:G; [|apply CPR_refl]. destruct (VoteRecords.get_call_in _ _ _ G) as [Hin _].
    destruct (c_state cl) eqn:Es; try apply CPR_refl. apply CPR_step_deliver; auto.
  - destruct (get_call w c) as [cl|] eqn:G; [|apply CPR_refl]. destruct (VoteRecords.get_call_in _ _ _ G) as [Hin _].
    apply CPR_step_deliver; auto. discriminate.
  - destruct (get_call w c) as [cl|] eqn:G; [|apply CPR_refl]. destruct (VoteRecords.get_call_in _ _ _ G) as [Hin _].
    destruct (c_state cl); try apply CPR_refl. apply CPR_step_reply; auto.
  - destruct (get_call w c) as [cl|] eqn:G; [|apply CPR_refl]. destruct (VoteRecords.get_call_in _ _ _ G) as [Hin _].
    destruct (c_state cl); try apply CPR_refl; apply CPR_step_reply; auto.
  - unfold fresh_fid. rewrite calls_on_node. apply CPR_refl.
  - unfold fresh_fid. rewrite calls_on_node. apply CPR_refl.
  - unfold fresh_fid. rewrite calls_on_node. apply CPR_refl.
  - unfold drop_calls_of. cbn [w_calls set]. rewrite calls_on_node. apply CPR_map. intros k.
    destruct (c_src k =? n); split; reflexivity.
  - destruct (get_node w n) as [m|]; [|apply CPR_refl]. destruct (is_up m); [|apply CPR_refl].
    unfold step_task. destruct (n_tasks m) as [|t rest]; [apply CPR_refl|]. destruct t as [rid peer pv|rid peer].
    + destruct (l_rv_send _ rid peer pv); [apply CPR_app|apply CPR_refl].
    + destruct (l_ae_send _ peer) as [n1 [|q|q]]; [apply CPR_refl|apply CPR_app|apply CPR_app].
  - destruct (get_node w n) as [m|]; [|apply CPR_refl].
    destruct (lp_install_resume m) as [m1 [q|]]; [|apply CPR_refl].
    match goal with |- CPR _ (w_calls (match ?x with _ => _ end)) => destruct x as [c|] eqn:Ef end; [|apply CPR_refl].
    apply find_some in Ef. destruct Ef as [Hin _].
    match goal with |- CPR _ (w_calls (set_call _ ?c')) => change (CPR (w_calls w) (upd_call c' (w_calls w))) end.
    apply CPR_set with (c := c); auto. apply (vi_nodup w HV).
Qed.

Lemma CPR_run ls : forall w, VInv w -> CPR (w_calls w) (w_calls (run w ls)).
Proof.
  induction ls as [|l ls IH]; intros w HV; [apply CPR_refl|]. cbn [run fold_left].
  eapply CPR_trans; [apply CPR_step, HV|]. apply IH, step_VInv, HV.
Qed.


(* what persists: acknowledgements, requests *)
Lemma acked_CPR cs cs' T v j : CPR cs cs' -> acked cs T v j -> acked cs' T v j.
Proof.
  intros HP (k & tp & Hk & (q & p & A1 & A2 & A3 & A4 & A5 & A6) & Hj).
  destruct (HP k Hk) as (k' & B1 & B2 & B3). pose proof (key_fields _ _ B2) as (_ & _ & Ed & _ & Eq).
  exists k', tp. split; [exact B1|]. split; [|exact Hj]. exists q, p. rewrite Eq, Ed.
  destruct B3 as [B3|B3]; [rewrite A4 in B3; discriminate|]. rewrite B3. auto 10.
Qed.

Lemma CPR_CP cs cs' : CPR cs cs' -> CP cs cs'.
Proof.
  intros H k Hk. destruct (H k Hk) as (k' & A & B & D). exists k'. split; [exact A|]. split; [exact B|].
  intros t a Hg. destruct D as [D|D]; [|eapply key_granted; eassumption].
  destruct Hg as (q & p & _ & _ & _ & _ & Hr & _). rewrite D in Hr. discriminate.
Qed.

(* the nodes of a world are never added or removed *)
Definition IDS (w w' : world) : Prop := map n_id (w_nodes w') = map n_id (w_nodes w).
Lemma IDS_refl w : IDS w w. Proof. reflexivity. Qed.
Lemma IDS_nodes w w1 w2 : w_nodes w2 = w_nodes w1 -> IDS w w1 -> IDS w w2.
Proof. unfold IDS. intros ->. auto. Qed.
Lemma IDS_set_node w w1 m : IDS w w1 -> IDS w (set_node w1 m).
Proof.
  unfold IDS. intros <-. unfold set_node. cbn [w_nodes set]. rewrite map_map. apply map_ext. intros x.
  destruct (N.eqb_spec (n_id x) (n_id m)) as [E|E]; [symmetry; exact E|reflexivity].
Qed.
Lemma IDS_on_node w w1 id f : IDS w w1 -> IDS w (on_node w1 id f).
Proof. intros H. unfold on_node. destruct (get_node w1 id); [apply IDS_set_node, H|exact H]. Qed.

Lemma IDS_set_call w w1 c : IDS w w1 -> IDS w (set_call w1 c).
Proof. intros H. exact H. Qed.
Lemma IDS_new_call w w1 a b r g q : IDS w w1 -> IDS w (new_call w1 a b r g q).
Proof. intros H. exact H. Qed.
Lemma IDS_drop w w1 id : IDS w w1 -> IDS w (drop_calls_of w1 id).
Proof. intros H. exact H. Qed.
Lemma IDS_fid w w1 : IDS w w1 -> IDS w (w1 <| w_next_fid ::= N.succ |>).
Proof. intros H. exact H. Qed.
Lemma IDS_now w w1 t : IDS w w1 -> IDS w (w1 <| w_now := t |>).
Proof. intros H. exact H. Qed.

Ltac ids_step :=
  match goal with
  | |- IDS _ (match ?x with _ => _ end) => destruct x
  | |- IDS _ (if ?x then _ else _) => destruct x
  | |- IDS _ (let (_, _) := ?x in _) => destruct x
  | |- IDS ?w ?w => apply IDS_refl
  | |- IDS _ (set_call _ _) => apply IDS_set_call
  | |- IDS _ (new_call _ _ _ _ _ _) => apply IDS_new_call
  | |- IDS _ (drop_calls_of _ _) => apply IDS_drop
  | |- IDS _ (set_node _ _) => apply IDS_set_node
  | |- IDS _ (on_node _ _ _) => apply IDS_on_node
  | |- IDS _ (_ <| w_next_fid ::= _ |>) => apply IDS_fid
  | |- IDS _ (_ <| w_now := _ |>) => apply IDS_now
  end.

Theorem step_IDS w l : IDS w (step w l).
Proof.
  destruct l; cbn [step]; unfold fresh_fid, step_deliver, step_reply, step_task; cbn zeta; repeat ids_step.
Qed.

Lemma IDS_forward w w' n : IDS w w' -> In n (w_nodes w) -> exists n', In n' (w_nodes w') /\ n_id n' = n_id n.
Proof.
  unfold IDS. intros E Hn. assert (H : In (n_id n) (map n_id (w_nodes w'))) by (rewrite E; apply in_map, Hn).
  apply in_map_iff in H. destruct H as (n' & A & B). exists n'. auto.
Qed.
