(* Log matching (C06), frame part: what every section of a node other than the AppendEntries
   handler (and the membership / snapshot sections) does to the log: nothing, or - when the
   section ends with the node as leader - exactly one new entry (no-op or operation) of the
   node's term at the end (relation LG of Proofs/LogDefs.v). *)
From RaftV Require Import Cluster.World Proofs.Frame Proofs.Votes Proofs.AESpec Proofs.LogDefs.
Open Scope N_scope.

(* ---------------- LG: composition ---------------- *)
Lemma LG_refl m : LG m m.
Proof. left. reflexivity. Qed.

Lemma LG_same m m' : n_log m' = n_log m -> LG m m'.
Proof. intros H. left. exact H. Qed.

(* a prefix that leaves the log alone *)
Lemma LG_trans_same a b c : n_log b = n_log a -> LG b c -> LG a c.
Proof.
  intros H [H1|(e & H1 & H2 & H3)].
  - left. rewrite H1. exact H.
  - right. exists e. rewrite <- H. split; [exact H1|]. split; [exact H2|exact H3].
Qed.

(* a suffix that leaves log, term, role and the frozen flag alone *)
Lemma LG_then_same a b c :
  LG a b -> n_log c = n_log b -> n_term c = n_term b -> n_role c = n_role b -> n_frozen c = n_frozen b -> LG a c.
Proof.
  intros [H|(e & H1 & H2 & H3 & H4 & H5 & H6)] L T R F.
  - left. rewrite L. exact H.
  - right. exists e. rewrite L, T, R, F.
    split; [exact H1|]. split; [exact H2|]. split; [exact H3|]. split; [exact H4|]. split; [exact H5|exact H6].
Qed.

(* ---------------- SL: the log is untouched ---------------- *)
Definition SL (m m' : node) : Prop := n_log m' = n_log m.
Lemma SL_refl m : SL m m. Proof. reflexivity. Qed.
Lemma SL_trans a b c : SL a b -> SL b c -> SL a c.
Proof. unfold SL. intros H1 H2. rewrite H2. exact H1. Qed.
Lemma LG_SL m m' : SL m m' -> LG m m'. Proof. apply LG_same. Qed.
Lemma LG_SL_trans a b c : SL a b -> LG b c -> LG a c. Proof. apply LG_trans_same. Qed.

(* "log untouched" by computation; the base node is abstracted first: conversion on large node terms is slow *)
Ltac slog :=
  unfold SL;
  match goal with
  | |- n_log _ = n_log ?x => first [ is_var x; reflexivity
                                   | let y := fresh "base" in generalize x; intro y; reflexivity
                                   | reflexivity ]
  end.

(* U: log, term, role and frozen flag untouched (what may follow an append) *)
Definition ltrf (n : node) := (n_log n, n_term n, n_role n, n_frozen n).
Definition U (m m' : node) : Prop := ltrf m' = ltrf m.
Lemma U_refl m : U m m. Proof. reflexivity. Qed.
Lemma U_trans a b c : U a b -> U b c -> U a c.
Proof. unfold U. intros H1 H2. rewrite H2. exact H1. Qed.
Lemma U_SL m m' : U m m' -> SL m m'.
Proof. unfold U, SL, ltrf. intros H. injection H as H _ _ _. exact H. Qed.
Lemma LG_then_U a b c : LG a b -> U b c -> LG a c.
Proof.
  unfold U, ltrf. intros H HU. injection HU as H1 H2 H3 H4.
  eapply LG_then_same; eassumption.
Qed.

Ltac utv :=
  unfold U;
  match goal with
  | |- ltrf _ = ltrf ?x => first [ is_var x; reflexivity
                                 | let y := fresh "base" in generalize x; intro y; reflexivity
                                 | reflexivity ]
  end.

(* ---------------- helpers: log untouched ---------------- *)
Lemma SL_same_core n n' : same_core n' n -> SL n n'.
Proof. intros H. exact (sc_log _ _ H). Qed.

Lemma SL_tick n : SL n (snd (tick_write n)).
Proof. pose proof (tick_write_core n) as H. cbn zeta in H. destruct H as (_ & _ & _ & _ & H & _). exact H. Qed.

Lemma SL_persist n : SL n (persist n).
Proof. pose proof (persist_core n) as H. cbn zeta in H. destruct H as (_ & _ & H & _). exact H. Qed.

Lemma SL_respond n f r : SL n (respond n f r). Proof. apply SL_same_core, sc_respond. Qed.
Lemma SL_respond_all n fs r : SL n (respond_all n fs r). Proof. apply SL_same_core, sc_respond_all. Qed.
Lemma SL_new_opmanager now n : SL n (new_opmanager now n). Proof. slog. Qed.
Lemma SL_reset_snapshot_files n : SL n (reset_snapshot_files n). Proof. slog. Qed.
Lemma SL_notify_lost_leadership n : SL n (notify_lost_leadership n). Proof. apply SL_same_core, sc_notify. Qed.
Lemma SL_cancel_conf_change n : SL n (cancel_conf_change n). Proof. apply SL_same_core, sc_cancel. Qed.
Lemma SL_fail o n : SL n (fail o n).
Proof. unfold fail. destruct (n_out n); [slog|apply SL_refl|apply SL_refl]. Qed.

Lemma SL_become_follower now n l t : SL n (become_follower now n l t).
Proof. apply log_become_follower. Qed.

Lemma SL_stepdown now n : SL n (stepdown now n).
Proof. pose proof (lfb_stepdown now n) as H. unfold lfb in H. injection H as H _ _. exact H. Qed.

Lemma SL_new_follower n id nx : SL n (new_follower n id nx). Proof. unfold new_follower. slog. Qed.
Lemma SL_new_followers nx ids n : SL n (fold_left (fun m id => new_follower m id nx) ids n).
Proof. unfold SL. apply (proj_new_followers n_log nx ids). intros m id. apply SL_new_follower. Qed.

Lemma SL_next_configuration now n c : SL n (next_configuration now n c).
Proof. pose proof (lfb_next_configuration now n c) as H. unfold lfb in H. injection H as H _ _. exact H. Qed.

Lemma SL_apply_configuration now n c : SL n (apply_configuration now n c).
Proof.
  unfold apply_configuration. destruct (n_cconf n) as [cc|].
  - destruct (c_index c <=? c_index cc); [apply SL_refl|].
    eapply SL_trans; [apply SL_next_configuration|]. slog.
  - eapply SL_trans; [apply SL_next_configuration|]. slog.
Qed.

Lemma SL_signal_apply n : SL n (signal_apply n). Proof. slog. Qed.
Lemma SL_signal_commit n : SL n (signal_commit n). Proof. slog. Qed.
Lemma SL_signal_ro n : SL n (signal_ro n). Proof. slog. Qed.
Lemma SL_signal_election n : SL n (signal_election n). Proof. slog. Qed.
Lemma SL_signal_snapshot n : SL n (signal_snapshot n). Proof. slog. Qed.

Lemma SL_upd_tasks m ts : SL m (m <| n_tasks := ts |>). Proof. slog. Qed.
Lemma SL_upd_budget m k : SL m (m <| n_budget := k |>). Proof. slog. Qed.
Lemma SL_upd_pad m k : SL m (m <| n_pad := k |>). Proof. slog. Qed.
Lemma SL_upd_cv m f : SL m (m <| n_cv ::= f |>). Proof. slog. Qed.
Lemma SL_upd_cfg m v : SL m (m <| n_cfg_fid := v |>). Proof. slog. Qed.
Lemma SL_upd_pending m f : SL m (m <| n_pending ::= f |>). Proof. slog. Qed.
Lemma SL_upd_applied m f : SL m (m <| n_applied ::= f |>). Proof. slog. Qed.
Lemma SL_upd_fsm m a f : SL m (m <| n_fsm := a |> <| n_applies ::= f |>). Proof. slog. Qed.
Lemma SL_upd_sv m v : SL m (m <| n_should_verify := v |>). Proof. slog. Qed.
Lemma SL_upd_ro m f : SL m (m <| n_ro ::= f |>). Proof. slog. Qed.
Lemma SL_upd_followers m f : SL m (m <| n_followers ::= f |>). Proof. slog. Qed.

Lemma SL_set_follower n id f : SL n (set_follower n id f). Proof. unfold set_follower. slog. Qed.
Lemma SL_set_fobj n id g f : SL n (set_fobj n id g f).
Proof. unfold set_fobj. destruct (_ =? g); [apply SL_set_follower|slog]. Qed.
Lemma SL_bump_round n r : SL n (bump_round n r). Proof. unfold bump_round. slog. Qed.
Lemma SL_new_round n s : SL n (fst (new_round n s)). Proof. unfold new_round. cbn [fst]. slog. Qed.
Lemma SL_try_apply_ro now n s : SL n (try_apply_ro now n s). Proof. unfold try_apply_ro, signal_ro. slog. Qed.

(* ---------------- sendAppendEntriesToPeers: log, term, role, frozen flag untouched ---------------- *)
Lemma U_try_apply_ro now n s : U n (try_apply_ro now n s). Proof. unfold try_apply_ro, signal_ro. utv. Qed.
Lemma U_upd_pending m f : U m (m <| n_pending ::= f |>). Proof. utv. Qed.

Lemma U_send_ae_to_peers now n : U n (send_ae_to_peers now n).
Proof.
  unfold send_ae_to_peers.
  set (n0 := n <| n_hb_rounds ::= N.succ |>).
  assert (H0 : U n n0) by utv.
  set (n1 := if is_single (conf_of n) (n_id n) then _ else n0).
  assert (H1 : U n0 n1).
  { subst n1. destruct (is_single (conf_of n) (n_id n)); [|apply U_refl].
    eapply U_trans; [|apply U_try_apply_ro].
    destruct (n_commit n0 <? last_index (n_log n0)); [unfold signal_commit; utv|apply U_refl]. }
  unfold new_round. cbn [fst snd].
  eapply U_trans; [exact H0|]. eapply U_trans; [exact H1|]. utv.
Qed.

Lemma SL_send_ae_to_peers now n : SL n (send_ae_to_peers now n).
Proof. apply U_SL, U_send_ae_to_peers. Qed.

(* ---------------- the appending function ---------------- *)
(* Log.AppendEntries of one entry: refused (the node is frozen, the log is as it was) or done *)
Lemma LG_append1 n e :
  e_index e = next_index (n_log n) -> e_term e = n_term n -> n_role n = Leader ->
  match e_kind e with KConf _ => False | _ => True end ->
  LG n (append_entries n [e]).
Proof.
  intros Hi Ht Hr Hk. cbn [append_entries].
  pose proof (tick_write_core n) as HC. cbn zeta in HC. destruct HC as (T & _ & _ & _ & L & Ro & _).
  pose proof (tick_true_unfrozen n) as HF.
  destruct (tick_write n) as [ok n1]. cbn [fst snd] in *.
  destruct ok.
  - right. exists e. destruct (HF eq_refl) as [_ F1].
    split; [change (n_log n1 ++ [e] = n_log n ++ [e]); rewrite L; reflexivity|].
    split; [exact Hi|].
    split; [change (e_term e = n_term n1); rewrite T; exact Ht|].
    split; [change (n_role n1 = Leader); rewrite Ro; exact Hr|].
    split; [exact F1|exact Hk].
  - left. exact L.
Qed.

(* becomeLeader: one no-op of the node's term at the end of the log, unless the write is refused *)
Lemma become_leader_log now n : LG n (become_leader now n).
Proof.
  unfold become_leader.
  eapply LG_then_U; [|apply U_send_ae_to_peers].
  set (n3 := reset_snapshot_files _).
  assert (L3 : n_log n3 = n_log n) by reflexivity.
  assert (R3 : n_role n3 = Leader) by reflexivity.
  clearbody n3.
  eapply LG_trans_same; [exact L3|].
  apply LG_append1; [reflexivity|reflexivity|exact R3|exact I].
Qed.

Lemma become_leader_fields now n : n_term (become_leader now n) = n_term n.
Proof. exact (q_term _ _ (Q_become_leader now n)). Qed.

(* ---------------- elections ---------------- *)
Lemma LG_signal_election m : LG m (signal_election m).
Proof. apply LG_SL, SL_signal_election. Qed.

Lemma LG_send_rv_to_peers now n : LG n (send_rv_to_peers now n).
Proof.
  unfold send_rv_to_peers. destruct (is_single (conf_of n) (n_id n)).
  - eapply LG_SL_trans; [|apply become_leader_log].
    destruct (role_eqb (n_role n) PreCandidate); [|apply SL_refl].
    eapply SL_trans; [|apply SL_persist]. slog.
  - apply LG_SL. unfold new_round. slog.
Qed.

Lemma LG_l_election now m : LG m (l_election now m).
Proof.
  unfold l_election.
  set (n0 := m <| n_cv ::= _ |>).
  assert (H0 : SL m n0) by slog.
  match goal with |- LG m (if ?c then _ else _) => destruct c end; [apply LG_SL; exact H0|].
  set (n1 := if role_eqb (n_role n0) Follower then n0 <| n_role := PreCandidate |> else n0).
  assert (H1 : SL n0 n1) by (subst n1; destruct (role_eqb (n_role n0) Follower); [slog|apply SL_refl]).
  set (n2 := if role_eqb (n_role n1) Candidate then _ else n1).
  assert (H2 : SL n1 n2).
  { subst n2. destruct (role_eqb (n_role n1) Candidate); [|apply SL_refl].
    eapply SL_trans; [|apply SL_persist]. slog. }
  eapply LG_SL_trans; [eapply SL_trans; [exact H0|eapply SL_trans; [exact H1|exact H2]]|].
  apply LG_send_rv_to_peers.
Qed.

Lemma LG_l_heartbeat now m : LG m (l_heartbeat now m).
Proof.
  apply LG_SL. unfold l_heartbeat. destruct (_ || _); [apply SL_refl|apply SL_send_ae_to_peers].
Qed.

(* ---------------- plain updates made by the scheduler / harness ---------------- *)
Lemma LG_upd_tasks m ts : LG m (m <| n_tasks := ts |>). Proof. apply LG_SL, SL_upd_tasks. Qed.
Lemma LG_upd_budget m k : LG m (m <| n_budget := k |>). Proof. apply LG_SL, SL_upd_budget. Qed.
Lemma LG_upd_pad m k : LG m (m <| n_pad := k |>). Proof. apply LG_SL, SL_upd_pad. Qed.
Lemma LG_upd_cv m f : LG m (m <| n_cv ::= f |>). Proof. apply LG_SL, SL_upd_cv. Qed.

(* ---------------- replication, sender side ---------------- *)
Lemma SL_l_is_send n peer : SL n (fst (l_is_send n peer)).
Proof.
  unfold l_is_send. destruct (negb (role_eqb (n_role n) Leader)); [apply SL_refl|].
  destruct (n_lii n =? 0); [apply SL_refl|].
  match goal with |- SL n (fst (match ?c with _ => _ end)) => destruct c as [[s o]|] end; cbn [fst];
    [apply SL_set_follower|apply SL_fail].
Qed.

Lemma SL_l_ae_send n peer : SL n (fst (l_ae_send n peer)).
Proof.
  unfold l_ae_send. destruct (_ || _); [apply SL_refl|].
  destruct (f_next (get_follower n peer) <=? n_lii n).
  - pose proof (SL_l_is_send n peer) as H. destruct (l_is_send n peer) as [n1 [q|]]; exact H.
  - destruct (next_index (n_log n) <? f_next (get_follower n peer)); cbn [fst]; [apply SL_fail|apply SL_refl].
Qed.

Lemma LG_l_ae_send m peer : LG m (fst (l_ae_send m peer)).
Proof. apply LG_SL, SL_l_ae_send. Qed.

(* ---------------- loops ---------------- *)
Lemma SL_lp_commit now n : SL n (lp_commit now n).
Proof.
  unfold lp_commit. set (n0 := n <| n_cv ::= _ |>). assert (H0 : SL n n0) by slog.
  destruct (negb (role_eqb (n_role n0) Leader)); [exact H0|].
  match goal with |- SL n (if ?c then _ else _) => destruct c end; [|exact H0].
  eapply SL_trans; [exact H0|]. eapply SL_trans; [|apply SL_send_ae_to_peers]. unfold signal_apply. slog.
Qed.
Lemma LG_lp_commit now m : LG m (lp_commit now m).
Proof. apply LG_SL, SL_lp_commit. Qed.

Lemma SL_lp_apply_one now n : SL n (lp_apply_one now n).
Proof.
  unfold lp_apply_one. destruct (log_get (n_log n) (n_applied n + 1)) as [e|]; [|apply SL_fail].
  set (n1 := match e_kind e with KNoop => n | _ => _ end).
  assert (H1 : SL n n1).
  { subst n1. destruct (e_kind e) as [|p|c].
    - apply SL_refl.
    - match goal with |- SL n (match ?x with _ => _ end) => destruct x end.
      + eapply SL_trans; [|apply SL_respond]. eapply SL_trans; [|apply SL_upd_pending]. apply SL_upd_fsm.
      + apply SL_upd_fsm.
    - match goal with |- SL n (match ?x with _ => _ end) => destruct x eqn:E end.
      + eapply SL_trans; [|apply SL_upd_cfg]. eapply SL_trans; [|apply SL_respond]. apply SL_apply_configuration.
      + apply SL_apply_configuration. }
  match goal with |- SL n (if ?c then _ else _) => destruct c end.
  - eapply SL_trans; [|apply SL_signal_snapshot]. eapply SL_trans; [|apply SL_upd_applied]. exact H1.
  - eapply SL_trans; [|apply SL_upd_applied]. exact H1.
Qed.

Lemma SL_lp_apply_run now fuel : forall n, SL n (lp_apply_run fuel now n).
Proof.
  induction fuel as [|f IH]; intros n; cbn [lp_apply_run]; [apply SL_refl|].
  match goal with |- SL n (if ?c then _ else _) => destruct c end; [|apply SL_refl].
  eapply SL_trans; [apply SL_lp_apply_one|apply IH].
Qed.

Lemma SL_lp_apply now n : SL n (lp_apply now n).
Proof.
  unfold lp_apply. set (n0 := n <| n_cv ::= _ |>). assert (H0 : SL n n0) by slog.
  eapply SL_trans; [exact H0|].
  match goal with |- SL _ (if ?c then _ else _) => destruct c end;
    [eapply SL_trans; [apply SL_lp_apply_run|apply SL_signal_ro]|apply SL_lp_apply_run].
Qed.
Lemma LG_lp_apply now m : LG m (lp_apply now m).
Proof. apply LG_SL, SL_lp_apply. Qed.

Lemma SL_fold_respond (f : node -> rop -> node) ops : (forall m o, SL m (f m o)) -> forall n, SL n (fold_left f ops n).
Proof.
  intros Hf. induction ops as [|o ops IH]; intros n; cbn [fold_left]; [apply SL_refl|].
  eapply SL_trans; [apply Hf|apply IH].
Qed.

Lemma SL_lp_ro now n : SL n (lp_ro now n).
Proof.
  unfold lp_ro. set (n0 := n <| n_cv ::= _ |>). assert (H0 : SL n n0) by slog.
  destruct (_ || _); [exact H0|].
  eapply SL_trans; [exact H0|]. eapply SL_trans; [|apply SL_fold_respond].
  - apply SL_upd_ro.
  - intros m o. destruct (ro_type o); [apply SL_respond|apply SL_respond|].
    destruct (lease_valid now m); apply SL_respond.
Qed.
Lemma LG_lp_ro now m : LG m (lp_ro now m).
Proof. apply LG_SL, SL_lp_ro. Qed.

(* no InstallSnapshot handler is parked: nothing resumes *)
Lemma LG_lp_install_resume m : n_iswait m = [] -> LG m (fst (lp_install_resume m)).
Proof. intros H. unfold lp_install_resume. rewrite H. cbn [fst]. apply LG_refl. Qed.

(* ---------------- RequestVote: handler and response ---------------- *)
Lemma SL_h_request_vote now n q : SL n (fst (h_request_vote now n q)).
Proof.
  unfold h_request_vote.
  destruct (role_eqb (n_role n) Shutdown); [apply SL_refl|].
  destruct (lease_valid now n || recent_contact now n); [apply SL_refl|].
  destruct (rv_term q <? n_term n); [apply SL_refl|].
  set (n1 := if negb (rv_prevote q) && (n_term n <? rv_term q) then become_follower now n (rv_cand q) (rv_term q) else n).
  assert (H1 : SL n n1).
  { subst n1. destruct (negb (rv_prevote q) && (n_term n <? rv_term q)); [apply SL_become_follower|apply SL_refl]. }
  destruct (negb (rv_prevote q) && match n_vote n1 with Some v => negb (v =? rv_cand q) | None => false end);
    [exact H1|].
  destruct ((rv_last_term q <? last_term (n_log n1)) || _); [exact H1|].
  cbn [fst]. destruct (rv_prevote q); [exact H1|].
  eapply SL_trans; [exact H1|]. eapply SL_trans; [|apply SL_persist]. slog.
Qed.
Lemma LG_h_request_vote now m q : LG m (fst (h_request_vote now m q)).
Proof. apply LG_SL, SL_h_request_vote. Qed.

Lemma LG_l_rv_reply now m rid peer pv q p : LG m (l_rv_reply now m rid peer pv q p).
Proof.
  unfold l_rv_reply.
  destruct (role_eqb (n_role m) Shutdown); [apply LG_refl|].
  destruct (rv_term q <? n_term m); [apply LG_refl|].
  set (n1 := if rvr_granted p then bump_round m rid else m).
  assert (H1 : SL m n1) by (subst n1; destruct (rvr_granted p); [apply SL_bump_round|apply SL_refl]).
  destruct (rv_term q <? rvr_term p).
  - apply LG_SL. eapply SL_trans; [exact H1|apply SL_become_follower].
  - set (n2 := if _ && role_eqb (n_role n1) PreCandidate then _ else n1).
    assert (H2 : SL n1 n2).
    { subst n2. match goal with |- SL _ (if ?c then _ else _) => destruct c end;
        [unfold signal_election; slog|apply SL_refl]. }
    eapply LG_SL_trans; [eapply SL_trans; [exact H1|exact H2]|].
    match goal with |- LG _ (if ?c then _ else _) => destruct c end; [apply become_leader_log|apply LG_refl].
Qed.

(* ---------------- AppendEntries / InstallSnapshot responses ---------------- *)
Lemma SL_l_ae_reply now n rid peer g q p : SL n (fst (l_ae_reply now n rid peer g q p)).
Proof.
  unfold l_ae_reply.
  destruct (_ || _); [apply SL_refl|].
  destruct (n_term n <? aer_term p); [cbn [fst]; apply SL_become_follower|].
  destruct (negb (ae_term q =? n_term n)); [apply SL_refl|].
  set (n1 := if is_voter (conf_of n) peer then bump_round n rid else n).
  set (n2 := if is_voter (conf_of n) peer && has_quorum (conf_of n1) (round_count n1 rid)
             then try_apply_ro now n1 (round_stamp n1 rid) else n1).
  assert (H1 : SL n n1) by (subst n1; destruct (is_voter (conf_of n) peer); [apply SL_bump_round|apply SL_refl]).
  assert (H2 : SL n n2).
  { eapply SL_trans; [exact H1|]. subst n2.
    destruct (is_voter (conf_of n) peer && has_quorum (conf_of n1) (round_count n1 rid));
      [apply SL_try_apply_ro|apply SL_refl]. }
  destruct (negb (aer_success p)).
  - destruct (aer_index p <=? n_lii _).
    + eapply SL_trans; [exact H2|]. eapply SL_trans; [apply SL_set_fobj|]. apply SL_l_is_send.
    + cbn [fst]. eapply SL_trans; [exact H2|apply SL_set_fobj].
  - match goal with |- SL n (fst (if ?c then _ else _)) => destruct c end; cbn [fst]; [|exact H2].
    eapply SL_trans; [exact H2|]. eapply SL_trans; [apply SL_set_fobj|].
    match goal with |- SL _ (if ?c then _ else _) => destruct c end; [apply SL_signal_commit|apply SL_refl].
Qed.
Lemma LG_l_ae_reply now m rid peer gen q p : LG m (fst (l_ae_reply now m rid peer gen q p)).
Proof. apply LG_SL, SL_l_ae_reply. Qed.

Lemma SL_l_is_reply now n peer g q resp : SL n (l_is_reply now n peer g q resp).
Proof.
  unfold l_is_reply.
  destruct (f_snap (fobj n peer g)) as [[s o]|]; [|apply SL_refl].
  destruct resp as [p|]; [|apply SL_refl].
  destruct (n_term n <? isr_term p); [apply SL_become_follower|].
  destruct (negb (isr_written p =? is_offset q)); [apply SL_set_fobj|].
  destruct (negb (is_done q)); [apply SL_refl|apply SL_set_fobj].
Qed.
Lemma LG_l_is_reply now m peer gen q resp : LG m (l_is_reply now m peer gen q resp).
Proof. apply LG_SL, SL_l_is_reply. Qed.

(* ---------------- client API ---------------- *)
Lemma role_eqb_Leader r : role_eqb r Leader = true -> r = Leader.
Proof. destruct r; [reflexivity|discriminate..]. Qed.

Lemma LG_api_submit now m fid ty p : LG m (api_submit now m fid ty p).
Proof.
  unfold api_submit. destruct (role_eqb (n_role m) Leader) eqn:ER; cbn [negb]; [|apply LG_SL, SL_respond].
  apply role_eqb_Leader in ER.
  destruct ty.
  - eapply LG_then_U; [|eapply U_trans; [apply U_upd_pending|apply U_send_ae_to_peers]].
    apply LG_append1; [reflexivity|reflexivity|exact ER|exact I].
  - apply LG_SL. match goal with |- SL m (if ?c then _ else _) => destruct c end; [|apply SL_upd_ro].
    eapply SL_trans; [|apply SL_upd_sv]. eapply SL_trans; [|apply SL_send_ae_to_peers]. apply SL_upd_ro.
  - apply LG_SL. match goal with |- SL m (if ?c then _ else _) => destruct c end; [|apply SL_upd_ro].
    eapply SL_trans; [|apply SL_signal_ro]. apply SL_upd_ro.
Qed.

(* ---------------- lifecycle ---------------- *)
Lemma SL_crash m : SL m (crash m).
Proof. unfold SL, crash. reflexivity. Qed.
Lemma LG_crash m : LG m (crash m).
Proof. apply LG_SL, SL_crash. Qed.

(* restore() without a snapshot on disk: the log is what log.bin holds *)
Lemma SL_restore x : n_snaps x = [] -> SL x (restore x).
Proof.
  intros Hs. unfold SL, restore.
  set (n1 := x <| n_open := true |> <| n_term := n_pterm x |> <| n_vote := n_pvote x |>).
  assert (S1 : n_snaps n1 = []) by exact Hs.
  assert (L1 : n_log n1 = n_log x) by reflexivity.
  clearbody n1. rewrite S1. cbn [map last].
  destruct (conf_scan _ _ _) as [c cc].
  exact L1.
Qed.

Lemma SL_api_start now n : SL n (api_start now n).
Proof.
  unfold api_start. destruct (negb _); [apply SL_refl|].
  match goal with |- SL n (fold_left ?f ?l ?n2 <| n_contact := _ |> <| n_role := _ |>) =>
    apply SL_trans with n2; [slog|]; apply SL_trans with (fold_left f l n2); [apply SL_new_followers|slog] end.
Qed.

Lemma SL_restart_after_crash now m : n_snaps m = [] -> SL m (restart_after_crash now m).
Proof.
  intros Hs. unfold restart_after_crash.
  eapply SL_trans; [|apply SL_api_start]. eapply SL_trans; [|apply SL_new_opmanager].
  pose proof (SL_crash m) as HC.
  assert (Hx : n_snaps (crash m) = []) by exact Hs.
  set (x := crash m) in *. clearbody x.
  eapply SL_trans; [exact HC|apply SL_restore; exact Hx].
Qed.
Lemma LG_restart_after_crash now m : n_snaps m = [] -> LG m (restart_after_crash now m).
Proof. intros H. apply LG_SL, SL_restart_after_crash, H. Qed.

Print Assumptions LG_l_rv_reply.
Print Assumptions LG_api_submit.
