(* What one step does to the nodes of a world, in four kinds (executions without membership changes and
   without snapshots): nothing; a section that leaves the log alone or - ending as leader - appends one entry
   of its term; the AppendEntries handler on a delivered request; and nothing else.  Later invariants are
   proved by case analysis on these kinds instead of on the twenty labels. *)
From RaftV Require Import Cluster.World Cluster.Statements Proofs.Frame Proofs.RVSpec Proofs.AESpec Proofs.AELog.
From RaftV Require Import Proofs.ConfNode Proofs.ConfStatic Proofs.ConfSticky.
From RaftV Require Import Proofs.Votes Proofs.VoteRecords Proofs.Names Proofs.ElectSpec.
From RaftV Require Import Proofs.ElectDefs Proofs.EFrame Proofs.RoleFrame Proofs.ElectBook Proofs.ElectNode Proofs.ElectSteps
                          Proofs.ElectWorld Proofs.ElectReply Proofs.ElectStep Proofs.ElectRun Proofs.ElectSafety.
From RaftV Require Import Proofs.LogDefs Proofs.LogSeg Proofs.LogUni Proofs.LogInv Proofs.LogAccept Proofs.LogSend Proofs.LogFrame
                          Proofs.NoSnap Proofs.TaePeer Proofs.LogWorld Proofs.LogRun Proofs.LogMatching.
Open Scope N_scope.

Section StepCases.
Variable C : config.
Hypothesis HCnd : NoDup (member_ids C).

Inductive TR (w w' : world) (n n' : node) : Prop :=
| tr_same : n' = n -> TR w w' n n'
| tr_section : (coh n -> S n n') -> LG n n' ->
               (n_role n' = Leader -> lead C (w_calls w') (n_id n) (n_term n')) -> TR w w' n n'
| tr_accept k q : In k (w_calls w) -> c_req k = ReqAE q -> c_dst k = n_id n -> n_frozen n = false ->
               n' = fst (h_append_entries (w_now w) n q) -> TR w w' n n'.

Definition NT (w w' : world) : Prop :=
  forall n', In n' (w_nodes w') -> exists n, In n (w_nodes w) /\ n_id n' = n_id n /\ TR w w' n n'.

Lemma NT_same_nodes w w' : w_nodes w' = w_nodes w -> NT w w'.
Proof. intros E n' Hn'. rewrite E in Hn'. exists n'. split; [exact Hn'|]. split; [reflexivity|apply tr_same; reflexivity]. Qed.

Lemma TR_calls w w1 w2 n n' : CP (w_calls w1) (w_calls w2) -> TR w w1 n n' -> TR w w2 n n'.
Proof.
  intros HCP [E|HS HLG Hl|k q A1 A2 A3 A4 A5]; [apply tr_same; exact E| |eapply tr_accept; eassumption].
  apply tr_section; auto. intros Hr. eapply lead_persist; [exact HCP|apply Hl, Hr].
Qed.

Lemma NT_calls w w1 w2 : w_nodes w2 = w_nodes w1 -> CP (w_calls w1) (w_calls w2) -> NT w w1 -> NT w w2.
Proof.
  intros En HCP H n' Hn'. rewrite En in Hn'. destruct (H n' Hn') as (n & A & B & T). exists n. split; [exact A|]. split; [exact B|].
  eapply TR_calls; eassumption.
Qed.

(* one node replaced *)
Lemma NT_set_node w m m' : In m (w_nodes w) -> n_id m' = n_id m -> TR w (set_node w m') m m' -> NT w (set_node w m').
Proof.
  intros Hm Eid HT n' Hn'. destruct (in_set_node _ _ _ Hn') as [->|[H _]]; [exists m; auto|].
  exists n'. split; [exact H|]. split; [reflexivity|apply tr_same; reflexivity].
Qed.

Lemma TR_section_K w m m' : XInv C w -> In m (w_nodes w) -> (coh m -> R m m') -> LG m m' -> K m m' ->
  TR w (set_node w m') m m'.
Proof.
  intros HX Hm HR HLG HK. apply tr_section; [intros Hc; apply R_S, HR, Hc|exact HLG|].
  intros Hl. change (w_calls (set_node w m')) with (w_calls w). apply (lead_of_K C w m m'); assumption.
Qed.

Lemma NT_on_node_K w id f :
  XInv C w -> (forall m, coh m -> R m (f m)) -> (forall m, LG m (f m)) -> (forall m, K m (f m)) -> NT w (on_node w id f).
Proof.
  intros HX HR HLG HK. unfold on_node. destruct (get_node w id) as [m|] eqn:G; [|apply NT_same_nodes; reflexivity].
  destruct (Votes.get_node_in _ _ _ G) as [Hm _]. pose proof (vi_coh w (x_v C w HX) m Hm) as Hc.
  apply NT_set_node with (m := m); [exact Hm|apply (Votes.r_id _ _ (HR m Hc))|]. apply TR_section_K; auto.
Qed.

Lemma NT_cond_K w id (b : node -> bool) g :
  XInv C w -> (forall m, coh m -> R m (g m)) -> (forall m, LG m (g m)) -> (forall m, K m (g m)) ->
  NT w (on_node w id (fun m => if b m then g m else m)).
Proof.
  intros HX HR HLG HK. apply NT_on_node_K; auto; intros m; destruct (b m); auto using R_refl, LG_refl, K_refl.
Qed.

Lemma NT_on_node_S w id f :
  (forall m, S m (f m)) -> (forall m, n_log (f m) = n_log m) -> (forall m, n_role (f m) <> Leader) -> NT w (on_node w id f).
Proof.
  intros HS HLog HR. unfold on_node. destruct (get_node w id) as [m|] eqn:G; [|apply NT_same_nodes; reflexivity].
  destruct (Votes.get_node_in _ _ _ G) as [Hm _]. destruct (HS m) as [Eid _].
  apply NT_set_node with (m := m); [exact Hm|exact Eid|]. apply tr_section; [intros _; apply HS|left; apply HLog|].
  intros Hl. destruct (HR m Hl).
Qed.

Lemma NT_trans_calls w w1 w2 : NT w w1 -> w_nodes w2 = w_nodes w1 -> CP (w_calls w1) (w_calls w2) -> NT w w2.
Proof. intros H E HCP. eapply NT_calls; eassumption. Qed.

(* ---------------- every step, nodes ---------------- *)
Lemma NT_step_deliver w c dup :
  XInv C w -> NSW w -> In c (w_calls w) -> (dup = false -> c_state c = CPending) -> NT w (step_deliver w c dup).
Proof.
  intros HX HNS Hc Hst. pose proof (x_v C w HX) as HV.
  assert (Hsame : forall w1, w_nodes w1 = w_nodes w -> NT w w1) by (intros w1 E; apply NT_same_nodes, E).
  unfold step_deliver. destruct (get_node w (c_dst c)) as [n|] eqn:G.
  2:{ destruct dup; apply Hsame; reflexivity. }
  destruct (Votes.get_node_in _ _ _ G) as [Hn Eid]. pose proof (vi_coh w HV n Hn) as Hcoh.
  destruct (n_frozen n) eqn:F; [destruct dup; apply Hsame; reflexivity|].
  assert (H1 : NT w (set_node w (fst (fst (run_handler (w_now w) n (c_req c)))))).
  { pose proof (ns_calls w HNS c Hc) as Hq. unfold ns_call in Hq.
    destruct (c_req c) as [q|q|q] eqn:Eq; [| |contradiction].
    - unfold run_handler. destruct (h_append_entries (w_now w) n q) as [n1 p] eqn:EH. cbn [fst].
      replace n1 with (fst (h_append_entries (w_now w) n q)) by (rewrite EH; reflexivity).
      apply NT_set_node with (m := n); [exact Hn|apply (Votes.r_id _ _ (R_append_entries (w_now w) n q Hcoh))|].
      apply tr_accept with (k := c) (q := q); auto.
    - unfold run_handler. destruct (h_request_vote (w_now w) n q) as [n1 p] eqn:EH. cbn [fst].
      replace n1 with (fst (h_request_vote (w_now w) n q)) by (rewrite EH; reflexivity).
      apply NT_set_node with (m := n); [exact Hn|apply (Votes.r_id _ _ (R_request_vote (w_now w) n q Hcoh))|].
      apply TR_section_K; auto; [intros Hc0; apply R_request_vote, Hc0|apply LG_h_request_vote|apply K_h_request_vote]. }
  destruct (run_handler (w_now w) n (c_req c)) as [[n1 resp] parked]. cbn [fst] in H1.
  destruct dup; [exact H1|].
  assert (Hcp : forall c', call_key c' = call_key c -> (c_resp c' = c_resp c \/ c_resp c = None) ->
                 NT w (set_call (set_node w n1) c')).
  { intros c' Ek Hr. eapply NT_calls; [| |exact H1]; [reflexivity|].
    change (w_calls (set_call (set_node w n1) c')) with (upd_call c' (w_calls w)). change (w_calls (set_node w n1)) with (w_calls w).
    apply CP_set with (c := c); auto. apply (vi_nodup w HV). }
  destruct (n_frozen n1); [apply Hcp; [reflexivity|left; reflexivity]|].
  destruct resp as [p|]; [|apply Hcp; [reflexivity|left; reflexivity]].
  apply Hcp; [reflexivity|right; apply (vi_pend w HV c Hc (Hst eq_refl))].
Qed.

Lemma NT_step_reply w c failed :
  XInv C w -> WI C w -> NSW w -> In c (w_calls w) -> c_state c <> CDone -> (failed = false -> c_state c = CAnswered) ->
  NT w (step_reply w c failed).
Proof.
  intros HX HW HNS Hc Hnd Hst. pose proof (x_v C w HX) as HV. unfold step_reply.
  set (c0 := c <| c_state := CDone |>). set (w0 := set_call w c0).
  assert (HX0 : XInv C w0) by (apply XInv_set_state; [exact HX|exact Hc|discriminate|right; reflexivity]).
  assert (HCP0 : CP (w_calls w) (w_calls w0)).
  { change (w_calls w0) with (upd_call c0 (w_calls w)). apply CP_set with (c := c); auto. apply (vi_nodup w HV). }
  assert (H0 : NT w w0) by (apply NT_same_nodes; reflexivity).
  destruct (get_node w (c_src c)) as [n|] eqn:G; [|exact H0].
  destruct (Votes.get_node_in _ _ _ G) as [Hn Eid]. pose proof (vi_coh w HV n Hn) as Hcoh.
  assert (Hn0 : In n (w_nodes w0)) by exact Hn.
  destruct (n_frozen n) eqn:F; [exact H0|].
  pose proof (ns_calls w HNS c Hc) as Hq. unfold ns_call in Hq.
  (* a section of node n in world w0, reported relative to w *)
  assert (Hsec : forall m', (coh n -> R n m') -> LG n m' ->
            (n_role m' = Leader -> lead C (w_calls w0) (n_id n) (n_term m')) -> NT w (set_node w0 m')).
  { intros m' HR HLG Hl n' Hn'. destruct (in_set_node _ _ _ Hn') as [->|[H _]].
    - exists n. split; [exact Hn|]. split; [apply (Votes.r_id _ _ (HR Hcoh))|].
      apply tr_section; [intros Hc0; apply R_S, HR, Hc0|exact HLG|exact Hl].
    - exists n'. split; [exact H|]. split; [reflexivity|apply tr_same; reflexivity]. }
  destruct (c_req c) as [q|q|q] eqn:Eq; [| |contradiction].
  - destruct (if failed then None else c_resp c) as [[p|p|p]|]; try exact H0.
    destruct (ae_reply_ns (w_now w) n (c_round c) (c_dst c) (c_fgen c) q p (ns_nodes w HNS n Hn)) as [_ Hnone].
    pose proof (LG_l_ae_reply (w_now w) n (c_round c) (c_dst c) (c_fgen c) q p) as HLG.
    pose proof (K_ae_reply (w_now w) n (c_round c) (c_dst c) (c_fgen c) q p) as HK.
    pose proof (R_ae_reply (w_now w) n (c_round c) (c_dst c) (c_fgen c) q p) as HR.
    destruct (l_ae_reply (w_now w) n (c_round c) (c_dst c) (c_fgen c) q p) as [n1 o]. cbn [fst snd] in *. subst o.
    apply Hsec; auto. intros Hl. apply (lead_of_K C w0 n n1); auto.
  - destruct failed; [exact H0|]. specialize (Hst eq_refl).
    destruct (c_resp c) as [[p|p|p]|] eqn:Ep; try exact H0.
    assert (HXp : XInv C (set_node w0 (l_rv_reply (w_now w) n (c_round c) (c_dst c) (rv_prevote q) q p))) by (apply XInv_rv_reply; auto).
    apply Hsec; [intros Hc0; apply R_rv_reply, Hc0|apply LG_l_rv_reply|].
    intros Hl. apply (lead_of_post C w0 n _ HXp Hn0); [apply (Votes.r_id _ _ (R_rv_reply _ _ _ _ _ _ _ Hcoh))|exact Hl].
Qed.

Lemma NT_step_task w m :
  XInv C w -> NSW w -> In m (w_nodes w) -> is_up m = true -> NT w (step_task w m).
Proof.
  intros HX HNS Hm Hup. unfold step_task. destruct (n_tasks m) as [|t rest] eqn:Et; [apply NT_same_nodes; reflexivity|].
  set (n0 := m <| n_tasks := rest |>).
  assert (Hsec : forall m', Q m m' -> n_log m' = n_log m -> K m m' -> NT w (set_node w m')).
  { intros m' HQ El HK. apply NT_set_node with (m := m); [exact Hm|apply (q_id _ _ HQ)|].
    apply TR_section_K; auto; [intros _; apply Q_R, HQ|left; exact El]. }
  assert (H0 : NT w (set_node w n0)) by (apply Hsec; [qtv|reflexivity|apply K_of_rt; reflexivity]).
  destruct t as [rid peer pv|rid peer].
  - destruct (l_rv_send n0 rid peer pv) as [q|]; [|exact H0].
    eapply NT_calls; [| |exact H0]; [reflexivity|apply CP_app].
  - pose proof (SL_l_ae_send n0 peer) as HSL. pose proof (Q_ae_send n0 peer) as HQ. pose proof (K_l_ae_send n0 peer) as HK.
    destruct (l_ae_send n0 peer) as [n1 sn]. cbn [fst] in *. unfold SL in HSL.
    assert (H1 : NT w (set_node w n1)).
    { apply Hsec; [apply Q_trans with n0; [qtv|exact HQ]|rewrite HSL; reflexivity|].
      apply K_trans with n0; [apply K_of_rt; reflexivity|exact HK]. }
    destruct sn as [|q|q]; [exact H1| |]; (eapply NT_calls; [| |exact H1]; [reflexivity|apply CP_app]).
Qed.

Theorem step_NT w l : static_label l = true -> nosnap_label l = true -> ALL C w -> NT w (step w l).
Proof.
  intros Hst Hns [HW HX HU HNS HTA HL]. pose proof (x_v C w HX) as HV.
  destruct l; cbn [step]; try discriminate Hst; try discriminate Hns.
  - apply NT_same_nodes. reflexivity.
  - apply NT_cond_K; auto; [intros m _; apply Q_R, Q_signal_election|apply LG_signal_election|intros m; apply K_of_rt; reflexivity].
  - apply NT_cond_K; auto; [intros m _; apply Q_R, Q_heartbeat|apply LG_l_heartbeat|apply K_l_heartbeat].
  - destruct (get_call w c) as [cl|] eqn:G; [|apply NT_same_nodes; reflexivity]. destruct (VoteRecords.get_call_in _ _ _ G) as [Hin _].
    destruct (c_state cl) eqn:Es; try (apply NT_same_nodes; reflexivity). apply NT_step_deliver; auto.
  - destruct (get_call w c) as [cl|] eqn:G; [|apply NT_same_nodes; reflexivity]. destruct (VoteRecords.get_call_in _ _ _ G) as [Hin _].
    apply NT_step_deliver; auto. discriminate.
  - destruct (get_call w c) as [cl|] eqn:G; [|apply NT_same_nodes; reflexivity]. destruct (VoteRecords.get_call_in _ _ _ G) as [Hin _].
    destruct (c_state cl) eqn:Es; try (apply NT_same_nodes; reflexivity). apply NT_step_reply; auto; rewrite Es; discriminate.
  - destruct (get_call w c) as [cl|] eqn:G; [|apply NT_same_nodes; reflexivity]. destruct (VoteRecords.get_call_in _ _ _ G) as [Hin _].
    destruct (c_state cl) eqn:Es; try (apply NT_same_nodes; reflexivity); apply NT_step_reply; auto; try (rewrite Es; discriminate); discriminate.
  - unfold fresh_fid.
    assert (HX1 : XInv C (w <| w_next_fid ::= N.succ |>)) by (eapply XInv_same; [| | |exact HX]; reflexivity).
    assert (H1 : NT (w <| w_next_fid ::= N.succ |>) (on_node (w <| w_next_fid ::= N.succ |>) n (fun m => if n_frozen m then m else api_submit (w_now w) m (w_next_fid w) ty payload))).
    { apply NT_on_node_K; auto.
      - intros m _. destruct (n_frozen m); [apply R_refl|apply Q_R, Q_submit].
      - intros m. destruct (n_frozen m); [apply LG_refl|apply LG_api_submit].
      - intros m. destruct (n_frozen m); [apply K_refl|apply K_api_submit]. }
    intros n' Hn'. destruct (H1 n' Hn') as (n0 & A & B & T). exists n0. split; [exact A|]. split; [exact B|].
    destruct T as [E|HS HLG Hl|k q A1 A2 A3 A4 A5]; [apply tr_same; exact E|apply tr_section; assumption|eapply tr_accept; eassumption].
  - (* LCrash *) apply (NT_calls w (on_node w n crash)); [reflexivity| |].
    + unfold drop_calls_of. cbn [w_calls set]. apply CP_map. intros k. destruct (c_src k =? n); split; reflexivity.
    + apply NT_on_node_S; [apply S_crash|intros m; reflexivity|intros m; rewrite role_crash; discriminate].
  - (* LRestart *) unfold on_node. destruct (get_node w n) as [m|] eqn:G; [|apply NT_same_nodes; reflexivity].
    destruct (Votes.get_node_in _ _ _ G) as [Hm _].
    destruct (role_eqb (n_role m) Shutdown).
    + destruct (ns_nodes w HNS m Hm) as (_ & _ & Hsn & _). pose proof (S_restart (w_now w) m) as HS. pose proof HS as (Eid & _).
      apply NT_set_node with (m := m); [exact Hm|exact Eid|]. apply tr_section; [intros _; exact HS|left; apply (SL_restart_after_crash (w_now w) m Hsn)|].
      intros Hl. rewrite role_restart in Hl. discriminate.
    + apply NT_set_node with (m := m); [exact Hm|reflexivity|apply tr_same; reflexivity].
  - apply NT_on_node_K; auto; [intros m _; apply Q_R, Q_upd_budget|intros m; left; reflexivity|intros m; apply K_of_rt; reflexivity].
  - apply NT_on_node_K; auto; [intros m _; apply Q_R; qtv|intros m; left; reflexivity|intros m; apply K_of_rt; reflexivity].
  - apply NT_on_node_K; auto; [intros m _; apply Q_R; qtv|intros m; left; reflexivity|intros m; apply K_of_rt; reflexivity].
  - apply NT_on_node_K; auto; [intros m _; apply Q_R; qtv|intros m; left; reflexivity|intros m; apply K_of_rt; reflexivity].
  - destruct (get_node w n) as [m|] eqn:G; [|apply NT_same_nodes; reflexivity]. destruct (is_up m) eqn:Hup; [|apply NT_same_nodes; reflexivity].
    destruct (Votes.get_node_in _ _ _ G) as [Hm _]. apply NT_step_task; auto.
  - (* LElectionRun *) unfold on_node. destruct (get_node w n) as [m|] eqn:G; [|apply NT_same_nodes; reflexivity].
    destruct (Votes.get_node_in _ _ _ G) as [Hm _]. pose proof (vi_coh w HV m Hm) as Hc.
    destruct (is_up m && cv_election (n_cv m)); [|apply NT_set_node with (m := m); [exact Hm|reflexivity|apply tr_same; reflexivity]].
    assert (HXp : XInv C (set_node w (l_election (w_now w) m))) by (apply XInv_election; auto; eapply get_node_id; exact G).
    pose proof (R_election (w_now w) m Hc) as HR.
    apply NT_set_node with (m := m); [exact Hm|apply (Votes.r_id _ _ HR)|].
    apply tr_section; [intros _; apply R_S, HR|apply LG_l_election|].
    intros Hl. change (w_calls (set_node w (l_election (w_now w) m))) with (w_calls w).
    apply (lead_of_post C w m _ HXp Hm (Votes.r_id _ _ HR) Hl).
  - apply NT_cond_K; auto; [intros m _; apply Q_R, Q_commit|apply LG_lp_commit|apply K_lp_commit].
  - apply NT_cond_K; auto; [intros m _; apply Q_R, Q_apply|apply LG_lp_apply|apply K_lp_apply].
  - apply NT_cond_K; auto; [intros m _; apply Q_R, Q_ro|apply LG_lp_ro|apply K_lp_ro].
  - destruct (get_node w n) as [m|] eqn:G; [|apply NT_same_nodes; reflexivity].
    destruct (Votes.get_node_in _ _ _ G) as [Hm _]. rewrite (install_resume_ns m (ns_nodes w HNS m Hm)). apply NT_same_nodes. reflexivity.
Qed.

(* ---------------- every step, RPC records ---------------- *)
Definition NCk (w : world) (k' : call) : Prop :=
  (exists k, In k (w_calls w) /\ call_key k' = call_key k) \/
  (exists m, In m (w_nodes w) /\ c_src k' = n_id m /\
     match c_req k' with
     | ReqAE q => n_role m = Leader /\ ae_term q = n_term m /\ c_dst k' <> n_id m /\ wf_seg (seg_of_req q) /\
                  (forall i e, eget (seg_of_req q) i = Some e -> eget (seg_of_log (n_log m)) i = Some e) /\
                  tget (seg_of_log (n_log m)) (ae_prev_index q) = Some (ae_prev_term q)
     | ReqRV _ => True
     | ReqIS _ => False
     end).
Definition NC (w w' : world) : Prop := forall k', In k' (w_calls w') -> NCk w k'.

Lemma NC_keys w w' : (forall k', In k' (w_calls w') -> exists k, In k (w_calls w) /\ call_key k' = call_key k) -> NC w w'.
Proof. intros H k' Hk'. left. apply H, Hk'. Qed.

Lemma NC_same w w' : w_calls w' = w_calls w -> NC w w'.
Proof. intros E. apply NC_keys. intros k' Hk'. rewrite E in Hk'. exists k'. auto. Qed.

Lemma keys_set_call w1 w c c0 : w_calls w1 = w_calls w -> In c (w_calls w) -> call_key c0 = call_key c ->
  forall k', In k' (w_calls (set_call w1 c0)) -> exists k, In k (w_calls w) /\ call_key k' = call_key k.
Proof.
  intros E Hc Ek k' Hk'. change (w_calls (set_call w1 c0)) with (upd_call c0 (w_calls w1)) in Hk'. rewrite E in Hk'.
  apply in_upd_call in Hk'. destruct Hk' as [H|[-> _]]; [exists k'; auto|exists c; auto].
Qed.

Lemma NC_step_deliver w c dup : In c (w_calls w) -> NC w (step_deliver w c dup).
Proof.
  intros Hc. apply NC_keys. unfold step_deliver. destruct (get_node w (c_dst c)) as [n|].
  2:{ destruct dup; [intros k' H; exists k'; auto|apply keys_set_call with (c := c); auto]. }
  destruct (n_frozen n); [destruct dup; [intros k' H; exists k'; auto|apply keys_set_call with (c := c); auto]|].
  destruct (run_handler (w_now w) n (c_req c)) as [[n1 resp] parked].
  destruct dup; [intros k' H; exists k'; auto|].
  destruct (n_frozen n1); [apply keys_set_call with (c := c); auto|].
  destruct resp; apply keys_set_call with (c := c); auto.
Qed.

Lemma NC_step_reply w c failed : NSW w -> In c (w_calls w) -> NC w (step_reply w c failed).
Proof.
  intros HNS Hc. apply NC_keys. unfold step_reply. set (w0 := set_call w (c <| c_state := CDone |>)).
  assert (H0 : forall k', In k' (w_calls w0) -> exists k, In k (w_calls w) /\ call_key k' = call_key k)
    by (apply keys_set_call with (c := c); auto).
  destruct (get_node w (c_src c)) as [n|] eqn:G; [|exact H0]. destruct (Votes.get_node_in _ _ _ G) as [Hn _].
  destruct (n_frozen n); [exact H0|].
  destruct (c_req c) as [q|q|q]; destruct (if failed then None else c_resp c) as [[p|p|p]|]; try exact H0.
  destruct (ae_reply_ns (w_now w) n (c_round c) (c_dst c) (c_fgen c) q p (ns_nodes w HNS n Hn)) as [_ Hnone].
  destruct (l_ae_reply (w_now w) n (c_round c) (c_dst c) (c_fgen c) q p) as [n1 o]. cbn [snd] in Hnone. subst o. exact H0.
Qed.

Lemma NC_step_task w m : NSW w -> TAEW w -> LMI C w -> In m (w_nodes w) -> NC w (step_task w m).
Proof.
  intros HNS HTA HL Hm. unfold step_task. destruct (n_tasks m) as [|t rest] eqn:Et; [apply NC_same; reflexivity|].
  set (n0 := m <| n_tasks := rest |>).
  destruct t as [rid peer pv|rid peer].
  - destruct (l_rv_send n0 rid peer pv) as [q|]; [|apply NC_same; reflexivity].
    intros k' Hk'. unfold new_call in Hk'. cbn [w_calls set] in Hk'. apply in_app_or in Hk'.
    destruct Hk' as [H|[<-|[]]]; [left; exists k'; auto|]. right. exists m. cbn. auto.
  - assert (Hns0 : ns_node n0) by (apply (ns_nf n0 m); [reflexivity|apply (ns_nodes w HNS m Hm)]).
    destruct (ae_send_ns n0 peer Hns0) as [_ Hsent].
    pose proof (SL_l_ae_send n0 peer) as HSL. pose proof (ae_send_named n0 peer) as Hnamed. pose proof (ae_send_term n0 peer) as Hterm.
    pose proof (ae_send_seg n0 peer) as Hseg.
    destruct (l_ae_send n0 peer) as [n1 sn]. cbn [fst snd] in *.
    destruct sn as [|q|q]; [apply NC_same; reflexivity| |contradiction].
    destruct (Hnamed n1 (SentAE q) eq_refl) as [Hld Hrole]. specialize (Hterm n1 (SentAE q) eq_refl). cbn in Hterm.
    assert (Hwf0 : wf_seg (seg_of_log (n_log n0))) by (apply (lm_wf C w HL); left; exists m; auto).
    destruct (Hseg n1 q Hns0 Hwf0 eq_refl) as (S1 & S2 & S3).
    intros k' Hk'. unfold new_call in Hk'. cbn [w_calls set] in Hk'. apply in_app_or in Hk'.
    destruct Hk' as [H|[<-|[]]]; [left; exists k'; auto|]. right. exists m. cbn.
    split; [exact Hm|]. split; [reflexivity|]. split; [exact Hrole|]. split; [exact Hterm|].
    split; [apply (HTA m Hm rid peer); rewrite Et; left; reflexivity|]. auto.
Qed.

Theorem step_NC w l : static_label l = true -> nosnap_label l = true -> ALL C w -> NC w (step w l).
Proof.
  intros Hst Hns [HW HX HU HNS HTA HL].
  assert (Hon : forall w1 id f, w_calls w1 = w_calls w -> NC w (on_node w1 id f)).
  { intros w1 id f E. apply NC_same. unfold on_node. destruct (get_node w1 id); exact E. }
  destruct l; cbn [step]; try discriminate Hst; try discriminate Hns; try (apply Hon; reflexivity).
  - apply NC_same. reflexivity.
  - destruct (get_call w c) as [cl|] eqn:G; [|apply NC_same; reflexivity]. destruct (VoteRecords.get_call_in _ _ _ G) as [Hin _].
    destruct (c_state cl); try (apply NC_same; reflexivity). apply NC_step_deliver; auto.
  - destruct (get_call w c) as [cl|] eqn:G; [|apply NC_same; reflexivity]. destruct (VoteRecords.get_call_in _ _ _ G) as [Hin _].
    apply NC_step_deliver; auto.
  - destruct (get_call w c) as [cl|] eqn:G; [|apply NC_same; reflexivity]. destruct (VoteRecords.get_call_in _ _ _ G) as [Hin _].
    destruct (c_state cl); try (apply NC_same; reflexivity). apply NC_step_reply; auto.
  - destruct (get_call w c) as [cl|] eqn:G; [|apply NC_same; reflexivity]. destruct (VoteRecords.get_call_in _ _ _ G) as [Hin _].
    destruct (c_state cl); try (apply NC_same; reflexivity); apply NC_step_reply; auto.
  - apply NC_keys. intros k' Hk'. unfold drop_calls_of in Hk'. cbn [w_calls set] in Hk'. apply in_map_iff in Hk'.
    destruct Hk' as (d & <- & Hd). exists d. rewrite calls_on_node in Hd. split; [exact Hd|]. destruct (c_src d =? n); reflexivity.
  - destruct (get_node w n) as [m|] eqn:G; [|apply NC_same; reflexivity]. destruct (is_up m); [|apply NC_same; reflexivity].
    destruct (Votes.get_node_in _ _ _ G) as [Hm _]. apply NC_step_task; auto.
  - destruct (get_node w n) as [m|] eqn:G; [|apply NC_same; reflexivity].
    destruct (Votes.get_node_in _ _ _ G) as [Hm _]. rewrite (install_resume_ns m (ns_nodes w HNS m Hm)). apply NC_same. reflexivity.
Qed.

(* ---------------- every step, responses ---------------- *)
(* a response on a record of the new world is an old response, or was produced in this step by the handler
   of the destination node, which is not frozen before nor after *)
Definition RSk (w w' : world) (k' : call) (p : response) : Prop :=
  (exists k, In k (w_calls w) /\ call_key k' = call_key k /\ c_resp k = Some p) \/
  (exists k n, In k (w_calls w) /\ call_key k' = call_key k /\ c_resp k = None /\
               In n (w_nodes w) /\ n_id n = c_dst k /\ n_frozen n = false /\
               snd (fst (run_handler (w_now w) n (c_req k))) = Some p /\
               n_frozen (fst (fst (run_handler (w_now w) n (c_req k)))) = false /\
               In (fst (fst (run_handler (w_now w) n (c_req k)))) (w_nodes w')).
Definition RS (w w' : world) : Prop := forall k' p, In k' (w_calls w') -> c_resp k' = Some p -> RSk w w' k' p.

Lemma RS_old w w' :
  (forall k', In k' (w_calls w') -> exists k, In k (w_calls w) /\ call_key k' = call_key k /\ c_resp k' = c_resp k) -> RS w w'.
Proof. intros H k' p Hk' Ep. destruct (H k' Hk') as (k & A & B & D). left. exists k. rewrite <- D. auto. Qed.

Lemma RS_same w w' : w_calls w' = w_calls w -> RS w w'.
Proof. intros E. apply RS_old. intros k' Hk'. rewrite E in Hk'. exists k'. auto. Qed.

Lemma old_set_call w1 w c c0 : w_calls w1 = w_calls w -> In c (w_calls w) -> call_key c0 = call_key c -> c_resp c0 = c_resp c ->
  forall k', In k' (w_calls (set_call w1 c0)) -> exists k, In k (w_calls w) /\ call_key k' = call_key k /\ c_resp k' = c_resp k.
Proof.
  intros E Hc Ek Er k' Hk'. change (w_calls (set_call w1 c0)) with (upd_call c0 (w_calls w1)) in Hk'. rewrite E in Hk'.
  apply in_upd_call in Hk'. destruct Hk' as [H|[-> _]]; [exists k'; auto|exists c; auto].
Qed.

Lemma RS_step_deliver w c dup : VInv w -> In c (w_calls w) -> (dup = false -> c_state c = CPending) -> RS w (step_deliver w c dup).
Proof.
  intros HV Hc Hst. unfold step_deliver. destruct (get_node w (c_dst c)) as [n|] eqn:G.
  2:{ destruct dup; [apply RS_same; reflexivity|apply RS_old, old_set_call with (c := c); auto]. }
  destruct (Votes.get_node_in _ _ _ G) as [Hn Eid].
  destruct (n_frozen n) eqn:F; [destruct dup; [apply RS_same; reflexivity|apply RS_old, old_set_call with (c := c); auto]|].
  destruct (run_handler (w_now w) n (c_req c)) as [[n1 resp] parked] eqn:ER.
  destruct dup; [apply RS_same; reflexivity|]. specialize (Hst eq_refl).
  destruct (n_frozen n1) eqn:F1; [apply RS_old, old_set_call with (c := c); auto|].
  destruct resp as [p0|]; [|apply RS_old, old_set_call with (c := c); auto].
  intros k' p Hk' Ep.
  match type of Hk' with In k' (w_calls (set_call _ ?c')) => change (In k' (upd_call c' (w_calls w))) in Hk' end.
  apply in_upd_call in Hk'. destruct Hk' as [H|[-> _]]; [left; exists k'; auto|].
  cbn in Ep. injection Ep as <-. right. exists c, n. rewrite ER. cbn [fst snd].
  repeat split; auto; [apply (vi_pend w HV c Hc Hst)|].
  match goal with |- In n1 (w_nodes (set_call ?w1 _)) => change (In n1 (w_nodes w1)) end.
  apply in_set_node_self with (m := n); [exact Hn|].
  pose proof (R_run_handler (w_now w) n (c_req c) (vi_coh w HV n Hn)) as HR. rewrite ER in HR. cbn [fst] in HR. apply (Votes.r_id _ _ HR).
Qed.

Lemma RS_step_reply w c failed : NSW w -> In c (w_calls w) -> RS w (step_reply w c failed).
Proof.
  intros HNS Hc. apply RS_old. unfold step_reply. set (w0 := set_call w (c <| c_state := CDone |>)).
  assert (H0 : forall k', In k' (w_calls w0) -> exists k, In k (w_calls w) /\ call_key k' = call_key k /\ c_resp k' = c_resp k)
    by (apply old_set_call with (c := c); auto).
  destruct (get_node w (c_src c)) as [n|] eqn:G; [|exact H0]. destruct (Votes.get_node_in _ _ _ G) as [Hn _].
  destruct (n_frozen n); [exact H0|].
  destruct (c_req c) as [q|q|q]; destruct (if failed then None else c_resp c) as [[p|p|p]|]; try exact H0.
  destruct (ae_reply_ns (w_now w) n (c_round c) (c_dst c) (c_fgen c) q p (ns_nodes w HNS n Hn)) as [_ Hnone].
  destruct (l_ae_reply (w_now w) n (c_round c) (c_dst c) (c_fgen c) q p) as [n1 o]. cbn [snd] in Hnone. subst o. exact H0.
Qed.

Lemma RS_new_call w1 w src dst rid g q : RS w w1 -> RS w (new_call w1 src dst rid g q).
Proof.
  intros H k' p Hk' Ep. unfold new_call in Hk'. cbn [w_calls set] in Hk'. apply in_app_or in Hk'.
  destruct Hk' as [Hk'|[<-|[]]]; [apply H; assumption|]. cbn in Ep. discriminate.
Qed.

Theorem step_RS w l : static_label l = true -> nosnap_label l = true -> ALL C w -> RS w (step w l).
Proof.
  intros Hst Hns [HW HX HU HNS HTA HL]. pose proof (x_v C w HX) as HV.
  assert (Hon : forall w1 id f, w_calls w1 = w_calls w -> RS w (on_node w1 id f)).
  { intros w1 id f E. apply RS_same. unfold on_node. destruct (get_node w1 id); exact E. }
  destruct l; cbn [step]; try discriminate Hst; try discriminate Hns; try (apply Hon; reflexivity).
  - apply RS_same. reflexivity.
  - destruct (get_call w c) as [cl|] eqn:G; [|apply RS_same; reflexivity]. destruct (VoteRecords.get_call_in _ _ _ G) as [Hin _].
    destruct (c_state cl) eqn:Es; try (apply RS_same; reflexivity). apply RS_step_deliver; auto.
  - destruct (get_call w c) as [cl|] eqn:G; [|apply RS_same; reflexivity]. destruct (VoteRecords.get_call_in _ _ _ G) as [Hin _].
    apply RS_step_deliver; auto. discriminate.
  - destruct (get_call w c) as [cl|] eqn:G; [|apply RS_same; reflexivity]. destruct (VoteRecords.get_call_in _ _ _ G) as [Hin _].
    destruct (c_state cl); try (apply RS_same; reflexivity). apply RS_step_reply; auto.
  - destruct (get_call w c) as [cl|] eqn:G; [|apply RS_same; reflexivity]. destruct (VoteRecords.get_call_in _ _ _ G) as [Hin _].
    destruct (c_state cl); try (apply RS_same; reflexivity); apply RS_step_reply; auto.
  - apply RS_old. intros k' Hk'. unfold drop_calls_of in Hk'. cbn [w_calls set] in Hk'. apply in_map_iff in Hk'.
    destruct Hk' as (d & <- & Hd). exists d. rewrite calls_on_node in Hd. split; [exact Hd|]. destruct (c_src d =? n); split; reflexivity.
  - destruct (get_node w n) as [m|] eqn:G; [|apply RS_same; reflexivity]. destruct (is_up m); [|apply RS_same; reflexivity].
    unfold step_task. destruct (n_tasks m) as [|t rest]; [apply RS_same; reflexivity|]. destruct t as [rid peer pv|rid peer].
    + destruct (l_rv_send _ rid peer pv); [apply RS_new_call|]; apply RS_same; reflexivity.
    + destruct (l_ae_send _ peer) as [n1 [|q|q]]; [|apply RS_new_call|apply RS_new_call]; apply RS_same; reflexivity.
  - destruct (get_node w n) as [m|] eqn:G; [|apply RS_same; reflexivity].
    destruct (Votes.get_node_in _ _ _ G) as [Hm _]. rewrite (install_resume_ns m (ns_nodes w HNS m Hm)). apply RS_same. reflexivity.
Qed.

End StepCases.
