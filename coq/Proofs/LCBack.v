(* Commit backing (C07 first half, C01): the commit index of every node, the leaderCommit of every request and
   every application handed to the state machine are backed by an entry acknowledged by a majority, and the log
   below follows that entry's chain. One step. *)
From Coq Require Import Classical.
From RaftV Require Import Cluster.World Cluster.Statements Proofs.Frame Proofs.RVSpec Proofs.AESpec Proofs.AELog Proofs.AEFull.
From RaftV Require Import Proofs.ConfNode Proofs.ConfStatic Proofs.ConfSticky.
From RaftV Require Import Proofs.Votes Proofs.VoteRecords Proofs.Names Proofs.ElectSpec.
From RaftV Require Import Proofs.ElectDefs Proofs.RoleFrame Proofs.ElectBook Proofs.ElectWorld Proofs.ElectRun Proofs.ElectSafety.
From RaftV Require Import Proofs.Tails1 Proofs.LogDefs Proofs.LogSeg Proofs.LogUni Proofs.LogInv Proofs.LogAccept Proofs.LogFrame Proofs.NoSnap Proofs.TaePeer
                          Proofs.LogWorld Proofs.LogRun Proofs.LogMatching Proofs.StepCases Proofs.NewCalls Proofs.LeaderLog Proofs.SortedTerms Proofs.ReachInd Proofs.ReqTerm
                          Proofs.LCDefs Proofs.LCHist Proofs.LCCore Proofs.LCStep Proofs.LCStep2 Proofs.LCCtx Proofs.LCtt Proofs.LCClauses Proofs.LCReach
                          Proofs.LCPersist Proofs.LCChain Proofs.LCReq Proofs.LCQuorum Proofs.FollowerKeys Proofs.CommitSteps Proofs.AEAny.
Open Scope N_scope.

Definition backed (C : config) (w : world) (B c : N) (ej : entry) : Prop :=
  is_entry w ej /\ committed C (w_calls w) ej /\ e_term ej <= B /\ c <= e_index ej.

Record CBI (C : config) (w : world) : Prop := {
  cb_node : forall n, In n (w_nodes w) -> n_frozen n = false -> 2 <= n_commit n -> exists ej, backed C w (n_term n) (n_commit n) ej /\
     forall i ec, 2 <= i -> i <= n_commit n -> eget (seg_of_log (n_log n)) i = Some ec -> chain_at w ej i ec;
  cb_req : forall k q, In k (w_calls w) -> c_req k = ReqAE q -> 2 <= ae_commit q -> exists ej, backed C w (ae_term q) (ae_commit q) ej /\
     (e_index ej <= ae_prev_index q -> e_term ej <= ae_prev_term q) /\
     (2 <= ae_prev_index q -> ae_prev_index q < e_index ej -> exists eb, chain_at w ej (ae_prev_index q) eb /\ e_term eb = ae_prev_term q);
  cb_app : forall n i t p, In n (w_nodes w) -> In (i, t, p) (n_applies n) -> 2 <= i /\ exists ej ec, is_entry w ej /\ committed C (w_calls w) ej /\
     i <= e_index ej /\ chain_at w ej i ec /\ e_term ec = t /\ e_kind ec = KOp p }.

(* a leader has won its term *)
Lemma leader_lead C w L : ALL C w -> In L (w_nodes w) -> n_role L = Leader -> lead C (w_calls w) (n_id L) (n_term L).
Proof.
  intros HA HinL Hrole. pose proof (a_x C w HA) as HX. assert (Hact : active (n_role L)) by (rewrite Hrole; unfold active; auto).
  destruct (x_l0 C w HX L HinL Hact) as [_ Hvoter]. split; [exact Hvoter|intros Hm; apply (x_l C w HX L HinL Hrole Hm)].
Qed.

Section Back.
Variables (C : config) (w : world) (l : label).
Hypothesis HC : CTX C w l.
Hypothesis HQ : RQI C w.
Hypothesis HB : CBI C w.
Hypothesis Hfk : forall n, In n (w_nodes w) -> fk_ok n.
Let w' := step w l.
Let HCnd := cx_nd C w l HC.
Let Hst := cx_st C w l HC.
Let Hns := cx_ns C w l HC.
Let HF := cx_f C w l HC.
Let HF' := cx_f' C w l HC.
Let HA := f_all C w HF.
Let HA' := f_all C w' HF'.
Let HI := cx_i C w l HC.
Let HI' : LCI C w' := step_LCI C w l HC.
Let HQ' : RQI C w' := step_RQI C w l HC HQ.
Let HL := a_lm C w HA.
Let HL' := a_lm C w' HA'.
Let HU := a_uni C w HA.
Let HU' := a_uni C w' HA'.

Lemma live' ej : committed C (w_calls w') ej -> ~ dead C w' ej.
Proof. apply committed_not_dead. Qed.

Lemma backed_persists B B' c c' ej : backed C w B c ej -> B <= B' -> c' <= c -> backed C w' B' c' ej.
Proof.
  intros (He & Hc & Ht & Hi) HB' Hc'. pose proof (committed_mono C w l HC ej Hc) as Hc2.
  split; [apply (entry_persists C w l HC ej He (live' ej Hc2))|]. split; [exact Hc2|]. lia.
Qed.

Lemma chain_persists' ej i ec : is_entry w ej -> committed C (w_calls w) ej -> 1 <= i -> i <= e_index ej -> chain_at w ej i ec -> chain_at w' ej i ec.
Proof.
  intros He Hc H1 Hi Hch. apply (chain_persists C w l HC ej i ec He (live' ej (committed_mono C w l HC ej Hc)) H1 Hi Hch).
Qed.

(* the entries of the new log in the committed zone lie on the chain of the backing entry *)
Lemma zone_chain n n' ej : In n (w_nodes w) -> In n' (w_nodes w') -> n_id n' = n_id n -> n_pterm n <= n_pterm n' -> NK C w l n n' ->
  n_term n <= n_term n' -> backed C w (n_term n) (n_commit n) ej ->
  (forall i ec, 2 <= i -> i <= n_commit n -> eget (seg_of_log (n_log n)) i = Some ec -> chain_at w ej i ec) ->
  forall i ec, 2 <= i -> i <= n_commit n -> eget (seg_of_log (n_log n')) i = Some ec -> chain_at w ej i ec.
Proof.
  intros Hn Hn' Eid Hpt HK Htm (He & Hc & Ht & Hci) Hz i ec Hi2 Hic E.
  pose proof (committed_not_dead C w ej Hc) as Hnd.
  destruct HK as [El|r e0 Er Er' Ei Ete Erole Efr Ept Hlead Hi0|k q x F Hk Eq Ed Ev' Hterm (Hx1 & Hbx & F0 & F1 & F2 & F3 & F4 & F6 & F7)].
  - rewrite El in E. apply (Hz i ec); assumption.
  - rewrite Er' in E. destruct (N.le_gt_cases i (N.of_nat (length r))) as [Hle|Hgt].
    { rewrite eget_app_old in E by exact Hle. rewrite <- Er in E. apply (Hz i ec); assumption. }
    exfalso. destruct (N.eq_dec i (N.of_nat (length r) + 1)) as [->|Hne]; [|rewrite eget_app_beyond in E by lia; discriminate].
    (* the new entry cannot be at or below the commit index: the backing entry would be the new entry itself *)
    assert (HN : NEWE C w l e0).
    { exists n, n', r. destruct Hlead as [L1 L2]. repeat split; auto. }
    pose proof (committed_mono C w l HC ej Hc) as Hc'. pose proof (live' ej Hc') as Hnd'.
    pose proof (entry_persists C w l HC ej He Hnd') as He'.
    assert (Hh : holds (seg_of_log (n_log n')) ej) by (apply (leader_holds C w l HC ej n' He' Hnd' Hn' Erole); lia).
    unfold holds in Hh. destruct (eget_range _ _ _ Hh) as [_ Htop]. rewrite Er', top_log, app_length in Htop. cbn [length] in Htop.
    assert (Eidx : e_index ej = N.of_nat (length r) + 1) by lia. rewrite Er', Eidx, eget_app_new in Hh. injection Hh as ->.
    destruct He as (s & Hs & Hhs & _).
    apply (newe_above C w l HA HA' HI (f_rq C w HF) ej s (e_index ej) HN Hs ltac:(lia)). apply (tget_entry _ _ _ Hhs).
  - subst n'. destruct (N.lt_ge_cases i x) as [Hlt|Hge].
    + rewrite (F1 i Hlt) in E. apply (Hz i ec); assumption.
    + destruct (F3 i Hge) as [N0|E0]; [congruence|]. rewrite E0 in E.
      apply (HQ ej k q i ec He Hnd Hk Eq ltac:(lia) E ltac:(lia)).
Qed.

Lemma node_of n' : In n' (w_nodes w') -> exists n, In n (w_nodes w) /\ n_id n' = n_id n /\ n_pterm n <= n_pterm n' /\ NK C w l n n' /\ CK w n n'.
Proof.
  intros Hn'. destruct (node_cases C HCnd w l Hst Hns HA n' Hn') as (n & Hn & Eid & Hpt & _ & HK).
  destruct (step_commit C w l HCnd Hst Hns HA n' Hn') as (n2 & Hn2 & Eid2 & HCK).
  assert (n2 = n) by (apply HU; congruence). subst n2. exists n. auto.
Qed.

Lemma node_step n' : In n' (w_nodes w') -> n_frozen n' = false -> 2 <= n_commit n' -> exists ej, backed C w' (n_term n') (n_commit n') ej /\
  forall i ec, 2 <= i -> i <= n_commit n' -> eget (seg_of_log (n_log n')) i = Some ec -> chain_at w' ej i ec.
Proof.
  intros Hn' Hfz' Hc2. destruct (node_of n' Hn') as (n & Hn & Eid & Hpt & HK & HCK).
  destruct (ns_nodes w (a_ns C w HA) n Hn) as (Hlii & Hlit & _ & _ & _ & (r & Er)).
  assert (Hsl : is_seg w (seg_of_log (n_log n))) by (left; exists n; auto).
  assert (Hsl' : is_seg w' (seg_of_log (n_log n'))) by (left; exists n'; auto).
  destruct HCK as [Ec Etm Efz|Ec|e Hrole Elog Eterm Hgrow Hin Eidx Ete Hquo Hfz|k q Hk Eq Ed Hfz En' Hgrow Emin Htle Eterm Hsucc].
  - (* commit index unchanged *)
    rewrite Ec in *. destruct (cb_node C w HB n Hn (Efz Hfz') Hc2) as (ej & Hbk & Hz). exists ej.
    split; [apply (backed_persists (n_term n) (n_term n') (n_commit n) (n_commit n) ej Hbk); lia|].
    intros i ec Hi2 Hic E. pose proof (zone_chain n n' ej Hn Hn' Eid Hpt HK Etm Hbk Hz i ec Hi2 Hic E) as Hch.
    destruct Hbk as (He & Hc & _ & Hci). apply (chain_persists' ej i ec He Hc); try assumption; lia.
  - lia.
  - (* the leader's commit rule *)
    assert (Her : In e r) by (rewrite Er in Hin; destruct Hin as [<-|H]; [cbn in Eidx; lia|exact H]).
    pose proof (lm_wf C w HL _ Hsl) as Hwf. rewrite Er in Hwf.
    assert (Hh : holds (seg_of_log (n_log n)) e) by (rewrite Er; apply (in_log_eget r e Hwf Her)).
    assert (He : is_entry w e) by (exists (seg_of_log (n_log n)); split; [exact Hsl|]; split; [exact Hh|lia]).
    assert (Hc : committed C (w_calls w) e).
    { apply (quorum_committed C (w_calls w) n (CI_conf_of C n (wi_nodes C w (a_wi C w HA) n Hn)) (Hfk n Hn) Hrole
               (leader_lead C w n HA Hn Hrole) (f_match C w HF n Hn) e Ete ltac:(lia) Hquo). }
    exists e. assert (Hbk : backed C w (n_term n) (n_commit n') e) by (split; [exact He|]; split; [exact Hc|]; lia).
    pose proof (backed_persists (n_term n) (n_term n') (n_commit n') (n_commit n') e Hbk ltac:(lia) ltac:(lia)) as Hbk'.
    split; [exact Hbk'|]. destruct Hbk' as (He' & Hc' & _ & _).
    assert (Hh' : holds (seg_of_log (n_log n')) e) by (rewrite Elog; exact Hh).
    intros i ec Hi2 Hic E. apply (chain_of_holder C w' HF' e n' i ec Hn' Hh' E). lia.
  - (* the follower's commit rule *)
    assert (Hsq : is_seg w (seg_of_req q)) by (right; exists k, q; auto).
    destruct (cb_req C w HB k q Hk Eq ltac:(lia)) as (ej & Hbk & R2 & R3).
    pose proof (backed_persists (ae_term q) (n_term n') (ae_commit q) (n_commit n') ej Hbk ltac:(lia) ltac:(lia)) as Hbk'.
    exists ej. split; [exact Hbk'|]. destruct Hbk as (He & Hc & Hte & Hci). destruct Hbk' as (He' & Hc' & _ & _).
    pose proof (live' ej Hc') as Hnd'. pose proof (committed_not_dead C w ej Hc) as Hnd.
    destruct (hCP C w l HA k Hk) as (k' & Hk' & Ek & _). pose proof (key_fields _ _ Ek) as (_ & _ & _ & _ & Er'). rewrite Eq in Er'.
    assert (Hsq' : is_seg w' (seg_of_req q)) by (right; exists k', q; auto).
    pose proof (ae_success_any (w_now w) n q r Er Hlii Hlit (lm_wf C w HL _ Hsl) (lm_wf C w HL _ Hsq)) as Hany. cbn zeta in Hany.
    rewrite <- En' in Hany. destruct (Hany Hsucc) as (S0 & _ & S1 & [[_ Hbad]|S2]); [congruence|].
    intros i ec Hi2 Hic E. destruct (N.lt_ge_cases (ae_prev_index q) i) as [Hgt|Hle].
    + destruct (S2 i ec Hgt ltac:(lia) E) as (e2 & E2 & Et2).
      destruct (lm_pm C w' HL' _ _ Hsl' Hsq' i ec e2 E E2 (eq_sym Et2)) as [-> _].
      apply (HQ' ej k' q i e2 He' Hnd' Hk' Er'); try assumption; lia.
    + rewrite (S1 i Hle) in E.
      destruct (attached C w HF HI ej (seg_of_log (n_log n)) (ae_prev_index q) (ae_prev_term q) i He Hnd Hsl S0) as (ec' & Ec' & Hch'); try lia.
      { cbn. lia. }
      { destruct (N.le_gt_cases (e_index ej) (ae_prev_index q)) as [H1|H1]; [left; auto|right]. split; [exact H1|]. apply R3; lia. }
      rewrite E in Ec'. injection Ec' as <-. apply (chain_persists' ej i ec He Hc); try assumption; lia.
Qed.

Lemma req_step k' q : In k' (w_calls w') -> c_req k' = ReqAE q -> 2 <= ae_commit q -> exists ej, backed C w' (ae_term q) (ae_commit q) ej /\
  (e_index ej <= ae_prev_index q -> e_term ej <= ae_prev_term q) /\
  (2 <= ae_prev_index q -> ae_prev_index q < e_index ej -> exists eb, chain_at w' ej (ae_prev_index q) eb /\ e_term eb = ae_prev_term q).
Proof.
  intros Hk' Eq Hc2.
  destruct (new_ae_sender C w l HCnd Hst Hns HA k' q Hk' Eq) as [(k & Hk & Ek)|(m' & Hm' & Eid & Hrole & Et & Ecm & Hsub & Hbase & Hfzm)].
  - pose proof (key_fields _ _ Ek) as (_ & _ & _ & _ & Er). rewrite Eq in Er. symmetry in Er.
    destruct (cb_req C w HB k q Hk Er Hc2) as (ej & Hbk & R2 & R3). exists ej.
    split; [apply (backed_persists _ _ _ _ ej Hbk); lia|]. split; [exact R2|].
    intros H2 Hlt. destruct (R3 H2 Hlt) as (eb & Hcb & Eb). exists eb. split; [|exact Eb].
    destruct Hbk as (He & Hc & _ & _). apply (chain_persists' ej _ eb He Hc); try assumption; lia.
  - destruct (node_step m' Hm' Hfzm ltac:(lia)) as (ej & Hbk & _). exists ej. rewrite <- Et, Ecm. split; [exact Hbk|].
    destruct Hbk as (He' & Hc' & Hte & _). pose proof (live' ej Hc') as Hnd'.
    assert (Hh : holds (seg_of_log (n_log m')) ej) by (apply (leader_holds C w l HC ej m' He' Hnd' Hm' Hrole Hte)).
    assert (Hsm : is_seg w' (seg_of_log (n_log m'))) by (left; exists m'; auto).
    split.
    + intros Hle. apply (sr_seg w' (f_srt C w' HF') _ Hsm (e_index ej) (ae_prev_index q) _ _ (tget_entry _ _ _ Hh) Hbase Hle).
    + intros H2 Hlt. destruct (holder_defined C w' HF' ej m' (ae_prev_index q) Hm' Hh ltac:(lia) ltac:(lia)) as (eb & Eb & Hcb).
      exists eb. split; [exact Hcb|]. rewrite (tget_entry _ _ _ Eb) in Hbase. congruence.
Qed.

Lemma app_step n' i t p : In n' (w_nodes w') -> In (i, t, p) (n_applies n') -> 2 <= i /\ exists ej ec, is_entry w' ej /\ committed C (w_calls w') ej /\
  i <= e_index ej /\ chain_at w' ej i ec /\ e_term ec = t /\ e_kind ec = KOp p.
Proof.
  intros Hn' Hin. destruct (step_applies C w l HCnd Hst Hns HA n' Hn') as (n & Hn & Eid & [Enil|(news & Eapp & Hnews)]).
  { rewrite Enil in Hin. destruct Hin. }
  rewrite Eapp in Hin. apply in_app_or in Hin. destruct Hin as [Hold|Hnew].
  - destruct (cb_app C w HB n i t p Hn Hold) as (Hi2 & ej & ec & He & Hc & Hi & Hch & Et & Ek). split; [exact Hi2|]. exists ej, ec.
    pose proof (committed_mono C w l HC ej Hc) as Hc'.
    split; [apply (entry_persists C w l HC ej He (live' ej Hc'))|]. split; [exact Hc'|]. split; [exact Hi|].
    split; [apply (chain_persists' ej i ec He Hc); try assumption; lia|]. auto.
  - destruct (Hnews i t p Hnew) as (Hfzn & Elog & Ecom & Hic & e & Ee & Et & Ek).
    assert (Hsl : is_seg w (seg_of_log (n_log n))) by (left; exists n; auto).
    assert (Hi2 : 2 <= i).
    { destruct (eget_range _ _ _ Ee) as [Hb _]. cbn [sg_base seg_of_log] in Hb. destruct (N.eq_dec i 1) as [->|Hne]; [|lia].
      pose proof (lm_one C w HL _ e Hsl Ee) as ->. cbn in Ek. discriminate. }
    split; [exact Hi2|]. destruct (cb_node C w HB n Hn Hfzn ltac:(lia)) as (ej & (He & Hc & _ & Hci) & Hz).
    pose proof (Hz i e Hi2 Hic Ee) as Hch. exists ej, e.
    pose proof (committed_mono C w l HC ej Hc) as Hc'.
    split; [apply (entry_persists C w l HC ej He (live' ej Hc'))|]. split; [exact Hc'|]. split; [lia|].
    split; [apply (chain_persists' ej i e He Hc); try assumption; lia|]. auto.
Qed.

Theorem step_CBI : CBI C w'.
Proof.
  constructor.
  - intros n' Hn' Hfz' Hc. apply node_step; assumption.
  - intros k' q Hk' Eq Hc. apply (req_step k' q); assumption.
  - intros n' i t p Hn' Hin. apply (app_step n' i t p); assumption.
Qed.

End Back.
