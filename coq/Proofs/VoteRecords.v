(* C08 / C02, history form: in every reachable world, any two real (non-prevote) RequestVote
   responses that GRANT the vote of the same voter for the same term name the same candidate -
   whatever happened in between: any delivery order, duplicates, delays, crashes of the voter after
   any storage write, restarts.  The RPC records of the world (w_calls) are never deleted, so they
   are the history. *)
From RaftV Require Import Cluster.World Proofs.Frame Proofs.RVSpec Proofs.Votes.
Open Scope N_scope.

Definition granted_real (c : call) (t : N) (cand : nid) : Prop :=
  exists q p, c_req c = ReqRV q /\ rv_prevote q = false /\ rv_term q = t /\ rv_cand q = cand /\
              c_resp c = Some (RespRV p) /\ rvr_granted p = true.

(* "v has voted for cand in term t": on disk, or v has moved to a later term *)
Definition voted (v : node) (t : N) (cand : nid) : Prop :=
  t < n_pterm v \/ (n_pterm v = t /\ n_pvote v = Some cand).

Lemma voted_stable v v' t c : tv_le v v' -> voted v t c -> voted v' t c.
Proof.
  intros [H1 H2] [H|[H3 H4]]; [left; lia|].
  destruct (N.eq_dec (n_pterm v') (n_pterm v)) as [E|E].
  - right. split; [lia|]. apply H2; assumption.
  - left. lia.
Qed.

(* ---- the handler: what a real grant means for the voter ---- *)
Lemma rv_grant_recorded now n q :
  coh n -> rv_prevote q = false -> rv_granted (snd (h_request_vote now n q)) = true ->
  let n' := fst (h_request_vote now n q) in
  n_frozen n' = false -> n_pterm n' = rv_term q /\ n_pvote n' = Some (rv_cand q).
Proof.
  intros Hc Hp Hg. cbn zeta. unfold h_request_vote in *. rewrite Hp in *. cbn [negb andb] in *.
  destruct (role_eqb (n_role n) Shutdown); [discriminate|].
  destruct (lease_valid now n || recent_contact now n); [discriminate|].
  destruct (N.ltb_spec (rv_term q) (n_term n)) as [Hlt|Hge]; [discriminate|].
  set (n1 := if n_term n <? rv_term q then become_follower now n (rv_cand q) (rv_term q) else n) in *.
  assert (T1 : n_term n1 = rv_term q).
  { subst n1. destruct (N.ltb_spec (n_term n) (rv_term q)); [|lia].
    pose proof (become_follower_fields now n (rv_cand q) (rv_term q)) as HB. cbn zeta in HB. tauto. }
  destruct (match n_vote n1 with Some v => negb (v =? rv_cand q) | None => false end); [discriminate|].
  destruct ((rv_last_term q <? last_term (n_log n1)) || _); [discriminate|].
  cbn [fst]. intros F.
  set (m := n1 <| n_contact := now |> <| n_vote := Some (rv_cand q) |>) in *.
  pose proof (persist_core m) as HP. cbn zeta in HP. destruct HP as (_ & _ & _ & _ & _ & _ & P5 & P6).
  rewrite persist_frozen in F.
  destruct (fst (tick_write m)) eqn:E.
  - rewrite P5, P6. subst m. cbn. split; [exact T1|reflexivity].
  - rewrite (tick_false_frozen m E) in F. discriminate.
Qed.

(* a voter that has voted for c1 in term t does not grant a real vote of term t to anybody else *)
Lemma rv_no_second_grant now n q c1 :
  coh n -> n_frozen n = false -> voted n (rv_term q) c1 -> rv_prevote q = false ->
  rv_granted (snd (h_request_vote now n q)) = true -> c1 = rv_cand q.
Proof.
  intros Hc F Hv Hp Hg. destruct (Hc F) as [C1 C2].
  unfold h_request_vote in Hg. rewrite Hp in Hg. cbn [negb andb] in Hg.
  destruct (role_eqb (n_role n) Shutdown); [discriminate|].
  destruct (lease_valid now n || recent_contact now n); [discriminate|].
  destruct (N.ltb_spec (rv_term q) (n_term n)) as [Hlt|Hge]; [discriminate|].
  destruct Hv as [Hv|[Hv1 Hv2]]; [lia|].
  destruct (N.ltb_spec (n_term n) (rv_term q)); [lia|].
  rewrite <- C2, Hv2 in Hg.
  destruct (N.eqb_spec c1 (rv_cand q)); [assumption|discriminate].
Qed.

(* ---------------- world invariant ---------------- *)
Record VInv (w : world) : Prop := {
  vi_coh : Inv w;
  vi_nodup : NoDup (map c_id (w_calls w));
  vi_fresh : forall c, In c (w_calls w) -> c_id c < w_next_call w;
  vi_pend : forall c, In c (w_calls w) -> c_state c = CPending -> c_resp c = None;
  vi_grant : forall c t x, In c (w_calls w) -> granted_real c t x ->
               exists v, get_node w (c_dst c) = Some v /\ voted v t x;
  vi_uniq : forall c1 c2 t x y, In c1 (w_calls w) -> In c2 (w_calls w) ->
               granted_real c1 t x -> granted_real c2 t y -> c_dst c1 = c_dst c2 -> x = y }.

Lemma get_call_in w id c : get_call w id = Some c -> In c (w_calls w) /\ c_id c = id.
Proof.
  unfold get_call. intros H. apply find_some in H. destruct H as [H1 H2]. split; [exact H1|apply N.eqb_eq; exact H2].
Qed.

(* -- primitive 1: one node advances -- *)
Lemma VInv_set_node w m m' :
  VInv w -> get_node w (n_id m) = Some m -> S m m' -> VInv (set_node w m').
Proof.
  intros [HI ND FR PE GR UQ] G HS.
  pose proof (WS_set_node w m m' G (fun _ => HS) HI) as [Hback Hinv].
  destruct HS as (Eid & T & C).
  constructor; try assumption.
  - apply Hinv, HI.
  - intros c t x Hin Hg. destruct (GR c t x Hin Hg) as (v & Gv & Hv).
    change (w_calls (set_node w m')) with (w_calls w) in Hin.
    rewrite get_set, Gv. cbn [option_map].
    destruct (N.eqb_spec (n_id v) (n_id m')) as [E|E]; [|exists v; auto].
    exists m'. split; [reflexivity|].
    assert (v = m).
    { destruct (get_node_in _ _ _ Gv) as [_ Ev]. rewrite <- Ev, E, Eid in Gv. congruence. }
    subst v. eapply voted_stable; eassumption.
Qed.

(* -- primitive 2: the state of one call changes (not back to pending) -- *)
Definition upd_call (c0 : call) (cs : list call) : list call := map (fun d => if c_id d =? c_id c0 then c0 else d) cs.

Lemma upd_call_ids c0 cs : map c_id (upd_call c0 cs) = map c_id cs.
Proof.
  unfold upd_call. rewrite map_map. apply map_ext. intros d.
  destruct (N.eqb_spec (c_id d) (c_id c0)); [symmetry; assumption|reflexivity].
Qed.

Lemma in_upd_call c0 cs c' : In c' (upd_call c0 cs) -> In c' cs \/ (c' = c0 /\ exists d, In d cs /\ c_id d = c_id c0).
Proof.
  unfold upd_call. intros H. apply in_map_iff in H. destruct H as (d & E & Hd).
  destruct (N.eqb_spec (c_id d) (c_id c0)); subst; [right; split; [reflexivity|exists d; auto]|left; exact Hd].
Qed.

Lemma nodup_id_eq cs c d : NoDup (map c_id cs) -> In c cs -> In d cs -> c_id c = c_id d -> c = d.
Proof.
  induction cs as [|x cs IH]; intros ND Hc Hd E; [destruct Hc|].
  cbn [map] in ND. inversion ND as [|? ? Hn ND']; subst.
  destruct Hc as [<-|Hc], Hd as [<-|Hd]; auto.
  - exfalso. apply Hn. rewrite E. apply in_map. exact Hd.
  - exfalso. apply Hn. rewrite <- E. apply in_map. exact Hc.
Qed.

Definition same_call (c c' : call) : Prop :=
  c_id c' = c_id c /\ c_src c' = c_src c /\ c_dst c' = c_dst c /\ c_round c' = c_round c /\ c_req c' = c_req c.

Lemma VInv_set_call w c c0 :
  VInv w -> In c (w_calls w) -> same_call c c0 -> c_resp c0 = c_resp c ->
  (c_state c0 = CPending -> c_state c = CPending) ->
  VInv (set_call w c0).
Proof.
  intros [HI ND FR PE GR UQ] Hin (Eid & Es & Ed & Er & Eq) Eresp Est.
  assert (Hcalls : w_calls (set_call w c0) = upd_call c0 (w_calls w)) by reflexivity.
  assert (Hsub : forall c', In c' (w_calls (set_call w c0)) -> In c' (w_calls w) \/ c' = c0).
  { intros c' H. rewrite Hcalls in H. apply in_upd_call in H. tauto. }
  assert (Hg0 : forall t x, granted_real c0 t x -> granted_real c t x).
  { intros t x (q & p & H1 & H2 & H3 & H4 & H5 & H6). exists q, p. rewrite <- Eq, <- Eresp. auto 10. }
  constructor.
  - exact HI.
  - rewrite Hcalls, upd_call_ids. exact ND.
  - intros c' H. destruct (Hsub c' H) as [H'| ->]; [apply FR, H'|rewrite Eid; apply FR, Hin].
  - intros c' H Hs. destruct (Hsub c' H) as [H'| ->]; [apply PE; assumption|].
    rewrite Eresp. apply PE; [exact Hin|apply Est, Hs].
  - intros c' t x H Hg. change (get_node (set_call w c0)) with (get_node w).
    destruct (Hsub c' H) as [H'| ->]; [apply GR; assumption|]. rewrite Ed. apply GR; [exact Hin|apply Hg0, Hg].
  - intros c1 c2 t x y H1 H2 G1 G2 E.
    destruct (Hsub c1 H1) as [H1'| ->], (Hsub c2 H2) as [H2'| ->].
    + exact (UQ c1 c2 t x y H1' H2' G1 G2 E).
    + refine (UQ c1 c t x y H1' Hin G1 (Hg0 _ _ G2) _). congruence.
    + refine (UQ c c2 t x y Hin H2' (Hg0 _ _ G1) G2 _). congruence.
    + exact (UQ c c t x y Hin Hin (Hg0 _ _ G1) (Hg0 _ _ G2) eq_refl).
Qed.

Lemma nodup_snoc (l : list N) a : NoDup l -> ~ In a l -> NoDup (l ++ [a]).
Proof.
  induction l as [|x l IH]; intros ND Hn; cbn [app]; [constructor; [intros []|constructor]|].
  inversion ND as [|? ? Hx ND']; subst. constructor.
  - intro Hin. apply in_app_or in Hin. destruct Hin as [Hin|[Hin|[]]]; [tauto|]. apply Hn. left. congruence.
  - apply IH; [exact ND'|]. intro; apply Hn; right; assumption.
Qed.

(* -- primitive 3: a new call -- *)
Lemma VInv_new_call w src dst rid g q : VInv w -> VInv (new_call w src dst rid g q).
Proof.
  intros [HI ND FR PE GR UQ].
  set (nc := {| c_id := w_next_call w; c_src := src; c_dst := dst; c_round := rid; c_fgen := g; c_req := q; c_resp := None; c_state := CPending |}).
  assert (Hcalls : w_calls (new_call w src dst rid g q) = w_calls w ++ [nc]) by reflexivity.
  assert (Hsub : forall c', In c' (w_calls (new_call w src dst rid g q)) -> In c' (w_calls w) \/ c' = nc).
  { intros c' H. rewrite Hcalls in H. apply in_app_or in H. destruct H as [H|[<-|[]]]; auto. }
  assert (Hng : forall t x, ~ granted_real nc t x).
  { intros t x (q0 & p & _ & _ & _ & _ & H & _). discriminate H. }
  constructor.
  - exact HI.
  - rewrite Hcalls, map_app. cbn [map]. apply nodup_snoc; [exact ND|].
    intro Hin. apply in_map_iff in Hin. destruct Hin as (d & Ed & Hd). pose proof (FR d Hd). cbn in Ed. lia.
  - intros c' H. change (w_next_call (new_call w src dst rid g q)) with (N.succ (w_next_call w)).
    destruct (Hsub c' H) as [H'| ->]; [pose proof (FR c' H'); lia|cbn; lia].
  - intros c' H Hs. destruct (Hsub c' H) as [H'| ->]; [apply PE; assumption|reflexivity].
  - intros c' t x H Hg. change (get_node (new_call w src dst rid g q)) with (get_node w).
    destruct (Hsub c' H) as [H'| ->]; [apply GR; assumption|destruct (Hng _ _ Hg)].
  - intros c1 c2 t x y H1 H2 G1 G2 E.
    destruct (Hsub c1 H1) as [H1'| ->]; [|destruct (Hng _ _ G1)].
    destruct (Hsub c2 H2) as [H2'| ->]; [|destruct (Hng _ _ G2)].
    exact (UQ c1 c2 t x y H1' H2' G1 G2 E).
Qed.

(* -- primitive 4: the states of several calls change (calls of a dead process) -- *)
Lemma VInv_map_state w (g : call -> call) :
  (forall c, same_call c (g c) /\ c_resp (g c) = c_resp c /\ (c_state (g c) = CPending -> c_state c = CPending)) ->
  VInv w -> VInv (w <| w_calls ::= map g |>).
Proof.
  intros Hg [HI ND FR PE GR UQ].
  assert (Hcalls : w_calls (w <| w_calls ::= map g |>) = map g (w_calls w)) by reflexivity.
  assert (Hgr : forall c t x, granted_real (g c) t x -> granted_real c t x).
  { intros c t x (q & p & H1 & H2 & H3 & H4 & H5 & H6). destruct (Hg c) as ((_ & _ & _ & _ & Eq) & Er & _).
    exists q, p. rewrite <- Eq, <- Er. auto 10. }
  constructor.
  - exact HI.
  - rewrite Hcalls, map_map. erewrite map_ext; [exact ND|]. intros c. destruct (Hg c) as ((E & _) & _). exact E.
  - intros c' H. rewrite Hcalls in H. apply in_map_iff in H. destruct H as (c & <- & Hc).
    destruct (Hg c) as ((E & _) & _). rewrite E. apply FR, Hc.
  - intros c' H Hs. rewrite Hcalls in H. apply in_map_iff in H. destruct H as (c & <- & Hc).
    destruct (Hg c) as (_ & Er & Es). rewrite Er. apply PE; [exact Hc|apply Es, Hs].
  - intros c' t x H Hgd. rewrite Hcalls in H. apply in_map_iff in H. destruct H as (c & <- & Hc).
    destruct (Hg c) as ((_ & _ & Ed & _) & _). rewrite Ed. apply (GR c t x Hc), Hgr, Hgd.
  - intros c1 c2 t x y H1 H2 G1 G2 E. rewrite Hcalls in H1, H2.
    apply in_map_iff in H1. destruct H1 as (d1 & <- & Hd1). apply in_map_iff in H2. destruct H2 as (d2 & <- & Hd2).
    destruct (Hg d1) as ((_ & _ & E1 & _) & _). destruct (Hg d2) as ((_ & _ & E2 & _) & _).
    refine (UQ d1 d2 t x y Hd1 Hd2 (Hgr _ _ _ G1) (Hgr _ _ _ G2) _). congruence.
Qed.

Lemma VInv_drop w id : VInv w -> VInv (drop_calls_of w id).
Proof.
  intros H. unfold drop_calls_of. apply VInv_map_state; [|exact H].
  intros c. destruct (c_src c =? id); repeat split; auto. cbn. discriminate.
Qed.

(* -- primitive 5: a pending call receives its response -- *)
Lemma VInv_set_resp w c p s :
  VInv w -> In c (w_calls w) -> c_state c = CPending -> s <> CPending ->
  (forall t x, granted_real (c <| c_resp := Some p |> <| c_state := s |>) t x ->
     (exists v, get_node w (c_dst c) = Some v /\ voted v t x) /\
     (forall c1 y, In c1 (w_calls w) -> granted_real c1 t y -> c_dst c1 = c_dst c -> y = x)) ->
  VInv (set_call w (c <| c_resp := Some p |> <| c_state := s |>)).
Proof.
  intros [HI ND FR PE GR UQ] Hin Hst Hs SC.
  set (c0 := c <| c_resp := Some p |> <| c_state := s |>) in *.
  assert (Hcalls : w_calls (set_call w c0) = upd_call c0 (w_calls w)) by reflexivity.
  assert (Hsub : forall c', In c' (w_calls (set_call w c0)) -> (In c' (w_calls w) /\ c_id c' <> c_id c) \/ c' = c0).
  { intros c' H. rewrite Hcalls in H. unfold upd_call in H. apply in_map_iff in H. destruct H as (d & E & Hd).
    destruct (N.eqb_spec (c_id d) (c_id c0)); subst; [right; reflexivity|left; split; [exact Hd|exact n]]. }
  constructor.
  - exact HI.
  - rewrite Hcalls, upd_call_ids. exact ND.
  - intros c' H. destruct (Hsub c' H) as [[H' _]| ->]; [apply FR, H'|apply (FR c Hin)].
  - intros c' H Hs'. destruct (Hsub c' H) as [[H' _]| ->]; [apply PE; assumption|]. cbn in Hs'. contradiction.
  - intros c' t x H Hg. change (get_node (set_call w c0)) with (get_node w).
    destruct (Hsub c' H) as [[H' _]| ->]; [apply GR; assumption|]. apply (SC t x Hg).
  - intros c1 c2 t x y H1 H2 G1 G2 E.
    destruct (Hsub c1 H1) as [[H1' _]| ->], (Hsub c2 H2) as [[H2' _]| ->].
    + exact (UQ c1 c2 t x y H1' H2' G1 G2 E).
    + destruct (SC t y G2) as [_ U]. apply (U c1 x H1' G1). exact E.
    + destruct (SC t x G1) as [_ U]. symmetry. apply (U c2 y H2' G2). symmetry. exact E.
    + destruct G1 as (q1 & p1 & A1 & _ & _ & A4 & _). destruct G2 as (q2 & p2 & B1 & _ & _ & B4 & _).
      rewrite A1 in B1. injection B1 as <-. congruence.
Qed.

(* ---------------- every step preserves the invariant ---------------- *)
Lemma VInv_on_node w id f : (forall m, coh m -> S m (f m)) -> VInv w -> VInv (on_node w id f).
Proof.
  intros Hf HV. unfold on_node. destruct (get_node w id) as [m|] eqn:G; [|exact HV].
  apply VInv_set_node with (m := m); [exact HV|eapply get_node_id; exact G|].
  apply Hf. destruct (get_node_in _ _ _ G) as [Hin _]. apply (vi_coh w HV), Hin.
Qed.

Lemma VInv_same w w' :
  w_nodes w' = w_nodes w -> w_calls w' = w_calls w -> w_next_call w' = w_next_call w -> VInv w -> VInv w'.
Proof.
  intros En Ec Ex [HI ND FR PE GR UQ]. constructor; unfold Inv, get_node in *; rewrite ?En, ?Ec, ?Ex; assumption.
Qed.

Lemma VInv_step_task w m : get_node w (n_id m) = Some m -> VInv w -> VInv (step_task w m).
Proof.
  intros G HV. unfold step_task. destruct (n_tasks m) as [|t rest]; [exact HV|].
  set (n0 := m <| n_tasks := rest |>). assert (H0 : Q m n0) by qtv.
  destruct t as [rid peer pv|rid peer].
  - pose proof (VInv_set_node w m n0 HV G (Q_S _ _ H0)) as H1.
    destruct (l_rv_send n0 rid peer pv); [apply VInv_new_call|]; exact H1.
  - pose proof (Q_ae_send n0 peer) as H1. destruct (l_ae_send n0 peer) as [n1 [|q|q]]; cbn [fst] in H1;
      pose proof (VInv_set_node w m n1 HV G (Q_S _ _ (Q_trans _ _ _ H0 H1))) as H2;
      [exact H2|apply VInv_new_call; exact H2|apply VInv_new_call; exact H2].
Qed.

Lemma get_node_set_self w m m' : get_node w (n_id m) = Some m -> n_id m' = n_id m -> get_node (set_node w m') (n_id m) = Some m'.
Proof. intros G E. rewrite get_set, G. cbn [option_map]. rewrite E, N.eqb_refl. reflexivity. Qed.

Lemma VInv_step_deliver w c : VInv w -> In c (w_calls w) -> c_state c = CPending -> VInv (step_deliver w c false).
Proof.
  intros HV Hin Hst. unfold step_deliver. destruct (get_node w (c_dst c)) as [n|] eqn:G.
  2:{ apply VInv_set_call with (c := c); [exact HV|exact Hin|repeat split|reflexivity|cbn; discriminate]. }
  pose proof (get_node_in _ _ _ G) as [Hn Eid]. pose proof (vi_coh w HV n Hn) as Hc.
  apply get_node_id in G.
  destruct (n_frozen n) eqn:F.
  { apply VInv_set_call with (c := c); [exact HV|exact Hin|repeat split|reflexivity|cbn; discriminate]. }
  pose proof (R_run_handler (w_now w) n (c_req c) Hc) as HR.
  destruct (run_handler (w_now w) n (c_req c)) as [[n1 resp] parked] eqn:ER. cbn [fst] in HR.
  pose proof (VInv_set_node w n n1 HV G (R_S _ _ HR)) as H1.
  assert (Hin1 : In c (w_calls (set_node w n1))) by exact Hin.
  destruct (n_frozen n1) eqn:F1.
  { apply VInv_set_call with (c := c); [exact H1|exact Hin1|repeat split|reflexivity|cbn; discriminate]. }
  destruct resp as [p|].
  2:{ apply VInv_set_call with (c := c); [exact H1|exact Hin1|repeat split|reflexivity|cbn; discriminate]. }
  apply VInv_set_resp; [exact H1|exact Hin1|exact Hst|destruct parked; discriminate|].
  intros t x (q & p' & A1 & A2 & A3 & A4 & A5 & A6). cbn [c_req c_resp set] in A1, A5.
  change (c_req (c <| c_resp := Some p |> <| c_state := _ |>)) with (c_req c) in A1.
  injection A5 as ->.
  (* the handler that produced this response is RequestVote on n *)
  unfold run_handler in ER. rewrite A1 in ER.
  destruct (h_request_vote (w_now w) n q) as [n1' pr] eqn:EH. injection ER as <- Ep _.
  destruct pr as [pr|]; [|discriminate]. injection Ep as <-.
  assert (Hg : rv_granted (snd (h_request_vote (w_now w) n q)) = true) by (rewrite EH; exact A6).
  pose proof (rv_grant_recorded (w_now w) n q Hc A2 Hg) as HG. cbn zeta in HG. rewrite EH in HG. cbn [fst] in HG.
  destruct (HG F1) as [G1 G2]. rewrite <- Eid.
  split.
  - exists n1'. split; [apply get_node_set_self; [exact G|destruct HR; assumption]|].
    right. subst. split; [exact G1|exact G2].
  - intros c1 y Hc1 Gy Ed. change (w_calls (set_node w n1')) with (w_calls w) in Hc1.
    destruct (vi_grant w HV c1 t y Hc1 Gy) as (v & Gv & Hv).
    rewrite Ed, G in Gv. injection Gv as <-.
    subst t x. apply (rv_no_second_grant (w_now w) n q y Hc F Hv A2 Hg).
Qed.

Lemma VInv_step_deliver_dup w c : VInv w -> VInv (step_deliver w c true).
Proof.
  intros HV. unfold step_deliver. destruct (get_node w (c_dst c)) as [n|] eqn:G; [|exact HV].
  pose proof (get_node_in _ _ _ G) as [Hn _]. pose proof (vi_coh w HV n Hn) as Hc. apply get_node_id in G.
  destruct (n_frozen n); [exact HV|].
  pose proof (R_run_handler (w_now w) n (c_req c) Hc) as HR.
  destruct (run_handler (w_now w) n (c_req c)) as [[n1 resp] parked]. cbn [fst] in HR.
  apply (VInv_set_node w n n1 HV G (R_S _ _ HR)).
Qed.

Lemma VInv_step_reply w c failed : VInv w -> In c (w_calls w) -> c_state c <> CPending \/ True -> VInv (step_reply w c failed).
Proof.
  intros HV Hin _. unfold step_reply.
  set (w0 := set_call w (c <| c_state := CDone |>)).
  assert (H0 : VInv w0) by (apply VInv_set_call with (c := c); [exact HV|exact Hin|repeat split|reflexivity|cbn; discriminate]).
  destruct (get_node w (c_src c)) as [n|] eqn:G; [|exact H0].
  pose proof (get_node_in _ _ _ G) as [Hn _]. pose proof (vi_coh w HV n Hn) as Hc. apply get_node_id in G.
  assert (G0 : get_node w0 (n_id n) = Some n) by exact G.
  destruct (n_frozen n); [exact H0|].
  destruct (c_req c) as [q|q|q]; destruct (if failed then None else c_resp c) as [[p|p|p]|];
    try exact H0;
    try match goal with
        | |- VInv (set_node w0 (l_rv_reply _ _ _ _ _ _ _)) => apply (VInv_set_node w0 n _ H0 G0), R_S, R_rv_reply, Hc
        | |- VInv (set_node w0 (l_is_reply _ _ _ _ _ _)) => apply (VInv_set_node w0 n _ H0 G0), R_S, R_is_reply, Hc
        end.
  pose proof (R_ae_reply (w_now w) n (c_round c) (c_dst c) (c_fgen c) q p Hc) as HR.
  destruct (l_ae_reply (w_now w) n (c_round c) (c_dst c) (c_fgen c) q p) as [n1 [isq|]]; cbn [fst] in HR;
    pose proof (VInv_set_node w0 n n1 H0 G0 (R_S _ _ HR)) as H1; [apply VInv_new_call|]; exact H1.
Qed.

Theorem step_VInv w l : VInv w -> VInv (step w l).
Proof.
  intros HV. pose proof (vi_coh w HV) as HI. destruct l; cbn [step].
  - eapply VInv_same; [| | |exact HV]; reflexivity.
  - apply VInv_on_node; [|exact HV]. intros m _. destruct (is_up m); [apply Q_S, Q_signal_election|apply S_refl].
  - apply VInv_on_node; [|exact HV]. intros m _. destruct (is_up m); [apply Q_S, Q_heartbeat|apply S_refl].
  - destruct (get_call w c) as [cl|] eqn:G; [|exact HV]. destruct (get_call_in _ _ _ G) as [Hin _].
    destruct (c_state cl) eqn:Es; try exact HV. apply VInv_step_deliver; assumption.
  - destruct (get_call w c) as [cl|]; [|exact HV]. apply VInv_step_deliver_dup; exact HV.
  - destruct (get_call w c) as [cl|] eqn:G; [|exact HV]. destruct (get_call_in _ _ _ G) as [Hin _].
    destruct (c_state cl); try exact HV. apply VInv_step_reply; auto.
  - destruct (get_call w c) as [cl|] eqn:G; [|exact HV]. destruct (get_call_in _ _ _ G) as [Hin _].
    destruct (c_state cl); try exact HV; apply VInv_step_reply; auto.
  - unfold fresh_fid. apply VInv_on_node; [|eapply VInv_same; [| | |exact HV]; reflexivity].
    intros m _. destruct (n_frozen m); [apply S_refl|apply Q_S, Q_submit].
  - unfold fresh_fid. apply VInv_on_node; [|eapply VInv_same; [| | |exact HV]; reflexivity].
    intros m _. destruct (n_frozen m); [apply S_refl|apply Q_S, Q_add_server].
  - unfold fresh_fid. apply VInv_on_node; [|eapply VInv_same; [| | |exact HV]; reflexivity].
    intros m _. destruct (n_frozen m); [apply S_refl|apply Q_S, Q_remove_server].
  - apply VInv_on_node; [|exact HV]. intros m _. destruct (is_up m); [|apply S_refl].
    apply Q_S. apply Q_trans with (lp_snapshot (m <| n_snap_every := 1 |>)); [|qtv].
    eapply Q_trans; [|apply Q_snapshot]. qtv.
  - apply VInv_drop. apply VInv_on_node; [|exact HV]. intros m _. apply S_crash.
  - apply VInv_on_node; [|exact HV]. intros m _. destruct (role_eqb (n_role m) Shutdown); [apply S_restart|apply S_refl].
  - apply VInv_on_node; [|exact HV]. intros m _. apply Q_S, Q_upd_budget.
  - apply VInv_on_node; [|exact HV]. intros m _. apply Q_S. qtv.
  - apply VInv_on_node; [|exact HV]. intros m _. apply Q_S. qtv.
  - apply VInv_on_node; [|exact HV]. intros m _. apply Q_S. qtv.
  - destruct (get_node w n) as [m|] eqn:G; [|exact HV]. destruct (is_up m); [|exact HV].
    apply VInv_step_task; [eapply get_node_id; exact G|exact HV].
  - apply VInv_on_node; [|exact HV]. intros m C. destruct (is_up m && cv_election (n_cv m)); [apply R_S, R_election, C|apply S_refl].
  - apply VInv_on_node; [|exact HV]. intros m _. destruct (is_up m && cv_commit (n_cv m)); [apply Q_S, Q_commit|apply S_refl].
  - apply VInv_on_node; [|exact HV]. intros m _. destruct (is_up m && cv_apply (n_cv m)); [apply Q_S, Q_apply|apply S_refl].
  - apply VInv_on_node; [|exact HV]. intros m _. destruct (is_up m && cv_ro (n_cv m)); [apply Q_S, Q_ro|apply S_refl].
  - destruct (get_node w n) as [m|] eqn:G; [|exact HV]. apply get_node_id in G.
    pose proof (Q_install_resume m) as HQ. destruct (lp_install_resume m) as [m1 [q|]]; cbn [fst] in HQ; [|exact HV].
    pose proof (VInv_set_node w m m1 HV G (Q_S _ _ HQ)) as H1.
    match goal with |- VInv (match ?x with _ => _ end) => destruct x as [c|] eqn:Ef end; [|exact H1].
    apply find_some in Ef. destruct Ef as [Hin _].
    apply VInv_set_call with (c := c); [exact H1|exact Hin|repeat split|reflexivity|cbn; discriminate].
Qed.

Lemma VInv_init ids boot et ld : VInv (init_world ids boot et ld).
Proof.
  constructor.
  - apply Inv_init.
  - constructor.
  - intros c [].
  - intros c [].
  - intros c t x [].
  - intros c1 c2 t x y [].
Qed.

Lemma VInv_run ls : forall w, VInv w -> VInv (run w ls).
Proof.
  induction ls as [|l ls IH]; intros w HV; [exact HV|]. cbn [run fold_left]. apply IH, step_VInv, HV.
Qed.

(* C08: one real vote per voter per term, over every schedule, counting votes granted before crashes *)
Theorem one_vote_per_term ids boot et ld ls c1 c2 t x y :
  let w := run (init_world ids boot et ld) ls in
  In c1 (w_calls w) -> In c2 (w_calls w) ->
  granted_real c1 t x -> granted_real c2 t y -> c_dst c1 = c_dst c2 -> x = y.
Proof. cbn zeta. apply vi_uniq, VInv_run, VInv_init. Qed.
