(* Election safety (C02), part 2: the bookkeeping invariant over the sections that do touch the election
   bookkeeping: an election timeout starting a round, a goroutine sending its RPC, a process death. *)
From RaftV Require Import Cluster.World Proofs.Frame Proofs.Votes Proofs.ElectDefs Proofs.ElectBook.
From Coq Require Import Permutation.
Open Scope N_scope.

(* ---------------- a new RequestVote round ---------------- *)
Lemma filter_trv_app_new ts rid pv peers :
  filter is_trv (ts ++ map (fun id => TRv rid id pv) peers) = filter is_trv ts ++ map (fun id => TRv rid id pv) peers.
Proof.
  rewrite filter_app. f_equal. induction peers as [|x l IH]; [reflexivity|]. cbn [map filter is_trv]. f_equal. exact IH.
Qed.

Lemma nodup_map_trv rid pv peers : NoDup peers -> NoDup (map (fun id => TRv rid id pv) peers).
Proof.
  intros H. induction H as [|x l Hx ND IH]; cbn [map]; constructor; [|exact IH].
  intro Hin. apply in_map_iff in Hin. destruct Hin as (y & Ey & Hy). injection Ey as ->. contradiction.
Qed.

Lemma nodup_app {A} (l1 l2 : list A) : NoDup l1 -> NoDup l2 -> (forall x, In x l1 -> In x l2 -> False) -> NoDup (l1 ++ l2).
Proof.
  intros H1 H2 Hd. induction H1 as [|x l Hx ND IH]; [exact H2|]. cbn [app]. constructor.
  - intro Hin. apply in_app_or in Hin. destruct Hin as [Hin|Hin]; [contradiction|]. apply (Hd x); [left; reflexivity|exact Hin].
  - apply IH. intros y Hy. apply Hd. right. exact Hy.
Qed.

Lemma BN_new_rv_round C cs m m' pv peers c0 :
  R m m' -> coh m ->
  n_rounds m' = n_rounds m ++ [Build_round (n_next_round m) c0 0 (n_term m')] ->
  c0 <= 1 -> n_next_round m' = n_next_round m + 1 ->
  n_tasks m' = n_tasks m ++ map (fun id => TRv (n_next_round m) id pv) peers ->
  NoDup peers -> (forall p, In p peers -> p <> n_id m) ->
  (pv = false -> n_vote m' = Some (n_id m)) ->
  BN C cs m -> BN C cs m'.
Proof.
  intros HR Hcoh Er Hc0 En Et NDp Hself Hvote [WF TL CL TT TC CC ND TP CP CS CT RQ RT LV SV0].
  pose proof (Votes.r_id _ _ HR) as Eid. set (rid := n_next_round m) in *.
  assert (Hin_r : forall r, In r (n_rounds m') -> In r (n_rounds m) \/ r = Build_round rid c0 0 (n_term m')).
  { intros r H. rewrite Er in H. apply in_app_or in H. destruct H as [H|[H|[]]]; auto. }
  assert (Hin_t : forall t, In t (n_tasks m') -> In t (n_tasks m) \/ exists p, In p peers /\ t = TRv rid p pv).
  { intros t H. rewrite Et in H. apply in_app_or in H. destruct H as [H|H]; [left; exact H|right].
    apply in_map_iff in H. destruct H as (p & <- & Hp). exists p. auto. }
  destruct WF as [WF1 WF2].
  constructor.
  - split.
    + rewrite Er, map_app. cbn [map]. apply nodup_app; [exact WF1|constructor; [intros []|constructor]|].
      intros x H1 [<-|[]]. apply in_map_iff in H1. destruct H1 as (r & E1 & Hr). specialize (WF2 r Hr). cbn [RaftV.Node.Types.r_id] in E1. lia.
    + intros r Hr. destruct (Hin_r r Hr) as [H| ->]; [specialize (WF2 r H); lia|cbn; lia].
  - intros t Ht. destruct (Hin_t t Ht) as [H|(p & _ & ->)]; [specialize (TL t H); lia|cbn [task_round]; lia].
  - intros k Hk Es. rewrite Eid in Es. specialize (CL k Hk Es). lia.
  - intros t1 t2 H1 H2 E. destruct (Hin_t t1 H1) as [A|(p1 & _ & ->)], (Hin_t t2 H2) as [B|(p2 & _ & ->)].
    + apply TT; assumption.
    + specialize (TL t1 A). cbn [task_round] in E. lia.
    + specialize (TL t2 B). cbn [task_round] in E. lia.
    + reflexivity.
  - intros t k Ht Hk Es E. rewrite Eid in Es. destruct (Hin_t t Ht) as [A|(p1 & _ & ->)]; [apply TC; assumption|].
    specialize (CL k Hk Es). cbn [task_round] in E. lia.
  - intros k1 k2 H1 H2 E1 E2. rewrite Eid in E1, E2. apply CC; assumption.
  - rewrite Et, filter_trv_app_new. apply nodup_app; [exact ND|apply nodup_map_trv, NDp|].
    intros x H1 H2. apply filter_In in H1. destruct H1 as [H1 _]. apply in_map_iff in H2. destruct H2 as (p & <- & _).
    specialize (TL _ H1). cbn [task_round] in TL. lia.
  - intros rid0 p pv0 Ht. rewrite Eid. destruct (Hin_t _ Ht) as [A|(p1 & Hp1 & E)]; [apply (TP rid0 p pv0 A)|].
    injection E as -> -> ->. split; [apply Hself, Hp1|]. intros k Hk Es Erd. specialize (CL k Hk Es). lia.
  - intros k1 k2 H1 H2 E1 E2. rewrite Eid in E1, E2. apply CP; assumption.
  - intros k Hk Es. rewrite Eid in *. apply CS; assumption.
  - intros r Hr Hw. rewrite Eid. destruct (Hin_r r Hr) as [H| ->]; [|cbn [RaftV.Node.Types.r_id r_count]; lia].
    apply CT; [exact H|]. destruct Hw as [(k & Hw)|(p & pv0 & Ht)]; [left; exists k; rewrite <- Eid; exact Hw|right].
    destruct (Hin_t _ Ht) as [A|(p1 & _ & E)]; [exists p, pv0; exact A|]. injection E as E _ _. specialize (WF2 r H). lia.
  - intros k q Hk Eq Es. rewrite Eid in Es. destruct (RQ k q Hk Eq Es) as [R1 R2]. split; [exact R1|].
    intros r Hr E. destruct (Hin_r r Hr) as [H| ->]; [apply R2; assumption|]. specialize (CL k Hk Es). cbn [RaftV.Node.Types.r_id] in E. lia.
  - intros r Hr Hw F'. destruct (mem_mono _ _ HR Hcoh F') as (F & HT & _).
    destruct (Hin_r r Hr) as [H| ->]; [|cbn [r_term]; lia].
    assert (Hw0 : rv_round cs m (rd_id r)).
    { destruct Hw as [(k & Hw)|(p & pv0 & Ht)]; [left; exists k; rewrite <- Eid; exact Hw|right].
      destruct (Hin_t _ Ht) as [A|(p1 & _ & E)]; [exists p, pv0; exact A|]. injection E as E _ _. specialize (WF2 r H). lia. }
    specialize (RT r H Hw0 F). lia.
  - intros rid0 p pv0 Ht. destruct (Hin_t _ Ht) as [A|(p1 & _ & E)].
    + destruct (LV rid0 p pv0 A) as (r & Hr & Er0). exists r. split; [rewrite Er; apply in_or_app; left; exact Hr|exact Er0].
    + injection E as -> _ _. exists (Build_round rid c0 0 (n_term m')). split; [rewrite Er; apply in_or_app; right; left; reflexivity|reflexivity].
  - intros rid0 p r Ht Hr E ET F'. rewrite Eid. destruct (mem_mono _ _ HR Hcoh F') as (F & HT & HV).
    destruct (Hin_t _ Ht) as [A|(p1 & _ & E1)].
    + destruct (Hin_r r Hr) as [H| ->]; [|specialize (TL _ A); cbn [task_round RaftV.Node.Types.r_id] in *; lia].
      assert (Hw0 : rv_round cs m (rd_id r)) by (right; exists p, false; rewrite E; exact A).
      specialize (RT r H Hw0 F).
      destruct (N.eq_dec (n_term m') (n_term m)) as [E2|E2]; [|lia].
      apply (HV E2). apply (SV0 rid0 p r A H E); congruence.
    + injection E1 as _ _ E1. apply Hvote. symmetry. exact E1.
Qed.

(* ---------------- a goroutine leaves the run queue ---------------- *)
Lemma rv_round_fewer_tasks cs m m' rid :
  n_id m' = n_id m -> (forall t, In t (n_tasks m') -> In t (n_tasks m)) -> rv_round cs m' rid -> rv_round cs m rid.
Proof.
  intros Eid Hsub [(k & H)|(p & pv & H)]; [left; exists k; rewrite <- Eid; exact H|right; exists p, pv; apply Hsub, H].
Qed.

Lemma nodup_filter_sub {A} (f : A -> bool) (x : A) l : NoDup (filter f (x :: l)) -> NoDup (filter f l).
Proof. cbn [filter]. destruct (f x); [intros H; inversion H; assumption|auto]. Qed.

(* the fields of a node that only lost a task *)
Definition popped (m m' : node) (t : task) : Prop :=
  n_tasks m = t :: n_tasks m' /\ n_id m' = n_id m /\ n_rounds m' = n_rounds m /\ n_next_round m' = n_next_round m /\
  n_term m' = n_term m /\ n_vote m' = n_vote m /\ n_frozen m' = n_frozen m.

Lemma BN_pop C cs m m' t : popped m m' t -> BN C cs m -> BN C cs m'.
Proof.
  intros (Et & Eid & Er & En & ETm & EV & EF) [WF TL CL TT TC CC ND TP CP CS CT RQ RT LV SV0].
  assert (Hsub : forall x, In x (n_tasks m') -> In x (n_tasks m)) by (intros x H; rewrite Et; right; exact H).
  constructor; unfold wf_rounds in *; rewrite ?Eid, ?Er, ?En, ?ETm, ?EV, ?EF in *; auto.
  - rewrite Et in ND. eapply nodup_filter_sub; exact ND.
  - intros rid p pv H. apply (TP rid p pv), Hsub, H.
  - intros r Hr Hw. apply CT; [exact Hr|]. eapply rv_round_fewer_tasks; [exact Eid|exact Hsub|exact Hw].
  - intros r Hr Hw. apply RT; [exact Hr|]. eapply rv_round_fewer_tasks; [exact Eid|exact Hsub|exact Hw].
  - intros rid p pv H. apply (LV rid p pv), Hsub, H.
  - intros rid p r H. apply (SV0 rid p r), Hsub, H.
Qed.

(* sendRequestVote reaches its RPC: the goroutine becomes an RPC record *)
Lemma BN_rv_send C cs m m' rid peer pv q k :
  popped m m' (TRv rid peer pv) -> BN C cs m ->
  c_src k = n_id m -> c_dst k = peer -> c_round k = rid -> c_req k = ReqRV q -> c_state k = CPending ->
  rv_prevote q = pv -> rv_term q = (if pv then n_term m + 1 else n_term m) -> n_term m = round_term m rid ->
  is_voter C peer = true ->
  (forall k', In k' cs -> c_id k' <> c_id k) ->
  BN C (cs ++ [k]) m'.
Proof.
  intros Hp HB Es Ed Er Eq Est Epv Eterm Ert Hvoter Hfresh.
  pose proof Hp as (Et & Eid & Ern & En & ETm & EV & EF).
  destruct HB as [WF TL CL TT TC CC ND TP CP CS CT RQ RT LV SV0].
  assert (Hhead : In (TRv rid peer pv) (n_tasks m)) by (rewrite Et; left; reflexivity).
  assert (Hsub : forall x, In x (n_tasks m') -> In x (n_tasks m)) by (intros x H; rewrite Et; right; exact H).
  assert (Hin : forall k', In k' (cs ++ [k]) -> In k' cs \/ k' = k).
  { intros k' H. apply in_app_or in H. destruct H as [H|[H|[]]]; auto. }
  assert (Htagk : call_tag k = task_tag (TRv rid peer pv)).
  { unfold call_tag. rewrite Eq, Epv. reflexivity. }
  assert (Hrvk : is_rv k = true) by (unfold is_rv; rewrite Eq; reflexivity).
  destruct (TP rid peer pv Hhead) as [Hpeer_self Hpeer_calls].
  assert (Hrvw : forall r0, rv_round (cs ++ [k]) m' r0 -> rv_round cs m r0).
  { intros r0 [(k' & Hk' & Es' & Er' & Ev')|(p & pv0 & Ht)].
    - rewrite Eid in Es'. destruct (Hin k' Hk') as [H| ->]; [left; exists k'; auto|]. right. exists peer, pv. rewrite <- Er', Er. exact Hhead.
    - right. exists p, pv0. apply Hsub, Ht. }
  constructor; unfold wf_rounds in *; rewrite ?Eid, ?Ern, ?En, ?ETm, ?EV, ?EF in *; auto.
  - intros k' Hk' Es'. destruct (Hin k' Hk') as [H| ->]; [apply CL; assumption|].
    rewrite Er. apply (TL _ Hhead).
  - intros t k' Ht Hk' Es' Er'. destruct (Hin k' Hk') as [H| ->]; [apply TC; auto|].
    rewrite Htagk. apply TT; [exact Hhead|apply Hsub, Ht|]. cbn [task_round]. congruence.
  - intros k1 k2 H1 H2 E1 E2 E. destruct (Hin k1 H1) as [A| ->], (Hin k2 H2) as [B| ->]; [apply CC; assumption| | |reflexivity].
    + rewrite Htagk. apply TC; [exact Hhead|exact A|exact E1|cbn [task_round]; congruence].
    + rewrite Htagk. symmetry. apply TC; [exact Hhead|exact B|exact E2|cbn [task_round]; congruence].
  - rewrite Et in ND. eapply nodup_filter_sub; exact ND.
  - intros rid0 p pv0 Ht. destruct (TP rid0 p pv0 (Hsub _ Ht)) as [T1 T2]. split; [exact T1|].
    intros k' Hk' Es' Er' Ev'. destruct (Hin k' Hk') as [H| ->]; [apply T2; assumption|].
    (* the same peer twice in one round would be the same task twice *)
    rewrite Ed. intro Epeer. subst p. rewrite Er in Er'. subst rid0.
    assert (Etag : task_tag (TRv rid peer pv0) = task_tag (TRv rid peer pv)) by (apply TT; [apply Hsub, Ht|exact Hhead|reflexivity]).
    assert (pv0 = pv) by (cbn [task_tag] in Etag; destruct pv0, pv; try reflexivity; discriminate). subst pv0.
    rewrite Et in ND. cbn [filter is_trv] in ND. inversion ND as [|? ? Hnot _]. apply Hnot. apply filter_In. split; [exact Ht|reflexivity].
  - intros k1 k2 H1 H2 E1 E2 E V1 V2 Edst. destruct (Hin k1 H1) as [A| ->], (Hin k2 H2) as [B| ->]; [apply CP; assumption| | |reflexivity].
    + exfalso. apply (Hpeer_calls k1 A E1); [congruence|exact V1|congruence].
    + exfalso. apply (Hpeer_calls k2 B E2); [congruence|exact V2|congruence].
  - intros k' Hk' Es' Ev'. destruct (Hin k' Hk') as [H| ->]; [apply CS; assumption|]. rewrite Ed. exact Hpeer_self.
  - intros r Hr Hw. rewrite cnt_app. assert (Hc : r_count r <= 1 + cnt cs (n_id m) (rd_id r)); [|lia].
    apply CT; [exact Hr|]. apply Hrvw, Hw.
  - intros k' q' Hk' Eq' Es'. destruct (Hin k' Hk') as [H| ->]; [apply RQ; assumption|].
    rewrite Eq in Eq'. injection Eq' as <-. rewrite Ed. split; [exact Hvoter|].
    intros r Hr Erid. rewrite Eterm, Epv, Ert. unfold round_term.
    assert (Hf : find (fun x => rd_id x =? rid) (n_rounds m) = Some r).
    { destruct WF as [WF1 _]. rewrite Er in Erid. clear - WF1 Hr Erid. induction (n_rounds m) as [|x l IH]; [destruct Hr|].
      cbn [find]. cbn [map] in WF1. inversion WF1 as [|? ? Hx ND']; subst. destruct Hr as [->|Hr].
      - rewrite N.eqb_refl. reflexivity.
      - destruct (N.eqb_spec (rd_id x) (rd_id r)) as [E|E]; [|apply IH; assumption].
        exfalso. apply Hx. rewrite E. apply in_map. exact Hr. }
    rewrite Hf. destruct pv; lia.
  - intros rid0 p pv0 H. apply (LV rid0 p pv0), Hsub, H.
  - intros rid0 p r H. apply (SV0 rid0 p r), Hsub, H.
Qed.

(* an AppendEntries / InstallSnapshot RPC record is added *)
Lemma BN_add_call_other C cs n k :
  c_src k = n_id n -> c_round k < n_next_round n -> is_rv k = false ->
  (forall t, In t (n_tasks n) -> task_round t = c_round k -> task_tag t = 0) ->
  (forall k', In k' cs -> c_src k' = n_id n -> c_round k' = c_round k -> call_tag k' = 0) ->
  BN C cs n -> BN C (cs ++ [k]) n.
Proof.
  intros Es Hlt Hrv Htasks Hcalls [WF TL CL TT TC CC ND TP CP CS CT RQ RT LV SV0].
  assert (Hin : forall k', In k' (cs ++ [k]) -> In k' cs \/ k' = k).
  { intros k' H. apply in_app_or in H. destruct H as [H|[H|[]]]; auto. }
  assert (Htag : call_tag k = 0). { unfold is_rv in Hrv. unfold call_tag. destruct (c_req k); [reflexivity|discriminate|reflexivity]. }
  assert (Hrvw : forall r0, rv_round (cs ++ [k]) n r0 -> rv_round cs n r0).
  { intros r0 [(k' & Hk' & Es' & Er' & Ev')|H]; [|right; exact H].
    destruct (Hin k' Hk') as [H| ->]; [left; exists k'; auto|congruence]. }
  constructor; auto.
  - intros k' Hk' Es'. destruct (Hin k' Hk') as [H| ->]; [apply CL; assumption|exact Hlt].
  - intros t k' Ht Hk' Es' Er'. destruct (Hin k' Hk') as [H| ->]; [apply TC; assumption|].
    rewrite Htag. symmetry. apply Htasks; [exact Ht|congruence].
  - intros k1 k2 H1 H2 E1 E2 E. destruct (Hin k1 H1) as [A| ->], (Hin k2 H2) as [B| ->]; [apply CC; assumption| | |reflexivity].
    + rewrite Htag. apply Hcalls; assumption.
    + rewrite Htag. symmetry. apply Hcalls; [assumption|assumption|congruence].
  - intros rid p pv Ht. destruct (TP rid p pv Ht) as [T1 T2]. split; [exact T1|].
    intros k' Hk' Es' Er' Ev'. destruct (Hin k' Hk') as [H| ->]; [apply T2; assumption|congruence].
  - intros k1 k2 H1 H2 E1 E2 E V1 V2. destruct (Hin k1 H1) as [A| ->], (Hin k2 H2) as [B| ->]; try congruence. apply CP; assumption.
  - intros k' Hk' Es' Ev'. destruct (Hin k' Hk') as [H| ->]; [apply CS; assumption|congruence].
  - intros r Hr Hw. rewrite cnt_app. assert (Hc : r_count r <= 1 + cnt cs (n_id n) (rd_id r)); [|lia].
    apply CT; [exact Hr|apply Hrvw, Hw].
  - intros k' q' Hk' Eq' Es'. destruct (Hin k' Hk') as [H| ->]; [apply RQ; assumption|].
    unfold is_rv in Hrv. rewrite Eq' in Hrv. discriminate.
Qed.

(* ---------------- process death / restart: no counters, no goroutines ---------------- *)
Lemma BN_reset C cs m m' : erf m' = ([], n_next_round m, []) -> n_id m' = n_id m -> BN C cs m -> BN C cs m'.
Proof.
  unfold erf. intros E Eid [WF TL CL TT TC CC ND TP CP CS CT RQ RT LV SV0]. injection E as Er En Et.
  constructor; unfold wf_rounds; rewrite ?Er, ?En, ?Et, ?Eid; cbn [map filter]; auto; try (intros; contradiction).
  - split; [constructor|intros r []].
  - constructor.
  - intros k q Hk Eq Es. destruct (RQ k q Hk Eq Es) as [R1 _]. split; [exact R1|intros r []].
Qed.
