(* sendAppendEntries after the RPC (C04, C07; fix D1), for every leader state and every reply: the matchIndex of
   a follower changes only through a SUCCESS reply from that follower to a request sent in the CURRENT term,
   and then becomes prev + len of that request. *)
From RaftV Require Import Node.Leader.
From RaftV Require Import Proofs.Frame.
Open Scope N_scope.

Lemma lookup_put_same {V} k (v : V) l : lookup k (put k v l) = Some v.
Proof.
  induction l as [|[k' v'] l IH]; cbn [put lookup]; [rewrite N.eqb_refl; reflexivity|].
  destruct (N.eqb_spec k k') as [E|NE]; [cbn [lookup]; rewrite N.eqb_refl; reflexivity|].
  destruct (k <? k'); cbn [lookup]; [rewrite N.eqb_refl; reflexivity|].
  destruct (N.eqb_spec k k'); [contradiction|exact IH].
Qed.

Lemma lookup_put_other {V} j k (v : V) l : j <> k -> lookup j (put k v l) = lookup j l.
Proof.
  intros NE. induction l as [|[k' v'] l IH]; cbn [put lookup].
  - destruct (N.eqb_spec j k); [contradiction|reflexivity].
  - destruct (N.eqb_spec k k') as [E|NE'].
    + subst k'. cbn [lookup]. destruct (N.eqb_spec j k); [contradiction|reflexivity].
    + destruct (k <? k'); cbn [lookup].
      * destruct (N.eqb_spec j k); [contradiction|reflexivity].
      * destruct (j =? k'); [reflexivity|exact IH].
Qed.

Definition fm (n : node) (p : nid) : N := f_match (get_follower n p).

Lemma fm_set_follower_other n id f p : p <> id -> fm (set_follower n id f) p = fm n p.
Proof. intros NE. unfold fm, get_follower, set_follower. cbn [n_followers set]. rewrite lookup_put_other; [reflexivity|exact NE]. Qed.

Lemma fm_set_follower_same n id f : fm (set_follower n id f) id = f_match f.
Proof. unfold fm, get_follower, set_follower. cbn [n_followers set]. rewrite lookup_put_same. reflexivity. Qed.

Lemma lookup_map_snd {V} (g : V -> V) k (l : list (N * V)) :
  lookup k (map (fun p => (fst p, g (snd p))) l) = option_map g (lookup k l).
Proof.
  induction l as [|[k' v'] l IH]; cbn [map lookup fst snd]; [reflexivity|].
  destruct (k =? k'); [reflexivity|exact IH].
Qed.

Lemma fm_reset n p : fm (reset_snapshot_files n) p = fm n p.
Proof.
  unfold fm, get_follower, reset_snapshot_files. cbn [n_followers set]. rewrite lookup_map_snd.
  destruct (lookup p (n_followers n)); reflexivity.
Qed.

Lemma followers_tick n : n_followers (snd (tick_write n)) = n_followers n.
Proof.
  unfold tick_write. destruct (n_frozen n); [reflexivity|]. destruct (n_budget n) as [k|]; [destruct (k =? 0)|]; reflexivity.
Qed.

Lemma followers_respond n f r : n_followers (respond n f r) = n_followers n.
Proof. unfold respond. destruct (n_frozen n); [reflexivity|]. destruct (existsb _ _); reflexivity. Qed.

Lemma followers_respond_all fids : forall n r, n_followers (respond_all n fids r) = n_followers n.
Proof.
  induction fids as [|f fids IH]; intros n r; cbn [respond_all fold_left]; [reflexivity|].
  change (n_followers (respond_all (respond n f r) fids r) = n_followers n). rewrite IH. apply followers_respond.
Qed.

Lemma followers_persist m : n_followers (persist m) = n_followers m.
Proof.
  unfold persist. pose proof (followers_tick m) as H. destruct (tick_write m) as [ok m1]. cbn [snd] in H.
  destruct ok; [cbn [n_followers set]; exact H|exact H].
Qed.

Lemma followers_notify m : n_followers (notify_lost_leadership m) = n_followers m.
Proof. unfold notify_lost_leadership. rewrite !followers_respond_all. reflexivity. Qed.

Lemma followers_new_opmanager now m : n_followers (new_opmanager now m) = n_followers m.
Proof. reflexivity. Qed.

Lemma followers_cancel m : n_followers (cancel_conf_change m) = n_followers m.
Proof.
  unfold cancel_conf_change. destruct (n_cfg_fid m) as [f|]; [|reflexivity].
  cbn [n_followers set]. apply followers_respond.
Qed.

Lemma followers_reset m : n_followers (reset_snapshot_files m) = map (fun p => (fst p, snd p <| f_snap := None |>)) (n_followers m).
Proof. reflexivity. Qed.

Lemma fm_become_follower now n l t p : fm (become_follower now n l t) p = fm n p.
Proof.
  unfold become_follower.
  set (n1 := n <| n_role := Follower |> <| n_term := t |> <| n_leader := Some l |> <| n_vote := _ |>).
  assert (F1 : n_followers n1 = n_followers n) by reflexivity. clearbody n1.
  unfold fm, get_follower.
  rewrite followers_cancel, followers_new_opmanager, followers_notify, followers_reset, followers_persist, F1.
  rewrite lookup_map_snd. destruct (lookup p (n_followers n)); reflexivity.
Qed.

Lemma fm_set_fobj n id g f p :
  fm (set_fobj n id g f) p = fm n p \/
  (p = id /\ fobj n id g = get_follower n id /\ fm (set_fobj n id g f) p = f_match f).
Proof.
  unfold set_fobj, fobj. destruct (f_gen (get_follower n id) =? g).
  - destruct (N.eq_dec p id) as [->|NE]; [right; split; [reflexivity|split; [reflexivity|apply fm_set_follower_same]]|].
    left. apply fm_set_follower_other. exact NE.
  - left. reflexivity.
Qed.

Lemma fm_is_send n peer p : fm (fst (l_is_send n peer)) p = fm n p.
Proof.
  unfold l_is_send. destruct (negb _); [reflexivity|]. destruct (n_lii n =? 0); [reflexivity|].
  match goal with |- fm (fst (match ?c with _ => _ end)) p = _ => destruct c as [[s o]|] end; cbn [fst].
  - destruct (N.eq_dec p peer) as [->|NE]; [rewrite fm_set_follower_same; reflexivity|apply fm_set_follower_other; exact NE].
  - unfold fail. destruct (n_out n); reflexivity.
Qed.

Theorem ae_reply_match now n rid peer g q r p :
  let n' := fst (l_ae_reply now n rid peer g q r) in
  fm n' p <> fm n p ->
  p = peer /\ aer_success r = true /\ ae_term q = n_term n /\ n_role n = Leader /\ aer_term r <= n_term n /\
  fm n' p = ae_prev_index q + N.of_nat (length (ae_entries q)).
Proof.
  cbn zeta. unfold l_ae_reply.
  destruct (negb (is_member (conf_of n) peer) || negb (role_eqb (n_role n) Leader)) eqn:G; [cbn [fst]; tauto|].
  apply Bool.orb_false_iff in G. destruct G as [_ GL]. apply Bool.negb_false_iff in GL.
  assert (HL : n_role n = Leader) by (destruct (n_role n); try discriminate; reflexivity).
  destruct (N.ltb_spec (n_term n) (aer_term r)) as [LT|GE]; [cbn [fst]; rewrite fm_become_follower; tauto|].
  destruct (N.eqb_spec (ae_term q) (n_term n)) as [ET|NT]; cbn [negb]; [|cbn [fst]; tauto].
  set (n1 := if is_voter (conf_of n) peer then bump_round n rid else n).
  set (n2 := if is_voter (conf_of n) peer && has_quorum (conf_of n1) (round_count n1 rid)
             then try_apply_ro now n1 (round_stamp n1 rid) else n1).
  assert (F2 : forall x, fm n2 x = fm n x).
  { intros x. subst n2 n1. destruct (is_voter (conf_of n) peer); cbn [andb]; [|reflexivity].
    destruct (has_quorum _ _); reflexivity. }
  assert (L2 : n_lii n2 = n_lii n /\ n_commit n2 = n_commit n).
  { subst n2 n1. destruct (is_voter (conf_of n) peer); cbn [andb]; [|split; reflexivity].
    destruct (has_quorum _ _); split; reflexivity. }
  clearbody n2. clear n1.
  destruct (aer_success r) eqn:ES; cbn [negb].
  - set (top := ae_prev_index q + N.of_nat (length (ae_entries q))).
    destruct (f_match (fobj n2 peer g) <? top); cbn [fst]; [|rewrite F2; tauto].
    set (f' := fobj n2 peer g <| f_next := N.max (f_next (fobj n2 peer g)) (top + 1) |> <| f_match := top |>).
    assert (HM : f_match f' = top) by reflexivity. clearbody f'.
    assert (HS : forall m : node, fm (if n_commit (set_fobj n2 peer g f') <? top then signal_commit (set_fobj n2 peer g f') else set_fobj n2 peer g f') p
                                  = fm (set_fobj n2 peer g f') p).
    { intros _. destruct (_ <? top); reflexivity. }
    rewrite (HS n). destruct (fm_set_fobj n2 peer g f' p) as [E|(-> & _ & E)].
    + rewrite E, F2. tauto.
    + intros _. rewrite E, HM. auto 10.
  - set (f' := fobj n2 peer g <| f_next := aer_index r |>).
    assert (HM : f_match f' = f_match (fobj n2 peer g)) by reflexivity. clearbody f'.
    set (n3 := set_fobj n2 peer g f').
    assert (F3 : fm n3 p = fm n p).
    { subst n3. destruct (fm_set_fobj n2 peer g f' p) as [E|(-> & EO & E)].
      - rewrite E. apply F2.
      - rewrite E, HM, EO. apply F2. }
    clearbody n3.
    destruct (aer_index r <=? n_lii n3); [rewrite fm_is_send|cbn [fst]]; rewrite F3; tauto.
Qed.
