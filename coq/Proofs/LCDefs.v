(* Leader completeness (C07): shared definitions. *)
From RaftV Require Import Cluster.World Cluster.Statements Proofs.Frame Proofs.AESpec.
From RaftV Require Import Proofs.ElectWorld Proofs.ElectSafety Proofs.LogDefs Proofs.LogSeg Proofs.LogInv.
Open Scope N_scope.

(* call k records that follower v accepted an AppendEntries request of term T reaching up to index top *)
Definition ack_of (k : call) (T v top : N) : Prop :=
  exists q p, c_req k = ReqAE q /\ ae_term q = T /\ c_dst k = v /\ c_resp k = Some (RespAE p) /\ aer_success p = true /\
              top = ae_prev_index q + N.of_nat (length (ae_entries q)).
Definition acked (cs : list call) (T v j : N) : Prop := exists k top, In k cs /\ ack_of k T v top /\ j <= top.

Definition holds (s : seg) (ej : entry) : Prop := eget s (e_index ej) = Some ej.

(* ---- stepping stones, each a classical lemma of the Raft safety argument ---- *)
(* a leader's match index for a follower is backed by a recorded acknowledgement of its term *)
Definition match_ok (cs : list call) (a : node) : Prop :=
  n_role a = Leader -> forall p f, In (p, f) (n_followers a) -> f_match f = 0 \/ acked cs (n_term a) p (f_match f).
(* the last entry of a working leader's log is of its term; so is the last position of every request *)
Definition ln_node (n : node) : Prop := n_role n = Leader -> n_frozen n = false -> last_term (n_log n) = n_term n.
Definition rq_call (k : call) : Prop :=
  forall q, c_req k = ReqAE q -> tget (seg_of_req q) (top (seg_of_req q)) = Some (ae_term q).
(* a request never reaches beyond the log of its sender while the sender is still in the request's term *)
Definition rt_ok (w : world) : Prop :=
  forall k q a, In k (w_calls w) -> c_req k = ReqAE q -> In a (w_nodes w) -> n_id a = c_src k -> n_pterm a = ae_term q ->
    top (seg_of_req q) <= top (seg_of_log (n_log a)).
(* a candidate's log still has, at the advertised last index, the advertised last term - as long as it is in the
   term of the request and nobody else has sent AppendEntries in that term *)
Definition cand_ok (w : world) : Prop :=
  forall k r L, In k (w_calls w) -> c_req k = ReqRV r -> rv_prevote r = false ->
    In L (w_nodes w) -> n_id L = c_src k -> n_pterm L = rv_term r ->
    (forall k2 q2, In k2 (w_calls w) -> c_req k2 = ReqAE q2 -> ae_term q2 = rv_term r -> c_src k2 = n_id L) ->
    tget (seg_of_log (n_log L)) (rv_last_index r) = Some (rv_last_term r).
