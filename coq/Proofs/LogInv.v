(* Log matching (C06), part 2: the world invariant - every node log and every AppendEntries request ever
   sent are pairwise one-step matching segments; every entry has a creator, the winner of its term, who
   still holds it as long as its persistent term is that term - and its preservation by the sections that
   are not the AppendEntries handler. *)
From RaftV Require Import Cluster.World Cluster.Statements Proofs.Frame Proofs.RVSpec Proofs.AESpec.
From RaftV Require Import Proofs.ConfNode Proofs.ConfStatic Proofs.ConfSticky.
From RaftV Require Import Proofs.Votes Proofs.VoteRecords Proofs.Names Proofs.ElectSpec.
From RaftV Require Import Proofs.ElectDefs Proofs.ElectBook Proofs.ElectWorld Proofs.ElectSafety.
From RaftV Require Import Proofs.LogDefs Proofs.LogSeg Proofs.LogUni.
Open Scope N_scope.

Definition bootentry (C : config) : entry := {| e_index := 1; e_term := 1; e_kind := KConf C |}.

Section LogInv.
Variable C : config.

(* a is the winner of term T (as far as the records of the world show) *)
Definition lead (cs : list call) (a : nid) (T : N) : Prop :=
  is_voter C a = true /\ (many C = true -> won C cs a T).

Definition is_seg (w : world) (s : seg) : Prop :=
  (exists n, In n (w_nodes w) /\ s = seg_of_log (n_log n)) \/
  (exists k q, In k (w_calls w) /\ c_req k = ReqAE q /\ s = seg_of_req q).

Record LMI (w : world) : Prop := {
  lm_wf : forall s, is_seg w s -> wf_seg s;
  lm_pm : forall s1 s2, is_seg w s1 -> is_seg w s2 -> PM s1 s2;
  lm_boot : forall n, In n (w_nodes w) -> is_voter C (n_id n) = true -> exists r, n_log n = entry0 :: bootentry C :: r;
  lm_one : forall s e, is_seg w s -> eget s 1 = Some e -> e = bootentry C;
  lm_src : forall s i e, is_seg w s -> eget s i = Some e -> 2 <= i ->
             exists a, In a (w_nodes w) /\ lead (w_calls w) (n_id a) (e_term e) /\ e_term e <= n_pterm a /\
                       (n_pterm a = e_term e -> eget (seg_of_log (n_log a)) i = Some e);
  lm_ae : forall k q, In k (w_calls w) -> c_req k = ReqAE q -> lead (w_calls w) (c_src k) (ae_term q) /\ c_dst k <> c_src k }.

Lemma lead_persist cs cs' a T : CP cs cs' -> lead cs a T -> lead cs' a T.
Proof. intros HP [H1 H2]. split; [exact H1|]. intros Hm. eapply won_persist; [exact HP|apply H2, Hm]. Qed.

(* two winners of one term are the same node *)
Lemma lead_unique w a b T na nb :
  XInv C w -> In na (w_nodes w) -> In nb (w_nodes w) -> lead (w_calls w) a T -> lead (w_calls w) b T -> a = b.
Proof. intros HX Ha Hb [A1 A2] [B1 B2]. exact (two_leaders_same C w a b T na nb HX Ha Hb A1 B1 A2 B2). Qed.

(* ---------------- frame: no log moves, no new AppendEntries request ---------------- *)
Lemma LMI_frame w w' :
  CP (w_calls w) (w_calls w') ->
  (forall k q, In k (w_calls w') -> c_req k = ReqAE q -> exists k0, In k0 (w_calls w) /\ c_req k0 = ReqAE q /\ c_src k0 = c_src k /\ c_dst k0 = c_dst k) ->
  (forall n', In n' (w_nodes w') -> exists n, In n (w_nodes w) /\ n_id n' = n_id n /\ n_log n' = n_log n) ->
  (forall n, In n (w_nodes w) -> exists n', In n' (w_nodes w') /\ n_id n' = n_id n /\ n_log n' = n_log n /\ n_pterm n <= n_pterm n') ->
  LMI w -> LMI w'.
Proof.
  intros HCP Hae Hback Hfw [WF PMM BT ONE SRC AE].
  assert (Hseg : forall s, is_seg w' s -> is_seg w s).
  { intros s [(n' & Hn' & ->)|(k & q & Hk & Eq & ->)].
    - destruct (Hback n' Hn') as (n & Hn & _ & El). left. exists n. rewrite El. auto.
    - destruct (Hae k q Hk Eq) as (k0 & Hk0 & Eq0 & _). right. exists k0, q. auto. }
  constructor.
  - intros s Hs. apply WF, Hseg, Hs.
  - intros s1 s2 H1 H2. apply PMM; apply Hseg; assumption.
  - intros n' Hn' Hv. destruct (Hback n' Hn') as (n & Hn & Ei & El). rewrite El. apply BT; [exact Hn|rewrite <- Ei; exact Hv].
  - intros s e Hs. apply ONE, Hseg, Hs.
  - intros s i e Hs Eg Hi. destruct (SRC s i e (Hseg s Hs) Eg Hi) as (a & Ha & Hl & Hle & Hown).
    destruct (Hfw a Ha) as (a' & Ha' & Ei & El & Hp). exists a'. split; [exact Ha'|]. rewrite Ei, El.
    split; [eapply lead_persist; eassumption|]. split; [lia|]. intros E. apply Hown. lia.
  - intros k q Hk Eq. destruct (Hae k q Hk Eq) as (k0 & Hk0 & Eq0 & Es & Ed). destruct (AE k0 q Hk0 Eq0) as [A1 A2].
    rewrite <- Es, <- Ed. split; [eapply lead_persist; eassumption|exact A2].
Qed.

(* ---------------- one node runs a section that is not the AppendEntries handler ---------------- *)
Lemma eget_app_old r e i : i <= N.of_nat (length r) ->
  eget (seg_of_log (entry0 :: r ++ [e])) i = eget (seg_of_log (entry0 :: r)) i.
Proof.
  intros H. unfold eget, seg_of_log. cbn [sg_base sg_es tl]. destruct (N.ltb_spec 0 i); [|reflexivity].
  apply nth_error_app1. lia.
Qed.

Lemma eget_app_new r e : eget (seg_of_log (entry0 :: r ++ [e])) (N.of_nat (length r) + 1) = Some e.
Proof.
  unfold eget, seg_of_log. cbn [sg_base sg_es tl]. destruct (N.ltb_spec 0 (N.of_nat (length r) + 1)); [|lia].
  rewrite nth_error_app2 by lia. replace (N.to_nat (N.of_nat (length r) + 1 - 0 - 1) - length r)%nat with 0%nat by lia. reflexivity.
Qed.

Lemma eget_app_beyond r e i : N.of_nat (length r) + 1 < i -> eget (seg_of_log (entry0 :: r ++ [e])) i = None.
Proof.
  intros H. unfold eget, seg_of_log. cbn [sg_base sg_es tl]. destruct (N.ltb_spec 0 i); [|reflexivity].
  apply nth_error_None. rewrite app_length. cbn. lia.
Qed.

Lemma tget_app_old r e i : i <= N.of_nat (length r) ->
  tget (seg_of_log (entry0 :: r ++ [e])) i = tget (seg_of_log (entry0 :: r)) i.
Proof. intros H. unfold tget. cbn [sg_base seg_of_log]. rewrite eget_app_old by exact H. reflexivity. Qed.

Lemma next_index_wf r : wf_seg (seg_of_log (entry0 :: r)) -> next_index (entry0 :: r) = N.of_nat (length r) + 1.
Proof.
  intros H. unfold next_index. rewrite (last_index_consecutive _ (wf_log_seg r H)). cbn [first_index hd e_index entry0 length]. lia.
Qed.

Lemma in_set_node_self w m m' : In m (w_nodes w) -> n_id m' = n_id m -> In m' (w_nodes (set_node w m')).
Proof.
  intros Hm E. unfold set_node. cbn [w_nodes set]. apply in_map_iff. exists m. split; [|exact Hm].
  rewrite E, N.eqb_refl. reflexivity.
Qed.

Lemma in_set_node_other w m' n : In n (w_nodes w) -> n_id n <> n_id m' -> In n (w_nodes (set_node w m')).
Proof.
  intros Hn E. unfold set_node. cbn [w_nodes set]. apply in_map_iff. exists n. split; [|exact Hn].
  destruct (N.eqb_spec (n_id n) (n_id m')); [contradiction|reflexivity].
Qed.

Lemma is_seg_set_node w m' s : is_seg (set_node w m') s -> s = seg_of_log (n_log m') \/ is_seg w s.
Proof.
  intros [(n & Hn & ->)|(k & q & Hk & Eq & ->)]; [|right; right; exists k, q; auto].
  destruct (in_set_node _ _ _ Hn) as [->|[H _]]; [left; reflexivity|right; left; exists n; auto].
Qed.

(* the creator of an entry is still there after one node has moved (its log only grew, its persistent term did not shrink) *)
Lemma creator_transfer w m m' cs' i e0 a0 :
  UNI w -> In m (w_nodes w) -> n_id m' = n_id m -> n_pterm m <= n_pterm m' ->
  (forall j x, eget (seg_of_log (n_log m)) j = Some x -> eget (seg_of_log (n_log m')) j = Some x) ->
  CP (w_calls w) cs' ->
  In a0 (w_nodes w) -> lead (w_calls w) (n_id a0) (e_term e0) -> e_term e0 <= n_pterm a0 ->
  (n_pterm a0 = e_term e0 -> eget (seg_of_log (n_log a0)) i = Some e0) ->
  exists a, In a (w_nodes (set_node w m')) /\ lead cs' (n_id a) (e_term e0) /\ e_term e0 <= n_pterm a /\
            (n_pterm a = e_term e0 -> eget (seg_of_log (n_log a)) i = Some e0).
Proof.
  intros HU Hm Eid Hpt Hgrow HCP Ha0 Hl Hle Hown.
  destruct (N.eq_dec (n_id a0) (n_id m)) as [E|E].
  - assert (a0 = m) by (apply HU; assumption). subst a0. exists m'.
    split; [apply in_set_node_self with (m := m); assumption|]. rewrite Eid.
    split; [eapply lead_persist; eassumption|]. split; [lia|]. intros Ep. apply Hgrow, Hown. lia.
  - exists a0. split; [apply in_set_node_other; [exact Ha0|rewrite Eid; exact E]|].
    split; [eapply lead_persist; eassumption|]. auto.
Qed.

Lemma LMI_node_LG w m m' :
  XInv C w -> UNI w -> NSW w -> LMI w ->
  In m (w_nodes w) -> R m m' -> coh m' -> LG m m' ->
  (n_role m' = Leader -> lead (w_calls w) (n_id m) (n_term m')) ->
  LMI (set_node w m').
Proof.
  intros HX HU HNS HL Hm HR Hcoh' HLG Hlead.
  pose proof (Votes.r_id _ _ HR) as Eid. pose proof (Votes.r_tv _ _ HR) as [Hpt _].
  destruct HLG as [Elog|(e & Elog & Ei & Et & Erole & Efr & _)].
  - (* the log did not move *)
    apply (LMI_frame w); [apply CP_refl| | | |exact HL].
    + intros k q Hk Eq. exists k. auto.
    + intros n' Hn'. destruct (in_set_node _ _ _ Hn') as [->|[H _]]; [exists m; auto|exists n'; auto].
    + intros n Hn. destruct (N.eq_dec (n_id n) (n_id m)) as [E|E].
      * assert (n = m) by (apply HU; assumption). subst n. exists m'.
        split; [apply in_set_node_self with (m := m); assumption|]. auto.
      * exists n. split; [apply in_set_node_other; [exact Hn|rewrite Eid; exact E]|]. split; [reflexivity|split; [reflexivity|lia]].
  - (* one entry appended by the leader *)
    destruct HL as [WF PMM BT ONE SRC AE].
    destruct (ns_nodes w HNS m Hm) as (_ & _ & _ & _ & _ & (r & Er)).
    assert (Hsm : is_seg w (seg_of_log (n_log m))) by (left; exists m; auto).
    pose proof (WF _ Hsm) as Hwfm. rewrite Er in Hwfm.
    rewrite Er in Elog, Ei. cbn [app] in Elog. rewrite (next_index_wf r Hwfm) in Ei.
    specialize (Hlead Erole). pose proof Hlead as [Hvoter _].
    destruct (BT m Hm Hvoter) as (r' & Er'). rewrite Er in Er'. injection Er' as Er'.
    assert (Hlen : 1 <= N.of_nat (length r)) by (rewrite Er'; cbn [length]; lia).
    destruct (Hcoh' Efr) as [Hpt' _].
    set (T := e_term e) in *. set (nn := N.of_nat (length r) + 1) in *.
    assert (Hgrow : forall j x, eget (seg_of_log (n_log m)) j = Some x -> eget (seg_of_log (n_log m')) j = Some x).
    { intros j x Hx. rewrite Er in Hx. destruct (eget_range _ _ _ Hx) as [_ Hj]. rewrite top_log in Hj.
      rewrite Elog, eget_app_old; [exact Hx|exact Hj]. }
    (* no other segment has an entry of this term at the new index *)
    assert (Hno : forall y e2, is_seg w y -> eget y nn = Some e2 -> e_term e2 = T -> False).
    { intros y e2 Hy E2 Et2. destruct (SRC y nn e2 Hy E2) as (a0 & Ha0 & Hl0 & Hle0 & Hown0); [unfold nn; lia|].
      rewrite Et2 in *. assert (Ea : n_id a0 = n_id m).
      { apply (lead_unique w (n_id a0) (n_id m) T a0 m HX Ha0 Hm Hl0). rewrite Et. exact Hlead. }
      assert (a0 = m) by (apply HU; assumption). subst a0.
      assert (Hp : n_pterm m = T) by lia.
      specialize (Hown0 Hp). rewrite Er in Hown0. destruct (eget_range _ _ _ Hown0) as [_ Hj]. rewrite top_log in Hj. unfold nn in Hj. lia. }
    assert (Hpm1 : forall y, is_seg w y -> PM (seg_of_log (n_log m')) y).
    { intros y Hy i e1 e2 E1 E2 Ete. rewrite Elog in E1. destruct (N.le_gt_cases i (N.of_nat (length r))) as [Hi|Hi].
      - rewrite eget_app_old in E1 by exact Hi. rewrite <- Er in E1.
        destruct (PMM _ _ Hsm Hy i e1 e2 E1 E2 Ete) as [A B]. split; [exact A|].
        rewrite Elog, tget_app_old by lia. rewrite <- Er. exact B.
      - exfalso. destruct (N.eq_dec i nn) as [->|Hne].
        + rewrite eget_app_new in E1. injection E1 as <-. apply (Hno y e2 Hy E2). symmetry. exact Ete.
        + rewrite eget_app_beyond in E1 by (unfold nn in Hne; lia). discriminate. }
    assert (Hpm2 : forall y, is_seg w y -> PM y (seg_of_log (n_log m'))).
    { intros y Hy i e1 e2 E1 E2 Ete. rewrite Elog in E2. destruct (N.le_gt_cases i (N.of_nat (length r))) as [Hi|Hi].
      - rewrite eget_app_old in E2 by exact Hi. rewrite <- Er in E2.
        destruct (PMM _ _ Hy Hsm i e1 e2 E1 E2 Ete) as [A B]. split; [exact A|].
        rewrite Elog, tget_app_old by lia. rewrite <- Er. exact B.
      - exfalso. destruct (N.eq_dec i nn) as [->|Hne].
        + rewrite eget_app_new in E2. injection E2 as <-. apply (Hno y e1 Hy E1). exact Ete.
        + rewrite eget_app_beyond in E2 by (unfold nn in Hne; lia). discriminate. }
    assert (Hm' : In m' (w_nodes (set_node w m'))) by (apply in_set_node_self with (m := m); assumption).
    constructor.
    + intros s Hs. destruct (is_seg_set_node _ _ _ Hs) as [->|H]; [|apply WF, H].
      rewrite Elog. unfold wf_seg, seg_of_log in *. cbn [sg_base sg_es tl] in *. apply consecutive_app. split; [exact Hwfm|].
      cbn [consecutive]. split; [lia|exact I].
    + intros s1 s2 H1 H2. destruct (is_seg_set_node _ _ _ H1) as [->|A], (is_seg_set_node _ _ _ H2) as [->|B];
        [apply PM_self|apply Hpm1, B|apply Hpm2, A|apply PMM; assumption].
    + intros n Hn Hv. destruct (in_set_node _ _ _ Hn) as [->|[H _]]; [|apply BT; assumption].
      rewrite Elog, Er'. exists (r' ++ [e]). reflexivity.
    + intros s e1 Hs E1. destruct (is_seg_set_node _ _ _ Hs) as [->|H]; [|apply (ONE s e1 H E1)].
      rewrite Elog, eget_app_old in E1 by exact Hlen. rewrite <- Er in E1. apply (ONE _ e1 Hsm E1).
    + intros s i e1 Hs E1 Hi.
      assert (Hold : forall s0, is_seg w s0 -> eget s0 i = Some e1 ->
                exists a, In a (w_nodes (set_node w m')) /\ lead (w_calls (set_node w m')) (n_id a) (e_term e1) /\ e_term e1 <= n_pterm a /\
                          (n_pterm a = e_term e1 -> eget (seg_of_log (n_log a)) i = Some e1)).
      { intros s0 Hs0 E0. destruct (SRC s0 i e1 Hs0 E0 Hi) as (a0 & Ha0 & Hl0 & Hle0 & Hown0).
        apply (creator_transfer w m m' (w_calls w) i e1 a0); auto. apply CP_refl. }
      destruct (is_seg_set_node _ _ _ Hs) as [->|H]; [|apply (Hold s H E1)].
      rewrite Elog in E1. destruct (N.le_gt_cases i (N.of_nat (length r))) as [Hi'|Hi'].
      * rewrite eget_app_old in E1 by exact Hi'. rewrite <- Er in E1. apply (Hold _ Hsm E1).
      * destruct (N.eq_dec i nn) as [->|Hne]; [|rewrite eget_app_beyond in E1 by (unfold nn in Hne; lia); discriminate].
        rewrite eget_app_new in E1. injection E1 as <-. exists m'. split; [exact Hm'|]. rewrite Eid.
        fold T. split; [rewrite Et; exact Hlead|]. split; [lia|]. intros _. rewrite Elog. apply eget_app_new.
    + intros k q Hk Eq. apply (AE k q Hk Eq).
Qed.

End LogInv.
