(* Election safety (C02), shared definitions: the relations every section of a node
   satisfies with respect to the election bookkeeping (rounds = the shared vote counters,
   tasks = the spawned sendRequestVote goroutines) and with respect to the role. *)
From RaftV Require Import Cluster.World Proofs.Frame.
Open Scope N_scope.

(* Proofs.Votes has a projection called r_id too *)
Notation rd_id := (RaftV.Node.Types.r_id).

Definition task_round (t : task) : N := match t with TRv r _ _ => r | TAe r _ => r end.
Definition is_trv (t : task) : bool := match t with TRv _ _ _ => true | TAe _ _ => false end.

Definition wf_rounds (n : node) : Prop :=
  NoDup (map rd_id (n_rounds n)) /\ (forall r, In r (n_rounds n) -> rd_id r < n_next_round n).

(* E: a section that neither starts an election nor counts an RPC response:
   the vote counters it finds are untouched (or gone), the counters it creates are fresh,
   the pending sendRequestVote goroutines are exactly the same, every goroutine
   it spawns is a sendAppendEntries of a fresh counter. *)
Record E (m m' : node) : Prop := {
  e_next : n_next_round m <= n_next_round m';
  e_old : forall r, In r (n_rounds m) -> In r (n_rounds m');
  e_new : forall r, In r (n_rounds m') -> In r (n_rounds m) \/ n_next_round m <= rd_id r;
  e_wf : wf_rounds m -> wf_rounds m';
  e_trv : filter is_trv (n_tasks m') = filter is_trv (n_tasks m);
  e_tae : forall t, In t (n_tasks m') ->
            In t (n_tasks m) \/ (is_trv t = false /\ n_next_round m <= task_round t /\ task_round t < n_next_round m') }.

(* EB rid: the same, except that the counter [rid] may have been incremented once (an RPC response was counted) *)
Definition bumped (rid : N) (r r' : round) : Prop :=
  rd_id r' = rd_id r /\ r_term r' = r_term r /\
  (r_count r' = r_count r \/ (rd_id r = rid /\ r_count r' = r_count r + 1)).
Record EB (rid : N) (m m' : node) : Prop := {
  eb_next : n_next_round m <= n_next_round m';
  eb_keep : forall r, In r (n_rounds m) -> exists r', In r' (n_rounds m') /\ rd_id r' = rd_id r;
  eb_rounds : forall r', In r' (n_rounds m') ->
                (exists r, In r (n_rounds m) /\ bumped rid r r') \/ n_next_round m <= rd_id r';
  eb_wf : wf_rounds m -> wf_rounds m';
  eb_trv : filter is_trv (n_tasks m') = filter is_trv (n_tasks m);
  eb_tae : forall t, In t (n_tasks m') ->
            In t (n_tasks m) \/ (is_trv t = false /\ n_next_round m <= task_round t /\ task_round t < n_next_round m') }.

(* the fields E talks about *)
Definition erf (n : node) := (n_rounds n, n_next_round n, n_tasks n).

Definition active (r : role) : Prop := r = PreCandidate \/ r = Candidate \/ r = Leader.

(* K: a section that is not an election timeout and not a RequestVote response:
   it makes nobody leader or candidate, and a leader that stays leader stays in its term *)
Record K (m m' : node) : Prop := {
  k_leader : n_role m' = Leader -> n_role m = Leader /\ n_term m' = n_term m;
  k_active : active (n_role m') -> active (n_role m) }.
