(* Terms never decrease along a log, and no log holds an entry of a term above its holder's persistent
   term - at cluster level, for executions without membership changes and without snapshots.

   Two facts of the model shape the statements:
   - api_bootstrap writes the configuration entry (index 1) with TERM 1 into the log of a node whose persistent
     term is still 0, so "e_term e <= n_pterm n" is FALSE in the initial world (sr_node_false_init).  It holds from
     index 2 on, and for every entry up to the bootstrap term: e_term e <= N.max 1 (n_pterm n).
   - sortedness across index 1 (term 1) needs every later entry to be of a term >= 1, i.e. that no leader is of
     term 0.  This is proved here as a world invariant of its own (step_POS: an unfrozen leader, an unfrozen node with
     a pending real sendRequestVote goroutine and every real RequestVote request are of a term >= 1; EP: every entry
     and every AppendEntries request is of a term >= 1).
   The inductive core (SRI) leaves index 1 alone; the record SRT packs the statements one wants with that core. *)
From RaftV Require Import Cluster.World Cluster.Statements Proofs.Frame Proofs.RVSpec Proofs.AESpec Proofs.AELog.
From RaftV Require Import Proofs.ConfNode Proofs.ConfStatic Proofs.ConfSticky.
From RaftV Require Import Proofs.Votes Proofs.VoteRecords Proofs.Names Proofs.ElectSpec.
From RaftV Require Import Proofs.ElectDefs Proofs.EFrame Proofs.RoleFrame Proofs.ElectBook Proofs.ElectNode Proofs.ElectSteps
                          Proofs.ElectWorld Proofs.ElectReply Proofs.ElectStep Proofs.ElectRun Proofs.ElectSafety.
From RaftV Require Import Proofs.LogDefs Proofs.LogSeg Proofs.LogUni Proofs.LogInv Proofs.LogAccept Proofs.LogSend Proofs.LogFrame
                          Proofs.NoSnap Proofs.TaePeer Proofs.LogWorld Proofs.LogRun Proofs.LogMatching Proofs.StepCases.
Open Scope N_scope.

(* ---------------- sortedness of a segment ---------------- *)
(* the statement one would like *)
Definition sorted_seg (s : seg) : Prop :=
  forall i i' t t', tget s i = Some t -> tget s i' = Some t' -> i <= i' -> t <= t'.
(* the statement that holds: the same, the lower position not being index 1 *)
Definition sorted_seg1 (s : seg) : Prop :=
  forall i i' t t', tget s i = Some t -> tget s i' = Some t' -> i <= i' -> i <> 1 -> t <= t'.

(* the inductive core: index 1 (the bootstrap entry, term 1, possibly above the holder's persistent term) left alone *)
Record SRI (w : world) : Prop := {
  si_seg : forall s, is_seg w s -> sorted_seg1 s;
  si_node : forall n e, In n (w_nodes w) -> In e (n_log n) -> 2 <= e_index e -> e_term e <= n_pterm n;
  si_req : forall k q e, In k (w_calls w) -> c_req k = ReqAE q -> In e (ae_entries q) -> 2 <= e_index e -> e_term e <= ae_term q;
  si_prev : forall k q, In k (w_calls w) -> c_req k = ReqAE q -> ae_prev_index q <> 1 -> ae_prev_term q <= ae_term q;
  si_prev1 : forall k q, In k (w_calls w) -> c_req k = ReqAE q -> ae_prev_index q = 1 -> ae_prev_term q = 1 }.

(* every entry and every AppendEntries request is of a term >= 1 *)
Record EP (w : world) : Prop := {
  ep_entry : forall s i e, is_seg w s -> eget s i = Some e -> 1 <= e_term e;
  ep_req : forall k q, In k (w_calls w) -> c_req k = ReqAE q -> 1 <= ae_term q }.

(* ---------------- segments ---------------- *)
Lemma sorted1_sub s s0 : sorted_seg1 s0 -> (forall i t, tget s i = Some t -> tget s0 i = Some t) -> sorted_seg1 s.
Proof. intros H Hs i i' t t' A B L N1. apply (H i i' t t'); auto. Qed.

Lemma tget_log0 l t : tget (seg_of_log l) 0 = Some t -> t = 0.
Proof. pose proof (tget_base (seg_of_log l)) as H. cbn [seg_of_log sg_base sg_bterm] in H. rewrite H. intros E. injection E as <-. reflexivity. Qed.

Lemma in_seg_eget s e : In e (sg_es s) -> exists i, eget s i = Some e.
Proof.
  intros Hin. apply In_nth_error in Hin. destruct Hin as (k & Hk). exists (sg_base s + 1 + N.of_nat k).
  unfold eget. destruct (N.ltb_spec (sg_base s) (sg_base s + 1 + N.of_nat k)); [|lia].
  replace (N.to_nat (sg_base s + 1 + N.of_nat k - sg_base s - 1)) with k by lia. exact Hk.
Qed.

Lemma eget_in_seg s i e : eget s i = Some e -> In e (sg_es s).
Proof. unfold eget. destruct (sg_base s <? i); [|discriminate]. apply nth_error_In. Qed.

(* one entry appended *)
Lemma sorted1_app r e :
  wf_seg (seg_of_log (entry0 :: r)) -> sorted_seg1 (seg_of_log (entry0 :: r)) ->
  (forall x, In x r -> 2 <= e_index x -> e_term x <= e_term e) ->
  sorted_seg1 (seg_of_log (entry0 :: r ++ [e])).
Proof.
  intros W H Hold i i' t t' A B L N1.
  destruct (N.le_gt_cases i' (N.of_nat (length r))) as [Hi|Hi].
  - rewrite tget_app_old in A, B by lia. apply (H i i' t t'); auto.
  - assert (Hnew : i' = N.of_nat (length r) + 1 /\ t' = e_term e).
    { unfold tget in B. cbn [sg_base seg_of_log] in B. destruct (N.eqb_spec i' 0); [lia|].
      destruct (N.eq_dec i' (N.of_nat (length r) + 1)) as [->|Hne].
      - rewrite eget_app_new in B. cbn [option_map] in B. injection B as <-. auto.
      - rewrite eget_app_beyond in B by lia. discriminate. }
    destruct Hnew as [-> ->]. destruct (N.le_gt_cases i (N.of_nat (length r))) as [Hi2|Hi2].
    + rewrite tget_app_old in A by lia. destruct (N.eq_dec i 0) as [->|Hi0].
      * apply tget_log0 in A. lia.
      * destruct (tget_some _ _ _ A) as (_ & _ & He). destruct He as (x & Ex & <-); [cbn [seg_of_log sg_base]; lia|].
        apply Hold; [eapply eget_in_log; exact Ex|rewrite (eget_index _ _ _ W Ex); lia].
    + assert (i = N.of_nat (length r) + 1) by lia. subst i. rewrite B in A. injection A as <-. lia.
Qed.

(* a segment that reads like sl below x and like sq from x on, the two agreeing on the term at x-1 *)
Lemma sorted1_splice s' sl sq x :
  sg_base s' = 0 -> sg_bterm s' = 0 -> 1 <= x ->
  (forall i, i < x -> tget s' i = tget sl i) ->
  (forall i, x <= i -> eget s' i = None \/ eget s' i = eget sq i) ->
  (forall i, x <= i -> eget s' i <> None -> tget s' (i - 1) = tget sq (i - 1)) ->
  sorted_seg1 sl -> sorted_seg1 sq -> sorted_seg1 s'.
Proof.
  intros B B2 Hx F2 F3 F4 Sl Sq i i' t t' A A' L N1.
  destruct (N.lt_ge_cases i' x) as [H|H].
  - rewrite F2 in A, A' by lia. apply (Sl i i' t t'); auto.
  - assert (Hq : forall j u, x <= j -> tget s' j = Some u -> tget sq j = Some u /\ eget s' j <> None).
    { intros j u Hj Hu. destruct (tget_some _ _ _ Hu) as (_ & _ & He). destruct He as (e & E & Et); [lia|].
      split; [|congruence]. destruct (F3 j Hj) as [N0|Eq]; [congruence|]. rewrite Eq in E.
      rewrite (tget_entry _ _ _ E). congruence. }
    destruct (Hq i' t' H A') as [Q' Ne'].
    destruct (N.lt_ge_cases i x) as [Hi|Hi]; [|destruct (Hq i t Hi A) as [Q _]; apply (Sq i i' t t'); auto].
    assert (Hex : exists ex, eget s' x = Some ex).
    { destruct (eget s' i') as [e'|] eqn:E'; [|contradiction]. destruct (eget_range _ _ _ E'). apply eget_defined; lia. }
    destruct Hex as (ex & Ex).
    assert (Hm : tget s' (x - 1) = tget sq (x - 1)) by (apply F4; [lia|congruence]).
    assert (Htm : exists tm, tget s' (x - 1) = Some tm).
    { destruct (N.eq_dec (x - 1) 0) as [E0|E0].
      - exists (sg_bterm s'). rewrite E0, <- B. apply tget_base.
      - destruct (eget_defined s' (x - 1)) as (em & Em); [lia|destruct (eget_range _ _ _ Ex); lia|].
        exists (e_term em). apply tget_entry, Em. }
    destruct Htm as (tm & Tm). pose proof Tm as Tm2. rewrite F2 in Tm2 by lia. rewrite Tm in Hm. symmetry in Hm.
    destruct (N.eq_dec (x - 1) 1) as [E1|E1].
    + assert (i = 0) by lia. subst i. pose proof (tget_base s') as H0. rewrite B, B2 in H0. rewrite H0 in A. injection A as <-. lia.
    + rewrite F2 in A by lia.
      assert (t <= tm) by (apply (Sl i (x - 1) t tm); auto; lia).
      assert (tm <= t') by (apply (Sq (x - 1) i' tm t'); auto; lia). lia.
Qed.

(* ---------------- the sender of a new RPC is up ---------------- *)
Definition UPk (w : world) (k' : call) : Prop :=
  (exists k, In k (w_calls w) /\ call_key k' = call_key k) \/
  (exists m, In m (w_nodes w) /\ c_src k' = n_id m /\ n_frozen m = false).
Definition UP (w w' : world) : Prop := forall k', In k' (w_calls w') -> UPk w k'.

Lemma UP_keys w w' : (forall k', In k' (w_calls w') -> exists k, In k (w_calls w) /\ call_key k' = call_key k) -> UP w w'.
Proof. intros H k' Hk'. left. apply H, Hk'. Qed.

Lemma UP_same w w' : w_calls w' = w_calls w -> UP w w'.
Proof. intros E. apply UP_keys. intros k' Hk'. rewrite E in Hk'. exists k'. auto. Qed.

Lemma keys_step_deliver w c dup : In c (w_calls w) ->
  forall k', In k' (w_calls (step_deliver w c dup)) -> exists k, In k (w_calls w) /\ call_key k' = call_key k.
Proof.
  intros Hc. unfold step_deliver. destruct (get_node w (c_dst c)) as [n|].
  2:{ destruct dup; [intros k' H; exists k'; auto|apply keys_set_call with (c := c); auto]. }
  destruct (n_frozen n); [destruct dup; [intros k' H; exists k'; auto|apply keys_set_call with (c := c); auto]|].
  destruct (run_handler (w_now w) n (c_req c)) as [[n1 resp] parked].
  destruct dup; [intros k' H; exists k'; auto|].
  destruct (n_frozen n1); [apply keys_set_call with (c := c); auto|].
  destruct resp; apply keys_set_call with (c := c); auto.
Qed.

Lemma keys_step_reply w c failed : NSW w -> In c (w_calls w) ->
  forall k', In k' (w_calls (step_reply w c failed)) -> exists k, In k (w_calls w) /\ call_key k' = call_key k.
Proof.
  intros HNS Hc. unfold step_reply. set (w0 := set_call w (c <| c_state := CDone |>)).
  assert (H0 : forall k', In k' (w_calls w0) -> exists k, In k (w_calls w) /\ call_key k' = call_key k)
    by (apply keys_set_call with (c := c); auto).
  destruct (get_node w (c_src c)) as [n|] eqn:G; [|exact H0]. destruct (Votes.get_node_in _ _ _ G) as [Hn _].
  destruct (n_frozen n); [exact H0|].
  destruct (c_req c) as [q|q|q]; destruct (if failed then None else c_resp c) as [[p|p|p]|]; try exact H0.
  destruct (ae_reply_ns (w_now w) n (c_round c) (c_dst c) (c_fgen c) q p (ns_nodes w HNS n Hn)) as [_ Hnone].
  destruct (l_ae_reply (w_now w) n (c_round c) (c_dst c) (c_fgen c) q p) as [n1 o]. cbn [snd] in Hnone. subst o. exact H0.
Qed.

Lemma UP_step_deliver w c dup : In c (w_calls w) -> UP w (step_deliver w c dup).
Proof. intros Hc. apply UP_keys, keys_step_deliver, Hc. Qed.

Lemma UP_step_reply w c failed : NSW w -> In c (w_calls w) -> UP w (step_reply w c failed).
Proof. intros HNS Hc. apply UP_keys, keys_step_reply; assumption. Qed.

Lemma UP_step_task w m : In m (w_nodes w) -> is_up m = true -> UP w (step_task w m).
Proof.
  intros Hm Hup. assert (F : n_frozen m = false).
  { unfold is_up in Hup. apply andb_prop in Hup. destruct Hup as [_ H]. destruct (n_frozen m); [discriminate|reflexivity]. }
  assert (Hnew : forall w1 dst rid g q, w_calls w1 = w_calls w -> UP w (new_call w1 (n_id m) dst rid g q)).
  { intros w1 dst rid g q E k' Hk'. unfold new_call in Hk'. cbn [w_calls set] in Hk'. rewrite E in Hk'. apply in_app_or in Hk'.
    destruct Hk' as [H|[<-|[]]]; [left; exists k'; auto|]. right. exists m. cbn [c_src]. auto. }
  unfold step_task. destruct (n_tasks m) as [|t rest]; [apply UP_same; reflexivity|].
  set (n0 := m <| n_tasks := rest |>).
  destruct t as [rid peer pv|rid peer].
  - destruct (l_rv_send n0 rid peer pv) as [q|]; [apply Hnew; reflexivity|apply UP_same; reflexivity].
  - destruct (l_ae_send n0 peer) as [n1 sn]. destruct sn as [|q|q]; [apply UP_same; reflexivity| |]; apply Hnew; reflexivity.
Qed.

Theorem step_UP w l : static_label l = true -> nosnap_label l = true -> NSW w -> UP w (step w l).
Proof.
  intros Hst Hns HNS.
  assert (Hon : forall w1 id f, w_calls w1 = w_calls w -> UP w (on_node w1 id f)).
  { intros w1 id f E. apply UP_same. unfold on_node. destruct (get_node w1 id); exact E. }
  destruct l; cbn [step]; try discriminate Hst; try discriminate Hns; try (apply Hon; reflexivity).
  - apply UP_same. reflexivity.
  - destruct (get_call w c) as [cl|] eqn:G; [|apply UP_same; reflexivity]. destruct (VoteRecords.get_call_in _ _ _ G) as [Hin _].
    destruct (c_state cl); try (apply UP_same; reflexivity). apply UP_step_deliver; auto.
  - destruct (get_call w c) as [cl|] eqn:G; [|apply UP_same; reflexivity]. destruct (VoteRecords.get_call_in _ _ _ G) as [Hin _].
    apply UP_step_deliver; auto.
  - destruct (get_call w c) as [cl|] eqn:G; [|apply UP_same; reflexivity]. destruct (VoteRecords.get_call_in _ _ _ G) as [Hin _].
    destruct (c_state cl); try (apply UP_same; reflexivity). apply UP_step_reply; auto.
  - destruct (get_call w c) as [cl|] eqn:G; [|apply UP_same; reflexivity]. destruct (VoteRecords.get_call_in _ _ _ G) as [Hin _].
    destruct (c_state cl); try (apply UP_same; reflexivity); apply UP_step_reply; auto.
  - apply UP_keys. intros k' Hk'. unfold drop_calls_of in Hk'. cbn [w_calls set] in Hk'. apply in_map_iff in Hk'.
    destruct Hk' as (d & <- & Hd). exists d. rewrite calls_on_node in Hd. split; [exact Hd|]. destruct (c_src d =? n); reflexivity.
  - destruct (get_node w n) as [m|] eqn:G; [|apply UP_same; reflexivity]. destruct (is_up m) eqn:Hup; [|apply UP_same; reflexivity].
    destruct (Votes.get_node_in _ _ _ G) as [Hm _]. apply UP_step_task; auto.
  - destruct (get_node w n) as [m|] eqn:G; [|apply UP_same; reflexivity].
    destruct (Votes.get_node_in _ _ _ G) as [Hm _]. rewrite (install_resume_ns m (ns_nodes w HNS m Hm)). apply UP_same. reflexivity.
Qed.

(* ---------------- terms are positive where it matters ---------------- *)
(* An unfrozen leader, an unfrozen node with a pending real (non-prevote) sendRequestVote goroutine, and every
   real RequestVote request are of a term >= 1: election() increments the term before any real vote is asked. *)
Definition PN (n : node) : Prop :=
  n_frozen n = false ->
  (n_role n = Leader -> 1 <= n_term n) /\ (forall rid p, In (TRv rid p false) (n_tasks n) -> 1 <= n_term n).
Definition PNW (w : world) : Prop := forall n, In n (w_nodes w) -> PN n.
Definition PCW (w : world) : Prop :=
  forall k q, In k (w_calls w) -> c_req k = ReqRV q -> rv_prevote q = false -> 1 <= rv_term q.

Definition trv_sub (m m' : node) : Prop := forall rid p pv, In (TRv rid p pv) (n_tasks m') -> In (TRv rid p pv) (n_tasks m).
Lemma trv_sub_E m m' : E m m' -> trv_sub m m'.
Proof. intros H rid p pv Hin. eapply trv_in; [apply (e_trv _ _ H)|exact Hin]. Qed.
Lemma trv_sub_EB rid0 m m' : EB rid0 m m' -> trv_sub m m'.
Proof. intros H rid p pv Hin. eapply trv_in; [apply (eb_trv _ _ _ H)|exact Hin]. Qed.
Lemma trv_sub_refl m : trv_sub m m.
Proof. intros rid p pv H. exact H. Qed.
Lemma trv_sub_tasks m m' : n_tasks m' = n_tasks m -> trv_sub m m'.
Proof. intros E rid p pv H. rewrite E in H. exact H. Qed.

Lemma PN_section m m' : coh m -> R m m' -> K m m' -> trv_sub m m' -> PN m -> PN m'.
Proof.
  intros Hc HR [K1 _] HT HP F'. destruct (mem_mono _ _ HR Hc F') as (F & Hle & _). destruct (HP F) as [A B].
  split.
  - intros Hl. destruct (K1 Hl) as [L0 E0]. specialize (A L0). lia.
  - intros rid p Hin. specialize (B rid p (HT _ _ _ Hin)). lia.
Qed.

Lemma PNW_eq w w' : w_nodes w' = w_nodes w -> PNW w -> PNW w'.
Proof. intros E H n Hn. rewrite E in Hn. apply H, Hn. Qed.

Lemma PNW_set_node w m' : PNW w -> PN m' -> PNW (set_node w m').
Proof. intros H Hm n Hn. destruct (in_set_node _ _ _ Hn) as [->|[Hin _]]; [exact Hm|apply H, Hin]. Qed.

Lemma PNW_on_node w id f :
  Inv w -> PNW w -> (forall m, coh m -> R m (f m)) -> (forall m, K m (f m)) -> (forall m, trv_sub m (f m)) -> PNW (on_node w id f).
Proof.
  intros HI HP HR HK HT. unfold on_node. destruct (get_node w id) as [m|] eqn:G; [|exact HP].
  destruct (Votes.get_node_in _ _ _ G) as [Hm _]. apply PNW_set_node; [exact HP|].
  apply (PN_section m); auto.
Qed.

Lemma PNW_cond w id (b : node -> bool) g :
  Inv w -> PNW w -> (forall m, coh m -> R m (g m)) -> (forall m, K m (g m)) -> (forall m, E m (g m)) ->
  PNW (on_node w id (fun m => if b m then g m else m)).
Proof.
  intros HI HP HR HK HE. apply PNW_on_node; auto; intros m; destruct (b m); auto using R_refl, K_refl, trv_sub_refl, trv_sub_E.
Qed.

Lemma PCW_keys w w' : (forall k', In k' (w_calls w') -> exists k, In k (w_calls w) /\ call_key k' = call_key k) -> PCW w -> PCW w'.
Proof.
  intros H HP k' q Hk' Eq. destruct (H k' Hk') as (k & Hk & Ek). pose proof (key_fields _ _ Ek) as (_ & _ & _ & _ & Er).
  apply (HP k q Hk). congruence.
Qed.

Lemma PCW_new_call w w1 src dst rid g rq :
  w_calls w1 = w_calls w -> PCW w -> (forall q, rq = ReqRV q -> rv_prevote q = false -> 1 <= rv_term q) ->
  PCW (new_call w1 src dst rid g rq).
Proof.
  intros E HP Hq k q Hk Eq. unfold new_call in Hk. cbn [w_calls set] in Hk. rewrite E in Hk. apply in_app_or in Hk.
  destruct Hk as [Hk|[<-|[]]]; [apply (HP k q Hk Eq)|]. cbn [c_req] in Eq. apply (Hq q Eq).
Qed.

(* election() *)
Lemma election_leader_term now m :
  n_role (l_election now m) = Leader ->
  (n_role m = Leader /\ n_term (l_election now m) = n_term m) \/ n_term (l_election now m) = n_term m + 1.
Proof.
  intros H. destruct (n_role m) eqn:ER; try (right; apply (election_becomes_leader now m); [rewrite ER; discriminate|exact H]).
  left. split; [reflexivity|]. unfold l_election. cbn [n_role set]. rewrite ER. reflexivity.
Qed.

Lemma election_real_tasks now m rid p :
  In (TRv rid p false) (n_tasks (l_election now m)) -> In (TRv rid p false) (n_tasks m) \/ 1 <= n_term (l_election now m).
Proof.
  unfold l_election.
  set (n0 := m <| n_cv ::= fun c => c <| cv_election := false |> |>).
  assert (P0 : n_tasks n0 = n_tasks m) by reflexivity. clearbody n0.
  match goal with |- In _ (n_tasks (if ?c then _ else _)) -> _ => destruct c eqn:G end; [rewrite P0; auto|].
  apply Bool.orb_false_iff in G. destruct G as [G _]. apply Bool.orb_false_iff in G. destruct G as [G _].
  apply Bool.orb_false_iff in G. destruct G as [GL GS].
  set (n1 := if role_eqb (n_role n0) Follower then n0 <| n_role := PreCandidate |> else n0).
  assert (P1 : n_tasks n1 = n_tasks m /\ (n_role n1 = PreCandidate \/ n_role n1 = Candidate)).
  { subst n1. destruct (n_role n0) eqn:ER; cbn; repeat split; try assumption; auto; discriminate. }
  clearbody n1. destruct P1 as (T1 & R1).
  set (n2 := if role_eqb (n_role n1) Candidate then persist (n1 <| n_term ::= N.succ |> <| n_vote := Some (n_id n1) |>) else n1).
  assert (P2 : n_tasks n2 = n_tasks m /\ n_role n2 = n_role n1 /\ (n_role n1 = Candidate -> 1 <= n_term n2)).
  { subst n2. destruct (role_eqb (n_role n1) Candidate) eqn:EC.
    - pose proof (persist_core (n1 <| n_term ::= N.succ |> <| n_vote := Some (n_id n1) |>)) as HP. cbn zeta in HP.
      destruct HP as (PT & _ & _ & PR & _).
      pose proof (persist_erf (n1 <| n_term ::= N.succ |> <| n_vote := Some (n_id n1) |>)) as HE. unfold erf in HE. injection HE as _ _ HE.
      split; [rewrite HE; exact T1|]. split; [rewrite PR; reflexivity|]. intros _. rewrite PT. cbn. lia.
    - split; [exact T1|]. split; [reflexivity|]. intros E. rewrite E in EC. discriminate. }
  clearbody n2. destruct P2 as (T2 & R2 & Z2).
  pose proof (send_rv_shape now n2) as HS. cbn zeta in HS.
  destruct HS as [HS|((c0 & A1 & A2 & A3 & A4) & TV & RR)]; intros H.
  - left. rewrite <- T2. eapply trv_in; [apply (e_trv _ _ HS)|exact H].
  - rewrite A4 in H. apply in_app_or in H. destruct H as [H|H]; [left; rewrite <- T2; exact H|].
    right. apply in_map_iff in H. destruct H as (id & Eq & _). injection Eq as _ _ Epv.
    unfold tvf in TV. injection TV as _ TT _ _ _ _. rewrite TT. apply Z2.
    rewrite R2 in Epv. destruct R1 as [R1|R1]; [rewrite R1 in Epv; discriminate|exact R1].
Qed.

Lemma PN_election now m : coh m -> PN m -> PN (l_election now m).
Proof.
  intros Hc HP F'. destruct (mem_mono _ _ (R_election now m Hc) Hc F') as (F & Hle & _). destruct (HP F) as [A B]. split.
  - intros Hl. destruct (election_leader_term now m Hl) as [[L0 E0]|E1]; [specialize (A L0)|]; lia.
  - intros rid p Hin. destruct (election_real_tasks now m rid p Hin) as [H|H]; [specialize (B rid p H); lia|exact H].
Qed.

Section Pos.
Variable C : config.
Hypothesis HCnd : NoDup (member_ids C).

Lemma PNW_step_deliver w c dup : Inv w -> PNW w -> PNW (step_deliver w c dup).
Proof.
  intros HI HP. unfold step_deliver. destruct (get_node w (c_dst c)) as [n|] eqn:G.
  2:{ destruct dup; [exact HP|apply (PNW_eq w); [reflexivity|exact HP]]. }
  destruct (Votes.get_node_in _ _ _ G) as [Hn _].
  destruct (n_frozen n); [destruct dup; [exact HP|apply (PNW_eq w); [reflexivity|exact HP]]|].
  assert (H1 : PNW (set_node w (fst (fst (run_handler (w_now w) n (c_req c)))))).
  { apply PNW_set_node; [exact HP|]. apply (PN_section n); auto; [apply R_run_handler, HI, Hn|apply K_run_handler|apply trv_sub_E, E_run_handler]. }
  destruct (run_handler (w_now w) n (c_req c)) as [[n1 resp] parked]. cbn [fst] in H1.
  destruct dup; [exact H1|].
  destruct (n_frozen n1); [apply (PNW_eq (set_node w n1)); [reflexivity|exact H1]|].
  destruct resp; apply (PNW_eq (set_node w n1)); try reflexivity; exact H1.
Qed.

Lemma PNW_step_reply w c failed :
  XInv C w -> NSW w -> PNW w -> PCW w -> In c (w_calls w) -> PNW (step_reply w c failed).
Proof.
  intros HX HNS HP HPC Hc. pose proof (vi_coh w (x_v C w HX)) as HI. unfold step_reply.
  set (w0 := set_call w (c <| c_state := CDone |>)).
  assert (H0 : PNW w0) by (apply (PNW_eq w); [reflexivity|exact HP]).
  destruct (get_node w (c_src c)) as [n|] eqn:G; [|exact H0]. destruct (Votes.get_node_in _ _ _ G) as [Hn Eid].
  pose proof (HI n Hn) as Hcoh.
  destruct (n_frozen n) eqn:F; [exact H0|].
  pose proof (ns_calls w HNS c Hc) as Hq. unfold ns_call in Hq.
  destruct (c_req c) as [q|q|q] eqn:Eq; [| |contradiction].
  - destruct (if failed then None else c_resp c) as [[p|p|p]|]; try exact H0.
    destruct (ae_reply_ns (w_now w) n (c_round c) (c_dst c) (c_fgen c) q p (ns_nodes w HNS n Hn)) as [_ Hnone].
    pose proof (K_ae_reply (w_now w) n (c_round c) (c_dst c) (c_fgen c) q p) as HK.
    pose proof (R_ae_reply (w_now w) n (c_round c) (c_dst c) (c_fgen c) q p Hcoh) as HR.
    pose proof (ae_reply_EB (w_now w) n (c_round c) (c_dst c) (c_fgen c) q p) as HE.
    destruct (l_ae_reply (w_now w) n (c_round c) (c_dst c) (c_fgen c) q p) as [n1 o]. cbn [fst snd] in *. subst o.
    apply PNW_set_node; [exact H0|]. apply (PN_section n); auto. eapply trv_sub_EB; exact HE.
  - destruct (if failed then None else c_resp c) as [[p|p|p]|]; try exact H0.
    apply PNW_set_node; [exact H0|].
    set (m' := l_rv_reply (w_now w) n (c_round c) (c_dst c) (rv_prevote q) q p).
    pose proof (R_rv_reply (w_now w) n (c_round c) (c_dst c) (rv_prevote q) q p Hcoh) as HR. fold m' in HR.
    intros F'. destruct (mem_mono _ _ HR Hcoh F') as (_ & Hle & _). destruct (HP n Hn F) as [A B]. split.
    + intros Hl. destruct (rv_reply_K (w_now w) n (c_round c) (c_dst c) (rv_prevote q) q p) as [K1 _]. fold m' in K1.
      destruct (K1 Hl) as [[L0 E0]|(Epv & _)]; [specialize (A L0); lia|].
      assert (Hreal : real_rv c (rv_term q)) by (exists q; auto).
      pose proof (x_s1 C w HX c (rv_term q) n Hc Hreal Hn Eid) as Hv. destruct (Hcoh F) as [Ecoh _].
      pose proof (HPC c q Hc Eq Epv) as Hpos. destruct Hv as [Hv|[Hv _]]; lia.
    + intros rid p0 Hin.
      assert (HT : trv_sub n m').
      { destruct (rv_reply_EB (w_now w) n (c_round c) (c_dst c) (rv_prevote q) q p) as [E1 E2]. fold m' in E1, E2.
        destruct (rvr_granted p); [eapply trv_sub_EB; apply E1; reflexivity|apply trv_sub_E, E2; reflexivity]. }
      specialize (B rid p0 (HT _ _ _ Hin)). lia.
Qed.

Lemma POS_step_task w m : Inv w -> PNW w -> PCW w -> In m (w_nodes w) -> is_up m = true ->
  PNW (step_task w m) /\ PCW (step_task w m).
Proof.
  intros HI HP HPC Hm Hup. assert (F : n_frozen m = false).
  { unfold is_up in Hup. apply andb_prop in Hup. destruct Hup as [_ H]. destruct (n_frozen m); [discriminate|reflexivity]. }
  pose proof (HI m Hm) as Hcoh. destruct (HP m Hm F) as [A B].
  unfold step_task. destruct (n_tasks m) as [|t rest] eqn:Et; [split; assumption|].
  set (n0 := m <| n_tasks := rest |>).
  assert (HQ0 : Q m n0) by qtv.
  assert (HP0 : PN n0).
  { apply (PN_section m); auto; [apply Q_R, HQ0|apply K_of_rt; reflexivity|].
    intros rid p pv Hin. rewrite Et. right. exact Hin. }
  assert (Hc0 : coh n0) by (apply (coh_R _ _ (Q_R _ _ HQ0)), Hcoh).
  destruct t as [rid peer pv|rid peer].
  - destruct (l_rv_send n0 rid peer pv) as [q|] eqn:Es; [|split; [apply PNW_set_node; assumption|exact HPC]].
    split; [apply (PNW_eq (set_node w n0)); [reflexivity|apply PNW_set_node; assumption]|].
    apply (PCW_new_call w); [reflexivity|exact HPC|]. intros q0 Eq0 Epv. injection Eq0 as <-.
    unfold l_rv_send in Es. destruct (negb (n_term n0 =? round_term n0 rid)); [discriminate|].
    destruct (negb (is_voter (conf_of n0) peer) || negb (is_voter (conf_of n0) (n_id n0))); [discriminate|].
    injection Es as <-. cbn [rv_prevote rv_term] in *. subst pv. change (n_term n0) with (n_term m).
    apply (B rid peer). left. reflexivity.
  - pose proof (Q_ae_send n0 peer) as HQ. pose proof (K_l_ae_send n0 peer) as HK. pose proof (E_l_ae_send n0 peer) as HE.
    destruct (l_ae_send n0 peer) as [n1 sn]. cbn [fst] in *.
    assert (HP1 : PN n1) by (apply (PN_section n0); auto; [apply Q_R, HQ|apply trv_sub_E, HE]).
    assert (H1 : PNW (set_node w n1)) by (apply PNW_set_node; assumption).
    destruct sn as [|q|q]; [split; assumption| |]; (split; [apply (PNW_eq (set_node w n1)); [reflexivity|exact H1]|]);
      (apply (PCW_new_call w); [reflexivity|exact HPC|intros q0 Eq0; discriminate Eq0]).
Qed.

Theorem step_POS w l : static_label l = true -> nosnap_label l = true -> ALL C w -> PNW w -> PCW w ->
  PNW (step w l) /\ PCW (step w l).
Proof.
  intros Hst Hns [HW HX HU HNS HTA HL] HP HPC. pose proof (vi_coh w (x_v C w HX)) as HI.
  assert (Hkeep : forall w', w_calls w' = w_calls w -> PCW w').
  { intros w' E. apply (PCW_keys w); [|exact HPC]. intros k' Hk'. rewrite E in Hk'. exists k'. auto. }
  assert (Hcon : forall w1 id f, w_calls w1 = w_calls w -> PCW (on_node w1 id f)).
  { intros w1 id f E. apply Hkeep. unfold on_node. destruct (get_node w1 id); exact E. }
  assert (Hplain : forall id f, (forall m, Q m (f m)) -> (forall m, (n_role (f m), n_term (f m)) = (n_role m, n_term m)) ->
                     (forall m, trv_sub m (f m)) -> PNW (on_node w id f)).
  { intros id f HQ HRT HT. apply PNW_on_node; auto; [intros m _; apply Q_R, HQ|intros m; apply K_of_rt, HRT]. }
  destruct l; cbn [step]; try discriminate Hst; try discriminate Hns.
  - (* LTick *) split; [apply (PNW_eq w); [reflexivity|exact HP]|apply Hkeep; reflexivity].
  - (* LElection *) split; [|apply Hcon; reflexivity].
    apply PNW_cond; auto; [intros m _; apply Q_R, Q_signal_election|intros m; apply K_of_rt; reflexivity|apply E_signal_election].
  - (* LHeartbeat *) split; [|apply Hcon; reflexivity].
    apply PNW_cond; auto; [intros m _; apply Q_R, Q_heartbeat|apply K_l_heartbeat|apply E_l_heartbeat].
  - (* LDeliver *) destruct (get_call w c) as [cl|] eqn:G; [|split; assumption]. destruct (VoteRecords.get_call_in _ _ _ G) as [Hin _].
    destruct (c_state cl); try (split; assumption).
    split; [apply PNW_step_deliver; assumption|apply (PCW_keys w); [apply keys_step_deliver, Hin|exact HPC]].
  - (* LDup *) destruct (get_call w c) as [cl|] eqn:G; [|split; assumption]. destruct (VoteRecords.get_call_in _ _ _ G) as [Hin _].
    split; [apply PNW_step_deliver; assumption|apply (PCW_keys w); [apply keys_step_deliver, Hin|exact HPC]].
  - (* LReply *) destruct (get_call w c) as [cl|] eqn:G; [|split; assumption]. destruct (VoteRecords.get_call_in _ _ _ G) as [Hin _].
    destruct (c_state cl); try (split; assumption).
    split; [apply PNW_step_reply; assumption|apply (PCW_keys w); [apply keys_step_reply; assumption|exact HPC]].
  - (* LFail *) destruct (get_call w c) as [cl|] eqn:G; [|split; assumption]. destruct (VoteRecords.get_call_in _ _ _ G) as [Hin _].
    destruct (c_state cl); try (split; assumption);
      (split; [apply PNW_step_reply; assumption|apply (PCW_keys w); [apply keys_step_reply; assumption|exact HPC]]).
  - (* LSubmit *) unfold fresh_fid. split; [|apply Hcon; reflexivity].
    apply PNW_on_node; auto.
    + intros m _. destruct (n_frozen m); [apply R_refl|apply Q_R, Q_submit].
    + intros m. destruct (n_frozen m); [apply K_refl|apply K_api_submit].
    + intros m. destruct (n_frozen m); [apply trv_sub_refl|apply trv_sub_E, E_api_submit].
  - (* LCrash *) split.
    + apply (PNW_eq (on_node w n crash)); [reflexivity|]. unfold on_node. destruct (get_node w n) as [m|]; [|exact HP].
      apply PNW_set_node; [exact HP|]. intros _. split; [rewrite role_crash; discriminate|].
      intros rid p Hin. change (In (TRv rid p false) []) in Hin. destruct Hin.
    + apply (PCW_keys w); [|exact HPC]. intros k' Hk'. unfold drop_calls_of in Hk'. cbn [w_calls set] in Hk'. apply in_map_iff in Hk'.
      destruct Hk' as (d & <- & Hd). exists d. rewrite calls_on_node in Hd. split; [exact Hd|]. destruct (c_src d =? n); reflexivity.
  - (* LRestart *) split; [|apply Hcon; reflexivity]. unfold on_node. destruct (get_node w n) as [m|] eqn:G; [|exact HP].
    destruct (Votes.get_node_in _ _ _ G) as [Hm _]. apply PNW_set_node; [exact HP|].
    destruct (role_eqb (n_role m) Shutdown); [|apply HP, Hm].
    intros _. split; [rewrite role_restart; discriminate|].
    intros rid p Hin. pose proof (erf_restart (w_now w) m) as HE. unfold erf in HE. injection HE as _ _ HE. rewrite HE in Hin. destruct Hin.
  - (* LBudget *) split; [|apply Hcon; reflexivity]. apply Hplain; [intros m; apply Q_upd_budget|reflexivity|intros m; apply trv_sub_tasks; reflexivity].
  - (* LPad *) split; [|apply Hcon; reflexivity]. apply Hplain; [intros m; qtv|reflexivity|intros m; apply trv_sub_tasks; reflexivity].
  - (* LDefer *) split; [|apply Hcon; reflexivity]. apply Hplain; [intros m; qtv|reflexivity|].
    intros m rid p pv Hin. cbn [n_tasks set] in Hin. destruct (n_tasks m) as [|t ts]; [destruct Hin|].
    cbn [tl firstn] in Hin. apply in_app_or in Hin. destruct Hin as [H|[<-|[]]]; [right; exact H|left; reflexivity].
  - (* LRoMissed *) split; [|apply Hcon; reflexivity]. apply Hplain; [intros m; qtv|reflexivity|intros m; apply trv_sub_tasks; reflexivity].
  - (* LTask *) destruct (get_node w n) as [m|] eqn:G; [|split; assumption]. destruct (is_up m) eqn:Hup; [|split; assumption].
    destruct (Votes.get_node_in _ _ _ G) as [Hm _]. apply POS_step_task; assumption.
  - (* LElectionRun *) split; [|apply Hcon; reflexivity]. unfold on_node. destruct (get_node w n) as [m|] eqn:G; [|exact HP].
    destruct (Votes.get_node_in _ _ _ G) as [Hm _]. apply PNW_set_node; [exact HP|].
    destruct (is_up m && cv_election (n_cv m)); [apply PN_election; [apply HI, Hm|apply HP, Hm]|apply HP, Hm].
  - (* LCommit *) split; [|apply Hcon; reflexivity]. apply PNW_cond; auto; [intros m _; apply Q_R, Q_commit|apply K_lp_commit|apply E_lp_commit].
  - (* LApply *) split; [|apply Hcon; reflexivity]. apply PNW_cond; auto; [intros m _; apply Q_R, Q_apply|apply K_lp_apply|apply E_lp_apply].
  - (* LRo *) split; [|apply Hcon; reflexivity]. apply PNW_cond; auto; [intros m _; apply Q_R, Q_ro|apply K_lp_ro|apply E_lp_ro].
  - (* LInstallResume *) destruct (get_node w n) as [m|] eqn:G; [|split; assumption].
    destruct (Votes.get_node_in _ _ _ G) as [Hm _]. rewrite (install_resume_ns m (ns_nodes w HNS m Hm)). split; assumption.
Qed.

End Pos.

Lemma POS_init ids boot et ld : PNW (init_world ids boot et ld) /\ PCW (init_world ids boot et ld).
Proof.
  split; [|intros k q []].
  intros n Hn _. unfold init_world in Hn. cbn [w_nodes] in Hn. apply in_map_iff in Hn. destruct Hn as (id & <- & _).
  destruct (init_node_shape id boot et ld) as [HE HR]. cbn zeta in HE, HR. split; [rewrite HR; discriminate|].
  intros rid p Hin. unfold erf in HE. injection HE as _ _ HT. rewrite HT in Hin. destruct Hin.
Qed.

(* ---------------- one step ---------------- *)
Section SortedTerms.
Variable C : config.
Hypothesis HCnd : NoDup (member_ids C).

(* a node after one transition; every entry of its log is an entry of a segment of the old world at the same index,
   or the entry a leader has just appended, of its term *)
Lemma SRI_node_TR w w' n n' :
  ALL C w -> SRI w -> In n (w_nodes w) -> TR C w w' n n' ->
  sorted_seg1 (seg_of_log (n_log n')) /\
  (forall e, In e (n_log n') -> 2 <= e_index e -> e_term e <= n_pterm n') /\
  (forall i e, eget (seg_of_log (n_log n')) i = Some e ->
     (exists s, is_seg w s /\ eget s i = Some e) \/ (n_role n' = Leader /\ n_frozen n' = false /\ e_term e = n_term n')).
Proof.
  intros [HW HX HU HNS HTA HL] [SS SN SQ SP _] Hn HT.
  pose proof (vi_coh w (x_v C w HX) n Hn) as Hcoh.
  assert (Hsn : is_seg w (seg_of_log (n_log n))) by (left; exists n; auto).
  pose proof (SS _ Hsn) as Hsorted. pose proof (lm_wf C w HL _ Hsn) as Hwfn.
  destruct (ns_nodes w HNS n Hn) as (Hlii & Hlit & _ & _ & _ & (r & Er)).
  assert (Hsame : forall i e, eget (seg_of_log (n_log n)) i = Some e ->
            (exists s, is_seg w s /\ eget s i = Some e) \/ (n_role n' = Leader /\ n_frozen n' = false /\ e_term e = n_term n'))
    by (intros i e E; left; exists (seg_of_log (n_log n)); auto).
  destruct HT as [->|HS HLG _|k q Hk Eq Edst F ->].
  - split; [exact Hsorted|]. split; [intros e; apply SN; exact Hn|exact Hsame].
  - destruct (HS Hcoh) as (Eid & [Hpt _] & Hcoh'). destruct HLG as [Elog|(e & Elog & Ei & Et & Erole & Efr & _)].
    + rewrite Elog. split; [exact Hsorted|]. split; [|exact Hsame]. intros e He Hi. specialize (SN n e Hn He Hi). lia.
    + destruct (Hcoh' Hcoh Efr) as [Hpt' _]. rewrite Er in Elog, Hsorted, Hwfn, Hsame. cbn [app] in Elog.
      assert (Hold : forall x, In x r -> 2 <= e_index x -> e_term x <= e_term e).
      { intros x Hx Hi. assert (Hin : In x (n_log n)) by (rewrite Er; right; exact Hx). specialize (SN n x Hn Hin Hi). lia. }
      split; [rewrite Elog; apply sorted1_app; assumption|]. split.
      * intros x Hx Hi. rewrite Elog in Hx. destruct Hx as [<-|Hx]; [cbn in Hi; lia|]. apply in_app_or in Hx.
        destruct Hx as [Hx|[<-|[]]]; [specialize (Hold x Hx Hi); lia|lia].
      * rewrite Elog. intros i e0 E. destruct (N.le_gt_cases i (N.of_nat (length r))) as [Hi|Hi].
        -- rewrite eget_app_old in E by exact Hi. apply Hsame, E.
        -- destruct (N.eq_dec i (N.of_nat (length r) + 1)) as [->|Hne].
           ++ rewrite eget_app_new in E. injection E as <-. right. auto.
           ++ rewrite eget_app_beyond in E by lia. discriminate.
  - set (n' := fst (h_append_entries (w_now w) n q)) in *.
    pose proof (R_append_entries (w_now w) n q Hcoh) as HR. fold n' in HR. pose proof (Votes.r_tv _ _ HR) as [Hpt _].
    destruct (list_eq_dec entry_eq_dec (n_log n') (n_log n)) as [El|El].
    { rewrite El. split; [exact Hsorted|]. split; [|exact Hsame]. intros e He Hi. specialize (SN n e Hn He Hi). lia. }
    assert (Hsq : is_seg w (seg_of_req q)) by (right; exists k, q; auto).
    pose proof (lm_wf C w HL _ Hsq) as Hwfq. rewrite Er in Hwfn.
    assert (Hge : ae_term q <= n_pterm n').
    { destruct (Hcoh F) as [Ecoh _]. destruct (N.le_gt_cases (ae_term q) (n_term n)) as [Hle|Hlt]; [lia|].
      pose proof (ae_higher_term_log (w_now w) n q Hlt El) as Hp. fold n' in Hp. lia. }
    destruct (ae_log_general (w_now w) n q) as [Esame|(a & ta & m & Hes & Hta & Hm & Hterm & Hlo & Hprev & Hchk & Ha & Hhead & Elog)].
    { rewrite Er. apply wf_log_seg, Hwfn. } { rewrite Er, Hlii. reflexivity. } { exact Hwfq. }
    { contradiction. }
    fold n' in Elog. rewrite Er in Elog, Hprev, Ha, Hhead, Hchk.
    set (prev := ae_prev_index q) in *. set (x := prev + 1 + N.of_nat (length a)) in *.
    change (log_truncate (entry0 :: r) x ++ firstn m ta) with (splice r x (firstn m ta)) in Elog.
    assert (Hcheck : tget (seg_of_log (entry0 :: r)) prev = Some (ae_prev_term q)).
    { destruct Hchk as [[E1 E2]|(_ & pe & Hpe & Ept)].
      - rewrite E1, Hlii, E2, Hlit. reflexivity.
      - rewrite <- eget_log in Hpe by (exists r; reflexivity). rewrite (tget_entry _ _ _ Hpe), Ept. reflexivity. }
    destruct (splice_facts r q a ta m Hwfn Hwfq Hes Hprev Hcheck Ha) as (Hx & F1 & F2 & F3 & F4 & F5).
    fold prev in Hx, F1, F2, F3, F4, F5. fold x in Hx, F1, F2, F3, F4, F5.
    assert (Hx1 : 1 <= x) by (unfold x; lia).
    assert (Eshape : n_log n' = entry0 :: (firstn (N.to_nat (x - 1)) r ++ firstn m ta)) by (rewrite Elog; apply splice_shape; assumption).
    rewrite <- Elog in F1, F2, F3, F4, F5.
    rewrite Er in Hsorted, Hsame.
    split; [|split].
    + apply (sorted1_splice _ (seg_of_log (entry0 :: r)) (seg_of_req q) x); auto.
    + intros e He Hi. rewrite Eshape in He, F5, F1, F3. destruct He as [<-|He]; [cbn in Hi; lia|].
      pose proof (in_log_eget _ e F5 He) as Eg.
      destruct (N.lt_ge_cases (e_index e) x) as [H|H].
      * rewrite (F1 _ H) in Eg. apply eget_in_log in Eg.
        assert (Hin : In e (n_log n)) by (rewrite Er; right; exact Eg). specialize (SN n e Hn Hin Hi). lia.
      * destruct (F3 _ H) as [N0|Eq0]; [congruence|]. rewrite Eq0 in Eg. apply eget_in_seg in Eg. cbn [seg_of_req sg_es] in Eg.
        specialize (SQ k q e Hk Eq Eg Hi). lia.
    + intros i e E. destruct (N.lt_ge_cases i x) as [H|H].
      * rewrite (F1 _ H) in E. apply Hsame, E.
      * destruct (F3 _ H) as [N0|Eq0]; [congruence|]. rewrite Eq0 in E. left. exists (seg_of_req q). auto.
Qed.

(* an AppendEntries request after one step: an old one, or one an unfrozen leader has just built from its log *)
Lemma call_origin w w' k' q :
  UNI w -> NC w w' -> UP w w' -> In k' (w_calls w') -> c_req k' = ReqAE q ->
  (exists k, In k (w_calls w) /\ c_req k = ReqAE q) \/
  (exists m, In m (w_nodes w) /\ n_frozen m = false /\ n_role m = Leader /\ ae_term q = n_term m /\ wf_seg (seg_of_req q) /\
             (forall i e, eget (seg_of_req q) i = Some e -> eget (seg_of_log (n_log m)) i = Some e) /\
             tget (seg_of_log (n_log m)) (ae_prev_index q) = Some (ae_prev_term q)).
Proof.
  intros HU HNC HUP Hk' Eq.
  assert (Hold : forall k, In k (w_calls w) -> call_key k' = call_key k -> exists k, In k (w_calls w) /\ c_req k = ReqAE q).
  { intros k Hk Ek. pose proof (key_fields _ _ Ek) as (_ & _ & _ & _ & Er). exists k. split; [exact Hk|congruence]. }
  destruct (HUP k' Hk') as [(k & Hk & Ek)|(m0 & Hm0 & Es0 & F0)]; [left; apply (Hold k Hk Ek)|].
  destruct (HNC k' Hk') as [(k & Hk & Ek)|(m & Hm & Es & Hmatch)]; [left; apply (Hold k Hk Ek)|].
  rewrite Eq in Hmatch. destruct Hmatch as (Hrole & Eterm & _ & Hwfq & Hsub & Hbase).
  assert (m = m0) by (apply HU; auto; congruence). subst m0. right. exists m. auto 10.
Qed.

Lemma SRI_call_step w w' k' q :
  ALL C w -> SRI w -> NC w w' -> UP w w' -> In k' (w_calls w') -> c_req k' = ReqAE q ->
  sorted_seg1 (seg_of_req q) /\
  (forall e, In e (ae_entries q) -> 2 <= e_index e -> e_term e <= ae_term q) /\
  (ae_prev_index q <> 1 -> ae_prev_term q <= ae_term q) /\
  (ae_prev_index q = 1 -> ae_prev_term q = 1).
Proof.
  intros [HW HX HU HNS HTA HL] [SS SN SQ SP SP1] HNC HUP Hk' Eq.
  destruct (call_origin w w' k' q HU HNC HUP Hk' Eq) as [(k & Hk & Er)|(m & Hm & F0 & Hrole & Eterm & Hwfq & Hsub & Hbase)].
  { split; [apply SS; right; exists k, q; auto|]. split; [intros e; apply (SQ k q e Hk Er)|]. split; [apply (SP k q Hk Er)|apply (SP1 k q Hk Er)]. }
  destruct (vi_coh w (x_v C w HX) m Hm F0) as [Ecoh _].
  assert (Hsm : is_seg w (seg_of_log (n_log m))) by (left; exists m; auto).
  destruct (ns_nodes w HNS m Hm) as (_ & _ & _ & _ & _ & (r & Er)).
  pose proof (lm_wf C w HL _ Hsm) as Hwfm. rewrite Er in Hwfm, Hsub, Hbase.
  assert (Hin : forall i e, eget (seg_of_log (entry0 :: r)) i = Some e -> 2 <= i -> e_term e <= ae_term q).
  { intros i e Eg Hi. pose proof (eget_index _ _ _ Hwfm Eg) as Ei. apply eget_in_log in Eg.
    assert (Hl : In e (n_log m)) by (rewrite Er; right; exact Eg). assert (Hi2 : 2 <= e_index e) by lia.
    specialize (SN m e Hm Hl Hi2). lia. }
  split; [|split; [|split]].
  - apply (sorted1_sub _ (seg_of_log (n_log m))); [apply SS, Hsm|]. rewrite Er. intros i t Ht.
    destruct (N.eq_dec i (sg_base (seg_of_req q))) as [->|Hne].
    + rewrite tget_base in Ht. injection Ht as <-. exact Hbase.
    + destruct (tget_some _ _ _ Ht) as (Hb & _ & He). destruct He as (e & Eg & <-); [lia|]. apply tget_entry, Hsub, Eg.
  - intros e He Hi. destruct (in_seg_eget (seg_of_req q) e He) as (i & Eg).
    pose proof (eget_index _ _ _ Hwfq Eg) as Ei. apply (Hin i e); [apply Hsub, Eg|lia].
  - intros Hp1. destruct (tget_some _ _ _ Hbase) as (_ & _ & He). cbn [seg_of_log sg_base] in He.
    destruct (N.eq_dec (ae_prev_index q) 0) as [E0|E0].
    + rewrite E0 in Hbase. apply tget_log0 in Hbase. lia.
    + destruct He as (e & Eg & <-); [lia|]. apply (Hin _ e Eg). lia.
  - intros Hp1. destruct (tget_some _ _ _ Hbase) as (_ & _ & He). cbn [seg_of_log sg_base] in He.
    destruct He as (e & Eg & <-); [lia|]. rewrite Hp1, <- Er in Eg. rewrite (lm_one C w HL _ e Hsm Eg). reflexivity.
Qed.

Lemma SRI_step w w' : ALL C w -> SRI w -> NT C w w' -> NC w w' -> UP w w' -> SRI w'.
Proof.
  intros HA HS HNT HNC HUP. constructor.
  - intros s [(n' & Hn' & ->)|(k & q & Hk & Eq & ->)].
    + destruct (HNT n' Hn') as (n & Hn & _ & HT). apply (SRI_node_TR w w' n n' HA HS Hn HT).
    + apply (SRI_call_step w w' k q HA HS HNC HUP Hk Eq).
  - intros n' e Hn'. destruct (HNT n' Hn') as (n & Hn & _ & HT). apply (SRI_node_TR w w' n n' HA HS Hn HT).
  - intros k q e Hk Eq. apply (SRI_call_step w w' k q HA HS HNC HUP Hk Eq).
  - intros k q Hk Eq. apply (SRI_call_step w w' k q HA HS HNC HUP Hk Eq).
  - intros k q Hk Eq. apply (SRI_call_step w w' k q HA HS HNC HUP Hk Eq).
Qed.

Lemma EP_step w w' : ALL C w -> SRI w -> PNW w -> PNW w' -> EP w -> NT C w w' -> NC w w' -> UP w w' -> EP w'.
Proof.
  intros HA HS HP HP' [EE EQ] HNT HNC HUP. constructor.
  - intros s i e [(n' & Hn' & ->)|(k & q & Hk & Eq & ->)] Eg.
    + destruct (HNT n' Hn') as (n & Hn & _ & HT). destruct (SRI_node_TR w w' n n' HA HS Hn HT) as (_ & _ & Hfrom).
      destruct (Hfrom i e Eg) as [(s & Hs & E0)|(Hl & F & Et)]; [apply (EE s i e Hs E0)|].
      destruct (HP' n' Hn' F) as [A _]. specialize (A Hl). lia.
    + destruct (call_origin w w' k q (a_uni C w HA) HNC HUP Hk Eq) as [(k0 & Hk0 & Er)|(m & Hm & F0 & Hrole & Eterm & Hwfq & Hsub & Hbase)].
      * apply (EE (seg_of_req q) i e); [right; exists k0, q; auto|exact Eg].
      * apply (EE (seg_of_log (n_log m)) i e); [left; exists m; auto|apply Hsub, Eg].
  - intros k q Hk Eq.
    destruct (call_origin w w' k q (a_uni C w HA) HNC HUP Hk Eq) as [(k0 & Hk0 & Er)|(m & Hm & F0 & Hrole & Eterm & _)]; [apply (EQ k0 q Hk0 Er)|].
    destruct (HP m Hm F0) as [A _]. specialize (A Hrole). lia.
Qed.

End SortedTerms.

(* ---------------- what the inductive core gives, index 1 included ---------------- *)
Section Corollaries.
Variable C : config.
Variable w : world.
Hypothesis HA : ALL C w.
Hypothesis HS : SRI w.

(* the term at index 1 of every segment is the bootstrap term *)
Lemma seg_term_at_1 s t : is_seg w s -> tget s 1 = Some t -> t = 1.
Proof.
  intros Hs Ht. destruct (N.eq_dec (sg_base s) 1) as [Eb|Eb].
  - rewrite <- Eb, tget_base in Ht. injection Ht as <-.
    destruct Hs as [(n & Hn & ->)|(k & q & Hk & Eq & ->)]; [cbn in Eb; lia|].
    cbn [seg_of_req sg_base sg_bterm] in *. apply (si_prev1 w HS k q Hk Eq Eb).
  - destruct (tget_some _ _ _ Ht) as (Hb & _ & He). destruct He as (e & Eg & <-); [lia|].
    rewrite (lm_one C w (a_lm C w HA) s e Hs Eg). reflexivity.
Qed.

Theorem seg_sorted_max1 s i i' t t' : is_seg w s -> tget s i = Some t -> tget s i' = Some t' -> i <= i' -> t <= N.max 1 t'.
Proof.
  intros Hs A B L. destruct (N.eq_dec i 1) as [->|Hne].
  - rewrite (seg_term_at_1 s t Hs A). lia.
  - pose proof (si_seg w HS s Hs i i' t t' A B L Hne). lia.
Qed.

Theorem node_term_max1 n e : In n (w_nodes w) -> In e (n_log n) -> e_term e <= N.max 1 (n_pterm n).
Proof.
  intros Hn He. destruct (N.le_gt_cases 2 (e_index e)) as [Hi|Hi]; [pose proof (si_node w HS n e Hn He Hi); lia|].
  assert (Hsn : is_seg w (seg_of_log (n_log n))) by (left; exists n; auto).
  pose proof (lm_wf C w (a_lm C w HA) _ Hsn) as Hwf.
  destruct (ns_nodes w (a_ns C w HA) n Hn) as (_ & _ & _ & _ & _ & (r & Er)). rewrite Er in He, Hwf.
  destruct He as [<-|He]; [cbn; lia|]. pose proof (in_log_eget r e Hwf He) as Eg. rewrite <- Er in Eg.
  pose proof (tget_entry _ _ _ Eg) as Ht. destruct (eget_range _ _ _ Eg) as [Hb _]. cbn [seg_of_log sg_base] in Hb.
  assert (E1 : e_index e = 1) by lia. rewrite E1 in Ht. rewrite (seg_term_at_1 _ _ Hsn Ht). lia.
Qed.

Theorem req_term_max1 k q e : In k (w_calls w) -> c_req k = ReqAE q -> In e (ae_entries q) -> e_term e <= N.max 1 (ae_term q).
Proof.
  intros Hk Eq He. destruct (N.le_gt_cases 2 (e_index e)) as [Hi|Hi]; [pose proof (si_req w HS k q e Hk Eq He Hi); lia|].
  assert (Hsq : is_seg w (seg_of_req q)) by (right; exists k, q; auto).
  pose proof (lm_wf C w (a_lm C w HA) _ Hsq) as Hwf.
  destruct (in_seg_eget (seg_of_req q) e He) as (i & Eg). pose proof (eget_index _ _ _ Hwf Eg) as Ei.
  destruct (eget_range _ _ _ Eg) as [Hb _]. pose proof (tget_entry _ _ _ Eg) as Ht.
  assert (E1 : i = 1) by lia. rewrite E1 in Ht. rewrite (seg_term_at_1 _ _ Hsq Ht). lia.
Qed.

Theorem req_prev_max1 k q : In k (w_calls w) -> c_req k = ReqAE q -> ae_prev_term q <= N.max 1 (ae_term q).
Proof.
  intros Hk Eq. destruct (N.eq_dec (ae_prev_index q) 1) as [E|E].
  - rewrite (si_prev1 w HS k q Hk Eq E). lia.
  - pose proof (si_prev w HS k q Hk Eq E). lia.
Qed.

(* with the positivity of terms: the statements one would like *)
Hypothesis HE : EP w.

Theorem seg_sorted s : is_seg w s -> sorted_seg s.
Proof.
  intros Hs i i' t t' A B L. destruct (N.eq_dec i 1) as [->|Hne]; [|apply (si_seg w HS s Hs i i' t t' A B L Hne)].
  rewrite (seg_term_at_1 s t Hs A). destruct (N.eq_dec i' 1) as [->|Hne']; [rewrite (seg_term_at_1 s t' Hs B); lia|].
  destruct (tget_some _ _ _ B) as (Hb & _ & He). destruct (tget_some _ _ _ A) as (Hb1 & _).
  destruct He as (e & Eg & <-); [lia|]. apply (ep_entry w HE s i' e Hs Eg).
Qed.

Theorem req_term k q e : In k (w_calls w) -> c_req k = ReqAE q -> In e (ae_entries q) -> e_term e <= ae_term q.
Proof. intros Hk Eq He. pose proof (req_term_max1 k q e Hk Eq He). pose proof (ep_req w HE k q Hk Eq). lia. Qed.

Theorem req_prev k q : In k (w_calls w) -> c_req k = ReqAE q -> ae_prev_term q <= ae_term q.
Proof. intros Hk Eq. pose proof (req_prev_max1 k q Hk Eq). pose proof (ep_req w HE k q Hk Eq). lia. Qed.

End Corollaries.

(* ---------------- the invariant ---------------- *)
(* sr_seg, sr_req, sr_prev: as one would like.  sr_node: "e_term e <= n_pterm n" is false of the bootstrap entry
   (sr_node_false_init below); it holds from index 2 on (sr_node2) and, for every entry, up to the bootstrap term 1.
   sr_core, sr_pos, sr_pn, sr_pc make the record inductive. *)
Record SRT (w : world) : Prop := {
  sr_seg : forall s, is_seg w s -> sorted_seg s;
  sr_node : forall n e, In n (w_nodes w) -> In e (n_log n) -> e_term e <= N.max 1 (n_pterm n);
  sr_node2 : forall n e, In n (w_nodes w) -> In e (n_log n) -> 2 <= e_index e -> e_term e <= n_pterm n;
  sr_req : forall k q e, In k (w_calls w) -> c_req k = ReqAE q -> In e (ae_entries q) -> e_term e <= ae_term q;
  sr_prev : forall k q, In k (w_calls w) -> c_req k = ReqAE q -> ae_prev_term q <= ae_term q;
  sr_core : SRI w;
  sr_pos : EP w;
  sr_pn : PNW w;
  sr_pc : PCW w }.

Lemma SRT_of C w : ALL C w -> SRI w -> EP w -> PNW w -> PCW w -> SRT w.
Proof.
  intros HA HS HE HP HPC. constructor; try assumption.
  - apply (seg_sorted C w HA HS HE).
  - apply (node_term_max1 C w HA HS).
  - apply (si_node w HS).
  - apply (req_term C w HA HS HE).
  - apply (req_prev w HS HE).
Qed.

Lemma step_ALL C w l : NoDup (member_ids C) -> static_label l = true -> nosnap_label l = true -> ALL C w -> ALL C (step w l).
Proof.
  intros HC S1 N1 [HW HX HU HNS HTA HL]. constructor.
  - apply step_WI; assumption.
  - apply step_XInv; assumption.
  - apply step_UNI; assumption.
  - apply step_NSW; assumption.
  - apply step_TAEW; assumption.
  - apply step_LMI; assumption.
Qed.

Theorem step_SRT C w l :
  NoDup (member_ids C) -> static_label l = true -> nosnap_label l = true -> ALL C w -> SRT w -> SRT (step w l).
Proof.
  intros HC Hst Hns HA [_ _ _ _ _ HS HE HP HPC].
  pose proof (step_NT C HC w l Hst Hns HA) as HNT. pose proof (step_NC C w l Hst Hns HA) as HNC.
  pose proof (step_UP w l Hst Hns (a_ns C w HA)) as HUP.
  destruct (step_POS C w l Hst Hns HA HP HPC) as [HP' HPC'].
  apply (SRT_of C); [apply step_ALL; assumption|apply (SRI_step C w); assumption|apply (EP_step C w); assumption|exact HP'|exact HPC'].
Qed.

(* ---------------- the initial world ---------------- *)
Lemma SRT_init ids boot et ld : SRT (init_world ids boot et ld).
Proof.
  set (C := bootconf boot).
  assert (Hnode : forall n, In n (w_nodes (init_world ids boot et ld)) -> n_log n = [entry0; bootentry C] \/ n_log n = [entry0]).
  { intros n Hn. unfold init_world in Hn. cbn [w_nodes] in Hn. apply in_map_iff in Hn. destruct Hn as (id & <- & _).
    destruct (init_node_log id boot et ld) as [_ B]. cbn zeta in B. rewrite B. destruct (existsb (N.eqb id) boot); auto. }
  destruct (POS_init ids boot et ld) as [HP HPC].
  apply (SRT_of C); [apply ALL_init| | |exact HP|exact HPC].
  - constructor.
    + intros s [(n & Hn & ->)|(k & q & [] & _)]. intros i i' t t' A B L N1.
      assert (Hle : forall j u, tget (seg_of_log (n_log n)) j = Some u -> j <= 1 /\ (j = 0 -> u = 0)).
      { intros j u Hu. destruct (tget_some _ _ _ Hu) as (_ & Ht & _). split; [|intros ->; apply tget_log0 in Hu; exact Hu].
        unfold top in Ht. destruct (Hnode n Hn) as [E|E]; rewrite E in Ht; cbn in Ht; lia. }
      destruct (Hle i t A) as [A1 A2]. assert (i = 0) by lia. rewrite (A2 H). lia.
    + intros n e Hn He Hi. destruct (Hnode n Hn) as [E|E]; rewrite E in He; cbn [In] in He.
      * destruct He as [<-|[<-|[]]]; cbn in Hi; lia.
      * destruct He as [<-|[]]; cbn in Hi; lia.
    + intros k q e [].
    + intros k q [].
    + intros k q [].
  - constructor; [|intros k q []].
    intros s i e [(n & Hn & ->)|(k & q & [] & _)] Eg. destruct (Hnode n Hn) as [E|E]; rewrite E in Eg; apply eget_in_log in Eg.
    + destruct Eg as [<-|[]]. cbn. lia.
    + destruct Eg.
Qed.

(* ---------------- every reachable world ---------------- *)
Lemma ALL_SRT_run C ls : NoDup (member_ids C) -> forall w, static ls = true -> nosnap ls = true -> ALL C w -> SRT w ->
  ALL C (run w ls) /\ SRT (run w ls).
Proof.
  intros HC. induction ls as [|l ls IH]; intros w Hs Hn HA HS; [split; assumption|].
  destruct (static_cons _ _ Hs) as [S1 S2]. destruct (nosnap_cons _ _ Hn) as [N1 N2].
  cbn [run fold_left]. apply IH; [exact S2|exact N2|apply step_ALL; assumption|apply (step_SRT C w l HC S1 N1 HA HS)].
Qed.

Theorem SRT_reach ids boot et ld ls : static ls = true -> nosnap ls = true -> SRT (run (init_world ids boot et ld) ls).
Proof.
  intros Hs Hn. apply (ALL_SRT_run (bootconf boot) ls (bootconf_nodup boot) _ Hs Hn (ALL_init ids boot et ld) (SRT_init ids boot et ld)).
Qed.

(* an unfrozen leader is of a term >= 1, in every reachable world *)
Theorem leader_term_pos ids boot et ld ls n : static ls = true -> nosnap ls = true ->
  In n (w_nodes (run (init_world ids boot et ld) ls)) -> n_frozen n = false -> n_role n = Leader -> 1 <= n_term n.
Proof. intros Hs Hn Hin F Hl. destruct (sr_pn _ (SRT_reach ids boot et ld ls Hs Hn) n Hin F) as [A _]. apply A, Hl. Qed.

(* ---------------- why sr_node is not "e_term e <= n_pterm n" ---------------- *)
(* every bootstrapped node of the initial world holds an entry (the bootstrap configuration, term 1) of a term
   above its persistent term (0) *)
Lemma init_node_pterm id boot et ld :
  n_pterm (api_start 0 (new_opmanager 0 (if existsb (N.eqb id) boot then api_bootstrap (mk_node id et ld) boot else mk_node id et ld))) = 0.
Proof.
  rewrite (q_pterm _ _ (Q_api_start _ _)), (q_pterm _ _ (Q_new_opmanager _ _)).
  destruct (existsb (N.eqb id) boot); [|reflexivity].
  unfold api_bootstrap. cbn [n_conf mk_node]. cbn [n_log last_index last_entry last e_index entry0 mk_node]. cbn [N.ltb N.compare].
  rewrite (q_pterm _ _ (Q_append _ _)). reflexivity.
Qed.

Theorem sr_node_false_init ids boot et ld id : In id ids -> In id boot ->
  exists n e, In n (w_nodes (init_world ids boot et ld)) /\ In e (n_log n) /\ n_pterm n < e_term e.
Proof.
  intros Hid Hb.
  set (n := api_start 0 (new_opmanager 0 (if existsb (N.eqb id) boot then api_bootstrap (mk_node id et ld) boot else mk_node id et ld))).
  exists n, (bootentry (bootconf boot)).
  assert (Hex : existsb (N.eqb id) boot = true) by (apply existsb_exists; exists id; split; [exact Hb|apply N.eqb_refl]).
  split; [unfold init_world; cbn [w_nodes]; apply in_map_iff; exists id; split; [reflexivity|exact Hid]|].
  destruct (init_node_log id boot et ld) as [_ B]. cbn zeta in B. fold n in B. rewrite Hex in B.
  split; [rewrite B; right; left; reflexivity|]. unfold n. rewrite init_node_pterm. cbn. lia.
Qed.

Print Assumptions step_SRT.
Print Assumptions SRT_init.
Print Assumptions SRT_reach.
Print Assumptions leader_term_pos.
Print Assumptions sr_node_false_init.
