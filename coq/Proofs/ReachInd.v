(* Induction over the reachable worlds of executions without membership changes and snapshots, with all the
   invariants proved so far available for the world before and after the step. *)
From RaftV Require Import Cluster.World Cluster.Statements Proofs.Frame.
From RaftV Require Import Proofs.ConfNode Proofs.ConfStatic Proofs.Votes Proofs.VoteRecords.
From RaftV Require Import Proofs.ElectWorld Proofs.ElectRun Proofs.ElectSafety.
From RaftV Require Import Proofs.LogDefs Proofs.LogSeg Proofs.LogUni Proofs.LogInv Proofs.NoSnap Proofs.TaePeer Proofs.LogRun Proofs.LogMatching
                          Proofs.StepCases Proofs.SortedTerms.
Open Scope N_scope.

Lemma step_ALL C w l : NoDup (member_ids C) -> static_label l = true -> nosnap_label l = true -> ALL C w -> ALL C (step w l).
Proof.
  intros HC S1 N1 [HW HX HU HNS HTA HL]. constructor;
    [apply step_WI|apply step_XInv|apply step_UNI|apply step_NSW|apply step_TAEW|apply step_LMI]; assumption.
Qed.

Lemma reach_ind C (P : world -> Prop) : NoDup (member_ids C) ->
  (forall w l, static_label l = true -> nosnap_label l = true -> ALL C w -> ALL C (step w l) -> SRT w -> SRT (step w l) -> P w -> P (step w l)) ->
  forall ls w0, static ls = true -> nosnap ls = true -> ALL C w0 -> SRT w0 -> P w0 -> P (run w0 ls) /\ ALL C (run w0 ls) /\ SRT (run w0 ls).
Proof.
  intros HC Hstep. induction ls as [|l ls IH]; intros w0 Hs Hn HA HS HP; [auto|].
  destruct (static_cons _ _ Hs) as [S1 S2]. destruct (nosnap_cons _ _ Hn) as [N1 N2]. cbn [run fold_left].
  pose proof (step_ALL C w0 l HC S1 N1 HA) as HA1. pose proof (step_SRT C w0 l HC S1 N1 HA HS) as HS1.
  apply IH; auto.
Qed.

Lemma reach_init C (P : world -> Prop) ids boot et ld : C = bootconf boot ->
  (forall w l, static_label l = true -> nosnap_label l = true -> ALL C w -> ALL C (step w l) -> SRT w -> SRT (step w l) -> P w -> P (step w l)) ->
  P (init_world ids boot et ld) ->
  forall ls, static ls = true -> nosnap ls = true -> P (run (init_world ids boot et ld) ls).
Proof.
  intros -> Hstep H0 ls Hs Hn.
  apply (reach_ind (bootconf boot) P (bootconf_nodup boot) Hstep ls _ Hs Hn (ALL_init ids boot et ld) (SRT_init ids boot et ld) H0).
Qed.
