(* L3: the cluster as a labelled transition system.  A label is one scheduler
   decision: a timer firing, a goroutine taking the lock, an RPC being
   delivered / answered / failing, a client call, a crash, a restart.
   [run] accepts every label list; a label that is not enabled is a no-op. *)
From RaftV Require Export Node.Leader.
Open Scope N_scope.

Inductive cstate := CPending | CAnswered | CWaiting | CDone.
Record call := { c_id : N; c_src : nid; c_dst : nid; c_round : N; c_fgen : N (* the follower object the sending goroutine holds *); c_req : request;
                 c_resp : option response; c_state : cstate }.
#[export] Instance eta_call : Settable _ := settable! Build_call <c_id; c_src; c_dst; c_round; c_fgen; c_req; c_resp; c_state>.

Record world := { w_nodes : list node; w_calls : list call; w_now : N; w_next_call : N; w_next_fid : N }.
#[export] Instance eta_world : Settable _ := settable! Build_world <w_nodes; w_calls; w_now; w_next_call; w_next_fid>.

Inductive label :=
| LTick (dt : N)
| LElection (n : nid)                    (* electionTicker fires *)
| LHeartbeat (n : nid)                   (* heartbeatLoop iteration *)
| LDeliver (c : N)                       (* destination runs its handler on call c *)
| LDup (c : N)                           (* the same request reaches the handler again *)
| LReply (c : N)                         (* the sender resumes with the response *)
| LFail (c : N)                          (* the sender resumes with a transport error *)
| LSubmit (n : nid) (ty : optype) (payload : N)
| LAddServer (n : nid) (id : nid) (voter : bool)
| LRemoveServer (n : nid) (id : nid)
| LSnapshot (n : nid)                    (* NeedSnapshot answers true once and snapshotLoop runs *)
| LCrash (n : nid)
| LRestart (n : nid)
| LBudget (n : nid) (k : N)              (* arm the crash point: n freezes at its (k+1)-th storage write from now *)
| LPad (n : nid) (k : N)                 (* harness configuration: n's state machine pads its snapshots with k zero bytes *)
| LDefer (n : nid)                       (* scheduler: the goroutine at the head of n's run queue takes the lock after the others *)
| LRoMissed (n : nid)                    (* scheduler: readOnlyCond was broadcast while readOnlyLoop was not waiting (it releases the
                                            lock around every Apply of a read): the wake-up is lost *)
(* goroutines / loops taking the lock; [settle] fires these *)
| LTask (n : nid)
| LElectionRun (n : nid) | LCommit (n : nid) | LApply (n : nid) | LRo (n : nid)
| LInstallResume (n : nid).

Definition get_node (w : world) (id : nid) : option node := find (fun n => n_id n =? id) (w_nodes w).
Definition set_node (w : world) (n : node) : world :=
  w <| w_nodes ::= map (fun m => if n_id m =? n_id n then n else m) |>.
Definition get_call (w : world) (id : N) : option call := find (fun c => c_id c =? id) (w_calls w).
Definition set_call (w : world) (c : call) : world :=
  w <| w_calls ::= map (fun d => if c_id d =? c_id c then c else d) |>.
Definition new_call (w : world) (src dst round gen : N) (q : request) : world :=
  w <| w_calls ::= fun l => l ++ [{| c_id := w_next_call w; c_src := src; c_dst := dst; c_round := round; c_fgen := gen;
                                     c_req := q; c_resp := None; c_state := CPending |}] |>
    <| w_next_call ::= N.succ |>.

(* a frozen node holds its mutex forever at the refused storage write *)
Definition is_up (n : node) : bool := negb (role_eqb (n_role n) Shutdown) && negb (n_frozen n).

(* run the first spawned goroutine of node n up to its RPC *)
Definition step_task (w : world) (n : node) : world :=
  match n_tasks n with
  | [] => w
  | t :: rest =>
      let n0 := n <| n_tasks := rest |> in
      match t with
      | TRv rid peer prevote =>
          match l_rv_send n0 rid peer prevote with
          | None => set_node w n0
          | Some q => new_call (set_node w n0) (n_id n) peer rid 0 (ReqRV q)
          end
      | TAe rid peer =>
          match l_ae_send n0 peer with
          | (n1, SentNothing) => set_node w n1
          | (n1, SentAE q) => new_call (set_node w n1) (n_id n) peer rid (f_gen (get_follower n1 peer)) (ReqAE q)
          | (n1, SentIS q) => new_call (set_node w n1) (n_id n) peer rid (f_gen (get_follower n1 peer)) (ReqIS q)
          end
      end
  end.

(* the destination's handler *)
Definition run_handler (now : N) (n : node) (q : request) : node * option response * bool (* parked *) :=
  match q with
  | ReqAE r => let (n1, p) := h_append_entries now n r in (n1, option_map RespAE p, false)
  | ReqRV r => let (n1, p) := h_request_vote now n r in (n1, option_map RespRV p, false)
  | ReqIS r =>
      let waiting := length (n_iswait n) in
      let (n1, p) := h_install_snapshot now n r in
      (n1, option_map RespIS p, negb (Nat.eqb (length (n_iswait n1)) waiting))
  end.

Definition step_deliver (w : world) (c : call) (dup : bool) : world :=
  match get_node w (c_dst c) with
  | None => if dup then w else set_call w (c <| c_state := CAnswered |>)   (* no such server: transport error *)
  | Some n =>
      if n_frozen n then (if dup then w else set_call w (c <| c_state := CWaiting |>)) else
      let '(n1, resp, parked) := run_handler (w_now w) n (c_req c) in
      let w1 := set_node w n1 in
      if dup then w1 else
      if n_frozen n1 then set_call w1 (c <| c_state := CWaiting |>) else
      match resp with
      | None => set_call w1 (c <| c_state := CAnswered |>)            (* handler returned an error *)
      | Some p => set_call w1 (c <| c_resp := Some p |> <| c_state := if parked then CWaiting else CAnswered |>)
      end
  end.

(* the sending goroutine resumes *)
Definition step_reply (w : world) (c : call) (failed : bool) : world :=
  let w0 := set_call w (c <| c_state := CDone |>) in
  match get_node w (c_src c) with
  | None => w0
  | Some n =>
      if n_frozen n then w0 else
      let now := w_now w in
      match c_req c, (if failed then None else c_resp c) with
      | ReqRV q, Some (RespRV p) => set_node w0 (l_rv_reply now n (c_round c) (c_dst c) (rv_prevote q) q p)
      | ReqRV _, _ => w0
      | ReqAE q, Some (RespAE p) =>
          match l_ae_reply now n (c_round c) (c_dst c) (c_fgen c) q p with
          | (n1, None) => set_node w0 n1
          | (n1, Some isq) => new_call (set_node w0 n1) (n_id n) (c_dst c) (c_round c) (f_gen (get_follower n1 (c_dst c))) (ReqIS isq)
          end
      | ReqAE _, _ => w0
      | ReqIS q, Some (RespIS p) => set_node w0 (l_is_reply now n (c_dst c) (c_fgen c) q (Some p))
      | ReqIS q, _ => set_node w0 (l_is_reply now n (c_dst c) (c_fgen c) q None)
      end
  end.

Definition on_node (w : world) (id : nid) (f : node -> node) : world :=
  match get_node w id with Some n => set_node w (f n) | None => w end.

Definition fresh_fid (w : world) : world * N := (w <| w_next_fid ::= N.succ |>, w_next_fid w).

(* calls of a dead process never resume; calls to it fail at the transport *)
Definition drop_calls_of (w : world) (id : nid) : world :=
  w <| w_calls ::= map (fun c => if (c_src c =? id) then c <| c_state := CDone |> else c) |>.

Definition label_node (l : label) (w : world) : option nid :=
  match l with
  | LElection n | LHeartbeat n | LSubmit n _ _ | LAddServer n _ _ | LRemoveServer n _ | LSnapshot n
  | LCrash n | LRestart n | LTask n | LElectionRun n | LCommit n | LApply n | LRo n | LInstallResume n => Some n
  | LDeliver c | LDup c => option_map c_dst (get_call w c)
  | LReply c | LFail c => option_map c_src (get_call w c)
  | LBudget n _ | LPad n _ | LDefer n | LRoMissed n => Some n
  | LTick _ => None
  end.

Definition step (w : world) (l : label) : world :=
  let now := w_now w in
  match l with
  | LTick dt => w <| w_now := now + dt |>
  | LElection n => on_node w n (fun m => if is_up m then signal_election m else m)
  | LElectionRun n => on_node w n (fun m => if is_up m && cv_election (n_cv m) then l_election now m else m)
  | LHeartbeat n => on_node w n (fun m => if is_up m then l_heartbeat now m else m)
  | LTask n => match get_node w n with Some m => if is_up m then step_task w m else w | None => w end
  | LCommit n => on_node w n (fun m => if is_up m && cv_commit (n_cv m) then lp_commit now m else m)
  | LApply n => on_node w n (fun m => if is_up m && cv_apply (n_cv m) then lp_apply now m else m)
  | LRo n => on_node w n (fun m => if is_up m && cv_ro (n_cv m) then lp_ro now m else m)
  | LSnapshot n => on_node w n (fun m => if is_up m then lp_snapshot (m <| n_snap_every := 1 |>) <| n_snap_every := 0 |> else m)
  | LInstallResume n =>
      match get_node w n with
      | None => w
      | Some m =>
          match lp_install_resume m with
          | (m1, Some q) =>
              let w1 := set_node w m1 in
              (* the parked call for this request now returns *)
              match find (fun c => (c_dst c =? n) && match c_state c, c_req c with
                                                     | CWaiting, ReqIS q' => true
                                                     | _, _ => false end) (w_calls w1) with
              | Some c => set_call w1 (c <| c_state := CAnswered |>)
              | None => w1
              end
          | (_, None) => w
          end
      end
  | LDeliver c =>
      match get_call w c with
      | Some cl => match c_state cl with CPending => step_deliver w cl false | _ => w end
      | None => w
      end
  | LDup c =>
      match get_call w c with
      | Some cl => step_deliver w cl true
      | None => w
      end
  | LReply c =>
      match get_call w c with
      | Some cl => match c_state cl with CAnswered => step_reply w cl false | _ => w end
      | None => w
      end
  | LFail c =>
      match get_call w c with
      | Some cl => match c_state cl with CPending | CAnswered | CWaiting => step_reply w cl true | CDone => w end
      | None => w
      end
  | LSubmit n ty p =>
      let (w1, fid) := fresh_fid w in on_node w1 n (fun m => if n_frozen m then m else api_submit now m fid ty p)
  | LAddServer n id v =>
      let (w1, fid) := fresh_fid w in on_node w1 n (fun m => if n_frozen m then m else api_add_server now m fid id v)
  | LRemoveServer n id =>
      let (w1, fid) := fresh_fid w in on_node w1 n (fun m => if n_frozen m then m else api_remove_server now m fid id)
  | LCrash n => drop_calls_of (on_node w n crash) n
  | LRestart n => on_node w n (fun m => if role_eqb (n_role m) Shutdown then restart_after_crash now m else m)
  | LBudget n k => on_node w n (fun m => m <| n_budget := Some k |>)
  | LPad n k => on_node w n (fun m => m <| n_pad := k |>)
  | LDefer n => on_node w n (fun m => m <| n_tasks := tl (n_tasks m) ++ firstn 1 (n_tasks m) |>)
  | LRoMissed n => on_node w n (fun m => m <| n_cv ::= fun c => c <| cv_ro := false |> |>)
  end.

Definition run (w : world) (ls : list label) : world := fold_left step ls w.

(* ---------------- settle: what the goroutines of a node do until they all block ---------------- *)
Definition next_internal (m : node) : option label :=
  if negb (is_up m) then None else
  match n_tasks m with
  | _ :: _ => Some (LTask (n_id m))
  | [] =>
      let cv := n_cv m in
      if cv_election cv then Some (LElectionRun (n_id m))
      else if cv_commit cv then Some (LCommit (n_id m))
      else if cv_apply cv then Some (LApply (n_id m))
      else if cv_ro cv then Some (LRo (n_id m))
      else None
  end.

Fixpoint settle_labels (fuel : nat) (w : world) : list label :=
  match fuel with
  | O => []
  | S f =>
      match fold_left (fun acc m => match acc with Some l => Some l | None => next_internal m end) (w_nodes w) None with
      | None => []
      | Some l => l :: settle_labels f (step w l)
      end
  end.

Definition settle (w : world) : world := run w (settle_labels 200 w).
(* one harness action: a label, then everything the woken goroutines do *)
Definition macro (w : world) (l : label) : world := settle (step w l).

(* ---------------- initial worlds ---------------- *)
Definition mk_node (id : nid) (et ld : N) : node :=
  {| n_id := id; n_et := et; n_ld := ld; n_pterm := 0; n_pvote := None; n_term := 0; n_vote := None;
     n_log := [entry0]; n_snaps := []; n_partial := None; n_open := true; n_role := Shutdown;
     n_commit := 0; n_applied := 0; n_lii := 0; n_lit := 0; n_conf := None; n_cconf := None; n_leader := None;
     n_followers := []; n_fgen := 1; n_orphans := []; n_pending := []; n_ro := []; n_should_verify := true; n_cfg_fid := None; n_hb_rounds := 0; n_lease := 0; n_contact := 0;
     n_rounds := []; n_next_round := 0; n_tasks := []; n_cv := conds0; n_iswait := []; n_fsm := [];
     n_snap_every := 0; n_pad := 0; n_budget := None; n_frozen := false; n_out := Ok; n_results := []; n_applies := [] |}.

(* every node bootstrapped with the same member list (all voters), as the test suite does, then started *)
Definition init_world (ids : list nid) (boot : list nid) (et ld : N) : world :=
  {| w_nodes := map (fun id =>
                       let m := mk_node id et ld in
                       let m1 := if existsb (N.eqb id) boot then api_bootstrap m boot else m in
                       api_start 0 (new_opmanager 0 m1)) ids;
     w_calls := []; w_now := 0; w_next_call := 0; w_next_fid := 0 |}.
