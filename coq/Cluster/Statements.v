(* The cluster-level properties at full strength, as predicates on the model's
   executions.  [run (init ..) ls] ranges over every schedule: all delivery
   orders, drops (LFail), duplicates (LDup), delays (a label later in the
   list), crashes at every storage write (LBudget + LCrash), restarts, client
   calls.  No bound on the number of nodes, terms, entries or labels. *)
From RaftV Require Export Cluster.World.
Open Scope N_scope.

Definition reachable (ids boot : list nid) (et ld : N) (w : world) : Prop :=
  exists ls, w = run (init_world ids boot et ld) ls.

Fixpoint static (ls : list label) : bool :=
  match ls with
  | [] => true
  | (LAddServer _ _ _ | LRemoveServer _ _) :: _ => false
  | _ :: r => static r
  end.

Fixpoint nosnap (ls : list label) : bool :=
  match ls with
  | [] => true
  | LSnapshot _ :: _ => false
  | _ :: r => nosnap r
  end.

Definition applied_in (w : world) (i t p : N) : Prop :=
  exists n, In n (w_nodes w) /\ In (i, t, p) (n_applies n).

(* C01: any two applications of an index - on any node, in any incarnation, at
   any time (w1 is any earlier world of the same execution) - agree. *)
Definition C01_statement : Prop :=
  forall ids boot et ld ls1 ls2, static (ls1 ++ ls2) = true ->
    let w1 := run (init_world ids boot et ld) ls1 in
    let w2 := run w1 ls2 in
    forall i t p t' p', applied_in w1 i t p -> applied_in w2 i t' p' -> t = t' /\ p = p'.

(* C09 (state-machine safety part): the same, for every schedule INCLUDING add-server, promote, demote and
   remove-server requests. *)
Definition C09_statement : Prop :=
  forall ids boot et ld ls1 ls2,
    let w1 := run (init_world ids boot et ld) ls1 in
    let w2 := run w1 ls2 in
    forall i t p t' p', applied_in w1 i t p -> applied_in w2 i t' p' -> t = t' /\ p = p'.

(* C02: never two leaders in one term, at any point of any execution. *)
Definition leader_of (w : world) (id : nid) (t : N) : Prop :=
  exists n, In n (w_nodes w) /\ n_id n = id /\ n_role n = Leader /\ n_term n = t.
Definition C02_statement : Prop :=
  forall ids boot et ld ls1 ls2, static (ls1 ++ ls2) = true ->
    let w1 := run (init_world ids boot et ld) ls1 in
    let w2 := run w1 ls2 in
    forall a b t, leader_of w1 a t -> leader_of w2 b t -> a = b.

(* C08 (cluster form): the persistent term of every node is non-decreasing over
   every step, crashes and restarts included; and a node's persistent vote, once
   cast in a term, does not change while that term lasts. *)
Definition C08_statement : Prop :=
  forall ids boot et ld ls l id n n',
    let w := run (init_world ids boot et ld) ls in
    get_node w id = Some n -> get_node (step w l) id = Some n' ->
    n_pterm n <= n_pterm n' /\
    (n_pterm n' = n_pterm n -> forall c, n_pvote n = Some c -> n_pvote n' = Some c).

(* C07: an entry known committed is in the log of every later leader.  "Later" is Raft's: a leader of a term
   higher than the term in which the entry was known committed.  A node knows a commit index only by having
   advanced it itself (as leader of its term) or by an AppendEntries request of a term not above its own, so
   the current term T of ANY node that knows e committed bounds the term in which e was committed.
   (An earlier formalization here compared the leader's term with the ENTRY's term; that is false of the model
   and of every Raft implementation: a stale leader of term 2, partitioned away, keeps its role while an entry
   of term 1 it never received is committed by the leader of term 3.  That formalization was ours, not the
   property's, and has been corrected.)
   The node must be a running one (not frozen): a node whose storage write was refused is a dead process in the
   model - its in-memory fields, the commit index among them, are what the process had computed when it died
   (h_append_entries sets the commit index even when the truncation it needed was refused; in the code the
   refused write ends the process, logger.Fatalf, before the commit index is touched) and nobody reads them. *)
Definition committed_in (w : world) (e : entry) (T : N) : Prop :=
  exists n, In n (w_nodes w) /\ n_frozen n = false /\ In e (n_log n) /\ e_index e <= n_commit n /\ n_term n <= T.
Definition C07_statement : Prop :=
  forall ids boot et ld ls1 ls2, static (ls1 ++ ls2) = true -> nosnap (ls1 ++ ls2) = true ->
    let w1 := run (init_world ids boot et ld) ls1 in
    let w2 := run w1 ls2 in
    forall e T n, committed_in w1 e T -> In n (w_nodes w2) -> n_role n = Leader -> T < n_term n ->
      In e (n_log n).

(* C06 (cluster form): log matching between any two persistent logs. *)
Definition entry_at (l : list entry) (i t : N) : Prop := exists e, In e l /\ e_index e = i /\ e_term e = t.
Definition C06_statement : Prop :=
  forall ids boot et ld ls, static ls = true ->
    let w := run (init_world ids boot et ld) ls in
    forall a b i t, In a (w_nodes w) -> In b (w_nodes w) ->
      entry_at (n_log a) i t -> entry_at (n_log b) i t ->
      forall e, e_index e <= i -> first_index (n_log a) < e_index e -> first_index (n_log b) < e_index e ->
        (In e (n_log a) <-> In e (n_log b)).
