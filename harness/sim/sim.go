// Package sim puts real *raft.Raft nodes under the harness's control: a
// scripted transport that parks every outgoing RPC until the harness decides
// its fate, a list state machine, storage wrappers that can freeze a node at
// its k-th storage write, a virtual clock (via the verif hooks) and a
// quiescence detector based on the runtime's goroutine states.
package sim

import (
	"bytes"
	"encoding/binary"
	"errors"
	"fmt"
	"io"
	"os"
	"path/filepath"
	"runtime"
	"sort"
	"strconv"
	"strings"
	"sync"
	"sync/atomic"
	"time"

	raft "github.com/jmsadair/raft"
	"github.com/jmsadair/raft/logging"
)

const (
	Tick            = time.Hour // one unit of virtual time
	parkMarker      = "verifharness/sim.park"
	raftFrameMarker = "github.com/jmsadair/raft."
)

// park blocks the calling goroutine until ch delivers; goroutines inside park
// count as blocked for the quiescence detector.
func park(ch chan callResult) callResult { return <-ch }

// parkForever freezes a goroutine (used by storage wrappers at the crash point).
func parkForever() { park(make(chan callResult)) }

// ---------------- calls ----------------

type callResult struct {
	resp interface{}
	err  error
}

type Call struct {
	ID       int
	Src, Dst string
	Kind     string // AE RV IS
	AE       raft.AppendEntriesRequest
	RV       raft.RequestVoteRequest
	IS       raft.InstallSnapshotRequest
	// set by Deliver
	Delivered bool
	Waiting   bool // handler parked (InstallSnapshot waiting for the apply loop)
	HandlerOK bool
	Resp      interface{}
	Done      bool
	Finished  chan struct{} // optional: closed when the handler returns
	ch        chan callResult
	srcInc    int // incarnation of the source node
	handlerCh chan struct{}
}

// ---------------- cluster ----------------

type Node struct {
	Snap        raft.SnapshotStorage // the (unwrapped) snapshot storage of the current incarnation
	Parked      *int32               // InstallSnapshot handlers currently running or parked in this incarnation
	ID          string
	Addr        string
	Dir         string
	R           *raft.Raft
	FSM         *FSM
	T           *Transport
	Store       *Stores
	Up          bool
	Incarnation int
}

type incarnation struct {
	r *raft.Raft
	s *Stores
}

type Cluster struct {
	all      []incarnation
	mu       sync.Mutex
	Nodes    map[string]*Node
	Order    []string
	Calls    []*Call
	nextCall int
	ET, LD   int // election timeout / lease duration in ticks
	Root     string
}

func NewCluster(root string, ids []string, et, ld int) *Cluster {
	c := &Cluster{Nodes: map[string]*Node{}, ET: et, LD: ld, Root: root}
	for _, id := range ids {
		c.Order = append(c.Order, id)
		c.Nodes[id] = &Node{ID: id, Addr: "addr-" + id, Dir: filepath.Join(root, "node-"+id)}
	}
	return c
}

// Open creates the *Raft over the node's directory (NewRaft = restore()).
func (c *Cluster) Open(id string) error {
	n := c.Nodes[id]
	n.Incarnation++
	n.Parked = new(int32)
	pad := 0
	if n.FSM != nil {
		pad = n.FSM.Pad // harness configuration of the node, kept across restarts
	}
	n.FSM = &FSM{Pad: pad}
	n.T = &Transport{c: c, id: id, inc: n.Incarnation}
	if err := os.MkdirAll(n.Dir, 0o755); err != nil {
		return err
	}
	lg, err := raft.NewLog(n.Dir)
	if err != nil {
		return err
	}
	st, err := raft.NewStateStorage(n.Dir)
	if err != nil {
		return err
	}
	ss, err := raft.NewSnapshotStorage(n.Dir)
	if err != nil {
		return err
	}
	n.Store = &Stores{budget: -1, log: lg}
	n.Snap = ss
	r, err := raft.NewRaft(id, n.Addr, n.FSM, n.Dir,
		raft.WithTransport(n.T), raft.WithLog(&logW{Log: lg, s: n.Store}),
		raft.WithStateStorage(&stateW{StateStorage: st, s: n.Store}),
		raft.WithSnapshotStorage(&snapW{SnapshotStorage: ss, s: n.Store}),
		raft.WithElectionTimeout(time.Duration(c.ET)*Tick), raft.WithHeartbeatInterval(100000*Tick),
		raft.WithLeaseDuration(time.Duration(c.LD)*Tick), raft.WithLogLevel(logging.Fatal))
	if err != nil {
		return err
	}
	n.R = r
	c.all = append(c.all, incarnation{r, n.Store})
	registryMu.Lock()
	registry = append(registry, regEntry{fmt.Sprintf("(%p", r), n.Store})
	registryMu.Unlock()
	return nil
}

// every *Raft ever created in this process, with its stores: a goroutine waiting for the mutex of a
// node that is frozen at a storage write (which holds that mutex for good) is blocked for good too
type regEntry struct {
	ptr string // "(0xc000123400": how the receiver appears in a stack trace
	s   *Stores
}

var (
	registryMu sync.Mutex
	registry   []regEntry
)

func waitsForFrozenNode(g string) bool {
	registryMu.Lock()
	defer registryMu.Unlock()
	for _, e := range registry {
		e.s.mu.Lock()
		frozen := e.s.Frozen
		e.s.mu.Unlock()
		if frozen && strings.Contains(g, "raft.(*Raft).") && strings.Contains(g, e.ptr) {
			return true
		}
	}
	return false
}

func (c *Cluster) Bootstrap(id string, members []string) error {
	m := map[string]string{}
	for _, x := range members {
		m[x] = c.Nodes[x].Addr
	}
	return c.Nodes[id].R.Bootstrap(m)
}

func (c *Cluster) Start(id string) error {
	n := c.Nodes[id]
	if err := n.R.Start(); err != nil {
		return err
	}
	n.Up = true
	return nil
}

// Crash abandons the process: its goroutines stay parked forever, its calls never resume.
func (c *Cluster) Crash(id string) {
	n := c.Nodes[id]
	n.Up = false
	c.mu.Lock()
	for _, cl := range c.Calls {
		if cl.Src == id && cl.srcInc == n.Incarnation {
			cl.Done = true
		}
	}
	c.mu.Unlock()
}

func (c *Cluster) LiveCalls() []*Call {
	c.mu.Lock()
	defer c.mu.Unlock()
	var out []*Call
	for _, cl := range c.Calls {
		// a call whose sender gave up while the handler is still parked stays visible (state Z)
		if !cl.Done || (cl.Waiting && cl.ID >= 0) {
			out = append(out, cl)
		}
	}
	// registration order depends on goroutine scheduling; ids are assigned canonically
	sort.SliceStable(out, func(i, j int) bool { return out[i].ID < out[j].ID })
	return out
}

func (c *Cluster) Call(id int) *Call {
	c.mu.Lock()
	defer c.mu.Unlock()
	for _, cl := range c.Calls {
		if cl.ID == id {
			return cl
		}
	}
	return nil
}

// ---------------- transport ----------------

type Transport struct {
	c   *Cluster
	id  string
	inc int
	ae  func(*raft.AppendEntriesRequest, *raft.AppendEntriesResponse) error
	rv  func(*raft.RequestVoteRequest, *raft.RequestVoteResponse) error
	is  func(*raft.InstallSnapshotRequest, *raft.InstallSnapshotResponse) error
}

func (t *Transport) Run() error      { return nil }
func (t *Transport) Shutdown() error { return nil }
func (t *Transport) Address() string { return "addr-" + t.id }
func (t *Transport) RegisterAppendEntriesHandler(h func(*raft.AppendEntriesRequest, *raft.AppendEntriesResponse) error) {
	t.ae = h
}
func (t *Transport) RegisterRequestVoteHandler(h func(*raft.RequestVoteRequest, *raft.RequestVoteResponse) error) {
	t.rv = h
}
func (t *Transport) RegsiterInstallSnapshotHandler(h func(*raft.InstallSnapshotRequest, *raft.InstallSnapshotResponse) error) {
	t.is = h
}
func (t *Transport) EncodeConfiguration(c *raft.Configuration) ([]byte, error) {
	return raft.VerifEncodeConfiguration(c)
}
func (t *Transport) DecodeConfiguration(b []byte) (raft.Configuration, error) {
	return raft.VerifDecodeConfiguration(b)
}

func (t *Transport) register(cl *Call, address string) chan callResult {
	cl.Src = t.id
	cl.Dst = strings.TrimPrefix(address, "addr-")
	cl.srcInc = t.inc
	cl.ch = make(chan callResult)
	t.c.mu.Lock()
	cl.ID = -1 // numbered by the harness at the next observation
	t.c.Calls = append(t.c.Calls, cl)
	t.c.mu.Unlock()
	return cl.ch
}

func cloneEntries(es []*raft.LogEntry) []*raft.LogEntry {
	out := make([]*raft.LogEntry, len(es))
	for i, e := range es {
		cp := *e
		cp.Data = append([]byte{}, e.Data...)
		out[i] = &cp
	}
	return out
}

func (t *Transport) SendAppendEntries(address string, q raft.AppendEntriesRequest) (raft.AppendEntriesResponse, error) {
	q.Entries = cloneEntries(q.Entries)
	r := park(t.register(&Call{Kind: "AE", AE: q}, address))
	if r.err != nil {
		return raft.AppendEntriesResponse{}, r.err
	}
	return r.resp.(raft.AppendEntriesResponse), nil
}

func (t *Transport) SendRequestVote(address string, q raft.RequestVoteRequest) (raft.RequestVoteResponse, error) {
	r := park(t.register(&Call{Kind: "RV", RV: q}, address))
	if r.err != nil {
		return raft.RequestVoteResponse{}, r.err
	}
	return r.resp.(raft.RequestVoteResponse), nil
}

func (t *Transport) SendInstallSnapshot(address string, q raft.InstallSnapshotRequest) (raft.InstallSnapshotResponse, error) {
	q.Bytes = append([]byte{}, q.Bytes...)
	q.Configuration = append([]byte{}, q.Configuration...)
	r := park(t.register(&Call{Kind: "IS", IS: q}, address))
	if r.err != nil {
		return raft.InstallSnapshotResponse{}, r.err
	}
	return r.resp.(raft.InstallSnapshotResponse), nil
}

// Deliver runs the destination's handler on the call's request (in its own
// goroutine: InstallSnapshot may park). dup = the response is thrown away.
func (c *Cluster) Deliver(cl *Call, dup bool) {
	dst := c.Nodes[cl.Dst]
	finish := func(resp interface{}, err error) {
		c.mu.Lock()
		defer c.mu.Unlock()
		if cl.Finished != nil {
			defer close(cl.Finished)
		}
		if dup {
			return
		}
		cl.Waiting = false
		cl.Delivered = true
		cl.HandlerOK = err == nil
		cl.Resp = resp
	}
	if dst == nil || !dst.Up || dst.T == nil {
		finish(nil, errors.New("unreachable"))
		return
	}
	if !dup {
		c.mu.Lock()
		cl.Waiting = true
		c.mu.Unlock()
	}
	t := dst.T
	go func() {
		switch cl.Kind {
		case "AE":
			q := cl.AE
			q.Entries = cloneEntries(q.Entries)
			var p raft.AppendEntriesResponse
			err := t.ae(&q, &p)
			finish(p, err)
		case "RV":
			q := cl.RV
			var p raft.RequestVoteResponse
			err := t.rv(&q, &p)
			finish(p, err)
		case "IS":
			q := cl.IS
			var p raft.InstallSnapshotResponse
			parked := dst.Parked
			atomic.AddInt32(parked, 1)
			err := t.is(&q, &p)
			atomic.AddInt32(parked, -1)
			finish(p, err)
		}
	}()
}

// Reply resumes the sender with the stored response (or an error).
func (c *Cluster) Reply(cl *Call, fail bool) {
	c.mu.Lock()
	cl.Done = true
	ok := cl.HandlerOK && cl.Delivered && !fail
	resp := cl.Resp
	c.mu.Unlock()
	src := c.Nodes[cl.Src]
	if src == nil || src.Incarnation != cl.srcInc || !src.Up {
		return // the sending process is gone
	}
	if ok {
		cl.ch <- callResult{resp: resp}
	} else {
		cl.ch <- callResult{err: errors.New("rpc failed")}
	}
}

// ---------------- state machine ----------------

type ApplyEvent struct {
	Index, Term uint64
	Payload     uint64
}

// parkGate blocks until the gate is opened (closed channel); counts as parked for the quiescence detector.
func parkGate(ch chan struct{}) { <-ch }

// Gates make the user state machine slow on demand: a call of the named method blocks at its very
// beginning (before it reads or changes any state) until Open is called.
type Gates struct {
	mu sync.Mutex
	ch map[string]chan struct{}
}

func (g *Gates) Close(method string) {
	g.mu.Lock()
	defer g.mu.Unlock()
	if g.ch == nil {
		g.ch = map[string]chan struct{}{}
	}
	g.ch[method] = make(chan struct{})
}
func (g *Gates) Open(method string) {
	g.mu.Lock()
	defer g.mu.Unlock()
	if c, ok := g.ch[method]; ok {
		close(c)
		delete(g.ch, method)
	}
}
func (g *Gates) pass(method string) {
	g.mu.Lock()
	c := g.ch[method]
	g.mu.Unlock()
	if c != nil {
		parkGate(c)
	}
}

type FSM struct {
	Gates
	mu       sync.Mutex
	Ops      []uint64
	Applies  []ApplyEvent // since the last restore
	Restores int
	Need     bool
	Pad      int
}

func PayloadBytes(p uint64) []byte { return []byte(strconv.FormatUint(p, 10)) }
func PayloadOf(b []byte) uint64 {
	v, err := strconv.ParseUint(string(b), 10, 64)
	if err != nil {
		return 1<<63 + uint64(len(b))
	}
	return v
}

func (f *FSM) Apply(op *raft.Operation) interface{} {
	if op.OperationType == raft.Replicated {
		f.pass("Apply")
	}
	f.mu.Lock()
	defer f.mu.Unlock()
	if op.OperationType != raft.Replicated {
		return len(f.Ops)
	}
	p := PayloadOf(op.Bytes)
	f.Ops = append(f.Ops, p)
	f.Applies = append(f.Applies, ApplyEvent{op.LogIndex, op.LogTerm, p})
	return len(f.Ops)
}

// snapshot format: 4 bytes big-endian count, then 4 bytes per applied payload, then Pad zero bytes
func (f *FSM) Snapshot(w io.Writer) error {
	f.pass("Snapshot")
	f.mu.Lock()
	defer f.mu.Unlock()
	var buf bytes.Buffer
	var b [4]byte
	binary.BigEndian.PutUint32(b[:], uint32(len(f.Ops)))
	buf.Write(b[:])
	for _, p := range f.Ops {
		binary.BigEndian.PutUint32(b[:], uint32(p))
		buf.Write(b[:])
	}
	buf.Write(make([]byte, f.Pad))
	_, err := w.Write(buf.Bytes())
	return err
}

func (f *FSM) Restore(r io.Reader) error {
	f.pass("Restore")
	b, err := io.ReadAll(r)
	if err != nil {
		return err
	}
	f.mu.Lock()
	defer f.mu.Unlock()
	f.Ops = nil
	if len(b) >= 4 {
		k := int(binary.BigEndian.Uint32(b[:4]))
		for i := 0; i < k && 8+4*i <= len(b); i++ {
			f.Ops = append(f.Ops, uint64(binary.BigEndian.Uint32(b[4+4*i:8+4*i])))
		}
	}
	f.Applies = nil
	f.Restores++
	return nil
}

func (f *FSM) NeedSnapshot(int) bool {
	f.mu.Lock()
	defer f.mu.Unlock()
	return f.Need
}

// ---------------- storage wrappers with a write budget ----------------

type Stores struct {
	log    raft.Log
	mu     sync.Mutex
	budget int // -1 = unlimited
	Frozen bool
	Writes int
}

// allow consumes one unit of budget; false = freeze here.
func (s *Stores) allow() bool {
	s.mu.Lock()
	defer s.mu.Unlock()
	if s.Frozen {
		return false
	}
	if s.budget < 0 {
		s.Writes++
		return true
	}
	if s.budget == 0 {
		s.Frozen = true
		return false
	}
	s.budget--
	s.Writes++
	return true
}

func (s *Stores) SetBudget(k int) {
	s.mu.Lock()
	s.budget = k
	s.mu.Unlock()
}

type logW struct {
	raft.Log
	s *Stores
}

func (l *logW) AppendEntry(e *raft.LogEntry) error { return l.AppendEntries([]*raft.LogEntry{e}) }
func (l *logW) AppendEntries(es []*raft.LogEntry) error {
	// a batch can be torn: one unit per entry; the written prefix really reaches the disk
	for i := range es {
		if !l.s.allow() {
			if i > 0 {
				_ = l.Log.AppendEntries(es[:i])
			}
			parkForever()
		}
	}
	return l.Log.AppendEntries(es)
}
func (l *logW) Truncate(i uint64) error {
	if !l.s.allow() {
		parkForever()
	}
	return l.Log.Truncate(i)
}
func (l *logW) Compact(i uint64) error {
	if !l.s.allow() {
		parkForever()
	}
	return l.Log.Compact(i)
}
func (l *logW) DiscardEntries(i, t uint64) error {
	if !l.s.allow() {
		parkForever()
	}
	return l.Log.DiscardEntries(i, t)
}

type stateW struct {
	raft.StateStorage
	s *Stores
}

func (w *stateW) SetState(term uint64, vote string) error {
	if !w.s.allow() {
		parkForever()
	}
	return w.StateStorage.SetState(term, vote)
}

type snapW struct {
	raft.SnapshotStorage
	s *Stores
}

type snapFileW struct {
	raft.SnapshotFile
	s      *Stores
	writer bool
	closed bool
}

func (w *snapW) NewSnapshotFile(i, t uint64, c []byte) (raft.SnapshotFile, error) {
	f, err := w.SnapshotStorage.NewSnapshotFile(i, t, c)
	if err != nil {
		return nil, err
	}
	return &snapFileW{SnapshotFile: f, s: w.s, writer: true}, nil
}

func (w *snapW) SnapshotFile() (raft.SnapshotFile, error) {
	f, err := w.SnapshotStorage.SnapshotFile()
	if err != nil || f == nil {
		return nil, err
	}
	return &snapFileW{SnapshotFile: f, s: w.s}, nil
}

func (f *snapFileW) Close() error {
	if f.writer && !f.closed {
		f.closed = true
		if !f.s.allow() {
			parkForever()
		}
	}
	return f.SnapshotFile.Close()
}

// ---------------- quiescence ----------------

var stackBuf = make([]byte, 4<<20)

// Settled reports whether every goroutine that is inside the raft library is
// blocked in a place only the harness (or a timer hours away) can release.
func Settled() (bool, string) {
	n := runtime.Stack(stackBuf, true)
	for _, g := range strings.Split(string(stackBuf[:n]), "\n\n") {
		if strings.Contains(g, "sim.Settled") {
			continue // the polling goroutine itself
		}
		// goroutines inside the library, and harness goroutines about to enter it
		if !strings.Contains(g, raftFrameMarker) && !strings.Contains(g, "verifharness/sim.") {
			continue
		}
		hdr := g
		if i := strings.IndexByte(g, '\n'); i >= 0 {
			hdr = g[:i]
		}
		lb, rb := strings.IndexByte(hdr, '['), strings.IndexByte(hdr, ']')
		if lb < 0 || rb < lb {
			return false, hdr
		}
		state := hdr[lb+1 : rb]
		if i := strings.IndexByte(state, ','); i >= 0 {
			state = state[:i]
		}
		switch state {
		case "sync.Cond.Wait", "sleep":
			continue
		case "sync.Mutex.Lock":
			if waitsForFrozenNode(g) {
				continue
			}
			return false, hdr
		case "chan receive", "select", "select (no cases)":
			if strings.Contains(g, parkMarker) {
				continue
			}
			return false, hdr
		default:
			return false, hdr
		}
	}
	return true, ""
}

// WaitQuiescent polls until two consecutive observations are settled.
func WaitQuiescent(timeout time.Duration) error {
	deadline := time.Now().Add(timeout)
	okCount := 0
	var last string
	for time.Now().Before(deadline) {
		ok, why := Settled()
		if ok {
			okCount++
			if okCount >= 2 {
				return nil
			}
		} else {
			okCount = 0
			last = why
		}
		runtime.Gosched()
		time.Sleep(20 * time.Microsecond)
	}
	return fmt.Errorf("not quiescent after %v: %s", timeout, last)
}

// ---------------- canonical strings ----------------

func confS(c raft.Configuration) string {
	var ids []string
	for id := range c.Members {
		ids = append(ids, id)
	}
	sort.Slice(ids, func(i, j int) bool {
		a, _ := strconv.Atoi(ids[i])
		b, _ := strconv.Atoi(ids[j])
		return a < b
	})
	var p []string
	for _, id := range ids {
		v := "0"
		if c.IsVoter[id] {
			v = "1"
		}
		p = append(p, id+":"+v)
	}
	return fmt.Sprintf("%d{%s}", c.Index, strings.Join(p, ","))
}

func EntryS(e *raft.LogEntry) string {
	k := "n"
	switch e.EntryType {
	case raft.OperationEntry:
		k = "o" + strconv.FormatUint(PayloadOf(e.Data), 10)
	case raft.ConfigurationEntry:
		c, err := raft.VerifDecodeConfiguration(e.Data)
		if err != nil {
			k = "c?"
		} else {
			k = "c" + confS(c)
		}
	}
	return fmt.Sprintf("%d:%d:%s", e.Index, e.Term, k)
}

func entriesS(es []*raft.LogEntry) string {
	if len(es) == 0 {
		return "-"
	}
	var p []string
	for _, e := range es {
		p = append(p, EntryS(e))
	}
	return strings.Join(p, ",")
}

func idS(s string) string {
	if s == "" {
		return "-"
	}
	return s
}

func b01(b bool) string {
	if b {
		return "1"
	}
	return "0"
}

func dataS(b []byte) string {
	// snapshot bytes as 4-byte big-endian numbers, runs written as value*count; anything else in hex
	if len(b) == 0 {
		return "-"
	}
	if len(b)%4 != 0 {
		return fmt.Sprintf("x%x", b)
	}
	var p []string
	for i := 0; i < len(b); {
		v := binary.BigEndian.Uint32(b[i : i+4])
		j := i + 4
		for j < len(b) && binary.BigEndian.Uint32(b[j:j+4]) == v {
			j += 4
		}
		if n := (j - i) / 4; n > 1 {
			p = append(p, fmt.Sprintf("%d*%d", v, n))
		} else {
			p = append(p, strconv.FormatUint(uint64(v), 10))
		}
		i = j
	}
	return strings.Join(p, ".")
}

func confBytesS(b []byte) string {
	c, err := raft.VerifDecodeConfiguration(b)
	if err != nil {
		return "?"
	}
	return confS(c)
}

func (cl *Call) ReqS() string {
	switch cl.Kind {
	case "AE":
		q := cl.AE
		return fmt.Sprintf("AE %s %d %d %d %d %s", q.LeaderID, q.Term, q.LeaderCommit, q.PrevLogIndex, q.PrevLogTerm, entriesS(q.Entries))
	case "RV":
		q := cl.RV
		return fmt.Sprintf("RV %s %d %d %d %s", q.CandidateID, q.Term, q.LastLogIndex, q.LastLogTerm, b01(q.Prevote))
	default:
		q := cl.IS
		return fmt.Sprintf("IS %s %d %d %d %s %d %s %s", q.LeaderID, q.Term, q.LastIncludedIndex, q.LastIncludedTerm,
			confBytesS(q.Configuration), q.Offset, dataS(q.Bytes), b01(q.Done))
	}
}

func (cl *Call) RespS() string {
	if !cl.Delivered {
		return "-"
	}
	if !cl.HandlerOK {
		return "ERR"
	}
	switch p := cl.Resp.(type) {
	case raft.AppendEntriesResponse:
		return fmt.Sprintf("%d/%s/%d", p.Term, b01(p.Success), p.Index)
	case raft.RequestVoteResponse:
		return fmt.Sprintf("%d/%s", p.Term, b01(p.VoteGranted))
	case raft.InstallSnapshotResponse:
		return fmt.Sprintf("%d/%d", p.Term, p.BytesWritten)
	}
	return "?"
}

var stateNames = map[raft.State]string{raft.Leader: "L", raft.Follower: "F", raft.PreCandidate: "P", raft.Candidate: "C", raft.Shutdown: "S"}

// NodeS is the canonical observation of one node.
func (c *Cluster) NodeS(id string) string {
	n := c.Nodes[id]
	if !n.Up || n.R == nil {
		return "down"
	}
	d := raft.VerifDump(n.R)
	var sb strings.Builder
	fmt.Fprintf(&sb, "role=%s term=%d vote=%s commit=%d applied=%d lii=%d lit=%d leader=%s", stateNames[d.State], d.Term,
		idS(d.VotedFor), d.CommitIndex, d.LastApplied, d.LastIncludedIndex, d.LastIncludedTerm, idS(d.LeaderID))
	sb.WriteString(" log=" + c.logS(n))
	if d.HasConfiguration {
		sb.WriteString(" conf=" + confS(d.Configuration))
	} else {
		sb.WriteString(" conf=-")
	}
	if d.HasCommitted {
		sb.WriteString(" cconf=" + confS(d.Committed))
	} else {
		sb.WriteString(" cconf=-")
	}
	var fs []string
	sort.Slice(d.Followers, func(i, j int) bool {
		a, _ := strconv.Atoi(d.Followers[i].ID)
		b, _ := strconv.Atoi(d.Followers[j].ID)
		return a < b
	})
	for _, f := range d.Followers {
		s := "-"
		if f.SnapshotOpen {
			s = fmt.Sprintf("S%d", f.SnapshotPos)
		}
		fs = append(fs, fmt.Sprintf("%s:%d:%d:%s", f.ID, f.NextIndex, f.MatchIndex, s))
	}
	sb.WriteString(" fol=" + joinOr(fs))
	var ps []string
	for _, i := range d.PendingReplicated {
		ps = append(ps, strconv.FormatUint(i, 10))
	}
	sb.WriteString(" pend=" + joinOr(ps))
	var ros []string
	for _, o := range d.PendingReadOnly {
		ros = append(ros, fmt.Sprintf("%d:%d:%d:%s", o.Type, PayloadOf(o.Bytes), o.ReadIndex, b01(o.Verified)))
	}
	sort.Strings(ros)
	sb.WriteString(" ro=" + joinOr(ros))
	fmt.Fprintf(&sb, " sv=%s lease=%s contact=%s", b01(d.ShouldVerifyQuorum), b01(d.LeaseValid), b01(d.RecentContact))
	if d.PartialOpen {
		fmt.Fprintf(&sb, " partial=%d:%d:%d", d.PartialMeta.LastIncludedIndex, d.PartialMeta.LastIncludedTerm, d.PartialPos)
	} else {
		sb.WriteString(" partial=-")
	}
	n.FSM.mu.Lock()
	var ops, aps []string
	for _, p := range n.FSM.Ops {
		ops = append(ops, strconv.FormatUint(p, 10))
	}
	for _, a := range n.FSM.Applies {
		aps = append(aps, fmt.Sprintf("%d:%d:%d", a.Index, a.Term, a.Payload))
	}
	n.FSM.mu.Unlock()
	sb.WriteString(" fsm=" + joinOr(ops) + " applies=" + joinOr(aps))
	fmt.Fprintf(&sb, " iswait=%d", atomic.LoadInt32(n.Parked))
	// the most recent snapshot on disk: label, configuration, size
	sb.WriteString(" snap=" + snapS(n.Snap))
	return sb.String()
}

func snapS(ss raft.SnapshotStorage) string {
	if ss == nil {
		return "?"
	}
	f, err := ss.SnapshotFile()
	if err != nil {
		return "err"
	}
	if f == nil {
		return "-"
	}
	defer f.Close()
	md := f.Metadata()
	size, _ := io.Copy(io.Discard, f)
	return fmt.Sprintf("%d:%d:%s:%d", md.LastIncludedIndex, md.LastIncludedTerm, confBytesS(md.Configuration), size)
}

func joinOr(p []string) string {
	if len(p) == 0 {
		return "-"
	}
	return strings.Join(p, ",")
}

// logS reads the node's log through a second, read-only handle on the same
// directory is not possible while it is open for writing with the same process
// position; instead the wrapper's embedded Log is read (the harness only calls
// this at quiescence, when no goroutine of the node is running).
func (c *Cluster) logS(n *Node) string {
	l := n.Store.log
	if l == nil {
		return "?"
	}
	return LogS(l)
}

// LogS renders placeholder + entries of a Log.
func LogS(l raft.Log) (s string) {
	defer func() {
		if r := recover(); r != nil {
			s = "closed"
		}
	}()
	size := l.Size()
	last := l.LastIndex()
	first := last - uint64(size)
	var p []string
	if size == 0 {
		p = append(p, fmt.Sprintf("%d:%d:p", first, l.LastTerm()))
	} else {
		p = append(p, fmt.Sprintf("%d:?:p", first))
	}
	for i := first + 1; i <= last; i++ {
		e, err := l.GetEntry(i)
		if err != nil {
			p = append(p, "ERR")
			continue
		}
		p = append(p, EntryS(e))
	}
	return strings.Join(p, ",")
}

// API calls made from harness goroutines (their frames mark the goroutine for the quiescence detector).
func SubmitVia(n *Node, b []byte, ty raft.OperationType) raft.Future[raft.OperationResponse] {
	return n.R.SubmitOperation(b, ty, time.Hour)
}
func AddVia(n *Node, id string, voter bool) raft.Future[raft.Configuration] {
	return n.R.AddServer(id, "addr-"+id, voter, time.Hour)
}
func RemoveVia(n *Node, id string) raft.Future[raft.Configuration] {
	return n.R.RemoveServer(id, time.Hour)
}

// RegisterHandlers wires the node's RPC handlers into its transport without starting the node
// (used by the handler-level differential, which calls handlers on nodes whose loops do not run).
func (n *Node) RegisterHandlers() {
	n.T.ae = n.R.AppendEntries
	n.T.rv = n.R.RequestVote
	n.T.is = n.R.InstallSnapshot
}

// Log returns the real log behind the write-budget wrapper.
func (s *Stores) Log() raft.Log { return s.log }
