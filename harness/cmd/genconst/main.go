// genconst regenerates coq/Gen/Constants.v from the current /repo sources:
// protobuf field numbers and wire kinds (struct tags of raft.pb.go), iota
// enumerations, the cases present in the two String() methods, the snapshot
// chunk size and storage file names.  It only parses; it does not import raft.
package main

import (
	"fmt"
	"go/ast"
	"go/constant"
	"go/parser"
	"go/token"
	"os"
	"path/filepath"
	"reflect"
	"sort"
	"strconv"
	"strings"
)

var out strings.Builder

func die(f string, a ...interface{}) {
	fmt.Fprintf(os.Stderr, "genconst: "+f+"\n", a...)
	os.Exit(2)
}

func parse(path string) *ast.File {
	fset := token.NewFileSet()
	f, err := parser.ParseFile(fset, path, nil, 0)
	if err != nil {
		die("parse %s: %v", path, err)
	}
	return f
}

// evalConst evaluates integer constant expressions made of literals, + - * / << and iota.
func evalConst(e ast.Expr, iota int64, env map[string]constant.Value) (constant.Value, bool) {
	switch x := e.(type) {
	case *ast.BasicLit:
		return constant.MakeFromLiteral(x.Value, x.Kind, 0), true
	case *ast.Ident:
		if x.Name == "iota" {
			return constant.MakeInt64(iota), true
		}
		v, ok := env[x.Name]
		return v, ok
	case *ast.ParenExpr:
		return evalConst(x.X, iota, env)
	case *ast.BinaryExpr:
		a, ok1 := evalConst(x.X, iota, env)
		b, ok2 := evalConst(x.Y, iota, env)
		if !ok1 || !ok2 {
			return nil, false
		}
		if x.Op == token.SHL || x.Op == token.SHR {
			s, _ := constant.Uint64Val(b)
			return constant.Shift(a, x.Op, uint(s)), true
		}
		op := x.Op
		if op == token.QUO {
			op = token.QUO_ASSIGN // integer division
		}
		return constant.BinaryOp(a, op, b), true
	case *ast.CallExpr: // conversions such as time.Duration(300 * time.Millisecond)
		if len(x.Args) == 1 {
			return evalConst(x.Args[0], iota, env)
		}
	case *ast.SelectorExpr:
		if id, ok := x.X.(*ast.Ident); ok && id.Name == "time" {
			switch x.Sel.Name {
			case "Millisecond":
				return constant.MakeInt64(1000000), true
			case "Second":
				return constant.MakeInt64(1000000000), true
			}
		}
	}
	return nil, false
}

// consts collects all package-level integer and string constants of a file.
func consts(f *ast.File, ints map[string]constant.Value, strs map[string]string) {
	for _, d := range f.Decls {
		gd, ok := d.(*ast.GenDecl)
		if !ok || gd.Tok != token.CONST {
			continue
		}
		var last []ast.Expr
		for i, s := range gd.Specs {
			vs := s.(*ast.ValueSpec)
			vals := vs.Values
			if len(vals) == 0 {
				vals = last
			} else {
				last = vals
			}
			for j, n := range vs.Names {
				if j >= len(vals) {
					continue
				}
				if bl, ok := vals[j].(*ast.BasicLit); ok && bl.Kind == token.STRING {
					s, _ := strconv.Unquote(bl.Value)
					strs[n.Name] = s
					continue
				}
				if v, ok := evalConst(vals[j], int64(i), ints); ok && v.Kind() == constant.Int {
					ints[n.Name] = v
				}
			}
		}
	}
}

// stringCases returns the identifiers listed in the case clauses of
// func (recv T) String() and whether the default clause panics.
func stringCases(f *ast.File, typ string) ([]string, bool) {
	var ids []string
	panics := false
	for _, d := range f.Decls {
		fd, ok := d.(*ast.FuncDecl)
		if !ok || fd.Name.Name != "String" || fd.Recv == nil || len(fd.Recv.List) != 1 {
			continue
		}
		if id, ok := fd.Recv.List[0].Type.(*ast.Ident); !ok || id.Name != typ {
			continue
		}
		ast.Inspect(fd.Body, func(n ast.Node) bool {
			cc, ok := n.(*ast.CaseClause)
			if !ok {
				return true
			}
			if cc.List == nil {
				for _, st := range cc.Body {
					if es, ok := st.(*ast.ExprStmt); ok {
						if ce, ok := es.X.(*ast.CallExpr); ok {
							if id, ok := ce.Fun.(*ast.Ident); ok && id.Name == "panic" {
								panics = true
							}
						}
					}
				}
				return true
			}
			returns := false
			for _, st := range cc.Body {
				if _, ok := st.(*ast.ReturnStmt); ok {
					returns = true
				}
			}
			if returns {
				for _, e := range cc.List {
					if id, ok := e.(*ast.Ident); ok {
						ids = append(ids, id.Name)
					}
				}
			}
			return true
		})
	}
	return ids, panics
}

type pbField struct {
	kind string
	num  int
}

func pbFields(f *ast.File) map[string]pbField {
	res := map[string]pbField{}
	for _, d := range f.Decls {
		gd, ok := d.(*ast.GenDecl)
		if !ok || gd.Tok != token.TYPE {
			continue
		}
		for _, s := range gd.Specs {
			ts := s.(*ast.TypeSpec)
			st, ok := ts.Type.(*ast.StructType)
			if !ok {
				continue
			}
			for _, fl := range st.Fields.List {
				if fl.Tag == nil {
					continue
				}
				tag, _ := strconv.Unquote(fl.Tag.Value)
				pt := reflect.StructTag(tag).Get("protobuf")
				if pt == "" {
					continue
				}
				parts := strings.Split(pt, ",")
				num, _ := strconv.Atoi(parts[1])
				name := ""
				for _, p := range parts {
					if strings.HasPrefix(p, "name=") {
						name = strings.TrimPrefix(p, "name=")
					}
				}
				kind := parts[0]
				if parts[2] == "rep" {
					kind += ",rep"
				}
				res[ts.Name.Name+"."+name] = pbField{kind, num}
			}
		}
	}
	return res
}

func main() {
	if len(os.Args) != 3 {
		die("usage: genconst <repo> <out.v>")
	}
	repo, outPath := os.Args[1], os.Args[2]
	ints := map[string]constant.Value{}
	strs := map[string]string{}
	files := map[string]*ast.File{}
	for _, n := range []string{"raft.go", "operation.go", "log.go", "options.go", "state_storage.go", "snapshot_storage.go"} {
		files[n] = parse(filepath.Join(repo, n))
		consts(files[n], ints, strs)
	}
	pb := pbFields(parse(filepath.Join(repo, "internal/protobuf/raft.pb.go")))

	w := func(f string, a ...interface{}) { fmt.Fprintf(&out, f, a...) }
	w("(* GENERATED by harness/cmd/genconst from the /repo working tree. Do not edit. *)\n")
	w("From Coq Require Import NArith List String.\nImport ListNotations.\nOpen Scope N_scope.\n\n")

	type fm struct{ coq, key, kind string }
	fields := []fm{
		{"fn_entry_index", "LogEntry.index", "varint"}, {"fn_entry_term", "LogEntry.term", "varint"},
		{"fn_entry_offset", "LogEntry.offset", "varint"}, {"fn_entry_data", "LogEntry.data", "bytes"},
		{"fn_entry_type", "LogEntry.entry_type", "varint"},
		{"fn_ae_leader", "AppendEntriesRequest.leader_id", "bytes"}, {"fn_ae_term", "AppendEntriesRequest.term", "varint"},
		{"fn_ae_commit", "AppendEntriesRequest.leader_commit", "varint"}, {"fn_ae_prev_index", "AppendEntriesRequest.prev_log_index", "varint"},
		{"fn_ae_prev_term", "AppendEntriesRequest.prev_log_term", "varint"}, {"fn_ae_entries", "AppendEntriesRequest.entries", "bytes,rep"},
		{"fn_aeresp_term", "AppendEntriesResponse.term", "varint"}, {"fn_aeresp_index", "AppendEntriesResponse.index", "varint"},
		{"fn_aeresp_success", "AppendEntriesResponse.success", "varint"},
		{"fn_rv_candidate", "RequestVoteRequest.candidate_id", "bytes"}, {"fn_rv_term", "RequestVoteRequest.term", "varint"},
		{"fn_rv_last_index", "RequestVoteRequest.last_log_index", "varint"}, {"fn_rv_last_term", "RequestVoteRequest.last_log_term", "varint"},
		{"fn_rv_prevote", "RequestVoteRequest.prevote", "varint"},
		{"fn_rvresp_term", "RequestVoteResponse.term", "varint"}, {"fn_rvresp_granted", "RequestVoteResponse.vote_granted", "varint"},
		{"fn_is_term", "InstallSnapshotRequest.term", "varint"}, {"fn_is_leader", "InstallSnapshotRequest.leader", "bytes"},
		{"fn_is_lii", "InstallSnapshotRequest.last_included_index", "varint"}, {"fn_is_lit", "InstallSnapshotRequest.last_included_term", "varint"},
		{"fn_is_conf", "InstallSnapshotRequest.configuration", "bytes"}, {"fn_is_offset", "InstallSnapshotRequest.offset", "varint"},
		{"fn_is_data", "InstallSnapshotRequest.data", "bytes"}, {"fn_is_done", "InstallSnapshotRequest.done", "varint"},
		{"fn_isresp_term", "InstallSnapshotResponse.term", "varint"}, {"fn_isresp_written", "InstallSnapshotResponse.bytes_written", "varint"},
		{"fn_state_term", "StorageState.term", "varint"}, {"fn_state_voted_for", "StorageState.voted_for", "bytes"},
		{"fn_conf_members", "Configuration.members", "bytes,rep"}, {"fn_conf_is_voter", "Configuration.is_voter", "bytes,rep"},
		{"fn_conf_index", "Configuration.index", "varint"},
	}
	kindsOK := true
	var bad []string
	for _, f := range fields {
		pf, ok := pb[f.key]
		if !ok {
			die("protobuf field %s not found in raft.pb.go", f.key)
		}
		w("Definition %s : N := %d.\n", f.coq, pf.num)
		if pf.kind != f.kind {
			kindsOK = false
			bad = append(bad, f.key+"="+pf.kind)
		}
	}
	w("\n(* true iff every field above has the wire kind the model assumes%s *)\n", strings.Join(bad, " "))
	w("Definition wire_kinds_ok : bool := %v.\n\n", kindsOK)

	geti := func(n string) string {
		v, ok := ints[n]
		if !ok {
			die("constant %s not found", n)
		}
		return v.ExactString()
	}
	w("Definition snapshot_chunk_size : N := %s.\n", geti("snapshotChunkSize"))
	for _, n := range []string{"Leader", "Follower", "PreCandidate", "Candidate", "Shutdown"} {
		w("Definition st_%s : N := %s.\n", strings.ToLower(n), geti(n))
	}
	for _, n := range []string{"Replicated", "LinearizableReadOnly", "LeaseBasedReadOnly"} {
		w("Definition ot_%s : N := %s.\n", strings.ToLower(n), geti(n))
	}
	for _, n := range []string{"NoOpEntry", "OperationEntry", "ConfigurationEntry"} {
		w("Definition et_%s : N := %s.\n", strings.ToLower(n), geti(n))
	}
	emitCases := func(name string, file, typ string) {
		ids, panics := stringCases(files[file], typ)
		var vals []string
		for _, id := range ids {
			vals = append(vals, geti(id))
		}
		sort.Strings(vals)
		w("(* constants of %s that have a returning case in String(); default panics = %v *)\n", typ, panics)
		w("Definition %s_string_cases : list N := [%s].\n", name, strings.Join(vals, "; "))
		w("Definition %s_string_default_panics : bool := %v.\n", name, panics)
	}
	emitCases("state", "raft.go", "State")
	emitCases("optype", "operation.go", "OperationType")
	w("\nOpen Scope string_scope.\n")
	for _, n := range []string{"stateBase", "stateDirBase", "metadataBase", "snapshotBase", "snapshotDirBase"} {
		s, ok := strs[n]
		if !ok {
			die("string constant %s not found", n)
		}
		w("Definition name_%s : string := \"%s\".\n", n, s)
	}
	if err := os.MkdirAll(filepath.Dir(outPath), 0o755); err != nil {
		die("%v", err)
	}
	old, _ := os.ReadFile(outPath)
	if string(old) == out.String() {
		return // keep mtime: make stays a no-op
	}
	if err := os.WriteFile(outPath, []byte(out.String()), 0o644); err != nil {
		die("%v", err)
	}
}
