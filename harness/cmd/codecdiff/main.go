// codecdiff (C19): structured and malformed inputs through the library's own
// encoders/decoders (verif hooks), recorded as cases for the Coq model; plus
// an implementation-side round trip through a real NewTransport pair.
package main

import (
	"bytes"
	"encoding/binary"
	"errors"
	"flag"
	"fmt"
	"net"
	"os"
	"sort"
	"strings"

	raft "github.com/jmsadair/raft"
	"verifharness/internal/gen"
)

var violations []string

func violate(f string, a ...interface{}) { violations = append(violations, fmt.Sprintf(f, a...)) }

func entryS(e *raft.LogEntry) string {
	return strings.Join([]string{gen.U(e.Index), gen.U(e.Term), gen.U(uint64(e.Offset)), gen.U(uint64(e.EntryType)), gen.Hex(e.Data)}, ",")
}

func entriesS(es []*raft.LogEntry, sep string) string {
	if len(es) == 0 {
		return "-"
	}
	var parts []string
	for _, e := range es {
		parts = append(parts, entryS(e))
	}
	return strings.Join(parts, sep)
}

func genEntry(g *gen.G, maxData int) *raft.LogEntry {
	ty := raft.LogEntryType(g.R.Intn(3))
	if g.R.Intn(10) == 0 {
		ty = raft.LogEntryType(g.R.Intn(1 << 30))
	}
	return &raft.LogEntry{Index: g.U64(), Term: g.U64(), Offset: int64(g.U64()), Data: g.Bytes(maxData), EntryType: ty}
}

// mutations of a valid encoding: every prefix (if short) or sampled prefixes, and byte flips.
func malformed(g *gen.G, b []byte, flips bool) [][]byte {
	var out [][]byte
	if len(b) <= 64 {
		for k := 0; k < len(b); k++ {
			out = append(out, b[:k])
		}
	} else {
		for i := 0; i < 8; i++ {
			out = append(out, b[:g.R.Intn(len(b))])
		}
	}
	// unknown fields around the limits of a field number (protowire: 1 .. 2^29-1) and of every wire type
	varint := func(v uint64) []byte {
		var o []byte
		for v >= 0x80 {
			o = append(o, byte(v)|0x80)
			v >>= 7
		}
		return append(o, byte(v))
	}
	for _, num := range []uint64{0, 1, 15, 16, 1<<29 - 1, 1 << 29, 1<<31 - 1, 1 << 31, 1<<32 + 3} {
		for _, wt := range []uint64{0, 1, 2, 3, 5, 7} {
			tail := append(append([]byte{}, b...), varint(num<<3|wt)...)
			switch wt {
			case 0:
				tail = append(tail, 0x01)
			case 1:
				tail = append(tail, 1, 2, 3, 4, 5, 6, 7, 8)
			case 2:
				tail = append(tail, 0x02, 0x61, 0x62) // valid UTF-8: string fields are validated by protobuf-go, the model has byte strings
			case 5:
				tail = append(tail, 1, 2, 3, 4)
			}
			if g.R.Intn(6) == 0 {
				out = append(out, tail)
			}
		}
	}
	if flips && len(b) > 0 {
		for i := 0; i < 6; i++ {
			c := append([]byte{}, b...)
			c[g.R.Intn(len(c))] ^= byte(1 << uint(g.R.Intn(8)))
			out = append(out, c)
		}
	}
	return out
}

func decEntryExpected(payload []byte) string {
	hdr := make([]byte, 4)
	binary.BigEndian.PutUint32(hdr, uint32(len(payload)))
	e, err := raft.VerifDecodeLogEntry(append(hdr, payload...))
	if err != nil {
		return "ERR"
	}
	return entryS(&e)
}

func main() {
	seed := flag.Int64("seed", 1, "PRNG seed")
	n := flag.Int("n", 300, "cases per message kind")
	out := flag.String("out", "codec.cases", "case file")
	loop := flag.Bool("transport", true, "run the real loopback transport round trip")
	big := flag.Bool("big", false, "include > 4 MiB payloads in the transport round trip")
	flag.Parse()
	g, err := gen.New(*seed, *out)
	if err != nil {
		panic(err)
	}

	for i := 0; i < *n; i++ {
		// LogEntry record
		e := genEntry(g, 3000)
		rec, err := raft.VerifEncodeLogEntry(e)
		if err != nil {
			violate("encodeLogEntry failed: %v", err)
			continue
		}
		if len(rec) < 4 || int(binary.BigEndian.Uint32(rec[:4])) != len(rec)-4 {
			violate("log record header does not match payload length")
		}
		payload := rec[4:]
		g.Case("ENC_ENTRY", []string{entryS(e)}, gen.Hex(payload))
		g.Case("DEC_ENTRY", []string{gen.Hex(payload)}, decEntryExpected(payload))
		back, err := raft.VerifDecodeLogEntry(rec)
		if err != nil || back.Index != e.Index || back.Term != e.Term || back.Offset != e.Offset ||
			back.EntryType != e.EntryType || !bytes.Equal(back.Data, e.Data) {
			violate("log entry does not round-trip: %s", entryS(e))
		}
		if i%4 == 0 {
			for _, m := range malformed(g, payload, true) {
				g.Case("DEC_ENTRY", []string{gen.Hex(m)}, decEntryExpected(m))
			}
		}

		// StorageState
		term, vote := g.U64(), g.ID()
		srec, err := raft.VerifEncodeState(term, vote)
		if err != nil {
			violate("encodePersistentState failed: %v", err)
			continue
		}
		g.Case("ENC_STATE", []string{gen.U(term), gen.Hex([]byte(vote))}, gen.Hex(srec[4:]))
		g.Case("STATEREC", []string{gen.U(term), gen.Hex([]byte(vote))}, gen.Hex(srec))
		decState := func(b []byte) string {
			t, v, err := raft.VerifDecodeState(b)
			if err != nil {
				return "ERR"
			}
			return gen.U(t) + "," + gen.Hex([]byte(v))
		}
		g.Case("READSTATE", []string{gen.Hex(srec)}, decState(srec))
		if i%8 == 0 {
			for _, m := range malformed(g, srec, false) {
				g.Case("READSTATE", []string{gen.Hex(m)}, decState(m))
			}
		}

		// responses
		ar := raft.AppendEntriesResponse{Term: g.U64(), Index: g.U64(), Success: g.R.Intn(2) == 0}
		b, _ := raft.VerifMarshalAppendEntriesResponse(ar)
		g.Case("ENC_AERESP", []string{gen.U(ar.Term), gen.U(ar.Index), gen.B(ar.Success)}, gen.Hex(b))
		decAR := func(b []byte) string {
			r, err := raft.VerifUnmarshalAppendEntriesResponse(b)
			if err != nil {
				return "ERR"
			}
			return strings.Join([]string{gen.U(r.Term), gen.U(r.Index), gen.B(r.Success)}, ",")
		}
		g.Case("DEC_AERESP", []string{gen.Hex(b)}, decAR(b))
		if i%4 == 0 {
			for _, m := range malformed(g, b, true) {
				g.Case("DEC_AERESP", []string{gen.Hex(m)}, decAR(m))
			}
		}
		vr := raft.RequestVoteResponse{Term: g.U64(), VoteGranted: g.R.Intn(2) == 0}
		b, _ = raft.VerifMarshalRequestVoteResponse(vr)
		g.Case("ENC_RVRESP", []string{gen.U(vr.Term), gen.B(vr.VoteGranted)}, gen.Hex(b))
		decVR := func(b []byte) string {
			r, err := raft.VerifUnmarshalRequestVoteResponse(b)
			if err != nil {
				return "ERR"
			}
			return gen.U(r.Term) + "," + gen.B(r.VoteGranted)
		}
		g.Case("DEC_RVRESP", []string{gen.Hex(b)}, decVR(b))
		sr := raft.InstallSnapshotResponse{Term: g.U64(), BytesWritten: int64(g.U64())}
		b, _ = raft.VerifMarshalInstallSnapshotResponse(sr)
		g.Case("ENC_ISRESP", []string{gen.U(sr.Term), gen.U(uint64(sr.BytesWritten))}, gen.Hex(b))
		decSR := func(b []byte) string {
			r, err := raft.VerifUnmarshalInstallSnapshotResponse(b)
			if err != nil {
				return "ERR"
			}
			return gen.U(r.Term) + "," + gen.U(uint64(r.BytesWritten))
		}
		g.Case("DEC_ISRESP", []string{gen.Hex(b)}, decSR(b))
		if i%4 == 0 {
			for _, m := range malformed(g, b, true) {
				g.Case("DEC_ISRESP", []string{gen.Hex(m)}, decSR(m))
			}
		}

		// RequestVoteRequest
		vq := raft.RequestVoteRequest{CandidateID: g.ID(), Term: g.U64(), LastLogIndex: g.U64(), LastLogTerm: g.U64(), Prevote: g.R.Intn(2) == 0}
		b, _ = raft.VerifMarshalRequestVoteRequest(vq)
		g.Case("ENC_RVREQ", []string{gen.Hex([]byte(vq.CandidateID)), gen.U(vq.Term), gen.U(vq.LastLogIndex), gen.U(vq.LastLogTerm), gen.B(vq.Prevote)}, gen.Hex(b))
		decVQ := func(b []byte) string {
			r, err := raft.VerifUnmarshalRequestVoteRequest(b)
			if err != nil {
				return "ERR"
			}
			return strings.Join([]string{gen.Hex([]byte(r.CandidateID)), gen.U(r.Term), gen.U(r.LastLogIndex), gen.U(r.LastLogTerm), gen.B(r.Prevote)}, ",")
		}
		g.Case("DEC_RVREQ", []string{gen.Hex(b)}, decVQ(b))
		if i%4 == 0 {
			for _, m := range malformed(g, b, false) {
				g.Case("DEC_RVREQ", []string{gen.Hex(m)}, decVQ(m))
			}
		}

		// InstallSnapshotRequest (payload up to 64 KiB here; larger ones go through the transport below)
		maxp := 2000
		if i%50 == 0 {
			maxp = 70000
		}
		sq := raft.InstallSnapshotRequest{LeaderID: g.ID(), Term: g.U64(), LastIncludedIndex: g.U64(), LastIncludedTerm: g.U64(),
			Configuration: g.Bytes(200), Bytes: g.Bytes(maxp), Offset: int64(g.U64()), Done: g.R.Intn(2) == 0}
		b, _ = raft.VerifMarshalInstallSnapshotRequest(sq)
		g.Case("ENC_ISREQ", []string{gen.U(sq.Term), gen.Hex([]byte(sq.LeaderID)), gen.U(sq.LastIncludedIndex), gen.U(sq.LastIncludedTerm),
			gen.Hex(sq.Configuration), gen.U(uint64(sq.Offset)), gen.Hex(sq.Bytes), gen.B(sq.Done)}, gen.Hex(b))
		decSQ := func(b []byte) string {
			r, err := raft.VerifUnmarshalInstallSnapshotRequest(b)
			if err != nil {
				return "ERR"
			}
			return strings.Join([]string{gen.U(r.Term), gen.Hex([]byte(r.LeaderID)), gen.U(r.LastIncludedIndex), gen.U(r.LastIncludedTerm),
				gen.Hex(r.Configuration), gen.U(uint64(r.Offset)), gen.Hex(r.Bytes), gen.B(r.Done)}, ",")
		}
		g.Case("DEC_ISREQ", []string{gen.Hex(b)}, decSQ(b))

		// AppendEntriesRequest, 0..6 entries
		var es []*raft.LogEntry
		for k := g.R.Intn(7); k > 0; k-- {
			es = append(es, genEntry(g, 300))
		}
		aq := raft.AppendEntriesRequest{LeaderID: g.ID(), Term: g.U64(), LeaderCommit: g.U64(), PrevLogIndex: g.U64(), PrevLogTerm: g.U64(), Entries: es}
		b, _ = raft.VerifMarshalAppendEntriesRequest(aq)
		g.Case("SEND_AEREQ", []string{gen.Hex([]byte(aq.LeaderID)), gen.U(aq.Term), gen.U(aq.LeaderCommit), gen.U(aq.PrevLogIndex), gen.U(aq.PrevLogTerm), entriesS(es, ";")}, gen.Hex(b))
		decAQ := func(b []byte) string {
			r, err := raft.VerifUnmarshalAppendEntriesRequest(b)
			if err != nil {
				return "ERR"
			}
			return strings.Join([]string{gen.Hex([]byte(r.LeaderID)), gen.U(r.Term), gen.U(r.LeaderCommit), gen.U(r.PrevLogIndex), gen.U(r.PrevLogTerm), entriesS(r.Entries, ";")}, " ")
		}
		g.Case("RECV_AEREQ", []string{gen.Hex(b)}, decAQ(b))
		if i%4 == 0 {
			for _, m := range malformed(g, b, false) {
				g.Case("RECV_AEREQ", []string{gen.Hex(m)}, decAQ(m))
			}
		}

		// Configuration: Go's map order is random, so encodings are compared
		// byte-for-byte only for maps with at most one entry; all are decoded by the model.
		nm := g.R.Intn(5)
		if i%3 == 0 {
			nm = g.R.Intn(2)
		}
		conf := raft.Configuration{Members: map[string]string{}, IsVoter: map[string]bool{}, Index: g.U64()}
		for k := 0; k < nm; k++ {
			id := fmt.Sprintf("%s%d", g.ID(), k)
			conf.Members[id] = g.ID()
			conf.IsVoter[id] = g.R.Intn(2) == 0
		}
		b, err = raft.VerifEncodeConfiguration(&conf)
		if err != nil {
			violate("encodeConfiguration failed: %v", err)
			continue
		}
		var ms, vs []string
		for k, v := range conf.Members {
			ms = append(ms, gen.Hex([]byte(k))+":"+gen.Hex([]byte(v)))
		}
		for k, v := range conf.IsVoter {
			vs = append(vs, gen.Hex([]byte(k))+":"+gen.B(v))
		}
		sort.Strings(ms)
		sort.Strings(vs)
		j := func(l []string) string {
			if len(l) == 0 {
				return "-"
			}
			return strings.Join(l, ",")
		}
		if nm <= 1 {
			g.Case("ENC_CONF", []string{j(ms), j(vs), gen.U(conf.Index)}, gen.Hex(b))
		}
		g.Case("DEC_CONF", []string{gen.Hex(b)}, strings.Join([]string{j(ms), j(vs), gen.U(conf.Index)}, " "))
		backc, err := raft.VerifDecodeConfiguration(b)
		if err != nil || backc.Index != conf.Index || len(backc.Members) != len(conf.Members) || len(backc.IsVoter) != len(conf.IsVoter) {
			violate("configuration does not round-trip")
		}
		for k, v := range conf.Members {
			if backc.Members[k] != v || backc.IsVoter[k] != conf.IsVoter[k] {
				violate("configuration member %q does not round-trip", k)
			}
		}
	}
	if err := g.Close(); err != nil {
		panic(err)
	}

	metadataRoundTrip(g, *n)
	sent := 0
	if *loop {
		sent = transportRoundTrip(g, *n, *big)
	}
	var kinds []string
	for k, v := range g.Kinds {
		kinds = append(kinds, fmt.Sprintf("%s=%d", k, v))
	}
	sort.Strings(kinds)
	fmt.Printf("CODECDIFF cases=%d transport_messages=%d kinds=%s\n", g.Cases, sent, strings.Join(kinds, ","))
	for _, v := range violations {
		fmt.Printf("IMPL-VIOLATION %s\n", v)
	}
	if len(violations) > 0 {
		os.Exit(1)
	}
}

// metadataRoundTrip writes snapshots with boundary metadata through the real
// snapshot storage and reads them back through a fresh storage handle.
func metadataRoundTrip(g *gen.G, n int) {
	dir, err := os.MkdirTemp(os.Getenv("VERIF_SCRATCH"), "codecmeta")
	if err != nil {
		panic(err)
	}
	defer os.RemoveAll(dir)
	m := n / 10
	if m < 20 {
		m = 20
	}
	for i := 0; i < m; i++ {
		sub := fmt.Sprintf("%s/%d", dir, i)
		ss, err := raft.NewSnapshotStorage(sub)
		if err != nil {
			violate("NewSnapshotStorage failed: %v", err)
			return
		}
		idx, term, conf, data := g.U64(), g.U64(), g.Bytes(300), g.Bytes(70000)
		f, err := ss.NewSnapshotFile(idx, term, conf)
		if err != nil {
			violate("NewSnapshotFile(%d,%d) failed: %v", idx, term, err)
			continue
		}
		if _, err := f.Write(data); err != nil {
			violate("snapshot write failed: %v", err)
		}
		if err := f.Close(); err != nil {
			violate("snapshot close failed: %v", err)
			continue
		}
		ss2, _ := raft.NewSnapshotStorage(sub)
		rf, err := ss2.SnapshotFile()
		if err != nil || rf == nil {
			violate("snapshot (index %d, term %d) cannot be read back: %v", idx, term, err)
			continue
		}
		md := rf.Metadata()
		var buf bytes.Buffer
		buf.ReadFrom(rf)
		rf.Close()
		if md.LastIncludedIndex != idx || md.LastIncludedTerm != term || !bytes.Equal(md.Configuration, conf) || !bytes.Equal(buf.Bytes(), data) {
			violate("snapshot metadata/data written as (index %d, term %d, %d conf bytes, %d data bytes) reads back as (index %d, term %d, %d conf bytes, %d data bytes)",
				idx, term, len(conf), len(data), md.LastIncludedIndex, md.LastIncludedTerm, len(md.Configuration), buf.Len())
		}
		g.Kinds["SNAPSHOT_METADATA_ROUNDTRIP(go only)"]++
	}
}

func freeAddr() string {
	l, err := net.Listen("tcp", "127.0.0.1:0")
	if err != nil {
		panic(err)
	}
	defer l.Close()
	return l.Addr().String()
}

// transportRoundTrip sends generated requests through a real gRPC transport
// pair and checks that what the handler sees, and what the sender gets back,
// equals what was sent (LogEntry.Offset excepted: the converters drop it).
func transportRoundTrip(g *gen.G, n int, big bool) int {
	addrA, addrB := freeAddr(), freeAddr()
	ta, err := raft.NewTransport(addrA)
	if err != nil {
		panic(err)
	}
	tb, err := raft.NewTransport(addrB)
	if err != nil {
		panic(err)
	}
	var gotAE raft.AppendEntriesRequest
	var gotRV raft.RequestVoteRequest
	var gotIS raft.InstallSnapshotRequest
	var respAE raft.AppendEntriesResponse
	var respRV raft.RequestVoteResponse
	var respIS raft.InstallSnapshotResponse
	var fail bool
	tb.RegisterAppendEntriesHandler(func(q *raft.AppendEntriesRequest, r *raft.AppendEntriesResponse) error {
		gotAE = *q
		if fail {
			return errors.New("scripted failure")
		}
		*r = respAE
		return nil
	})
	tb.RegisterRequestVoteHandler(func(q *raft.RequestVoteRequest, r *raft.RequestVoteResponse) error {
		gotRV = *q
		*r = respRV
		return nil
	})
	tb.RegsiterInstallSnapshotHandler(func(q *raft.InstallSnapshotRequest, r *raft.InstallSnapshotResponse) error {
		gotIS = *q
		*r = respIS
		return nil
	})
	if err := ta.Run(); err != nil {
		panic(err)
	}
	if err := tb.Run(); err != nil {
		panic(err)
	}
	defer ta.Shutdown()
	defer tb.Shutdown()
	sent := 0
	m := n / 3
	if m < 20 {
		m = 20
	}
	for i := 0; i < m; i++ {
		var es []*raft.LogEntry
		for k := g.R.Intn(6); k > 0; k-- {
			es = append(es, genEntry(g, 500))
		}
		aq := raft.AppendEntriesRequest{LeaderID: g.ID(), Term: g.U64(), LeaderCommit: g.U64(), PrevLogIndex: g.U64(), PrevLogTerm: g.U64(), Entries: es}
		respAE = raft.AppendEntriesResponse{Term: g.U64(), Index: g.U64(), Success: g.R.Intn(2) == 0}
		r, err := ta.SendAppendEntries(addrB, aq)
		sent++
		if err != nil {
			violate("AppendEntries over loopback failed: %v", err)
		} else {
			ok := gotAE.LeaderID == aq.LeaderID && gotAE.Term == aq.Term && gotAE.LeaderCommit == aq.LeaderCommit &&
				gotAE.PrevLogIndex == aq.PrevLogIndex && gotAE.PrevLogTerm == aq.PrevLogTerm && len(gotAE.Entries) == len(es)
			for k := 0; ok && k < len(es); k++ {
				x, y := gotAE.Entries[k], es[k]
				ok = x.Index == y.Index && x.Term == y.Term && x.EntryType == y.EntryType && bytes.Equal(x.Data, y.Data)
			}
			if !ok {
				violate("AppendEntries request changed in transit: sent %s", entriesS(es, ";"))
			}
			if r != respAE {
				violate("AppendEntries response changed in transit: %+v vs %+v", r, respAE)
			}
		}
		vq := raft.RequestVoteRequest{CandidateID: g.ID(), Term: g.U64(), LastLogIndex: g.U64(), LastLogTerm: g.U64(), Prevote: g.R.Intn(2) == 0}
		respRV = raft.RequestVoteResponse{Term: g.U64(), VoteGranted: g.R.Intn(2) == 0}
		rv, err := ta.SendRequestVote(addrB, vq)
		sent++
		if err != nil || gotRV != vq || rv != respRV {
			violate("RequestVote changed in transit or failed: err=%v", err)
		}
		size := 4000
		if i%10 == 0 {
			size = 3 << 20 // below the 4 MiB gRPC default
		}
		sq := raft.InstallSnapshotRequest{LeaderID: g.ID(), Term: g.U64(), LastIncludedIndex: g.U64(), LastIncludedTerm: g.U64(),
			Configuration: g.Bytes(300), Bytes: g.Bytes(size), Offset: int64(g.U64()), Done: g.R.Intn(2) == 0}
		respIS = raft.InstallSnapshotResponse{Term: g.U64(), BytesWritten: int64(g.U64())}
		rs, err := ta.SendInstallSnapshot(addrB, sq)
		sent++
		if err != nil {
			violate("InstallSnapshot over loopback failed: %v", err)
		} else if gotIS.LeaderID != sq.LeaderID || gotIS.Term != sq.Term || gotIS.LastIncludedIndex != sq.LastIncludedIndex ||
			gotIS.LastIncludedTerm != sq.LastIncludedTerm || !bytes.Equal(gotIS.Configuration, sq.Configuration) ||
			!bytes.Equal(gotIS.Bytes, sq.Bytes) || gotIS.Offset != sq.Offset || gotIS.Done != sq.Done || rs != respIS {
			violate("InstallSnapshot changed in transit (payload %d bytes)", len(sq.Bytes))
		}
	}
	// requests above the transport's message limit (4 MiB by default): the call may fail, but a call that reports
	// success must have delivered exactly the entries it was given - never a silently shortened request
	for _, sizes := range [][]int{{3 << 20, 3 << 20}, {1 << 20, 1 << 20, 1 << 20, 1 << 20, 1 << 20}, {5 << 20}, {100, 4 << 20, 100}} {
		var es []*raft.LogEntry
		for k, sz := range sizes {
			buf := make([]byte, sz)
			g.R.Read(buf)
			es = append(es, raft.NewLogEntry(uint64(k+1), 7, buf, raft.OperationEntry))
		}
		aq := raft.AppendEntriesRequest{LeaderID: "big", Term: 7, LeaderCommit: 1, PrevLogIndex: 0, PrevLogTerm: 0, Entries: es}
		respAE = raft.AppendEntriesResponse{Term: 7, Index: 0, Success: true}
		gotAE = raft.AppendEntriesRequest{}
		_, err := ta.SendAppendEntries(addrB, aq)
		sent++
		if err == nil {
			ok := len(gotAE.Entries) == len(es)
			for k := 0; ok && k < len(es); k++ {
				ok = gotAE.Entries[k].Index == es[k].Index && bytes.Equal(gotAE.Entries[k].Data, es[k].Data)
			}
			if !ok {
				violate("AppendEntries request of %d entries (%v bytes) reported success but %d entries arrived", len(es), sizes, len(gotAE.Entries))
			}
		}
	}
	_ = big
	return sent
}
