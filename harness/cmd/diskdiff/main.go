// diskdiff (C12, C13): runs programs of storage operations on the real
// file-backed log / state storage / snapshot storage, materialises every crash
// image of every operation as a directory, reopens it with the real
// constructors, and (a) checks the property directly on what the
// implementation recovers (IMPL-VIOLATION lines), (b) records cases for the
// Coq model (recover / lstep / read_state / latest) to be compared by modeldrv.
package main

import (
	"bytes"
	"flag"
	"fmt"
	"io"
	"os"
	"os/exec"
	"path/filepath"
	"runtime"
	"sort"
	"strconv"
	"strings"
	"syscall"

	raft "github.com/jmsadair/raft"
	"verifharness/internal/gen"
)

var violations []string
var scratch string
var imagesLog, imagesState, imagesSnap, imagesNode int

func violate(f string, a ...interface{}) {
	if len(violations) < 20 {
		violations = append(violations, fmt.Sprintf(f, a...))
	}
}

func short(s string) string {
	if len(s) > 120 {
		return s[:60] + "..." + s[len(s)-50:]
	}
	return s
}

func must(err error) {
	if err != nil {
		panic(err)
	}
}

func entryS(e *raft.LogEntry) string {
	return strings.Join([]string{gen.U(e.Index), gen.U(e.Term), gen.U(uint64(e.Offset)), gen.U(uint64(e.EntryType)), gen.Hex(e.Data)}, ",")
}

type ent struct {
	Index, Term uint64
	Offset      int64
	Type        raft.LogEntryType
	Data        []byte
}

func (e ent) S() string {
	return strings.Join([]string{gen.U(e.Index), gen.U(e.Term), gen.U(uint64(e.Offset)), gen.U(uint64(e.Type)), gen.Hex(e.Data)}, ",")
}

func entsS(es []ent, sep string) string {
	if len(es) == 0 {
		return "-"
	}
	var p []string
	for _, e := range es {
		p = append(p, e.S())
	}
	return strings.Join(p, sep)
}

// dump reads everything the Log interface shows: size, placeholder index, last term, entries.
type logDump struct {
	size     int
	pidx     uint64
	lastTerm uint64
	entries  []ent
}

func dumpLog(l raft.Log) logDump {
	d := logDump{size: l.Size(), lastTerm: l.LastTerm()}
	last := l.LastIndex()
	d.pidx = last - uint64(d.size)
	for i := d.pidx + 1; i <= last; i++ {
		e, err := l.GetEntry(i)
		if err != nil {
			violate("GetEntry(%d) failed on an index inside the log: %v", i, err)
			continue
		}
		d.entries = append(d.entries, ent{e.Index, e.Term, e.Offset, e.EntryType, append([]byte{}, e.Data...)})
	}
	return d
}

func (d logDump) S() string {
	return fmt.Sprintf("OK %d %d %d %s", d.size, d.pidx, d.lastTerm, entsS(d.entries, ";"))
}

func sameEnts(a, b []ent) bool {
	if len(a) != len(b) {
		return false
	}
	for i := range a {
		if a[i].Index != b[i].Index || a[i].Term != b[i].Term || a[i].Type != b[i].Type || !bytes.Equal(a[i].Data, b[i].Data) {
			return false
		}
	}
	return true
}

// reopen runs the real NewLog + Open + Replay over dataPath, catching panics.
func reopen(dataPath string) (l raft.Log, res string) {
	defer func() {
		if r := recover(); r != nil {
			l, res = nil, "PANIC"
		}
	}()
	l, err := raft.NewLog(dataPath)
	if err != nil {
		return nil, "ERR"
	}
	if err := l.Open(); err != nil {
		return nil, "ERR"
	}
	if err := l.Replay(); err != nil {
		l.Close()
		return nil, "ERR"
	}
	return l, "OK"
}

var imgCounter int

func newImageDir() string {
	imgCounter++
	d := filepath.Join(scratch, fmt.Sprintf("img%d", imgCounter))
	must(os.MkdirAll(d, 0o755))
	return d
}

// cuts returns the prefix lengths to try for a write of n bytes.
func cuts(g *gen.G, n int, all bool) []int {
	if all || n <= 160 {
		r := make([]int, n+1)
		for i := range r {
			r[i] = i
		}
		return r
	}
	set := map[int]bool{0: true, 1: true, 2: true, 3: true, 4: true, 5: true, n - 1: true, n: true}
	for i := 0; i < 40; i++ {
		set[g.R.Intn(n+1)] = true
	}
	var r []int
	for k := range set {
		r = append(r, k)
	}
	sort.Ints(r)
	return r
}

// checkLogImage reopens one crash image and checks it against what is allowed.
// allowed: entry lists (after the placeholder) the property permits.
func checkLogImage(g *gen.G, desc string, file []byte, tmp []byte, hasTmp bool, before logDump, allowed func(logDump) bool, probe bool) {
	imagesLog++
	dir := newImageDir()
	defer os.RemoveAll(dir)
	must(os.MkdirAll(filepath.Join(dir, "log"), 0o755))
	must(os.WriteFile(filepath.Join(dir, "log", "log.bin"), file, 0o644))
	if hasTmp {
		must(os.WriteFile(filepath.Join(dir, "log", "tmp-123456"), tmp, 0o644))
	}
	l, res := reopen(dir)
	expected := res
	if res == "OK" {
		d := dumpLog(l)
		expected = d.S()
		if !allowed(d) {
			violate("C12 %s: reopened log shows %s", desc, expected)
		}
		if hasTmp {
			if _, err := os.Stat(filepath.Join(dir, "log", "tmp-123456")); err == nil {
				violate("C12 %s: temporary file survives reopening", desc)
			}
		}
	} else {
		violate("C12 %s: reopening failed (%s)", desc, res)
	}
	g.Case("RECOVER", []string{gen.Hex(file)}, expected)
	if res == "OK" && probe {
		// keeps working: append one more entry, reopen again, compare the file with the model.
		e := raft.NewLogEntry(l.NextIndex(), 77, []byte("probe"), raft.OperationEntry)
		if err := l.AppendEntry(e); err != nil {
			violate("C12 %s: append after recovery failed: %v", desc, err)
		} else {
			want := dumpLog(l)
			must(l.Close())
			after, _ := os.ReadFile(filepath.Join(dir, "log", "log.bin"))
			g.Case("RECOVER_APPEND", []string{gen.Hex(file), ent{e.Index, e.Term, 0, e.EntryType, e.Data}.S()}, gen.Hex(after))
			l2, res2 := reopen(dir)
			if res2 != "OK" {
				violate("C12 %s: second reopen after a post-recovery append failed (%s)", desc, res2)
			} else {
				got := dumpLog(l2)
				if got.S() != want.S() {
					violate("C12 %s: after recovery+append+reopen the log shows %s, expected %s", desc, got.S(), want.S())
				}
				l2.Close()
			}
			return
		}
	}
	if l != nil {
		l.Close()
	}
}

// scripts: operation kinds forced in order (a = append, t = truncate, c = compact, d = discard, r = reopen)
var scripts = []string{"aactar", "acatar", "adatar", "aatar", "acrtar", "aacatr", "aadar", "aaccar", "acacar", "atatar", "aacaatar"}

func logProgram(g *gen.G, length int, allCuts bool) { logProgramS(g, length, allCuts, "") }

func logProgramS(g *gen.G, length int, allCuts bool, script string) {
	if script != "" {
		length = len(script)
	}
	dir := newImageDir()
	defer os.RemoveAll(dir)
	l, res := reopen(dir)
	if res != "OK" {
		violate("C12: opening a fresh log failed")
		return
	}
	logFile := filepath.Join(dir, "log", "log.bin")
	var prog []string
	term := uint64(1)
	for step := 0; step < length; step++ {
		before, _ := os.ReadFile(logFile)
		bd := dumpLog(l)
		desc := func(what string) string {
			return fmt.Sprintf("program [%s] then %s", short(strings.Join(prog, "/")), short(what))
		}
		k := g.R.Intn(10)
		if script != "" {
			k = map[byte]int{'a': 0, 't': 5, 'c': 6, 'd': 6, 'r': 9}[script[step]]
		}
		forceDiscard := script != "" && script[step] == 'd'
		forceCompact := script != "" && script[step] == 'c'
		switch {
		case k < 5: // append 1..4 entries
			n := 1 + g.R.Intn(4)
			if g.R.Intn(4) == 0 {
				term++
			}
			var batch []*raft.LogEntry
			var bents []ent
			for i := 0; i < n; i++ {
				ty := raft.LogEntryType(g.R.Intn(3))
				data := g.Bytes(400)
				batch = append(batch, raft.NewLogEntry(l.NextIndex()+uint64(i), term, data, ty))
				bents = append(bents, ent{l.NextIndex() + uint64(i), term, 0, ty, data})
			}
			var err error
			if n == 1 && g.R.Intn(2) == 0 {
				err = l.AppendEntry(batch[0])
			} else {
				err = l.AppendEntries(batch)
			}
			if err != nil {
				violate("C12 %s: append failed: %v", desc("append"), err)
				return
			}
			op := "A=" + entsS(bents, "+")
			after, _ := os.ReadFile(logFile)
			if !bytes.HasPrefix(after, before) {
				violate("C12 %s: append rewrote earlier bytes of the file", desc(op))
				return
			}
			delta := after[len(before):]
			for _, c := range cuts(g, len(delta), allCuts) {
				img := append(append([]byte{}, before...), delta[:c]...)
				c := c
				checkLogImage(g, desc(fmt.Sprintf("%s cut at byte %d of %d", op, c, len(delta))), img, nil, false, bd,
					func(d logDump) bool {
						if d.pidx != bd.pidx || len(d.entries) < len(bd.entries) || len(d.entries) > len(bd.entries)+n {
							return false
						}
						if c == len(delta) && len(d.entries) != len(bd.entries)+n {
							return false
						}
						if !sameEnts(d.entries[:len(bd.entries)], bd.entries) {
							return false
						}
						return sameEnts(d.entries[len(bd.entries):], bents[:len(d.entries)-len(bd.entries)])
					}, g.R.Intn(6) == 0)
			}
			prog = append(prog, op)
		case k < 6: // truncate
			if bd.size == 0 {
				continue
			}
			idx := bd.pidx + 1 + uint64(g.R.Intn(bd.size))
			if g.R.Intn(8) == 0 {
				idx = bd.pidx + uint64(bd.size) + 1 + uint64(g.R.Intn(3)) // not contained: error, no change
			}
			err := l.Truncate(idx)
			op := "T=" + gen.U(idx)
			after, _ := os.ReadFile(logFile)
			ad := dumpLog(l)
			if err != nil && !bytes.Equal(before, after) {
				violate("C12 %s: failed truncate changed the file", desc(op))
			}
			for _, img := range [][]byte{before, after} {
				checkLogImage(g, desc(op+" (before/after image)"), img, nil, false, bd,
					func(d logDump) bool { return d.S() == bd.S() || d.S() == ad.S() }, g.R.Intn(3) == 0)
			}
			prog = append(prog, op)
		case k < 8: // compact / discard
			var op string
			var err error
			if bd.size > 0 && !forceDiscard && (forceCompact || g.R.Intn(3) > 0) {
				idx := bd.pidx + 1 + uint64(g.R.Intn(bd.size))
				op = "C=" + gen.U(idx)
				err = l.Compact(idx)
			} else {
				idx, t := bd.pidx+uint64(bd.size)+uint64(g.R.Intn(5)), term+uint64(g.R.Intn(2))
				op = "D=" + gen.U(idx) + "," + gen.U(t)
				err = l.DiscardEntries(idx, t)
			}
			if err != nil {
				violate("C12 %s: failed: %v", desc(op), err)
				return
			}
			after, _ := os.ReadFile(logFile)
			ad := dumpLog(l)
			ok := func(d logDump) bool { return d.S() == bd.S() || d.S() == ad.S() }
			for _, c := range cuts(g, len(after), allCuts) {
				checkLogImage(g, desc(fmt.Sprintf("%s, temporary file cut at byte %d", op, c)), before, after[:c], true, bd,
					func(d logDump) bool { return d.S() == bd.S() }, false)
			}
			checkLogImage(g, desc(op+" (after rename)"), after, nil, false, bd, ok, true)
			prog = append(prog, op)
		default: // close + reopen
			must(l.Close())
			l2, res := reopen(dir)
			if res != "OK" {
				violate("C12 %s: clean reopen failed (%s)", desc("R"), res)
				return
			}
			l = l2
			if got := dumpLog(l); got.S() != bd.S() {
				violate("C12 %s: clean reopen shows %s, expected %s", desc("R"), got.S(), bd.S())
			}
			prog = append(prog, "R")
		}
		final, _ := os.ReadFile(logFile)
		fd := dumpLog(l)
		p := strings.Join(prog, "/")
		if p == "" {
			p = "-"
		}
		// model view: file bytes and the entries after the placeholder, with offsets
		g.Case("LOGPROG", []string{p}, gen.Hex(final)+" "+fmt.Sprintf("%d %d %d %s", fd.size, fd.pidx, fd.lastTerm, entsS(fd.entries, ";")))
	}
	l.Close()
}

// ---------------- state storage ----------------

func stateProgram(g *gen.G, length int) {
	dir := newImageDir()
	defer os.RemoveAll(dir)
	st, err := raft.NewStateStorage(dir)
	if err != nil {
		violate("C13: NewStateStorage on a fresh directory failed: %v", err)
		return
	}
	file := filepath.Join(dir, "state", "state.bin")
	oldTerm, oldVote := uint64(0), ""
	for step := 0; step < length; step++ {
		before, berr := os.ReadFile(file)
		term, vote := g.U64(), g.ID()
		if err := st.SetState(term, vote); err != nil {
			violate("C13: SetState failed: %v", err)
			return
		}
		after, _ := os.ReadFile(file)
		check := func(desc string, main []byte, hasMain bool, tmp []byte, hasTmp bool, tmpIsDir bool) {
			imagesState++
			img := newImageDir()
			defer os.RemoveAll(img)
			must(os.MkdirAll(filepath.Join(img, "state"), 0o755))
			if hasMain {
				must(os.WriteFile(filepath.Join(img, "state", "state.bin"), main, 0o644))
			}
			if hasTmp {
				must(os.WriteFile(filepath.Join(img, "state", "tmp-state424242"), tmp, 0o644))
			}
			s2, err := raft.NewStateStorage(img)
			if err != nil {
				violate("C13 %s: NewStateStorage failed: %v", desc, err)
				return
			}
			t, v, err := s2.State()
			if err != nil {
				violate("C13 %s: State() failed: %v", desc, err)
				return
			}
			if !(t == oldTerm && v == oldVote) && !(t == term && v == vote) {
				violate("C13 %s: State() = (%d,%q), neither old (%d,%q) nor new (%d,%q)", desc, t, v, oldTerm, oldVote, term, vote)
			}
			exp := gen.U(t) + "," + gen.Hex([]byte(v))
			if hasMain {
				g.Case("READSTATE", []string{gen.Hex(main)}, exp)
			}
		}
		for _, c := range cuts(g, len(after), true) {
			check(fmt.Sprintf("SetState(%d,%q) temp file cut at %d", term, vote, c), before, berr == nil, after[:c], true, false)
		}
		check(fmt.Sprintf("SetState(%d,%q) after rename", term, vote), after, true, nil, false, false)
		oldTerm, oldVote = term, vote
		// the handle that wrote it (used again by an in-process Stop + Restart) must read what it wrote
		if t, v, err := st.State(); err != nil || t != term || v != vote {
			violate("C13: State() on the storage object that executed SetState(%d,%q) returns (%d,%q,%v)", term, vote, t, v, err)
		}
		// a fresh handle must read what was written
		s3, err := raft.NewStateStorage(dir)
		if err == nil {
			t, v, err := s3.State()
			if err != nil || t != term || v != vote {
				violate("C13: value written by SetState(%d,%q) reads back as (%d,%q,%v)", term, vote, t, v, err)
			}
		}
	}
}

// ---------------- snapshot storage ----------------

type snapRec struct {
	index, term uint64
	conf, data  []byte
}

func (s snapRec) S() string {
	return strings.Join([]string{gen.U(s.index), gen.U(s.term), gen.Hex(s.conf), gen.Hex(s.data)}, ",")
}

func copyTree(src, dst string) {
	must(filepath.Walk(src, func(p string, info os.FileInfo, err error) error {
		if err != nil {
			return err
		}
		rel, _ := filepath.Rel(src, p)
		if info.IsDir() {
			return os.MkdirAll(filepath.Join(dst, rel), 0o755)
		}
		b, err := os.ReadFile(p)
		if err != nil {
			return err
		}
		return os.WriteFile(filepath.Join(dst, rel), b, 0o644)
	}))
}

// readLatest reopens snapshot storage over dir and returns the latest snapshot.
func readLatest(desc string, dir string) (string, bool) {
	ss, err := raft.NewSnapshotStorage(dir)
	if err != nil {
		violate("C13 %s: NewSnapshotStorage failed: %v", desc, err)
		return "", false
	}
	f, err := ss.SnapshotFile()
	if err != nil {
		violate("C13 %s: SnapshotFile failed: %v", desc, err)
		return "", false
	}
	if f == nil {
		return "NONE", true
	}
	data, err := io.ReadAll(f)
	if err != nil {
		violate("C13 %s: reading the snapshot failed: %v", desc, err)
		return "", false
	}
	f.Close()
	m := f.Metadata()
	return snapRec{m.LastIncludedIndex, m.LastIncludedTerm, m.Configuration, data}.S(), true
}

type nopFSM struct{}

func (nopFSM) Apply(*raft.Operation) interface{} { return nil }
func (nopFSM) Snapshot(io.Writer) error          { return nil }
func (nopFSM) Restore(r io.Reader) error         { _, err := io.ReadAll(r); return err }
func (nopFSM) NeedSnapshot(int) bool             { return false }

func snapProgram(g *gen.G, nsnaps int, nodeCheck bool) {
	dir := newImageDir()
	defer os.RemoveAll(dir)
	ss, err := raft.NewSnapshotStorage(dir)
	if err != nil {
		violate("C13: NewSnapshotStorage on a fresh directory failed: %v", err)
		return
	}
	var ops []string // model ops so far
	latest := "NONE"
	image := func(desc string, extra func(img string), modelOps []string) {
		imagesSnap++
		img := newImageDir()
		defer os.RemoveAll(img)
		copyTree(dir, img)
		if extra != nil {
			extra(img)
		}
		got, ok := readLatest(desc, img)
		if ok {
			p := strings.Join(modelOps, "/")
			if p == "" {
				p = "-"
			}
			g.Case("SNAPLATEST", []string{p}, got)
		}
		if nodeCheck {
			imagesNode++
			// a node must come up over the crashed directory at the first attempt
			func() {
				defer func() {
					if r := recover(); r != nil {
						violate("C13 %s: NewRaft panicked: %v", desc, r)
					}
				}()
				copyTree(dir, img) // tmp dirs removed by the first reopen are put back
				if extra != nil {
					extra(img)
				}
				tr, _ := raft.NewTransport("127.0.0.1:0")
				if _, err := raft.NewRaft("n1", "127.0.0.1:0", nopFSM{}, img, raft.WithTransport(tr)); err != nil {
					violate("C13 %s: NewRaft failed: %v", desc, err)
				}
			}()
		}
	}
	for i := 0; i < nsnaps; i++ {
		rec := snapRec{index: uint64(i*3 + 1 + g.R.Intn(3)), term: uint64(1 + i/2), conf: g.Bytes(60)}
		if nodeCheck {
			// NewRaft decodes the snapshot's configuration: use a real one.
			conf, err := raft.VerifEncodeConfiguration(&raft.Configuration{
				Members: map[string]string{"n1": "127.0.0.1:0", "n2": "127.0.0.1:1"},
				IsVoter: map[string]bool{"n1": true, "n2": g.R.Intn(2) == 0}, Index: rec.index})
			must(err)
			rec.conf = conf
		}
		nchunks := g.R.Intn(4)
		closeIt := g.R.Intn(5) > 0
		d0 := fmt.Sprintf("snapshot #%d (index %d)", i, rec.index)
		// synthetic intermediate states of NewSnapshotFile
		image(d0+": empty tmp directory", func(img string) {
			must(os.MkdirAll(filepath.Join(img, "snapshots", "tmp-snapshot777"), 0o755))
		}, ops)
		image(d0+": tmp directory with empty data file and partial metadata", func(img string) {
			must(os.MkdirAll(filepath.Join(img, "snapshots", "tmp-snapshot777"), 0o755))
			must(os.WriteFile(filepath.Join(img, "snapshots", "tmp-snapshot777", "snapshot.bin"), nil, 0o644))
			must(os.WriteFile(filepath.Join(img, "snapshots", "tmp-snapshot777", "metadata.json"), []byte(`{"last_incl`), 0o644))
		}, ops)
		f, err := ss.NewSnapshotFile(rec.index, rec.term, rec.conf)
		if err != nil {
			violate("C13 %s: NewSnapshotFile failed: %v", d0, err)
			return
		}
		ops = append(ops, "N="+strings.Join([]string{gen.U(rec.index), gen.U(rec.term), gen.Hex(rec.conf)}, ","))
		image(d0+": after NewSnapshotFile", nil, ops)
		liveRead := func(when string) {
			lf, err := ss.SnapshotFile()
			got := "NONE"
			if err != nil {
				violate("C13 %s: SnapshotFile failed while a writer is open (%s): %v", d0, when, err)
				return
			}
			if lf != nil {
				data, _ := io.ReadAll(lf)
				lf.Close()
				m := lf.Metadata()
				got = snapRec{m.LastIncludedIndex, m.LastIncludedTerm, m.Configuration, data}.S()
			}
			if got != latest {
				violate("C13 %s: with an unfinished writer open (%s) the storage shows %s, expected the most recent closed snapshot %s", d0, when, short(got), short(latest))
			}
		}
		liveRead("after NewSnapshotFile")
		for c := 0; c < nchunks; c++ {
			chunk := g.Bytes(50000)
			if _, err := f.Write(chunk); err != nil {
				violate("C13 %s: Write failed: %v", d0, err)
				return
			}
			rec.data = append(rec.data, chunk...)
			ops = append(ops, "W="+gen.Hex(chunk))
			image(d0+fmt.Sprintf(": after chunk %d", c), nil, ops)
			liveRead(fmt.Sprintf("after chunk %d", c))
		}
		if closeIt {
			if err := f.Close(); err != nil {
				violate("C13 %s: Close failed: %v", d0, err)
				return
			}
			ops = append(ops, "C")
			latest = rec.S()
		} else {
			if err := f.Discard(); err != nil {
				violate("C13 %s: Discard failed: %v", d0, err)
				return
			}
			ops = append(ops, "X")
		}
		image(d0+": after Close/Discard", nil, ops)
		if got, ok := readLatest(d0+": live read", dir); ok && got != latest {
			violate("C13 %s: storage shows %s, expected the most recent closed snapshot %s", d0, got, latest)
		}
	}
}

// ---------------- kill sweep: real process deaths at every file-system call ----------------
//
// The crash images above are derived from before/after states and therefore assume which intermediate
// steps an operation has. The kill sweep does not: the operation runs in a child process under
// `strace -e inject=<file syscalls>:signal=SIGKILL:when=N`, which kills the process on entry to its
// N-th write/rename/unlink/mkdir/truncate call, for N = 1, 2, ... until the child survives. After each
// death the directory is reopened with the real constructors and checked against the property.

const killCalls = "write,pwrite64,rename,renameat,renameat2,unlink,unlinkat,rmdir,mkdir,mkdirat,ftruncate,truncate"

func childOp(op string, dir string) {
	runtime.LockOSThread()
	f := strings.Fields(op)
	u := func(i int) uint64 { v, _ := strconv.ParseUint(f[i], 10, 64); return v }
	switch f[0] {
	case "setstate":
		st, err := raft.NewStateStorage(dir)
		must(err)
		must(st.SetState(u(1), f[2]))
	case "append", "truncate", "compact", "discard":
		l, res := reopen(dir)
		if res != "OK" {
			os.Exit(3)
		}
		switch f[0] {
		case "append":
			var es []*raft.LogEntry
			for i := uint64(0); i < u(1); i++ {
				es = append(es, raft.NewLogEntry(l.NextIndex()+i, 9, []byte(fmt.Sprintf("batch-%d", i)), raft.OperationEntry))
			}
			must(l.AppendEntries(es))
		case "truncate":
			must(l.Truncate(u(1)))
		case "compact":
			must(l.Compact(u(1)))
		case "discard":
			must(l.DiscardEntries(u(1), u(2)))
		}
	case "snapshot":
		ss, err := raft.NewSnapshotStorage(dir)
		must(err)
		sf, err := ss.NewSnapshotFile(u(1), u(2), []byte("conf2"))
		must(err)
		_, err = sf.Write(bytes.Repeat([]byte("A"), 5000))
		must(err)
		_, err = sf.Write(bytes.Repeat([]byte("B"), 5000))
		must(err)
		if f[3] == "close" {
			must(sf.Close())
		} else {
			must(sf.Discard())
		}
	}
	os.Exit(0)
}

var killRuns, killDeaths int
var killUnavailable string

// traceCalls runs the op to completion under strace and returns the ordered names of its file-system calls.
func traceCalls(self, op, dir string) ([]string, bool) {
	tf := filepath.Join(scratch, "strace.out")
	cmd := exec.Command("strace", "-f", "-qq", "-o", tf, "-e", "trace="+killCalls, self, "-childop", op, "-dir", dir)
	cmd.Env = append(os.Environ(), "GOMAXPROCS=1")
	if err := cmd.Run(); err != nil {
		killUnavailable = fmt.Sprintf("reference run of {%s} under strace failed: %v", op, err)
		return nil, false
	}
	killRuns++
	b, _ := os.ReadFile(tf)
	os.Remove(tf)
	var names []string
	for _, line := range strings.Split(string(b), "\n") {
		f := strings.Fields(line)
		if len(f) < 2 {
			continue
		}
		name := f[1]
		if i := strings.IndexByte(name, '('); i > 0 {
			name = name[:i]
		} else {
			continue
		}
		if strings.Contains(","+killCalls+",", ","+name+",") {
			names = append(names, name)
		}
	}
	return names, true
}

// runKilled runs the op in a child that is killed on entry to the ordinal-th call of the named system call.
func runKilled(self, op, dir, name string, ordinal int) (died bool, ok bool) {
	cmd := exec.Command("strace", "-f", "-qq", "-o", "/dev/null", "-e", "trace="+killCalls,
		"-e", fmt.Sprintf("inject=%s:signal=SIGKILL:when=%d", name, ordinal), self, "-childop", op, "-dir", dir)
	cmd.Env = append(os.Environ(), "GOMAXPROCS=1")
	err := cmd.Run()
	killRuns++
	if err == nil {
		return false, true
	}
	if ee, isExit := err.(*exec.ExitError); isExit {
		if ws, isWS := ee.Sys().(syscall.WaitStatus); isWS && (ws.Signaled() || ws.ExitStatus() == 137) {
			killDeaths++
			return true, true
		}
		killUnavailable = fmt.Sprintf("child failed: %v", err)
		return false, false
	}
	killUnavailable = fmt.Sprintf("strace could not be run: %v", err)
	return false, false
}

func killSweep(g *gen.G) {
	self, _ := os.Executable()
	type scenario struct {
		name    string
		prepare func(dir string)
		op      string
		check   func(desc, dir string, before, after string) // reopen dir and judge
		dump    func(dir string) string
	}
	logDump := func(dir string) string {
		l, res := reopen(dir)
		if res != "OK" {
			return res
		}
		defer l.Close()
		return dumpLog(l).S()
	}
	stateDump := func(dir string) string {
		st, err := raft.NewStateStorage(dir)
		if err != nil {
			return "ERR " + err.Error()
		}
		t, v, err := st.State()
		if err != nil {
			return "ERR " + err.Error()
		}
		return fmt.Sprintf("%d,%s", t, v)
	}
	snapDump := func(dir string) string {
		got, ok := readLatest("kill sweep", dir)
		if !ok {
			return "ERR"
		}
		if len(got) > 80 {
			got = got[:40] + fmt.Sprintf("...(%d chars)", len(got))
		}
		return got
	}
	prepLog := func(dir string) {
		l, res := reopen(dir)
		if res != "OK" {
			panic(res)
		}
		for i := uint64(1); i <= 5; i++ {
			must(l.AppendEntry(raft.NewLogEntry(i, 1+i/3, []byte(fmt.Sprintf("entry-%d", i)), raft.OperationEntry)))
		}
		must(l.Close())
	}
	scenarios := []scenario{
		{"SetState over an existing state file", func(dir string) {
			st, err := raft.NewStateStorage(dir)
			must(err)
			must(st.SetState(5, "n1"))
		}, "setstate 6 n2", nil, stateDump},
		{"SetState on an empty directory", func(dir string) {}, "setstate 1 n9", nil, stateDump},
		{"append of a 3-entry batch", prepLog, "append 3", nil, logDump},
		{"truncate", prepLog, "truncate 3", nil, logDump},
		{"compact", prepLog, "compact 3", nil, logDump},
		{"discard", prepLog, "discard 9 4", nil, logDump},
		{"compact then (in the child) truncate", func(dir string) {
			prepLog(dir)
			l, _ := reopen(dir)
			must(l.Compact(2))
			must(l.Close())
		}, "truncate 4", nil, logDump},
		{"snapshot write + Close next to an older snapshot", func(dir string) {
			ss, err := raft.NewSnapshotStorage(dir)
			must(err)
			sf, err := ss.NewSnapshotFile(3, 1, []byte("conf1"))
			must(err)
			_, err = sf.Write([]byte("old snapshot"))
			must(err)
			must(sf.Close())
		}, "snapshot 7 2 close", nil, snapDump},
		{"snapshot write + Discard", func(dir string) {}, "snapshot 7 2 discard", nil, snapDump},
	}
	for si, sc := range scenarios {
		base := filepath.Join(scratch, fmt.Sprintf("kill%d", si))
		must(os.MkdirAll(base, 0o755))
		sc.prepare(base)
		before := sc.dump(base)
		full := filepath.Join(scratch, fmt.Sprintf("kill%d-full", si))
		copyTree(base, full)
		names, ok := traceCalls(self, sc.op, full)
		if !ok {
			return
		}
		after := sc.dump(full)
		os.RemoveAll(full)
		seen := map[string]int{}
		for n, name := range names {
			seen[name]++
			dir := filepath.Join(scratch, fmt.Sprintf("kill%d-%d", si, n))
			copyTree(base, dir)
			died, ok := runKilled(self, sc.op, dir, name, seen[name])
			if !ok {
				return
			}
			if !died {
				killUnavailable = fmt.Sprintf("the child running {%s} survived an injection at %s #%d", sc.op, name, seen[name])
				os.RemoveAll(dir)
				continue
			}
			got := sc.dump(dir)
			allowed := got == before || got == after
			if strings.HasPrefix(sc.op, "append") && strings.HasPrefix(got, "OK") && strings.HasPrefix(after, "OK") {
				// the completed entries followed by a prefix of the batch
				bf, af, gf := strings.Fields(before), strings.Fields(after), strings.Fields(got)
				allowed = len(gf) == 5 && strings.HasPrefix(af[4], gf[4]) && strings.HasPrefix(gf[4], bf[4])
			}
			if !allowed {
				violate("%s kill sweep, %s: the process died on entry to its file-system call number %d (%s, of %d: %s); reopening shows {%s}; before the operation {%s}; after it {%s}",
					map[bool]string{true: "C13", false: "C12"}[strings.HasPrefix(sc.op, "set") || strings.HasPrefix(sc.op, "snap")], sc.name, n+1, name, len(names),
					strings.Join(names, " "), short(got), short(before), short(after))
			}
			g.Kinds["KILL-SWEEP(go only)"]++
			os.RemoveAll(dir)
		}
		os.RemoveAll(base)
	}
}

func main() {
	if len(os.Args) > 2 && os.Args[1] == "-childop" {
		childOp(os.Args[2], os.Args[4])
		return
	}
	seed := flag.Int64("seed", 1, "PRNG seed")
	nprog := flag.Int("programs", 30, "log programs")
	plen := flag.Int("len", 12, "operations per log program")
	allCuts := flag.Bool("allcuts", false, "cut every write at every byte")
	nsnap := flag.Int("snapshots", 12, "snapshots per snapshot program")
	out := flag.String("out", "disk.cases", "case file")
	which := flag.String("which", "log,state,snap", "drivers to run")
	flag.Parse()
	g, err := gen.New(*seed, *out)
	must(err)
	scratch, err = os.MkdirTemp(os.Getenv("VERIF_SCRATCH"), "diskdiff")
	must(err)
	defer os.RemoveAll(scratch)
	if strings.Contains(*which, "log") {
		// short programs with every byte cut, then longer random ones
		for _, sc := range scripts {
			logProgramS(g, 0, *allCuts, sc)
		}
		for i := 0; i < *nprog; i++ {
			logProgram(g, 3, true)
		}
		for i := 0; i < *nprog; i++ {
			logProgram(g, *plen, *allCuts)
		}
	}
	if strings.Contains(*which, "state") {
		for i := 0; i < *nprog/3+1; i++ {
			stateProgram(g, 6)
		}
	}
	if strings.Contains(*which, "snap") {
		snapProgram(g, 3, true)
		snapProgram(g, *nsnap, false)
		if *nsnap < 40 {
			snapProgram(g, 41, false)
		}
	}
	if strings.Contains(*which, "kill") {
		killSweep(g)
	}
	must(g.Close())
	var kinds []string
	for k, v := range g.Kinds {
		kinds = append(kinds, fmt.Sprintf("%s=%d", k, v))
	}
	sort.Strings(kinds)
	fmt.Printf("DISKDIFF cases=%d log_images=%d state_images=%d snap_images=%d node_images=%d kill_runs=%d kill_deaths=%d kinds=%s\n",
		g.Cases, imagesLog, imagesState, imagesSnap, imagesNode, killRuns, killDeaths, strings.Join(kinds, ","))
	if killUnavailable != "" {
		fmt.Printf("NOTE kill sweep incomplete: %s\n", killUnavailable)
	}
	for _, v := range violations {
		fmt.Printf("IMPL-VIOLATION %s\n", v)
	}
	if len(violations) > 0 {
		os.RemoveAll(scratch)
		os.Exit(1)
	}
}
