// d3witness replays on real nodes the schedule of coq/Witness/W_C02_D3.v: a vote-request goroutine
// started by the election of term 1 takes the lock only after the node has started the election of
// term 2; its request is built for term 2, but the grant is added to the counter of term 1.
// Prints IMPL-VIOLATION C02 if two nodes lead the same term.
package main

import (
	"fmt"
	"os"
	"strconv"
	"time"

	raft "github.com/jmsadair/raft"
	"verifharness/sim"
)

func must(err error) {
	if err != nil {
		panic(err)
	}
}

func main() {
	root, err := os.MkdirTemp(os.Getenv("VERIF_SCRATCH"), "d3witness")
	must(err)
	defer os.RemoveAll(root)
	ids := []string{"0", "1", "2", "3", "4"}
	c := sim.NewCluster(root, ids, 4, 2)
	members := map[string]string{}
	voters := map[string]bool{}
	for _, id := range ids {
		members[id] = "addr-" + id
		voters[id] = true
	}
	for _, id := range ids {
		must(c.Open(id))
		n := c.Nodes[id]
		n.Up = true
		n.RegisterHandlers()
		// a bootstrapped follower whose loops are not running: every step is taken by this program
		conf := &raft.Configuration{Members: members, IsVoter: voters, Index: 1}
		data, _ := raft.VerifEncodeConfiguration(conf)
		must(raft.VerifSetState(n.R, raft.VerifNodeState{State: raft.Follower, Configuration: conf,
			Entries: []*raft.LogEntry{raft.NewLogEntry(1, 1, data, raft.ConfigurationEntry)}, ContactAge: 10 * sim.Tick}))
	}
	quiet := func() { must(sim.WaitQuiescent(30 * time.Second)) }
	tick := func() {
		for _, id := range ids {
			raft.VerifShiftClock(c.Nodes[id].R, 10*sim.Tick)
		}
	}
	// roundtrip delivers and answers the live vote request src -> dst
	roundtrip := func(src, dst string) {
		for _, cl := range c.LiveCalls() {
			if cl.Src == src && cl.Dst == dst && cl.Kind == "RV" && !cl.Delivered {
				cl.ID = 0
				c.Deliver(cl, false)
				quiet()
				c.Reply(cl, false)
				quiet()
				fmt.Printf("  %s -> %s %s => %s\n", src, dst, cl.ReqS(), cl.RespS())
				return
			}
		}
		fmt.Printf("  %s -> %s: no vote request was sent\n", src, dst)
	}
	start := func(f func()) { go f(); quiet() }
	status := func(id string) string {
		s := c.Nodes[id].R.Status()
		return fmt.Sprintf("node %s: %s term %d", id, s.State.String(), s.Term)
	}

	n0, n3 := c.Nodes["0"].R, c.Nodes["3"].R
	fmt.Println("node 0: prevote round, all goroutines run, nodes 1 and 2 grant")
	pre0 := raft.VerifElectionHeld(n0)
	for _, id := range []string{"1", "2", "3", "4"} {
		start(pre0[id])
	}
	roundtrip("0", "1")
	roundtrip("0", "2")
	fmt.Println("node 0: election of term 1; only the goroutine for node 1 gets to run")
	round1 := raft.VerifElectionHeld(n0)
	start(round1["1"])
	roundtrip("0", "1")
	fmt.Println(" ", status("0"))
	tick()
	fmt.Println("node 0: times out, election of term 2 (its goroutines stay delayed too)")
	_ = raft.VerifElectionHeld(n0)
	fmt.Println("node 0: the goroutine of the term-1 election for node 2 takes the lock now")
	start(round1["2"])
	roundtrip("0", "2")
	fmt.Println(" ", status("0"))

	fmt.Println("node 3: prevote (1 and 4 grant), election of term 1 never runs its goroutines, election of term 2: 1 and 4 grant")
	pre3 := raft.VerifElectionHeld(n3)
	for _, id := range []string{"0", "1", "2", "4"} {
		start(pre3[id])
	}
	roundtrip("3", "1")
	roundtrip("3", "4")
	_ = raft.VerifElectionHeld(n3)
	tick()
	round2 := raft.VerifElectionHeld(n3)
	start(round2["1"])
	start(round2["4"])
	roundtrip("3", "1")
	roundtrip("3", "4")
	fmt.Println(" ", status("0"))
	fmt.Println(" ", status("3"))
	s0, s3 := n0.Status(), n3.Status()
	if s0.State == raft.Leader && s3.State == raft.Leader && s0.Term == s3.Term {
		fmt.Printf("IMPL-VIOLATION C02 two leaders in term %d: node 0 (elected by its own vote, node 2's term-%d vote and node 1's term-1 vote counted in the same counter) and node 3; schedule: a vote-request goroutine of the term-1 election ran after the term-2 election began\n",
			s0.Term, s0.Term)
		os.Exit(1)
	}
	fmt.Println("D3WITNESS no violation")
	_ = strconv.Itoa
}
