// cosim: drives real *raft.Raft nodes through harness-chosen schedules and
// writes, after every step, what the implementation shows (node dumps, live
// RPCs with requests and responses, resolved futures, FSM apply streams).
// ocaml/modeldrv replays the same labels on the extracted Coq model, compares
// every observation, and runs the property monitors on the implementation's
// own observations.
package main

import (
	"bufio"
	"errors"
	"flag"
	"fmt"
	"math/rand"
	"os"
	"os/exec"
	"sort"
	"strconv"
	"strings"
	"time"

	raft "github.com/jmsadair/raft"
	"verifharness/sim"
)

type pendingFuture struct {
	fid  int
	node string
	inc  int
	op   raft.Future[raft.OperationResponse]
	conf raft.Future[raft.Configuration]
	done bool
	// the node was seen frozen while this future was unresolved
	frozenSeen bool
}

type run struct {
	c       *sim.Cluster
	w       *bufio.Writer
	r       *rand.Rand
	futures []*pendingFuture
	nextFid int
	nextCID int
	step    int
	payload uint64
	hist    map[string]int
	ids     []string
	family  string
}

func (x *run) emit(f string, a ...interface{}) { fmt.Fprintf(x.w, f+"\n", a...) }

func confS(c raft.Configuration) string {
	var ids []int
	for id := range c.Members {
		v, _ := strconv.Atoi(id)
		ids = append(ids, v)
	}
	sort.Ints(ids)
	var p []string
	for _, id := range ids {
		v := "0"
		if c.IsVoter[strconv.Itoa(id)] {
			v = "1"
		}
		p = append(p, fmt.Sprintf("%d:%s", id, v))
	}
	return fmt.Sprintf("%d{%s}", c.Index, strings.Join(p, ","))
}

func resultS(err error, op *raft.OperationResponse, conf *raft.Configuration) string {
	switch {
	case errors.Is(err, raft.ErrNotLeader):
		return "NotLeader"
	case errors.Is(err, raft.ErrInvalidLease):
		return "InvalidLease"
	case errors.Is(err, raft.ErrNoCommitThisTerm):
		return "NoCommit"
	case errors.Is(err, raft.ErrPendingConfiguration):
		return "PendingConf"
	case err != nil:
		return "Err:" + strings.ReplaceAll(err.Error(), " ", "_")
	case op != nil:
		resp, _ := op.ApplicationResponse.(int)
		if op.Operation.OperationType == raft.Replicated {
			return fmt.Sprintf("Op:%d:%d:%d:%d", op.Operation.LogIndex, op.Operation.LogTerm, sim.PayloadOf(op.Operation.Bytes), resp)
		}
		return fmt.Sprintf("Read:%d:%d", sim.PayloadOf(op.Operation.Bytes), resp)
	default:
		return "Conf:" + confS(*conf)
	}
}

// observe writes the observation after a step.
func (x *run) observe() {
	// number new calls canonically
	live := x.c.LiveCalls()
	var fresh []*sim.Call
	for _, cl := range live {
		if cl.ID < 0 {
			fresh = append(fresh, cl)
		}
	}
	sort.Slice(fresh, func(i, j int) bool {
		a, b := fresh[i], fresh[j]
		if a.Src != b.Src {
			return a.Src < b.Src
		}
		if a.Dst != b.Dst {
			return a.Dst < b.Dst
		}
		return a.ReqS() < b.ReqS()
	})
	for _, cl := range fresh {
		cl.ID = x.nextCID
		x.nextCID++
	}
	for _, id := range x.ids {
		n := x.c.Nodes[id]
		if n.Up && n.Store != nil && n.Store.Frozen {
			x.emit("NODE %s frozen", id)
			continue
		}
		x.emit("NODE %s %s", id, x.c.NodeS(id))
	}
	sort.Slice(live, func(i, j int) bool { return live[i].ID < live[j].ID })
	for _, cl := range live {
		st := "P"
		if cl.Waiting && cl.Done {
			st = "Z"
		} else if cl.Waiting {
			st = "W"
		} else if cl.Delivered {
			st = "A"
		}
		x.emit("CALL %d %s %s %s %s => %s", cl.ID, cl.Src, cl.Dst, st, cl.ReqS(), cl.RespS())
	}
	for _, f := range x.futures {
		if f.done {
			continue
		}
		n := x.c.Nodes[f.node]
		if n.Store != nil && n.Store.Frozen && n.Incarnation == f.inc {
			f.frozenSeen = true
			continue
		}
		if n.Incarnation != f.inc && f.frozenSeen {
			// the process froze (and died) in the section that may have answered this future: nobody ever saw it
			f.done = true
			continue
		}
		if f.op != nil {
			if res, ok := raft.VerifPollOperation(f.op); ok {
				f.done = true
				var s string
				if err := res.Error(); err != nil {
					s = resultS(err, nil, nil)
				} else {
					v := res.Success()
					s = resultS(nil, &v, nil)
				}
				x.emit("RESULT %d %s %s", f.fid, f.node, s)
			}
		} else if res, ok := raft.VerifPollConfiguration(f.conf); ok {
			f.done = true
			var s string
			if err := res.Error(); err != nil {
				s = resultS(err, nil, nil)
			} else {
				v := res.Success()
				s = resultS(nil, nil, &v)
			}
			x.emit("RESULT %d %s %s", f.fid, f.node, s)
		}
	}
}

func (x *run) quiesce(label string) bool {
	if err := sim.WaitQuiescent(30 * time.Second); err != nil {
		x.emit("HARNESS-ERROR %s after %s", err, label)
		return false
	}
	return true
}

// do performs one label on the implementation.
func (x *run) do(label string) bool {
	x.step++
	x.hist[strings.Fields(label)[0]]++
	x.emit("STEP %d %s", x.step, label)
	f := strings.Fields(label)
	node := func(i int) *sim.Node { return x.c.Nodes[f[i]] }
	switch f[0] {
	case "TICK":
		dt, _ := strconv.Atoi(f[1])
		for _, id := range x.ids {
			if n := x.c.Nodes[id]; n.Up && !n.Store.Frozen {
				raft.VerifShiftClock(n.R, time.Duration(dt)*sim.Tick)
			}
		}
	case "ELECTION":
		raft.VerifElectionTick(node(1).R)
	case "HEARTBEAT":
		raft.VerifHeartbeat(node(1).R)
	case "SNAPSHOT":
		n := node(1)
		n.FSM.Need = true
		raft.VerifSnapshotTick(n.R)
		if !x.quiesce(label) {
			return false
		}
		n.FSM.Need = false
	case "DELIVER", "DUP":
		id, _ := strconv.Atoi(f[1])
		x.c.Deliver(x.c.Call(id), f[0] == "DUP")
	case "REPLY", "FAIL":
		id, _ := strconv.Atoi(f[1])
		x.c.Reply(x.c.Call(id), f[0] == "FAIL")
	case "SUBMIT", "ADD", "REMOVE":
		// API calls run in their own goroutine: a node frozen at a storage write never returns
		n := node(1)
		pf := &pendingFuture{fid: x.nextFid, node: n.ID, inc: n.Incarnation}
		x.nextFid++
		done := make(chan struct{})
		go func() {
			switch f[0] {
			case "SUBMIT":
				ty, _ := strconv.Atoi(f[2])
				p, _ := strconv.ParseUint(f[3], 10, 64)
				pf.op = sim.SubmitVia(n, sim.PayloadBytes(p), raft.OperationType(ty))
			case "ADD":
				pf.conf = sim.AddVia(n, f[2], f[3] == "1")
			case "REMOVE":
				pf.conf = sim.RemoveVia(n, f[2])
			}
			close(done)
		}()
		if !x.quiesce(label) {
			return false
		}
		if n.Store.Frozen {
			// frozen inside the call (or before it): the future never exists
			select {
			case <-done:
				x.futures = append(x.futures, pf)
			default:
			}
		} else {
			<-done
			x.futures = append(x.futures, pf)
		}
	case "BUDGET":
		k, _ := strconv.Atoi(f[2])
		node(1).Store.SetBudget(k)
	case "PAD":
		k, _ := strconv.Atoi(f[2])
		node(1).FSM.Pad = k
	case "CRASH":
		x.c.Crash(f[1])
	case "RESTART":
		if err := x.c.Open(f[1]); err != nil {
			x.emit("IMPL-VIOLATION C14 NewRaft over the crashed directory of node %s failed: %v", f[1], err)
			return false
		}
		if err := x.c.Start(f[1]); err != nil {
			x.emit("IMPL-VIOLATION C14 Start of node %s failed: %v", f[1], err)
			return false
		}
	default:
		panic("unknown label " + label)
	}
	if !x.quiesce(label) {
		return false
	}
	x.observe()
	return true
}

// ---------------- generator ----------------

func (x *run) upNodes() []string {
	var r []string
	for _, id := range x.ids {
		if n := x.c.Nodes[id]; n.Up && !n.Store.Frozen {
			r = append(r, id)
		}
	}
	return r
}

func (x *run) pick(l []string) string { return l[x.r.Intn(len(l))] }

func (x *run) leaders() []string {
	var r []string
	for _, id := range x.upNodes() {
		if raft.VerifDump(x.c.Nodes[id].R).State == raft.Leader {
			r = append(r, id)
		}
	}
	return r
}

type weights struct {
	deliver, reply, fail, dup, tick, election, heartbeat, submit, read, snapshot, crash, restart, crashin, member int
}

var families = map[string]weights{
	"normal":   {deliver: 40, reply: 40, fail: 2, dup: 1, tick: 4, election: 3, heartbeat: 6, submit: 8, read: 3, snapshot: 0, crash: 0, restart: 0},
	"lossy":    {deliver: 30, reply: 25, fail: 12, dup: 6, tick: 6, election: 6, heartbeat: 6, submit: 8, read: 3},
	"delay":    {deliver: 12, reply: 8, fail: 2, dup: 3, tick: 8, election: 10, heartbeat: 6, submit: 8, read: 3},
	"crash":    {deliver: 30, reply: 30, fail: 4, dup: 2, tick: 5, election: 5, heartbeat: 5, submit: 8, read: 2, crash: 3, restart: 5, crashin: 3},
	"snapshot": {deliver: 35, reply: 35, fail: 4, dup: 2, tick: 4, election: 4, heartbeat: 6, submit: 10, read: 2, snapshot: 5, crash: 2, restart: 4, crashin: 1},
	"bigsnap":  {deliver: 35, reply: 35, fail: 8, dup: 3, tick: 4, election: 4, heartbeat: 8, submit: 8, read: 1, snapshot: 6, crash: 1, restart: 3},
	"timed":    {deliver: 30, reply: 40, fail: 6, dup: 2, tick: 6, election: 8, heartbeat: 8, submit: 8, read: 8, crash: 1, restart: 3},
	"member":   {deliver: 35, reply: 35, fail: 3, dup: 1, tick: 4, election: 4, heartbeat: 6, submit: 6, read: 2, member: 4, crash: 1, restart: 3},
	// membership changes that stay pending: lossy network, frequent elections, snapshots and crashes in between
	"memberx": {deliver: 20, reply: 15, fail: 10, dup: 3, tick: 8, election: 10, heartbeat: 6, submit: 5, read: 1, member: 8, snapshot: 4, crash: 1, restart: 3, crashin: 1},
}

func (x *run) nextLabel(w weights) string {
	live := x.c.LiveCalls()
	var pend, ans []*sim.Call
	var live2 []*sim.Call
	for _, cl := range live {
		if !cl.Done {
			live2 = append(live2, cl)
		}
	}
	live = live2
	for _, cl := range live {
		if cl.Waiting {
			continue
		}
		if cl.Delivered {
			ans = append(ans, cl)
		} else {
			pend = append(pend, cl)
		}
	}
	up := x.upNodes()
	var down []string
	for _, id := range x.ids {
		if !x.c.Nodes[id].Up {
			down = append(down, id)
		}
	}
	type cand struct {
		w int
		f func() string
	}
	var cs []cand
	add := func(w int, f func() string) {
		if w > 0 {
			cs = append(cs, cand{w, f})
		}
	}
	if len(pend) > 0 {
		add(w.deliver, func() string { return fmt.Sprintf("DELIVER %d", pend[x.r.Intn(len(pend))].ID) })
	}
	if len(ans) > 0 {
		add(w.reply, func() string { return fmt.Sprintf("REPLY %d", ans[x.r.Intn(len(ans))].ID) })
	}
	if len(live) > 0 {
		add(w.fail, func() string { return fmt.Sprintf("FAIL %d", live[x.r.Intn(len(live))].ID) })
		add(w.dup, func() string { return fmt.Sprintf("DUP %d", live[x.r.Intn(len(live))].ID) })
	}
	tickOK := true
	if x.family == "timed" {
		// the timing assumption of lease reads: no time passes between an AppendEntries being
		// handled by a follower and its reply being processed by the leader
		for _, cl := range ans {
			if cl.Kind == "AE" {
				tickOK = false
			}
		}
	}
	if tickOK {
		add(w.tick, func() string { return fmt.Sprintf("TICK %d", 1+x.r.Intn(x.c.ET+1)) })
	}
	if len(up) > 0 {
		add(w.election, func() string { return "ELECTION " + x.pick(up) })
		add(w.heartbeat, func() string {
			if l := x.leaders(); len(l) > 0 && x.r.Intn(5) > 0 {
				return "HEARTBEAT " + x.pick(l)
			}
			return "HEARTBEAT " + x.pick(up)
		})
		target := func() string {
			if l := x.leaders(); len(l) > 0 && x.r.Intn(6) > 0 {
				return x.pick(l)
			}
			return x.pick(up)
		}
		add(w.submit, func() string { x.payload++; return fmt.Sprintf("SUBMIT %s 0 %d", target(), x.payload) })
		add(w.read, func() string { x.payload++; return fmt.Sprintf("SUBMIT %s %d %d", target(), 1+x.r.Intn(2), x.payload) })
		add(w.snapshot, func() string { return "SNAPSHOT " + x.pick(up) })
		add(w.crash, func() string { return "CRASH " + x.pick(up) })
		add(w.crashin, func() string { return fmt.Sprintf("BUDGET %s %d", x.pick(up), x.r.Intn(3)) })
		add(w.member, func() string {
			l := target()
			id := strconv.Itoa(x.r.Intn(len(x.ids) + 1))
			if x.r.Intn(3) == 0 {
				return fmt.Sprintf("REMOVE %s %s", l, id)
			}
			return fmt.Sprintf("ADD %s %s %d", l, id, x.r.Intn(2))
		})
	}
	if len(down) > 0 {
		add(w.restart, func() string { return "RESTART " + x.pick(down) })
	}
	total := 0
	for _, c := range cs {
		total += c.w
	}
	k := x.r.Intn(total)
	for _, c := range cs {
		if k < c.w {
			return c.f()
		}
		k -= c.w
	}
	return "TICK 1"
}

// drain delivers and answers everything outstanding a few rounds: a fault-free stretch.
func (x *run) drain(rounds int) bool {
	for i := 0; i < rounds; i++ {
		live := x.c.LiveCalls()
		if len(live) == 0 {
			return true
		}
		for _, cl := range live {
			if cl.Done || cl.Waiting {
				continue
			}
			cl := cl
			if !cl.Delivered {
				if !x.do(fmt.Sprintf("DELIVER %d", cl.ID)) {
					return false
				}
			}
			if cl.Delivered && !cl.Done {
				if !x.do(fmt.Sprintf("REPLY %d", cl.ID)) {
					return false
				}
			}
		}
	}
	return true
}

func main() {
	seed := flag.Int64("seed", 1, "PRNG seed")
	traces := flag.Int("traces", 10, "number of traces")
	steps := flag.Int("steps", 150, "labels per trace")
	out := flag.String("out", "cosim.trace", "trace file")
	fam := flag.String("families", "normal,lossy,delay,crash,snapshot,timed,bigsnap,member,memberx", "scenario families")
	replay := flag.String("replay", "", "replay the labels of this trace file instead of generating")
	one := flag.Int("one", -1, "child mode: generate only trace number N")
	workers := flag.Int("workers", 14, "parallel child processes")
	maxTime := flag.Duration("maxtime", 20*time.Minute, "watchdog: exit 3 after this long")
	flag.Parse()
	go func() {
		time.Sleep(*maxTime)
		fmt.Println("HARNESS-ERROR watchdog: cosim ran longer than", *maxTime)
		os.Exit(3)
	}()
	if *one < 0 && *replay == "" {
		parent(*seed, *traces, *steps, *out, *fam, *workers, *maxTime)
		return
	}
	f, err := os.Create(*out)
	if err != nil {
		panic(err)
	}
	defer f.Close()
	w := bufio.NewWriterSize(f, 1<<20)
	defer w.Flush()
	root, err := os.MkdirTemp(os.Getenv("VERIF_SCRATCH"), "cosim")
	if err != nil {
		panic(err)
	}
	defer os.RemoveAll(root)
	fams := strings.Split(*fam, ",")
	hist := map[string]int{}
	famHist := map[string]int{}
	total := 0
	if *replay != "" {
		replayFile(*replay, w, root)
		return
	}
	for t := 0; t < *traces; t++ {
		if *one >= 0 && t != *one {
			continue
		}
		r := rand.New(rand.NewSource(*seed*1000003 + int64(t)))
		family := fams[t%len(fams)]
		nn := 3
		if r.Intn(3) == 0 {
			nn = 5
		}
		if r.Intn(8) == 0 {
			nn = 1 + r.Intn(2)
		}
		var ids []string
		for i := 0; i < nn; i++ {
			ids = append(ids, strconv.Itoa(i))
		}
		spare := 0
		if family == "member" || family == "memberx" {
			spare = 1
		}
		x := newRun(w, r, fmt.Sprintf("%s/t%d", root, t), ids, spare, family, hist)
		if x == nil {
			continue
		}
		famHist[family]++
		ok := true
		if family == "bigsnap" {
			for _, id := range x.ids {
				ok = ok && x.do(fmt.Sprintf("PAD %s %d", id, []int{32756, 32760, 32764, 32768, 32772, 65528, 65536}[r.Intn(7)]))
			}
		}
		// warm-up: let somebody win an election most of the time
		if r.Intn(4) > 0 {
			ok = x.do(fmt.Sprintf("TICK %d", x.c.ET)) && x.do("ELECTION "+x.pick(x.ids[:nn])) && x.drain(3)
		}
		wts := families[family]
		for i := 0; ok && i < *steps; i++ {
			l := x.nextLabel(wts)
			ok = x.do(l)
			if ok && strings.HasPrefix(l, "BUDGET") {
				// act on that node, then kill it
				n := strings.Fields(l)[1]
				ok = x.actOn(n) && x.do("CRASH "+n)
			}
		}
		// fault-free tail
		if ok {
			x.tail()
		}
		x.emit("END")
		total += x.step
		w.Flush()
	}
	var hs []string
	for k, v := range hist {
		hs = append(hs, fmt.Sprintf("%s=%d", k, v))
	}
	sort.Strings(hs)
	var fh []string
	for k, v := range famHist {
		fh = append(fh, fmt.Sprintf("%s=%d", k, v))
	}
	sort.Strings(fh)
	fmt.Printf("COSIM traces=%d steps=%d families=%s labels=%s\n", *traces, total, strings.Join(fh, ","), strings.Join(hs, ","))
}

// parent runs every trace in its own child process (a Fatal/panic of the library kills only that
// child and is reported as a violation; goroutines of finished traces do not pile up).
func parent(seed int64, traces, steps int, out, fam string, workers int, maxTime time.Duration) {
	type res struct {
		t    int
		body []byte
		line string
	}
	self, _ := os.Executable()
	dir, err := os.MkdirTemp(os.Getenv("VERIF_SCRATCH"), "cosimparts")
	if err != nil {
		panic(err)
	}
	defer os.RemoveAll(dir)
	jobs := make(chan int)
	results := make(chan res)
	for i := 0; i < workers; i++ {
		go func() {
			for t := range jobs {
				part := fmt.Sprintf("%s/%d.trace", dir, t)
				cmd := exec.Command(self, "-seed", fmt.Sprint(seed), "-traces", fmt.Sprint(traces), "-steps", fmt.Sprint(steps),
					"-families", fam, "-one", fmt.Sprint(t), "-out", part, "-maxtime", maxTime.String())
				ob, err := cmd.CombinedOutput()
				body, _ := os.ReadFile(part)
				os.Remove(part)
				if err != nil {
					tail := string(ob)
					if len(tail) > 1500 {
						tail = tail[len(tail)-1500:]
					}
					tail = strings.ReplaceAll(tail, "\n", " | ")
					msg := fmt.Sprintf("the process running trace %d (seed %d) died: %v: %s", t, seed, err, tail)
					body = append(body, []byte("IMPL-VIOLATION C18 "+msg+"\nIMPL-VIOLATION C14 "+msg+"\nEND\n")...)
				}
				line := ""
				for _, l := range strings.Split(string(ob), "\n") {
					if strings.HasPrefix(l, "COSIM") {
						line = l
					}
				}
				results <- res{t, body, line}
			}
		}()
	}
	go func() {
		for t := 0; t < traces; t++ {
			jobs <- t
		}
		close(jobs)
	}()
	parts := make([][]byte, traces)
	hist := map[string]int{}
	totalSteps := 0
	for i := 0; i < traces; i++ {
		r := <-results
		parts[r.t] = r.body
		for _, kvs := range strings.Fields(r.line) {
			if strings.HasPrefix(kvs, "steps=") {
				v, _ := strconv.Atoi(strings.TrimPrefix(kvs, "steps="))
				totalSteps += v
			}
			if strings.HasPrefix(kvs, "labels=") || strings.HasPrefix(kvs, "families=") {
				for _, kv := range strings.Split(kvs[strings.IndexByte(kvs, '=')+1:], ",") {
					if j := strings.IndexByte(kv, '='); j > 0 {
						v, _ := strconv.Atoi(kv[j+1:])
						hist[kvs[:strings.IndexByte(kvs, '=')]+":"+kv[:j]] += v
					}
				}
			}
		}
	}
	f, err := os.Create(out)
	if err != nil {
		panic(err)
	}
	for _, p := range parts {
		f.Write(p)
	}
	f.Close()
	var hs []string
	for k, v := range hist {
		hs = append(hs, fmt.Sprintf("%s=%d", k, v))
	}
	sort.Strings(hs)
	fmt.Printf("COSIM traces=%d steps=%d %s\n", traces, totalSteps, strings.Join(hs, ","))
}

func newRun(w *bufio.Writer, r *rand.Rand, root string, ids []string, spare int, family string, hist map[string]int) *run {
	all := append([]string{}, ids...)
	for i := 0; i < spare; i++ {
		all = append(all, strconv.Itoa(len(ids)+i))
	}
	c := sim.NewCluster(root, all, 4, 2)
	x := &run{c: c, w: w, r: r, hist: hist, ids: all, family: family}
	x.emit("TRACE family=%s ids=%s boot=%s et=%d ld=%d", family, strings.Join(all, ","), strings.Join(ids, ","), c.ET, c.LD)
	for _, id := range all {
		if err := c.Open(id); err != nil {
			x.emit("HARNESS-ERROR open %s: %v", id, err)
			return nil
		}
	}
	for _, id := range ids {
		if err := c.Bootstrap(id, ids); err != nil {
			x.emit("HARNESS-ERROR bootstrap %s: %v", id, err)
			return nil
		}
	}
	for _, id := range all {
		if err := c.Start(id); err != nil {
			x.emit("HARNESS-ERROR start %s: %v", id, err)
			return nil
		}
	}
	if !x.quiesce("init") {
		return nil
	}
	x.emit("STEP 0 INIT")
	x.observe()
	return x
}

// actOn performs one action whose storage writes happen on node n.
func (x *run) actOn(n string) bool {
	live := x.c.LiveCalls()
	var opts []string
	for _, cl := range live {
		if cl.Waiting {
			continue
		}
		if cl.Dst == n && !cl.Delivered {
			opts = append(opts, fmt.Sprintf("DELIVER %d", cl.ID))
		}
		if cl.Src == n && cl.Delivered {
			opts = append(opts, fmt.Sprintf("REPLY %d", cl.ID))
		}
	}
	x.payload++
	opts = append(opts, fmt.Sprintf("SUBMIT %s 0 %d", n, x.payload), "ELECTION "+n)
	if families[x.family].snapshot > 0 {
		// the crash point may fall between the storage writes of takeSnapshot
		opts = append(opts, "SNAPSHOT "+n, "SNAPSHOT "+n)
	}
	return x.do(x.pick(opts))
}

// tail: no more faults; restart everybody, elect, replicate, and let everything drain.
func (x *run) tail() {
	for _, id := range x.ids {
		if n := x.c.Nodes[id]; n.Up && n.Store.Frozen {
			if !x.do("CRASH " + id) {
				return
			}
		}
	}
	for _, id := range x.ids {
		if !x.c.Nodes[id].Up {
			if !x.do("RESTART " + id) {
				return
			}
		}
	}
	for attempt := 0; attempt < 5; attempt++ {
		// fair round-robin: every running voter gets its election timer in turn until somebody leads
		for round := 0; round < 12; round++ {
			if !x.drain(8) {
				return
			}
			if len(x.leaders()) == 1 {
				break
			}
			up := x.upNodes()
			if len(up) == 0 {
				return
			}
			if !x.do(fmt.Sprintf("TICK %d", x.c.ET)) || !x.do("ELECTION "+up[(round+attempt)%len(up)]) {
				return
			}
		}
		stable := true
		for round := 0; round < 3 && stable; round++ {
			l := x.leaders()
			if len(l) != 1 {
				stable = false
				break
			}
			x.payload++
			if !x.do(fmt.Sprintf("SUBMIT %s 0 %d", l[0], x.payload)) || !x.drain(8) || !x.do("HEARTBEAT "+l[0]) || !x.drain(8) {
				return
			}
		}
		if stable && len(x.leaders()) == 1 {
			break
		}
	}
	x.drain(6)
	x.emit("TAIL")
}

// resolve turns a symbolic call reference "@KIND:src>dst" (oldest live call of that kind and
// direction in the state the label needs; KIND = AE, RV, PV (prevote), IS or *) into its id.
func (x *run) resolve(f []string) (string, bool) {
	if len(f) < 2 || !strings.HasPrefix(f[1], "@") {
		return strings.Join(f, " "), true
	}
	ref := f[1][1:]
	newest := strings.HasSuffix(ref, "!")
	ref = strings.TrimSuffix(ref, "!")
	found := ""
	kind, dir := "*", ref
	if i := strings.IndexByte(ref, ':'); i >= 0 {
		kind, dir = ref[:i], ref[i+1:]
	}
	sd := strings.Split(dir, ">")
	if len(sd) != 2 {
		return "", false
	}
	for _, cl := range x.c.LiveCalls() {
		if cl.Src != sd[0] || cl.Dst != sd[1] {
			continue
		}
		k := cl.Kind
		if k == "RV" && cl.RV.Prevote {
			k = "PV"
		}
		if kind != "*" && kind != k {
			continue
		}
		switch f[0] {
		case "DELIVER":
			if cl.Delivered || cl.Waiting {
				continue
			}
		case "REPLY":
			if !cl.Delivered {
				continue
			}
		}
		found = fmt.Sprintf("%s %d", f[0], cl.ID)
		if !newest {
			return found, true
		}
	}
	return found, found != ""
}

func replayFile(path string, w *bufio.Writer, root string) {
	b, err := os.ReadFile(path)
	if err != nil {
		panic(err)
	}
	var x *run
	hist := map[string]int{}
	t := 0
	for _, line := range strings.Split(string(b), "\n") {
		f := strings.Fields(line)
		if len(f) == 0 {
			continue
		}
		switch f[0] {
		case "TRACE":
			kv := map[string]string{}
			for _, p := range f[1:] {
				if i := strings.IndexByte(p, '='); i > 0 {
					kv[p[:i]] = p[i+1:]
				}
			}
			all := strings.Split(kv["ids"], ",")
			boot := strings.Split(kv["boot"], ",")
			t++
			x = newRun(w, rand.New(rand.NewSource(1)), fmt.Sprintf("%s/r%d", root, t), boot, len(all)-len(boot), kv["family"], hist)
		case "STEP":
			if x != nil && f[2] != "INIT" {
				optional := strings.HasPrefix(f[2], "?") // "?REPLY @IS:1>0": skip the step if no such call is live
				f[2] = strings.TrimPrefix(f[2], "?")
				l, ok := x.resolve(f[2:])
				if !ok && (f[2] == "FAIL" || optional) {
					continue // nothing left to fail / optional step
				}
				if !ok {
					x.emit("HARNESS-ERROR script refers to a call that does not exist: %s", strings.Join(f[2:], " "))
					x = nil
				} else if !x.do(l) {
					x = nil
				}
			}
		case "END", "TAILEND":
			if x != nil {
				if f[0] == "TAILEND" {
					x.tail() // the fault-free period the liveness monitors (C15) look at
				}
				x.emit("END")
			}
			x = nil
		}
	}
	w.Flush()
}
