// fsmrace: real nodes with a state machine whose Apply / Snapshot / Restore calls can be held at their
// very beginning (a slow state machine).  The library calls them with its lock released; C10 demands that
// a snapshot labelled i holds exactly the operations up to i and that no operation is applied twice.
//
//	scenario snapshot-vs-apply (D8): takeSnapshot has chosen its label (lastApplied = k) and is inside
//	   fsm.Snapshot when applyLoop applies operation k+1; the snapshot is written afterwards.  The node is
//	   restarted: restore + replay of the entries after the label must give every operation once.
//	scenario restore-vs-apply (D9): a follower is inside fsm.Apply(k) when a snapshot covering k is installed
//	   (fsm.Restore); the held Apply then completes.  Operation k must be in the state machine once.
package main

import (
	"fmt"
	"os"
	"time"

	raft "github.com/jmsadair/raft"
	"verifharness/sim"
)

func must(err error) {
	if err != nil {
		panic(err)
	}
}

func quiet() { must(sim.WaitQuiescent(10 * time.Second)) }

func elect(c *sim.Cluster, id string) {
	quiet() // the loops of freshly started nodes must have reached their waits
	for _, n := range c.Nodes {
		if n.Up {
			raft.VerifShiftClock(n.R, 10*sim.Tick)
		}
	}
	raft.VerifElectionTick(c.Nodes[id].R)
	quiet()
	pump(c)
}

// pump delivers and answers every live call until nothing moves
func pump(c *sim.Cluster) {
	for round := 0; round < 50; round++ {
		moved := false
		for _, cl := range c.LiveCalls() {
			if !cl.Delivered && !cl.Waiting {
				c.Deliver(cl, false)
				quiet()
				moved = true
			}
		}
		for _, cl := range c.LiveCalls() {
			if cl.Delivered && !cl.Waiting {
				c.Reply(cl, false)
				quiet()
				moved = true
			}
		}
		if !moved {
			return
		}
	}
}

func submit(c *sim.Cluster, id string, v uint64) {
	go sim.SubmitVia(c.Nodes[id], sim.PayloadBytes(v), raft.Replicated)
	quiet()
}

func dup(ops []uint64) (uint64, bool) {
	seen := map[uint64]bool{}
	for _, o := range ops {
		if seen[o] {
			return o, true
		}
		seen[o] = true
	}
	return 0, false
}

func snapshotVsApply(root string) (bool, string) {
	c := sim.NewCluster(root, []string{"0"}, 4, 2)
	must(c.Open("0"))
	must(c.Bootstrap("0", []string{"0"}))
	must(c.Start("0"))
	n := c.Nodes["0"]
	elect(c, "0")
	submit(c, "0", 1)
	submit(c, "0", 2)
	if len(n.FSM.Ops) != 2 {
		fmt.Println(c.NodeS("0"))
		return false, fmt.Sprintf("setup: state machine holds %v after two operations", n.FSM.Ops)
	}
	// the snapshot: label chosen (lastApplied), file created, fsm.Snapshot entered and held
	n.FSM.Close("Snapshot")
	n.FSM.Need = true
	raft.VerifSnapshotTick(n.R)
	quiet()
	n.FSM.Need = false
	// meanwhile the next operation is committed and applied
	submit(c, "0", 3)
	applied := append([]uint64{}, n.FSM.Ops...)
	// the slow Snapshot call now writes the state
	n.FSM.Open("Snapshot")
	quiet()
	d := raft.VerifDump(n.R)
	// restart: restore from the snapshot, replay what follows its label
	c.Crash("0")
	must(c.Open("0"))
	must(c.Start("0"))
	n = c.Nodes["0"]
	elect(c, "0")
	submit(c, "0", 4)
	if o, bad := dup(n.FSM.Ops); bad {
		return false, fmt.Sprintf("operation %d is in the state machine twice after restore+replay: %v (before the snapshot completed the state machine held %v; the snapshot is labelled index %d)",
			o, n.FSM.Ops, applied, d.LastIncludedIndex)
	}
	return true, fmt.Sprintf("state machine after restart %v", n.FSM.Ops)
}

func restoreVsApply(root string) (bool, string) {
	ids := []string{"0", "1", "2"}
	c := sim.NewCluster(root, ids, 4, 2)
	for _, id := range ids {
		must(c.Open(id))
		must(c.Bootstrap(id, ids))
		must(c.Start(id))
	}
	elect(c, "0")
	submit(c, "0", 1)
	pump(c)
	// node 2 is slow: its Apply of operation 2 is held; nodes 0 and 1 go on
	f2 := c.Nodes["2"].FSM
	f2.Close("Apply")
	submit(c, "0", 2)
	pump(c)
	raft.VerifHeartbeat(c.Nodes["0"].R) // carries the commit index to the followers
	quiet()
	pump(c)
	submit(c, "0", 3)
	// keep node 2 out of the replication of operation 3 so that it needs the snapshot
	for round := 0; round < 6; round++ {
		for _, cl := range c.LiveCalls() {
			if cl.Dst == "2" {
				c.Reply(cl, true)
				quiet()
			} else if !cl.Delivered {
				c.Deliver(cl, false)
				quiet()
			} else {
				c.Reply(cl, false)
				quiet()
			}
		}
	}
	// leader snapshots (index covers 2 and 3) and compacts; node 2's nextIndex falls behind it
	n0 := c.Nodes["0"]
	n0.FSM.Need = true
	raft.VerifSnapshotTick(n0.R)
	quiet()
	n0.FSM.Need = false
	for i := 0; i < 4; i++ {
		raft.VerifHeartbeat(n0.R)
		quiet()
		pump(c)
	}
	if os.Getenv("FSMRACE_DEBUG") != "" {
		for _, id := range ids {
			fmt.Println(id, c.NodeS(id))
		}
		for _, cl := range c.LiveCalls() {
			fmt.Println("call", cl.Src, cl.Dst, cl.Kind, cl.Delivered, cl.Waiting, cl.ReqS(), cl.RespS())
		}
	}
	during := append([]uint64{}, f2.Ops...)
	// the held Apply(2) of node 2 completes now
	f2.Open("Apply")
	quiet()
	for i := 0; i < 3; i++ {
		raft.VerifHeartbeat(n0.R)
		quiet()
		pump(c)
	}
	if o, bad := dup(f2.Ops); bad {
		return false, fmt.Sprintf("operation %d is in node 2's state machine twice: %v (restored to %v while its Apply call was in flight; restores=%d)", o, f2.Ops, during, f2.Restores)
	}
	return true, fmt.Sprintf("node 2 state machine %v restores=%d", f2.Ops, f2.Restores)
}

// applyVsSnapshot: the snapshot loop wakes while applyLoop is inside a slow fsm.Apply(k).  The snapshot that is
// taken afterwards must be labelled with what the state machine then contains; after a restart every operation is
// in the state machine once.
func applyVsSnapshot(root string) (bool, string) {
	c := sim.NewCluster(root, []string{"0"}, 4, 2)
	must(c.Open("0"))
	must(c.Bootstrap("0", []string{"0"}))
	must(c.Start("0"))
	n := c.Nodes["0"]
	elect(c, "0")
	submit(c, "0", 1)
	// operation 2 is being applied (slowly) when the snapshot loop is woken
	n.FSM.Close("Apply")
	submit(c, "0", 2)
	n.FSM.Need = true
	raft.VerifSnapshotTick(n.R)
	quiet()
	n.FSM.Open("Apply")
	quiet()
	n.FSM.Need = false
	d := raft.VerifDump(n.R)
	before := append([]uint64{}, n.FSM.Ops...)
	c.Crash("0")
	must(c.Open("0"))
	must(c.Start("0"))
	n = c.Nodes["0"]
	elect(c, "0")
	submit(c, "0", 3)
	if o, bad := dup(n.FSM.Ops); bad {
		return false, fmt.Sprintf("operation %d is in the state machine twice after restore+replay: %v (state machine before the restart %v; snapshot labelled index %d)",
			o, n.FSM.Ops, before, d.LastIncludedIndex)
	}
	if len(n.FSM.Ops) != 3 {
		return false, fmt.Sprintf("state machine after restart holds %v, expected operations 1 2 3", n.FSM.Ops)
	}
	return true, fmt.Sprintf("state machine after restart %v (snapshot labelled index %d)", n.FSM.Ops, d.LastIncludedIndex)
}

// appendDuringRestore: a follower is inside a slow fsm.Restore of a received snapshot (lock released) when an older
// AppendEntries request of the same leader - built before the leader compacted - arrives.  Whatever the follower
// acknowledges must still be in its log when the installation has finished.
func appendDuringRestore(root string) (bool, string) {
	ids := []string{"0", "1", "2"}
	c := sim.NewCluster(root, ids, 4, 2)
	for _, id := range ids {
		must(c.Open(id))
		must(c.Bootstrap(id, ids))
		must(c.Start(id))
	}
	elect(c, "0")
	submit(c, "0", 1)
	pump(c)
	raft.VerifHeartbeat(c.Nodes["0"].R)
	quiet()
	pump(c)
	n0, n2 := c.Nodes["0"], c.Nodes["2"]
	// operations 2 and 3: node 1 replicates them; the requests to node 2 stay in the network
	var held []*sim.Call
	deliverExcept2 := func() {
		for round := 0; round < 6; round++ {
			for _, cl := range c.LiveCalls() {
				if cl.Dst == "2" {
					if !cl.Delivered {
						seen := false
						for _, h := range held {
							seen = seen || h == cl
						}
						if !seen {
							held = append(held, cl)
						}
					}
					continue
				}
				if !cl.Delivered {
					c.Deliver(cl, false)
				} else {
					c.Reply(cl, false)
				}
				quiet()
			}
		}
	}
	submit(c, "0", 2)
	deliverExcept2()
	submit(c, "0", 3)
	deliverExcept2()
	// pick the held request that carries both operations (prev = node 2's last index)
	var x *sim.Call
	for _, h := range held {
		if h.Kind == "AE" && len(h.AE.Entries) >= 2 {
			x = h
		}
	}
	if x == nil {
		return false, "setup: no held AppendEntries request carries operations 2 and 3"
	}
	// the leader snapshots and compacts; the other held requests are lost
	n0.FSM.Need = true
	raft.VerifSnapshotTick(n0.R)
	quiet()
	n0.FSM.Need = false
	for _, h := range held {
		if h != x {
			c.Reply(h, true)
			quiet()
		}
	}
	// the snapshot reaches node 2, whose Restore is slow
	n2.FSM.Close("Restore")
	raft.VerifHeartbeat(n0.R)
	quiet()
	for _, cl := range c.LiveCalls() {
		if cl.Dst == "2" && cl.Kind == "IS" && !cl.Delivered {
			c.Deliver(cl, false)
			quiet()
			break
		}
	}
	// now the old request arrives
	c.Deliver(x, false)
	quiet()
	acked := false
	if r, ok := x.Resp.(raft.AppendEntriesResponse); ok && x.Delivered && !x.Waiting {
		acked = r.Success
	}
	top := x.AE.PrevLogIndex + uint64(len(x.AE.Entries))
	n2.FSM.Open("Restore")
	quiet()
	d := raft.VerifDump(n2.R)
	last := n2.Store.Log().LastIndex()
	if acked && last < top {
		return false, fmt.Sprintf("node 2 acknowledged an AppendEntries request up to index %d while it was restoring a snapshot, and its log ends at index %d after the installation (snapshot boundary %d): acknowledged entries were discarded",
			top, last, d.LastIncludedIndex)
	}
	return true, fmt.Sprintf("old request acknowledged=%v, node 2 log ends at %d, snapshot boundary %d", acked, last, d.LastIncludedIndex)
}

// localSnapshotVsInstall: a follower has received the first chunk of a two-chunk snapshot (file created) when it
// starts a local snapshot of its own, older state (file created later, Snapshot call slow); the final chunk arrives
// and the received snapshot is complete before the local one.  The node must end up with the received state.
func localSnapshotVsInstall(root string) (bool, string) {
	ids := []string{"0", "1", "2"}
	c := sim.NewCluster(root, ids, 4, 2)
	for _, id := range ids {
		must(c.Open(id))
		must(c.Bootstrap(id, ids))
		must(c.Start(id))
	}
	c.Nodes["0"].FSM.Pad = 32768
	elect(c, "0")
	submit(c, "0", 1)
	pump(c)
	raft.VerifHeartbeat(c.Nodes["0"].R)
	quiet()
	pump(c)
	// node 2 misses operations 2 and 3
	except2 := func() {
		for round := 0; round < 6; round++ {
			for _, cl := range c.LiveCalls() {
				if cl.Dst == "2" {
					c.Reply(cl, true)
				} else if !cl.Delivered {
					c.Deliver(cl, false)
				} else {
					c.Reply(cl, false)
				}
				quiet()
			}
		}
	}
	submit(c, "0", 2)
	except2()
	submit(c, "0", 3)
	except2()
	n0, n2 := c.Nodes["0"], c.Nodes["2"]
	n0.FSM.Need = true
	raft.VerifSnapshotTick(n0.R)
	quiet()
	n0.FSM.Need = false
	// first chunk of the leader's snapshot reaches node 2
	step := func() bool {
		raft.VerifHeartbeat(n0.R)
		quiet()
		moved := false
		for _, cl := range c.LiveCalls() {
			if cl.Dst == "2" && cl.Kind == "IS" && !cl.Delivered {
				c.Deliver(cl, false)
				quiet()
				if !cl.Waiting {
					c.Reply(cl, false)
					quiet()
				}
				moved = true
				break
			}
		}
		for _, cl := range c.LiveCalls() {
			if cl.Dst == "2" && cl.Kind != "IS" {
				c.Reply(cl, true)
				quiet()
			}
		}
		return moved
	}
	if !step() {
		return false, "setup: the leader sent no snapshot chunk to node 2"
	}
	d := raft.VerifDump(n2.R)
	if !d.PartialOpen {
		return false, "setup: node 2 holds no partially received snapshot after the first chunk"
	}
	// node 2 starts a local snapshot of its own (older) state; its Snapshot call is slow
	n2.FSM.Close("Snapshot")
	n2.FSM.Need = true
	raft.VerifSnapshotTick(n2.R)
	quiet()
	n2.FSM.Need = false
	// the final chunk arrives while the local snapshot is still being written
	step()
	n2.FSM.Open("Snapshot")
	quiet()
	for i := 0; i < 3; i++ {
		raft.VerifHeartbeat(n0.R)
		quiet()
		pump(c)
	}
	submit(c, "0", 4)
	for i := 0; i < 3; i++ {
		pump(c)
		raft.VerifHeartbeat(n0.R)
		quiet()
	}
	pump(c)
	want, got := fmt.Sprint(n0.FSM.Ops), fmt.Sprint(n2.FSM.Ops)
	d = raft.VerifDump(n2.R)
	if got != want {
		return false, fmt.Sprintf("node 2's state machine holds %s, the leader's %s (node 2: lastApplied %d, snapshot boundary %d, restores %d): it restored its own older snapshot under the label of the received one",
			got, want, d.LastApplied, d.LastIncludedIndex, n2.FSM.Restores)
	}
	return true, fmt.Sprintf("node 2 state machine %s restores=%d", got, n2.FSM.Restores)
}

func main() {
	root, err := os.MkdirTemp(os.Getenv("VERIF_SCRATCH"), "fsmrace")
	must(err)
	defer os.RemoveAll(root)
	bad := 0
	for _, sc := range []struct {
		name string
		f    func(string) (bool, string)
	}{{"snapshot-vs-apply", snapshotVsApply}, {"restore-vs-apply", restoreVsApply},
		{"local-snapshot-vs-install", localSnapshotVsInstall}, {"apply-vs-snapshot", applyVsSnapshot},
		{"append-during-restore", appendDuringRestore}} {
		ok, what := sc.f(root + "/" + sc.name)
		if ok {
			fmt.Printf("FSMRACE %s ok: %s\n", sc.name, what)
		} else {
			bad++
			fmt.Printf("IMPL-VIOLATION C10 [%s] %s\n", sc.name, what)
			// a node that stops applying with no further fault is also a liveness failure
			fmt.Printf("IMPL-VIOLATION C15 [%s] %s\n", sc.name, what)
			// ... and an operation applied twice or skipped breaks "every submission is applied at most once", with
			// later futures returning results that match no linearization
			fmt.Printf("IMPL-VIOLATION C03 [%s] %s\n", sc.name, what)
			if sc.name == "append-during-restore" {
				// acknowledged entries that are discarded: the leader counts them towards a quorum that does not exist
				fmt.Printf("IMPL-VIOLATION C01 [%s] %s\n", sc.name, what)
				fmt.Printf("IMPL-VIOLATION C04 [%s] %s\n", sc.name, what)
			}
		}
	}
	fmt.Printf("FSMRACE scenarios=5 violations=%d\n", bad)
	if bad > 0 {
		os.Exit(1)
	}
}
