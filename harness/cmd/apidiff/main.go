// apidiff (C18): bounded programs of public API calls on real nodes with real (short) timers, each in its
// own child process under a watchdog. A panic, a process exit (logger.Fatal), a hang, a future that does
// not resolve by its timeout, or a committed membership change whose future is not answered with the new
// configuration is reported with the program as replay.
package main

import (
	"errors"
	"flag"
	"fmt"
	"io"
	"math/rand"
	"os"
	"os/exec"
	"strconv"
	"strings"
	"sync"
	"time"

	raft "github.com/jmsadair/raft"
	"github.com/jmsadair/raft/logging"
)

// ---- a direct in-process transport: Send* calls the destination's handler ----
type net struct {
	mu    sync.Mutex
	nodes map[string]*direct
	held  chan struct{} // non-nil: requests sent by node 0 are held back (a slow or silent network) until released
	cut   bool          // node 0 is partitioned away: every request from or to it fails
}

// hold blocks the calling sender goroutine while the network holds node 0's requests
func (n *net) hold(from string) {
	n.mu.Lock()
	h := n.held
	n.mu.Unlock()
	if h != nil && from == "a0" {
		<-h
	}
}

type direct struct {
	n    *net
	addr string
	up   bool
	ae   func(*raft.AppendEntriesRequest, *raft.AppendEntriesResponse) error
	rv   func(*raft.RequestVoteRequest, *raft.RequestVoteResponse) error
	is   func(*raft.InstallSnapshotRequest, *raft.InstallSnapshotResponse) error
}

func (d *direct) Run() error      { d.n.mu.Lock(); d.up = true; d.n.mu.Unlock(); return nil }
func (d *direct) Shutdown() error { d.n.mu.Lock(); d.up = false; d.n.mu.Unlock(); return nil }
func (d *direct) Address() string { return d.addr }
func (d *direct) RegisterAppendEntriesHandler(h func(*raft.AppendEntriesRequest, *raft.AppendEntriesResponse) error) {
	d.ae = h
}
func (d *direct) RegisterRequestVoteHandler(h func(*raft.RequestVoteRequest, *raft.RequestVoteResponse) error) {
	d.rv = h
}
func (d *direct) RegsiterInstallSnapshotHandler(h func(*raft.InstallSnapshotRequest, *raft.InstallSnapshotResponse) error) {
	d.is = h
}
func (d *direct) EncodeConfiguration(c *raft.Configuration) ([]byte, error) {
	return raft.VerifEncodeConfiguration(c)
}
func (d *direct) DecodeConfiguration(b []byte) (raft.Configuration, error) {
	return raft.VerifDecodeConfiguration(b)
}
func (d *direct) peer(addr string) (*direct, error) {
	d.n.mu.Lock()
	defer d.n.mu.Unlock()
	p := d.n.nodes[addr]
	if d.n.cut && (d.addr == "a0") != (addr == "a0") {
		return nil, errors.New("partitioned")
	}
	if p == nil || !p.up || !d.up {
		return nil, errors.New("unreachable")
	}
	return p, nil
}
func (d *direct) SendAppendEntries(a string, q raft.AppendEntriesRequest) (raft.AppendEntriesResponse, error) {
	var r raft.AppendEntriesResponse
	d.n.hold(d.addr)
	p, err := d.peer(a)
	if err != nil {
		return r, err
	}
	return r, p.ae(&q, &r)
}
func (d *direct) SendRequestVote(a string, q raft.RequestVoteRequest) (raft.RequestVoteResponse, error) {
	var r raft.RequestVoteResponse
	p, err := d.peer(a)
	if err != nil {
		return r, err
	}
	return r, p.rv(&q, &r)
}
func (d *direct) SendInstallSnapshot(a string, q raft.InstallSnapshotRequest) (raft.InstallSnapshotResponse, error) {
	var r raft.InstallSnapshotResponse
	p, err := d.peer(a)
	if err != nil {
		return r, err
	}
	return r, p.is(&q, &r)
}

type fsm struct {
	mu   sync.Mutex
	ops  int
	snap bool          // NeedSnapshot answers true once the log holds 4 entries
	slow chan struct{} // non-nil: Restore blocks until it is closed (a slow state machine)
}

func (f *fsm) Apply(op *raft.Operation) interface{} {
	f.mu.Lock()
	defer f.mu.Unlock()
	if op.OperationType == raft.Replicated {
		f.ops++
	}
	return f.ops
}
func (f *fsm) Snapshot(w io.Writer) error {
	f.mu.Lock()
	defer f.mu.Unlock()
	_, err := w.Write([]byte{byte(f.ops)})
	return err
}
func (f *fsm) Restore(r io.Reader) error {
	f.mu.Lock()
	gate := f.slow
	f.mu.Unlock()
	if gate != nil {
		<-gate
	}
	b, err := io.ReadAll(r)
	f.mu.Lock()
	if len(b) > 0 {
		f.ops = int(b[0])
	}
	f.mu.Unlock()
	return err
}
func (f *fsm) NeedSnapshot(size int) bool {
	f.mu.Lock()
	defer f.mu.Unlock()
	return f.snap && size >= 4
}

const futureTimeout = 1500 * time.Millisecond

// child executes one program and prints one line per call. Exit 0 = no violation seen in-process.
func child(prog string, nnodes int, dir string) {
	nw := &net{nodes: map[string]*direct{}}
	var nodes []*raft.Raft
	var fsms []*fsm
	members := map[string]string{}
	for i := 0; i < nnodes; i++ {
		members[strconv.Itoa(i)] = "a" + strconv.Itoa(i)
	}
	for i := 0; i < nnodes+1; i++ { // one spare node for AddServer
		id := strconv.Itoa(i)
		t := &direct{n: nw, addr: "a" + id}
		nw.nodes[t.addr] = t
		fsms = append(fsms, &fsm{})
		r, err := raft.NewRaft(id, t.addr, fsms[i], fmt.Sprintf("%s/n%d", dir, i), raft.WithTransport(t),
			raft.WithElectionTimeout(40*time.Millisecond), raft.WithHeartbeatInterval(10*time.Millisecond),
			raft.WithLeaseDuration(20*time.Millisecond), raft.WithLogLevel(logging.Fatal))
		if err != nil {
			fmt.Println("SETUP-ERROR", err)
			os.Exit(4)
		}
		nodes = append(nodes, r)
	}
	for i := 1; i < nnodes; i++ {
		nodes[i].Bootstrap(members)
		nodes[i].Start()
	}
	nodes[nnodes].Start() // the spare: no configuration
	n0 := nodes[0]
	bad := 0
	say := func(f string, a ...interface{}) { fmt.Printf(f+"\n", a...) }
	type pendingFuture struct {
		bytes string
		fut   raft.Future[raft.OperationResponse]
	}
	var pendings []pendingFuture
	nothers := 0
	for _, call := range strings.Split(prog, ";") {
		f := strings.Fields(call)
		if len(f) == 0 {
			continue
		}
		t0 := time.Now()
		switch f[0] {
		case "start":
			say("start -> %v", n0.Start())
		case "restart":
			say("restart -> %v", n0.Restart())
		case "stop":
			n0.Stop()
			say("stop")
		case "bootstrap":
			say("bootstrap -> %v", n0.Bootstrap(members) != nil)
		case "badbootstrap":
			say("badbootstrap -> %v", n0.Bootstrap(map[string]string{"zz": "nowhere"}) != nil)
		case "snapshots": // the other nodes snapshot and compact from now on
			for i := 1; i < len(fsms); i++ {
				fsms[i].mu.Lock()
				fsms[i].snap = true
				fsms[i].mu.Unlock()
			}
		case "others": // N operations through whichever other node leads
			n, _ := strconv.Atoi(f[1])
			done := 0
			deadline := time.Now().Add(5 * time.Second)
			for done < n && time.Now().Before(deadline) {
				progressed := false
				for i := 1; i < nnodes; i++ {
					if nodes[i].Status().State == raft.Leader {
						if res := nodes[i].SubmitOperation([]byte("y-"+strconv.Itoa(nothers)), raft.Replicated, futureTimeout).Await(); res.Error() == nil {
							nothers++
							done++
							progressed = true
						}
					}
				}
				if !progressed {
					time.Sleep(20 * time.Millisecond)
				}
			}
			say("others %d -> %d acknowledged", n, done)
		case "slowrestore":
			fsms[0].mu.Lock()
			if fsms[0].slow == nil {
				fsms[0].slow = make(chan struct{})
			}
			fsms[0].mu.Unlock()
		case "fastrestore":
			fsms[0].mu.Lock()
			if fsms[0].slow != nil {
				close(fsms[0].slow)
				fsms[0].slow = nil
			}
			fsms[0].mu.Unlock()
		case "lead0": // make node 0 the leader: whichever other node leads is stopped and restarted until node 0 wins
			deadline := time.Now().Add(10 * time.Second)
			for n0.Status().State != raft.Leader && time.Now().Before(deadline) {
				for i := 1; i < nnodes; i++ {
					if nodes[i].Status().State == raft.Leader {
						nodes[i].Stop()
						time.Sleep(250 * time.Millisecond)
						nodes[i].Restart()
					}
				}
				time.Sleep(50 * time.Millisecond)
			}
			say("lead0 -> %s", n0.Status().State.String())
		case "cut":
			nw.mu.Lock()
			nw.cut = true
			nw.mu.Unlock()
		case "uncut":
			nw.mu.Lock()
			nw.cut = false
			nw.mu.Unlock()
		case "asubmit": // a replicated operation with its own bytes; the future is kept and awaited by "await"
			b := "x-" + f[1]
			pendings = append(pendings, pendingFuture{b, n0.SubmitOperation([]byte(b), raft.Replicated, 6*time.Second)})
			say("asubmit %s", b)
		case "await": // C03: a future that resolves successfully returns exactly the bytes submitted through it
			for _, pf := range pendings {
				res := pf.fut.Await()
				if res.Error() != nil {
					say("await %s -> err=%v", pf.bytes, res.Error())
					continue
				}
				got := string(res.Success().Operation.Bytes)
				say("await %s -> ok bytes=%s index=%d term=%d", pf.bytes, got, res.Success().Operation.LogIndex, res.Success().Operation.LogTerm)
				if got != pf.bytes {
					say("VIOLATION C03 a future resolved successfully with an operation that was not submitted through it: submitted %q, answered %q (index %d, term %d)",
						pf.bytes, got, res.Success().Operation.LogIndex, res.Success().Operation.LogTerm)
					bad++
				}
			}
			pendings = nil
		case "hold":
			nw.mu.Lock()
			if nw.held == nil {
				nw.held = make(chan struct{})
			}
			nw.mu.Unlock()
		case "release":
			nw.mu.Lock()
			if nw.held != nil {
				close(nw.held)
				nw.held = nil
			}
			nw.mu.Unlock()
		case "sleep":
			ms, _ := strconv.Atoi(f[1])
			time.Sleep(time.Duration(ms) * time.Millisecond)
		case "status":
			st := n0.Status()
			say("status -> %s term=%d", st.State.String(), st.Term)
		case "allstates":
			for s := raft.State(0); s <= raft.Shutdown; s++ {
				say("state %d -> %s", s, s.String())
			}
			for o := raft.OperationType(0); o <= raft.LeaseBasedReadOnly; o++ {
				say("optype %d -> %s", o, o.String())
			}
		case "config":
			c := n0.Configuration()
			say("config -> %d members", len(strings.Split(c.String(), "("))-1)
		case "submit":
			ty, _ := strconv.Atoi(f[1])
			fut := n0.SubmitOperation([]byte("x"), raft.OperationType(ty), futureTimeout)
			res := fut.Await()
			el := time.Since(t0)
			say("submit %d -> err=%v (%dms)", ty, res.Error(), el.Milliseconds())
			if el > futureTimeout+2*time.Second {
				say("VIOLATION future did not resolve by its timeout: %v", el)
				bad++
			}
		case "add", "remove":
			var fut raft.Future[raft.Configuration]
			st := n0.Status()
			if f[0] == "add" {
				fut = n0.AddServer(f[1], "a"+f[1], f[2] == "1", futureTimeout)
			} else {
				fut = n0.RemoveServer(f[1], futureTimeout)
			}
			res := fut.Await()
			el := time.Since(t0)
			say("%s %s -> err=%v (%dms)", f[0], f[1], res.Error(), el.Milliseconds())
			if el > futureTimeout+2*time.Second {
				say("VIOLATION future did not resolve by its timeout: %v", el)
				bad++
			}
			// the change was accepted by a leader that is still the leader of the same term and has applied it
			if errors.Is(res.Error(), raft.ErrTimeout) {
				after := n0.Status()
				c := n0.Configuration()
				_, present := c.Members[f[1]]
				changed := (f[0] == "add") == present
				if st.State == raft.Leader && after.State == raft.Leader && after.Term == st.Term && changed &&
					after.LastApplied >= c.Index && c.Index > 0 {
					say("VIOLATION membership change %s %s was committed and applied (index %d) while the node stayed leader of term %d, but its future timed out",
						f[0], f[1], c.Index, st.Term)
					bad++
				}
			} else if res.Error() == nil {
				c := res.Success()
				_, present := c.Members[f[1]]
				if (f[0] == "add") != present {
					say("VIOLATION successful membership future does not contain the requested change")
					bad++
				}
			}
		}
	}
	// a running node keeps applying what it knows to be committed (nothing may have stalled its apply loop)
	nw.mu.Lock()
	if nw.held != nil {
		close(nw.held)
		nw.held = nil
	}
	nw.mu.Unlock()
	fsms[0].mu.Lock()
	if fsms[0].slow != nil {
		close(fsms[0].slow)
		fsms[0].slow = nil
	}
	fsms[0].mu.Unlock()
	if st := n0.Status(); st.State != raft.Shutdown {
		deadline := time.Now().Add(3 * time.Second)
		for time.Now().Before(deadline) {
			st = n0.Status()
			if st.State == raft.Shutdown || st.LastApplied >= st.CommitIndex {
				break
			}
			time.Sleep(20 * time.Millisecond)
		}
		if st.State != raft.Shutdown && st.LastApplied < st.CommitIndex {
			say("VIOLATION the node stopped applying: lastApplied %d stays below commitIndex %d", st.LastApplied, st.CommitIndex)
			bad++
		}
	}
	if bad > 0 {
		os.Exit(5)
	}
	os.Exit(0)
}

var calls = []string{"start", "restart", "stop", "bootstrap", "badbootstrap", "sleep 60", "sleep 150", "status", "config",
	"submit 0", "submit 1", "submit 2", "submit 7", "add 9 0", "add 1 1", "add %d 0", "remove 9", "remove 1", "allstates", "hold", "release"}

func genProgram(r *rand.Rand, nnodes int) string {
	var p []string
	// most programs begin the documented way; some do not
	if r.Intn(4) > 0 {
		p = append(p, "bootstrap", "start", "sleep 150")
	}
	for i := 2 + r.Intn(7); i > 0; i-- {
		c := calls[r.Intn(len(calls))]
		if strings.Contains(c, "%d") {
			c = fmt.Sprintf(c, nnodes)
		}
		p = append(p, c)
	}
	p = append(p, "status", "config")
	return strings.Join(p, ";")
}

var scripted = []string{
	"allstates",
	"bootstrap;start;sleep 150;stop;start;sleep 200;status;submit 0",
	"bootstrap;start;sleep 150;stop;restart;sleep 200;status;submit 0;stop;restart;sleep 150;submit 0",
	"bootstrap;start;sleep 200;status;add %d 0;sleep 100;config;add %d 1;sleep 100;remove %d;sleep 100;config",
	"start;status;submit 0;submit 1;add 9 0;remove 9;stop;stop;start;start;status",
	"stop;restart;status;config;bootstrap;badbootstrap;submit 2",
	"bootstrap;bootstrap;start;restart;sleep 150;submit 0;submit 1;submit 2;submit 7;status",
	// Bootstrap after Start (and after Stop): an error, never a panic or a later crash
	"start;stop;bootstrap;status;config",
	"start;bootstrap;sleep 300;status;submit 0;sleep 300;status;config",
	"start;sleep 50;bootstrap;restart;sleep 300;status;submit 0;stop;bootstrap;status",
	// node 0 falls behind, is sent a snapshot while its Restore is slow, is stopped during the Restore and started again
	"bootstrap;start;sleep 200;stop;snapshots;others 8;slowrestore;start;sleep 200;stop;fastrestore;sleep 50;start;sleep 300;others 3;sleep 200;status",
	"bootstrap;start;sleep 200;stop;snapshots;others 8;start;sleep 300;others 3;sleep 200;status;submit 0",
	// the network holds the node's AppendEntries requests back (no answer, no error): every call must still return
	"bootstrap;start;sleep 200;status;hold;sleep 60;submit 0;stop;status;release;sleep 50;status",
	"bootstrap;start;sleep 200;hold;sleep 60;add %d 0;stop;start;sleep 100;status;release;sleep 100;submit 0;status",
}

// C03: futures held across Stop / Restart of the SAME object, across a partition and a change of leader: whatever such a
// future is answered with, a success answer carries the bytes submitted through it
var scriptedC03 = []string{
	"bootstrap;start;sleep 150;lead0;cut;asubmit a;asubmit b;stop;others 3;uncut;restart;sleep 400;others 2;sleep 300;await;status",
	"bootstrap;start;sleep 150;lead0;cut;asubmit a;asubmit b;asubmit c;stop;others 2;uncut;start;sleep 500;await;status",
	"bootstrap;start;sleep 150;lead0;cut;asubmit a;asubmit b;others 3;uncut;sleep 400;others 2;sleep 200;await;status",
	"bootstrap;start;sleep 150;lead0;asubmit a;cut;asubmit b;stop;uncut;restart;sleep 300;asubmit c;others 2;sleep 300;await",
	"bootstrap;start;sleep 150;lead0;hold;asubmit a;asubmit b;stop;others 3;release;restart;sleep 400;others 2;sleep 300;await",
}

func main() {
	family := flag.String("family", "all", "all: the C18 programs; c03: only the futures-across-stop/restart programs of C03")
	seed := flag.Int64("seed", 1, "PRNG seed")
	n := flag.Int("n", 40, "random programs")
	prog := flag.String("child", "", "child mode: run this program")
	nn := flag.Int("nodes", 1, "voters in the cluster (child mode)")
	dir := flag.String("dir", "", "data directory (child mode)")
	flag.Parse()
	if *prog != "" {
		child(*prog, *nn, *dir)
		return
	}
	self, _ := os.Executable()
	root, err := os.MkdirTemp(os.Getenv("VERIF_SCRATCH"), "apidiff")
	if err != nil {
		panic(err)
	}
	defer os.RemoveAll(root)
	r := rand.New(rand.NewSource(*seed))
	type job struct {
		prog  string
		nodes int
	}
	var jobs []job
	tag := "C18"
	if *family == "c03" {
		tag = "C03"
		*n = 0
		for rep := 0; rep < 2; rep++ {
			for _, s := range scriptedC03 {
				for _, k := range []int{1, 3} {
					jobs = append(jobs, job{s, k})
				}
			}
		}
	} else {
		for _, s := range scripted {
			for _, k := range []int{1, 3} {
				jobs = append(jobs, job{strings.ReplaceAll(s, "%d", strconv.Itoa(k)), k})
			}
		}
	}
	for i := 0; i < *n; i++ {
		k := []int{1, 1, 3}[r.Intn(3)]
		jobs = append(jobs, job{genProgram(r, k), k})
	}
	var mu sync.Mutex
	var viol []string
	hist := map[string]int{}
	var wg sync.WaitGroup
	sem := make(chan struct{}, 12)
	for i, j := range jobs {
		wg.Add(1)
		sem <- struct{}{}
		go func(i int, j job) {
			defer wg.Done()
			defer func() { <-sem }()
			d := fmt.Sprintf("%s/p%d", root, i)
			cmd := exec.Command(self, "-child", j.prog, "-nodes", strconv.Itoa(j.nodes), "-dir", d)
			var out strings.Builder
			cmd.Stdout = &out
			cmd.Stderr = &out
			done := make(chan error, 1)
			if err := cmd.Start(); err != nil {
				panic(err)
			}
			go func() { done <- cmd.Wait() }()
			var verdict string
			select {
			case err := <-done:
				if err != nil {
					tail := out.String()
					if len(tail) > 500 {
						tail = tail[len(tail)-500:]
					}
					verdict = fmt.Sprintf("%v: %s", err, strings.ReplaceAll(tail, "\n", " | "))
				}
			case <-time.After(60 * time.Second):
				cmd.Process.Kill()
				verdict = "hang: no exit within 60s; output so far: " + strings.ReplaceAll(out.String(), "\n", " | ")
			}
			os.RemoveAll(d)
			mu.Lock()
			for _, c := range strings.Split(j.prog, ";") {
				hist[strings.Fields(c)[0]]++
			}
			if verdict != "" {
				viol = append(viol, fmt.Sprintf(tag+" program {%s} on a %d-voter cluster: %s", j.prog, j.nodes, verdict))
			}
			mu.Unlock()
		}(i, j)
	}
	wg.Wait()
	var hs []string
	for k, v := range hist {
		hs = append(hs, fmt.Sprintf("%s=%d", k, v))
	}
	fmt.Printf("APIDIFF programs=%d calls=%s\n", len(jobs), strings.Join(hs, ","))
	for i, j := range jobs {
		if i < 3 {
			fmt.Printf("SAMPLE %d-voter cluster: %s\n", j.nodes, j.prog)
		}
	}
	for _, v := range viol {
		fmt.Printf("IMPL-VIOLATION %s\n", v)
	}
	if len(viol) > 0 {
		os.RemoveAll(root)
		os.Exit(1)
	}
}
