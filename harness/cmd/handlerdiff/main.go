// handlerdiff (C06, C08, C11): the RPC handlers of a real node, put into
// states of a bounded domain with the VerifSetState hook, against the Coq
// handlers: every case is a state, a sequence of requests, and for each request
// the implementation's response and complete post-state. RequestVote cases are
// also run with a crash after k storage writes followed by a restart.
package main

import (
	"flag"
	"fmt"
	"math/rand"
	"os"
	"path/filepath"
	"strconv"
	"strings"
	"time"

	raft "github.com/jmsadair/raft"
	"verifharness/internal/gen"
	"verifharness/sim"
)

type ent struct{ index, term uint64 }

type state struct {
	role        raft.State
	term        uint64
	vote        string
	commit      uint64
	applied     uint64
	lii, lit    uint64
	log         []ent // log[0] = placeholder
	contactOld  bool
	leaseValid  bool
	hasCommConf bool
}

var roleS = map[raft.State]string{raft.Leader: "L", raft.Follower: "F", raft.PreCandidate: "P", raft.Candidate: "C"}

func payload(e ent) uint64 { return e.index*10 + e.term }

func mkEntry(e ent) *raft.LogEntry {
	return raft.NewLogEntry(e.index, e.term, sim.PayloadBytes(payload(e)), raft.OperationEntry)
}

func (s state) spec() string {
	var l []string
	l = append(l, fmt.Sprintf("%d:%d:p", s.log[0].index, s.log[0].term))
	for _, e := range s.log[1:] {
		l = append(l, fmt.Sprintf("%d:%d:o%d", e.index, e.term, payload(e)))
	}
	v := s.vote
	if v == "" {
		v = "-"
	}
	b := func(x bool) string {
		if x {
			return "1"
		}
		return "0"
	}
	return fmt.Sprintf("role=%s term=%d vote=%s commit=%d applied=%d lii=%d lit=%d log=%s contactold=%s lease=%s cconf=%s",
		roleS[s.role], s.term, v, s.commit, s.applied, s.lii, s.lit, strings.Join(l, ","), b(s.contactOld), b(s.leaseValid), b(s.hasCommConf))
}

var members = map[string]string{"0": "addr-0", "1": "addr-1", "2": "addr-2"}

func conf() *raft.Configuration {
	return &raft.Configuration{Members: map[string]string{"0": "addr-0", "1": "addr-1", "2": "addr-2"},
		IsVoter: map[string]bool{"0": true, "1": true, "2": true}, Index: 0}
}

type harness struct {
	c      *sim.Cluster
	g      *gen.G
	root   string
	nroot  int
	viol   []string
	counts map[string]int
}

func (h *harness) fresh() *sim.Node {
	h.nroot++
	h.c = sim.NewCluster(fmt.Sprintf("%s/c%d", h.root, h.nroot), []string{"0"}, 4, 2)
	if err := h.c.Open("0"); err != nil {
		panic(err)
	}
	n := h.c.Nodes["0"]
	n.Up = true
	n.RegisterHandlers()
	return n
}

func (h *harness) install(n *sim.Node, s state) {
	var es []*raft.LogEntry
	for _, e := range s.log[1:] {
		es = append(es, mkEntry(e))
	}
	vs := raft.VerifNodeState{State: s.role, Term: s.term, VotedFor: s.vote, CommitIndex: s.commit, LastApplied: s.applied,
		LastIncludedIndex: s.lii, LastIncludedTerm: s.lit, Configuration: conf(),
		PlaceholderIndex: s.log[0].index, PlaceholderTerm: s.log[0].term, Entries: es}
	if s.hasCommConf {
		vs.Committed = conf()
	}
	if s.contactOld {
		vs.ContactAge = 10 * sim.Tick
	}
	if s.leaseValid {
		vs.LeaseRemaining = 1 * sim.Tick
	}
	if err := raft.VerifSetState(n.R, vs); err != nil {
		panic(err)
	}
	n.FSM.Ops = nil
	n.FSM.Applies = nil
	// the node is reused for many cases: snapshots stored by earlier cases are not part of this case's state
	sdir := filepath.Join(n.Dir, "snapshots")
	if ents, err := os.ReadDir(sdir); err == nil {
		for _, e := range ents {
			os.RemoveAll(filepath.Join(sdir, e.Name()))
		}
	}
}

// deliver runs one request on the node (own goroutine: it may park) and returns "resp ## post".
func (h *harness) deliver(n *sim.Node, cl *sim.Call) string {
	cl.ID = 0
	cl.Dst = "0"
	cl.Finished = make(chan struct{})
	h.c.Deliver(cl, false)
	select {
	case <-cl.Finished: // the usual case: the handler returned
	case <-time.After(20 * time.Millisecond):
		// parked (InstallSnapshot waiting for the apply loop, or frozen at a storage write) - or slow
		if err := sim.WaitQuiescent(30 * time.Second); err != nil {
			panic(err)
		}
	}
	if n.Store.Frozen {
		return "- ## frozen"
	}
	resp := cl.RespS()
	if cl.Waiting {
		resp = "WAIT"
	}
	return resp + " ## " + h.c.NodeS("0")
}

// all non-decreasing term sequences of length 0..maxLen over terms 1..3
func allLogs(maxLen int) [][]uint64 {
	var out [][]uint64
	var rec func(cur []uint64)
	rec = func(cur []uint64) {
		out = append(out, append([]uint64{}, cur...))
		if len(cur) == maxLen {
			return
		}
		lo := uint64(1)
		if len(cur) > 0 {
			lo = cur[len(cur)-1]
		}
		for t := lo; t <= 3; t++ {
			rec(append(cur, t))
		}
	}
	rec(nil)
	return out
}

func mkLog(terms []uint64, compact int) []ent {
	// entries 1..len with the given terms, compacted through index `compact`
	var l []ent
	pt := uint64(0)
	if compact > 0 {
		pt = terms[compact-1]
	}
	l = append(l, ent{uint64(compact), pt})
	for i := compact; i < len(terms); i++ {
		l = append(l, ent{uint64(i + 1), terms[i]})
	}
	return l
}

func lastTerm(terms []uint64) uint64 {
	if len(terms) == 0 {
		return 0
	}
	return terms[len(terms)-1]
}

func (h *harness) randState(r *rand.Rand, terms []uint64) state {
	compact := 0
	if len(terms) > 0 && r.Intn(3) == 0 {
		compact = 1 + r.Intn(len(terms))
	}
	s := state{log: mkLog(terms, compact), lii: uint64(compact)}
	s.lit = s.log[0].term
	s.commit = uint64(compact) + uint64(r.Intn(len(terms)-compact+1))
	s.applied = s.commit
	if r.Intn(3) == 0 {
		s.applied = uint64(compact) + uint64(r.Intn(int(s.commit)-compact+1))
	}
	lt := lastTerm(terms)
	if lt == 0 {
		lt = 1
	}
	s.term = lt + uint64(r.Intn(int(5-lt)))
	s.role = []raft.State{raft.Follower, raft.Follower, raft.Candidate, raft.PreCandidate, raft.Leader}[r.Intn(5)]
	s.vote = []string{"", "0", "1", "2"}[r.Intn(4)]
	s.contactOld = r.Intn(4) > 0
	s.leaseValid = r.Intn(8) == 0
	s.hasCommConf = true
	return s
}

func (h *harness) aeCases(r *rand.Rand, perPair int) {
	logs := allLogs(5)
	n := h.fresh()
	for _, fl := range logs {
		for _, ll := range logs {
			for k := 0; k < perPair; k++ {
				s := h.randState(r, fl)
				s.contactOld = true
				s.leaseValid = false
				prev := r.Intn(len(ll) + 1)
				end := prev + r.Intn(len(ll)-prev+1)
				var es []*raft.LogEntry
				for i := prev; i < end; i++ {
					es = append(es, mkEntry(ent{uint64(i + 1), ll[i]}))
				}
				pt := uint64(0)
				if prev > 0 {
					pt = ll[prev-1]
				}
				if r.Intn(12) == 0 {
					pt = uint64(r.Intn(4))
				}
				term := s.term
				switch r.Intn(6) {
				case 0:
					if term > 0 {
						term--
					}
				case 1:
					term++
				}
				q := raft.AppendEntriesRequest{LeaderID: strconv.Itoa(1 + r.Intn(2)), Term: term, LeaderCommit: uint64(r.Intn(7)),
					PrevLogIndex: uint64(prev), PrevLogTerm: pt, Entries: es}
				h.install(n, s)
				cl := &sim.Call{Kind: "AE", AE: q, Src: q.LeaderID}
				res := h.deliver(n, cl)
				h.g.Case("HSEQ", []string{s.spec(), ";;", cl.ReqS()}, res)
				h.counts["AE"]++
				h.checkAE(n, s, q, cl, res)
				// a duplicate of the same request must be harmless too
				if r.Intn(6) == 0 {
					cl2 := &sim.Call{Kind: "AE", AE: q, Src: q.LeaderID}
					h.g.Case("HSEQ", []string{s.spec(), ";;", cl.ReqS(), ";;", cl2.ReqS()}, res+" ;; "+h.deliver(n, cl2))
					h.counts["AE-dup"]++
				}
			}
		}
	}
}

// checkAE: the clauses of C06 on the implementation's own answer.
func (h *harness) checkAE(n *sim.Node, s state, q raft.AppendEntriesRequest, cl *sim.Call, res string) {
	if len(h.viol) > 10 || !cl.Delivered || !cl.HandlerOK {
		return
	}
	p := cl.Resp.(raft.AppendEntriesResponse)
	d := raft.VerifDump(n.R)
	desc := fmt.Sprintf("state {%s} request {%s}", s.spec(), cl.ReqS())
	after := map[uint64]uint64{}
	lg := sim.LogS(n.Store.Log())
	for _, e := range strings.Split(lg, ",")[1:] {
		f := strings.Split(e, ":")
		i, _ := strconv.ParseUint(f[0], 10, 64)
		t, _ := strconv.ParseUint(f[1], 10, 64)
		after[i] = t
	}
	before := map[uint64]uint64{}
	for _, e := range s.log[1:] {
		before[e.index] = e.term
	}
	if d.CommitIndex < s.commit {
		h.viol = append(h.viol, fmt.Sprintf("C06 commit index moved backwards from %d to %d: %s", s.commit, d.CommitIndex, desc))
	}
	if !p.Success {
		if len(after) != len(before) || d.CommitIndex != s.commit {
			h.viol = append(h.viol, "C06 a rejected request changed the log or the commit index: "+desc)
		}
		return
	}
	verified := q.PrevLogIndex + uint64(len(q.Entries))
	if d.CommitIndex > s.commit && d.CommitIndex > verified {
		h.viol = append(h.viol, fmt.Sprintf("C06 commit index moved to %d, past the last entry verified to match the sender (%d): %s", d.CommitIndex, verified, desc))
	}
	conflict := false
	for _, e := range q.Entries {
		if t, ok := before[e.Index]; ok && t != e.Term {
			conflict = true
		}
		if e.Index > s.lii && after[e.Index] != e.Term {
			h.viol = append(h.viol, fmt.Sprintf("C06 after success index %d does not hold the request's entry: %s", e.Index, desc))
		}
	}
	for i, t := range before {
		if _, ok := after[i]; !ok || after[i] != t {
			if !conflict || i <= q.PrevLogIndex || i <= s.commit && false {
				h.viol = append(h.viol, fmt.Sprintf("C06 entry %d (term %d) that does not conflict with the request was removed: %s", i, t, desc))
			}
		}
	}
}

func (h *harness) rvCases(r *rand.Rand, perLog int, crashCases int) {
	logs := allLogs(5)
	n := h.fresh()
	mkReq := func(s state, terms []uint64) raft.RequestVoteRequest {
		li := uint64(r.Intn(7))
		lt := uint64(r.Intn(5))
		if r.Intn(2) == 0 { // close to the voter's own last entry: the interesting boundary
			li = uint64(int(s.log[len(s.log)-1].index) + r.Intn(3) - 1)
			if int64(li) < 0 {
				li = 0
			}
			lt = uint64(int(s.log[len(s.log)-1].term) + r.Intn(3) - 1)
			if int64(lt) < 0 {
				lt = 0
			}
		}
		term := s.term + uint64(r.Intn(4))
		if r.Intn(6) == 0 && s.term > 0 {
			term = s.term - 1
		}
		return raft.RequestVoteRequest{CandidateID: strconv.Itoa(1 + r.Intn(2)), Term: term, LastLogIndex: li, LastLogTerm: lt, Prevote: r.Intn(3) == 0}
	}
	for _, fl := range logs {
		for k := 0; k < perLog; k++ {
			s := h.randState(r, fl)
			q := mkReq(s, fl)
			h.install(n, s)
			cl := &sim.Call{Kind: "RV", RV: q, Src: q.CandidateID}
			res := h.deliver(n, cl)
			args := []string{s.spec(), ";;", cl.ReqS()}
			h.checkRV(n, s, q, cl, nil)
			first := cl
			// a second candidate right after: one vote per term
			if r.Intn(2) == 0 {
				q2 := mkReq(s, fl)
				q2.Term = q.Term
				if q.CandidateID == "1" {
					q2.CandidateID = "2"
				} else {
					q2.CandidateID = "1"
				}
				cl2 := &sim.Call{Kind: "RV", RV: q2, Src: q2.CandidateID}
				res += " ;; " + h.deliver(n, cl2)
				args = append(args, ";;", cl2.ReqS())
				h.counts["RV-second"]++
				h.checkRV(n, s, q2, cl2, first)
			}
			h.g.Case("HSEQ", args, res)
			h.counts["RV"]++
		}
	}
	// crash after k storage writes, restart, second candidate of the same term
	for i := 0; i < crashCases; i++ {
		fl := logs[r.Intn(len(logs))]
		s := h.randState(r, fl)
		for s.lii != 0 { // a compacted log needs a snapshot on disk to be restartable; not part of this domain
			s = h.randState(r, fl)
		}
		s.contactOld = true
		s.leaseValid = false
		q := mkReq(s, fl)
		q.Prevote = false
		budget := r.Intn(3)
		n = h.fresh()
		h.install(n, s)
		n.Store.SetBudget(budget)
		cl := &sim.Call{Kind: "RV", RV: q, Src: q.CandidateID}
		res := h.deliver(n, cl)
		// crash + restart over the same directory
		h.c.Crash("0")
		if err := h.c.Open("0"); err != nil {
			h.viol = append(h.viol, fmt.Sprintf("C14 NewRaft failed after a crash at storage write %d of RequestVote: %v", budget+1, err))
			continue
		}
		if err := h.c.Start("0"); err != nil {
			h.viol = append(h.viol, fmt.Sprintf("C14 Start failed after a crash at storage write %d of RequestVote: %v", budget+1, err))
			continue
		}
		if err := sim.WaitQuiescent(30 * time.Second); err != nil {
			panic(err)
		}
		n2 := h.c.Nodes["0"]
		res += " ;; RESTARTED ## " + h.c.NodeS("0")
		// after the restart the election-timeout guard is fresh: age the clock, then the rival asks
		raft.VerifShiftClock(n2.R, 10*sim.Tick)
		q2 := q
		if q.CandidateID == "1" {
			q2.CandidateID = "2"
		} else {
			q2.CandidateID = "1"
		}
		q2.LastLogIndex, q2.LastLogTerm = 9, 9
		cl2 := &sim.Call{Kind: "RV", RV: q2, Src: q2.CandidateID}
		res += " ;; " + h.deliver(n2, cl2)
		h.g.Case("HSEQ", []string{s.spec(), ";;", fmt.Sprintf("BUDGET %d", budget), ";;", cl.ReqS(), ";;", "CRASHRESTART 10", ";;", cl2.ReqS()}, res)
		h.counts["RV-crash"]++
		// implementation-side monitor: two grants in one term to different candidates
		if strings.Contains(resOf(res, 0), "/1 ##") && strings.Contains(resOf(res, 2), "/1 ##") &&
			termOf(resOf(res, 0)) == termOf(resOf(res, 2)) {
			h.viol = append(h.viol, fmt.Sprintf("C08 node granted its term-%s vote to %s, crashed after %d storage writes, restarted and granted it to %s (state %s)",
				termOf(resOf(res, 0)), q.CandidateID, budget, q2.CandidateID, s.spec()))
		}
	}
}

// checkRV: the clauses of C08 on the implementation's own answer.
func (h *harness) checkRV(n *sim.Node, s state, q raft.RequestVoteRequest, cl *sim.Call, first *sim.Call) {
	if len(h.viol) > 10 || !cl.Delivered || !cl.HandlerOK {
		return
	}
	p := cl.Resp.(raft.RequestVoteResponse)
	d := raft.VerifDump(n.R)
	desc := fmt.Sprintf("state {%s} request {%s}", s.spec(), cl.ReqS())
	if p.Term < s.term || d.Term < s.term {
		h.viol = append(h.viol, fmt.Sprintf("C08 term went backwards (state %d, reply %d, node %d): %s", s.term, p.Term, d.Term, desc))
	}
	last := s.log[len(s.log)-1]
	if p.VoteGranted && (q.LastLogTerm < last.term || (q.LastLogTerm == last.term && q.LastLogIndex < last.index)) {
		h.viol = append(h.viol, "C08 vote granted to a candidate whose log is less up to date than the voter's: "+desc)
	}
	if q.Prevote && first == nil && (d.Term != s.term || d.VotedFor != s.vote || d.State != s.role) {
		h.viol = append(h.viol, "C08 a prevote changed the voter's term, vote or role: "+desc)
	}
	if first != nil && !q.Prevote && !first.RV.Prevote && first.HandlerOK && p.VoteGranted &&
		first.Resp.(raft.RequestVoteResponse).VoteGranted && first.RV.CandidateID != q.CandidateID &&
		first.Resp.(raft.RequestVoteResponse).Term == p.Term {
		h.viol = append(h.viol, fmt.Sprintf("C08 two candidates (%s, %s) were granted the vote of term %d: %s", first.RV.CandidateID, q.CandidateID, p.Term, desc))
	}
}

func resOf(res string, i int) string {
	parts := strings.Split(res, " ;; ")
	if i < len(parts) {
		return parts[i]
	}
	return ""
}

func termOf(part string) string {
	if i := strings.IndexByte(part, '/'); i > 0 {
		return part[:i]
	}
	return ""
}

// the snapshot format of sim.FSM: count, then one word per applied payload
func snapData(ops []uint64) []byte {
	n := len(ops)
	b := []byte{byte(n >> 24), byte(n >> 16), byte(n >> 8), byte(n)}
	for _, p := range ops {
		b = append(b, byte(p>>24), byte(p>>16), byte(p>>8), byte(p))
	}
	return b
}

func (h *harness) isCases(r *rand.Rand, nseq int) {
	logs := allLogs(5)
	n := h.fresh()
	confBytes, _ := raft.VerifEncodeConfiguration(conf())
	for i := 0; i < nseq; i++ {
		fl := logs[r.Intn(len(logs))]
		s := h.randState(r, fl)
		s.contactOld = true
		// two snapshots of a leader history that may or may not match the follower's log
		ll := logs[r.Intn(len(logs))]
		if len(ll) == 0 {
			continue
		}
		mk := func() (uint64, uint64, []byte) {
			// usually both snapshots come from one history; sometimes from two (two leaders)
			src := ll
			if r.Intn(3) == 0 {
				if alt := logs[r.Intn(len(logs))]; len(alt) > 0 {
					src = alt
				}
			}
			idx := 1 + r.Intn(len(src))
			var ops []uint64
			for j := 0; j < idx; j++ {
				ops = append(ops, payload(ent{uint64(j + 1), src[j]}))
			}
			return uint64(idx), src[idx-1], snapData(ops)
		}
		type snapT struct {
			idx, term uint64
			data      []byte
		}
		var snaps []snapT
		for k := 0; k < 2; k++ {
			a, b, c := mk()
			// snapshots cover committed prefixes, and the committed prefix up to an index is unique:
			// two different snapshots never have the same last included index
			for k == 1 && a == snaps[0].idx && (b != snaps[0].term || string(c) != string(snaps[0].data)) {
				a, b, c = mk()
			}
			snaps = append(snaps, snapT{a, b, c})
		}
		h.install(n, s)
		args := []string{s.spec()}
		var results []string
		nreq := 1 + r.Intn(5)
		offsets := []int{0, 0}
		lastWritten := -1
		parked := false
		d10 := false
		var partialIdx, partialTerm uint64
		for k := 0; k < nreq && !parked; k++ {
			w := r.Intn(2)
			sn := snaps[w]
			nchunks := 1 + r.Intn(3)
			csz := (len(sn.data) + nchunks - 1) / nchunks
			if csz == 0 {
				csz = 1
			}
			off := offsets[w]
			switch r.Intn(6) {
			case 0:
				off = r.Intn(len(sn.data) + 1) // stale / duplicated / skipped chunk
			case 1, 2:
				// what a real sender does after a mismatch: resume at the offset the follower reported
				if lastWritten >= 0 && lastWritten <= len(sn.data) {
					off = lastWritten
				}
			}
			end := off + csz
			if end > len(sn.data) {
				end = len(sn.data)
			}
			term := s.term
			switch r.Intn(8) {
			case 0:
				if term > 0 {
					term--
				}
			case 1:
				term++
				s.term = term
			}
			q := raft.InstallSnapshotRequest{LeaderID: strconv.Itoa(1 + r.Intn(2)), Term: term, LastIncludedIndex: sn.idx, LastIncludedTerm: sn.term,
				Configuration: confBytes, Offset: int64(off), Bytes: sn.data[off:end], Done: end == len(sn.data)}
			offsets[w] = end
			if partialIdx > q.LastIncludedIndex && partialTerm == term {
				d10 = true
			}
			cl := &sim.Call{Kind: "IS", IS: q, Src: q.LeaderID}
			res := h.deliver(n, cl)
			if dmp := raft.VerifDump(n.R); dmp.PartialOpen {
				if partialIdx != dmp.PartialMeta.LastIncludedIndex {
					partialTerm = dmp.Term // the node's term when this partial file was created
				}
				partialIdx = dmp.PartialMeta.LastIncludedIndex
			} else {
				partialIdx = 0
			}
			if cl.Delivered && cl.HandlerOK {
				lastWritten = int(cl.Resp.(raft.InstallSnapshotResponse).BytesWritten)
			}
			args = append(args, ";;", cl.ReqS())
			results = append(results, res)
			if strings.HasPrefix(res, "WAIT") {
				parked = true
			}
			// C11: whatever the state machine was restored from must be one of the sender's snapshots, whole
			if len(n.FSM.Ops) > 0 && len(h.viol) < 10 {
				got := string(snapData(n.FSM.Ops))
				if got != string(snaps[0].data) && got != string(snaps[1].data) {
					// signature of known finding D10: within one term a chunk of an OLDER snapshot (smaller last
					// included index) arrived while the file of a newer one was being received
					tag := ""
					if d10 {
						tag = "[older-chunk-into-newer-partial] "
					}
					h.viol = append(h.viol, fmt.Sprintf("C11 "+tag+"state machine restored from bytes that are neither snapshot (index %d: %v) nor (index %d: %v): got %v; state {%s} requests {%s}",
						snaps[0].idx, snaps[0].data, snaps[1].idx, snaps[1].data, []byte(got), s.spec(), strings.Join(args[1:], " ")))
				}
			}
		}
		if parked {
			n = h.fresh() // the parked handler keeps the old node busy
		} else {
			// probes at the boundary: the node must answer as a node holding the full log would
			li := uint64(r.Intn(7))
			pq := raft.RequestVoteRequest{CandidateID: "1", Term: s.term + 1, LastLogIndex: li, LastLogTerm: uint64(r.Intn(4)), Prevote: true}
			cl := &sim.Call{Kind: "RV", RV: pq, Src: "1"}
			results = append(results, h.deliver(n, cl))
			args = append(args, ";;", cl.ReqS())
		}
		h.g.Case("HSEQ", args, strings.Join(results, " ;; "))
		h.counts["IS-seq"]++
	}
}

func main() {
	seed := flag.Int64("seed", 1, "PRNG seed")
	perPair := flag.Int("ae", 3, "AppendEntries cases per (follower log, leader log) pair (56 x 56 pairs)")
	perLog := flag.Int("rv", 120, "RequestVote cases per voter log (56 logs)")
	crash := flag.Int("crash", 150, "RequestVote crash+restart cases")
	nis := flag.Int("is", 2500, "InstallSnapshot request sequences")
	out := flag.String("out", "handler.cases", "case file")
	which := flag.String("which", "ae,rv,is", "handlers")
	flag.Parse()
	g, err := gen.New(*seed, *out)
	if err != nil {
		panic(err)
	}
	base := os.Getenv("VERIF_SCRATCH")
	if st, err := os.Stat("/dev/shm"); err == nil && st.IsDir() {
		base = "/dev/shm" // fsync-heavy: keep the scratch logs in memory
	}
	root, err := os.MkdirTemp(base, "handlerdiff")
	if err != nil {
		panic(err)
	}
	defer os.RemoveAll(root)
	h := &harness{g: g, root: root, counts: map[string]int{}}
	r := g.R
	if strings.Contains(*which, "ae") {
		h.aeCases(r, *perPair)
	}
	if strings.Contains(*which, "rv") {
		h.rvCases(r, *perLog, *crash)
	}
	if strings.Contains(*which, "is") {
		h.isCases(r, *nis)
	}
	if err := g.Close(); err != nil {
		panic(err)
	}
	var cs []string
	for k, v := range h.counts {
		cs = append(cs, fmt.Sprintf("%s=%d", k, v))
	}
	fmt.Printf("HANDLERDIFF cases=%d %s\n", g.Cases, strings.Join(cs, ","))
	for _, v := range h.viol {
		fmt.Printf("IMPL-VIOLATION %s\n", v)
	}
	os.RemoveAll(root)
	if len(h.viol) > 0 {
		os.Exit(1)
	}
}
