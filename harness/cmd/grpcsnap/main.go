// grpcsnap: three real nodes over the library's own gRPC transport on the loopback interface.
// Nodes 0 and 1 replicate operations and take snapshots (which compact their logs); node 2 is
// started only afterwards, so it can catch up only through InstallSnapshot.  For every snapshot
// size (below one chunk, several chunks, above gRPC's default 4 MiB message limit) node 2 must
// reach the leader's applied sequence (C15: "a snapshot of any size").  Wall-clock bound: the
// transfer takes milliseconds; the limit is a minute.
package main

import (
	"bytes"
	"encoding/binary"
	"flag"
	"fmt"
	"io"
	"net"
	"os"
	"path/filepath"
	"sync"
	"time"

	raft "github.com/jmsadair/raft"
	"github.com/jmsadair/raft/logging"
)

type fsm struct {
	mu      sync.Mutex
	applied []uint32
	pad     int
	every   int
}

func (f *fsm) Apply(op *raft.Operation) interface{} {
	f.mu.Lock()
	defer f.mu.Unlock()
	f.applied = append(f.applied, binary.BigEndian.Uint32(op.Bytes))
	return len(f.applied)
}
func (f *fsm) Snapshot(w io.Writer) error {
	f.mu.Lock()
	defer f.mu.Unlock()
	var b bytes.Buffer
	binary.Write(&b, binary.BigEndian, uint32(len(f.applied)))
	for _, v := range f.applied {
		binary.Write(&b, binary.BigEndian, v)
	}
	b.Write(make([]byte, f.pad))
	_, err := w.Write(b.Bytes())
	return err
}
func (f *fsm) Restore(r io.Reader) error {
	data, err := io.ReadAll(r)
	if err != nil {
		return err
	}
	f.mu.Lock()
	defer f.mu.Unlock()
	n := binary.BigEndian.Uint32(data)
	f.applied = nil
	for i := uint32(0); i < n; i++ {
		f.applied = append(f.applied, binary.BigEndian.Uint32(data[4+4*i:]))
	}
	return nil
}
func (f *fsm) NeedSnapshot(logSize int) bool { return logSize >= f.every }
func (f *fsm) get() []uint32 {
	f.mu.Lock()
	defer f.mu.Unlock()
	return append([]uint32(nil), f.applied...)
}

func freePorts(n int) []string {
	var out []string
	var ls []net.Listener
	for i := 0; i < n; i++ {
		l, err := net.Listen("tcp", "127.0.0.1:0")
		if err != nil {
			panic(err)
		}
		ls = append(ls, l)
		out = append(out, l.Addr().String())
	}
	for _, l := range ls {
		l.Close()
	}
	return out
}

func scenario(root string, pad int, limit time.Duration) (ok bool, what string) {
	addrs := freePorts(3)
	ids := []string{"0", "1", "2"}
	conf := map[string]string{}
	for i, id := range ids {
		conf[id] = addrs[i]
	}
	fsms := make([]*fsm, 3)
	nodes := make([]*raft.Raft, 3)
	for i, id := range ids {
		fsms[i] = &fsm{pad: pad, every: 8}
		dir := filepath.Join(root, fmt.Sprintf("pad%d-node%s", pad, id))
		if err := os.MkdirAll(dir, 0o755); err != nil {
			panic(err)
		}
		r, err := raft.NewRaft(id, addrs[i], fsms[i], dir,
			raft.WithElectionTimeout(300*time.Millisecond), raft.WithHeartbeatInterval(50*time.Millisecond),
			raft.WithLeaseDuration(100*time.Millisecond), raft.WithLogLevel(logging.Error))
		if err != nil {
			panic(err)
		}
		nodes[i] = r
	}
	defer func() {
		for _, r := range nodes {
			r.Stop()
		}
	}()
	for i := 0; i < 3; i++ {
		if err := nodes[i].Bootstrap(conf); err != nil {
			panic(err)
		}
	}
	for i := 0; i < 2; i++ {
		if err := nodes[i].Start(); err != nil {
			panic(err)
		}
	}
	// 20 operations through whichever of nodes 0 and 1 leads
	deadline := time.Now().Add(limit)
	for v := uint32(1); v <= 20; {
		if time.Now().After(deadline) {
			return false, fmt.Sprintf("two running nodes of three did not replicate operation %d within %v", v, limit)
		}
		done := false
		for i := 0; i < 2 && !done; i++ {
			if nodes[i].Status().State != raft.Leader {
				continue
			}
			b := make([]byte, 4)
			binary.BigEndian.PutUint32(b, v)
			res := nodes[i].SubmitOperation(b, raft.Replicated, 2*time.Second).Await()
			if res.Error() == nil {
				done = true
			}
		}
		if done {
			v++
		} else {
			time.Sleep(50 * time.Millisecond)
		}
	}
	// both have compacted (NeedSnapshot from 8 entries on); now the third node joins
	if err := nodes[2].Start(); err != nil {
		panic(err)
	}
	for time.Now().Before(deadline) {
		want := fsms[0].get()
		if w1 := fsms[1].get(); len(w1) > len(want) {
			want = w1
		}
		got := fsms[2].get()
		if len(got) == len(want) && len(got) >= 20 {
			for k := range got {
				if got[k] != want[k] {
					return false, fmt.Sprintf("node 2 applied %v, leader %v", got, want)
				}
			}
			return true, fmt.Sprintf("node 2 caught up (%d operations)", len(got))
		}
		time.Sleep(20 * time.Millisecond)
	}
	return false, fmt.Sprintf("node 2, started after the others compacted their logs, applied %d of %d operations within %v (snapshot payload %d bytes)",
		len(fsms[2].get()), len(fsms[0].get()), limit, pad+84)
}

func main() {
	limit := flag.Duration("limit", 60*time.Second, "wall-clock bound per scenario")
	flag.Parse()
	root, err := os.MkdirTemp(os.Getenv("VERIF_SCRATCH"), "grpcsnap")
	if err != nil {
		panic(err)
	}
	defer os.RemoveAll(root)
	bad := 0
	for _, pad := range []int{0, 100 * 1024, 5 * 1024 * 1024} {
		ok, what := scenario(root, pad, *limit)
		if ok {
			fmt.Printf("GRPCSNAP pad=%d ok: %s\n", pad, what)
		} else {
			bad++
			fmt.Printf("IMPL-VIOLATION C15 [grpc pad=%d] %s\n", pad, what)
		}
	}
	fmt.Printf("GRPCSNAP scenarios=3 violations=%d\n", bad)
	if bad > 0 {
		os.Exit(1)
	}
}
