module verifharness

go 1.20

require github.com/jmsadair/raft v0.0.0

replace github.com/jmsadair/raft => /repo
