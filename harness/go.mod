module verifharness

go 1.20

require github.com/jmsadair/raft v0.0.0

require (
	github.com/davecgh/go-spew v1.1.1 // indirect
	github.com/pmezard/go-difflib v1.0.0 // indirect
	github.com/stretchr/testify v1.9.0 // indirect
	golang.org/x/exp v0.0.0-20230108222341-4b8118a2686a // indirect
	golang.org/x/net v0.22.0 // indirect
	golang.org/x/sys v0.18.0 // indirect
	golang.org/x/text v0.14.0 // indirect
	google.golang.org/genproto/googleapis/rpc v0.0.0-20240318140521-94a12d6c2237 // indirect
	google.golang.org/grpc v1.64.0 // indirect
	google.golang.org/protobuf v1.34.1 // indirect
	gopkg.in/yaml.v3 v3.0.1 // indirect
)

replace github.com/jmsadair/raft => /repo
