// Package gen holds the shared pieces of the differential drivers: one PRNG,
// value generators biased to boundary values, and the case-file syntax read by
// ocaml/modeldrv.
package gen

import (
	"bufio"
	"encoding/hex"
	"fmt"
	"math/rand"
	"os"
	"strconv"
	"strings"
)

type G struct {
	R     *rand.Rand
	W     *bufio.Writer
	f     *os.File
	Cases int
	Kinds map[string]int
}

func New(seed int64, path string) (*G, error) {
	f, err := os.Create(path)
	if err != nil {
		return nil, err
	}
	return &G{R: rand.New(rand.NewSource(seed)), W: bufio.NewWriterSize(f, 1<<20), f: f, Kinds: map[string]int{}}, nil
}

func (g *G) Close() error {
	if err := g.W.Flush(); err != nil {
		return err
	}
	return g.f.Close()
}

// Case writes "KIND args => expected".
func (g *G) Case(kind string, args []string, expected string) {
	g.Cases++
	g.Kinds[kind]++
	fmt.Fprintf(g.W, "%s %s => %s\n", kind, strings.Join(args, " "), expected)
}

var boundary = []uint64{0, 1, 2, 127, 128, 255, 256, 300, 16383, 16384, 1<<31 - 1, 1 << 31, 1<<32 - 1, 1 << 32,
	1<<63 - 1, 1 << 63, 1<<64 - 1}

// U64 is biased to 0, small values and the varint / integer-width boundaries.
func (g *G) U64() uint64 {
	switch g.R.Intn(4) {
	case 0:
		return boundary[g.R.Intn(len(boundary))]
	case 1:
		return uint64(g.R.Intn(10))
	case 2:
		return uint64(g.R.Intn(100000))
	default:
		return g.R.Uint64()
	}
}

var ids = []string{"", "n1", "node-2", "127.0.0.1:8080", "ñandú", "日本語ノード", "a b", strings.Repeat("x", 300)}

func (g *G) ID() string { return ids[g.R.Intn(len(ids))] }

// Bytes: nil, empty, short, medium, occasionally large.
func (g *G) Bytes(maxLarge int) []byte {
	var n int
	switch g.R.Intn(8) {
	case 0:
		return nil
	case 1:
		return []byte{}
	case 2, 3, 4:
		n = 1 + g.R.Intn(8)
	case 5, 6:
		n = 100 + g.R.Intn(200)
	default:
		n = g.R.Intn(maxLarge + 1)
	}
	b := make([]byte, n)
	g.R.Read(b)
	return b
}

func Hex(b []byte) string {
	if len(b) == 0 {
		return "-"
	}
	return hex.EncodeToString(b)
}

func U(v uint64) string { return strconv.FormatUint(v, 10) }

func B(v bool) string {
	if v {
		return "1"
	}
	return "0"
}
